(* C05: proofs about the htpasswd back-end model (Model/Htpasswd.v).  `ext_verify` (passlib /
   bcrypt) is a Section variable: every theorem holds for every behaviour of the hash libraries. *)
From Coq Require Import List NArith Bool String Lia.
Import ListNotations.
Require Import RV.Lib.PyStr RV.Model.C05Text RV.Model.Htpasswd.
Require Import RV.Proofs.PyStrLemmas.
Open Scope N_scope.

(* ------------------------------------------------------------------ tables *)
Lemma lookup_app : forall t l d k,
  lookup (t ++ [(l, d)]) k =
  match lookup t k with Some v => Some v | None => if eqs l k then Some d else None end.
Proof.
  induction t as [|[a b] r IH]; intros l d k; simpl.
  - reflexivity.
  - destruct (eqs a k); [reflexivity|apply IH].
Qed.

Lemma eqs_true_eq : forall a b, eqs a b = true -> a = b.
Proof. intros a b H; apply eqs_eq; exact H. Qed.

(* ------------------------------------------------------------------ the re-read *)
(* A re-read never fails, leaves bcrypt_use alone, and the resulting dict maps a login to the first
   entry line for it that is not dropped. *)
Lemma read_lines_reread : forall hb lines tab buse,
  exists tab', read_lines false hb lines tab buse = Some (tab', buse) /\
    forall k, lookup tab' k =
      match lookup tab k with Some v => Some v | None => first_entry hb lines k end.
Proof.
  intros hb lines; induction lines as [|line rest IH]; intros tab buse; simpl.
  - exists tab. split; [reflexivity|]. intros k. destruct (lookup tab k); reflexivity.
  - destruct (classify_line line) as [| | |l d] eqn:Ec; try apply IH.
    destruct (lookup tab l) as [v|] eqn:El.
    + destruct (IH tab buse) as [tab' [H1 H2]]. exists tab'. split; [exact H1|].
      intros k. rewrite H2. destruct (lookup tab k) eqn:Ek; [reflexivity|].
      destruct (eqs l k) eqn:Elk; [|reflexivity].
      apply eqs_true_eq in Elk. subst. congruence.
    + destruct (bcrypt_shaped d) eqn:Eb; [destruct hb|].
      * destruct (IH (tab ++ [(l, d)]) buse) as [tab' [H1 H2]]. exists tab'. split; [exact H1|].
        intros k. rewrite H2, lookup_app. destruct (lookup tab k); [reflexivity|].
        cbn [orb andb]. rewrite andb_true_r. destruct (eqs l k); reflexivity.
      * destruct (IH tab buse) as [tab' [H1 H2]]. exists tab'. split; [exact H1|].
        intros k. rewrite H2. destruct (lookup tab k); [reflexivity|].
        cbn [orb negb andb]. rewrite andb_false_r. reflexivity.
      * destruct (IH (tab ++ [(l, d)]) buse) as [tab' [H1 H2]]. exists tab'. split; [exact H1|].
        intros k. rewrite H2, lookup_app. destruct (lookup tab k); [reflexivity|].
        cbn [negb]. rewrite orb_true_r, andb_true_r. destruct (eqs l k); reflexivity.
Qed.

Lemma read_file_reread : forall hb t sz mt,
  exists tab, read_file false hb {| f_text := FText t; f_size := sz; f_mtime := mt |} = ROk tab 0 /\
    forall k, lookup tab k = first_entry hb (file_lines t) k.
Proof.
  intros hb t sz mt. unfold read_file. cbn [f_text].
  destruct (read_lines_reread hb (file_lines t) [] 0) as [tab [H1 H2]].
  exists tab. rewrite H1. split; [reflexivity|]. intros k. rewrite H2. reflexivity.
Qed.

(* what first_entry finds is a genuine entry of the file: declarative reading *)
Lemma first_entry_spec : forall hb lines l h,
  first_entry hb lines l = Some h <->
  exists pre line post, lines = pre ++ line :: post /\ classify_line line = LEntry l h /\
    (hb = true \/ bcrypt_shaped h = false) /\
    (forall line' h', In line' pre -> classify_line line' = LEntry l h' ->
                      hb = false /\ bcrypt_shaped h' = true).
Proof.
  intros hb lines l h. induction lines as [|line rest IH]; simpl.
  - split; [discriminate|]. intros (pre & ln & post & H & _). destruct pre; discriminate.
  - split.
    + intros H. destruct (classify_line line) as [| | |l' d] eqn:Ec.
      1-3: apply IH in H as (pre & ln & post & H1 & H2 & H3 & H4);
        exists (line :: pre), ln, post; (split; [simpl; f_equal; exact H1|]); (split; [exact H2|]);
        (split; [exact H3|]); intros line' h' [<-|Hin] Hc; [congruence|eauto].
      destruct (eqs l' l && (hb || negb (bcrypt_shaped d))) eqn:Ecnd.
      * inversion H; subst d. apply andb_true_iff in Ecnd as [E1 E2]. apply eqs_true_eq in E1. subst l'.
        exists [], line, rest. split; [reflexivity|]. split; [exact Ec|]. split.
        { apply orb_true_iff in E2 as [E2|E2]; [left; exact E2|right; apply negb_true_iff; exact E2]. }
        intros line' h' [].
      * apply IH in H as (pre & ln & post & H1 & H2 & H3 & H4).
        exists (line :: pre), ln, post. split; [simpl; f_equal; exact H1|]. split; [exact H2|].
        split; [exact H3|]. intros line' h' [<-|Hin] Hc; [|eauto].
        rewrite Ec in Hc. inversion Hc; subst. rewrite eqs_refl in Ecnd. cbn [andb] in Ecnd.
        apply orb_false_iff in Ecnd as [E1 E2]. apply negb_false_iff in E2. auto.
    + intros (pre & ln & post & H1 & H2 & H3 & H4). destruct pre as [|p pre].
      * simpl in H1. inversion H1; subst. rewrite H2, eqs_refl. cbn [andb].
        destruct H3 as [->|H3]; [reflexivity|]. rewrite H3. cbn [negb]. rewrite orb_true_r. reflexivity.
      * simpl in H1. inversion H1; subst.
        assert (Hrest : first_entry hb (pre ++ ln :: post) l = Some h).
        { apply IH. exists pre, ln, post. split; [reflexivity|]. split; [exact H2|]. split; [exact H3|].
          intros line' h' Hin Hc. apply (H4 line' h'); [right; exact Hin|exact Hc]. }
        destruct (classify_line p) as [| | |l' d] eqn:Ec; try exact Hrest.
        destruct (eqs l' l) eqn:El; [|exact Hrest].
        apply eqs_true_eq in El. subst l'.
        destruct (H4 p d (or_introl eq_refl) Ec) as [-> Hd]. rewrite Hd. cbn. exact Hrest.
Qed.

Lemma classify_entry_nonempty : forall line l d, classify_line line = LEntry l d -> l <> [] /\ d <> [].
Proof.
  intros line l d H. unfold classify_line in H.
  destruct (negb (nonempty (py_lstrip line)) || startswith (py_lstrip line) [hash_sign]); [discriminate|].
  destruct (split1 colon line) as [a [b|]]; [|discriminate].
  destruct (negb (nonempty a) || negb (nonempty b)) eqn:E; [discriminate|].
  inversion H; subst. apply orb_false_iff in E as [E1 E2].
  apply negb_false_iff in E1, E2. split; intros ->; discriminate.
Qed.

Lemma first_entry_nonempty : forall hb lines l h, first_entry hb lines l = Some h -> l <> [] /\ h <> [].
Proof.
  intros hb lines l h H. apply first_entry_spec in H as (pre & ln & post & _ & Hc & _).
  eapply classify_entry_nonempty; exact Hc.
Qed.

Lemma first_entry_not_shaped : forall lines l h, first_entry false lines l = Some h -> bcrypt_shaped h = false.
Proof.
  intros lines l h H. apply first_entry_spec in H as (pre & ln & post & _ & _ & [H|H] & _); [discriminate|exact H].
Qed.

(* ------------------------------------------------------------------ the start-up read *)
Lemma read_lines_buse_mono : forall init hb lines tab b tab' b',
  read_lines init hb lines tab b = Some (tab', b') -> b <= b'.
Proof.
  intros init hb lines; induction lines as [|line rest IH]; intros tab b tab' b' H; simpl in H.
  - inversion H; lia.
  - destruct (classify_line line) as [| | |l d]; [eauto| | |].
    1-2: destruct init; [discriminate|eauto].
    destruct (lookup tab l); [destruct init; [discriminate|eauto]|].
    destruct (bcrypt_shaped d); [|eauto].
    destruct init; [apply IH in H; lia|]. destruct hb; eauto.
Qed.

(* a start-up read that succeeds produced exactly the table a re-read produces, provided bcrypt-shaped
   entries are not dropped by the re-read (module loaded) or there are none *)
Lemma read_lines_init_reread : forall hb lines tab b tab' b' b0,
  read_lines true false lines tab b = Some (tab', b') -> (hb = true \/ b' = b) ->
  read_lines false hb lines tab b0 = Some (tab', b0).
Proof.
  intros hb lines; induction lines as [|line rest IH]; intros tab b tab' b' b0 H Hc; simpl in *.
  - inversion H; reflexivity.
  - destruct (classify_line line) as [| | |l d]; [eauto|discriminate|discriminate|].
    destruct (lookup tab l); [discriminate|].
    destruct (bcrypt_shaped d); [|eauto].
    destruct Hc as [->|Hc]; [eapply IH; [exact H|left; reflexivity]|].
    apply read_lines_buse_mono in H. lia.
Qed.

Section VerifyProofs.
  Variable ext_verify : scheme -> pystr -> pystr -> vres.

  Notation run_verify := (run_verify ext_verify).
  Notation verify_as := (verify_as ext_verify).
  Notation check_entry := (check_entry ext_verify).
  Notation hlogin := (hlogin ext_verify).

  (* ---------------------------------------------------------------- scheme dispatch *)
  Lemma run_verify_detect : forall e st h pw, dispatch_ok e st h ->
    run_verify e st h pw = verify_as (detect e h) h pw.
  Proof.
    intros e st h pw Hok. destruct e; try reflexivity.
    unfold Htpasswd.run_verify, Htpasswd.verify_as, detect, v_autodetect, v_md5, v_sha256, v_sha512, v_bcrypt, v_bcrypt_unavailable.
    cbn [andb].
    destruct (startswith h (str "$apr1$")); [destruct (len h =? 37); reflexivity|].
    destruct (bcrypt_prefix h) eqn:Ep.
    - destruct (Hok eq_refl Ep) as [Hvb Hhb]. rewrite Hvb. cbn [negb].
      unfold bcrypt_shaped in Hhb. rewrite Ep in Hhb. cbn [andb] in Hhb.
      destruct (h_has_bcrypt st); [destruct (len h =? 60); reflexivity|].
      destruct Hhb as [Hhb|Hhb]; [discriminate|]. rewrite Hhb. reflexivity.
    - destruct (startswith h (str "$5$")); [destruct (len h =? 63); reflexivity|].
      destruct (startswith h (str "$6$")); [destruct (len h =? 106); reflexivity|reflexivity].
  Qed.

  (* AttributeError only for an unbound _verify_bcrypt; otherwise a raise is the library's *)
  Lemma run_verify_raise : forall e st h pw, dispatch_ok e st h ->
    run_verify e st h pw = VRaise -> exists s h', s <> SPlain /\ ext_verify s h' pw = VRaise.
  Proof.
    intros e st h pw Hok H. rewrite (run_verify_detect _ _ _ _ Hok) in H.
    destruct (detect e h) eqn:Ed; cbn in H.
    - unfold plain in H. destruct (eqs h pw); discriminate.
    - exists SMd5, (py_strip h). split; [discriminate|exact H].
    - exists SSha256, (py_strip h). split; [discriminate|exact H].
    - exists SSha512, (py_strip h). split; [discriminate|exact H].
    - exists SBcrypt, h. split; [discriminate|exact H].
  Qed.

  (* ---------------------------------------------------------------- one attempt against a table *)
  Lemma check_entry_user : forall e st tab l pw u,
    check_entry e st tab l pw = LUser u <->
    u = l /\ exists h, lookup tab l = Some h /\ run_verify e st h pw = VTrue.
  Proof.
    intros e st tab l pw u. unfold Htpasswd.check_entry.
    destruct (lookup tab l) as [h|].
    - destruct (run_verify e st h pw) eqn:Ev; split; intros H; try discriminate.
      + inversion H; subst. split; [reflexivity|]. exists h. auto.
      + destruct H as [-> _]. reflexivity.
      + destruct H as [_ [h' [Hh Hv]]]. inversion Hh; subst. congruence.
      + destruct H as [_ [h' [Hh Hv]]]. inversion Hh; subst. congruence.
      + destruct H as [_ [h' [Hh Hv]]]. inversion Hh; subst. congruence.
    - split; [discriminate|]. intros [_ [h [Hh _]]]. discriminate.
  Qed.

  Lemma check_entry_raise : forall e st tab l pw,
    check_entry e st tab l pw = LRaise ->
    exists h, lookup tab l = Some h /\ run_verify e st h pw = VRaise.
  Proof.
    intros e st tab l pw H. unfold Htpasswd.check_entry in H.
    destruct (lookup tab l) as [h|]; [|discriminate].
    exists h. split; [reflexivity|]. destruct (run_verify e st h pw); try discriminate. reflexivity.
  Qed.

  (* ---------------------------------------------------------------- C05_htpasswd, file read at every login *)
  Lemma entry_dispatch_ok : forall cfg st lines l h, flags_ok cfg st ->
    first_entry (h_has_bcrypt st) lines l = Some h -> dispatch_ok (h_enc cfg) st h.
  Proof.
    intros cfg st lines l h Hf He Ha Hp. split; [apply Hf; exact Ha|].
    destruct (h_has_bcrypt st) eqn:Eb; [left; reflexivity|right].
    eapply first_entry_not_shaped; exact He.
  Qed.

  Theorem c05_htpasswd_nocache : forall cfg st t sz mt l pw u,
    h_cache cfg = false -> flags_ok cfg st ->
    (snd (hlogin cfg st (present t sz mt) l pw) = LUser u <->
     u = l /\ exists h, first_entry (h_has_bcrypt st) (file_lines t) l = Some h /\ h <> [] /\
                        verify_as (detect (h_enc cfg) h) h pw = VTrue).
  Proof.
    intros cfg st t sz mt l pw u Hc Hf. unfold Htpasswd.hlogin. rewrite Hc.
    destruct (read_file_reread (h_has_bcrypt st) t sz mt) as [tab [Hr Hl]].
    unfold present. rewrite Hr. cbn [snd]. rewrite check_entry_user. rewrite Hl.
    split.
    - intros [-> [h [H1 H2]]]. split; [reflexivity|]. exists h. split; [exact H1|].
      split; [apply (first_entry_nonempty _ _ _ _ H1)|].
      rewrite <- (run_verify_detect (h_enc cfg) st h pw); [exact H2|].
      eapply entry_dispatch_ok; eauto.
    - intros [-> [h [H1 [_ H2]]]]. split; [reflexivity|]. exists h. split; [exact H1|].
      rewrite (run_verify_detect (h_enc cfg) st h pw); [exact H2|].
      eapply entry_dispatch_ok; eauto.
  Qed.

  (* no crash of our own making: with the patched start-up a login raises only if the file is
     unreadable or the hash library itself raises something that is not a ValueError *)
  Theorem c05_htpasswd_no_crash : forall cfg st t sz mt l pw,
    h_cache cfg = false -> flags_ok cfg st ->
    snd (hlogin cfg st (present t sz mt) l pw) = LRaise ->
    exists s h, s <> SPlain /\ ext_verify s h pw = VRaise.
  Proof.
    intros cfg st t sz mt l pw Hc Hf H. unfold Htpasswd.hlogin in H. rewrite Hc in H.
    destruct (read_file_reread (h_has_bcrypt st) t sz mt) as [tab [Hr Hl]].
    unfold present in H. rewrite Hr in H. cbn [snd] in H.
    apply check_entry_raise in H as [h [H1 H2]]. rewrite Hl in H1.
    eapply run_verify_raise; [|exact H2]. eapply entry_dispatch_ok; eauto.
  Qed.

  (* the state is not changed by a login when the cache is off *)
  Theorem c05_htpasswd_nocache_state : forall cfg st f l pw,
    h_cache cfg = false -> fst (hlogin cfg st f l pw) = st.
  Proof.
    intros cfg st f l pw Hc. unfold Htpasswd.hlogin. rewrite Hc.
    destruct (read_file false (h_has_bcrypt st) f); reflexivity.
  Qed.

  (* ---------------------------------------------------------------- cache mode *)
  (* With the cache on, a login sees the file as it is now -- provided the cache is coherent or the
     stamp (size, mtime_ns) shows the change.  (A change that keeps both is invisible to the cache by
     design: that is the documented detection rule, and the hypothesis says so.) *)
  Theorem c05_htpasswd_cache : forall cfg st t sz mt l pw u,
    h_cache cfg = true -> flags_ok cfg st ->
    let f := present t sz mt in
    (stamp_differs st f = true \/ coherent st f) ->
    (snd (hlogin cfg st f l pw) = LUser u <->
     u = l /\ exists h, first_entry (h_has_bcrypt st) (file_lines t) l = Some h /\ h <> [] /\
                        verify_as (detect (h_enc cfg) h) h pw = VTrue)
    /\ coherent (fst (hlogin cfg st f l pw)) f
    /\ flags_ok cfg (fst (hlogin cfg st f l pw))
    /\ h_has_bcrypt (fst (hlogin cfg st f l pw)) = h_has_bcrypt st.
  Proof.
    intros cfg st t sz mt l pw u Hc Hf f Hcoh. subst f.
    destruct (read_file_reread (h_has_bcrypt st) t sz mt) as [tab [Hr Hl]].
    unfold Htpasswd.hlogin. rewrite Hc. unfold present in *. cbn [f_text f_size f_mtime].
    unfold stamp_differs in Hcoh. cbn [f_size f_mtime] in Hcoh.
    assert (Hmain : forall st', h_has_bcrypt st' = h_has_bcrypt st -> h_vb_bound st' = h_vb_bound st ->
              (check_entry (h_enc cfg) st' tab l pw = LUser u <->
               u = l /\ exists h, first_entry (h_has_bcrypt st) (file_lines t) l = Some h /\ h <> [] /\
                                  verify_as (detect (h_enc cfg) h) h pw = VTrue)).
    { intros st' Hb Hv. assert (Hf' : flags_ok cfg st') by (intros Ha; rewrite Hv; apply Hf; exact Ha).
      rewrite check_entry_user. split.
      - intros [-> [h [H1 H2]]]. rewrite Hl in H1. split; [reflexivity|]. exists h. split; [exact H1|].
        split; [apply (first_entry_nonempty _ _ _ _ H1)|].
        rewrite <- (run_verify_detect (h_enc cfg) st' h pw); [exact H2|].
        eapply entry_dispatch_ok; [exact Hf'|rewrite Hb; exact H1].
      - intros [-> [h [H1 [_ H2]]]]. split; [reflexivity|]. exists h. rewrite Hl. split; [exact H1|].
        rewrite (run_verify_detect (h_enc cfg) st' h pw); [exact H2|].
        eapply entry_dispatch_ok; [exact Hf'|rewrite Hb; exact H1]. }
    destruct (negb (sz =? h_size st) || negb (mt =? h_mtime st)) eqn:Es.
    - rewrite Hr. cbn [fst snd]. split; [apply Hmain; reflexivity|].
      split; [exists 0; cbn [h_has_bcrypt h_tab]; exact Hr|].
      split; [intros Ha; cbn; apply Hf; exact Ha|reflexivity].
    - destruct Hcoh as [Hcoh|[b Hcoh]]; [discriminate|]. cbn [fst snd].
      rewrite Hr in Hcoh. inversion Hcoh as [[Htab Hb]].
      split; [rewrite <- Htab; apply Hmain; reflexivity|].
      split; [exists 0; rewrite Hr, Htab; reflexivity|]. split; [exact Hf|reflexivity].
  Qed.

  (* an unchanged stamp means: the cached dict is used as it is (the stale-cache case, stated exactly) *)
  Theorem c05_htpasswd_cache_hit : forall cfg st t sz mt l pw,
    h_cache cfg = true -> stamp_differs st (present t sz mt) = false ->
    hlogin cfg st (present t sz mt) l pw = (st, check_entry (h_enc cfg) st (h_tab st) l pw).
  Proof.
    intros cfg st t sz mt l pw Hc Hs. unfold Htpasswd.hlogin. rewrite Hc.
    unfold stamp_differs, present in *. cbn [f_text f_size f_mtime] in *. rewrite Hs. reflexivity.
  Qed.

  (* a file that cannot be opened authenticates nobody (cache off: at once; cache on: as soon as the stamp shows
     a change -- and the cached dict is then empty) *)
  Theorem c05_htpasswd_unreadable : forall cfg st sz mt l pw,
    let f := {| f_text := FUnreadable; f_size := sz; f_mtime := mt |} in
    (h_cache cfg = false \/ stamp_differs st f = true) ->
    snd (hlogin cfg st f l pw) = LFail /\
    (h_cache cfg = true -> h_tab (fst (hlogin cfg st f l pw)) = []).
  Proof.
    intros cfg st sz mt l pw f [Hc|Hs]; subst f; unfold Htpasswd.hlogin.
    - rewrite Hc. cbn. split; [reflexivity|discriminate].
    - destruct (h_cache cfg); cbn; [|split; [reflexivity|discriminate]].
      unfold stamp_differs in Hs. cbn in Hs. rewrite Hs. cbn. split; reflexivity.
  Qed.

  (* ---------------------------------------------------------------- start-up *)
  Theorem c05_htpasswd_init : forall cfg f st, init cfg f = Some st ->
    flags_ok cfg st
    /\ h_size st = f_size f /\ h_mtime st = f_mtime f
    /\ (h_has_bcrypt st = true <-> (h_enc cfg = EBcrypt \/ h_enc cfg = EAuto) /\ h_module cfg = true)
    /\ exists buse, read_file true false f = ROk (h_tab st) buse
                    /\ ((h_has_bcrypt st = true \/ buse = 0) -> coherent st f).
  Proof.
    intros cfg f st H. unfold init, init_with in H.
    destruct (read_file true false f) as [| |tab buse] eqn:Er; try discriminate.
    assert (Hcoh : forall hb, (hb = true \/ buse = 0) -> read_file false hb f = ROk tab 0).
    { intros hb Hhb. unfold read_file in *. destruct (f_text f) as [| | |t]; try discriminate.
      destruct (read_lines true false (file_lines t) [] 0) as [[tab0 b0]|] eqn:El; [|discriminate].
      inversion Er; subst. erewrite read_lines_init_reread; [reflexivity|exact El|].
      destruct Hhb; auto. }
    destruct (h_enc cfg) eqn:Ee; destruct (h_module cfg) eqn:Em; try discriminate;
      try (destruct (buse =? 0) eqn:Eb; try discriminate);
      inversion H; subst; clear H; unfold flags_ok; rewrite ?Ee, ?Em; cbn;
      (split; [intros Ha; (discriminate || reflexivity)|]);
      (split; [reflexivity|]); (split; [reflexivity|]);
      (split; [split; [intros Hx; (discriminate || (split; auto))
                      | intros [[Hx|Hx] Hy]; (discriminate || reflexivity)]|]);
      exists buse; (split; [reflexivity|]); intros Hh; exists 0; cbn; apply Hcoh; exact Hh.
  Qed.
End VerifyProofs.
