(* C11 -- the inductive invariant of the keyed FIFO lock (Model/LockDict.v): any number of threads and keys. *)
From Coq Require Import List Arith Bool Lia.
Import ListNotations.
Require Import RV.Model.C11Base RV.Proofs.C11BaseLemmas RV.Model.LockDict.

Definition lthr_at (s : lstate) (t : nat) (th : lthread) : Prop := nth_error (thr s) t = Some th.

(* the owner of the mutex is about to release the waiter lock at the head of deque d *)
Definition wake_pending (s : lstate) (d : nat) : Prop :=
  exists u thu, d_mutex (glob s) = Some u /\ lthr_at s u thu /\ l_pc thu = D_Wake /\ l_dq thu = d.

Record LInv (s : lstate) : Prop := {
  li_mx_own : forall t th, lthr_at s t th -> lowns_mutex (l_pc th) = true -> d_mutex (glob s) = Some t;
  li_mx_some : forall t, d_mutex (glob s) = Some t -> exists th, lthr_at s t th /\ lowns_mutex (l_pc th) = true;
  li_bound : forall k d, lookup k (d_dict (glob s)) = Some d -> d < List.length (d_deques (glob s));
  li_inj : forall k k' d, lookup k (d_dict (glob s)) = Some d -> lookup k' (d_dict (glob s)) = Some d -> k = k';
  li_ref : forall t th, lthr_at s t th -> refs_pc (l_pc th) = true ->
      lookup (l_key th) (d_dict (glob s)) = Some (l_dq th);
  li_enq : forall t th, lthr_at s t th -> enq_pc (l_pc th) = true -> In t (dq (glob s) (l_dq th));
  li_mem : forall k d u, lookup k (d_dict (glob s)) = Some d -> In u (dq (glob s) d) ->
      exists thu, lthr_at s u thu /\ enq_pc (l_pc thu) = true /\ l_key thu = k /\ l_dq thu = d;
  li_nodup : forall k d, lookup k (d_dict (glob s)) = Some d -> NoDup (dq (glob s) d);
  li_rest : forall k d x rest u thu, lookup k (d_dict (glob s)) = Some d -> dq (glob s) d = x :: rest -> In u rest ->
      lthr_at s u thu -> parked (glob s) u thu;
  li_head : forall k d x rest thx, lookup k (d_dict (glob s)) = Some d -> dq (glob s) d = x :: rest -> lthr_at s x thx ->
      entered thx = true \/ woken (glob s) x thx \/ (parked (glob s) x thx /\ wake_pending s d);
  li_empty : forall k d, lookup k (d_dict (glob s)) = Some d -> dq (glob s) d = [] ->
      exists u thu, d_mutex (glob s) = Some u /\ lthr_at s u thu /\ l_pc thu = D_WInit /\ l_dq thu = d;
  li_winit : forall t th, lthr_at s t th -> l_pc th = D_WInit -> l_wait th = negb (is_nil (dq (glob s) (l_dq th)));
  li_wake : forall t th, lthr_at s t th -> l_pc th = D_Wake ->
      exists x rest thx, dq (glob s) (l_dq th) = x :: rest /\ lthr_at s x thx /\ parked (glob s) x thx;
  li_nofail : forall t th, lthr_at s t th -> lfailed_pc (l_pc th) = false
}.

(* ------------------------------------------------------------------ dict and deque heap *)
Lemma lookup_remove_eq : forall k d, lookup k (remove_key k d) = None.
Proof.
  induction d as [|[k' v] r IH]; simpl; auto. destruct (Nat.eqb k k') eqn:E; auto. simpl. rewrite E. auto.
Qed.

Lemma lookup_remove_neq : forall k k' d, k <> k' -> lookup k' (remove_key k d) = lookup k' d.
Proof.
  induction d as [|[k0 v] r IH]; simpl; intros H; auto.
  destruct (Nat.eqb k k0) eqn:E.
  - apply Nat.eqb_eq in E. subst. destruct (Nat.eqb k' k0) eqn:E2; auto. apply Nat.eqb_eq in E2. congruence.
  - simpl. destruct (Nat.eqb k' k0); auto.
Qed.

Lemma nth_app_nil : forall A (l : list (list A)) d, nth d (l ++ [[]]) [] = nth d l [].
Proof.
  induction l as [|a l IH]; intros [|d]; simpl; auto. destruct d; auto.
Qed.

Lemma nth_upd_eq'' : forall A (l : list A) i x d, i < List.length l -> nth i (upd i x l) d = x.
Proof. induction l as [|a l IH]; intros [|i] x d H; simpl in *; try lia; auto. apply IH. lia. Qed.
Lemma nth_upd_neq'' : forall A (l : list A) i j x d, i <> j -> nth j (upd i x l) d = nth j l d.
Proof. induction l as [|a l IH]; intros [|i] [|j] x d H; simpl; auto; try congruence. Qed.

(* ------------------------------------------------------------------ initial states *)
Lemma lstart_pc : forall p, l_pc (lstart p) = D_Lock \/ l_pc (lstart p) = D_Done.
Proof. destruct p; simpl; auto. Qed.

Lemma linit_thr_at : forall progs t th, lthr_at (linit progs) t th -> l_pc th = D_Lock \/ l_pc th = D_Done.
Proof.
  unfold lthr_at, linit. simpl. intros progs t th H.
  apply nth_error_In in H. apply in_map_iff in H. destruct H as (p & <- & _). apply lstart_pc.
Qed.

Lemma LInv_init : forall progs, LInv (linit progs).
Proof.
  intros progs. constructor; simpl; try discriminate.
  - intros t th H Ho. apply linit_thr_at in H. destruct H as [E|E]; rewrite E in Ho; discriminate.
  - intros t th H Ho. apply linit_thr_at in H. destruct H as [E|E]; rewrite E in Ho; discriminate.
  - intros t th H Ho. apply linit_thr_at in H. destruct H as [E|E]; rewrite E in Ho; discriminate.
  - intros t th H Ho. apply linit_thr_at in H. destruct H as [E|E]; congruence.
  - intros t th H Ho. apply linit_thr_at in H. destruct H as [E|E]; congruence.
  - intros t th H. apply linit_thr_at in H. destruct H as [E|E]; rewrite E; reflexivity.
Qed.

(* ------------------------------------------------------------------ step decomposition *)
Ltac linv_some :=
  repeat match goal with
         | H : Some _ = Some _ |- _ => inversion H; subst; clear H
         | H : None = Some _ |- _ => discriminate H
         end.

Ltac lstep_cases H :=
  let th := fresh "th" in let g' := fresh "g'" in let th' := fresh "th'" in
  let Hth := fresh "Hth" in let Hts := fresh "Hts" in let Epc := fresh "Epc" in
  apply step_inv in H; destruct H as (th & g' & th' & Hth & Hts & ->);
  unfold ltstep in Hts; destruct (l_pc th) eqn:Epc;
  repeat match type of Hts with
         | context [match d_mutex ?g with _ => _ end] => let E := fresh "Emx" in destruct (d_mutex g) eqn:E
         | context [match lookup ?a ?b with _ => _ end] => let E := fresh "Elk" in destruct (lookup a b) eqn:E
         | context [if memb ?a ?b then _ else _] => let E := fresh "Emem" in destruct (memb a b) eqn:E
         | context [match dq ?g ?d with _ => _ end] => let E := fresh "Edq" in destruct (dq g d) eqn:E
         | context [if ?a && ?b then _ else _] => let E := fresh "Eas" in destruct (a && b) eqn:E
         | context [match ?l with [] => _ | _ :: _ => _ end] => is_var l; destruct l
         end; linv_some.

Ltac lown_fact I Hth Epc :=
  try (assert (d_mutex (glob _) = Some _) as Hmine
         by (eapply (li_mx_own _ I); [exact Hth | rewrite Epc; reflexivity])).

Ltac lsplit_thr H :=
  unfold lthr_at in H; simpl in H; apply nth_upd_inv in H;
  destruct H as [(? & ? & _)|(? & H)]; subst.

Lemma lstep_mx_own : forall s t s', LInv s -> lstep s t = Some s' ->
  forall t0 th0, lthr_at s' t0 th0 -> lowns_mutex (l_pc th0) = true -> d_mutex (glob s') = Some t0.
Proof.
  intros s t s' I H. lstep_cases H; lown_fact I Hth Epc; intros t0 th0 H0 Ho; lsplit_thr H0;
    unfold lnext_cycle in *; simpl in *;
    try discriminate; try reflexivity; try assumption;
    try (pose proof (li_mx_own _ I _ _ H0 Ho); congruence);
    try (destruct (l_wait th); discriminate);
    try (destruct (l_todo th); discriminate).
Qed.

Lemma lstep_mx_some : forall s t s', LInv s -> lstep s t = Some s' ->
  forall t0, d_mutex (glob s') = Some t0 -> exists th0, lthr_at s' t0 th0 /\ lowns_mutex (l_pc th0) = true.
Proof.
  intros s t s' I H. lstep_cases H; lown_fact I Hth Epc; intros t0 Hm; unfold lthr_at; simpl in *;
    try discriminate;
    (destruct (Nat.eq_dec t0 t) as [->|Hne];
     [ eexists; split; [eapply nth_upd_eq; eauto|]; unfold lnext_cycle; simpl; try reflexivity
     | rewrite nth_upd_neq by auto; try (apply (li_mx_some _ I); assumption) ]);
    try congruence.
  destruct (li_mx_some _ I _ Hm) as (th0 & H1 & H2). unfold lthr_at in H1. rewrite Hth in H1.
  inversion H1; subst. rewrite Epc in H2. discriminate.
Qed.

(* ------------------------------------------------------------------ the release path never raises *)
Lemma del_ok : forall s t th, LInv s -> lthr_at s t th -> l_pc th = D_Del ->
  exists rest, dq (glob s) (l_dq th) = t :: rest /\ lookup (l_key th) (d_dict (glob s)) = Some (l_dq th).
Proof.
  intros s t th I Ht Epc.
  assert (lookup (l_key th) (d_dict (glob s)) = Some (l_dq th)) as Hl by (eapply li_ref; eauto; rewrite Epc; reflexivity).
  assert (In t (dq (glob s) (l_dq th))) as Hin by (eapply li_enq; eauto; rewrite Epc; reflexivity).
  destruct (dq (glob s) (l_dq th)) as [|x rest] eqn:E; [contradiction|].
  destruct Hin as [->|Hin]; [eauto|].
  exfalso. destruct (li_rest _ I _ _ _ _ _ _ Hl E Hin Ht) as (_ & Hw & _). rewrite Epc in Hw. discriminate.
Qed.

Lemma wake_ok : forall s t th, LInv s -> lthr_at s t th -> l_pc th = D_Wake ->
  exists x rest, dq (glob s) (l_dq th) = x :: rest /\ memb x (d_unlocked (glob s)) = false.
Proof.
  intros s t th I Ht Epc. destruct (li_wake _ I _ _ Ht Epc) as (x & rest & thx & E & _ & (_ & _ & Hn)).
  exists x, rest. split; auto. destruct (memb x (d_unlocked (glob s))) eqn:Em; auto. apply memb_In in Em. contradiction.
Qed.

Lemma opt_is_refl : forall d, opt_is Nat.eqb (Some d) d = true.
Proof. intros. simpl. apply Nat.eqb_refl. Qed.

(* step decomposition in which the raising branches are already excluded *)
Ltac lstep_ok I H :=
  lstep_cases H;
  try match goal with
      | Epc : l_pc ?th = D_Del, Hth : nth_error _ ?t = Some ?th |- _ =>
          let rest := fresh "rest" in let E1 := fresh "E1" in let E2 := fresh "E2" in
          destruct (del_ok _ _ _ I Hth Epc) as (rest & E1 & E2);
          match goal with
          | Edq : dq _ _ = [] |- _ => rewrite Edq in E1; discriminate E1
          | Edq : dq _ _ = ?n :: ?l |- _ =>
              rewrite Edq in E1; let Ea := fresh in let Eb := fresh in
              injection E1 as Ea Eb; try subst n; try subst l; try subst rest
          end;
          try match goal with
              | Eas : _ && _ = false |- _ => rewrite E2, Nat.eqb_refl, opt_is_refl in Eas; discriminate Eas
              end
      | Epc : l_pc ?th = D_Wake, Hth : nth_error _ ?t = Some ?th |- _ =>
          let x := fresh "x" in let rest := fresh "rest" in let E1 := fresh "E1" in let E2 := fresh "E2" in
          destruct (wake_ok _ _ _ I Hth Epc) as (x & rest & E1 & E2);
          match goal with
          | Edq : dq _ _ = [] |- _ => rewrite Edq in E1; discriminate E1
          | Edq : dq _ _ = ?n :: ?l |- _ =>
              rewrite Edq in E1; let Ea := fresh in let Eb := fresh in
              injection E1 as Ea Eb; try subst n; try subst l
          end;
          try match goal with
              | Emem : memb _ _ = true |- _ => rewrite Emem in E2; discriminate E2
              end
      | Epc : l_pc ?th = D_ErrUnlock, Hth : nth_error _ ?t = Some ?th |- _ =>
          exfalso; let X := fresh in pose proof (li_nofail _ I _ _ Hth) as X; rewrite Epc in X; discriminate X
      end.

Lemma lstep_nofail : forall s t s', LInv s -> lstep s t = Some s' ->
  forall t0 th0, lthr_at s' t0 th0 -> lfailed_pc (l_pc th0) = false.
Proof.
  intros s t s' I H. lstep_ok I H; intros t0 th0 H0; lsplit_thr H0; unfold lnext_cycle; simpl;
    try reflexivity; try (apply (li_nofail _ I _ _ H0));
    try (destruct (l_wait th); reflexivity); try (destruct (l_todo th); reflexivity).
Qed.

Lemma lookup_remove_some : forall k k' d v, lookup k' (remove_key k d) = Some v -> k' <> k /\ lookup k' d = Some v.
Proof.
  intros k k' d v H. destruct (Nat.eq_dec k' k) as [->|Hne].
  - rewrite lookup_remove_eq in H. discriminate.
  - split; auto. rewrite lookup_remove_neq in H by auto. auto.
Qed.

Lemma lstep_dict : forall s t s', LInv s -> lstep s t = Some s' ->
  (forall k d, lookup k (d_dict (glob s')) = Some d -> d < List.length (d_deques (glob s'))) /\
  (forall k k' d, lookup k (d_dict (glob s')) = Some d -> lookup k' (d_dict (glob s')) = Some d -> k = k').
Proof.
  intros s t s' I H. pose proof (li_bound _ I) as HB. pose proof (li_inj _ I) as HI.
  lstep_ok I H; simpl; rewrite ?upd_length; try (split; assumption).
  - (* D_Get, new deque *)
    split.
    + intros k d Hl. rewrite app_length. simpl. destruct (Nat.eqb k (l_key th)).
      * inversion Hl. lia.
      * specialize (HB _ _ Hl). lia.
    + intros k k' d H1 H2. destruct (Nat.eqb k (l_key th)) eqn:E1; destruct (Nat.eqb k' (l_key th)) eqn:E2.
      * apply Nat.eqb_eq in E1. apply Nat.eqb_eq in E2. congruence.
      * inversion H1; subst. specialize (HB _ _ H2). lia.
      * inversion H2; subst. specialize (HB _ _ H1). lia.
      * eapply HI; eauto.
  - (* D_Del, last one out: the entry is removed *)
    split.
    + intros k d Hl. apply lookup_remove_some in Hl. destruct Hl as [_ Hl]. eapply HB; eauto.
    + intros k k' d H1 H2. apply lookup_remove_some in H1. apply lookup_remove_some in H2.
      destruct H1 as [_ H1]. destruct H2 as [_ H2]. eapply HI; eauto.
Qed.

Lemma refs_cases : forall p, refs_pc p = true -> enq_pc p = true \/ p = D_WInit \/ p = D_Wake.
Proof. destruct p; simpl; intros; auto; discriminate. Qed.

Lemma lstep_ref : forall s t s', LInv s -> lstep s t = Some s' ->
  forall t0 th0, lthr_at s' t0 th0 -> refs_pc (l_pc th0) = true ->
    lookup (l_key th0) (d_dict (glob s')) = Some (l_dq th0).
Proof.
  intros s t s' I H. pose proof (li_ref _ I) as HR.
  lstep_ok I H; lown_fact I Hth Epc; intros t0 th0 H0 Hr; lsplit_thr H0; unfold lnext_cycle in *; simpl in *;
    try discriminate;
    try (apply (HR _ _ H0 Hr));
    try (apply (HR _ _ Hth); rewrite Epc; reflexivity);
    try (destruct (l_todo th); discriminate).
  - exact Elk.
  - rewrite Nat.eqb_refl. reflexivity.
  - destruct (Nat.eqb (l_key th0) (l_key th)) eqn:E; [|apply (HR _ _ H0 Hr)].
    apply Nat.eqb_eq in E. pose proof (HR _ _ H0 Hr) as Hx. rewrite E in Hx. congruence.
  - (* last one out removes the entry: nobody else refers to that key *)
    pose proof (HR _ _ H0 Hr) as Hx.
    destruct (Nat.eq_dec (l_key th0) (l_key th)) as [E|E]; [|rewrite lookup_remove_neq by auto; exact Hx].
    exfalso. rewrite E in Hx. rewrite E2 in Hx. inversion Hx as [Hd].
    destruct (refs_cases _ Hr) as [He|[He|He]].
    + pose proof (li_enq _ I _ _ H0 He) as Hin. rewrite <- Hd, Edq in Hin. destruct Hin as [->|[]]. congruence.
    + assert (lowns_mutex (l_pc th0) = true) as Ho by (rewrite He; reflexivity).
      pose proof (li_mx_own _ I _ _ H0 Ho). congruence.
    + assert (lowns_mutex (l_pc th0) = true) as Ho by (rewrite He; reflexivity).
      pose proof (li_mx_own _ I _ _ H0 Ho). congruence.
Qed.

Lemma ref_bound : forall s t th, LInv s -> lthr_at s t th -> refs_pc (l_pc th) = true ->
  l_dq th < List.length (d_deques (glob s)).
Proof. intros s t th I Ht Hr. eapply li_bound; eauto. eapply li_ref; eauto. Qed.

Lemma lstep_enq : forall s t s', LInv s -> lstep s t = Some s' ->
  forall t0 th0, lthr_at s' t0 th0 -> enq_pc (l_pc th0) = true -> In t0 (dq (glob s') (l_dq th0)).
Proof.
  intros s t s' I H. pose proof (li_enq _ I) as HE.
  lstep_ok I H; lown_fact I Hth Epc;
    try (assert (l_dq th < List.length (d_deques (glob s))) as Hb by (eapply ref_bound; eauto; rewrite Epc; reflexivity));
    intros t0 th0 H0 He; lsplit_thr H0; unfold lnext_cycle in *; unfold dq in *; simpl in *;
    try discriminate;
    try (apply (HE _ _ H0 He));
    try (apply (HE _ _ Hth); rewrite Epc; reflexivity);
    try (destruct (l_todo th); discriminate).
  - rewrite nth_app_nil. apply (HE _ _ H0 He).
  - rewrite nth_upd_eq'' by auto. apply in_or_app. right. left. reflexivity.
  - destruct (Nat.eq_dec (l_dq th) (l_dq th0)) as [E|E].
    + rewrite <- E. rewrite nth_upd_eq'' by auto. apply in_or_app. left. rewrite E. apply (HE _ _ H0 He).
    + rewrite nth_upd_neq'' by auto. apply (HE _ _ H0 He).
  - destruct (Nat.eq_dec (l_dq th) (l_dq th0)) as [E|E].
    + exfalso. pose proof (HE _ _ H0 He) as Hin. rewrite <- E, Edq in Hin. destruct Hin as [->|[]]. congruence.
    + rewrite nth_upd_neq'' by auto. apply (HE _ _ H0 He).
  - destruct (Nat.eq_dec (l_dq th) (l_dq th0)) as [E|E].
    + rewrite <- E. rewrite nth_upd_eq'' by auto. pose proof (HE _ _ H0 He) as Hin. rewrite <- E, Edq in Hin.
      destruct Hin as [->|Hin]; [congruence|exact Hin].
    + rewrite nth_upd_neq'' by auto. apply (HE _ _ H0 He).
Qed.

(* a thread of the old state that is still the same thread in the new one *)
Lemma mem_keep : forall (s : lstate) t th' g' u thu k d, u <> t -> lthr_at s u thu ->
  enq_pc (l_pc thu) = true /\ l_key thu = k /\ l_dq thu = d ->
  exists thu', lthr_at {| glob := g'; thr := upd t th' (thr s) |} u thu' /\ enq_pc (l_pc thu') = true /\ l_key thu' = k /\ l_dq thu' = d.
Proof. intros. exists thu. unfold lthr_at in *. simpl. rewrite nth_upd_neq by auto. tauto. Qed.

Lemma mem_self : forall (s : lstate) t th th' g' k d, lthr_at s t th ->
  enq_pc (l_pc th') = true /\ l_key th' = k /\ l_dq th' = d ->
  exists thu', lthr_at {| glob := g'; thr := upd t th' (thr s) |} t thu' /\ enq_pc (l_pc thu') = true /\ l_key thu' = k /\ l_dq thu' = d.
Proof. intros. exists th'. unfold lthr_at in *. simpl. split; auto. eapply nth_upd_eq; eauto. Qed.

Lemma lstep_mem : forall s t s', LInv s -> lstep s t = Some s' ->
  forall k d u, lookup k (d_dict (glob s')) = Some d -> In u (dq (glob s') d) ->
    exists thu, lthr_at s' u thu /\ enq_pc (l_pc thu) = true /\ l_key thu = k /\ l_dq thu = d.
Proof.
  intros s t s' I H. pose proof (li_mem _ I) as HM.
  lstep_ok I H; lown_fact I Hth Epc;
    try (assert (l_dq th < List.length (d_deques (glob s))) as Hb by (eapply ref_bound; eauto; rewrite Epc; reflexivity));
    intros k d u Hl Hin; unfold dq in *; simpl in *.
  (* steps that leave dict and deques alone *)
  all: try (destruct (HM _ _ _ Hl Hin) as (thu & Hu & Hq1 & Hq2 & Hq3);
            destruct (Nat.eq_dec u t) as [->|Hne];
            [ unfold lthr_at in Hu; rewrite Hth in Hu; inversion Hu; subst thu;
              first [ rewrite Epc in Hq1; discriminate Hq1
                    | eapply mem_self; eauto; simpl; repeat split; auto; destruct (l_wait th); reflexivity ]
            | eapply mem_keep; eauto ]; fail).
  - (* D_Get, new deque *)
    rewrite nth_app_nil in Hin. destruct (Nat.eqb k (l_key th)) eqn:Ek.
    + inversion Hl; subst. rewrite nth_overflow in Hin by lia. contradiction.
    + destruct (HM _ _ _ Hl Hin) as (thu & Hu & Hq1 & Hq2 & Hq3).
      assert (u <> t) by (intros ->; unfold lthr_at in Hu; rewrite Hth in Hu; inversion Hu; subst; rewrite Epc in Hq1; discriminate).
      eapply mem_keep; eauto.
  - (* D_WInit: t joins the deque *)
    pose proof (li_ref _ I _ _ Hth) as Href. rewrite Epc in Href. specialize (Href eq_refl).
    destruct (Nat.eq_dec (l_dq th) d) as [E|E].
    + subst d. rewrite nth_upd_eq'' in Hin by auto. apply in_app_or in Hin. destruct Hin as [Hin|[<-|[]]].
      * destruct (HM _ _ _ Hl Hin) as (thu & Hu & Hq1 & Hq2 & Hq3).
        assert (u <> t) by (intros ->; unfold lthr_at in Hu; rewrite Hth in Hu; inversion Hu; subst; rewrite Epc in Hq1; discriminate).
        eapply mem_keep; eauto.
      * eapply mem_self; eauto. simpl. repeat split; auto. eapply (li_inj _ I); eauto.
    + rewrite nth_upd_neq'' in Hin by auto. destruct (HM _ _ _ Hl Hin) as (thu & Hu & Hq1 & Hq2 & Hq3).
      assert (u <> t) by (intros ->; unfold lthr_at in Hu; rewrite Hth in Hu; inversion Hu; subst; rewrite Epc in Hq1; discriminate).
      eapply mem_keep; eauto.
  - (* D_Del, last one out *)
    apply lookup_remove_some in Hl. destruct Hl as [Hk Hl].
    assert (l_dq th <> d) as E by (intros <-; apply Hk; eapply (li_inj _ I); eauto).
    rewrite nth_upd_neq'' in Hin by auto. destruct (HM _ _ _ Hl Hin) as (thu & Hu & Hq1 & Hq2 & Hq3).
    assert (u <> t) by (intros ->; unfold lthr_at in Hu; rewrite Hth in Hu; inversion Hu; subst; congruence).
    eapply mem_keep; eauto.
  - (* D_Del, others remain *)
    destruct (Nat.eq_dec (l_dq th) d) as [E|E].
    + subst d. rewrite nth_upd_eq'' in Hin by auto.
      assert (In u (nth (l_dq th) (d_deques (glob s)) [])) as Hin0 by (rewrite Edq; right; exact Hin).
      destruct (HM _ _ _ Hl Hin0) as (thu & Hu & Hq1 & Hq2 & Hq3).
      pose proof (li_nodup _ I _ _ Hl) as ND. unfold dq in ND. rewrite Edq in ND. inversion ND; subst.
      assert (u <> t) by (intros ->; contradiction).
      eapply mem_keep; eauto.
    + rewrite nth_upd_neq'' in Hin by auto. destruct (HM _ _ _ Hl Hin) as (thu & Hu & Hq1 & Hq2 & Hq3).
      assert (u <> t) by (intros ->; unfold lthr_at in Hu; rewrite Hth in Hu; inversion Hu; subst; congruence).
      eapply mem_keep; eauto.
Qed.

Lemma NoDup_snoc : forall (l : list nat) x, NoDup l -> ~ In x l -> NoDup (l ++ [x]).
Proof.
  induction l as [|a l IH]; simpl; intros x ND Hn.
  - constructor; auto; constructor.
  - inversion ND; subst. constructor.
    + rewrite in_app_iff. simpl. intros [Hx|[Hx|[]]]; auto.
    + apply IH; auto.
Qed.

Lemma lstep_nodup : forall s t s', LInv s -> lstep s t = Some s' ->
  forall k d, lookup k (d_dict (glob s')) = Some d -> NoDup (dq (glob s') d).
Proof.
  intros s t s' I H. pose proof (li_nodup _ I) as HN.
  lstep_ok I H; lown_fact I Hth Epc;
    try (assert (l_dq th < List.length (d_deques (glob s))) as Hb by (eapply ref_bound; eauto; rewrite Epc; reflexivity));
    intros k d Hl; unfold dq in *; simpl in *;
    try (eapply HN; eauto; fail).
  - rewrite nth_app_nil. destruct (Nat.eqb k (l_key th)).
    + inversion Hl; subst. rewrite nth_overflow by lia. constructor.
    + eapply HN; eauto.
  - destruct (Nat.eq_dec (l_dq th) d) as [E|E].
    + subst d. rewrite nth_upd_eq'' by auto. apply NoDup_snoc; [eapply HN; eauto|].
      intros Hin. destruct (li_mem _ I _ _ _ Hl Hin) as (thu & Hu & Hq1 & _).
      unfold lthr_at in Hu. rewrite Hth in Hu. inversion Hu; subst. rewrite Epc in Hq1. discriminate.
    + rewrite nth_upd_neq'' by auto. eapply HN; eauto.
  - apply lookup_remove_some in Hl. destruct Hl as [Hk Hl].
    assert (l_dq th <> d) as E by (intros <-; apply Hk; eapply (li_inj _ I); eauto).
    rewrite nth_upd_neq'' by auto. eapply HN; eauto.
  - destruct (Nat.eq_dec (l_dq th) d) as [E|E].
    + subst d. rewrite nth_upd_eq'' by auto. pose proof (HN _ _ Hl) as ND. rewrite Edq in ND. inversion ND; auto.
    + rewrite nth_upd_neq'' by auto. eapply HN; eauto.
Qed.

Lemma lstep_winit : forall s t s', LInv s -> lstep s t = Some s' ->
  forall t0 th0, lthr_at s' t0 th0 -> l_pc th0 = D_WInit -> l_wait th0 = negb (is_nil (dq (glob s') (l_dq th0))).
Proof.
  intros s t s' I H. pose proof (li_winit _ I) as HW.
  lstep_ok I H; lown_fact I Hth Epc; intros t0 th0 H0 Hp; lsplit_thr H0; unfold lnext_cycle in *; unfold dq in *; simpl in *;
    try discriminate;
    try (destruct (l_wait th); discriminate);
    try (destruct (l_todo th); discriminate);
    try (assert (lowns_mutex (l_pc th0) = true) as Ho by (rewrite Hp; reflexivity);
         pose proof (li_mx_own _ I _ _ H0 Ho); congruence);
    try (apply (HW _ _ H0 Hp)).
  - reflexivity.
  - rewrite nth_app_nil, nth_overflow by lia. reflexivity.
Qed.

Lemma lstep_empty : forall s t s', LInv s -> lstep s t = Some s' ->
  forall k d, lookup k (d_dict (glob s')) = Some d -> dq (glob s') d = [] ->
    exists u thu, d_mutex (glob s') = Some u /\ lthr_at s' u thu /\ l_pc thu = D_WInit /\ l_dq thu = d.
Proof.
  intros s t s' I H. pose proof (li_empty _ I) as HE.
  lstep_ok I H; lown_fact I Hth Epc;
    try (assert (l_dq th < List.length (d_deques (glob s))) as Hb by (eapply ref_bound; eauto; rewrite Epc; reflexivity));
    intros k d Hl Hd; unfold dq in *; simpl in *.
  (* dict and deques untouched: the witness of the old state would be a second mutex owner, or survives *)
  all: try (destruct (HE _ _ Hl Hd) as (u & thu & Hm & Hu & Hq1 & Hq2);
            first [ congruence
                  | assert (u = t) by congruence; subst u; unfold lthr_at in Hu; rewrite Hth in Hu; inversion Hu; subst thu;
                    congruence
                  | assert (u <> t) by (intros ->; unfold lthr_at in Hu; rewrite Hth in Hu; inversion Hu; subst thu; congruence);
                    exists u, thu; unfold lthr_at in *; simpl; rewrite nth_upd_neq by auto; auto ]; fail).
  - (* D_Get, new deque: the new entry is the empty one, and t is about to fill it *)
    rewrite nth_app_nil in Hd. destruct (Nat.eqb k (l_key th)).
    + inversion Hl; subst. eexists t, _. split; [exact Hmine|]. split; [unfold lthr_at; simpl; eapply nth_upd_eq; eauto|].
      split; reflexivity.
    + exfalso. destruct (HE _ _ Hl Hd) as (u & thu & Hm & Hu & Hq1 & Hq2).
      assert (u = t) by congruence; subst u. unfold lthr_at in Hu. rewrite Hth in Hu. inversion Hu; subst. congruence.
  - (* D_WInit *)
    exfalso. destruct (Nat.eq_dec (l_dq th) d) as [E|E].
    + subst d. rewrite nth_upd_eq'' in Hd by auto. destruct (nth (l_dq th) (d_deques (glob s)) []); discriminate.
    + rewrite nth_upd_neq'' in Hd by auto. destruct (HE _ _ Hl Hd) as (u & thu & Hm & Hu & Hq1 & Hq2).
      assert (u = t) by congruence; subst u. unfold lthr_at in Hu. rewrite Hth in Hu. inversion Hu; subst. congruence.
  - exfalso. apply lookup_remove_some in Hl. destruct Hl as [Hk Hl].
    assert (l_dq th <> d) as E by (intros <-; apply Hk; eapply (li_inj _ I); eauto).
    rewrite nth_upd_neq'' in Hd by auto. destruct (HE _ _ Hl Hd) as (u & thu & Hm & Hu & Hq1 & Hq2).
    assert (u = t) by congruence; subst u. unfold lthr_at in Hu. rewrite Hth in Hu. inversion Hu; subst. congruence.
  - exfalso. destruct (Nat.eq_dec (l_dq th) d) as [E|E].
    + subst d. rewrite nth_upd_eq'' in Hd by auto. discriminate.
    + rewrite nth_upd_neq'' in Hd by auto. destruct (HE _ _ Hl Hd) as (u & thu & Hm & Hu & Hq1 & Hq2).
      assert (u = t) by congruence; subst u. unfold lthr_at in Hu. rewrite Hth in Hu. inversion Hu; subst. congruence.
Qed.

Lemma parked_ext : forall g g' u th, (In u (d_unlocked g') -> In u (d_unlocked g)) -> parked g u th -> parked g' u th.
Proof. unfold parked. intros. tauto. Qed.
Lemma woken_ext : forall g g' u th, (In u (d_unlocked g) -> In u (d_unlocked g')) -> woken g u th -> woken g' u th.
Proof. unfold woken. intros. tauto. Qed.
Lemma parked_not_enq_pc : forall g u th p, parked g u th -> l_pc th = p -> waiting_pc p = true.
Proof. unfold parked. intros g u th p (_ & H & _) <-. auto. Qed.

Lemma lstep_wake : forall s t s', LInv s -> lstep s t = Some s' ->
  forall t0 th0, lthr_at s' t0 th0 -> l_pc th0 = D_Wake ->
    exists x rest thx, dq (glob s') (l_dq th0) = x :: rest /\ lthr_at s' x thx /\ parked (glob s') x thx.
Proof.
  intros s t s' I H. pose proof (li_wake _ I) as HW.
  lstep_ok I H; lown_fact I Hth Epc;
    try (assert (l_dq th < List.length (d_deques (glob s))) as Hb by (eapply ref_bound; eauto; rewrite Epc; reflexivity));
    intros t0 th0 H0 Hp; lsplit_thr H0; unfold lnext_cycle in *; simpl in *;
    try discriminate;
    try (destruct (l_wait th); discriminate);
    try (destruct (l_todo th); discriminate);
    try (assert (lowns_mutex (l_pc th0) = true) as Ho by (rewrite Hp; reflexivity);
         pose proof (li_mx_own _ I _ _ H0 Ho); congruence).
  - (* D_Wait by another thread while the owner is at D_Wake *)
    destruct (HW _ _ H0 Hp) as (x & rest & thx & Hd & Hx & Hpk). exists x, rest, thx. split; [exact Hd|].
    assert (x <> t) as Hne.
    { intros ->. destruct Hpk as (_ & _ & Hn). apply Hn. apply memb_In. auto. }
    split; [unfold lthr_at in *; simpl; rewrite nth_upd_neq by auto; auto|].
    eapply parked_ext; [|exact Hpk]. simpl. rewrite In_remove_nat. tauto.
  - (* D_Del -> D_Wake: the new head was a parked waiter behind t *)
    pose proof (li_ref _ I _ _ Hth) as Href. rewrite Epc in Href. specialize (Href eq_refl).
    assert (In n0 (dq (glob s) (l_dq th))) as Hin by (rewrite Edq; right; left; reflexivity).
    destruct (li_mem _ I _ _ _ Href Hin) as (thn & Hn & _).
    assert (In n0 (n0 :: l)) as Hin' by (left; reflexivity).
    pose proof (li_rest _ I _ _ _ _ _ _ Href Edq Hin' Hn) as Hpk.
    assert (n0 <> t0) as Hne.
    { intros ->. pose proof (li_nodup _ I _ _ Href) as ND. rewrite Edq in ND. inversion ND; subst. auto. }
    exists n0, l, thn. split; [unfold dq; simpl; apply nth_upd_eq''; auto|].
    split; [unfold lthr_at in *; simpl; rewrite nth_upd_neq by auto; auto|]. exact Hpk.
Qed.

(* a member of a dict deque is an enqueued thread: in particular not a thread whose pc is outside enq_pc *)
Lemma member_not : forall s k d u t th, LInv s -> lookup k (d_dict (glob s)) = Some d -> In u (dq (glob s) d) ->
  lthr_at s t th -> enq_pc (l_pc th) = false -> u <> t.
Proof.
  intros s k d u t th I Hl Hin Ht He ->. destruct (li_mem _ I _ _ _ Hl Hin) as (thu & Hu & Hq & _).
  unfold lthr_at in *. rewrite Ht in Hu. inversion Hu; subst. congruence.
Qed.

Lemma lstep_rest : forall s t s', LInv s -> lstep s t = Some s' ->
  forall k d x rest u thu, lookup k (d_dict (glob s')) = Some d -> dq (glob s') d = x :: rest -> In u rest ->
    lthr_at s' u thu -> parked (glob s') u thu.
Proof.
  intros s t s' I H. pose proof (li_rest _ I) as HR.
  lstep_ok I H; lown_fact I Hth Epc;
    try (assert (l_dq th < List.length (d_deques (glob s))) as Hb by (eapply ref_bound; eauto; rewrite Epc; reflexivity));
    intros k d hx tl u thu Hl Hd Hin Hu; unfold dq in *; simpl in *.
  (* steps that leave dict, deques and unlocked alone *)
  all: try (lsplit_thr Hu;
            [ pose proof (HR _ _ _ _ _ _ Hl Hd Hin Hth) as (P1 & P2 & P3); rewrite Epc in P2;
              first [ discriminate P2
                    | unfold parked; simpl; rewrite P1; simpl; tauto ]
            | exact (HR _ _ _ _ _ _ Hl Hd Hin Hu) ]; fail).
  - (* D_Get, new deque *)
    rewrite nth_app_nil in Hd. destruct (Nat.eqb k (l_key th)).
    + inversion Hl; subst. rewrite nth_overflow in Hd by lia. discriminate.
    + assert (u <> t) as Hne.
      { eapply (member_not s k d); eauto; [unfold dq; rewrite Hd; right; auto|rewrite Epc; reflexivity]. }
      lsplit_thr Hu; [congruence|]. exact (HR _ _ _ _ _ _ Hl Hd Hin Hu).
  - (* D_WInit: t joins at the tail *)
    pose proof (li_ref _ I _ _ Hth) as Href. rewrite Epc in Href. specialize (Href eq_refl).
    pose proof (li_winit _ I _ _ Hth Epc) as Hwt. unfold dq in Hwt.
    destruct (Nat.eq_dec (l_dq th) d) as [E|E].
    + subst d. rewrite nth_upd_eq'' in Hd by auto.
      destruct (nth (l_dq th) (d_deques (glob s)) []) as [|y r0] eqn:Eold; simpl in Hd.
      * inversion Hd; subst. contradiction.
      * inversion Hd; subst. apply in_app_or in Hin. destruct Hin as [Hin|[<-|[]]].
        -- assert (u <> t) as Hne.
           { eapply (member_not s k (l_dq th)); eauto; [unfold dq; rewrite Eold; right; auto|rewrite Epc; reflexivity]. }
           lsplit_thr Hu; [congruence|].
           eapply parked_ext; [|exact (HR _ _ _ _ _ _ Hl Eold Hin Hu)]. simpl. rewrite In_remove_nat. tauto.
        -- unfold lthr_at in Hu. simpl in Hu. erewrite nth_upd_eq in Hu by eauto. inversion Hu; subst.
           unfold parked. simpl. rewrite Hwt. simpl. rewrite In_remove_nat. tauto.
    + rewrite nth_upd_neq'' in Hd by auto.
      assert (u <> t) as Hne.
      { eapply (member_not s k d); eauto; [unfold dq; rewrite Hd; right; auto|rewrite Epc; reflexivity]. }
      lsplit_thr Hu; [congruence|].
      eapply parked_ext; [|exact (HR _ _ _ _ _ _ Hl Hd Hin Hu)]. simpl. rewrite In_remove_nat. tauto.
  - (* D_Wait: the stepper was woken, hence not parked, hence not behind a head *)
    lsplit_thr Hu.
    + exfalso. pose proof (HR _ _ _ _ _ _ Hl Hd Hin Hth) as (_ & _ & P3). apply P3. apply memb_In. auto.
    + eapply parked_ext; [|exact (HR _ _ _ _ _ _ Hl Hd Hin Hu)]. simpl. rewrite In_remove_nat. tauto.
  - (* D_Del, last one out *)
    apply lookup_remove_some in Hl. destruct Hl as [Hk Hl].
    assert (l_dq th <> d) as E by (intros <-; apply Hk; eapply (li_inj _ I); eauto).
    rewrite nth_upd_neq'' in Hd by auto.
    lsplit_thr Hu.
    + exfalso. pose proof (HR _ _ _ _ _ _ Hl Hd Hin Hth) as (_ & P2 & _). rewrite Epc in P2. discriminate.
    + exact (HR _ _ _ _ _ _ Hl Hd Hin Hu).
  - (* D_Del, others remain *)
    destruct (Nat.eq_dec (l_dq th) d) as [E|E].
    + subst d. rewrite nth_upd_eq'' in Hd by auto. inversion Hd; subst.
      assert (In u (hx :: tl)) as Hin' by (right; exact Hin).
      lsplit_thr Hu.
      * exfalso. pose proof (HR _ _ _ _ _ _ Hl Edq Hin' Hth) as (_ & P2 & _). rewrite Epc in P2. discriminate.
      * exact (HR _ _ _ _ _ _ Hl Edq Hin' Hu).
    + rewrite nth_upd_neq'' in Hd by auto. lsplit_thr Hu.
      * exfalso. pose proof (HR _ _ _ _ _ _ Hl Hd Hin Hth) as (_ & P2 & _). rewrite Epc in P2. discriminate.
      * exact (HR _ _ _ _ _ _ Hl Hd Hin Hu).
  - (* D_Wake: the released lock belongs to a head, u is behind a head *)
    pose proof (li_ref _ I _ _ Hth) as Href. rewrite Epc in Href. specialize (Href eq_refl).
    lsplit_thr Hu.
    + exfalso. pose proof (HR _ _ _ _ _ _ Hl Hd Hin Hth) as (_ & P2 & _). rewrite Epc in P2. discriminate.
    + pose proof (HR _ _ _ _ _ _ Hl Hd Hin Hu) as (P1 & P2 & P3). unfold parked. simpl. repeat split; auto.
      intros [->|Hx]; [|contradiction].
      destruct (Nat.eq_dec (l_dq th) d) as [E|E].
      * subst d. rewrite Edq in Hd. inversion Hd; subst.
        pose proof (li_nodup _ I _ _ Hl) as ND. unfold dq in ND. rewrite Edq in ND. inversion ND; subst. contradiction.
      * assert (In u (dq (glob s) d)) as Hi1 by (unfold dq; rewrite Hd; right; exact Hin).
        assert (In u (dq (glob s) (l_dq th))) as Hi2 by (unfold dq; rewrite Edq; left; reflexivity).
        destruct (li_mem _ I _ _ _ Hl Hi1) as (a & Hxa & _ & _ & Hxa3).
        destruct (li_mem _ I _ _ _ Href Hi2) as (b & Hxb & _ & _ & Hxb3).
        unfold lthr_at in *. congruence.
Qed.

Lemma pending_owner : forall s d t th, wake_pending s d -> d_mutex (glob s) = Some t -> lthr_at s t th ->
  l_pc th = D_Wake /\ l_dq th = d.
Proof.
  intros s d t th (u & thu & Hm & Hu & Hp & Hd) Hmt Ht. unfold lthr_at in *.
  assert (u = t) by congruence. subst. assert (thu = th) by congruence. subst. auto.
Qed.

Lemma pending_keep : forall (s : lstate) d t th th' g', wake_pending s d -> lthr_at s t th -> l_pc th <> D_Wake ->
  d_mutex g' = d_mutex (glob s) -> wake_pending {| glob := g'; thr := upd t th' (thr s) |} d.
Proof.
  intros s d t th th' g' (u & thu & Hm & Hu & Hp & Hd) Ht Hne Hmx.
  assert (u <> t) by (intros ->; unfold lthr_at in *; rewrite Ht in Hu; inversion Hu; subst; congruence).
  exists u, thu. simpl. unfold lthr_at in *. simpl. rewrite nth_upd_neq by auto. rewrite Hmx. auto.
Qed.

Lemma lstep_head : forall s t s', LInv s -> lstep s t = Some s' ->
  forall k d hx tl thx, lookup k (d_dict (glob s')) = Some d -> dq (glob s') d = hx :: tl -> lthr_at s' hx thx ->
    entered thx = true \/ woken (glob s') hx thx \/ (parked (glob s') hx thx /\ wake_pending s' d).
Proof.
  intros s t s' I H. pose proof (li_head _ I) as HH.
  lstep_ok I H; lown_fact I Hth Epc;
    try (assert (l_dq th < List.length (d_deques (glob s))) as Hb by (eapply ref_bound; eauto; rewrite Epc; reflexivity));
    intros k d hx tl thx Hl Hd Hx; unfold dq in *; simpl in *.
  - (* D_Lock: the mutex was free, nothing was pending *)
    assert (hx <> t) as Hne.
    { eapply (member_not s k d); eauto; [unfold dq; rewrite Hd; left; auto|rewrite Epc; reflexivity]. }
    lsplit_thr Hx; [congruence|].
    destruct (HH _ _ _ _ _ Hl Hd Hx) as [P|[P|[_ (u & ? & Hm & _)]]]; auto. congruence.
  - (* D_Get, existing deque *)
    assert (hx <> t) as Hne.
    { eapply (member_not s k d); eauto; [unfold dq; rewrite Hd; left; auto|rewrite Epc; reflexivity]. }
    lsplit_thr Hx; [congruence|].
    destruct (HH _ _ _ _ _ Hl Hd Hx) as [P|[P|[_ P2]]]; auto.
    exfalso. destruct (pending_owner _ _ _ _ P2 Hmine Hth) as [E _]. rewrite Epc in E. discriminate E.
  - (* D_Get, new deque *)
    rewrite nth_app_nil in Hd. destruct (Nat.eqb k (l_key th)).
    + inversion Hl; subst. rewrite nth_overflow in Hd by lia. discriminate.
    + assert (hx <> t) as Hne.
      { eapply (member_not s k d); eauto; [unfold dq; rewrite Hd; left; auto|rewrite Epc; reflexivity]. }
      lsplit_thr Hx; [congruence|].
      destruct (HH _ _ _ _ _ Hl Hd Hx) as [P|[P|[_ P2]]]; auto.
      exfalso. destruct (pending_owner _ _ _ _ P2 Hmine Hth) as [E _]. rewrite Epc in E. discriminate E.
  - (* D_WInit *)
    pose proof (li_winit _ I _ _ Hth Epc) as Hwt. unfold dq in Hwt.
    destruct (Nat.eq_dec (l_dq th) d) as [E|E].
    + subst d. rewrite nth_upd_eq'' in Hd by auto.
      destruct (nth (l_dq th) (d_deques (glob s)) []) as [|y r0] eqn:Eold; simpl in Hd.
      * (* the deque was empty: t is the head and does not wait *)
        inversion Hd; subst. unfold lthr_at in Hx. simpl in Hx. erewrite nth_upd_eq in Hx by eauto. inversion Hx; subst.
        left. unfold entered. simpl. rewrite Hwt. reflexivity.
      * inversion Hd; subst.
        assert (hx <> t) as Hne.
        { eapply (member_not s k (l_dq th)); eauto; [unfold dq; rewrite Eold; left; auto|rewrite Epc; reflexivity]. }
        lsplit_thr Hx; [congruence|].
        destruct (HH _ _ _ _ _ Hl Eold Hx) as [P|[P|[_ P2]]]; auto.
        -- right. left. eapply woken_ext; [|exact P]. simpl. rewrite In_remove_nat. auto.
        -- exfalso. destruct (pending_owner _ _ _ _ P2 Hmine Hth) as [E _]. rewrite Epc in E. discriminate E.
    + rewrite nth_upd_neq'' in Hd by auto.
      assert (hx <> t) as Hne.
      { eapply (member_not s k d); eauto; [unfold dq; rewrite Hd; left; auto|rewrite Epc; reflexivity]. }
      lsplit_thr Hx; [congruence|].
      destruct (HH _ _ _ _ _ Hl Hd Hx) as [P|[P|[_ P2]]]; auto.
      * right. left. eapply woken_ext; [|exact P]. simpl. rewrite In_remove_nat. auto.
      * exfalso. destruct (pending_owner _ _ _ _ P2 Hmine Hth) as [E' _]. rewrite Epc in E'. discriminate E'.
  - (* D_Unlock *)
    lsplit_thr Hx.
    + destruct (HH _ _ _ _ _ Hl Hd Hth) as [P|[P|[_ P2]]].
      * left. unfold entered in *. rewrite Epc in P. simpl. destruct (l_wait th); [discriminate|reflexivity].
      * right. left. destruct P as (P1 & P2 & P3). unfold woken. simpl. rewrite P1. simpl. auto.
      * exfalso. destruct (pending_owner _ _ _ _ P2 Hmine Hth) as [E _]. rewrite Epc in E. discriminate E.
    + destruct (HH _ _ _ _ _ Hl Hd Hx) as [P|[P|[_ P2]]]; auto.
      exfalso. destruct (pending_owner _ _ _ _ P2 Hmine Hth) as [E _]. rewrite Epc in E. discriminate E.
  - (* D_Wait *)
    lsplit_thr Hx; [left; reflexivity|].
    destruct (HH _ _ _ _ _ Hl Hd Hx) as [P|[P|[P1 P2]]]; auto.
    + right. left. eapply woken_ext; [|exact P]. simpl. rewrite In_remove_nat. auto.
    + right. right. split.
      * eapply parked_ext; [|exact P1]. simpl. rewrite In_remove_nat. tauto.
      * eapply pending_keep; eauto. rewrite Epc. discriminate.
  - (* D_InCS: the mutex was free *)
    lsplit_thr Hx; [left; reflexivity|].
    destruct (HH _ _ _ _ _ Hl Hd Hx) as [P|[P|[_ (u & ? & Hm & _)]]]; auto. congruence.
  - (* D_Del, last one out *)
    apply lookup_remove_some in Hl. destruct Hl as [Hk Hl].
    assert (l_dq th <> d) as E by (intros <-; apply Hk; eapply (li_inj _ I); eauto).
    rewrite nth_upd_neq'' in Hd by auto.
    assert (hx <> t) as Hne.
    { intros ->. assert (In t (dq (glob s) d)) as Hi by (unfold dq; rewrite Hd; left; auto).
      destruct (li_mem _ I _ _ _ Hl Hi) as (a & Ha & _ & _ & Ha3). unfold lthr_at in Ha. congruence. }
    lsplit_thr Hx; [congruence|].
    destruct (HH _ _ _ _ _ Hl Hd Hx) as [P|[P|[_ P2]]]; auto.
    exfalso. destruct (pending_owner _ _ _ _ P2 Hmine Hth) as [E' _]. rewrite Epc in E'. discriminate E'.
  - (* D_Del, others remain: the new head is parked and t is about to wake it *)
    destruct (Nat.eq_dec (l_dq th) d) as [E|E].
    + subst d. rewrite nth_upd_eq'' in Hd by auto. inversion Hd; subst.
      pose proof (li_nodup _ I _ _ Hl) as ND. unfold dq in ND. rewrite Edq in ND.
      assert (hx <> t) as Hne by (intros ->; inversion ND; subst; apply H1; left; reflexivity).
      lsplit_thr Hx; [congruence|].
      right. right. split.
      * assert (In hx (hx :: tl)) as Hin by (left; reflexivity).
        exact (li_rest _ I _ _ _ _ _ _ Hl Edq Hin Hx).
      * exists t, (lset_pc th D_Wake). simpl. split; [exact Hmine|]. split; [unfold lthr_at; simpl; eapply nth_upd_eq; eauto|].
        split; reflexivity.
    + rewrite nth_upd_neq'' in Hd by auto.
      assert (hx <> t) as Hne.
      { intros ->. assert (In t (dq (glob s) d)) as Hi by (unfold dq; rewrite Hd; left; auto).
        destruct (li_mem _ I _ _ _ Hl Hi) as (a & Ha & _ & _ & Ha3). unfold lthr_at in Ha. congruence. }
      lsplit_thr Hx; [congruence|].
      destruct (HH _ _ _ _ _ Hl Hd Hx) as [P|[P|[_ P2]]]; auto.
      exfalso. destruct (pending_owner _ _ _ _ P2 Hmine Hth) as [E' _]. rewrite Epc in E'. discriminate E'.
  - (* D_Wake: the head of t's deque is released *)
    assert (hx <> t) as Hne.
    { eapply (member_not s k d); eauto; [unfold dq; rewrite Hd; left; auto|rewrite Epc; reflexivity]. }
    lsplit_thr Hx; [congruence|].
    destruct (HH _ _ _ _ _ Hl Hd Hx) as [P|[P|[P1 P2]]]; auto.
    + right. left. eapply woken_ext; [|exact P]. simpl. auto.
    + destruct (pending_owner _ _ _ _ P2 Hmine Hth) as [_ E']. subst d. rewrite Edq in Hd. inversion Hd; subst.
      right. left. destruct P1 as (Q1 & Q2 & Q3). unfold woken. simpl. auto.
  - (* D_Unlock2 *)
    assert (hx <> t) as Hne.
    { eapply (member_not s k d); eauto; [unfold dq; rewrite Hd; left; auto|rewrite Epc; reflexivity]. }
    lsplit_thr Hx; [congruence|].
    destruct (HH _ _ _ _ _ Hl Hd Hx) as [P|[P|[_ P2]]]; auto.
    exfalso. destruct (pending_owner _ _ _ _ P2 Hmine Hth) as [E _]. rewrite Epc in E. discriminate E.
Qed.

Lemma LInv_step : forall s t s', LInv s -> lstep s t = Some s' -> LInv s'.
Proof.
  intros s t s' I H. destruct (lstep_dict _ _ _ I H) as [D1 D2].
  constructor; auto.
  - eapply lstep_mx_own; eauto.
  - eapply lstep_mx_some; eauto.
  - eapply lstep_ref; eauto.
  - eapply lstep_enq; eauto.
  - eapply lstep_mem; eauto.
  - eapply lstep_nodup; eauto.
  - eapply lstep_rest; eauto.
  - eapply lstep_head; eauto.
  - eapply lstep_empty; eauto.
  - eapply lstep_winit; eauto.
  - eapply lstep_wake; eauto.
  - eapply lstep_nofail; eauto.
Qed.

Lemma LInv_reachable : forall s, lreachable s -> LInv s.
Proof.
  intros s (progs & Hr). revert s Hr. apply reach_ind_inv.
  - apply LInv_init.
  - intros s t s' I H. eapply LInv_step; eauto.
Qed.
