(* C14 -- assembly: the content-line round trip through both of vobject's readers, the fixed point of stored
   text at line level, and "what is served is what is stored". *)
From Coq Require Import List NArith Bool Lia.
Import ListNotations.
Require Import RV.Lib.PyStr RV.Proofs.PyStrLemmas RV.Model.ContentLine RV.Model.Vobj RV.Model.C14Spec.
Require RV.Proofs.LinesProofs RV.Proofs.QpProofs.
Open Scope N_scope.

Lemma print_lines_map : forall ls, print_lines ls = List.concat (map fold_line (map print_cl ls)).
Proof. intros ls. unfold print_lines. rewrite map_map. reflexivity. Qed.

(* the upload reader (allowQP=True), outside the known class C14:fold-ws *)
Theorem lines_roundtrip_qp : forall ls,
  Forall wf_cl ls ->
  Forall (fun l => mentions_qp (print_cl l) = false) ls ->
  no_ws_only_lines (print_lines ls) ->
  parse_lines_qp (print_lines ls) = Some ls.
Proof.
  intros ls Hwf Hqp Hws. unfold parse_lines_qp. rewrite print_lines_map in *.
  rewrite QpProofs.unfold_qp_fold.
  - apply LinesProofs.map_opt_parse_print. exact Hwf.
  - apply Forall_forall. intros s Hs. apply in_map_iff in Hs as [l [E Hl]]. subst s.
    rewrite Forall_forall in Hwf. exact (LinesProofs.print_cl_good l (Hwf l Hl)).
  - apply Forall_forall. intros s Hs. apply in_map_iff in Hs as [l [E Hl]]. subst s.
    rewrite Forall_forall in Hqp. exact (Hqp l Hl).
  - exact Hws.
Qed.

(* the known class is inhabited by a well-formed content line: "S:" + 73 x + one space *)
Definition ws_line : cl := mkCl None [83] [] (repeat_char 120 73 ++ [32]).
Lemma ws_line_wf : wf_cl ws_line.
Proof.
  unfold wf_cl, ws_line; cbn [cl_group cl_name cl_params cl_value].
  repeat split; try discriminate; try (repeat constructor; fail).
Qed.

Theorem lines_roundtrip_qp_refuted :
  wf_cl ws_line /\ mentions_qp (print_cl ws_line) = false /\
  parse_lines (print_lines [ws_line]) = Some [ws_line] /\
  parse_lines_qp (print_lines [ws_line]) <> Some [ws_line] /\
  ~ no_ws_only_lines (print_lines [ws_line]).
Proof.
  split; [exact ws_line_wf|]. split; [vm_compute; reflexivity|]. split; [vm_compute; reflexivity|].
  split; [vm_compute; discriminate|].
  intros H. apply QpProofs.ws_witness_in_class.
  replace (fold_line QpProofs.ws_witness) with (print_lines [ws_line]) by (vm_compute; reflexivity). exact H.
Qed.

(* ------------------------------------------------------------------ fixed point of the stored text, line level *)
(* What is stored is `print_lines ls` for the lines vobject holds.  Reading it again -- with the storage reader
   (Item.vobject_item, cache miss, REPORT filters) or, outside the known class, with the upload reader -- gives the
   same lines, hence writing gives the same octets: same text, same SHA-256 ETag. *)
Theorem stored_text_fixed_point : forall ls, Forall wf_cl ls ->
  let t := print_lines ls in
  (exists ls', parse_lines t = Some ls' /\ print_lines ls' = t) /\
  (Forall (fun l => mentions_qp (print_cl l) = false) ls -> no_ws_only_lines t ->
   exists ls', parse_lines_qp t = Some ls' /\ print_lines ls' = t).
Proof.
  intros ls Hwf t. split.
  - exists ls. split; [apply LinesProofs.lines_roundtrip; exact Hwf | reflexivity].
  - intros Hqp Hws. exists ls. split; [apply lines_roundtrip_qp; assumption | reflexivity].
Qed.

(* ------------------------------------------------------------------ served = stored *)
(* Item.serialize returns the text it was built with; upload writes item.serialize() to the file and into the cache
   entry; _get builds the served Item from the cache entry's text, or, after a cache miss, from
   read_components(file) -> check_and_sanitize_items -> serialize.  GET, REPORT calendar-data/address-data and the
   export all call item.serialize() of such an Item. *)
Inductive source := FromCache | FromFile.
Record stored := mkStored { file_text : pystr; cache_text : option pystr }.
Definition upload_store (text : pystr) : stored := mkStored text (Some text).
(* the text an Item served from the store carries; None = the reload raises (item skipped or error) *)
Definition served_text (s : stored) : option pystr :=
  match cache_text s with
  | Some t => Some t
  | None => reload_model (file_text s)
  end.
Definition get_body (s : stored) := served_text s.
Definition report_data (s : stored) := served_text s.
Definition export_piece (s : stored) := served_text s.

Theorem served_is_stored : forall text,
  get_body (upload_store text) = Some text /\ report_data (upload_store text) = Some text /\ export_piece (upload_store text) = Some text.
Proof. intros text. repeat split. Qed.

(* after the cache entry is lost the served text is still the stored text exactly when the stored text is a fixed
   point of the upload pipeline *)
Theorem served_after_cache_loss : forall text,
  put_model text = Some text -> served_text (mkStored text None) = Some text.
Proof. intros text H. exact H. Qed.
