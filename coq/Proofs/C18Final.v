(* C18: the statements of Props/C18.v *)
From Coq Require Import List NArith Bool Lia String.
Import ListNotations.
Require Import RV.Lib.PyStr RV.Model.Path RV.Model.Url.
Require Import RV.Proofs.PyStrLemmas RV.Proofs.PathProofs RV.Proofs.UrlUtf8 RV.Proofs.UrlPercent RV.Proofs.UrlPath
               RV.Proofs.UrlParse RV.Proofs.UrlBase RV.Proofs.GenEqUrl.
Require RV.Gen.UrlGen.
Open Scope list_scope. Open Scope N_scope.

(* ---------------------------------------------------------------- codec level *)
Lemma c18_unquote_quote_bytes : forall b, forallb is_byte b = true -> unquote_to_bytes (quote_from_bytes b) = b.
Proof. exact unquote_quote_bytes. Qed.

Lemma c18_utf8_roundtrip : forall s b, utf8_encode s = Some b -> utf8_decode b = s /\ forallb is_byte b = true.
Proof. intros s b H. split; [apply utf8_roundtrip; exact H|eapply utf8_encode_bytes; exact H]. Qed.

Lemma c18_unquote_quote : forall s,
  (forallb valid_cp s = true <-> quote s <> None) /\ (forall q, quote s = Some q -> unquote q = s).
Proof. intros s. split; [apply quote_defined|apply unquote_quote]. Qed.

(* ---------------------------------------------------------------- what is emitted *)
(* everything needed about h = quote (base ++ p) *)
Lemma emitted_facts : forall base p h, sane_prefix base -> sane_path p -> make_href base p = Some h ->
  wf_quoted h = true
  /\ unquote h = base ++ p
  /\ urlsplit h = UOk {| u_scheme := []; u_netloc := []; u_path := h |}
  /\ contains_char qmark h = false
  /\ startswith h [slash] = true
  /\ forallb clean_char h = true.
Proof.
  intros base p h Hb Hp H. unfold make_href in H.
  pose proof (quote_wf _ _ H) as Hwf. pose proof (unquote_quote _ _ H) as Hu.
  pose proof (wf_quoted_url_chars h Hwf) as Hc.
  assert (Hs : startswith h [slash] = true /\ startswith h [slash; slash] = false).
  { destruct (prefix_path_head base p Hb Hp) as [E | (c & r & E & Hne)]; rewrite E in H.
    - vm_compute in H. inversion H. split; reflexivity.
    - split; [|eapply quote_no_double_slash; eassumption].
      change (slash :: c :: r) with ([slash] ++ c :: r) in H.
      destruct (quote_app_inv _ _ _ H) as (qa & qb & Ha & _ & ->). vm_compute in Ha. inversion Ha. reflexivity. }
  destruct Hs as [Hs1 Hs2].
  repeat split; try assumption.
  - apply urlsplit_wf; assumption.
  - apply url_chars_lack; [reflexivity|exact Hc].
  - apply url_chars_clean. exact Hc.
Qed.

Lemma c18_href_wellformed :
  (forall base p h, UrlGen.make_href base p = Some h -> wf_quoted h = true)
  /\ (forall loc l, UrlGen.redirect_location loc = Some l -> wf_quoted l = true)
  /\ (forall base p h, sane_prefix base -> sane_path p -> UrlGen.make_href base p = Some h ->
        urlsplit h = UOk {| u_scheme := []; u_netloc := []; u_path := h |}).
Proof.
  split; [|split].
  - intros base p h H. rewrite Gen_make_href_eq in H. eapply quote_wf. exact H.
  - intros loc l H. rewrite Gen_redirect_location_eq in H. eapply quote_wf. exact H.
  - intros base p h Hb Hp H. rewrite Gen_make_href_eq in H. apply (emitted_facts base p h Hb Hp H).
Qed.

(* hrefs are produced for exactly the paths made of Unicode scalar values *)
Lemma c18_href_defined : forall base p, forallb valid_cp (base ++ p) = true <-> UrlGen.make_href base p <> None.
Proof. intros. rewrite Gen_make_href_eq. apply quote_defined. Qed.

(* ---------------------------------------------------------------- request line *)
Lemma request_path_noproxy : forall base p, sane_path p -> request_path false base p = p.
Proof. intros base p Hp. unfold request_path. cbn [andb]. exact Hp. Qed.

Lemma request_path_full : forall base p, sane_prefix base -> sane_path p -> request_path true base (base ++ p) = p.
Proof.
  intros base p Hb Hp. unfold request_path. rewrite (sanitize_prefix_path base p Hb Hp). cbn [andb].
  destruct base as [|c b'] eqn:Eb.
  - cbn [nonempty app]. reflexivity.
  - cbn [nonempty]. rewrite <- Eb in *. rewrite (strip_prefix_app base p Hp). reflexivity.
Qed.

Lemma c18_request_line : forall base p h, sane_prefix base -> sane_path p -> UrlGen.make_href base p = Some h ->
  pathinfo_of_target h = base ++ p
  /\ (forall query, pathinfo_of_target (h ++ qmark :: query) = base ++ p)
  /\ request_path true base (base ++ p) = p
  /\ (base = [] -> forall rp, request_path rp base (base ++ p) = p).
Proof.
  intros base p h Hb Hp H. rewrite Gen_make_href_eq in H.
  destruct (emitted_facts base p h Hb Hp H) as (_ & Hu & _ & Hq & _ & _).
  split; [|split; [|split]].
  - unfold pathinfo_of_target. rewrite (split1_none qmark h Hq). exact Hu.
  - intros query. unfold pathinfo_of_target. rewrite (split1_app_sep qmark h query Hq). exact Hu.
  - apply request_path_full; assumption.
  - intros -> rp. cbn [app]. unfold request_path. rewrite andb_false_r. exact Hp.
Qed.

(* the same, end to end on the regenerated code: get_environ's PATH_INFO fed into the regenerated value flow of
   _handle_request *)
Lemma c18_request_line_regenerated : forall base p h query, sane_prefix base -> sane_path p ->
  UrlGen.make_href base p = Some h ->
  UrlGen.request_path true base (pathinfo_of_target h) = p
  /\ UrlGen.request_path true base (pathinfo_of_target (h ++ qmark :: query)) = p
  /\ (base = [] -> forall rp, UrlGen.request_path rp base (pathinfo_of_target h) = p).
Proof.
  intros base p h query Hb Hp H.
  destruct (c18_request_line base p h Hb Hp H) as (H1 & H2 & H3 & H4).
  rewrite !Gen_request_path_eq, H2, H1. split; [exact H3|split; [exact H3|]].
  intros Hbase rp. rewrite Gen_request_path_eq. exact (H4 Hbase rp).
Qed.

(* the prefix was already removed in front of Radicale (WSGI container, or a proxy that strips it) *)
Definition ambiguous (rp : bool) (base p : pystr) : bool := rp && nonempty base && under_prefix base p.

Lemma c18_request_line_stripped : forall rp base p, sane_path p -> ambiguous rp base p = false ->
  request_path rp base p = p.
Proof.
  intros rp base p Hp Ha. unfold request_path, ambiguous, strip_prefix in *. rewrite Hp.
  destruct (rp && nonempty base); [|reflexivity]. cbn [andb] in Ha. rewrite Ha. reflexivity.
Qed.

Lemma c18_request_line_stripped_refuted : exists base p, sane_prefix base /\ sane_path p /\
  request_path true base p <> p.
Proof.
  exists (str "/radicale"), (str "/radicale/cal/"). split; [right; split; reflexivity|]. split; [reflexivity|].
  vm_compute. discriminate.
Qed.

(* ---------------------------------------------------------------- multiget *)
Lemma c18_multiget : forall base p h, sane_prefix base -> sane_path p -> UrlGen.make_href base p = Some h ->
  decode_multiget base h = DOk p.
Proof.
  intros base p h Hb Hp H. rewrite Gen_make_href_eq in H.
  destruct (emitted_facts base p h Hb Hp H) as (_ & Hu & Hs & _).
  unfold decode_multiget. rewrite Hs. cbn [u_path]. rewrite Hu, (sanitize_prefix_path base p Hb Hp).
  apply strip_base_prefix_path. exact Hp.
Qed.

(* ---------------------------------------------------------------- Destination *)
Lemma c18_destination : forall sn base p h sch host,
  sane_prefix base -> sane_path p -> UrlGen.make_href base p = Some h ->
  http_scheme sch -> forallb host_char host = true -> netloc_with_port sch host = Some sn ->
  decode_destination sn base (sch ++ str "://" ++ host ++ h) = DOk p.
Proof.
  intros sn base p h sch host Hb Hp H Hsch Hh Hn. rewrite Gen_make_href_eq in H.
  destruct (emitted_facts base p h Hb Hp H) as (Hwf & Hu & _ & Hq & Hs & Hc).
  pose proof (wf_quoted_url_chars h Hwf) as Huc.
  unfold decode_destination. rewrite (urlsplit_absolute sch host h Hsch Hh Hs Hc). cbn [u_scheme u_netloc u_path].
  rewrite Hn, eqs_refl. cbn [negb].
  rewrite (split1_none 35 h) by (apply url_chars_lack; [reflexivity|exact Huc]). cbn [fst].
  rewrite (split1_none 63 h) by exact Hq. cbn [fst].
  rewrite Hu, (sanitize_prefix_path base p Hb Hp). apply strip_base_prefix_path. exact Hp.
Qed.

(* ---------------------------------------------------------------- the three reading sites agree *)
Lemma c18_same_decoding_dest : forall sn base u,
  match urlsplit u with
  | UOk x => match netloc_with_port (u_scheme x) (u_netloc x) with
             | Some wp => if eqs wp sn then decode_destination sn base u = decode_multiget base u
                          else decode_destination sn base u = DRemote
             | None => decode_destination sn base u = DRaise
             end
  | UValueError => decode_destination sn base u = DRaise /\ decode_multiget base u = DRaise
  | UOutside => decode_destination sn base u = DOutside /\ decode_multiget base u = DOutside
  end.
Proof.
  intros sn base u. unfold decode_destination, decode_multiget.
  destruct (urlsplit u) as [x| |]; [|split; reflexivity|split; reflexivity].
  destruct (netloc_with_port (u_scheme x) (u_netloc x)) as [wp|]; [|reflexivity].
  destruct (eqs wp sn); reflexivity.
Qed.

Definition origin_form (t : pystr) : Prop :=
  startswith t [slash] = true /\ startswith t [slash; slash] = false
  /\ contains_char 35 t = false /\ forallb clean_char t = true.

Lemma c18_same_decoding_target : forall base t, origin_form t ->
  decode_multiget base t = strip_base base (sanitize_path (pathinfo_of_target t)).
Proof.
  intros base t (H1 & H2 & H3 & H4). unfold decode_multiget, pathinfo_of_target.
  rewrite (urlsplit_origin_form t H1 H2 H4). cbn [u_path]. rewrite (split1_none 35 t H3). reflexivity.
Qed.

Lemma c18_request_path_strip : forall base pathinfo, nonempty base = true ->
  request_path true base pathinfo =
  match strip_base base (sanitize_path pathinfo) with DOk r => r | _ => sanitize_path pathinfo end.
Proof.
  intros base pathinfo Hb. unfold request_path, strip_base. rewrite Hb. cbn [andb].
  destruct (strip_prefix base (sanitize_path pathinfo)); reflexivity.
Qed.

(* ---------------------------------------------------------------- regression witnesses of the repaired defects *)
(* F5: the Destination path was not percent-decoded *)
Lemma c18_witness_move_unquote :
  decode_destination_legacy (str "h:80") [] (str "http://h/u/cal/b%20c.ics") = DOk (str "/u/cal/b%20c.ics")
  /\ decode_destination (str "h:80") [] (str "http://h/u/cal/b%20c.ics") = DOk (str "/u/cal/b c.ics")
  /\ decode_multiget [] (str "http://h/u/cal/b%20c.ics") = DOk (str "/u/cal/b c.ics").
Proof. repeat split; vm_compute; reflexivity. Qed.

(* F13: urlparse cut ";params" off the last segment, the request line does not *)
Lemma c18_witness_params :
  decode_multiget_legacy [] (str "/u/cal/a;b.ics") = DOk (str "/u/cal/a")
  /\ decode_multiget [] (str "/u/cal/a;b.ics") = DOk (str "/u/cal/a;b.ics")
  /\ sanitize_path (pathinfo_of_target (str "/u/cal/a;b.ics")) = str "/u/cal/a;b.ics".
Proof. repeat split; vm_compute; reflexivity. Qed.

(* F12: the prefix was removed without looking at the component boundary *)
Lemma c18_witness_prefix_boundary :
  request_path_legacy true (str "/radicale") (str "/radicale2/cal/") = str "2/cal/"
  /\ request_path true (str "/radicale") (str "/radicale2/cal/") = str "/radicale2/cal/"
  /\ request_path_legacy true (str "/radicale") (str "/radicale") = []
  /\ request_path true (str "/radicale") (str "/radicale") = str "/"
  /\ decode_multiget_legacy (str "/radicale") (str "http://h/radicale") = DOk []
  /\ decode_multiget (str "/radicale") (str "http://h/radicale") = DOk (str "/").
Proof. repeat split; vm_compute; reflexivity. Qed.

(* ---------------------------------------------------------------- the hypotheses are satisfiable *)
Example c18_example :
  let base := str "/my app" in
  let p := [47; 117; 47; 99; 97; 108; 47; 98; 32; 99; 59; 37; 63; 35; 233; 8364; 128512; 46; 105; 99; 115] in
  let h := str "/my%20app/u/cal/b%20c%3B%25%3F%23%C3%A9%E2%82%AC%F0%9F%98%80.ics" in
  sane_prefix base /\ sane_path p /\ UrlGen.make_href base p = Some h
  /\ http_scheme (str "https") /\ forallb host_char (str "dav.example.org") = true
  /\ netloc_with_port (str "https") (str "dav.example.org") = Some (str "dav.example.org:443")
  /\ decode_destination (str "dav.example.org:443") base (str "https://dav.example.org" ++ h) = DOk p
  /\ origin_form h /\ ambiguous true base p = false.
Proof.
  cbv zeta. split; [right; split; vm_compute; reflexivity|]. split; [vm_compute; reflexivity|].
  split; [vm_compute; reflexivity|]. split; [right; reflexivity|]. split; [vm_compute; reflexivity|].
  split; [vm_compute; reflexivity|]. split; [vm_compute; reflexivity|].
  split; [repeat split; vm_compute; reflexivity|vm_compute; reflexivity].
Qed.

(* ---------------------------------------------------------------- the paths hrefs are made for *)
(* propfind.py / report.py: uri = unstrip_path(posixpath.join(collection.path, item.href)) for an item,
   unstrip_path(collection.path, True) for a collection; collection.path = "/".join(parts) *)
Lemma join_not_endswith_slash : forall parts, parts <> [] -> Forall safe parts ->
  join [slash] parts <> [] /\ endswith (join [slash] parts) [slash] = false.
Proof.
  intros parts Hne Hs. pose proof (render_endswith_slash parts Hs) as E.
  destruct parts as [|p ps]; [contradiction|].
  assert (Hj : join [slash] (p :: ps) <> []).
  { inversion Hs as [|? ? Hp _]; subst. pose proof (safe_nonempty p Hp) as Hn.
    cbn [join]. destruct ps; [exact Hn|]. destruct p; [contradiction|discriminate]. }
  split; [exact Hj|]. unfold render in E. rewrite <- join_slash_render in E by discriminate.
  change (slash :: join [slash] (p :: ps)) with ([slash] ++ join [slash] (p :: ps)) in E.
  rewrite endswith_app_nonempty in E by exact Hj. exact E.
Qed.

Lemma c18_item_uri_sane : forall parts name, parts <> [] -> Forall safe parts -> safe name ->
  unstrip_path (posix_join (join [slash] parts) name) false = render (parts ++ [name])
  /\ sane_path (render (parts ++ [name])).
Proof.
  intros parts name Hne Hs Hn. destruct (join_not_endswith_slash parts Hne Hs) as [Hj He].
  split.
  - unfold unstrip_path, posix_join. cbn [andb]. rewrite (safe_not_startswith_slash name Hn), He.
    destruct (join [slash] parts) as [|c j] eqn:Ej; [contradiction|]. cbn [nonempty negb orb]. rewrite <- Ej.
    rewrite <- render_app by (assumption || discriminate).
    unfold render at 2. cbn [map List.concat]. rewrite app_nil_r.
    destruct parts as [|p ps]; [contradiction|]. unfold render. rewrite <- join_slash_render by discriminate.
    reflexivity.
  - unfold sane_path. rewrite <- (app_nil_r (render (parts ++ [name]))). apply sanitize_render.
    + apply Forall_app. split; [exact Hs|constructor; [exact Hn|constructor]].
    + left. reflexivity.
Qed.

Lemma c18_collection_uri_sane : forall parts, Forall safe parts ->
  unstrip_path (join [slash] parts) true = render parts ++ (match parts with [] => [] | _ => [slash] end)
  /\ sane_path (render parts ++ (match parts with [] => [] | _ => [slash] end)).
Proof.
  intros parts Hs. split.
  - destruct parts as [|p ps]; [reflexivity|].
    destruct (join_not_endswith_slash (p :: ps) ltac:(discriminate) Hs) as [Hj He].
    unfold unstrip_path. cbn [andb].
    change (slash :: join [slash] (p :: ps)) with ([slash] ++ join [slash] (p :: ps)).
    rewrite endswith_app_nonempty by exact Hj. rewrite He. cbn [negb].
    unfold render. rewrite <- join_slash_render by discriminate. reflexivity.
  - unfold sane_path. apply sanitize_render; [exact Hs|]. destruct parts; [left; reflexivity|right; split; [reflexivity|discriminate]].
Qed.

(* ---------------------------------------------------------------- the selected base prefix *)
Lemma c18_base_prefix_shape : forall cfg rp x s b, cfg_ok cfg -> select_base cfg rp x s = BOk b ->
  b = [] \/ (startswith b [slash] = true /\ endswith b [slash] = false).
Proof. exact select_base_shape. Qed.
