(* C17, concurrency: for EVERY schedule of any number of threads stepping through login (step model of
   Model/LoginCacheConc.v, critical sections as in the code after the F13 patch) no thread raises, the cache
   invariant is kept, and every answer is justified by the back-end -- now, within the lifetime, or (for a cached
   failure) by a rejection stamped by one of the concurrently running logins.  One thread alone is exactly
   `login_body Vfix`.  With the unguarded delete of the code before the patch a schedule raises KeyError. *)
From Coq Require Import List ZArith NArith Bool String Lia.
Import ListNotations.
Require Import RV.Lib.PyStr RV.Proofs.PyStrLemmas RV.Model.LoginCache RV.Model.LoginCacheConc RV.Proofs.LoginCacheDict
               RV.Proofs.LoginCacheSweep RV.Proofs.LoginCacheSound.
Open Scope Z_scope.

Lemma sentry_eqb_refl : forall e, sentry_eqb e e = true.
Proof.
  intros [[d t] u]. unfold sentry_eqb. cbn [fst snd].
  rewrite (proj2 (dval_eqb_eq d d) eq_refl), Z.eqb_refl, eqs_refl. reflexivity.
Qed.

(* ---------------------------------------------------------------- one thread alone = the sequential model *)
Ltac stepc := cbn [trun tstep q_login q_pw q_now succ failed is_dempty].

Theorem thread_alone_is_login : forall cfg bk now c l0 pw,
  c_cache cfg = true -> NoDup (map fst (failed c)) ->
  let r := login_body Vfix cfg bk now c l0 pw in
  trun true cfg bk (mkReq (map_login cfg l0) pw now) 6 TSweep c = (TDone (r_out r), r_cache r).
Proof.
  intros cfg bk now c l0 pw Hc ND r. subst r. rewrite login_fix_unfold by exact ND. rewrite Hc. cbn [negb].
  set (l := map_login cfg l0).
  unfold sweepf, live. stepc.
  set (fd := filter _ (failed c)).
  change (filter (fun e : dval * (Z * pystr) => negb (age_s now (fst (snd e)) >? c_exp_f cfg)) (failed c)) with fd.
  unfold after_sweep. cbn [fix2 fix3 Vfix].
  destruct (dget dval_eqb fd (failed_key (c_salt cfg) l pw)) as [x|] eqn:Ef.
  - stepc. reflexivity.
  - assert (Hdel : ddel dval_eqb fd (failed_key (c_salt cfg) l pw) = fd).
    { apply (ddel_notin dval_eqb dval_eqb_eq). apply (dget_None dval_eqb dval_eqb_eq). exact Ef. }
    stepc.
    destruct (dget eqs (succ c) l) as [[[dc tc] uc]|] eqn:Es.
    + destruct (dval_eqb (cache_digest l pw tc) dc) eqn:Ed.
      * destruct (age_s now tc >? c_exp_s cfg) eqn:Ea.
        -- stepc. rewrite Es. rewrite sentry_eqb_refl. stepc.
           unfold backend_part. cbn [nonempty is_dempty]. rewrite Ef.
           destruct (nonempty (bk l pw)) eqn:En; stepc; rewrite ?Hdel; reflexivity.
        -- unfold backend_part. destruct (nonempty uc) eqn:Eu.
           ++ stepc. reflexivity.
           ++ stepc. rewrite Ef. unfold cache_digest at 1 2. cbn [is_dempty].
              destruct (nonempty (bk l pw)) eqn:En; stepc; rewrite ?Hdel; reflexivity.
      * unfold backend_part. cbn [nonempty]. stepc. rewrite Ef. unfold cache_digest at 1 2. cbn [is_dempty].
        destruct (nonempty (bk l pw)) eqn:En; stepc; rewrite ?Hdel; reflexivity.
    + unfold backend_part. cbn [nonempty]. stepc. rewrite Ef. unfold cache_digest at 1 2. cbn [is_dempty].
      destruct (nonempty (bk l pw)) eqn:En; stepc; rewrite ?Hdel; reflexivity.
Qed.

(* ---------------------------------------------------------------- all schedules *)
Section Conc.
  Context {B : Type} (backend : B -> pystr -> pystr -> pystr) (cfg : config).
  Variable M : list (Z * B).        (* moments of the history so far, and of the running logins *)
  Variable b0 : B.                  (* the back-end while the logins run *)
  Variable stamps : list Z.         (* the clock values the running logins read *)
  Hypothesis stamps_in_M : forall t, In t stamps -> In (t, b0) M.

  Definition post_sweep (q : treq) (c : cache) : Prop :=
    forall k t l', In (k, (t, l')) (failed c) -> age_s (q_now q) t <= c_exp_f cfg \/ In t stamps.

  (* an answer is justified *)
  Definition cgood (q : treq) (o : outcome) : Prop :=
    let l := q_login q in let pw := q_pw q in let now := q_now q in
    exists u cached, o = ORet u cached
      /\ (u <> [] -> backend b0 l pw = u \/
                     exists t b, In (t, b) M /\ age_s now t <= c_exp_s cfg /\ backend b l pw = u)
      /\ (u = [] -> backend b0 l pw = [] \/
                    exists t b, In (t, b) M /\ backend b l pw = [] /\ (age_s now t <= c_exp_f cfg \/ In t stamps)).

  Definition tinv (q : treq) (ts : tstate) (c : cache) : Prop :=
    let l := q_login q in let pw := q_pw q in
    match ts with
    | TSweep | TLookS | TDelS _ => True
    | TLookF => post_sweep q c
    | TBackend dg _ => dg = DEmpty \/ exists s, dg = cache_digest l pw s
    | TStoreOk dg _ u => (exists s, dg = cache_digest l pw s) /\ u = backend b0 l pw /\ u <> []
    | TStoreFail _ => backend b0 l pw = []
    | TDone o => cgood q o
    end.

  Notation cinvM := (cinv backend cfg M).

  (* what a step can do to the failed dictionary: keep / drop entries, or add one stamped with its own clock *)
  Lemma tstep_failed : forall q ts c ts' c' k t l',
    tstep true cfg (backend b0) q ts c = (ts', c') ->
    In (k, (t, l')) (failed c') -> In (k, (t, l')) (failed c) \/ t = q_now q.
  Proof.
    intros q ts c ts' c' k t l' E Hin. destruct ts; cbn [tstep] in E.
    - inversion E; subst. cbn [failed] in Hin. apply filter_In in Hin as [Hin _]. left. exact Hin.
    - destruct (dget dval_eqb (failed c) _); inversion E; subst; left; exact Hin.
    - destruct (dget eqs (succ c) (q_login q)) as [[[dc tc] uc]|]; [|inversion E; subst; left; exact Hin].
      destruct (dval_eqb _ dc); [|inversion E; subst; left; exact Hin].
      destruct (age_s _ tc >? _); [inversion E; subst; left; exact Hin|].
      destruct (nonempty uc); inversion E; subst; left; exact Hin.
    - destruct (dget eqs (succ c) (q_login q)) as [e'|]; [|inversion E; subst; left; exact Hin].
      destruct (sentry_eqb e' e); inversion E; subst; left; exact Hin.
    - destruct (nonempty _); inversion E; subst; left; exact Hin.
    - inversion E; subst. cbn [failed] in Hin. left. eapply ddel_In. exact Hin.
    - inversion E; subst. cbn [failed] in Hin.
      apply (dset_In dval_eqb dval_eqb_eq) in Hin as [[_ Hv]|Hin]; [right; inversion Hv; reflexivity|left; exact Hin].
    - inversion E; subst. left. exact Hin.
  Qed.

  Lemma tinv_other : forall q ts c ts' c' q' ts2,
    tstep true cfg (backend b0) q ts c = (ts', c') -> In (q_now q) stamps ->
    tinv q' ts2 c -> tinv q' ts2 c'.
  Proof.
    intros q ts c ts' c' q' ts2 E Hst H. destruct ts2; try exact H.
    cbn [tinv] in *. intros k t l' Hin.
    destruct (tstep_failed _ _ _ _ _ _ _ _ E Hin) as [Hold| ->]; [exact (H _ _ _ Hold)|right; exact Hst].
  Qed.

  Lemma tstep_inv : forall q ts c ts' c',
    tstep true cfg (backend b0) q ts c = (ts', c') -> In (q_now q) stamps ->
    cinvM c -> tinv q ts c -> cinvM c' /\ tinv q ts' c'.
  Proof.
    intros q ts c ts' c' E Hst (N1 & N2 & Hs & Hf) Ht.
    pose proof (stamps_in_M _ Hst) as HM.
    destruct ts; cbn [tstep] in E; cbn [tinv] in Ht.
    - (* TSweep *)
      inversion E; subst. split.
      + split4; cbn [succ failed]; try assumption.
        * apply filter_NoDup. exact N2.
        * intros k t l' Hin. apply filter_In in Hin as [Hin _]. apply Hf. exact Hin.
      + cbn [tinv]. intros k t l' Hin. cbn [failed] in Hin. left.
        destruct (sweepf_In (c_exp_f cfg) (q_now q) (failed c) k t l' Hin) as [_ H]. exact H.
    - (* TLookF *)
      destruct (dget dval_eqb (failed c) _) as [[t l']|] eqn:Ef; inversion E; subst.
      + split; [split4; assumption|]. cbn [tinv]. exists [], true. split; [reflexivity|].
        split; [congruence|]. intros _. right.
        apply (dget_In dval_eqb dval_eqb_eq) in Ef.
        destruct (Hf _ _ _ Ef) as (p & b & Ek & Hin & Hb). apply failed_key_inj in Ek as [El Ep]. subst l' p.
        exists t, b. split; [exact Hin|]. split; [exact Hb|]. exact (Ht _ _ _ Ef).
      + split; [split4; assumption|exact I].
    - (* TLookS *)
      destruct (dget eqs (succ c) (q_login q)) as [[[dc tc] uc]|] eqn:Es.
      + apply (dget_In eqs eqs_eq) in Es. destruct (Hs _ _ _ _ Es) as [Hu (salt & p & b & Ed & Hin & Hb)].
        destruct (dval_eqb _ dc) eqn:Edc.
        * apply dval_eqb_eq in Edc. rewrite <- Edc in Ed. apply cache_digest_same_login in Ed as [Et Ep]. subst salt p.
          destruct (age_s _ tc >? _) eqn:Ea; [inversion E; subst; split; [split4; assumption|exact I]|].
          rewrite (proj2 (nonempty_true _) Hu) in E. inversion E; subst.
          split; [split4; assumption|]. cbn [tinv]. exists (backend b (q_login q) (q_pw q)), true.
          split; [reflexivity|]. split; [|congruence].
          intros _. right. exists tc, b. split; [exact Hin|]. split; [|reflexivity].
          rewrite Z.gtb_ltb in Ea. apply Z.ltb_ge in Ea. exact Ea.
        * inversion E; subst. split; [split4; assumption|]. cbn [tinv]. right. eauto.
      + inversion E; subst. split; [split4; assumption|]. cbn [tinv]. right. eauto.
    - (* TDelS *)
      destruct (dget eqs (succ c) (q_login q)) as [e'|]; [|inversion E; subst; split; [split4; assumption|cbn [tinv]; left; reflexivity]].
      destruct (sentry_eqb e' e); inversion E; subst; (split; [|cbn [tinv]; left; reflexivity]).
      + split4; cbn [succ failed]; try assumption; [apply (ddel_NoDup eqs); exact N1|].
        intros l d t u Hin. apply Hs. eapply ddel_In. exact Hin.
      + split4; assumption.
    - (* TBackend *)
      destruct (nonempty (backend b0 (q_login q) (q_pw q))) eqn:En; inversion E; subst; (split; [split4; assumption|]); cbn [tinv].
      + split; [|split; [reflexivity|apply nonempty_true; exact En]].
        destruct Ht as [->|[s ->]]; [exists (q_now q)|exists s]; reflexivity.
      + apply nonempty_false. exact En.
    - (* TStoreOk *)
      destruct Ht as ((s & ->) & -> & Hu). inversion E; subst. split.
      + split4; cbn [succ failed].
        * apply (dset_NoDup eqs eqs_eq). exact N1.
        * apply (ddel_NoDup dval_eqb). exact N2.
        * intros l d t u Hin. apply (dset_In eqs eqs_eq) in Hin as [[-> Hv]|Hin]; [|apply Hs; exact Hin].
          inversion Hv; subst. split; [exact Hu|]. exists s, (q_pw q), b0. auto.
        * intros k t l' Hin. apply Hf. eapply ddel_In. exact Hin.
      + cbn [tinv]. exists (backend b0 (q_login q) (q_pw q)), fc. split; [reflexivity|].
        split; [intros _; left; reflexivity|]. intros E0. contradiction.
    - (* TStoreFail *)
      inversion E; subst. split.
      + split4; cbn [succ failed]; try assumption.
        * apply (dset_NoDup dval_eqb dval_eqb_eq). exact N2.
        * intros k t l' Hin. apply (dset_In dval_eqb dval_eqb_eq) in Hin as [[-> Hv]|Hin]; [|apply Hf; exact Hin].
          inversion Hv; subst. exists (q_pw q), b0. auto.
      + cbn [tinv]. exists [], fc. split; [reflexivity|]. split; [congruence|]. intros _. left. exact Ht.
    - inversion E; subst. split; [split4; assumption|exact Ht].
  Qed.

  Definition pinv (p : pool) (c : cache) : Prop :=
    forall q ts, In (q, ts) p -> In (q_now q) stamps /\ tinv q ts c.

  Lemma pool_step_spec : forall i p c p' c',
    pool_step true cfg (backend b0) i p c = (p', c') ->
    (p' = p /\ c' = c) \/
    exists q ts ts', In (q, ts) p /\ tstep true cfg (backend b0) q ts c = (ts', c')
                     /\ forall q2 ts2, In (q2, ts2) p' -> (q2 = q /\ ts2 = ts') \/ In (q2, ts2) p.
  Proof.
    intros i p. revert i. induction p as [|[q ts] r IH]; intros i c p' c' E.
    - cbn [pool_step] in E. inversion E; subst. left. auto.
    - destruct i as [|j]; cbn [pool_step] in E.
      + destruct (tstep true cfg (backend b0) q ts c) as [ts1 c1] eqn:Et. inversion E; subst.
        right. exists q, ts, ts1. split; [left; reflexivity|]. split; [exact Et|].
        intros q2 ts2 [Heq|Hin]; [inversion Heq; subst; left; auto|right; right; exact Hin].
      + destruct (pool_step true cfg (backend b0) j r c) as [r1 c1] eqn:Er. inversion E; subst.
        destruct (IH j c r1 c' Er) as [[-> ->]|(q3 & ts3 & ts3' & Hin3 & Et & Hall)].
        * left. auto.
        * right. exists q3, ts3, ts3'. split; [right; exact Hin3|]. split; [exact Et|].
          intros q2 ts2 [Heq|Hin]; [right; left; exact Heq|].
          destruct (Hall q2 ts2 Hin) as [H|H]; [left; exact H|right; right; exact H].
  Qed.

  Lemma pool_step_inv : forall i p c p' c',
    pool_step true cfg (backend b0) i p c = (p', c') -> cinvM c -> pinv p c -> cinvM c' /\ pinv p' c'.
  Proof.
    intros i p c p' c' E Hc Hp.
    destruct (pool_step_spec _ _ _ _ _ E) as [[-> ->]|(q & ts & ts' & Hin & Et & Hall)]; [auto|].
    destruct (Hp q ts Hin) as [Hst Hti].
    destruct (tstep_inv _ _ _ _ _ Et Hst Hc Hti) as [Hc' Hti'].
    split; [exact Hc'|]. intros q2 ts2 Hin2.
    destruct (Hall q2 ts2 Hin2) as [[-> ->]|Hold]; [auto|].
    destruct (Hp q2 ts2 Hold) as [Hst2 Hti2]. split; [exact Hst2|]. eapply tinv_other; eassumption.
  Qed.

  Lemma pool_run_inv : forall sched p c p' c',
    pool_run true cfg (backend b0) sched p c = (p', c') -> cinvM c -> pinv p c -> cinvM c' /\ pinv p' c'.
  Proof.
    induction sched as [|i s IH]; intros p c p' c' E Hc Hp.
    - cbn [pool_run] in E. inversion E; subst. auto.
    - cbn [pool_run] in E. destruct (pool_step true cfg (backend b0) i p c) as [p1 c1] eqn:E1.
      destruct (pool_step_inv _ _ _ _ _ E1 Hc Hp) as [Hc1 Hp1]. eapply IH; eassumption.
  Qed.

  (* EVERY schedule, any number of threads: the invariant holds afterwards, and every thread that has finished
     returned a justified answer -- in particular none raised *)
  Theorem all_schedules_sound : forall (qs : list treq) (sched : list nat) (c : cache) p' c',
    cinvM c -> (forall q, In q qs -> In (q_now q) stamps) ->
    pool_run true cfg (backend b0) sched (start qs) c = (p', c') ->
    cinvM c' /\ forall q o, In (q, TDone o) p' -> cgood q o.
  Proof.
    intros qs sched c p' c' Hc Hq E.
    assert (Hp : pinv (start qs) c).
    { intros q ts Hin. unfold start in Hin. apply in_map_iff in Hin as (q0 & Heq & Hin). inversion Heq; subst.
      split; [apply Hq; exact Hin|exact I]. }
    destruct (pool_run_inv _ _ _ _ _ E Hc Hp) as [Hc' Hp']. split; [exact Hc'|].
    intros q o Hin. destruct (Hp' q (TDone o) Hin) as [_ H]. exact H.
  Qed.

  Corollary all_schedules_never_raise : forall (qs : list treq) (sched : list nat) (c : cache) p' c' q e,
    cinvM c -> (forall q, In q qs -> In (q_now q) stamps) ->
    pool_run true cfg (backend b0) sched (start qs) c = (p', c') ->
    ~ In (q, TDone (ORaise e)) p'.
  Proof.
    intros qs sched c p' c' q e Hc Hq E Hin.
    destruct (all_schedules_sound qs sched c p' c' Hc Hq E) as [_ H].
    destruct (H q _ Hin) as (u & cached & Heq & _). discriminate.
  Qed.
End Conc.

(* ---------------------------------------------------------------- the code before the F13 patch *)
Definition S9c : Z := 1000000000.
Definition T0c : Z := 1700000000 * S9c.
Definition cfgc : config := mkConfig false false false true 15 90 T0c.
Definition alice_entry : cache :=
  mkCache [(str "alice", (cache_digest (str "alice") (str "pa") T0c, T0c, str "alice"))] [].
Definition bk_alice (l p : pystr) : pystr := if eqs l (str "alice") && eqs p (str "pa") then str "alice" else [].
Definition two_alices : list treq :=
  [mkReq (str "alice") (str "pa") (T0c + 16 * S9c); mkReq (str "alice") (str "pa") (T0c + 16 * S9c)].

(* both requests read the expired entry, then both delete it: the second `del` raises KeyError *)
Lemma unguarded_delete_raises :
  exists sched, In (mkReq (str "alice") (str "pa") (T0c + 16 * S9c), TDone (ORaise KeyError))
                   (fst (pool_run false cfgc bk_alice sched (start two_alices) alice_entry)).
Proof. exists [0; 0; 0; 1; 1; 1; 0; 1]%nat. vm_compute. right. left. reflexivity. Qed.

(* the same schedule with the guarded delete *)
Example guarded_delete_same_schedule :
  map snd (fst (pool_run true cfgc bk_alice [0; 0; 0; 1; 1; 1; 0; 1; 0; 0; 1; 1]%nat (start two_alices) alice_entry))
  = [TDone (ORet (str "alice") false); TDone (ORet (str "alice") false)].
Proof. vm_compute. reflexivity. Qed.
