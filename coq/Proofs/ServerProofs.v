(* C20 -- theorems about the server transition system: bound, progress, silent clients, 413, shutdown *)
From Coq Require Import List ZArith NArith Bool Lia Permutation.
Import ListNotations.
Require Import RV.Model.Server RV.Proofs.ServerLemmas RV.Proofs.ServerInv.
Open Scope Z_scope.

Section Srv.
Variable cfg : config.

Lemma reachable_run : forall evs s s' o, reachable cfg s -> run cfg s evs = Some (s', o) -> reachable cfg s'.
Proof.
  induction evs as [|e r IH]; intros s s' o Hr H; simpl in H.
  - inversion H; subst. exact Hr.
  - destruct (step cfg s e) as [[s1 o1]|] eqn:E; [|discriminate].
    destruct (run cfg s1 r) as [[s2 o2]|] eqn:E2; [|discriminate]. inversion H; subst.
    eapply IH; [|exact E2]. eapply reach_step; eauto.
Qed.

(* ================================================================================================ *)
(* 1. the bound                                                                                      *)

Lemma handling_le : forall s, (handling s <= length (workers s))%nat.
Proof. intro s. unfold handling. apply filter_length_le. Qed.

Theorem c20_bound : forall s, 0 < max_conn cfg -> reachable cfg s ->
  Z.of_nat (length (workers s)) <= max_conn cfg /\ Z.of_nat (handling s) <= max_conn cfg.
Proof.
  intros s Hm Hr. pose proof (inv_bound cfg s (reachable_Inv cfg s Hr) Hm) as H.
  split; [exact H|]. pose proof (handling_le s). lia.
Qed.

(* no connection is lost or duplicated: while serve() runs every connection that ever arrived is in exactly
   one of: kernel queue, worker set, reaped *)
Theorem c20_no_loss : forall s, reachable cfg s ->
  NoDup (all_ids s) /\ (forall c, In c (all_ids s) -> (c < next_id s)%N) /\
  (pc s <> PDone -> forall c, (c < next_id s)%N -> In c (all_ids s)).
Proof.
  intros s Hr. pose proof (reachable_Inv cfg s Hr) as HI. destruct HI. auto.
Qed.

(* ================================================================================================ *)
(* 2. progress                                                                                       *)

Lemma step_LBuild : forall s, pc s = PTop ->
  step cfg s LBuild = Some (with_pc s (PSelect (ids (workers s)) (below_limit cfg (workers s))),
                            [ORlist (ids (workers s)) (below_limit cfg (workers s))]).
Proof. intros s H. simpl. rewrite H. reflexivity. Qed.

(* a free slot and a waiting client: the next iteration polls the listeners, select reports them, and
   whichever ready listener the body picks, its OLDEST waiting client becomes a worker *)
Theorem c20_progress_accept : forall s, reachable cfg s -> pc s = PTop -> stop s = false ->
  backlog s <> [] -> below_limit cfg (workers s) = true ->
  exists s1 s2 rw rls,
    step cfg s LBuild = Some (s1, [ORlist (ids (workers s)) true]) /\
    step cfg s1 LSelect = Some (s2, [ORset rw rls false]) /\ rls <> [] /\
    forall l, In l rls ->
      exists b rest s3 o, take_first l (backlog s) = Some (b, rest) /\
        step cfg s2 (LBody (Some l)) = Some (s3, o) /\ In (OAccepted l (b_id b)) o /\
        In (b_id b) (ids (workers s3)) /\ backlog s3 = rest /\ pc s3 = PTop.
Proof.
  intros s Hr Hpc Hstop Hbl Hlim. pose proof (reachable_Inv cfg s Hr) as HI.
  set (rw := ids (filter (fun w => is_done w && memN (w_id w) (ids (workers s))) (workers s))).
  set (rls := ready_listeners cfg (backlog s)).
  assert (Hne : rls <> []).
  { destruct (backlog s) as [|b r] eqn:Eb; [contradiction|].
    assert (Hin : In (b_lis b) rls).
    { apply In_ready_listeners. split; [apply (inv_lis cfg s HI); rewrite Eb; left; reflexivity|].
      apply has_queued_In. exists b. split; [left; reflexivity|reflexivity]. }
    intro E. rewrite E in Hin. destruct Hin. }
  exists (with_pc s (PSelect (ids (workers s)) true)), (with_pc s (PGot rw rls false)), rw, rls.
  split; [rewrite step_LBuild, Hlim; auto|]. split; [|split; [exact Hne|]].
  - simpl. fold rw. fold rls. rewrite Hstop. destruct rw; destruct rls; try reflexivity. contradiction.
  - intros l Hl. assert (Hq : has_queued (backlog s) l = true) by (apply In_ready_listeners in Hl; tauto).
    destruct (take_first_some _ _ Hq) as [b [rest Ht]]. exists b, rest.
    apply memN_In in Hl. simpl. destruct rls as [|l0 rls']; [contradiction|]. rewrite Hl, Ht.
    eexists. eexists. split; [reflexivity|]. split; [reflexivity|]. split; [right; left; reflexivity|].
    split; [|split; reflexivity]. simpl. unfold ids. rewrite map_app. apply in_or_app. right. left. reflexivity.
Qed.

(* a finished worker is reaped by the next iteration; afterwards a slot is free, so the listeners are in the
   next rlist *)
Theorem c20_progress_reap : forall s rlw rll w o, reachable cfg s -> pc s = PSelect rlw rll -> stop s = false ->
  In w (workers s) -> w_st w = WDone o ->
  exists s2 rw rls,
    step cfg s LSelect = Some (s2, [ORset rw rls false]) /\ In (w_id w) rw /\
    (exists acc s3 o3, step cfg s2 (LBody acc) = Some (s3, o3)) /\
    forall acc s3 o3, step cfg s2 (LBody acc) = Some (s3, o3) ->
      ~ In (w_id w) (ids (workers s3)) /\ In (w_id w, o) (finished s3) /\ pc s3 = PTop /\
      step cfg s3 LBuild = Some (with_pc s3 (PSelect (ids (workers s3)) true), [ORlist (ids (workers s3)) true]).
Proof.
  intros s rlw rll w o Hr Hpc Hstop Hin Hst. pose proof (reachable_Inv cfg s Hr) as HI.
  assert (Hrlw : rlw = ids (workers s)).
  { pose proof (inv_snap cfg s HI) as H. unfold snapshot_ok in H. rewrite Hpc in H. exact H. }
  set (rw := ids (filter (fun w => is_done w && memN (w_id w) rlw) (workers s))).
  set (rls := if rll then ready_listeners cfg (backlog s) else []).
  assert (Hwrw : In (w_id w) rw).
  { unfold rw, ids. apply in_map. apply filter_In. split; [exact Hin|]. apply andb_true_iff. split.
    - unfold is_done. rewrite Hst. reflexivity.
    - apply memN_In. rewrite Hrlw. unfold ids. apply in_map. exact Hin. }
  assert (Hsel : step cfg s LSelect = Some (with_pc s (PGot rw rls false), [ORset rw rls false])).
  { simpl. rewrite Hpc. fold rw. fold rls. rewrite Hstop. destruct rw; [destruct Hwrw|]. reflexivity. }
  set (s2 := with_pc s (PGot rw rls false)).
  assert (Hr2 : reachable cfg s2) by (eapply reach_step; eauto).
  pose proof (reachable_Inv cfg s2 Hr2) as HI2.
  exists s2, rw, rls. split; [exact Hsel|]. split; [exact Hwrw|]. split.
  - (* some choice of the body is enabled *)
    destruct rls as [|l0 rls'] eqn:Erls.
    + exists None. simpl. eexists. eexists. reflexivity.
    + exists (Some l0). simpl. rewrite N.eqb_refl. simpl.
      pose proof (inv_snap cfg s2 HI2) as H. unfold snapshot_ok in H. simpl in H. destruct H as [_ [H _]].
      destruct (take_first_some l0 (backlog s) (H l0 (or_introl eq_refl))) as [b [rest Ht]]. rewrite Ht.
      eexists. eexists. reflexivity.
  - intros acc s3 o3 Hb.
    set (kept := filter (fun w0 => negb (memN (w_id w0) rw)) (workers s)).
    set (reaped := filter (fun w0 => memN (w_id w0) rw) (workers s)).
    assert (Hkl : (length kept < length (workers s))%nat).
    { apply (filter_length_lt worker _ (workers s) w Hin). apply memN_In in Hwrw. rewrite Hwrw. reflexivity. }
    assert (Hnk : ~ In (w_id w) (ids kept)).
    { intro H. unfold ids in H. apply in_map_iff in H. destruct H as [w' [H1 H2]]. apply filter_In in H2.
      destruct H2 as [_ H2]. rewrite H1 in H2. apply memN_In in Hwrw. rewrite Hwrw in H2. discriminate. }
    assert (Hfin : In (w_id w, o) (finished s ++ done_pairs reaped)).
    { apply in_or_app. right. apply In_done_pairs. exists w. split; [|auto]. apply filter_In. split; [exact Hin|].
      apply memN_In. exact Hwrw. }
    assert (Hbuild : forall s3, pc s3 = PTop -> below_limit cfg (workers s3) = true ->
              step cfg s3 LBuild = Some (with_pc s3 (PSelect (ids (workers s3)) true), [ORlist (ids (workers s3)) true])).
    { intros s0 H1 H2. rewrite step_LBuild, H2; auto. }
    simpl in Hb. fold kept in Hb. fold reaped in Hb.
    destruct rls as [|l0 rls'] eqn:Erls; destruct acc as [l|]; try discriminate.
    + inversion Hb; subst; clear Hb. split; [exact Hnk|]. split; [exact Hfin|]. split; [reflexivity|].
      apply Hbuild; [reflexivity|]. cbn [workers].
      unfold below_limit. destruct (max_conn cfg <=? 0) eqn:Em; [reflexivity|]. apply Z.leb_gt in Em. simpl.
      apply Z.ltb_lt. pose proof (inv_bound cfg s HI Em). lia.
    + destruct (memN l (l0 :: rls')) eqn:Eml; [|discriminate].
      destruct (take_first l (backlog s)) as [[b rest]|] eqn:Et; [|discriminate].
      inversion Hb; subst; clear Hb. cbn [workers finished pc].
      destruct (take_first_perm _ _ _ _ Et) as [Hpb _].
      assert (Hbw : b_id b <> w_id w).
      { intro E. pose proof (inv_nodup cfg s HI) as Hnd. unfold all_ids in Hnd. apply NoDup_app_inv in Hnd.
        destruct Hnd as [_ [_ Hd]]. apply (Hd (b_id b)).
        - unfold bids. apply in_map. eapply Permutation_in; [apply Permutation_sym; exact Hpb|]. left. reflexivity.
        - apply in_or_app. left. rewrite E. unfold ids. apply in_map. exact Hin. }
      split; [|split; [exact Hfin|split; [reflexivity|]]].
      * unfold ids. rewrite map_app. intro H. apply in_app_or in H. destruct H as [H|[H|[]]]; [apply Hnk; exact H|].
        simpl in H. apply Hbw. exact H.
      * apply Hbuild; [reflexivity|]. cbn [workers].
        assert (Hlim : below_limit cfg (workers s) = true).
        { apply (inv_limit cfg s2 HI2). reflexivity. }
        unfold below_limit in *. destruct (max_conn cfg <=? 0) eqn:Em; [reflexivity|]. simpl in *.
        apply Z.ltb_lt in Hlim. apply Z.ltb_lt. rewrite app_length. simpl. lia.
Qed.

(* the loop is never stuck for a reason of its own: at PGot some choice of the body is enabled *)
Theorem c20_body_enabled : forall s rw rls rst, reachable cfg s -> pc s = PGot rw rls rst ->
  exists acc s' o, step cfg s (LBody acc) = Some (s', o).
Proof.
  intros s rw rls rst Hr Hpc. pose proof (reachable_Inv cfg s Hr) as HI. destruct rst.
  - exists None. simpl. rewrite Hpc. eexists. eexists. reflexivity.
  - destruct rls as [|l0 rls'].
    + exists None. simpl. rewrite Hpc. eexists. eexists. reflexivity.
    + exists (Some l0). simpl. rewrite Hpc. simpl. rewrite N.eqb_refl. simpl.
      pose proof (inv_snap cfg s HI) as H. unfold snapshot_ok in H. rewrite Hpc in H. destruct H as [_ [H _]].
      destruct (take_first_some l0 (backlog s) (H l0 (or_introl eq_refl))) as [b [rest Ht]]. rewrite Ht.
      eexists. eexists. reflexivity.
Qed.

(* ================================================================================================ *)
(* 3. silent clients                                                                                 *)

(* the outcome a time-out produces in the phase the thread is in *)
Definition timeout_outcome (w : worker) : outcome := match w_st w with WBody => OAborted | _ => OTimeout end.

(* In WHICHEVER phase the thread waits for the client -- nothing sent yet, silence inside the request head, head
   complete with the body outstanding, silence in the middle of the body -- the time-out is enabled and finishes
   the connection. *)
Theorem c20_silent : forall s w, reachable cfg s -> timeout_on cfg = true ->
  In w (workers s) -> waits_for_client w = true ->
  exists s' ob, step cfg s (TTimeout (w_id w)) = Some (s', [ob]) /\
    (ob = OTimedOut (w_id w) \/ ob = OBodyTimedOut (w_id w)) /\
    pc s' = pc s /\ stop s' = stop s /\ length (workers s') = length (workers s) /\
    In (set_st (WDone (timeout_outcome w)) w) (workers s').
Proof.
  intros s w Hr Ht Hin Hw. pose proof (reachable_Inv cfg s Hr) as HI.
  pose proof (In_find_w (workers s) w (NoDup_ws s (inv_nodup cfg s HI)) Hin) as Hf.
  unfold waits_for_client in Hw. unfold timeout_outcome. simpl. rewrite Ht, Hf.
  destruct (w_st w) eqn:Est; try discriminate.
  - rewrite Hw. eexists. eexists. split; [reflexivity|]. split; [left; reflexivity|]. simpl.
    split; [reflexivity|]. split; [reflexivity|]. split; [apply length_upd_w|]. apply In_upd_w_same; auto.
  - apply negb_true_iff in Hw. rewrite Hw. eexists. eexists. split; [reflexivity|]. split; [right; reflexivity|]. simpl.
    split; [reflexivity|]. split; [reflexivity|]. split; [apply length_upd_w|]. apply In_upd_w_same; auto.
Qed.

(* Every unfinished worker is in exactly one of three situations: it waits for the client (then the time-out is
   enabled, c20_silent), or the thread itself can move on (input is there: TRead / TBody enabled), or it is inside
   the application handler and not waiting for the client.  There is no phase in which a thread waits for the
   client without a time-out. *)
Theorem c20_every_wait_has_timeout : forall s w, reachable cfg s -> In w (workers s) -> is_done w = false ->
  waits_for_client w = true \/
  (exists s' o, step cfg s (TRead (w_id w)) = Some (s', o)) \/
  (exists s' o, step cfg s (TBody (w_id w)) = Some (s', o)) \/
  w_st w = WHandling.
Proof.
  intros s w Hr Hin Hd. pose proof (reachable_Inv cfg s Hr) as HI.
  pose proof (In_find_w (workers s) w (NoDup_ws s (inv_nodup cfg s HI)) Hin) as Hf.
  unfold waits_for_client, is_done in *. destruct (w_st w) eqn:Est; try discriminate.
  - destruct (w_cl w) as [| |m full|] eqn:Ecl; simpl; auto.
    + right. left. simpl. rewrite Hf, Est, Ecl. destruct m as [r|]; [|eauto].
      destruct (gate_status (gate (gc cfg) r)); eauto.
    + right. left. simpl. rewrite Hf, Est, Ecl. eauto.
  - destruct (body_full (w_cl w)) eqn:Eb; simpl; auto.
    right. right. left. simpl. rewrite Hf, Est, Eb. eauto.
  - auto.
Qed.

(* ... and then its slot is freed by the next iteration (composition with c20_progress_reap) *)
Theorem c20_silent_frees_slot : forall s rlw rll w, reachable cfg s -> timeout_on cfg = true ->
  pc s = PSelect rlw rll -> stop s = false ->
  In w (workers s) -> waits_for_client w = true ->
  exists s1 ob s2 rw rls, step cfg s (TTimeout (w_id w)) = Some (s1, [ob]) /\
    step cfg s1 LSelect = Some (s2, [ORset rw rls false]) /\ In (w_id w) rw /\
    (exists acc s3 o3, step cfg s2 (LBody acc) = Some (s3, o3)) /\
    forall acc s3 o3, step cfg s2 (LBody acc) = Some (s3, o3) ->
      ~ In (w_id w) (ids (workers s3)) /\ In (w_id w, timeout_outcome w) (finished s3) /\
      step cfg s3 LBuild = Some (with_pc s3 (PSelect (ids (workers s3)) true), [ORlist (ids (workers s3)) true]).
Proof.
  intros s rlw rll w Hr Ht Hpc Hstop Hin Hw.
  destruct (c20_silent s w Hr Ht Hin Hw) as [s1 [ob [H1 [_ [H2 [H3 [_ H4]]]]]]].
  assert (Hr1 : reachable cfg s1) by (eapply reach_step; eauto).
  rewrite Hpc in H2. rewrite Hstop in H3.
  destruct (c20_progress_reap s1 rlw rll (set_st (WDone (timeout_outcome w)) w) (timeout_outcome w) Hr1 H2 H3 H4 eq_refl)
    as [s2 [rw [rls [A [B [C D]]]]]].
  exists s1, ob, s2, rw, rls. split; [exact H1|]. split; [exact A|]. split; [exact B|]. split; [exact C|].
  intros acc s3 o3 Hb. destruct (D acc s3 o3 Hb) as [D1 [D2 [_ D4]]]. auto.
Qed.

(* without a configured timeout nobody is ever dropped for being silent *)
Theorem c20_no_timeout_configured : forall s c, timeout_on cfg = false -> step cfg s (TTimeout c) = None.
Proof. intros s c H. simpl. rewrite H. reflexivity. Qed.

(* ================================================================================================ *)
(* 4. Content-Length                                                                                 *)

Theorem c20_gate_413 : forall g r z, internal g = true -> 0 < max_len g -> r_cl r = ClInt z -> max_len g < z ->
  (exists st, gate g r = GEarly st) \/ gate g r = GTooLarge.
Proof.
  intros g r z Hi Hm Hc Hz. unfold gate. destruct (r_pref r); eauto.
  destruct (r_method r); simpl; eauto. destruct (r_wk r); eauto.
  rewrite Hi, Hc. assert (E0 : (z <? 0) = false) by (apply Z.ltb_ge; lia).
  assert (E1 : (z =? 0) = false) by (apply Z.eqb_neq; lia).
  assert (E2 : (0 <? max_len g) = true) by (apply Z.ltb_lt; lia).
  assert (E3 : (max_len g <? z) = true) by (apply Z.ltb_lt; lia). rewrite E0, E1, E2, E3. simpl. right. reflexivity.
Qed.

(* exactly when 413 is answered *)
Theorem c20_gate_413_exact : forall g r,
  gate g r = GTooLarge <->
  r_pref r = PrefOk /\ r_method r = true /\ r_wk r = WkNone /\ internal g = true /\
  exists z, r_cl r = ClInt z /\ 0 < max_len g /\ max_len g < z.
Proof.
  intros g r. unfold gate. split.
  - destruct (r_pref r); try discriminate. destruct (r_method r); simpl; try discriminate.
    destruct (r_wk r); try discriminate. destruct (internal g); [|destruct (r_auth r); discriminate].
    destruct (r_cl r) as [|z|]; try (destruct (r_auth r); discriminate).
    destruct (z <? 0); [discriminate|].
    destruct (negb (z =? 0) && (0 <? max_len g) && (max_len g <? z)) eqn:E; [|destruct (r_auth r); discriminate].
    intros _. apply andb_true_iff in E. destruct E as [E E3]. apply andb_true_iff in E. destruct E as [E1 E2].
    apply Z.ltb_lt in E2, E3. repeat split; auto. exists z. auto.
  - intros [H1 [H2 [H3 [H4 [z [H5 [H6 H7]]]]]]]. rewrite H1, H2, H3, H4, H5. simpl.
    assert (E0 : (z <? 0) = false) by (apply Z.ltb_ge; lia). rewrite E0.
    assert (E1 : (z =? 0) = false) by (apply Z.eqb_neq; lia).
    assert (E2 : (0 <? max_len g) = true) by (apply Z.ltb_lt; lia).
    assert (E3 : (max_len g <? z) = true) by (apply Z.ltb_lt; lia). rewrite E1, E2, E3. reflexivity.
Qed.

(* the dispatch is reached exactly in these cases (what must not change): *)
Theorem c20_gate_dispatch_exact : forall g r,
  gate g r = GDispatch <->
  r_pref r = PrefOk /\ r_method r = true /\ r_wk r = WkNone /\ r_auth r <> AuthFail /\
  (internal g = true -> r_cl r <> ClBad /\
     forall z, r_cl r = ClInt z -> 0 <= z /\ (z = 0 \/ max_len g <= 0 \/ z <= max_len g)).
Proof.
  intros g r. unfold gate. split.
  - destruct (r_pref r); try discriminate. destruct (r_method r); simpl; try discriminate.
    destruct (r_wk r); try discriminate. destruct (internal g).
    + destruct (r_cl r) as [|z|]; try discriminate.
      * destruct (r_auth r); try discriminate; intros _; repeat split; try discriminate; intros; discriminate.
      * destruct (z <? 0) eqn:E0; [discriminate|]. apply Z.ltb_ge in E0.
        destruct (negb (z =? 0) && (0 <? max_len g) && (max_len g <? z)) eqn:E; [discriminate|].
        assert (Hz : z = 0 \/ max_len g <= 0 \/ z <= max_len g).
        { apply andb_false_iff in E. destruct E as [E|E]; [apply andb_false_iff in E; destruct E as [E|E]|].
          - left. apply negb_false_iff in E. apply Z.eqb_eq. exact E.
          - right. left. apply Z.ltb_ge. exact E.
          - right. right. apply Z.ltb_ge. exact E. }
        destruct (r_auth r); try discriminate; intros _; repeat split; try discriminate;
          try (match goal with H : ClInt _ = ClInt _ |- _ => inversion H; subst end; assumption).
    + destruct (r_auth r); try discriminate; intros _; repeat split; try discriminate; intro; discriminate.
  - intros [H1 [H2 [H3 [H4 H5]]]]. rewrite H1, H2, H3. simpl. destruct (internal g).
    + destruct (H5 eq_refl) as [H6 H7]. destruct (r_cl r) as [|z|]; [| |contradiction].
      * destruct (r_auth r); auto; contradiction.
      * destruct (H7 z eq_refl) as [H8 H9]. replace (z <? 0) with false by (symmetry; apply Z.ltb_ge; exact H8).
        replace (negb (z =? 0) && (0 <? max_len g) && (max_len g <? z)) with false.
        -- destruct (r_auth r); auto; contradiction.
        -- symmetry. destruct H9 as [E|[E|E]].
           ++ subst. reflexivity.
           ++ apply andb_false_iff. left. apply andb_false_iff. right. apply Z.ltb_ge. exact E.
           ++ apply andb_false_iff. right. apply Z.ltb_ge. exact E.
    + destruct (r_auth r); auto; contradiction.
Qed.

(* with the negative-length fix: whatever reaches a handler of the internal server declares a length within the limit *)
Theorem c20_size_bound_strong : forall g r z, internal g = true -> r_cl r = ClInt z -> gate g r = GDispatch ->
  0 <= z /\ (0 < max_len g -> z <= max_len g).
Proof.
  intros g r z Hi Hc Hg. apply c20_gate_dispatch_exact in Hg. destruct Hg as [_ [_ [_ [_ H]]]].
  destruct (H Hi) as [_ H2]. destruct (H2 z Hc) as [H3 H4]. split; [exact H3|]. intro Hm. lia.
Qed.

(* in the server: the thread answers an oversized request itself; the handler is not entered *)
Theorem c20_413 : forall s w r full z, reachable cfg s -> internal (gc cfg) = true -> 0 < max_len (gc cfg) ->
  In w (workers s) -> w_st w = WReading -> w_cl w = CSent (RHttp r) full -> r_cl r = ClInt z -> max_len (gc cfg) < z ->
  exists s' st, step cfg s (TRead (w_id w)) = Some (s', [OAnswer (w_id w) st]) /\
    entered s' = entered s /\ In (set_st (WDone (OResp st)) w) (workers s') /\
    (r_pref r = PrefOk -> r_method r = true -> r_wk r = WkNone -> st = 413%N).
Proof.
  intros s w r full z Hr Hi Hm Hin Hst Hcl Hc Hz. pose proof (reachable_Inv cfg s Hr) as HI.
  pose proof (In_find_w (workers s) w (NoDup_ws s (inv_nodup cfg s HI)) Hin) as Hf.
  simpl. rewrite Hf, Hst, Hcl.
  destruct (c20_gate_413 (gc cfg) r z Hi Hm Hc Hz) as [[st Hg]|Hg]; rewrite Hg; simpl.
  - exists (with_workers s (upd_w (w_id w) (set_st (WDone (OResp st))) (workers s))), st.
    split; [reflexivity|]. split; [reflexivity|]. split; [apply In_upd_w_same; auto|].
    intros H1 H2 H3. assert (gate (gc cfg) r = GTooLarge).
    { apply c20_gate_413_exact. repeat split; auto. exists z. auto. }
    rewrite Hg in H. discriminate.
  - exists (with_workers s (upd_w (w_id w) (set_st (WDone (OResp 413%N))) (workers s))), 413%N.
    split; [reflexivity|]. split; [reflexivity|]. split; [apply In_upd_w_same; auto|]. auto.
Qed.

(* the handler is entered only by a TRead of a request for which the gate says "dispatch" *)
Theorem c20_enter_only_dispatch : forall s e s' o c, step cfg s e = Some (s', o) -> In (OEnter c) o ->
  exists w r full, e = TRead c /\ find_w c (workers s) = Some w /\ w_cl w = CSent (RHttp r) full /\
    gate (gc cfg) r = GDispatch.
Proof.
  intros s e s' o c Hs Hin. destruct e; simpl in Hs;
    repeat match type of Hs with
           | context [match ?x with _ => _ end] => destruct x eqn:?; try discriminate
           end;
    inversion Hs; subst; simpl in Hin;
    repeat match goal with H : _ \/ _ |- _ => destruct H end; try discriminate; try contradiction.
  all: match goal with H : OEnter _ = OEnter _ |- _ => inversion H; subst end.
  all: eexists; eexists; eexists; split; [reflexivity|]; split; [eassumption|]; split; [eassumption|].
  all: destruct (gate (gc cfg) r); simpl in *; try discriminate; reflexivity.
Qed.

(* ================================================================================================ *)
(* 5. shutdown                                                                                       *)

(* the shutdown socket is readable and the loop is not in the middle of an iteration whose select returned
   before that *)
Definition closing (s : state) : Prop :=
  stop s = true /\ match pc s with PGot _ _ false => False | _ => True end.

Theorem c20_shutdown_no_accept : forall s e s' o, closing s -> step cfg s e = Some (s', o) ->
  closing s' /\ accepted s' = accepted s /\ forall l c, ~ In (OAccepted l c) o.
Proof.
  intros s e s' o [Hstop Hpc] Hs. unfold closing. destruct e; simpl in Hs;
    repeat match type of Hs with
           | context [match ?x with _ => _ end] => destruct x eqn:?; try discriminate
           end;
    inversion Hs; subst; simpl in *;
    try (split; [split; [auto | try rewrite Hstop; auto]|split; [reflexivity|]]; intros l0 c0 Hin;
         repeat match goal with H : _ \/ _ |- _ => destruct H end; try discriminate; try contradiction);
    try congruence; try contradiction.
Qed.

Lemma accepted_grows_at_most_one : forall s e s' o, step cfg s e = Some (s', o) ->
  accepted s' = accepted s \/ exists c, accepted s' = accepted s ++ [c].
Proof.
  intros s e s' o Hs. destruct e; simpl in Hs;
    repeat match type of Hs with
           | context [match ?x with _ => _ end] => destruct x eqn:?; try discriminate
           end;
    inversion Hs; subst; simpl; eauto.
Qed.

Lemma stop_stays : forall s e s' o, step cfg s e = Some (s', o) -> stop s = true -> stop s' = true.
Proof.
  intros s e s' o Hs Hst. destruct e; simpl in Hs;
    repeat match type of Hs with
           | context [match ?x with _ => _ end] => destruct x eqn:?; try discriminate
           end;
    inversion Hs; subst; simpl; auto.
Qed.

Lemma closing_after_body : forall s e s' o, stop s = true -> step cfg s e = Some (s', o) ->
  closing s' \/ (pc s' = pc s /\ accepted s' = accepted s).
Proof.
  intros s e s' o Hst Hs. pose proof (stop_stays s e s' o Hs Hst) as Hst'. unfold closing.
  destruct e; simpl in Hs;
    repeat match type of Hs with
           | context [match ?x with _ => _ end] => destruct x eqn:?; try discriminate
           end;
    inversion Hs; subst; simpl in *; try (right; split; reflexivity); try (left; split; [assumption|exact I]);
    try congruence; try (left; rewrite Hst; split; [reflexivity|exact I]).
Qed.

(* from the moment the shutdown socket is readable at most ONE more connection is accepted (the one of an
   iteration whose select had already returned), none if the loop is at the top or blocked in select *)
Theorem c20_shutdown_at_most_one : forall evs s s' o, stop s = true -> run cfg s evs = Some (s', o) ->
  (length (accepted s') <= length (accepted s) + 1)%nat /\ (closing s -> accepted s' = accepted s).
Proof.
  induction evs as [|e r IH]; intros s s' o Hst H; simpl in H.
  - inversion H; subst. split; [lia|reflexivity].
  - destruct (step cfg s e) as [[s1 o1]|] eqn:E; [|discriminate].
    destruct (run cfg s1 r) as [[s2 o2]|] eqn:E2; [|discriminate]. inversion H; subst.
    pose proof (stop_stays _ _ _ _ E Hst) as Hst1. destruct (IH _ _ _ Hst1 E2) as [IH1 IH2]. split.
    + destruct (closing_after_body _ _ _ _ Hst E) as [Hc|[Hp Ha]].
      * rewrite (IH2 Hc). destruct (accepted_grows_at_most_one _ _ _ _ E) as [Ha|[c Ha]]; rewrite Ha;
          [lia | rewrite app_length; simpl; lia].
      * rewrite Ha in IH1. exact IH1.
    + intro Hc. destruct (c20_shutdown_no_accept _ _ _ _ Hc E) as [Hc1 [Ha _]]. rewrite (IH2 Hc1). exact Ha.
Qed.

(* the shutdown request is idempotent: a second (third, ...) exit signal while the server is draining changes nothing,
   and a shutdown request is possible in every state *)
Theorem c20_stop_idempotent : forall s, stop s = true -> step cfg s EStop = Some (s, []).
Proof. intros s H. simpl. rewrite H. reflexivity. Qed.

Theorem c20_stop_always_enabled : forall s, exists s', step cfg s EStop = Some (s', []) /\ stop s' = true /\
  pc s' = pc s /\ workers s' = workers s /\ backlog s' = backlog s /\ accepted s' = accepted s.
Proof.
  intro s. simpl. destruct (stop s) eqn:E; eexists; (split; [reflexivity|]); simpl; auto.
Qed.

(* blocked in select when the shutdown arrives: select returns, the body breaks, nothing is accepted or reaped *)
Theorem c20_shutdown_break : forall s rlw rll, pc s = PSelect rlw rll -> stop s = true ->
  exists s1 s2 rw rls, step cfg s LSelect = Some (s1, [ORset rw rls true]) /\
    step cfg s1 (LBody None) = Some (s2, [OBreak]) /\ pc s2 = PFinal /\
    workers s2 = workers s /\ accepted s2 = accepted s /\
    forall acc, acc <> None -> step cfg s1 (LBody acc) = None.
Proof.
  intros s rlw rll Hpc Hst.
  set (rw := ids (filter (fun w => is_done w && memN (w_id w) rlw) (workers s))).
  set (rls := if rll then ready_listeners cfg (backlog s) else []).
  exists (with_pc s (PGot rw rls true)), (with_pc s PFinal), rw, rls. split; [|split; [|split; [|split; [|split]]]]; try reflexivity.
  - simpl. rewrite Hpc. fold rw. fold rls. rewrite Hst. destruct rw; destruct rls; reflexivity.
  - intros acc Hacc. simpl. destruct acc; [reflexivity|contradiction].
Qed.

Definition done_inv (s : state) : Prop := pc s = PDone -> workers s = [] /\ backlog s = [].

Lemma done_inv_step : forall s e s' o, done_inv s -> step cfg s e = Some (s', o) -> done_inv s'.
Proof.
  intros s e s' o HD Hs. unfold done_inv in *. destruct e; simpl in Hs;
    repeat match type of Hs with
           | context [match ?x with _ => _ end] => destruct x eqn:?; try discriminate
           end;
    inversion Hs; subst; simpl in *; intro Hp; try discriminate; try (split; reflexivity);
    try (destruct (HD Hp) as [H1 H2]; rewrite ?H1, ?H2 in *; simpl in *; try discriminate; auto; fail).
  rewrite Hp in *. discriminate.
Qed.

Lemma reachable_done_inv : forall s, reachable cfg s -> done_inv s.
Proof.
  intros s H. induction H; [intro Hp; discriminate | eapply done_inv_step; eauto].
Qed.

(* serve() has returned: the shutdown had been requested, every connection ever accepted has finished and has
   been waited for, and every request that entered the handler left it with its response written *)
Theorem c20_shutdown : forall s, reachable cfg s -> pc s = PDone ->
  stop s = true /\ workers s = [] /\
  (forall c, In c (accepted s) -> exists o, In (c, o) (finished s)) /\
  (forall c, In c (entered s) -> In (c, OHandled) (finished s) \/ In (c, OAborted) (finished s)).
Proof.
  intros s Hr Hpc. pose proof (reachable_Inv cfg s Hr) as HI.
  destruct (reachable_done_inv s Hr Hpc) as [Hw _]. split; [apply (inv_final cfg s HI); right; exact Hpc|].
  split; [exact Hw|]. split.
  - intros c Hc. apply (inv_acc cfg s HI) in Hc. rewrite Hw in Hc. destruct Hc as [[]|Hc].
    apply in_map_iff in Hc. destruct Hc as [[c' o] [H1 H2]]. simpl in H1. subst. eauto.
  - intros c Hc. destruct (inv_ent cfg s HI c Hc) as [[w [Hin _]]|H]; [rewrite Hw in Hin; destruct Hin|exact H].
Qed.

(* in the finally block serve() cannot return before the worker it waits for has finished ... *)
Theorem c20_final_blocks : forall s w rest, pc s = PFinal -> workers s = w :: rest -> is_done w = false ->
  step cfg s LFinal = None /\ step cfg s LClose = None.
Proof.
  intros s w rest Hpc Hw Hd. simpl. rewrite Hpc, Hw. unfold is_done in Hd. destruct (w_st w); try discriminate; auto.
Qed.

(* ... and it does return once all of them have *)
Theorem c20_shutdown_returns : forall ws s, pc s = PFinal -> workers s = ws -> (forall w, In w ws -> is_done w = true) ->
  exists evs s' o, Forall (fun e => e = LFinal \/ e = LClose) evs /\ run cfg s evs = Some (s', o) /\ pc s' = PDone
                   /\ accepted s' = accepted s.
Proof.
  induction ws as [|w rest IH]; intros s Hpc Hws Hd.
  - exists [LClose]. simpl. rewrite Hpc, Hws. eexists. eexists. split; [constructor; auto|]. split; [reflexivity|].
    split; reflexivity.
  - assert (Hdw : is_done w = true) by (apply Hd; left; reflexivity). unfold is_done in Hdw.
    destruct (w_st w) as [| | |ow] eqn:Est; try discriminate.
    set (s1 := mkS PFinal rest (backlog s) (stop s) (next_id s) (finished s ++ [(w_id w, ow)]) (accepted s) (entered s)).
    destruct (IH s1 eq_refl eq_refl) as [evs [s' [o [H1 [H2 [H3 H4]]]]]]; [intros; apply Hd; right; auto|].
    exists (LFinal :: evs). simpl. rewrite Hpc, Hws, Est. fold s1. rewrite H2.
    eexists. eexists. split; [constructor; auto|]. split; [reflexivity|]. split; [exact H3|exact H4].
Qed.

End Srv.
