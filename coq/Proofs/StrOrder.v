(* C14 -- the code-point order on Python strings (str_ltb / str_leb of Model/ContentLine.v) is a strict total order. *)
From Coq Require Import List NArith Bool Lia.
Import ListNotations.
Require Import RV.Lib.PyStr RV.Proofs.PyStrLemmas RV.Model.ContentLine.
Open Scope N_scope.

Lemma str_ltb_irrefl : forall a, str_ltb a a = false.
Proof.
  induction a as [|x a IH]; cbn; [reflexivity|].
  rewrite N.ltb_irrefl, N.eqb_refl, IH. reflexivity.
Qed.

Lemma str_ltb_trans : forall a b c, str_ltb a b = true -> str_ltb b c = true -> str_ltb a c = true.
Proof.
  induction a as [|x a IH]; intros [|y b] [|z c] H1 H2; cbn in *; try discriminate; try reflexivity.
  apply orb_true_iff in H1. apply orb_true_iff in H2. apply orb_true_iff.
  destruct H1 as [H1|H1], H2 as [H2|H2].
  - left. apply N.ltb_lt in H1, H2. apply N.ltb_lt. lia.
  - apply andb_true_iff in H2 as [H2 _]. apply N.eqb_eq in H2. subst. left. exact H1.
  - apply andb_true_iff in H1 as [H1 _]. apply N.eqb_eq in H1. subst. left. exact H2.
  - apply andb_true_iff in H1 as [E1 L1]. apply andb_true_iff in H2 as [E2 L2].
    apply N.eqb_eq in E1, E2. subst. right. rewrite N.eqb_refl. cbn. eapply IH; eassumption.
Qed.

Lemma str_ltb_asym : forall a b, str_ltb a b = true -> str_ltb b a = false.
Proof.
  intros a b H. destruct (str_ltb b a) eqn:E; [|reflexivity].
  pose proof (str_ltb_trans _ _ _ H E) as T. rewrite str_ltb_irrefl in T. discriminate.
Qed.

Lemma str_trichotomy : forall a b, str_ltb a b = true \/ a = b \/ str_ltb b a = true.
Proof.
  induction a as [|x a IH]; intros [|y b]; cbn; auto.
  destruct (N.lt_trichotomy x y) as [H|[H|H]].
  - left. apply N.ltb_lt in H. rewrite H. reflexivity.
  - subst. rewrite N.ltb_irrefl, N.eqb_refl. cbn.
    destruct (IH b) as [H|[H|H]]; [left; exact H | right; left; congruence | right; right; exact H].
  - right. right. apply N.ltb_lt in H. rewrite H. reflexivity.
Qed.

Lemma str_ltb_false_cases : forall a b, str_ltb a b = false -> a = b \/ str_ltb b a = true.
Proof. intros a b H. destruct (str_trichotomy a b) as [T|[T|T]]; [congruence | auto | auto]. Qed.

Lemma str_ltb_neq : forall a b, str_ltb a b = true -> a <> b.
Proof. intros a b H E. subst. rewrite str_ltb_irrefl in H. discriminate. Qed.

Lemma str_ltb_eqs : forall a b, str_ltb a b = true -> eqs a b = false.
Proof. intros a b H. apply eqs_neq. apply str_ltb_neq. exact H. Qed.

Lemma str_leb_refl : forall a, str_leb a a = true.
Proof. intros. unfold str_leb. rewrite str_ltb_irrefl. reflexivity. Qed.

Lemma str_leb_total : forall a b, str_leb a b = true \/ str_leb b a = true.
Proof.
  intros a b. unfold str_leb. destruct (str_trichotomy a b) as [H|[H|H]].
  - left. rewrite (str_ltb_asym _ _ H). reflexivity.
  - subst. left. rewrite str_ltb_irrefl. reflexivity.
  - right. rewrite (str_ltb_asym _ _ H). reflexivity.
Qed.
