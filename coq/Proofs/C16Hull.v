(* C16 -- find_time_range: the enclosing range really encloses every range the visitor can hand out, and its
   finite ends are attained by non-empty ranges (what the storage shortcut relies on). *)
From Coq Require Import ZArith List Bool Lia ZifyBool.
Import ListNotations.
Require Import RV.Model.Rfc4791 RV.Model.Filter RV.Proofs.C16Xt RV.Proofs.C16Loop RV.Proofs.C16Rows RV.Proofs.C16Tables.
Open Scope Z_scope.

Definition hull_add (c : call) (st : hull_st) : hull_st := fst (hull_fn c st).

Lemma hull_fn_eq : forall c st, hull_fn c st = (hull_add c st, false).
Proof. intros c [a b]. unfold hull_add, hull_fn. reflexivity. Qed.

Lemma run_hull : forall l st, run_calls hull_fn l st = (fold_left (fun st c => hull_add c st) l st, false).
Proof.
  induction l as [|c r IH]; intros st; cbn [run_calls fold_left]; [reflexivity|].
  rewrite hull_fn_eq. apply IH.
Qed.

Definition nonempty (c : call) : Prop := xlt (c_s c) (c_e c) = true.

(* invariant of the state of find_time_range's range_fn w.r.t. the set of ranges seen so far *)
Definition hinv (st : hull_st) (Seen : call -> Prop) : Prop :=
  match st with
  | (None, None) => forall c, ~ Seen c
  | (Some a, Some b) =>
      (forall c, Seen c -> xle a (c_s c) = true /\ xle (c_e c) b = true)
      /\ (exists c, Seen c /\ c_s c = a) /\ (exists c, Seen c /\ c_e c = b)
  | _ => False
  end.

Lemma hinv_ext : forall st (S S' : call -> Prop), (forall c, S c <-> S' c) -> hinv st S -> hinv st S'.
Proof.
  intros [[a|] [b|]] S S' Hext H; cbn [hinv] in *; try contradiction.
  - destruct H as (He & (c1 & Hc1 & H1) & (c2 & Hc2 & H2)). split; [|split].
    + intros c Hc. apply He. apply Hext. exact Hc.
    + exists c1. split; [apply Hext; exact Hc1|exact H1].
    + exists c2. split; [apply Hext; exact Hc2|exact H2].
  - intros c Hc. apply (H c). apply Hext. exact Hc.
Qed.

Lemma hinv_add : forall st S c, hinv st S -> hinv (hull_add c st) (fun x => S x \/ x = c).
Proof.
  intros [[a|] [b|]] S c H; cbn [hinv] in H; try contradiction; unfold hull_add, hull_fn; cbn [fst hinv].
  - destruct H as (He & (c1 & Hc1 & H1) & (c2 & Hc2 & H2)).
    destruct (xlt (c_s c) a) eqn:Ha; destruct (xlt b (c_e c)) eqn:Hb; (split; [|split]).
    all: try (intros x [Hx| ->]; [destruct (He x Hx) as [Hx1 Hx2]|]).
    all: try (exists c; split; [right; reflexivity|reflexivity]).
    all: try (exists c1; split; [left; exact Hc1|exact H1]).
    all: try (exists c2; split; [left; exact Hc2|exact H2]).
    all: split; try apply xle_refl; try assumption.
    all: try (eapply xle_trans; [|eassumption]; apply xlt_xle; assumption).
    all: try (eapply xle_trans; [eassumption|]; apply xlt_xle; assumption).
    all: unfold xle; try rewrite Ha; try rewrite Hb; reflexivity.
  - split; [|split].
    + intros x [Hx| ->]; [destruct (H x Hx)|]. split; apply xle_refl.
    + exists c. split; [right; reflexivity|reflexivity].
    + exists c. split; [right; reflexivity|reflexivity].
Qed.

Lemma hinv_block : forall l st S, hinv st S ->
    hinv (fold_left (fun st c => hull_add c st) l st) (fun x => S x \/ In x l).
Proof.
  induction l as [|c r IH]; intros st S H; cbn [fold_left].
  - eapply hinv_ext; [|exact H]. intros x. cbn. tauto.
  - eapply hinv_ext; [|apply IH; apply hinv_add; exact H]. intros x. cbn. intuition congruence.
Qed.

(* ------------------------------------------------------------------ bounded rules: the whole set is walked *)
Section HullLoop.
  Variable per_date : Z -> list call.
  Variables (s0 : Z) (rc : recur).
  Let p := r_period (rc_rule rc).
  Let b := r_bound (rc_rule rc).
  Hypothesis Hp : 0 < p.

  Definition valid (k : Z) : Prop := 0 <= k /\ in_bound b s0 p k = true /\ mem (s0 + k * p) (rc_ex rc) = false.
  Definition seen_before (k : Z) (c : call) : Prop := exists k', valid k' /\ k' < k /\ In c (per_date (s0 + k' * p)).
  Definition seen_all (c : call) : Prop := exists k', valid k' /\ In c (per_date (s0 + k' * p)).

  Lemma in_bound_down' : forall k k', 0 <= k -> k <= k' -> in_bound b s0 p k' = true -> in_bound b s0 p k = true.
  Proof.
    intros k k' H0 Hk H. unfold in_bound in *. destruct b as [n|u|]; [lia| |reflexivity].
    apply Z.leb_le in H. apply Z.leb_le. nia.
  Qed.

  Lemma visit_rule_hull : forall fuel k st, 0 <= k -> hinv st (seen_before k) ->
      forall res, visit_rule hull_fn fuel per_date s0 rc k st = Some res ->
      snd res = false /\ hinv (fst res) seen_all.
  Proof.
    induction fuel as [|f IH]; intros k st Hk Hinv res H; [discriminate|].
    cbn [visit_rule] in H. fold p in H. fold b in H.
    destruct (in_bound b s0 p k) eqn:Hin; cbn [negb] in H.
    2:{ inversion H; subst. cbn. split; [reflexivity|]. eapply hinv_ext; [|exact Hinv].
        intros c. split.
        - intros (k' & Hv & _ & Hc). exists k'. auto.
        - intros (k' & Hv & Hc). exists k'. split; [exact Hv|]. split; [|exact Hc].
          destruct (Z_lt_le_dec k' k) as [|Hge]; [assumption|exfalso]. destruct Hv as (H0 & Hb & _).
          rewrite (in_bound_down' k k' Hk Hge Hb) in Hin. discriminate. }
    destruct (mem (s0 + k * p) (rc_ex rc)) eqn:Hm.
    - apply (IH (k + 1) st ltac:(lia)); [|exact H]. eapply hinv_ext; [|exact Hinv].
      intros c. split.
      + intros (k' & Hv & Hlt & Hc). exists k'. split; [exact Hv|split; [lia|exact Hc]].
      + intros (k' & Hv & Hlt & Hc). exists k'. split; [exact Hv|split; [|exact Hc]].
        assert (k' <> k); [|lia]. intros ->. destruct Hv as (_ & _ & Hv). congruence.
    - rewrite run_hull in H.
      eapply (IH (k + 1)); [lia| |exact H].
      eapply hinv_ext; [|apply hinv_block; exact Hinv]. intros c. split.
      + intros [(k' & Hv & Hlt & Hc)|Hc].
        * exists k'. split; [exact Hv|split; [lia|exact Hc]].
        * exists k. split; [repeat split; auto|split; [lia|exact Hc]].
      + intros (k' & Hv & Hlt & Hc). destruct (Z.eq_dec k' k) as [->|Hne].
        * right. exact Hc.
        * left. exists k'. split; [exact Hv|split; [lia|exact Hc]].
  Qed.
End HullLoop.

(* ------------------------------------------------------------------ the three facts the shortcut needs *)
Definition hull_ok (a b : xt) (Seen : call -> Prop) : Prop :=
  (forall c, Seen c -> xle a (c_s c) = true /\ xle (c_e c) b = true)
  /\ (xlt MInf a = true -> exists c, Seen c /\ nonempty_c c /\ c_s c = a)
  /\ (xlt b PInf = true -> exists c, Seen c /\ nonempty_c c /\ c_e c = b).

Definition final (st : hull_st) : xt * xt :=
  (match fst st with Some s => s | None => MInf end, match snd st with Some e => e | None => PInf end).

Lemma hull_ok_ext : forall a b (S S' : call -> Prop), (forall c, S c <-> S' c) -> hull_ok a b S -> hull_ok a b S'.
Proof.
  intros a b S S' Hext (He & Ha & Hb). split; [|split].
  - intros c Hc. apply He. apply Hext. exact Hc.
  - intros H. destruct (Ha H) as (c & Hc & Hn). exists c. split; [apply Hext; exact Hc|exact Hn].
  - intros H. destruct (Hb H) as (c & Hc & Hn). exists c. split; [apply Hext; exact Hc|exact Hn].
Qed.

(* every seen range is dominated by non-empty seen ranges *)
Lemma hinv_final : forall st (Seen : call -> Prop),
    (forall c, Seen c -> (exists c', Seen c' /\ nonempty_c c' /\ xle (c_s c') (c_s c) = true)
                         /\ (exists c', Seen c' /\ nonempty_c c' /\ xle (c_e c) (c_e c') = true)) ->
    hinv st Seen -> hull_ok (fst (final st)) (snd (final st)) Seen.
Proof.
  intros [[a|] [b|]] Seen Hdom H; cbn [hinv] in H; try contradiction; unfold final; cbn [fst snd].
  - destruct H as (He & (c1 & Hc1 & H1) & (c2 & Hc2 & H2)). split; [exact He|split].
    + intros _. destruct (Hdom c1 Hc1) as [(c' & Hc' & Hn & Hle) _]. exists c'. split; [exact Hc'|split; [exact Hn|]].
      apply xle_antisym; [rewrite <- H1; exact Hle|]. apply (He c' Hc').
    + intros _. destruct (Hdom c2 Hc2) as [_ (c' & Hc' & Hn & Hle)]. exists c'. split; [exact Hc'|split; [exact Hn|]].
      apply xle_antisym; [apply (He c' Hc')|]. rewrite <- H2. exact Hle.
  - split; [|split].
    + intros c Hc. destruct (H c Hc).
    + cbn. discriminate.
    + cbn. discriminate.
Qed.

Section HullDates.
  Variable per_date : Z -> list call.
  Hypothesis P5 : forall D c, In c (per_date D) -> dominated (per_date D) c.

  Definition seen_dates (s0 : Z) (rec : option recur) (c : call) : Prop :=
    exists D, occurs s0 rec D /\ In c (per_date D).

  Definition dates_hull_fuel (s0 : Z) (rec : option recur) : nat :=
    match rec with Some rc => S (Z.to_nat (rule_len s0 rc)) | None => 1%nat end.

  Theorem hull_dates : forall s0 rec fuel, wf_recur rec -> (dates_hull_fuel s0 rec <= fuel)%nat ->
      (* for unbounded rules: blocks start at their date and a non-empty range starts exactly there *)
      (forall rc, rec = Some rc -> is_infinite rc = true ->
                  (forall D c, In c (per_date D) -> xle (Fin D) (c_s c) = true)
                  /\ (forall D, exists c, In c (per_date D) /\ c_s c = Fin D /\ nonempty_c c)) ->
      exists st stop, visit_dates hull_fn hull_inf fuel per_date (dates_of s0 rec) (None, None) = Some (st, stop)
                      /\ hull_ok (fst (final st)) (snd (final st)) (seen_dates s0 rec).
  Proof.
    intros s0 rec fuel Hwf Hfuel Hinf. destruct rec as [rc|]; cbn [dates_of visit_dates].
    2:{ rewrite run_hull. eexists _, _. split; [reflexivity|].
        apply hinv_final.
        - intros c (D & HD & Hc). cbn [occurs] in HD. subst D. destruct (P5 s0 c Hc) as [(c1 & H1 & H1') (c2 & H2 & H2')].
          split; [exists c1|exists c2]; (split; [exists s0; split; [reflexivity|assumption]|assumption]).
        - eapply hinv_ext; [|apply (hinv_block (per_date s0) (None, None) (fun _ => False))].
          + intros c. split; [intros [[]|Hc]; exists s0; split; [reflexivity|exact Hc]|intros (D & -> & Hc); right; exact Hc].
          + cbn. intros c Hc. exact Hc. }
    cbn [wf_recur] in Hwf. pose proof (period_pos rc Hwf) as Hp. cbn [dates_hull_fuel] in Hfuel.
    destruct (is_infinite rc) eqn:Hi.
    - destruct (first_date_spec s0 rc Hp (first_fuel s0 rc) 0 ltac:(lia)) as (k' & Hk0 & Hfd & Hnm & Hall).
      { unfold first_fuel, K0. lia. }
      rewrite Hfd. unfold hull_inf. eexists _, _. split; [reflexivity|]. unfold final. cbn [fst snd].
      destruct (Hinf rc eq_refl Hi) as [P1s P4].
      assert (Hforever : r_bound (rc_rule rc) = RForever).
      { unfold is_infinite in Hi. destruct (r_bound (rc_rule rc)); congruence. }
      split; [|split].
      + intros c (D & (k & Hk & Hin & -> & Hm) & Hc). split; [|destruct (c_e c); reflexivity].
        eapply xle_trans; [|apply (P1s _ c Hc)]. unfold xle. cbn [xlt negb].
        assert (k' <= k); [|nia].
        destruct (Z_lt_le_dec k k') as [Hlt|]; [|assumption]. rewrite (Hall k ltac:(lia)) in Hm. discriminate.
      + intros _. destruct (P4 (s0 + k' * r_period (rc_rule rc))) as (c & Hc & Hs & Hn). exists c.
        split; [|split; [exact Hn|exact Hs]]. exists (s0 + k' * r_period (rc_rule rc)). split; [|exact Hc].
        exists k'. rewrite Hforever. repeat split; auto.
      + cbn. discriminate.
    - assert (Hb : r_bound (rc_rule rc) <> RForever).
      { unfold is_infinite in Hi. destruct (r_bound (rc_rule rc)); congruence. }
      destruct (visit_rule_total_bounded per_date s0 rc Hp hull_fn fuel 0 (None, None) ltac:(lia) Hb ltac:(lia)) as [[st stop] Hres].
      rewrite Hres. exists st, stop. split; [reflexivity|].
      destruct (visit_rule_hull per_date s0 rc Hp fuel 0 (None, None) ltac:(lia)) with (res := (st, stop)) as [_ Hinv].
      { cbn. intros c (k0 & (H0 & _) & Hlt & _). lia. }
      { exact Hres. }
      cbn [fst] in Hinv.
      assert (Hext : forall c, seen_all per_date s0 rc c <-> seen_dates s0 (Some rc) c).
      { intros c. unfold seen_all, seen_dates, valid. cbn [occurs]. split.
        - intros (k & (H0 & Hin & Hm) & Hc). exists (s0 + k * r_period (rc_rule rc)). split; [|exact Hc]. exists k. auto.
        - intros (D & (k & H0 & Hin & -> & Hm) & Hc). exists k. auto. }
      eapply hull_ok_ext; [exact Hext|]. apply hinv_final; [|exact Hinv].
      intros c (k & Hv & Hc). destruct (P5 _ c Hc) as [(c1 & H1 & H1') (c2 & H2 & H2')].
      split; [exists c1|exists c2]; (split; [exists k; split; assumption|assumption]).
  Qed.
End HullDates.

(* ------------------------------------------------------------------ C16_hull *)
Lemma find_time_range_final : forall fuel o st stop,
    visit hull_fn hull_inf fuel o (None, None) = Some (st, stop) -> find_time_range fuel o = Some (final st).
Proof. intros fuel o [a b] stop H. unfold find_time_range. rewrite H. reflexivity. Qed.

Theorem hull_spec : forall o, wf_obj o -> ~ f14_class o ->
    exists a b, find_time_range (hull_fuel o) o = Some (a, b) /\ hull_ok a b (visited o).
Proof.
  intros o Hwf Hn14. destruct o as [ev|t|j]; cbn [wf_obj] in Hwf.
  - (* VEVENT *)
    destruct (hull_dates (vevent_calls ev false) (vevent_P5 ev Hwf) (ev_start ev) (ev_rec ev) (hull_fuel (OEvent ev))
                (proj1 Hwf)) as (st & stop & Hv & Hok).
    { unfold hull_fuel, obj_rule, dates_hull_fuel. destruct (ev_rec ev); lia. }
    { intros rc _ _. split; [apply vevent_P1s; exact Hwf|apply vevent_P4; exact Hwf]. }
    exists (fst (final st)), (snd (final st)). split; [|exact Hok].
    rewrite (find_time_range_final _ _ st stop); [destruct (final st); reflexivity|exact Hv].
  - (* VTODO *)
    pose proof (vtodo_dates_row t Hwf) as Hrow.
    destruct (todo_ref (todo_row_of t)) as [s0|] eqn:Href.
    + destruct (hull_dates (vtodo_calls t false) (vtodo_P5 t Hwf) s0 (todo_rec t) (hull_fuel (OTodo t)))
        as (st & stop & Hv & Hok).
      { unfold todo_rec. destruct (td_dtstart t); [exact (proj1 Hwf)|exact I]. }
      { unfold hull_fuel, obj_rule, dates_hull_fuel. rewrite Hrow. unfold dates_of. destruct (todo_rec t); lia. }
      { intros rc Hrc Hi. unfold todo_rec in Hrc. destruct (td_dtstart t) as [ds|] eqn:Hds; [|discriminate].
        assert (Hnz : not_zero_len t).
        { cbn [f14_class] in Hn14. rewrite Hrc, Hds in Hn14. unfold not_zero_len. rewrite Hds. split.
          - intros Hd. apply Hn14. split; [exact Hi|left; exact Hd].
          - intros Hd Hdue. apply Hn14. split; [exact Hi|right; split; [exact Hd|]].
            (* the reference s0 of the row is DTSTART *)
            rewrite Hdue. reflexivity. }
        split; [apply (vtodo_P1s t Hwf Hnz); congruence|apply (vtodo_P4 t Hwf); congruence]. }
      exists (fst (final st)), (snd (final st)). split.
      * rewrite (find_time_range_final _ _ st stop); [destruct (final st); reflexivity|].
        cbn [visit]. rewrite Hrow. exact Hv.
      * eapply hull_ok_ext; [|exact Hok]. intros c. cbn [visited]. rewrite Hrow. unfold seen_dates, dates_of.
        destruct (todo_rec t); cbn [occurs].
        -- reflexivity.
        -- split; [intros (D & -> & Hc); exact Hc|intros Hc; exists s0; auto].
    + exists MInf, PInf. split.
      * unfold find_time_range. cbn [visit]. rewrite Hrow. reflexivity.
      * split; [|split].
        -- intros c Hc. cbn [visited] in Hc. rewrite Hrow in Hc. subst c. split; reflexivity.
        -- cbn. discriminate.
        -- cbn. discriminate.
  - (* VJOURNAL *)
    destruct (jn_start j) as [[k s0]|] eqn:Hs.
    + destruct (hull_dates (vjournal_calls k false) (vjournal_P5 k) s0 (jn_rec j) (hull_fuel (OJournal j)) Hwf)
        as (st & stop & Hv & Hok).
      { unfold hull_fuel, obj_rule, dates_hull_fuel. rewrite Hs. destruct (jn_rec j); lia. }
      { intros rc _ _. split; [apply vjournal_P1s|apply vjournal_P4]. }
      exists (fst (final st)), (snd (final st)). split.
      * rewrite (find_time_range_final _ _ st stop); [destruct (final st); reflexivity|].
        cbn [visit]. rewrite Hs. exact Hv.
      * eapply hull_ok_ext; [|exact Hok]. intros c. cbn [visited]. rewrite Hs. reflexivity.
    + exists MInf, PInf. split.
      * unfold find_time_range. cbn [visit]. rewrite Hs. reflexivity.
      * split; [|split].
        -- intros c Hc. cbn [visited] in Hc. rewrite Hs in Hc. destruct Hc.
        -- cbn. discriminate.
        -- cbn. discriminate.
Qed.
