(* C05, tie T: which keys of the WSGI environ the auth back-ends and the credential part of the gate read
   (Gen/AuthEnvC05Gen.v, regenerated from the repository's ast on every run) is exactly what Model/Gate.v assumes:
   `external_login` reads e_remote_user (REMOTE_USER) for ARemoteUser, e_x_remote_user (HTTP_X_REMOTE_USER) for
   AXRemoteUser and nothing for any other back-end; `creds` reads e_auth (HTTP_AUTHORIZATION) and hands the environ to
   get_external_login and decode_request (which reads CONTENT_TYPE = e_ctype) only.  An identity taken from any other
   header (Remote-User, X-Forwarded-User, ...) or any other use of the environ in a back-end breaks these lemmas.
   Compiled on its own by checks/C05.py. *)
From Coq Require Import List Bool String.
Import ListNotations.
Require RV.Gen.AuthEnvC05Gen.
Open Scope string_scope.
Open Scope bool_scope.

Definition expected_reads : list (string * list string * list string * list string) := [
  ("radicale/auth/__init__.py", [], [], ["return ()"]);
  ("radicale/auth/denyall.py", [], [], []);
  ("radicale/auth/dovecot.py", [], [], []);
  ("radicale/auth/htpasswd.py", [], [], []);
  ("radicale/auth/http_x_remote_user.py", ["HTTP_X_REMOTE_USER"], [], ["return (environ.get('HTTP_X_REMOTE_USER', ''), '')"]);
  ("radicale/auth/imap.py", [], [], []);
  ("radicale/auth/ldap.py", [], [], []);
  ("radicale/auth/none.py", [], [], []);
  ("radicale/auth/oauth2.py", [], [], []);
  ("radicale/auth/pam.py", [], [], []);
  ("radicale/auth/remote_user.py", ["REMOTE_USER"], [], ["return (environ.get('REMOTE_USER', ''), '')"]);
  ("radicale/httputils.py:decode_request", ["CONTENT_TYPE"], [], []);
  ("radicale/app/__init__.py:_handle_request:credentials", ["HTTP_AUTHORIZATION"], ["httputils.decode_request"; "self._auth.get_external_login"], []);
  ("radicale/server.py:ServerHandler.os_environ", ["{}"], [], ["env = super().get_environ()"; "if isinstance(self.connection, ssl.SSLSocket):"; "  env['HTTPS'] = 'on'"; "  env['SSL_CIPHER'] = self.request.cipher()[0]"; "  env['SSL_PROTOCOL'] = self.request.version()"; "  env['REMOTE_CERTIFICATE'] = self.connection.getpeercert()"; "env['PATH_INFO'] = unquote(self.path.split('?', 1)[0])"; "return env"])
].

Lemma Gen_auth_environ_eq : AuthEnvC05Gen.environ_reads = expected_reads.
Proof. reflexivity. Qed.

(* the same, said per module *)
Fixpoint keys_of (t : list (string * list string * list string * list string)) (w : string) : option (list string) :=
  match t with
  | [] => None
  | (w', k, _, _) :: r => if String.eqb w w' then Some k else keys_of r w
  end.

Lemma Gen_remote_user_reads :
  keys_of AuthEnvC05Gen.environ_reads "radicale/auth/remote_user.py" = Some ["REMOTE_USER"].
Proof. reflexivity. Qed.

Lemma Gen_x_remote_user_reads :
  keys_of AuthEnvC05Gen.environ_reads "radicale/auth/http_x_remote_user.py" = Some ["HTTP_X_REMOTE_USER"].
Proof. reflexivity. Qed.

Lemma Gen_gate_credentials_read :
  keys_of AuthEnvC05Gen.environ_reads "radicale/app/__init__.py:_handle_request:credentials" = Some ["HTTP_AUTHORIZATION"].
Proof. reflexivity. Qed.

(* the built-in server starts every request's WSGI environ from the EMPTY mapping, not from wsgiref's snapshot of the process
   environment (a REMOTE_USER / HTTP_AUTHORIZATION variable of the server process is not a credential) *)
Lemma Gen_server_os_environ_empty :
  keys_of AuthEnvC05Gen.environ_reads "radicale/server.py:ServerHandler.os_environ" = Some ["{}"].
Proof. reflexivity. Qed.

(* every other module of radicale/auth reads nothing from the environ *)
Lemma Gen_other_backends_read_nothing :
  forallb (fun row => let '(w, k, p, _) := row in
             if String.eqb w "radicale/auth/remote_user.py" || String.eqb w "radicale/auth/http_x_remote_user.py"
                || String.eqb w "radicale/httputils.py:decode_request"
                || String.eqb w "radicale/app/__init__.py:_handle_request:credentials"
                || String.eqb w "radicale/server.py:ServerHandler.os_environ"
             then true else match k, p with [], [] => true | _, _ => false end)
          AuthEnvC05Gen.environ_reads = true.
Proof. reflexivity. Qed.
