(* C07 -- non-vacuity: the hypotheses of the property theorems are satisfied by concrete, non-trivial
   histories (evaluated by vm_compute), and the witness against the code before fix C07-sync-clean-history. *)
From Coq Require Import List NArith ZArith Bool.
Import ListNotations.
Require Import RV.Model.Sync RV.Proofs.SyncThms.
Open Scope N_scope.

Definition cfg_fixed := mkConfig false false 100%Z false.     (* sync() does not expire history (fixed code) *)
Definition cfg_before := mkConfig false false 100%Z true.     (* sync() calls _clean_history() (code before the fix) *)
Definition cfg_sub := mkConfig true true 100%Z false.         (* history and tokens in the cache sub-folder *)

Definition ex_ops1 := [Replace 0 []; Put 0 0 0; Put 0 1 1].
(* delete, modify, time, create, undo the modification *)
Definition ex_ops2 := [Del 0 0; Put 0 1 2; Tick 5; Put 0 2 3; Put 0 1 1].
Definition ex_tok := Tok [(0, HChain (HSeed 0) (Some (EText 0))); (1, HChain (HSeed 1) (Some (EText 1)))].

(* C07_converge: a token issued after three operations, presented after five more; the delta is not empty *)
Example ex_converge : exists st_i' st_j' t',
  issues cfg_fixed (run cfg_fixed init_state ex_ops1) 0 ex_tok st_i' /\
  step cfg_fixed (run cfg_fixed st_i' ex_ops2) (Sync 0 (ATok ex_tok)) = (st_j', RSync (Delta t' [1; 2; 0])).
Proof.
  do 3 eexists. split.
  - eapply (issue_report _ _ _ _ _ ANone). vm_compute. reflexivity.
  - vm_compute. reflexivity.
Qed.

(* the other disjunct of the property does occur: the token is refused once it is max_sync_token_age old and
   another hand-out has expired it (so "refused" in C07_converge is not vacuous, and the bound of
   C07_not_refused_early is tight) *)
Example ex_refused_at_max_age : exists st_i' st_j',
  issues cfg_fixed (run cfg_fixed init_state ex_ops1) 0 ex_tok st_i' /\
  step cfg_fixed (run cfg_fixed st_i' [Put 0 1 2; Tick 100; Sync 0 ANone]) (Sync 0 (ATok ex_tok)) = (st_j', RSync Refused).
Proof.
  do 2 eexists. split.
  - eapply (issue_report _ _ _ _ _ ANone). vm_compute. reflexivity.
  - vm_compute. reflexivity.
Qed.

(* C07_not_refused_early: one second earlier the same history is accepted; hypotheses hold *)
Definition ex_ops3 := [Put 0 1 2; SyncFail 0 ANone; Tick 99; Sync 0 ANone].
Example ex_not_refused_early_hyps : exists st1 d,
  step cfg_fixed (run cfg_fixed init_state ex_ops1) (Sync 0 ANone) = (st1, RSync (Delta ex_tok d)) /\
  ANone <> ATok ex_tok /\
  Forall (no_reset 0) ex_ops3 /\
  (st_now (run cfg_fixed st1 ex_ops3)
   < st_now (run cfg_fixed init_state ex_ops1) + max_age cfg_fixed)%Z.
Proof.
  do 2 eexists. split; [vm_compute; reflexivity |]. split; [discriminate |]. split.
  - repeat constructor.
  - vm_compute. reflexivity.
Qed.

(* a failed token write really occurs in the model (new token after a change) *)
Example ex_failed_write : exists st',
  step cfg_fixed (run cfg_fixed init_state ex_ops1) (SyncFail 0 ANone) = (st', RFail).
Proof. eexists. vm_compute. reflexivity. Qed.

(* C07_uptodate / C07_propfind_eq: quiet operations that are not trivial -- time beyond the maximum age,
   other clients' syncs (also refused ones), changes in another collection, deletion of its cache *)
Definition ex_quiet := [Tick 250; SyncFail 0 ANone; Sync 0 ANone; Sync 0 AMal; Sync 0 (ATok (Tok [])); PTok 0;
                        Replace 1 [(0, 7)]; Put 1 1 8; Move 1 1 1 2; DropCache 1 true; Tick 1].
Example ex_uptodate_hyps : exists st1,
  sync_cleans_history cfg_fixed = false /\
  issues cfg_fixed (run cfg_fixed init_state (ex_ops1 ++ ex_ops2)) 0
         (Tok [(1, HChain (HChain (HChain (HSeed 1) (Some (EText 1))) (Some (EText 2))) (Some (EText 1)));
               (2, HChain (HSeed 2) (Some (EText 3)));
               (0, HChain (HChain (HSeed 0) (Some (EText 0))) None)]) st1 /\
  Forall (quiet 0) ex_quiet.
Proof.
  eexists. split; [reflexivity |]. split.
  - eapply (issue_report _ _ _ _ _ ANone). vm_compute. reflexivity.
  - repeat constructor; discriminate.
Qed.

(* history kept in the cache sub-folder survives the replacement of the collection: the token taken before
   is still accepted afterwards and the delta is exact (only the item whose content changed) *)
Example ex_replace_subfolder : exists st_i' st_j' t',
  issues cfg_sub (run cfg_sub init_state ex_ops1) 0 ex_tok st_i' /\
  step cfg_sub (run cfg_sub st_i' [Replace 0 [(0, 0); (1, 5)]]) (Sync 0 (ATok ex_tok)) = (st_j', RSync (Delta t' [1])).
Proof.
  do 3 eexists. split.
  - eapply (issue_report _ _ _ _ _ ANone). vm_compute. reflexivity.
  - vm_compute. reflexivity.
Qed.

(* The code before the fix: after the history of a deleted item has expired, sync() hands out a token that
   the very next sync() answers with a non-empty list and a different token, and PROPFIND disagrees too. *)
Definition ex_old_ops := [Replace 0 []; Put 0 0 0; Del 0 0; Tick 100].
Definition ex_old_tok := Tok [(0, HChain (HChain (HSeed 0) (Some (EText 0))) None)].
Lemma uptodate_refuted_before_fix : exists cfg ops c t st1 st2 st3,
  sync_cleans_history cfg = true /\
  issues cfg (run cfg init_state ops) c t st1 /\
  step cfg st1 (Sync c (ATok t)) = (st2, RSync (Delta (Tok []) [0])) /\ Tok [] <> t /\
  step cfg st1 (PTok c) = (st3, RTok (Tok [])).
Proof.
  exists cfg_before, ex_old_ops, 0, ex_old_tok. do 3 eexists. split; [reflexivity |]. split.
  - eapply (issue_report _ _ _ _ _ ANone). vm_compute. reflexivity.
  - split; [vm_compute; reflexivity |]. split; [discriminate | vm_compute; reflexivity].
Qed.
