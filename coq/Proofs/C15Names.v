(* C15 -- consequences of the store invariant for names: a collection that has child collections is a plain one and
   holds no items, so no name denotes an item and a collection at once, and an item never has a collection as sibling. *)
From Coq Require Import List NArith Bool.
Import ListNotations.
Require Import RV.Lib.PyStr RV.Model.Store RV.Model.Handlers RV.Proofs.HandlersInv.
Open Scope N_scope.

Lemma parent_of_collection_is_plain_and_empty : forall s, store_inv s ->
  forall p c, lookup s p = Some c -> p <> [] ->
  exists pc, lookup s (parent p) = Some pc /\ c_tag pc = TNone /\ c_items pc = [].
Proof.
  intros s Hs p c Hl Hp. pose proof Hs as (_ & _ & Hci & Hpar).
  destruct (Hpar p c Hl Hp) as (pc & Hpc & Ht). exists pc. split; [exact Hpc|]. split; [exact Ht|].
  destruct (Hci _ _ Hpc) as (_ & _ & Hv). destruct (c_items pc) as [|[n o] r] eqn:E; [reflexivity|].
  exfalso. specialize (Hv n o (or_introl eq_refl)). rewrite Ht in Hv. exact Hv.
Qed.

Lemma item_has_no_collection_sibling : forall s, store_inv s ->
  forall p pc o, resolve s p = NItem pc o -> forall q c, lookup s q = Some c -> q <> [] -> parent q <> parent p.
Proof.
  intros s Hs p pc o Hr q c Hl Hne Hq.
  destruct (parent_of_collection_is_plain_and_empty s Hs q c Hl Hne) as (pq & Hpq & _ & Hitems).
  apply resolve_item in Hr. destruct Hr as (_ & _ & Hpp & Ha). rewrite Hq, Hpp in Hpq. inversion Hpq; subst pq.
  rewrite Hitems in Ha. discriminate.
Qed.
