(* C02, part 3: delete item / collection, move, one directory level. *)
From Coq Require Import List NArith Bool Lia PeanoNat.
Import ListNotations.
Require Import RV.Lib.Prog RV.Model.Fs RV.Model.StorageOps RV.Proofs.ProgLemmas RV.Proofs.FsLemmas
  RV.Proofs.FsInv RV.Proofs.CacheCalm RV.Proofs.C12Units RV.Proofs.C12Units2 RV.Proofs.C02Base RV.Proofs.C02Units.
Open Scope N_scope.

(* OUT and AFT survive every step outside the visible paths *)
Section OutCalm.
  Variables (u : unit_op) (s0 : fs).
  Lemma OUT_ok : forall st s s' t, nondata_step st = true -> OUT u s0 s t -> apply st s = inl s' -> OUT u s0 s' (t ++ [(st, true)]).
  Proof.
    intros st s s' t Hnd [Hi Hba] Ha. split; [eapply apply_inv; eauto|].
    pose proof (nondata_abs _ _ _ Hnd Ha) as Hab.
    destruct Hba as [Hb|Hp]; [left; eapply abs_eq_trans; eauto | right; eapply dpost_abs; eauto].
  Qed.
  Lemma OUT_fail : forall st s t, OUT u s0 s t -> OUT u s0 s (t ++ [(st, false)]).
  Proof. intros st s t H. exact H. Qed.
  Lemma AFT_ok : forall st s s' t, nondata_step st = true -> AFT u s0 s t -> apply st s = inl s' -> AFT u s0 s' (t ++ [(st, true)]).
  Proof.
    intros st s s' t Hnd [Hi Hp] Ha. split; [eapply apply_inv; eauto|].
    eapply dpost_abs; [exact Hp | eapply nondata_abs; eauto].
  Qed.
  Lemma AFT_fail : forall st s t, AFT u s0 s t -> AFT u s0 s (t ++ [(st, false)]).
  Proof. intros st s t H. exact H. Qed.

  (* from an "after" state, a program of invisible steps ends "after" *)
  Lemma after_calm : forall (p : P) s t, calm (AFT u s0) p -> AFT u s0 s t ->
    machine_wp p (AFT u s0) (fun _ => OUT u s0) (OUT u s0) s t.
  Proof.
    intros p s t Hc H. eapply mw_mono; [ | | | apply (calm_elim _ _ Hc s t H) ]; cbn beta; auto.
    - intros e s' t' H'. apply AFT_OUT. exact H'.
    - intros s' t' H'. apply AFT_OUT. exact H'.
  Qed.
End OutCalm.

Lemma OUT_before : forall u s0 t, fs_inv_weak s0 -> OUT u s0 s0 t.
Proof. intros. split; [assumption | left; apply abs_eq_refl]. Qed.

Lemma data_not_under_tmp : forall d k r q, data q -> prefix ((d ++ [Tmp k]) ++ r) q = false.
Proof.
  intros d k r q Hq. destruct (prefix ((d ++ [Tmp k]) ++ r) q) eqn:E; [|reflexivity].
  pose proof (data_not_tmp d q k Hq) as H. rewrite (prefix_trans (d ++ [Tmp k]) _ q (prefix_app _ _) E) in H. discriminate.
Qed.

Section Units2.
  Variable lay : layout.

  (* Collection.delete(href) *)
  Lemma delete_item_c02 : forall c h exp s0 t, coll_path c = true -> is_safe h = true -> fs_inv_weak s0 -> look s0 c = Some D ->
    let u := UDeleteItem c h exp in
    machine_wp (delete_item lay c h exp) (AFT u s0) (fun _ => OUT u s0) (OUT u s0) s0 t.
  Proof.
    intros c h exp s0 t Hc Hh Hi Hd u.
    assert (Hcd : forall c0, In c0 [c] -> is_data c0 = true) by (intros c0 Hin; apply in1 in Hin; subst; apply coll_is_data; exact Hc).
    pose proof (coll_ne c Hc) as Hne. pose proof (coll_is_data c Hc) as Hdat.
    unfold delete_item. apply mw_read.
    destruct (look s0 (c ++ [h])) as [[|v0]|] eqn:El; try (apply mw_raise; apply OUT_before; exact Hi).
    cbn [seqs]. apply mw_seq. apply mw_do; [apply OUT_before; exact Hi | intro e; apply OUT_before; exact Hi |].
    intros s1 Ha. cbn [apply] in Ha. rewrite El in Ha. injection Ha as <-.
    assert (Hi1 : fs_inv_weak (upd (c ++ [h]) None s0)).
    { apply (apply_inv (Unlink (c ++ [h])) s0); [exact Hi | cbn [apply]; rewrite El; reflexivity]. }
    assert (Hp1 : dpost (ideal u s0) (upd (c ++ [h]) None s0)).
    { intros q Hq. cbn [ideal u look upd]. destruct (path_eqb q (c ++ [h])) eqn:E.
      - apply path_eqb_eq in E. subst q. rewrite prefix_refl. reflexivity.
      - destruct (prefix (c ++ [h]) q) eqn:Ep; [|reflexivity].
        apply prefix_strip in Ep. destruct (strip (c ++ [h]) q) as [|y r].
        + rewrite app_nil_r in Ep. subst q. rewrite path_eqb_refl in E. discriminate.
        + rewrite Ep. apply (closed_below s0 (c ++ [h])); [apply Hi | rewrite El; discriminate | discriminate]. }
    assert (Hd1 : forall c0, In c0 [c] -> look (upd (c ++ [h]) None s0) c0 = Some D).
    { intros c0 Hin. apply in1 in Hin. subst c0. cbn [look upd]. rewrite path_neq_snoc. exact Hd. }
    set (s1 := upd (c ++ [h]) None s0) in *.
    assert (Hdir : forall s t, J02 s1 [c] s t -> look s c = Some D) by (intros s2 t2 (_ & _ & Hx); apply Hx; left; reflexivity).
    pose proof (J02_ok s1 [c] Hcd) as Jok. pose proof (J02_fail s1 [c]) as Jf.
    apply (tail_after u s0 s1 [c]); [ | exact Hi1 | exact Hp1 | exact Hd1].
    apply calm_seq; [apply (calm_fsyncD _ Jok Jf)|].
    apply calm_seq; [apply (calm_update_history _ Jok Jf c Hdir Hne Hdat)|].
    apply calm_seq; [apply (calm_clean_history _ Jok Jf c)|].
    apply calm_read. intros [[|v']|]; try apply calm_ret.
    apply calm_seq; [apply (calm_do _ Jok Jf); apply nd_cache | apply (calm_fsyncD _ Jok Jf)].
  Qed.

  (* one level of _makedirs_synced *)
  Lemma mkdir_c02 : forall p s0 t, fs_inv_weak s0 ->
    let u := UMkdir p in
    machine_wp (mkdir_synced p) (AFT u s0) (fun _ => OUT u s0) (OUT u s0) s0 t.
  Proof.
    intros p s0 t Hi u. unfold mkdir_synced. apply mw_read.
    assert (Hgo : machine_wp (Seq (Do (Mkdir p)) (fsyncD (parent p))) (AFT u s0) (fun _ => OUT u s0) (OUT u s0) s0 t).
    { apply mw_seq. apply mw_do; [apply OUT_before; exact Hi | intro e; apply OUT_before; exact Hi |].
      intros s1 Ha.
      assert (H1 : AFT u s0 s1 (t ++ [(Mkdir p, true)])).
      { split; [eapply apply_inv; eauto|]. cbn [apply] in Ha. inv_apply Ha. subst s1. intros q Hq. reflexivity. }
      apply (after_calm u s0 (fsyncD (parent p)) s1 _); [|exact H1].
      apply (calm_fsyncD _ (AFT_ok u s0) (AFT_fail u s0)). }
    destruct (look s0 p) as [[|v]|] eqn:El; try exact Hgo.
    apply mw_ret. split; [exact Hi|]. intros q Hq. cbn [ideal u]. destruct (path_eqb q p) eqn:E; [|reflexivity].
    apply path_eqb_eq in E. subst q. exact El.
  Qed.

  (* Collection.delete() *)
  Lemma delete_coll_c02 : forall c s0 t, coll_path c = true -> fs_inv_weak s0 ->
    let u := UDeleteColl c in
    machine_wp (delete_coll c) (AFT u s0) (fun _ => OUT u s0) (OUT u s0) s0 t.
  Proof.
    intros c s0 t Hc Hi u. pose proof (coll_ne c Hc) as Hne.
    pose proof (OUT_ok u s0) as Ook. pose proof (OUT_fail u s0) as Ofl.
    pose proof (AFT_ok u s0) as Aok. pose proof (AFT_fail u s0) as Afl.
    unfold delete_coll. apply mw_try; [apply OUT_before; exact Hi | | ].
    - (* rmdir failed: rename into a temp directory *)
      intros _. generalize (t ++ [(Rmdir c, false)]). clear t. intro t.
      unfold with_tmp. apply mw_fresh. intro k. set (t0 := parent c ++ [Tmp k]).
      apply mw_seq. apply mw_do; [apply OUT_before; exact Hi | intro e; apply OUT_before; exact Hi |].
      intros s1 Ha1.
      assert (H1 : OUT u s0 s1 (t ++ [(Mkdir t0, true)])).
      { apply (Ook (Mkdir t0) s0 s1 t); [apply nd_mkdir_tmp | apply OUT_before; exact Hi | exact Ha1]. }
      assert (Hb1 : abs_eq s1 s0) by (eapply nondata_abs; [apply (nd_mkdir_tmp (parent c) k) | exact Ha1]).
      assert (Hi1 : fs_inv_weak s1) by (eapply apply_inv; eauto).
      generalize dependent (t ++ [(Mkdir t0, true)]). intros t1 H1.
      unfold Finally. apply mw_seq. apply mw_catch. apply mw_seq.
      apply mw_do; [exact H1 | | ].
      + (* rename failed: clean up, still "before" *)
        intro e. apply mw_seq. apply mw_do; [apply Ofl; exact H1 | intro e'; do 2 apply Ofl; exact H1 |].
        intros s2 Ha2. apply mw_raise. eapply Ook; [apply nd_rmtree_tmp | apply Ofl; exact H1 | exact Ha2].
      + intros s2 Ha2.
        assert (H2 : AFT u s0 s2 (t1 ++ [(Rename c (t0 ++ [last_name c]), true)])).
        { split; [eapply apply_inv; eauto|]. intros q Hq. cbn [ideal u].
          cbn [apply] in Ha2. inv_apply Ha2; subst s2; cbn [look]; unfold t0;
            rewrite (data_not_under_tmp (parent c) k [last_name c] q Hq);
            (destruct (prefix c q); [reflexivity | apply Hb1; exact Hq]). }
        generalize dependent (t1 ++ [(Rename c (t0 ++ [last_name c]), true)]). intros t2 H2.
        (* fsync of the parent; then rmtree of the temp directory (also on an exception) *)
        unfold fsyncD. apply mw_try; [apply AFT_OUT; exact H2 | | ].
        * intro e. apply mw_raise. apply mw_seq.
          apply mw_do; [apply AFT_OUT; apply Afl; exact H2 | intro e'; apply AFT_OUT; do 2 apply Afl; exact H2 |].
          intros s3 Ha3. apply mw_raise. apply AFT_OUT. eapply Aok; [apply nd_rmtree_tmp | apply Afl; exact H2 | exact Ha3].
        * intros s3 Ha3. assert (H3 : AFT u s0 s3 (t2 ++ [(FsyncD (parent c), true)])) by (eapply Aok; [reflexivity | exact H2 | exact Ha3]).
          apply mw_ret. apply mw_do; [apply AFT_OUT; exact H3 | intro e; apply AFT_OUT; apply Afl; exact H3 |].
          intros s4 Ha4. eapply Aok; [apply nd_rmtree_tmp | exact H3 | exact Ha4].
    - (* rmdir succeeded: the directory was empty *)
      intros s1 Ha.
      assert (H1 : AFT u s0 s1 (t ++ [(Rmdir c, true)])).
      { split; [eapply apply_inv; eauto|]. intros q Hq. cbn [ideal u].
        cbn [apply] in Ha. inv_apply Ha. subst s1. cbn [look upd].
        destruct (path_eqb q c) eqn:Eqc.
        - apply path_eqb_eq in Eqc. subst q. rewrite prefix_refl. reflexivity.
        - destruct (prefix c q) eqn:Ep; [|reflexivity].
          apply prefix_strip in Ep. destruct (strip c q) as [|y r].
          + rewrite app_nil_r in Ep. subst q. rewrite path_eqb_refl in Eqc. discriminate.
          + rewrite Ep. apply (nothing_below s0 c); [apply Hi | apply has_child_false; [apply Hi | assumption] | discriminate]. }
      apply (after_calm u s0 (fsyncD (parent c)) s1 _); [|exact H1].
      apply (calm_fsyncD _ Aok Afl).
  Qed.
End Units2.
