(* C02, part 5: create_collection with props (and n items).  Inside the staging directory the files are
   tracked exactly; nothing visible changes before the single Rename / Exchange, which installs exactly the
   staged content; afterwards only invisible paths change. *)
From Coq Require Import List NArith Bool Lia PeanoNat.
Import ListNotations.
Require Import RV.Lib.Prog RV.Model.Fs RV.Model.StorageOps RV.Proofs.ProgLemmas RV.Proofs.FsLemmas
  RV.Proofs.FsInv RV.Proofs.CacheCalm RV.Proofs.C12Units RV.Proofs.C12Units2 RV.Proofs.C02Base RV.Proofs.C02Units
  RV.Proofs.C02Units2.
Open Scope N_scope.

Lemma path_eqb_app_head : forall (a r r' : path), path_eqb (a ++ r) (a ++ r') = path_eqb r r'.
Proof. induction a as [|y a IH]; intros; cbn; [reflexivity|]. rewrite name_eqb_refl. cbn. apply IH. Qed.
Lemma prefix_app_head : forall (a r r' : path), prefix (a ++ r) (a ++ r') = prefix r r'.
Proof. induction a as [|y a IH]; intros; cbn; [reflexivity|]. rewrite name_eqb_refl. cbn. apply IH. Qed.

Lemma rev_skipn_prefix_gen : forall (p : path) k, exists r, p = rev (skipn k (rev p)) ++ r.
Proof.
  intros p k. exists (rev (firstn k (rev p))).
  rewrite <- rev_app_distr, firstn_skipn, rev_involutive. reflexivity.
Qed.

Section Staging.
  Variable lay : layout.
  Variables (par : path) (x : name) (pv : N) (s0 : fs) (k : N).
  Hypothesis Hpar : coll_path par = true.
  Hypothesis Hx : is_safe x = true.

  Let p := par ++ [x].
  Let t0 := par ++ [Tmp k].
  Let tc := t0 ++ [n_collection].

  Lemma tc_nd' : forall r, is_data (tc ++ r) = false.
  Proof. intro r. unfold tc, t0. rewrite <- !app_assoc. cbn [app]. apply is_data_tmp. Qed.
  Lemma tc_ndp : forall r, nd_path (tc ++ r) = true.
  Proof. intro r. unfold nd_path. rewrite tc_nd'. unfold tc, t0. destruct par; reflexivity. Qed.
  Lemma tc_root' : exists r, tc = Root :: r.
  Proof. unfold tc, t0. destruct par as [|y q]; [discriminate|]. destruct y; try discriminate. eexists. reflexivity. Qed.
  Lemma data_not_tc : forall q, data q -> prefix tc q = false.
  Proof.
    intros q Hq. destruct (prefix tc q) eqn:E; [|reflexivity]. apply prefix_strip in E. unfold data in Hq. rewrite E, tc_nd' in Hq. discriminate.
  Qed.

  (* staged content M: what lies at tc ++ r for every relative data path r *)
  Definition ST (M : path -> option node) : asrt :=
    fun s _ => fs_inv_weak s /\ abs_eq s s0 /\ forall r, rel_data r = true -> look s (tc ++ r) = M r.
  (* steps that change neither the visible store nor the staged files *)
  Definition sq (st : step) : Prop := nondata_step st = true /\ forall r, rel_data r = true -> touch st (tc ++ r) = false.

  Lemma ST_okq : forall M st s s' t, sq st -> ST M s t -> apply st s = inl s' -> ST M s' (t ++ [(st, true)]).
  Proof.
    intros M st s s' t [Hnd Hq] (Hi & Ha & Hm) Hap. split; [eapply apply_inv; eauto|]. split.
    - eapply abs_eq_trans; [eapply nondata_abs; eauto | exact Ha].
    - intros r Hr. rewrite (frame _ _ _ _ Hap); auto.
  Qed.
  Lemma ST_failq : forall M st s t, ST M s t -> ST M s (t ++ [(st, false)]).
  Proof. intros. exact H. Qed.
  Lemma sq_fsyncD : forall q, sq (FsyncD q).
  Proof. intro q. split; [reflexivity | intros; reflexivity]. Qed.
  Lemma sq_fsyncF : forall q, sq (FsyncF q).
  Proof. intro q. split; [reflexivity | intros; reflexivity]. Qed.

  Lemma ST_OUT : forall u M s t, ST M s t -> OUT u s0 s t.
  Proof. intros u M s t (Hi & Ha & _). split; [exact Hi | left; exact Ha]. Qed.

  (* point steps at an invisible path that is not a staged file *)
  Lemma sq_point : forall q, nd_path q = true -> (forall r, rel_data r = true -> tc ++ r <> q) ->
    sq (Mkdir q) /\ sq (Create q) /\ (forall v, sq (Write q v)).
  Proof.
    intros q Hnd Hne.
    assert (H : forall r, rel_data r = true -> path_eqb (tc ++ r) q = false) by (intros r Hr; apply path_eqb_neq; apply Hne; exact Hr).
    repeat split; auto.
  Qed.

  Lemma sq_below : forall r0, rel_data r0 = false -> forall r, rel_data r = true -> tc ++ r <> tc ++ r0.
  Proof. intros r0 H0 r Hr E. apply app_inv_head in E. subst. congruence. Qed.

  Lemma sq_croot : forall q0 r, rel_data r = true -> tc ++ r <> CRoot :: q0.
  Proof. intros q0 r Hr E. destruct tc_root' as [q Hq]. rewrite Hq in E. discriminate. Qed.

  (* the item-cache folder of the staging collection, in both layouts *)
  Lemma cd_point : forall r1, let q := cache_dir lay CItem tc ++ r1 in
    nd_path q = true /\ forall r, rel_data r = true -> tc ++ r <> q.
  Proof.
    intros r1 q. subst q. split; [apply nd_cache|]. unfold cache_dir. destruct (l_item lay).
    - destruct tc_root' as [q Hq]. intros r Hr E. rewrite Hq in E. cbn in E. discriminate.
    - rewrite <- app_assoc. apply sq_below. cbn [app]. apply (rel_data_cache []).
  Qed.

  Lemma calm_MD_cd : forall M, M [] = Some D -> calm (ST M) (MD (cache_dir lay CItem tc)).
  Proof.
    intros M HM. unfold cache_dir. destruct (l_item lay).
    - (* separate cache area: every level is invisible *)
      destruct tc_root' as [q Hq]. rewrite Hq. unfold MD.
      apply (calm_md_rev_q (ST M) sq (ST_okq M) (ST_failq M) sq_fsyncD).
      intro k0. destruct (rev_skipn_prefix_gen ((CRoot :: q) ++ [Cache; CItem]) k0) as [r' Hr'].
      destruct (rev (skipn k0 (rev ((CRoot :: q) ++ [Cache; CItem])))) as [|y q1] eqn:Eq.
      + right. apply (f_equal (@rev name)) in Eq. rewrite rev_involutive in Eq. exact Eq.
      + left. cbn in Hr'. inversion Hr'; subst y.
        apply (sq_point (CRoot :: q1)); [reflexivity | intros r Hr; apply sq_croot; exact Hr].
    - apply (calm_MD_below_q (ST M) sq (ST_okq M) (ST_failq M) sq_fsyncD tc CItem).
      + unfold tc. destruct t0; discriminate.
      + intros s t (_ & _ & Hm). rewrite <- (app_nil_r tc). rewrite (Hm [] eq_refl). exact HM.
      + apply (sq_point (tc ++ [Cache])); [apply tc_ndp | apply sq_below; reflexivity].
      + rewrite <- app_assoc. apply (sq_point (tc ++ [Cache; CItem])); [apply tc_ndp | apply sq_below; reflexivity].
  Qed.

  Lemma upload_one_c02 : forall u M it s t, ST M s t ->
    machine_wp (upload_one tc (cache_dir lay CItem tc) it) (ST (stage_put M it)) (fun _ => OUT u s0) (OUT u s0) s t.
  Proof.
    intros u M [h v] s t H. unfold upload_one. cbn [seqs].
    pose proof (ST_OUT u M) as Hout.
    apply mw_seq. apply mw_do; [eapply Hout; exact H | intro e; eapply Hout; exact H |].
    intros s1 Ha1.
    assert (H1 : forall t', ST (stage_put M (h, 0)) s1 t').
    { intro t'. destruct H as (Hi & Ha & Hm). split; [eapply apply_inv; eauto|]. split.
      - eapply abs_eq_trans; [eapply nondata_abs; [|exact Ha1]; cbn; apply tc_ndp | exact Ha].
      - intros r Hr. unfold stage_put. cbn [fst snd]. rewrite <- (path_eqb_app_head tc r [h]).
        cbn [apply] in Ha1. inv_apply Ha1. subst s1. cbn [look upd]. destruct (path_eqb (tc ++ r) (tc ++ [h])); [reflexivity | apply Hm; exact Hr]. }
    apply mw_seq. apply mw_catch. apply mw_seq.
    apply mw_do; [eapply (ST_OUT u); apply H1 | intro e; apply mw_raise; eapply (ST_OUT u); apply H1 |].
    intros s2 Ha2.
    assert (H2 : forall t', ST (stage_put M (h, v)) s2 t').
    { intro t'. destruct (H1 t') as (Hi & Ha & Hm). split; [eapply apply_inv; eauto|]. split.
      - eapply abs_eq_trans; [eapply nondata_abs; [|exact Ha2]; cbn; apply tc_ndp | exact Ha].
      - intros r Hr. unfold stage_put. cbn [fst snd]. rewrite <- (path_eqb_app_head tc r [h]).
        cbn [apply] in Ha2. inv_apply Ha2. subst s2. cbn [look upd]. destruct (path_eqb (tc ++ r) (tc ++ [h])) eqn:Erh; [reflexivity|].
        rewrite (Hm r Hr). unfold stage_put. cbn [fst snd]. rewrite <- (path_eqb_app_head tc r [h]), Erh. reflexivity. }
    (* the rest: fsync of the item, then the cache entry -- none touches a staged file *)
    assert (Hcalm : forall (q : P), calm (ST (stage_put M (h, v))) q -> forall t',
              machine_wp q (ST (stage_put M (h, v))) (fun _ => OUT u s0) (OUT u s0) s2 t').
    { intros q Hq t'. eapply mw_mono; [ | | | apply (calm_elim _ _ Hq s2 t' (H2 t')) ]; cbn beta; auto.
      - intros e s' t'' H'. eapply ST_OUT; exact H'.
      - intros s' t'' H'. eapply ST_OUT; exact H'. }
    set (J := ST (stage_put M (h, v))) in *.
    pose proof (ST_okq (stage_put M (h, v))) as Jok. pose proof (ST_failq (stage_put M (h, v))) as Jf.
    destruct (cd_point [h]) as [Cn Cne]. destruct (sq_point _ Cn Cne) as (Q1 & Q2 & Q3).
    unfold fsyncF at 1. apply mw_try; [eapply (ST_OUT u); apply H2 | intro e; apply mw_raise; apply mw_raise; eapply (ST_OUT u); apply H2 |].
    intros s3 Ha3. assert (s3 = s2) by (cbn [apply] in Ha3; destruct (is_file s2 (tc ++ [h])); [injection Ha3 as <-; reflexivity | discriminate]). subst s3.
    apply mw_ret. apply Hcalm.
    apply calm_seq; [apply (calm_do_q _ sq Jok Jf); exact Q2|].
    apply calm_seq; [apply (calm_do_q _ sq Jok Jf); apply Q3|].
    apply (calm_fsyncF_q _ sq Jok Jf sq_fsyncF).
  Qed.

  Lemma stage_put_nil : forall M it, M [] = Some D -> stage_put M it [] = Some D.
  Proof. intros M it H. unfold stage_put. cbn. exact H. Qed.
  Lemma fold_stage_nil : forall its M, M [] = Some D -> fold_left stage_put its M [] = Some D.
  Proof. induction its as [|it its IH]; intros M H; cbn; [exact H | apply IH; apply stage_put_nil; exact H]. Qed.

  Lemma upload_each_c02 : forall u its M s t, ST M s t ->
    machine_wp (upload_each tc (cache_dir lay CItem tc) its) (ST (fold_left stage_put its M)) (fun _ => OUT u s0) (OUT u s0) s t.
  Proof.
    intros u its. induction its as [|it its IH]; intros M s t H; cbn [upload_each fold_left]; [apply mw_ret; exact H|].
    apply mw_seq. eapply mw_mono; [ | | | apply (upload_one_c02 u M it s t H) ]; cbn beta; auto; try (intros s1 t1 H1; apply IH; exact H1).
  Qed.

  Lemma upload_all_c02 : forall u its M s t, M [] = Some D -> ST M s t ->
    machine_wp (upload_all lay tc its) (ST (fold_left stage_put its M)) (fun _ => OUT u s0) (OUT u s0) s t.
  Proof.
    intros u its M s t HM H. unfold upload_all. cbn [seqs].
    assert (Hc : forall M' (q : P), calm (ST M') q -> forall s t, ST M' s t -> machine_wp q (ST M') (fun _ => OUT u s0) (OUT u s0) s t).
    { intros M' q Hq s1 t1 H1. eapply mw_mono; [ | | | apply (calm_elim _ _ Hq s1 t1 H1) ]; cbn beta; auto.
      - intros e s' t' H'. eapply ST_OUT; exact H'.
      - intros s' t' H'. eapply ST_OUT; exact H'. }
    apply mw_seq. eapply mw_mono; [ | | | apply (Hc M _ (calm_MD_cd M HM) s t H) ]; cbn beta; auto.
    intros s1 t1 H1. apply mw_seq. eapply mw_mono; [ | | | apply (upload_each_c02 u its M s1 t1 H1) ]; cbn beta; auto.
    intros s2 t2 H2. apply Hc; [|exact H2].
    apply calm_seq; apply (calm_fsyncD_q _ sq (ST_okq _) (ST_failq _) sq_fsyncD).
  Qed.

  Definition M0 (r : path) : option node := match r with [] => Some D | _ => None end.

  (* Mkdir of the staging collection: it is new, hence empty *)
  Lemma mkdir_tc_c02 : forall u s t, fs_inv_weak s -> abs_eq s s0 ->
    machine_wp (Do (Mkdir tc)) (ST M0) (fun _ => OUT u s0) (OUT u s0) s t.
  Proof.
    intros u s t Hi Ha. assert (Hout : forall t', OUT u s0 s t') by (intro; split; [exact Hi | left; exact Ha]).
    apply mw_do; [apply Hout | intro e; apply Hout |]. intros s1 Ha1.
    split; [eapply apply_inv; eauto|]. split.
    - eapply abs_eq_trans; [eapply nondata_abs; [|exact Ha1]; cbn; rewrite <- (app_nil_r tc); apply tc_ndp | exact Ha].
    - intros r Hr. cbn [apply] in Ha1. inv_apply Ha1. subst s1. cbn [look upd].
      destruct r as [|y r]; [rewrite app_nil_r, path_eqb_refl; reflexivity|].
      assert (Hne : path_eqb (tc ++ y :: r) tc = false).
      { apply path_eqb_neq. intro Eq. apply (f_equal (@List.length name)) in Eq. rewrite app_length in Eq. cbn in Eq. lia. }
      rewrite Hne. cbn [M0]. apply (closed_below s tc); [apply Hi | | discriminate].
      destruct (look s tc); [discriminate | discriminate]. 
  Qed.

  Definition Wst (q : path) : Prop := data q \/ exists r, rel_data r = true /\ q = tc ++ r.

  Lemma Wst_tmp : forall q k', Wst q -> prefix (tc ++ [Tmp k']) q = false.
  Proof.
    intros q k' [Hq | [r [Hr ->]]].
    - destruct (prefix (tc ++ [Tmp k']) q) eqn:E; [|reflexivity].
      pose proof (data_not_tc q Hq) as H.
      rewrite (prefix_trans tc _ q (prefix_app _ _) E) in H. discriminate.
    - rewrite prefix_app_head. destruct r as [|y r]; [reflexivity|]. cbn. destruct y; try reflexivity.
      exfalso. cbn in Hr. destruct r; discriminate.
  Qed.

  (* set_meta into the staging collection *)
  Lemma set_meta_tc_c02 : forall u s t, ST M0 s t ->
    machine_wp (set_meta tc pv) (ST (stage0 pv)) (fun _ => OUT u s0) (OUT u s0) s t.
  Proof.
    intros u s t (Hi & Ha & Hm). unfold set_meta. apply mw_catch.
    assert (Htc : tc <> []) by (unfold tc; destruct t0; discriminate).
    pose proof (aw_c02 Wst tc Props pv s Wst_tmp s t Hi (agree_refl _ _)) as Haw.
    assert (Hdata : forall s', (agree Wst s' s \/ aw_after Wst tc Props pv s s') -> abs_eq s' s0).
    { intros s' [Hag | Haf] q Hq.
      - rewrite (Hag q (or_introl Hq)). apply Ha. exact Hq.
      - rewrite (Haf q (or_introl Hq)).
        assert (E1 : path_eqb q (tc ++ [Props]) = false) by (apply path_eqb_neq; intros ->; unfold data in Hq; rewrite tc_nd' in Hq; discriminate).
        assert (E2 : prefix (tc ++ [Props]) q = false).
        { destruct (prefix (tc ++ [Props]) q) eqn:E; [|reflexivity]. pose proof (data_not_tc q Hq) as H.
          rewrite (prefix_trans tc _ q (prefix_app _ _) E) in H. discriminate. }
        rewrite E1, E2. apply Ha. exact Hq. }
    eapply mw_mono; [ | | | exact Haw ]; cbn beta.
    - intros s' t' [Hi' Haf]. split; [exact Hi'|]. split; [apply Hdata; right; exact Haf|].
      intros r Hr. rewrite (Haf (tc ++ r) (or_intror (ex_intro _ r (conj Hr eq_refl)))).
      rewrite path_eqb_app_head, prefix_app_head.
      destruct r as [|y r]; [cbn; apply (Hm [] eq_refl)|].
      rewrite (Hm (y :: r) Hr). destruct y; cbn; try reflexivity; destruct r; cbn; try reflexivity; cbn in Hr; discriminate.
    - intros e s' t' [Hi' Hba]. assert (Ho : OUT u s0 s' t') by (split; [exact Hi' | left; apply Hdata; exact Hba]).
      destruct e as [e| |]; apply mw_raise; exact Ho.
    - intros s' t' [Hi' Hba]. split; [exact Hi' | left; apply Hdata; exact Hba].
  Qed.
End Staging.

Lemma strip_rel_data : forall par x q, coll_path par = true -> is_safe x = true -> data q ->
  prefix (par ++ [x]) q = true -> rel_data (strip (par ++ [x]) q) = true.
Proof.
  intros par x q Hp Hx Hq Hpre. apply prefix_strip in Hpre. destruct (strip (par ++ [x]) q) as [|y r] eqn:E; [reflexivity|].
  unfold data in Hq. rewrite Hpre in Hq. rewrite coll_ext in Hq; [exact Hq | apply coll_snoc; assumption | discriminate].
Qed.

(* Storage.create_collection(par/x, items, props), the parent collection exists *)
Lemma create_c02 : forall lay par x items pv s0 t, coll_path par = true -> is_safe x = true ->
  fs_inv_weak s0 -> look s0 par = Some D ->
  let u := UCreate (par ++ [x]) items pv in
  machine_wp (create_collection lay (par ++ [x]) items (Some pv)) (AFT u s0) (fun _ => OUT u s0) (OUT u s0) s0 t.
Proof.
  intros lay par x items pv s0 t Hpar Hx Hi Hd u.
  pose proof (OUT_ok u s0) as Ook. pose proof (OUT_fail u s0) as Ofl.
  pose proof (AFT_ok u s0) as Aok. pose proof (AFT_fail u s0) as Afl.
  assert (Hcd : forall c0, In c0 [par] -> is_data c0 = true) by (intros c0 Hin; apply in1 in Hin; subst; apply coll_is_data; exact Hpar).
  unfold create_collection, create_collection_gen. rewrite parent_snoc. apply mw_seq.
  (* _makedirs_synced(parent): nothing to do *)
  assert (HJ0 : J02 s0 [par] s0 t) by (split; [exact Hi | split; [apply abs_eq_refl | intros c0 Hin; apply in1 in Hin; subst; exact Hd]]).
  assert (Hmd : calm (J02 s0 [par]) (MD par)).
  { unfold MD. apply (md_rev_existing (J02 s0 [par]) par); [|apply coll_ne; exact Hpar].
    intros s1 t1 (_ & _ & Hx1). apply Hx1. left. reflexivity. }
  eapply mw_mono; [ | | | apply (tail_before u s0 [par] (MD par) s0 t Hmd HJ0) ]; cbn beta; auto.
  intros s1 t1 (Hi1 & Ha1 & _).
  apply mw_catch. unfold with_tmp. apply mw_fresh. intro k. set (t0 := par ++ [Tmp k]). set (tc := t0 ++ [n_collection]).
  assert (Hout1 : forall t', OUT u s0 s1 t') by (intro; split; [exact Hi1 | left; exact Ha1]).
  apply mw_seq. apply mw_do; [apply Hout1 | intro e; apply mw_raise; apply Hout1 |].
  intros s2 Ha2.
  assert (Hi2 : fs_inv_weak s2) by (eapply apply_inv; eauto).
  assert (Hab2 : abs_eq s2 s0) by (eapply abs_eq_trans; [eapply nondata_abs; [apply (nd_mkdir_tmp par k) | exact Ha2] | exact Ha1]).
  generalize (t1 ++ [(Mkdir t0, true)]). intro t2.
  unfold Finally. apply mw_seq. apply mw_catch.
  (* the body, with flat post-conditions *)
  assert (Hbody : machine_wp (seqs [Do (Mkdir tc); set_meta tc pv;
                                    match items with Some its => upload_all lay tc its | None => Ret end;
                                    Read (par ++ [x]) (fun n => match n with Some _ => Do (Exchange tc (par ++ [x])) | None => Do (Rename tc (par ++ [x])) end);
                                    fsyncD par]) (AFT u s0) (fun _ => OUT u s0) (OUT u s0) s2 t2).
  { cbn [seqs]. apply mw_seq.
    eapply mw_mono; [ | | | apply (mkdir_tc_c02 par x s0 k Hpar u s2 t2 Hi2 Hab2) ]; cbn beta; auto.
    intros s3 t3 H3. apply mw_seq.
    eapply mw_mono; [ | | | apply (set_meta_tc_c02 par pv s0 k u s3 t3 H3) ]; cbn beta; auto.
    intros s4 t4 H4. apply mw_seq.
    assert (Hitems : machine_wp (match items with Some its => upload_all lay tc its | None => Ret end)
               (ST par s0 k (stage (match items with Some its => its | None => [] end) pv)) (fun _ => OUT u s0) (OUT u s0) s4 t4).
    { destruct items as [its|]; [apply (upload_all_c02 lay par x s0 k Hpar u its (stage0 pv) s4 t4 eq_refl H4) | apply mw_ret; exact H4]. }
    eapply mw_mono; [ | | | exact Hitems ]; cbn beta; auto.
    intros s5 t5 H5. pose proof (ST_OUT par s0 k u _ _ _ H5) as Hout5. destruct H5 as (Hi5 & Ha5 & Hm5).
    assert (Hcommit : forall st s6, (st = Exchange tc (par ++ [x]) \/ st = Rename tc (par ++ [x])) -> apply st s5 = inl s6 ->
              forall t', AFT u s0 s6 t').
    { intros st s6 Hst Ha6 t'. split; [eapply apply_inv; eauto|]. intros q Hq. cbn [ideal u].
      pose proof (data_not_tc par k q Hq) as Hntc. fold t0 tc in Hntc.
      assert (Hlk : look s6 q = if prefix (par ++ [x]) q then look s5 (tc ++ strip (par ++ [x]) q) else look s5 q).
      { destruct Hst as [-> | ->]; cbn [apply] in Ha6; inv_apply Ha6; subst s6; cbn [look]; rewrite Hntc; reflexivity. }
      rewrite Hlk. destruct (prefix (par ++ [x]) q) eqn:Ep; [|apply Ha5; exact Hq].
      apply Hm5. apply strip_rel_data; assumption. }
    apply mw_seq. apply mw_read.
    assert (Hfs : forall s6 t6, AFT u s0 s6 t6 -> machine_wp (fsyncD par) (AFT u s0) (fun _ => OUT u s0) (OUT u s0) s6 t6).
    { intros s6 t6 H6. apply (after_calm u s0 (fsyncD par) s6 t6); [apply (calm_fsyncD _ Aok Afl) | exact H6]. }
    destruct (look s5 (par ++ [x])) as [n|].
    - apply mw_do; [exact Hout5 | intro e; apply Ofl; exact Hout5 |].
      intros s6 Ha6. apply Hfs. apply (Hcommit (Exchange tc (par ++ [x])) s6 (or_introl eq_refl) Ha6).
    - apply mw_do; [exact Hout5 | intro e; apply Ofl; exact Hout5 |].
      intros s6 Ha6. apply Hfs. apply (Hcommit (Rename tc (par ++ [x])) s6 (or_intror eq_refl) Ha6). }
  eapply mw_mono; [ | | | exact Hbody ]; cbn beta.
  - (* normal end of the body: rmtree of the temp directory *)
    intros s3 t3 H3. apply mw_do; [apply AFT_OUT; exact H3 | intro e; apply mw_raise; apply AFT_OUT; apply Afl; exact H3 |].
    intros s4 Ha4. eapply Aok; [apply (nd_rmtree_tmp par k) | exact H3 | exact Ha4].
  - (* exception in the body: rmtree, re-raise, ValueError *)
    intros e s3 t3 H3. apply mw_seq. apply mw_do; [exact H3 | intro e'; apply mw_raise; apply Ofl; exact H3 |].
    intros s4 Ha4. apply mw_raise. apply mw_raise. eapply Ook; [apply (nd_rmtree_tmp par k) | exact H3 | exact Ha4].
  - auto.
Qed.
