(* C16 -- free_busy_report: the retrieval through the storage shortcut gives the same periods as testing every
   item in full. *)
From Coq Require Import ZArith List Bool Lia.
Import ListNotations.
Require Import RV.Model.Rfc4791 RV.Model.Filter RV.Proofs.C16Xt RV.Proofs.C16Tables RV.Proofs.C16Hull RV.Proofs.C16Shortcut.
Open Scope Z_scope.

Section FB.
  Variable fuel_of : item -> trange -> nat.
  Notation pm := (fun (_ : Z) (_ : item) => true).
  Notation tf := (test_filter pm fuel_of).

  Definition fb_elem (r : trange) : list elem := [ECompFilter (U NCal) [ECompFilter (U NEvent) [ETimeRange r]]].

  Lemma fb_ranges_ok : forall r, range_ok r -> ranges_ok (fb_filter r).
  Proof.
    intros r Hr f [<-|[]] n ch [Heq|[]]. inversion Heq; subst. intros t ch2 [Heq2|[]]. inversion Heq2; subst.
    intros r' [Heq3|[]]. inversion Heq3; subst. exact Hr.
  Qed.

  Lemma tf_fb_total : forall it r, item_ok fuel_of it -> range_ok r -> exists b, tf it (fb_elem r) = Some b.
  Proof.
    intros it r Hok Hr. unfold fb_elem, test_filter, comp_match0, comp_match_body. cbn [upper U rn_upper cname_eqb negb cm_loop].
    unfold comp_match1, comp_match_body. cbn [upper U rn_upper]. destruct (negb (cname_eqb NEvent (it_comp it))); [eexists; reflexivity|].
    cbn [is3 negb cm_loop first_child_range].
    destruct (trm_item fuel_of it r Hok Hr) as (b & Hb & _). rewrite Hb. cbn [obind]. destruct b; eexists; reflexivity.
  Qed.

  Lemma af_fb : forall it r, all_filters pm fuel_of it (fb_filter r) = tf it (fb_elem r).
  Proof. intros. unfold fb_filter. cbn [all_filters]. fold (fb_elem r). destruct (tf it (fb_elem r)) as [[|]|]; reflexivity. Qed.

  Lemma simplify_fb : forall r, simplify_prefilters (fb_filter r) = (Some NEvent, tr_start r, tr_end r, tr_bounded r).
  Proof. intros r. unfold simplify_prefilters, fb_filter. cbn. reflexivity. Qed.

  Theorem freebusy_shortcut : forall maxo r items,
      Forall (fun fi => item_ok fuel_of (fb_item fi)) items -> range_ok r ->
      free_busy fuel_of maxo r items = fb_loop fuel_of maxo r (map (fun fi => (fi, false)) items).
  Proof.
    intros maxo r items Hitems Hr. unfold free_busy. rewrite simplify_fb.
    induction Hitems as [|fi items Hok Hrest IH]; [reflexivity|].
    cbn [flat_map map]. destruct (it_range (fb_item fi)) as [istart iend] eqn:Hrange.
    destruct (tf_fb_total (fb_item fi) r Hok Hr) as (b & Hb).
    pose proof (skipped_do_not_match pm fuel_of (fb_item fi) (fb_filter r) Hok (fb_ranges_ok r Hr)) as Hskipped.
    rewrite simplify_fb, Hrange, af_fb in Hskipped. cbn [fst snd] in Hskipped.
    pose proof (declared_matched_do_match pm fuel_of (fb_item fi) (fb_filter r) (Some NEvent) (tr_start r) (tr_end r) Hok (fb_ranges_ok r Hr)) as Hdm.
    rewrite Hrange, af_fb in Hdm. cbn [fst snd] in Hdm.
    change (hd [] (fb_filter r)) with (fb_elem r) in *.
    destruct (gf_skip (Some NEvent) (it_comp (fb_item fi)) istart iend (tr_start r) (tr_end r)) eqn:Hskip.
    - cbn [app fb_loop]. change (hd [] (fb_filter r)) with (fb_elem r). rewrite Hb. cbn [obind].
      destruct b; [specialize (Hskipped Hb); discriminate|exact IH].
    - cbn [app fb_loop]. change (hd [] (fb_filter r)) with (fb_elem r).
      destruct (gf_matched (tr_bounded r) istart iend (tr_start r) (tr_end r)) eqn:Hm.
      + assert (Hbd : tr_bounded r = true) by (unfold gf_matched in Hm; destruct (tr_bounded r); [reflexivity|discriminate]).
        rewrite Hbd in Hm. rewrite simplify_fb, Hbd in Hdm. rewrite (Hdm eq_refl eq_refl Hm). cbn [obind].
        rewrite IH. reflexivity.
      + rewrite Hb. cbn [obind]. rewrite IH. reflexivity.
  Qed.
End FB.
