(* C04: proofs about the three simple rights back-ends.  The c04_* statements are about the
   REGENERATED definitions of coq/Gen/RightsGen.v (via the tie-T lemmas of GenEqRights.v). *)
From Coq Require Import List NArith Bool Lia String.
Open Scope string_scope.
Import ListNotations.
Require Import RV.Lib.PyStr RV.Model.Path RV.Model.Rights.
Require Import RV.Proofs.PyStrLemmas RV.Proofs.PathProofs RV.Proofs.GenEqPath RV.Proofs.GenEqRights.
Require RV.Gen.PathGen RV.Gen.RightsGen.
Open Scope list_scope. Open Scope N_scope.

(* ------------------------------------------------------------------------------------ *)
(* General string lemmas: all strings, any separator                                    *)
(* ------------------------------------------------------------------------------------ *)

Lemma split_on_length : forall c s,
  N.of_nat (List.length (split_on c s)) = count_char c s + 1.
Proof.
  intros c s. induction s as [|x s IH]; [reflexivity|].
  cbn [split_on count_char]. destruct (N.eqb x c).
  - cbn [List.length]. rewrite Nat2N.inj_succ, IH. lia.
  - pose proof (split_on_nonnil c s) as Hne.
    destruct (split_on c s) as [|w ws]; [contradiction|].
    cbn [List.length] in *. rewrite IH. lia.
Qed.

Lemma split1_fst_hd : forall c s, fst (split1 c s) = hd [] (split_on c s).
Proof.
  intros c s. induction s as [|x s IH]; [reflexivity|].
  cbn [split1 split_on]. destruct (N.eqb x c); [reflexivity|].
  pose proof (split_on_nonnil c s) as Hne.
  destruct (split1 c s) as [a b]. destruct (split_on c s) as [|w ws]; [contradiction|].
  cbn [fst hd] in *. rewrite IH. reflexivity.
Qed.

Lemma contains_char_count : forall c s, contains_char c s = negb (count_char c s =? 0).
Proof.
  intros c s. destruct (contains_char c s) eqn:E.
  - destruct (N.eqb_spec (count_char c s) 0) as [H|H]; [|reflexivity].
    apply count_char_zero in H. congruence.
  - apply count_char_zero in E. rewrite E. reflexivity.
Qed.

Lemma rstrip_char_noend : forall c s, endswith s [c] = false -> rstrip_char c s = s.
Proof.
  intros c s H. unfold rstrip_char. unfold endswith in H. cbn [rev app] in H.
  rewrite (lstrip_char_nohead c (rev s) H). apply rev_involutive.
Qed.

Lemma rstrip_char_snoc : forall c s, rstrip_char c (s ++ [c]) = rstrip_char c s.
Proof.
  intros c s. unfold rstrip_char. rewrite rev_app_distr. cbn [rev app lstrip_char].
  rewrite N.eqb_refl. reflexivity.
Qed.

Lemma lstrip_char_cons_same : forall c s, lstrip_char c (c :: s) = lstrip_char c s.
Proof. intros c s. cbn [lstrip_char]. rewrite N.eqb_refl. reflexivity. Qed.

(* ------------------------------------------------------------------------------------ *)
(* comps of a rendered (sanitised) path                                                  *)
(* ------------------------------------------------------------------------------------ *)

Lemma comps_unfold : forall p,
  comps p = if nonempty (strip_path p) then split_on slash (strip_path p) else [].
Proof. intros p. unfold comps. destruct (strip_path p); reflexivity. Qed.

Lemma concat_cons_join : forall p ps,
  List.concat (map (cons slash) (p :: ps)) = slash :: join [slash] (p :: ps).
Proof.
  intros p ps. revert p. induction ps as [|q qs IH]; intros p.
  - cbn [map List.concat join]. rewrite app_nil_r. reflexivity.
  - change (List.concat (map (cons slash) (p :: q :: qs)))
      with ((slash :: p) ++ List.concat (map (cons slash) (q :: qs))).
    rewrite IH. cbn [join]. reflexivity.
Qed.

Lemma join_nonnil : forall p ps, p <> [] -> join [slash] (p :: ps) <> [].
Proof.
  intros p ps Hp. cbn [join]. destruct ps as [|q qs]; [exact Hp|].
  destruct p; [contradiction|discriminate].
Qed.

Lemma strip_path_render : forall parts tr, Forall safe parts ->
  (tr = [] \/ (tr = [slash] /\ parts <> [])) ->
  strip_path (render parts ++ tr) = match parts with [] => [] | _ => join [slash] parts end.
Proof.
  intros parts tr Hs Htr. destruct parts as [|p ps].
  - destruct Htr as [->|[_ Hne]]; [reflexivity|contradiction].
  - pose proof (render_endswith_slash (p :: ps) Hs) as Hend.
    unfold render in *. rewrite concat_cons_join in *.
    inversion Hs as [|? ? Hp Hps]; subst.
    pose proof (join_nonnil p ps (safe_nonempty p Hp)) as Hne.
    change (slash :: join [slash] (p :: ps)) with ([slash] ++ join [slash] (p :: ps)) in Hend.
    rewrite (endswith_app_nonempty _ _ _ Hne) in Hend.
    assert (Hstart : startswith (join [slash] (p :: ps) ++ tr) [slash] = false).
    { pose proof (safe_not_startswith_slash p Hp) as H0. rewrite startswith_single in *.
      cbn [join]. destruct p as [|x p']; [exfalso; apply (safe_nonempty [] Hp); reflexivity|].
      destruct ps; exact H0. }
    unfold strip_path, strip_char. cbn [app]. rewrite lstrip_char_cons_same.
    rewrite lstrip_char_nohead by exact Hstart.
    destruct Htr as [->|[-> _]].
    + rewrite app_nil_r. apply rstrip_char_noend. exact Hend.
    + unfold slash at 2. fold slash. rewrite rstrip_char_snoc. apply rstrip_char_noend. exact Hend.
Qed.

Lemma comps_render : forall parts tr, Forall safe parts ->
  (tr = [] \/ (tr = [slash] /\ parts <> [])) ->
  comps (render parts ++ tr) = parts.
Proof.
  intros parts tr Hs Htr. rewrite comps_unfold, (strip_path_render parts tr Hs Htr).
  destruct parts as [|p ps]; [reflexivity|].
  inversion Hs as [|? ? Hp Hps]; subst.
  pose proof (join_nonnil p ps (safe_nonempty p Hp)) as Hne.
  destruct (join [slash] (p :: ps)) as [|x r] eqn:E; [contradiction|].
  cbn [nonempty]. rewrite <- E. apply split_on_join; [discriminate|].
  eapply Forall_impl; [|exact Hs]. intros a Ha. apply safe_no_slash. exact Ha.
Qed.

Lemma comps_sanitize : forall s, comps (sanitize_path s) = safe_parts s.
Proof.
  intros s. destruct (sanitize_path_shape s) as [E Hs]. rewrite E.
  apply comps_render; [exact Hs|].
  unfold trailing_of. destruct (safe_parts s) as [|p ps]; [left; reflexivity|].
  destruct (endswith s [slash]); [right; split; [reflexivity|discriminate]|left; reflexivity].
Qed.

Lemma comps_Gen_sanitize : forall s, comps (PathGen.sanitize_path s) = safe_parts s.
Proof. intros s. rewrite Gen_sanitize_path_eq. apply comps_sanitize. Qed.

(* ------------------------------------------------------------------------------------ *)
(* What the Python tests on the stripped path say about the component list              *)
(* ------------------------------------------------------------------------------------ *)

(* first component and by_depth, read off split_on: holds for EVERY string sp *)
Lemma first_component_hd : forall sp, first_component sp = hd [] (split_on slash sp).
Proof. intros sp. apply split1_fst_hd. Qed.

Lemma by_depth_split : forall sp top coll,
  by_depth sp top coll =
  match split_on slash sp with
  | [] | [_] => top
  | [_; _] => coll
  | _ => []
  end.
Proof.
  intros sp top coll. unfold by_depth. rewrite contains_char_count.
  pose proof (split_on_length slash sp) as Hlen.
  pose proof (split_on_nonnil slash sp) as Hne.
  destruct (split_on slash sp) as [|a [|b [|c r]]]; [contradiction| | |]; cbn [List.length] in Hlen.
  - assert (H0 : count_char slash sp = 0) by lia. rewrite H0. reflexivity.
  - assert (H1 : count_char slash sp = 1) by lia. rewrite H1. reflexivity.
  - destruct (N.eqb_spec (count_char slash sp) 0) as [H0|H0]; [lia|].
    destruct (N.eqb_spec (count_char slash sp) 1) as [H1|H1]; [lia|]. reflexivity.
Qed.

(* ------------------------------------------------------------------------------------ *)
(* Closed forms, for ALL users and ALL paths                                             *)
(* ------------------------------------------------------------------------------------ *)

Lemma owner_only_closed : forall v u p, owner_only v u p = owner_only_spec v u (comps p).
Proof.
  intros v u p. unfold owner_only, owner_only_spec. cbv zeta.
  destruct (anonymous_denied v u); [reflexivity|].
  rewrite comps_unfold. destruct (nonempty (strip_path p)); cbn [negb]; [|reflexivity].
  rewrite first_component_hd, by_depth_split.
  pose proof (split_on_nonnil slash (strip_path p)) as Hne.
  destruct (split_on slash (strip_path p)) as [|a [|b [|c r]]]; [contradiction| | |]; cbn [hd].
  - reflexivity.
  - reflexivity.
  - destruct (v && negb (eqs u a)); reflexivity.
Qed.

Lemma owner_write_closed : forall v u p, owner_write v u p = owner_write_spec v u (comps p).
Proof.
  intros v u p. unfold owner_write, owner_write_spec. cbv zeta.
  destruct (anonymous_denied v u); [reflexivity|].
  rewrite comps_unfold. destruct (nonempty (strip_path p)); cbn [negb]; [|reflexivity].
  rewrite first_component_hd, !by_depth_split.
  pose proof (split_on_nonnil slash (strip_path p)) as Hne.
  destruct (split_on slash (strip_path p)) as [|a [|b [|c r]]]; [contradiction| | |]; cbn [hd];
    destruct v; cbn [andb]; try reflexivity; destruct (eqs u a); reflexivity.
Qed.

Lemma authenticated_closed : forall v u p, authenticated v u p = authenticated_spec v u (comps p).
Proof.
  intros v u p. unfold authenticated, authenticated_spec.
  destruct (anonymous_denied v u); [reflexivity|].
  rewrite comps_unfold, by_depth_split.
  pose proof (split_on_nonnil slash (strip_path p)) as Hne.
  destruct (strip_path p) as [|x sp] eqn:E; [reflexivity|]. cbn [nonempty].
  destruct (split_on slash (x :: sp)) as [|a [|b [|c r]]]; [contradiction| | |]; reflexivity.
Qed.

Lemma c04_owner_only : forall v u p,
  RightsGen.authorization_owner_only v u p = owner_only_spec v u (comps p).
Proof. intros v u p. rewrite Gen_authorization_owner_only_eq. apply owner_only_closed. Qed.

Lemma c04_owner_write : forall v u p,
  RightsGen.authorization_owner_write v u p = owner_write_spec v u (comps p).
Proof. intros v u p. rewrite Gen_authorization_owner_write_eq. apply owner_write_closed. Qed.

Lemma c04_authenticated : forall v u p,
  RightsGen.authorization_authenticated v u p = authenticated_spec v u (comps p).
Proof. intros v u p. rewrite Gen_authorization_authenticated_eq. apply authenticated_closed. Qed.

(* the same on what the server actually passes: the output of sanitize_path, for EVERY raw string *)
Lemma c04_owner_only_sanitized : forall v u s,
  RightsGen.authorization_owner_only v u (PathGen.sanitize_path s) = owner_only_spec v u (safe_parts s).
Proof. intros v u s. rewrite c04_owner_only, comps_Gen_sanitize. reflexivity. Qed.

Lemma c04_owner_write_sanitized : forall v u s,
  RightsGen.authorization_owner_write v u (PathGen.sanitize_path s) = owner_write_spec v u (safe_parts s).
Proof. intros v u s. rewrite c04_owner_write, comps_Gen_sanitize. reflexivity. Qed.

Lemma c04_authenticated_sanitized : forall v u s,
  RightsGen.authorization_authenticated v u (PathGen.sanitize_path s) = authenticated_spec v u (safe_parts s).
Proof. intros v u s. rewrite c04_authenticated, comps_Gen_sanitize. reflexivity. Qed.

(* ------------------------------------------------------------------------------------ *)
(* Corollaries                                                                           *)
(* ------------------------------------------------------------------------------------ *)

Lemma eqs_false_of_neq : forall u o, o <> u -> eqs u o = false.
Proof. intros u o H. apply eqs_neq. intros E. apply H. symmetry. exact E. Qed.

(* owner_only grants nothing at all anywhere inside another user's home, at any depth *)
Lemma c04_no_foreign_home : forall u o rest tr, Forall safe (o :: rest) ->
  (tr = [] \/ tr = [slash]) -> o <> u ->
  RightsGen.authorization_owner_only true u (render (o :: rest) ++ tr) = [].
Proof.
  intros u o rest tr Hs Htr0 Hne.
  assert (Htr : tr = [] \/ (tr = [slash] /\ o :: rest <> [])).
  { destruct Htr0 as [-> | ->]; [left; reflexivity|right; split; [reflexivity|discriminate]]. }
  rewrite c04_owner_only, (comps_render _ _ Hs Htr).
  unfold owner_only_spec. destruct (anonymous_denied true u); [reflexivity|].
  rewrite (eqs_false_of_neq u o Hne). destruct rest as [|c [|d r]]; reflexivity.
Qed.

Lemma hd_error_neq_eqs : forall u o (r : list pystr), hd_error (o :: r) <> Some u -> eqs u o = false.
Proof. intros u o r H. apply eqs_false_of_neq. intros E. apply H. cbn. rewrite E. reflexivity. Qed.

(* owner_write grants no write permission (neither W nor w) outside the user's own home;
   this includes the root collection (parts = []) *)
Lemma c04_no_write_outside_home : forall u parts tr, Forall safe parts ->
  (tr = [] \/ (tr = [slash] /\ parts <> [])) -> hd_error parts <> Some u ->
  no_write (RightsGen.authorization_owner_write true u (render parts ++ tr)) = true.
Proof.
  intros u parts tr Hs Htr Hhd. rewrite c04_owner_write, (comps_render _ _ Hs Htr).
  unfold owner_write_spec. destruct (anonymous_denied true u); [reflexivity|].
  destruct parts as [|o rest]; [reflexivity|].
  rewrite (hd_error_neq_eqs u o rest Hhd). destruct rest as [|c [|d r]]; reflexivity.
Qed.

(* ... and neither does owner_only *)
Lemma c04_no_write_outside_home_owner_only : forall u parts tr, Forall safe parts ->
  (tr = [] \/ (tr = [slash] /\ parts <> [])) -> hd_error parts <> Some u ->
  no_write (RightsGen.authorization_owner_only true u (render parts ++ tr)) = true.
Proof.
  intros u parts tr Hs Htr Hhd. rewrite c04_owner_only, (comps_render _ _ Hs Htr).
  unfold owner_only_spec. destruct (anonymous_denied true u); [reflexivity|].
  destruct parts as [|o rest]; [reflexivity|].
  rewrite (hd_error_neq_eqs u o rest Hhd). destruct rest as [|c [|d r]]; reflexivity.
Qed.

(* nothing is granted below the collection level (three or more components), by any of the
   three back-ends, with or without authentication, to anybody *)
Lemma c04_nothing_below_collections : forall v u parts tr, Forall safe parts ->
  (tr = [] \/ (tr = [slash] /\ parts <> [])) -> (3 <= List.length parts)%nat ->
  RightsGen.authorization_owner_only v u (render parts ++ tr) = []
  /\ RightsGen.authorization_owner_write v u (render parts ++ tr) = []
  /\ RightsGen.authorization_authenticated v u (render parts ++ tr) = [].
Proof.
  intros v u parts tr Hs Htr Hlen.
  rewrite c04_owner_only, c04_owner_write, c04_authenticated, (comps_render _ _ Hs Htr).
  unfold owner_only_spec, owner_write_spec, authenticated_spec.
  destruct parts as [|a [|b [|c r]]]; cbn [List.length] in Hlen; try lia.
  destruct (anonymous_denied v u); repeat split; reflexivity.
Qed.

(* with authentication configured, the anonymous user gets nothing, on ANY path string *)
Lemma c04_anonymous_nothing : forall p,
  RightsGen.authorization_owner_only true [] p = []
  /\ RightsGen.authorization_owner_write true [] p = []
  /\ RightsGen.authorization_authenticated true [] p = [].
Proof. intros p. repeat split; reflexivity. Qed.

(* positive direction: a user does get full rights on the own home and the collections in it *)
Lemma c04_own_home : forall u c tr, safe u -> safe c -> (tr = [] \/ tr = [slash]) ->
  RightsGen.authorization_owner_only true u (render [u] ++ tr) = str "RW"
  /\ RightsGen.authorization_owner_only true u (render [u; c] ++ tr) = str "rw".
Proof.
  intros u c tr Hu Hc Htr.
  assert (Hnon : anonymous_denied true u = false).
  { unfold anonymous_denied. destruct u; [exfalso; apply (safe_nonempty [] Hu); reflexivity|reflexivity]. }
  rewrite !c04_owner_only.
  rewrite (comps_render [u] tr), (comps_render [u; c] tr).
  - unfold owner_only_spec. rewrite Hnon, (eqs_refl u). split; reflexivity.
  - repeat constructor; assumption.
  - destruct Htr as [-> | ->]; [left; reflexivity|right; split; [reflexivity|discriminate]].
  - repeat constructor; assumption.
  - destruct Htr as [-> | ->]; [left; reflexivity|right; split; [reflexivity|discriminate]].
Qed.

Lemma c04_own_home_owner_write : forall u c tr, safe u -> safe c -> (tr = [] \/ tr = [slash]) ->
  RightsGen.authorization_owner_write true u (render [u] ++ tr) = str "RW"
  /\ RightsGen.authorization_owner_write true u (render [u; c] ++ tr) = str "rw".
Proof.
  intros u c tr Hu Hc Htr.
  assert (Hnon : anonymous_denied true u = false).
  { unfold anonymous_denied. destruct u; [exfalso; apply (safe_nonempty [] Hu); reflexivity|reflexivity]. }
  rewrite !c04_owner_write.
  rewrite (comps_render [u] tr), (comps_render [u; c] tr).
  - unfold owner_write_spec. rewrite Hnon, (eqs_refl u). split; reflexivity.
  - repeat constructor; assumption.
  - destruct Htr as [-> | ->]; [left; reflexivity|right; split; [reflexivity|discriminate]].
  - repeat constructor; assumption.
  - destruct Htr as [-> | ->]; [left; reflexivity|right; split; [reflexivity|discriminate]].
Qed.

(* ------------------------------------------------------------------------------------ *)
(* Examples: the hypotheses are satisfiable and the results are not trivial              *)
(* ------------------------------------------------------------------------------------ *)

Example ex_safe_tmp : safe (str "tmp") /\ safe (str "tmp2") /\ safe (str "cal").
Proof. repeat split; reflexivity. Qed.

Example ex_render : render [str "tmp"; str "cal"] ++ [slash] = str "/tmp/cal/".
Proof. reflexivity. Qed.

Example ex_comps : comps (str "/tmp/cal/") = [str "tmp"; str "cal"] /\ comps (str "/") = [].
Proof. split; reflexivity. Qed.

(* user "tmp" is not the owner of "/tmp2/": a prefix of the name is not enough *)
Example ex_owner_only_prefix :
  RightsGen.authorization_owner_only true (str "tmp") (str "/tmp2/") = str "".
Proof. vm_compute; reflexivity. Qed.

Example ex_owner_only_own :
  RightsGen.authorization_owner_only true (str "tmp") (str "/tmp/") = str "RW".
Proof. vm_compute; reflexivity. Qed.

Example ex_owner_only_own_coll :
  RightsGen.authorization_owner_only true (str "tmp") (str "/tmp/cal/") = str "rw".
Proof. vm_compute; reflexivity. Qed.

Example ex_owner_only_root :
  RightsGen.authorization_owner_only true (str "tmp") (str "/") = str "R".
Proof. vm_compute; reflexivity. Qed.

Example ex_owner_only_item :
  RightsGen.authorization_owner_only true (str "a") (str "/a/b/c/") = str "".
Proof. vm_compute; reflexivity. Qed.

Example ex_owner_write_foreign_coll :
  RightsGen.authorization_owner_write true (str "a") (str "/b/c/") = str "r".
Proof. vm_compute; reflexivity. Qed.

Example ex_owner_write_foreign_home :
  RightsGen.authorization_owner_write true (str "a") (str "/b/") = str "R".
Proof. vm_compute; reflexivity. Qed.

Example ex_owner_write_own_coll :
  RightsGen.authorization_owner_write true (str "a") (str "/a/c/") = str "rw".
Proof. vm_compute; reflexivity. Qed.

Example ex_authenticated_coll :
  RightsGen.authorization_authenticated true (str "a") (str "/b/c/") = str "rw".
Proof. vm_compute; reflexivity. Qed.

(* auth type "none" (verify = false): the empty user is let in, and owns everything *)
Example ex_no_verify :
  RightsGen.authorization_owner_only false (str "") (str "/") = str "R"
  /\ RightsGen.authorization_owner_only false (str "") (str "/x/") = str "RW"
  /\ RightsGen.authorization_owner_only false (str "") (str "/a/b/c/") = str "".
Proof. repeat split; vm_compute; reflexivity. Qed.

Example ex_no_write : no_write (str "R") = true /\ no_write (str "r") = true /\ no_write (str "") = true
  /\ no_write (str "RW") = false /\ no_write (str "rw") = false.
Proof. repeat split; reflexivity. Qed.

Example ex_intersect : RightsGen.intersect (str "RrWw") (str "rw") = str "rw".
Proof. vm_compute; reflexivity. Qed.

Print Assumptions c04_owner_only.
Print Assumptions c04_owner_write.
Print Assumptions c04_authenticated.
Print Assumptions c04_owner_only_sanitized.
Print Assumptions c04_owner_write_sanitized.
Print Assumptions c04_authenticated_sanitized.
Print Assumptions c04_no_foreign_home.
Print Assumptions c04_no_write_outside_home.
Print Assumptions c04_no_write_outside_home_owner_only.
Print Assumptions c04_nothing_below_collections.
Print Assumptions c04_anonymous_nothing.
Print Assumptions c04_own_home.
Print Assumptions c04_own_home_owner_write.
