(* Tie T: Rights.authorization of every built-in rights back-end (and everything it calls inside the rights
   package) performs no write to `self`, to module globals or to shared mutable objects: the list of write
   effects regenerated from the current source by translate/t_c04pure.py is empty.  The back-end instance is
   shared by all request threads; the models of C04 are functions of (configuration, user, path). *)
From Coq Require Import List String.
Import ListNotations.
Require RV.Gen.RightsPureGen.
Open Scope string_scope.

Lemma Gen_rights_authorization_pure : RightsPureGen.authorization_effects = [].
Proof. reflexivity. Qed.

(* the scan did look at the authorization method of all five classes *)
Definition expected_scanned : list string :=
  [ "radicale/rights/__init__.py:BaseRights.authorization";
    "radicale/rights/authenticated.py:Rights.authorization";
    "radicale/rights/owner_only.py:Rights.authorization";
    "radicale/rights/owner_write.py:Rights.authorization";
    "radicale/rights/from_file.py:Rights.authorization" ].

Lemma Gen_rights_scanned_all :
  forallb (fun f => existsb (String.eqb f) RightsPureGen.scanned) expected_scanned = true.
Proof. vm_compute. reflexivity. Qed.
