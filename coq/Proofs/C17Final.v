(* C17 -- tie T for the mapping prefix, the witnesses of the three defects on the model of the code as
   pinned (variant Vorig), and non-vacuity examples for the theorems about the repaired code. *)
From Coq Require Import List ZArith NArith Bool String Lia.
Import ListNotations.
Require Import RV.Lib.PyStr RV.Proofs.PyStrLemmas RV.Model.LoginCache RV.Proofs.LoginCacheDict
               RV.Proofs.LoginCacheSweep RV.Proofs.LoginCacheSound RV.Proofs.LoginCacheIndep.
Require RV.Gen.LoginMapGen.
Open Scope Z_scope.

(* ---------------------------------------------------------------- tie T *)
Lemma Gen_login_map_eq : forall cfg l,
  LoginMapGen.login_map (c_lc cfg) (c_uc cfg) (c_strip cfg) l = map_login cfg l.
Proof.
  intros cfg l. unfold LoginMapGen.login_map, map_login.
  destruct (c_lc cfg), (c_uc cfg), (c_strip cfg); reflexivity.
Qed.

(* ---------------------------------------------------------------- concrete material *)
Definition S9 : Z := 1000000000.
Definition T0 : Z := 1700000000 * S9.
Definition cfg0 : config := mkConfig false false false true 15 90 T0.
Definition tbl0 : creds := [(str "alice", str "pa", str "alice"); (str "bob", str "pb", str "bob")].
Definition tblJ : creds := [(str "john@x", str "pj", str "jdoe")].

Definition hF1 : list (@event creds) :=
  [Attempt (str "bob") (str "wrong"); Tick (100 * S9)].
Definition hF2 : list (@event creds) :=
  [Attempt (str "bob") (str "w1"); Tick (20 * S9); Attempt (str "bob") (str "w2"); Tick (80 * S9)].
Definition hF12 : list (@event creds) :=
  [Attempt (str "john@x") (str "pj"); Tick S9].

Definition final (v : variant) (cfg : config) (b0 : creds) (h : list (@event creds)) : @state creds :=
  fst (run table_backend v cfg (init T0 b0) h).
Definition last_login (v : variant) (cfg : config) (b0 : creds) (h : list (@event creds)) (l p : pystr) : lresult :=
  let s := final v cfg b0 h in
  login_body v cfg (table_backend (s_bk s)) (s_now s) (s_cache s) l p.

(* F1: after bob's failed entry has expired, alice with her right password is evaluated as bob and rejected,
   although the credentials never changed: the cache is NOT transparent in the code as pinned. *)
Lemma orig_transparent_refuted :
  exists (cfg : config) (b0 : creds) (h : list (@event creds)) (l p : pystr),
    no_change h = true /\
    table_backend b0 (map_login cfg l) p = str "alice" /\
    r_out (last_login Vorig cfg b0 h l p) = ORet [] false.
Proof.
  exists cfg0, tbl0, hF1, (str "alice"), (str "pa"). vm_compute. repeat split.
Qed.

(* F1 again: the outcome for alice depends on an attempt made under bob's login. *)
Lemma orig_independent_refuted :
  exists (cfg : config) (b0 : creds) (h : list (@event creds)) (m : pystr),
    monotone h = true /\
    mine m (snd (run table_backend Vorig cfg (init T0 b0) h))
    <> snd (run table_backend Vorig cfg (init T0 b0) (proj cfg m h)).
Proof.
  exists cfg0, tbl0, (hF1 ++ [Attempt (str "alice") (str "pa")]), (str "alice").
  split; [reflexivity|]. vm_compute. discriminate.
Qed.

(* F2: a cached failed attempt raises KeyError after the sweep deleted the entry `digest` names. *)
Lemma orig_total_refuted :
  exists (cfg : config) (b0 : creds) (h : list (@event creds)) (l p : pystr),
    r_out (last_login Vorig cfg b0 h l p) = ORaise KeyError.
Proof. exists cfg0, tbl0, hF2, (str "bob"), (str "w2"). vm_compute. reflexivity. Qed.

(* F12: a cached success answers with the login, not with the user the back-end returned. *)
Lemma orig_cached_user_refuted :
  exists (cfg : config) (b0 : creds) (h : list (@event creds)) (l p : pystr),
    no_change h = true /\
    table_backend b0 (map_login cfg l) p = str "jdoe" /\
    r_out (last_login Vorig cfg b0 h l p) = ORet (str "john@x") true.
Proof. exists cfg0, tblJ, hF12, (str "john@x"), (str "pj"). vm_compute. repeat split. Qed.

(* the same three histories on the repaired variant *)
Example fix_F1 : r_out (last_login Vfix cfg0 tbl0 hF1 (str "alice") (str "pa")) = ORet (str "alice") false.
Proof. vm_compute. reflexivity. Qed.
Example fix_F2 : r_out (last_login Vfix cfg0 tbl0 hF2 (str "bob") (str "w2")) = ORet [] true.
Proof. vm_compute. reflexivity. Qed.
Example fix_F12 : r_out (last_login Vfix cfg0 tblJ hF12 (str "john@x") (str "pj")) = ORet (str "jdoe") true.
Proof. vm_compute. reflexivity. Qed.

(* ---------------------------------------------------------------- non-vacuity of the theorems *)
(* success from the cache, with the credentials changed in between: the hypothesis of success_sound is met by a
   cached answer that the back-end would no longer give *)
Definition tblA2 : creds := [(str "alice", str "new", str "alice"); (str "bob", str "pb", str "bob")].
Definition hS : list (@event creds) :=
  [Attempt (str "alice") (str "pa"); Tick (5 * S9); Change tblA2; Tick (10 * S9 + 999999999)].
Example success_sound_nonvacuous :
  r_out (last_login Vfix cfg0 tbl0 hS (str "alice") (str "pa")) = ORet (str "alice") true
  /\ table_backend (s_bk (final Vfix cfg0 tbl0 hS)) (str "alice") (str "pa") = [].
Proof. vm_compute. split; reflexivity. Qed.
(* one nanosecond later the entry is too old and the back-end's present answer is returned *)
Example success_expires :
  r_out (last_login Vfix cfg0 tbl0 (hS ++ [Tick 1]) (str "alice") (str "pa")) = ORet [] false.
Proof. vm_compute. reflexivity. Qed.

Definition hFl : list (@event creds) :=
  [Attempt (str "alice") (str "new"); Tick (5 * S9); Change tblA2; Tick (85 * S9 + 999999999)].
Example failure_sound_nonvacuous :
  r_out (last_login Vfix cfg0 tbl0 hFl (str "alice") (str "new")) = ORet [] true
  /\ table_backend (s_bk (final Vfix cfg0 tbl0 hFl)) (str "alice") (str "new") = str "alice".
Proof. vm_compute. split; reflexivity. Qed.
Example failure_expires :
  r_out (last_login Vfix cfg0 tbl0 (hFl ++ [Tick 1]) (str "alice") (str "new")) = ORet (str "alice") false.
Proof. vm_compute. reflexivity. Qed.

(* a history without credential change in which the cache is really used *)
Definition hT : list (@event creds) :=
  [Attempt (str "alice") (str "pa"); Attempt (str "bob") (str "x"); Tick (3 * S9);
   Attempt (str "alice") (str "pa"); Attempt (str "bob") (str "x"); Tick (100 * S9); Attempt (str "bob") (str "pb")].
Example transparent_nonvacuous :
  no_change hT = true /\
  map (fun o => o_out o) (snd (run table_backend Vfix cfg0 (init T0 tbl0) hT))
  = [ORet (str "alice") false; ORet [] false; ORet (str "alice") true; ORet [] true; ORet (str "bob") false].
Proof. vm_compute. split; reflexivity. Qed.

Example independent_nonvacuous :
  monotone hT = true /\ List.length (proj cfg0 (str "alice") hT) = 4%nat
  /\ mine (str "alice") (snd (run table_backend Vfix cfg0 (init T0 tbl0) hT))
     = [mkObs (str "alice") (ORet (str "alice") false) true; mkObs (str "alice") (ORet (str "alice") true) false].
Proof. vm_compute. repeat split. Qed.

(* the clock hypothesis of the history-level independence theorem is needed: with a clock that jumps back,
   another login's attempt (whose sweep removes alice's expired entry) changes what alice gets *)
Definition hBack : list (@event creds) :=
  [Attempt (str "alice") (str "new"); Tick (100 * S9); Attempt (str "bob") (str "pb"); Tick (-50 * S9);
   Change tblA2; Attempt (str "alice") (str "new")].
Example independent_needs_monotone :
  monotone hBack = false /\
  mine (str "alice") (snd (run table_backend Vfix cfg0 (init T0 tbl0) hBack))
  <> snd (run table_backend Vfix cfg0 (init T0 tbl0) (proj cfg0 (str "alice") hBack)).
Proof. split; [reflexivity|]. vm_compute. discriminate. Qed.

(* state-level independence is about arbitrary other entries: a cache full of other logins' entries *)
Example restrict_nonvacuous :
  let c := s_cache (final Vfix cfg0 tbl0 hT) in
  List.length (succ c) = 2%nat /\ List.length (succ (restrict (str "alice") c)) = 1%nat.
Proof. vm_compute. split; reflexivity. Qed.

(* the mapping: different spellings reach the same cache entry when the options say so *)
Example map_login_example :
  map_login (mkConfig true false true true 15 90 T0) (str "Alice@Example.COM") = str "alice"
  /\ map_login (mkConfig false true false true 15 90 T0) (str "Alice@x") = str "ALICE@X".
Proof. vm_compute. split; reflexivity. Qed.

(* equal concatenations: "ab"/"c" (rejected) and "a"/"bc" (right) have the same digest but different keys in the
   failed cache, so the right pair is not answered from the other one's entry *)
Definition tblC : creds := [(str "a", str "bc", str "a"); (str "ab", str "zz", str "ab")].
Definition hC : list (@event creds) := [Attempt (str "ab") (str "c"); Tick S9].
Example concat_digests_equal : cache_digest (str "ab") (str "c") T0 = cache_digest (str "a") (str "bc") T0.
Proof. reflexivity. Qed.
Example concat_keys_differ : failed_key T0 (str "ab") (str "c") <> failed_key T0 (str "a") (str "bc").
Proof. intros H. apply failed_key_inj in H as [H _]. discriminate. Qed.
Example concat_not_confused :
  let r := last_login Vfix cfg0 tblC hC (str "a") (str "bc") in
  r_out r = ORet (str "a") false /\ r_called r = true.
Proof. vm_compute. split; reflexivity. Qed.
