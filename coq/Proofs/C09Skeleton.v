(* C09 -- the critical sections of every request, as the source has them today (tie T).
   [Gen_sections_ok] is re-checked by vm_compute on the regenerated skeleton on every run. *)
From Coq Require Import List NArith Bool String.
Import ListNotations.
Require Import RV.Model.LockDiscipline RV.Proofs.LockDisciplineProofs RV.Model.SectionShape.
Require RV.Gen.Skeleton.

Lemma modes_eqb_eq a b : modes_eqb a b = true <-> a = b.
Proof.
  revert b. induction a as [|x a IH]; intros [|y b]; simpl; split; intro H; try discriminate; auto.
  - apply andb_true_iff in H. destruct H as [H1 H2]. apply mode_eqb_eq in H1. apply IH in H2. congruence.
  - inversion H; subst. apply andb_true_iff. split; [apply mode_eqb_eq; reflexivity|apply IH; reflexivity].
Qed.

Lemma q09_eqb_eq a b : q09_eqb a b = true <-> a = b.
Proof.
  destruct a as [[s1 o1] n1], b as [[s2 o2] n2]. unfold q09_eqb. split; intro H.
  - apply andb_true_iff in H. destruct H as [H H3]. apply andb_true_iff in H. destruct H as [H1 H2].
    apply modes_eqb_eq in H1. apply eqb_prop in H2. apply eqb_prop in H3. congruence.
  - inversion H; subst. rewrite !andb_true_iff. repeat split; [apply modes_eqb_eq; reflexivity|apply eqb_reflx|apply eqb_reflx].
Qed.

Lemma acquires_snoc t e : acquires (t ++ [e]) = acquires t ++ match e with EAcquire m => [m] | _ => [] end.
Proof. unfold acquires. rewrite flat_map_app. simpl. rewrite app_nil_r. reflexivity. Qed.

Lemma reread_after_snoc t e :
  reread_after (t ++ [e]) = match e with EAcquire _ | ERelease => false | EStorage Discover => true | _ => reread_after t end.
Proof. unfold reread_after. rewrite fold_left_app. reflexivity. Qed.

Lemma held_after_snoc t e :
  held_after (t ++ [e]) = match e with EAcquire m => Some m | ERelease => None | _ => held_after t end.
Proof. unfold held_after. rewrite fold_left_app. reflexivity. Qed.

Lemma last_is_w_snoc secs m : last_is_w (secs ++ [m]) = mode_eqb m W.
Proof. unfold last_is_w. rewrite rev_app_distr. simpl. destruct m; reflexivity. Qed.

(* what the automaton state means *)
Definition inv09 (pat : list mode -> bool) (q : q09) (t : list event) : Prop :=
  let '(secs, open, seen) := q in
  secs = acquires t /\ (secs = [] \/ pat secs = true) /\
  (open = true -> held_after t <> None /\ (held_after t = Some W -> last_is_w secs = true /\ seen = reread_after t)) /\
  (open = false -> held_after t = None).

Lemma steps09_state pat t : forall q, steps (step09 pat) q09_0 t = Some q -> inv09 pat q t.
Proof.
  induction t as [|e t IH] using rev_ind; intros q H.
  - simpl in H. inversion H; subst. cbn. split; [reflexivity|]. split; [left; reflexivity|]. split; [discriminate|reflexivity].
  - rewrite steps_snoc in H. destruct (steps (step09 pat) q09_0 t) as [[[secs op] seen]|] eqn:E; [|discriminate].
    specialize (IH _ eq_refl). destruct IH as [Hs [Hal [Hop Hcl]]].
    destruct q as [[secs' op'] seen']. unfold inv09.
    rewrite acquires_snoc, held_after_snoc, reread_after_snoc.
    destruct e; cbn [step09] in H;
      try (inversion H; subst secs' op' seen'; rewrite app_nil_r; split; [exact Hs|]; split; [exact Hal|]; split; [exact Hop|exact Hcl]).
    + (* EAcquire *)
      destruct op; [discriminate|]. destruct (pat (secs ++ [m])) eqn:Ea; [|discriminate].
      inversion H; subst secs' op' seen'. rewrite <- Hs.
      split; [reflexivity|]. split; [right; exact Ea|]. split; [|discriminate].
      intros _. split; [discriminate|]. intro Hw. inversion Hw; subst m. split; [apply last_is_w_snoc|reflexivity].
    + (* ERelease *)
      inversion H; subst secs' op' seen'. rewrite app_nil_r.
      split; [exact Hs|]. split; [exact Hal|]. split; [discriminate|reflexivity].
    + (* EStorage *)
      rewrite app_nil_r. destruct op; cbn [negb] in H; [|discriminate].
      destruct (true && last_is_w secs) eqn:Eo.
      * apply andb_true_iff in Eo. destruct Eo as [_ Hl]. destruct (Hop eq_refl) as [Hne Hw].
        destruct k; try (destruct (access_eqb _ AWrite && negb seen); [discriminate|]);
          inversion H; subst secs' op' seen';
          (split; [exact Hs|]; split; [exact Hal|]; split; [|discriminate]; intros _; split; [exact Hne|];
           intro Hh; destruct (Hw Hh) as [Hl' Hsn]; split; [exact Hl'|]; try exact Hsn; reflexivity).
      * inversion H; subst secs' op' seen'.
        split; [exact Hs|]. split; [exact Hal|]. split; [|exact Hcl].
        intro Ho. destruct (Hop Ho) as [Hne Hw]. split; [exact Hne|].
        intro Hh. destruct (Hw Hh) as [Hl _]. rewrite Hl in Eo. discriminate.
Qed.

Theorem steps09_sections_pat pat t q : pat [] = true -> steps (step09 pat) q09_0 t = Some q -> sections_pat pat t.
Proof.
  intros Hnil H. split; [|split].
  - destruct q as [[secs op] seen]. destruct (steps09_state _ _ _ H) as [Hs [[He|Hal] _]]; rewrite <- Hs; [rewrite He|]; auto.
  - intros pre k post -> Hheld.
    destruct (steps_prefix _ _ _ _ _ H) as [[[secs op] seen] [H1 H2]].
    destruct (steps09_state _ _ _ H1) as [Hs [Hal [Hop Hcl]]].
    rewrite steps_cons in H2. cbn [step09] in H2.
    destruct op; [destruct (Hop eq_refl) as [Hne _]; contradiction|]. cbn in H2. discriminate.
  - intros pre k post -> Hacc Hheld.
    destruct (steps_prefix _ _ _ _ _ H) as [[[secs op] seen] [H1 H2]].
    destruct (steps09_state _ _ _ H1) as [Hs [Hal [Hop Hcl]]].
    rewrite steps_cons in H2. cbn [step09] in H2.
    destruct op; [|rewrite (Hcl eq_refl) in Hheld; discriminate].
    destruct (Hop eq_refl) as [_ Hw]. destruct (Hw Hheld) as [Hl Hseen]. rewrite Hl in H2. cbn [andb negb] in H2.
    rewrite <- Hseen. destruct seen; [reflexivity|].
    destruct k; cbn in Hacc; try discriminate; cbn in H2; discriminate.
Qed.

Theorem check09_sound hm s : check09 hm s = true -> forall t, trace_of s t -> sections_ok hm t.
Proof.
  intros Hc t Ht. destruct (check_from_sound _ _ _ q09_eqb_eq _ _ Hc t Ht) as [q Hq].
  eapply steps09_sections_pat; eauto.
Qed.

Theorem check09h_sound hm s : check09h hm s = true -> forall t, trace_of s t -> one_section_ok hm t.
Proof.
  intros Hc t Ht. destruct (check_from_sound _ _ _ q09_eqb_eq _ _ Hc t Ht) as [q Hq].
  eapply steps09_sections_pat; eauto.
Qed.

(* the regenerated requests (gate + handler) have the section shape the concurrency model assumes *)
Lemma Gen_sections_ok :
  forallb (fun p => check09 (mode_of_method (fst p)) (snd p)) Skeleton.requests = true.
Proof. vm_compute. reflexivity. Qed.

(* every handler on its own has ONE critical section that contains all its storage events -- the hypothesis of
   C09_serializable, checked on the source as it is today (a handler that checks under one lock and acts under
   another, e.g. an existence test under "r" and the creation under "w", is rejected here) *)
Lemma Gen_handlers_one_section :
  forallb (fun p => check09h (mode_of_method (fst p)) (snd p)) Skeleton.handlers = true.
Proof. vm_compute. reflexivity. Qed.

Theorem handlers_one_section :
  forall name s, In (name, s) Skeleton.handlers -> forall t, trace_of s t -> one_section_ok (mode_of_method name) t.
Proof.
  intros name s Hin. pose proof Gen_handlers_one_section as H. rewrite forallb_forall in H.
  specialize (H _ Hin). simpl in H. apply check09h_sound. exact H.
Qed.

Theorem requests_sections_ok :
  forall name s, In (name, s) Skeleton.requests -> forall t, trace_of s t -> sections_ok (mode_of_method name) t.
Proof.
  intros name s Hin. pose proof Gen_sections_ok as H. rewrite forallb_forall in H.
  specialize (H _ Hin). simpl in H. apply check09_sound. exact H.
Qed.

(* the checker is not vacuous: it accepts the repaired shape and rejects the unchanged one *)
Example check09_accepts :
  check09 (Some W) (SSeq (SWith R (SStorage Discover))
                   (SSeq (SAlt (SWith W (SSeq (SStorage Discover) (SAlt (SStorage CreateCollection) SSkip))) SSkip)
                         (SWith W (SSeq (SStorage Discover) (SStorage Upload))))) = true.
Proof. vm_compute. reflexivity. Qed.
Example check09_rejects_write_before_reread :
  check09 (Some W) (SSeq (SWith R (SStorage Discover)) (SWith W (SStorage CreateCollection))) = false.
Proof. vm_compute. reflexivity. Qed.
Example check09_rejects_fourth_section :
  check09 (Some R) (SSeq (SWith R SSkip) (SSeq (SWith W SSkip) (SSeq (SWith R SSkip) (SWith R SSkip)))) = false.
Proof. vm_compute. reflexivity. Qed.
Example check09_rejects_wrong_mode : check09 (Some W) (SWith R (SSeq (SStorage Discover) (SStorage GetAll))) = true /\
                                     check09 (Some R) (SSeq (SWith R SSkip) (SSeq (SWith R SSkip) (SWith W SSkip))) = false.
Proof. split; vm_compute; reflexivity. Qed.
Example check09h_rejects_check_then_act :
  check09h (Some W) (SSeq (SWith R (SStorage Discover)) (SWith W (SSeq (SStorage Discover) (SStorage CreateCollection)))) = false /\
  check09h (Some W) (SWith W (SSeq (SStorage Discover) (SStorage CreateCollection))) = true /\
  check09h (Some W) (SSeq (SStorage Discover) (SWith W (SStorage Discover))) = false.
Proof. repeat split; vm_compute; reflexivity. Qed.
