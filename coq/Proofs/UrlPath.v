(* C18: sanitised paths are fixed points of sanitize_path, also below a sanitised base prefix *)
From Coq Require Import List NArith Bool Lia.
Import ListNotations.
Require Import RV.Lib.PyStr RV.Model.Path RV.Model.Url RV.Proofs.PyStrLemmas RV.Proofs.PathProofs.
Open Scope N_scope.

(* ---------------------------------------------------------------- generic string facts *)
Lemma startswith_app_same : forall a x y, startswith (a ++ x) (a ++ y) = startswith x y.
Proof. induction a as [|c a IH]; intros x y; [reflexivity|]. cbn [app startswith]. rewrite N.eqb_refl. apply IH. Qed.

Lemma startswith_refl_app : forall a x, startswith (a ++ x) a = true.
Proof. intros a x. rewrite <- (app_nil_r a) at 2. rewrite startswith_app_same. destruct x; reflexivity. Qed.

Lemma skipn_length_app : forall (a x : pystr), skipn (List.length a) (a ++ x) = x.
Proof. induction a as [|c a IH]; intros x; [reflexivity|]. cbn. apply IH. Qed.

Lemma filter_all : forall (f : pystr -> bool) l, Forall (fun x => f x = true) l -> filter f l = l.
Proof. induction l as [|x l IH]; intros H; [reflexivity|]. inversion H; subst. cbn. rewrite H2, IH by assumption. reflexivity. Qed.

Lemma safe_noslash_all : forall parts, Forall safe parts -> Forall (fun w => contains_char slash w = false) parts.
Proof. intros parts H. eapply Forall_impl; [|exact H]. intros a Ha. apply safe_no_slash. exact Ha. Qed.

(* ---------------------------------------------------------------- split of a rendered path *)
Definition tail_marker (tr : pystr) : list pystr := match tr with [] => [] | _ => [[]] end.

Lemma split_render_from : forall parts w tr,
  contains_char slash w = false -> Forall (fun p => contains_char slash p = false) parts ->
  (tr = [] \/ tr = [slash]) ->
  split_on slash (w ++ List.concat (map (cons slash) parts) ++ tr) = (w :: parts) ++ tail_marker tr.
Proof.
  induction parts as [|p ps IH]; intros w tr Hw Hps Htr.
  - cbn [map List.concat app]. destruct Htr as [-> | ->].
    + rewrite app_nil_r. cbn [tail_marker app]. apply split_on_noslash. exact Hw.
    + cbn [tail_marker]. rewrite split_on_app_sep by exact Hw. reflexivity.
  - inversion Hps as [|? ? Hp Hps']; subst. cbn [map List.concat]. rewrite <- app_assoc. cbn [app].
    rewrite split_on_app_sep by exact Hw. rewrite IH by assumption. reflexivity.
Qed.

(* ---------------------------------------------------------------- normpath of a rendered path *)
Lemma safe_loop_push : forall comp, safe comp ->
  eqs comp [] || eqs comp [dot] = false /\ eqs comp [dot; dot] = false.
Proof.
  intros comp H. apply safe_spec in H. destruct H as (H1 & _ & H3 & H4).
  apply eqs_neq in H3, H4. rewrite H3, H4, orb_false_r. split; [|reflexivity]. apply eqs_neq. exact H1.
Qed.

Lemma normpath_loop_safe : forall parts extra acc i, Forall safe parts ->
  normpath_loop i (parts ++ extra) acc = normpath_loop i extra (rev parts ++ acc).
Proof.
  induction parts as [|p ps IH]; intros extra acc i H; [reflexivity|].
  inversion H as [|? ? Hp Hps]; subst. cbn [app normpath_loop].
  destruct (safe_loop_push p Hp) as [E1 E2]. rewrite E1, E2. cbn [negb orb].
  rewrite IH by exact Hps. cbn [rev]. rewrite <- app_assoc. reflexivity.
Qed.

Lemma normpath_loop_skip_empty : forall l acc i, normpath_loop i ([] :: l) acc = normpath_loop i l acc.
Proof. reflexivity. Qed.

Lemma normpath_loop_tail_marker : forall tr acc i, normpath_loop i (tail_marker tr) acc = rev acc.
Proof. intros [|c tr] acc i; reflexivity. Qed.

Lemma join_slash_render : forall parts, parts <> [] -> slash :: join [slash] parts = List.concat (map (cons slash) parts).
Proof.
  induction parts as [|p ps IH]; intros H; [contradiction|]. cbn [join map List.concat].
  destruct ps as [|q qs].
  - cbn. rewrite app_nil_r. reflexivity.
  - cbn [app]. f_equal. f_equal. change ([slash] ++ join [slash] (q :: qs)) with (slash :: join [slash] (q :: qs)).
    rewrite IH by discriminate. reflexivity.
Qed.

Lemma normpath_single_slash : forall c rest, (c =? slash) = false ->
  normpath (slash :: c :: rest) = slash :: join [slash] (normpath_loop true (split_on slash (slash :: c :: rest)) []).
Proof.
  intros c rest Hc. unfold normpath. cbn [nonempty negb startswith]. rewrite N.eqb_refl, Hc.
  cbn [andb Nat.eqb negb repeat_char app nonempty]. reflexivity.
Qed.

Lemma normpath_render : forall p ps tr, Forall safe (p :: ps) -> (tr = [] \/ tr = [slash]) ->
  normpath (render (p :: ps) ++ tr) = render (p :: ps).
Proof.
  intros p ps tr Hs Htr. pose proof (safe_noslash_all _ Hs) as Hns.
  inversion Hs as [|? ? Hp Hps]; subst.
  assert (Hne : p <> []) by (apply safe_nonempty; exact Hp).
  destruct p as [|c p']; [contradiction|].
  assert (Hc : (c =? slash) = false).
  { pose proof (safe_no_slash _ Hp) as Hn. cbn [contains_char] in Hn. apply orb_false_iff in Hn. tauto. }
  assert (Epath : render ((c :: p') :: ps) ++ tr = slash :: c :: (p' ++ List.concat (map (cons slash) ps) ++ tr)).
  { unfold render. cbn [map List.concat app]. rewrite <- app_assoc. reflexivity. }
  assert (Esplit : split_on slash (render ((c :: p') :: ps) ++ tr) = ([] :: (c :: p') :: ps) ++ tail_marker tr).
  { unfold render. apply (split_render_from ((c :: p') :: ps) [] tr); [reflexivity|exact Hns|exact Htr]. }
  assert (Esplit' : split_on slash (slash :: c :: (p' ++ List.concat (map (cons slash) ps) ++ tr))
                    = ([] :: (c :: p') :: ps) ++ tail_marker tr) by (rewrite <- Epath; exact Esplit).
  transitivity (normpath (slash :: c :: (p' ++ List.concat (map (cons slash) ps) ++ tr))); [f_equal; exact Epath|].
  rewrite normpath_single_slash by exact Hc. rewrite Esplit'.
  change (([] :: (c :: p') :: ps) ++ tail_marker tr) with ([] :: (((c :: p') :: ps) ++ tail_marker tr)).
  rewrite normpath_loop_skip_empty.
  rewrite normpath_loop_safe by exact Hs. rewrite normpath_loop_tail_marker, app_nil_r, rev_involutive.
  rewrite join_slash_render by discriminate. reflexivity.
Qed.

Lemma split_render : forall p ps, Forall (fun w => contains_char slash w = false) (p :: ps) ->
  split_on slash (render (p :: ps)) = [] :: p :: ps.
Proof.
  intros p ps H. pose proof (split_render_from (p :: ps) [] [] eq_refl H (or_introl eq_refl)) as E.
  cbn [tail_marker] in E. rewrite !app_nil_r in E. exact E.
Qed.

Lemma safe_parts_render : forall parts tr, Forall safe parts -> (tr = [] \/ (tr = [slash] /\ parts <> [])) ->
  safe_parts (render parts ++ tr) = parts.
Proof.
  intros parts tr Hs Htr. destruct parts as [|p ps].
  - destruct Htr as [-> | [_ H]]; [reflexivity|contradiction].
  - unfold safe_parts. rewrite normpath_render; [|exact Hs|tauto].
    rewrite split_render by (apply safe_noslash_all; exact Hs).
    change (filter is_safe_path_component ([] :: p :: ps)) with (filter is_safe_path_component (p :: ps)).
    apply filter_all. exact Hs.
Qed.

Theorem sanitize_render : forall parts tr, Forall safe parts -> (tr = [] \/ (tr = [slash] /\ parts <> [])) ->
  sanitize_path (render parts ++ tr) = render parts ++ tr.
Proof.
  intros parts tr Hs Htr. destruct (sanitize_path_shape (render parts ++ tr)) as [E _].
  rewrite E, (safe_parts_render parts tr Hs Htr). f_equal.
  unfold trailing_of. destruct parts as [|p ps].
  - destruct Htr as [-> | [_ H]]; [reflexivity|contradiction].
  - destruct Htr as [-> | [-> _]].
    + rewrite app_nil_r, (render_endswith_slash _ Hs). reflexivity.
    + rewrite endswith_snoc. reflexivity.
Qed.

(* ---------------------------------------------------------------- sane paths and prefixes *)
Definition sane_path (p : pystr) : Prop := sanitize_path p = p.
Definition sane_prefix (b : pystr) : Prop := b = [] \/ (sanitize_path b = b /\ endswith b [slash] = false).

Lemma sane_path_shape : forall p, sane_path p -> exists parts tr,
  Forall safe parts /\ p = render parts ++ tr /\ (tr = [] \/ (tr = [slash] /\ parts <> [])).
Proof.
  intros p H. destruct (sanitize_path_exists_shape p) as (parts & tr & H1 & H2 & H3).
  exists parts, tr. unfold sane_path in H. rewrite H in H2. auto.
Qed.

Lemma sane_prefix_shape : forall b, sane_prefix b -> b = [] \/ exists parts, parts <> [] /\ Forall safe parts /\ b = render parts.
Proof.
  intros b [->|[H He]]; [left; reflexivity|right].
  destruct (sane_path_shape b H) as (parts & tr & Hs & E & Htr). exists parts.
  destruct parts as [|p ps].
  - destruct Htr as [-> | [_ Hn]]; [|contradiction]. subst b. discriminate He.
  - split; [discriminate|]. split; [exact Hs|]. destruct Htr as [-> | [-> _]]; [rewrite app_nil_r in E; exact E|].
    subst b. rewrite endswith_snoc in He. discriminate He.
Qed.

Lemma render_app : forall a b, a <> [] -> b <> [] -> render a ++ render b = render (a ++ b).
Proof.
  intros a b Ha Hb. destruct a as [|x a]; [contradiction|]. destruct b as [|y b]; [contradiction|].
  change (render ((x :: a) ++ y :: b)) with (List.concat (map (cons slash) ((x :: a) ++ y :: b))).
  unfold render. rewrite map_app, concat_app. reflexivity.
Qed.

Lemma sane_path_starts : forall p, sane_path p -> exists r, p = slash :: r.
Proof.
  intros p H. destruct (sane_path_shape p H) as (parts & tr & _ & -> & _).
  destruct parts as [|x xs]; cbn; eexists; reflexivity.
Qed.

(* base ++ p is again of the sanitised shape *)
Lemma prefix_path_shape : forall b p, sane_prefix b -> sane_path p -> exists parts tr,
  Forall safe parts /\ b ++ p = render parts ++ tr /\ (tr = [] \/ (tr = [slash] /\ parts <> [])).
Proof.
  intros b p Hb Hp. destruct (sane_path_shape p Hp) as (parts & tr & Hs & -> & Htr).
  destruct (sane_prefix_shape b Hb) as [-> | (bparts & Hne & Hbs & ->)].
  - exists parts, tr. auto.
  - destruct parts as [|x xs].
    + destruct Htr as [-> | [_ Hn]]; [|contradiction]. exists bparts, [slash].
      split; [exact Hbs|]. split; [reflexivity|]. right. split; [reflexivity|exact Hne].
    + exists (bparts ++ x :: xs), tr. split; [apply Forall_app; split; assumption|].
      split; [rewrite app_assoc, render_app by (assumption || discriminate); reflexivity|].
      destruct Htr as [-> | [-> _]]; [left; reflexivity|right; split; [reflexivity|]].
      destruct bparts; discriminate.
Qed.

Theorem sanitize_prefix_path : forall b p, sane_prefix b -> sane_path p -> sanitize_path (b ++ p) = b ++ p.
Proof.
  intros b p Hb Hp. destruct (prefix_path_shape b p Hb Hp) as (parts & tr & Hs & -> & Htr).
  apply sanitize_render; assumption.
Qed.

Lemma under_prefix_app : forall b p, sane_path p -> under_prefix b (b ++ p) = true.
Proof.
  intros b p Hp. destruct (sane_path_starts p Hp) as (r & ->). unfold under_prefix.
  rewrite <- app_assoc, startswith_app_same. reflexivity.
Qed.

Lemma drop_prefix_app : forall b p, drop_prefix b (b ++ p) = p.
Proof. intros. apply skipn_length_app. Qed.

Theorem strip_base_prefix_path : forall b p, sane_path p -> strip_base b (b ++ p) = DOk p.
Proof.
  intros b p Hp. unfold strip_base, strip_prefix. rewrite under_prefix_app by exact Hp. rewrite drop_prefix_app.
  destruct (sane_path_starts p Hp) as (r & ->). reflexivity.
Qed.

Lemma strip_prefix_app : forall b p, sane_path p -> strip_prefix b (b ++ p) = Some p.
Proof.
  intros b p Hp. unfold strip_prefix. rewrite under_prefix_app by exact Hp. rewrite drop_prefix_app.
  destruct (sane_path_starts p Hp) as (r & ->). reflexivity.
Qed.

(* the first two characters of base ++ p: "/" then something else, or "/" alone *)
Lemma prefix_path_head : forall b p, sane_prefix b -> sane_path p ->
  b ++ p = [slash] \/ exists c r, b ++ p = slash :: c :: r /\ c <> slash.
Proof.
  intros b p Hb Hp. destruct (prefix_path_shape b p Hb Hp) as (parts & tr & Hs & -> & Htr).
  destruct parts as [|x xs].
  - destruct Htr as [-> | [_ Hn]]; [left; reflexivity|contradiction].
  - right. inversion Hs as [|? ? Hx Hxs]; subst. pose proof (safe_nonempty x Hx) as Hne.
    destruct x as [|c x']; [contradiction|]. exists c. eexists. split.
    + unfold render. cbn [map List.concat app]. reflexivity.
    + pose proof (safe_no_slash _ Hx) as Hn. cbn [contains_char] in Hn. apply orb_false_iff in Hn as [Hn _].
      apply N.eqb_neq. exact Hn.
Qed.
