(* C11 -- the per-collection cache lock of the file-lock back-end (Model/FlockInode.v):
   exclusive per lock path as long as the lock file is never unlinked; refuted when it is. *)
From Coq Require Import List Arith Bool Lia.
Import ListNotations.
Require Import RV.Model.C11Base RV.Proofs.C11BaseLemmas RV.Model.FlockInode.

Definition cthr_at (s : cstate) (t : nat) (th : cthread) : Prop := nth_error (thr s) t = Some th.

Record CInv (s : cstate) : Prop := {
  ci_flag : c_unlinks (glob s) = false;
  ci_nounlink : forall t th, cthr_at s t th -> c_pc th <> C_Unlink;
  ci_excl : forall t u i, In (t, i) (c_held (glob s)) -> In (u, i) (c_held (glob s)) -> t = u;
  ci_held : forall t i, In (t, i) (c_held (glob s)) ->
      exists th, cthr_at s t th /\ cheld_pc (c_pc th) = true /\ c_ino th = i;
  ci_holds : forall t th, cthr_at s t th -> cheld_pc (c_pc th) = true -> In (t, c_ino th) (c_held (glob s));
  ci_bound : forall t th, cthr_at s t th -> copened_pc (c_pc th) = true ->
      plookup (c_path th) (c_paths (glob s)) = Some (c_ino th)
}.

Lemma In_hremove : forall t u i h, In (u, i) (hremove t h) <-> In (u, i) h /\ u <> t.
Proof.
  induction h as [|[a b] r IH]; simpl; [tauto|].
  destruct (Nat.eqb a t) eqn:E.
  - apply Nat.eqb_eq in E. subst. rewrite IH. split; [tauto|]. intros [[H|H] Hn]; [inversion H; subst; tauto|tauto].
  - apply Nat.eqb_neq in E. simpl. rewrite IH. split.
    + intros [H|[H1 H2]]; [inversion H; subst; auto|auto].
    + intros [[H|H] Hn]; auto.
Qed.

Lemma locked_by_other_false : forall t i h u, ino_locked_by_other t i h = false -> In (u, i) h -> u = t.
Proof.
  unfold ino_locked_by_other. intros t i h u H Hin.
  destruct (Nat.eq_dec u t) as [|Hne]; auto. exfalso.
  assert (existsb (fun e => negb (Nat.eqb (fst e) t) && Nat.eqb (snd e) i) h = true) as Hx.
  { apply existsb_exists. exists (u, i). split; auto. simpl. rewrite Nat.eqb_refl.
    apply Nat.eqb_neq in Hne. rewrite Hne. reflexivity. }
  congruence.
Qed.

Lemma cstart_pc : forall p, c_pc (cstart p) = C_QAcq \/ c_pc (cstart p) = C_Done.
Proof. destruct p; simpl; auto. Qed.

Lemma cinit_thr_at : forall b progs t th, cthr_at (cinit b progs) t th -> c_pc th = C_QAcq \/ c_pc th = C_Done.
Proof.
  unfold cthr_at, cinit. simpl. intros b progs t th H.
  apply nth_error_In in H. apply in_map_iff in H. destruct H as (p & <- & _). apply cstart_pc.
Qed.

Lemma CInv_init : forall progs, CInv (cinit false progs).
Proof.
  intros progs. constructor; simpl; try contradiction; auto.
  - intros t th H. apply cinit_thr_at in H. destruct H as [E|E]; rewrite E; discriminate.
  - intros t th H Hh. apply cinit_thr_at in H. destruct H as [E|E]; rewrite E in Hh; discriminate.
  - intros t th H Hh. apply cinit_thr_at in H. destruct H as [E|E]; rewrite E in Hh; discriminate.
Qed.

Ltac cinv_some :=
  repeat match goal with
         | H : Some _ = Some _ |- _ => inversion H; subst; clear H
         | H : None = Some _ |- _ => discriminate H
         end.

Ltac cstep_cases H :=
  let th := fresh "th" in let g' := fresh "g'" in let th' := fresh "th'" in
  let Hth := fresh "Hth" in let Hts := fresh "Hts" in let Epc := fresh "Epc" in
  apply step_inv in H; destruct H as (th & g' & th' & Hth & Hts & ->);
  unfold ctstep in Hts; destruct (c_pc th) eqn:Epc;
  repeat match type of Hts with
         | context [match c_mutex ?g with _ => _ end] => let E := fresh "Emx" in destruct (c_mutex g) eqn:E
         | context [if c_fail ?a then _ else _] => let E := fresh "Efl" in destruct (c_fail a) eqn:E
         | context [match plookup ?a ?b with _ => _ end] => let E := fresh "Elk" in destruct (plookup a b) eqn:E
         | context [if ino_locked_by_other ?a ?b ?c then _ else _] => let E := fresh "Eot" in destruct (ino_locked_by_other a b c) eqn:E
         end; cinv_some.

Ltac csplit_thr H :=
  unfold cthr_at in H; simpl in H; apply nth_upd_inv in H;
  destruct H as [(? & ? & _)|(? & H)]; subst.

Lemma CInv_step : forall s t s', CInv s -> cstep s t = Some s' -> CInv s'.
Proof.
  intros s t s' I H. pose proof (ci_flag _ I) as HF.
  cstep_cases H; try (exfalso; eapply (ci_nounlink _ I); eauto; fail); constructor; simpl; auto;
    try (apply (ci_excl _ I)).
  (* threads: nounlink *)
  all: try (intros t0 th0 H0; csplit_thr H0; unfold cnext_cycle; simpl;
            first [ discriminate | rewrite HF; discriminate | destruct (c_todo th); discriminate
                  | eapply (ci_nounlink _ I); eauto ]; fail).
  (* held entries belong to holding threads *)
  all: try (intros t0 i Hin;
            destruct (ci_held _ I _ _ Hin) as (th0 & H0 & Hh & Hi);
            assert (t0 <> t) by (intros ->; unfold cthr_at in H0; rewrite Hth in H0; inversion H0; subst; rewrite Epc in Hh; discriminate);
            exists th0; unfold cthr_at in *; simpl; rewrite nth_upd_neq by auto; auto; fail).
  (* holding threads have their entry *)
  all: try (intros t0 th0 H0 Hh; csplit_thr H0; simpl in *;
            first [ discriminate | eapply (ci_holds _ I); eauto ]; fail).
  (* opened threads: the directory still maps their path to their inode *)
  all: try (intros t0 th0 H0 Ho; csplit_thr H0; simpl in *;
            first [ discriminate | eapply (ci_bound _ I); eauto ]; fail).
  - (* C_Open fails: the thread is back at the start of its next cycle *)
    intros t0 th0 H0 Hh; csplit_thr H0; unfold cnext_cycle in *; simpl in *;
      [destruct (c_todo th); discriminate | eapply (ci_holds _ I); eauto].
  - intros t0 th0 H0 Ho; csplit_thr H0; unfold cnext_cycle in *; simpl in *;
      [destruct (c_todo th); discriminate | eapply (ci_bound _ I); eauto].
  - (* C_Open, existing inode: bound *)
    intros t0 th0 H0 Ho; csplit_thr H0; simpl in *; [exact Elk|eapply (ci_bound _ I); eauto].
  - (* C_Open, fresh inode *)
    intros t0 th0 H0 Ho; csplit_thr H0; simpl in *; [rewrite Nat.eqb_refl; reflexivity|].
    pose proof (ci_bound _ I _ _ H0 Ho) as Hb. destruct (Nat.eqb (c_path th0) (c_path th)) eqn:E; auto.
    apply Nat.eqb_eq in E. rewrite E in Hb. congruence.
  - (* C_Flock: exclusion *)
    assert (forall u i, In (u, i) (c_held (glob s)) -> u <> t) as Hnt.
    { intros u i Hin ->. destruct (ci_held _ I _ _ Hin) as (th0 & H0 & Hh & _).
      unfold cthr_at in H0. rewrite Hth in H0. inversion H0; subst. rewrite Epc in Hh. discriminate. }
    intros t0 u i [E1|H1] [E2|H2].
    + congruence.
    + inversion E1; subst. symmetry. eapply locked_by_other_false; eauto.
    + inversion E2; subst. eapply locked_by_other_false; eauto.
    + eapply (ci_excl _ I); eauto.
  - intros t0 i [E|Hin].
    + inversion E; subst. exists (cset_pc th C_Body). unfold cthr_at. simpl. split; [eapply nth_upd_eq; eauto|]. auto.
    + destruct (ci_held _ I _ _ Hin) as (th0 & H0 & Hh & Hi).
      assert (t0 <> t) by (intros ->; unfold cthr_at in H0; rewrite Hth in H0; inversion H0; subst; rewrite Epc in Hh; discriminate).
      exists th0. unfold cthr_at in *. simpl. rewrite nth_upd_neq by auto. auto.
  - intros t0 th0 H0 Hh; csplit_thr H0; simpl in *; [left; reflexivity|right; eapply (ci_holds _ I); eauto].
  - intros t0 th0 H0 Ho; csplit_thr H0; simpl in *; eapply (ci_bound _ I); eauto. rewrite Epc. reflexivity.
  - (* C_Body *)
    rewrite HF. intros t0 i Hin. destruct (ci_held _ I _ _ Hin) as (th0 & H0 & Hh & Hi).
    destruct (Nat.eq_dec t0 t) as [->|Hne].
    + unfold cthr_at in H0. rewrite Hth in H0. inversion H0; subst.
      exists (cset_pc th0 C_Close). unfold cthr_at. simpl. split; [eapply nth_upd_eq; eauto|]. auto.
    + exists th0. unfold cthr_at in *. simpl. rewrite nth_upd_neq by auto. auto.
  - rewrite HF. intros t0 th0 H0 Hh; csplit_thr H0; simpl in *; eapply (ci_holds _ I); eauto. rewrite Epc. reflexivity.
  - rewrite HF. intros t0 th0 H0 Ho; csplit_thr H0; simpl in *; eapply (ci_bound _ I); eauto. rewrite Epc. reflexivity.
  - (* C_Close *)
    intros t0 u i H1 H2. apply In_hremove in H1. apply In_hremove in H2. eapply (ci_excl _ I); intuition eauto.
  - intros t0 i Hin. apply In_hremove in Hin. destruct Hin as [Hin Hne].
    destruct (ci_held _ I _ _ Hin) as (th0 & H0 & Hh & Hi).
    exists th0. unfold cthr_at in *. simpl. rewrite nth_upd_neq by auto. auto.
  - intros t0 th0 H0 Hh; csplit_thr H0; unfold cnext_cycle in *; simpl in *.
    + destruct (c_todo th); discriminate.
    + apply In_hremove. split; [eapply (ci_holds _ I); eauto|auto].
  - intros t0 th0 H0 Ho; csplit_thr H0; unfold cnext_cycle in *; simpl in *.
    + destruct (c_todo th); discriminate.
    + eapply (ci_bound _ I); eauto.
Qed.

Lemma CInv_reachable : forall s, creachable false s -> CInv s.
Proof.
  intros s (progs & Hr). revert s Hr. apply reach_ind_inv.
  - apply CInv_init.
  - intros s t s' I H. eapply CInv_step; eauto.
Qed.

(* As long as the lock file is never unlinked, two threads whose descriptions hold the flock lock of the same lock
   path are the same thread: the cache lock serves same-key contenders one at a time. *)
Lemma cache_lock_exclusive : forall s t u th thu, creachable false s -> cthr_at s t th -> cthr_at s u thu ->
  cheld_pc (c_pc th) = true -> cheld_pc (c_pc thu) = true -> c_path th = c_path thu -> t = u.
Proof.
  intros s t u th thu Hr Ht Hu H1 H2 Hp. apply CInv_reachable in Hr.
  assert (forall x, cheld_pc x = true -> copened_pc x = true) as Ho by (destruct x; simpl; auto).
  pose proof (ci_bound _ Hr _ _ Ht (Ho _ H1)) as B1. pose proof (ci_bound _ Hr _ _ Hu (Ho _ H2)) as B2.
  rewrite Hp in B1. rewrite B1 in B2. inversion B2 as [Hi].
  pose proof (ci_holds _ Hr _ _ Ht H1) as I1. pose proof (ci_holds _ Hr _ _ Hu H2) as I2. rewrite Hi in I1.
  eapply (ci_excl _ Hr); eauto.
Qed.

Lemma cache_lock_exclusive_count : forall s k, creachable false s -> count (in_cache_section k) (thr s) <= 1.
Proof.
  intros s k Hr. destruct (le_lt_dec (count (in_cache_section k) (thr s)) 1) as [H|H]; auto. exfalso.
  assert (forall l, count (in_cache_section k) l >= 2 ->
            exists i j x y, i <> j /\ nth_error l i = Some x /\ nth_error l j = Some y /\
                            in_cache_section k x = true /\ in_cache_section k y = true) as Htwo.
  { induction l as [|a l IH]; simpl; intros Hc; [lia|].
    destruct (in_cache_section k a) eqn:Ea.
    - destruct (count_pos _ (in_cache_section k) l) as (j & y & Hy & Hhy); [lia|].
      exists 0, (S j), a, y. simpl. repeat split; auto.
    - destruct IH as (i & j & x & y & Hne & Hx & Hy & Hhx & Hhy); [lia|].
      exists (S i), (S j), x, y. simpl. repeat split; auto. }
  destruct (Htwo (thr s)) as (i & j & x & y & Hne & Hx & Hy & Hhx & Hhy); [lia|].
  unfold in_cache_section in *. apply andb_true_iff in Hhx. apply andb_true_iff in Hhy.
  destruct Hhx as [E1 K1]. destruct Hhy as [E2 K2]. apply Nat.eqb_eq in K1. apply Nat.eqb_eq in K2.
  apply Hne. eapply (cache_lock_exclusive s i j x y); eauto. congruence.
Qed.

(* With an unlink of the lock file on the way out the property FAILS: A holds, B has opened the file and waits in
   flock, A unlinks and closes, B is granted the lock on the orphaned inode, C opens the path, gets a NEW inode and
   is granted LOCK_EX at once: B and C are in the cache section of the same key together. *)
Definition unlink_witness_sched : list nat := [0;0;0;0; 1;1;1; 0;0;0; 1; 2;2;2;2].
Definition unlink_witness : cstate :=
  match crun unlink_witness_sched (cinit true [[(5,false)];[(5,false)];[(5,false)]]) with Some s => s | None => cinit true [] end.

Lemma cache_lock_unlink_refuted :
  creachable true unlink_witness /\ (count (in_cache_section 5) (thr unlink_witness) = 2) /\
  (exists th1 th2, cthr_at unlink_witness 1 th1 /\ cthr_at unlink_witness 2 th2 /\
                   c_pc th1 = C_Body /\ c_pc th2 = C_Body /\ c_path th1 = c_path th2 /\ c_ino th1 <> c_ino th2).
Proof.
  split.
  - exists [[(5,false)];[(5,false)];[(5,false)]]. eapply (run_reach ctstep unlink_witness_sched). vm_compute. reflexivity.
  - split; [vm_compute; reflexivity|]. do 2 eexists. vm_compute. repeat split; try reflexivity. discriminate.
Qed.

(* the hypotheses of cache_lock_exclusive are satisfiable: same schedule without the unlink leaves B alone inside,
   C blocked in flock on the SAME inode *)
Definition nounlink_state : cstate :=
  match crun [0;0;0;0; 1;1;1; 0;0; 1; 2;2;2] (cinit false [[(5,false)];[(5,false)];[(5,false)]]) with Some s => s | None => cinit false [] end.
Lemma cache_lock_witness :
  creachable false nounlink_state /\ (count (in_cache_section 5) (thr nounlink_state) = 1) /\ (cenabled nounlink_state 2 = false).
Proof.
  split.
  - exists [[(5,false)];[(5,false)];[(5,false)]]. eapply (run_reach ctstep [0;0;0;0; 1;1;1; 0;0; 1; 2;2;2]). vm_compute. reflexivity.
  - vm_compute. auto.
Qed.

(* a FAILED open() of the lock file is an event of the model: the requester is refused and never enters; thread 0 is
   inside, thread 1's open fails (it is done), thread 2 waits in flock on the same inode *)
Definition open_fault_state : cstate :=
  match crun [0;0;0;0; 1;1;1; 2;2;2] (cinit false [[(5,false)];[(5,true)];[(5,false)]]) with Some s => s | None => cinit false [] end.
Lemma cache_lock_open_fault_witness :
  creachable false open_fault_state /\ (count (in_cache_section 5) (thr open_fault_state) = 1) /\
  (exists th1, cthr_at open_fault_state 1 th1 /\ c_pc th1 = C_Done) /\ (cenabled open_fault_state 2 = false).
Proof.
  split.
  - exists [[(5,false)];[(5,true)];[(5,false)]]. eapply (run_reach ctstep [0;0;0;0; 1;1;1; 2;2;2]). vm_compute. reflexivity.
  - split; [vm_compute; reflexivity|]. split; [eexists; vm_compute; split; reflexivity|vm_compute; reflexivity].
Qed.
