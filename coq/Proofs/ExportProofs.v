(* C14 -- proofs about the export state machine of Model/Export.v.
   Statement changes with respect to the brief: the trivial second hypothesis of `export_spec`
   (is_tz_block b = true \/ is_tz_block b = false) is dropped; nothing else changed. *)
From Coq Require Import List NArith ZArith Bool Lia.
Import ListNotations.
Require Import RV.Lib.PyStr RV.Proofs.PyStrLemmas RV.Model.ContentLine RV.Model.Export.
Open Scope N_scope.

(* ------------------------------------------------------------------ concrete strings *)
Lemma s_BEGINc_eq : s_BEGINc = [66;69;71;73;78;58].
Proof. reflexivity. Qed.
Lemma s_ENDc_eq : s_ENDc = [69;78;68;58].
Proof. reflexivity. Qed.
Lemma s_TZIDc_eq : s_TZIDc = [84;90;73;68;58].
Proof. reflexivity. Qed.

Lemma begin_not_end : forall l, is_begin l = true -> is_end l = false.
Proof.
  intros [|c l] H; [reflexivity|].
  unfold is_begin, is_end in *. rewrite s_BEGINc_eq in H. rewrite s_ENDc_eq.
  cbn [startswith] in *.
  destruct (c =? 66) eqn:E; [|discriminate].
  apply N.eqb_eq in E. subst c. reflexivity.
Qed.

Lemma end_not_tzid : forall l, is_end l = true -> startswith l s_TZIDc = false.
Proof.
  intros [|c l] H; [reflexivity|].
  unfold is_end in *. rewrite s_ENDc_eq in H. rewrite s_TZIDc_eq.
  cbn [startswith] in *.
  destruct (c =? 69) eqn:E; [|discriminate].
  apply N.eqb_eq in E. subst c. reflexivity.
Qed.

Lemma end_not_wsp : forall l, is_end l = true -> starts_wsp l = false.
Proof.
  intros [|c l] H; [reflexivity|].
  unfold is_end in *. rewrite s_ENDc_eq in H.
  cbn [startswith starts_wsp] in *.
  destruct (c =? 69) eqn:E; [|discriminate].
  apply N.eqb_eq in E. subst c. reflexivity.
Qed.

Lemma wsp_first : forall l, starts_wsp l = true -> exists r, l = 32 :: r \/ l = 9 :: r.
Proof.
  intros [|c l] H; [discriminate|].
  cbn [starts_wsp] in H. unfold is_wsp in H. apply orb_true_iff in H.
  exists l. destruct H as [H|H]; apply N.eqb_eq in H; subst c; [left|right]; reflexivity.
Qed.

Lemma wsp_not_begin : forall l, starts_wsp l = true -> is_begin l = false.
Proof. intros l H. destruct (wsp_first l H) as [r [E|E]]; subst l; reflexivity. Qed.
Lemma wsp_not_end : forall l, starts_wsp l = true -> is_end l = false.
Proof. intros l H. destruct (wsp_first l H) as [r [E|E]]; subst l; reflexivity. Qed.
Lemma wsp_not_tzid : forall l, starts_wsp l = true -> startswith l s_TZIDc = false.
Proof. intros l H. destruct (wsp_first l H) as [r [E|E]]; subst l; reflexivity. Qed.

Lemma notbegin_not_vtz : forall l, is_begin l = false -> eqs l s_BEGIN_VTIMEZONE = false.
Proof.
  intros l H. destruct (eqs l s_BEGIN_VTIMEZONE) eqn:E; [|reflexivity].
  apply eqs_eq in E. subst l. vm_compute in H. discriminate.
Qed.

Lemma tzid_line_begin : forall v, is_begin (s_TZIDc ++ v) = false.
Proof. reflexivity. Qed.
Lemma tzid_line_end : forall v, is_end (s_TZIDc ++ v) = false.
Proof. reflexivity. Qed.
Lemma tzid_line_tzid : forall v, startswith (s_TZIDc ++ v) s_TZIDc = true.
Proof. reflexivity. Qed.
Lemma tzid_line_skip : forall v, skipn 5 (s_TZIDc ++ v) = v.
Proof. reflexivity. Qed.

Lemma snoc_not_nil : forall (A : Type) (l : list A) (x : A), l ++ [x] <> [].
Proof. intros A l x E. apply app_eq_nil in E. destruct E as [_ E]. discriminate. Qed.

(* ------------------------------------------------------------------ one step *)
Definition dpre (d : Z) (l : line) : Z := if is_begin l then (d + 1)%Z else d.
Definition dpost (d' : Z) (l : line) : Z := if is_end l then (d' - 1)%Z else d'.

Definition scan1 (d' : Z) (key : option pystr) (open : bool) (l : line) : option pystr * bool :=
  if (d' =? 2)%Z && startswith l s_TZIDc then (Some (skipn 5 l), true)
  else if open && starts_wsp l then (match key with Some t => Some (t ++ skipn 1 l) | None => None end, true)
  else (key, false).

Lemma scan_cons : forall d key open l r,
  tz_key_scan d key open (l :: r) =
  tz_key_scan (dpost (dpre d l) l) (fst (scan1 (dpre d l) key open l)) (snd (scan1 (dpre d l) key open l)) r.
Proof.
  intros d key open l r. cbn [tz_key_scan]. unfold scan1, dpre, dpost.
  destruct (((if is_begin l then (d + 1)%Z else d) =? 2)%Z && startswith l s_TZIDc); [reflexivity|].
  destruct (open && starts_wsp l); reflexivity.
Qed.

Lemma step_comp : forall d l vts inc key open comps,
  (2 <= dpre d l)%Z ->
  ((dpre d l =? 2)%Z && eqs l s_BEGIN_VTIMEZONE) = false ->
  step (d, mkSt true vts inc [] key open comps) l =
  (dpost (dpre d l) l, mkSt true vts inc [] key open (comps ++ [l])).
Proof.
  intros d l vts inc key open comps Hd Hv.
  unfold step, dpre, dpost, is_begin, is_end in *.
  cbn [in_vcalendar vtimezones included_tzids vtimezone tzid tzid_line components].
  set (d' := if startswith l s_BEGINc then (d + 1)%Z else d) in *.
  replace (d' =? 1)%Z with false by (symmetry; apply Z.eqb_neq; lia).
  cbn [andb]. rewrite Hv. cbn [nonempty].
  replace (2 <=? d')%Z with true by (symmetry; apply Z.leb_le; lia).
  reflexivity.
Qed.

Lemma step_tz : forall d l vts inc vt key open comps,
  vt <> [] ->
  (2 <= dpre d l)%Z ->
  ((dpre d l =? 2)%Z && eqs l s_BEGIN_VTIMEZONE) = false ->
  ((dpre d l =? 2)%Z && is_end l) = false ->
  step (d, mkSt true vts inc vt key open comps) l =
  (dpost (dpre d l) l,
   mkSt true vts inc (vt ++ [l]) (fst (scan1 (dpre d l) key open l)) (snd (scan1 (dpre d l) key open l)) comps).
Proof.
  intros d l vts inc vt key open comps Hvt Hd Hv He.
  unfold step, scan1, dpre, dpost, is_begin, is_end in *.
  cbn [in_vcalendar vtimezones included_tzids vtimezone tzid tzid_line components].
  set (d' := if startswith l s_BEGINc then (d + 1)%Z else d) in *.
  replace (d' =? 1)%Z with false by (symmetry; apply Z.eqb_neq; lia).
  cbn [andb]. rewrite Hv.
  destruct vt as [|x vt]; [contradiction|]. cbn [nonempty].
  destruct ((d' =? 2)%Z && startswith l s_TZIDc); [reflexivity|].
  destruct (open && starts_wsp l); [reflexivity|].
  rewrite He. reflexivity.
Qed.

Lemma step_tz_end : forall e vts inc vt key open comps,
  vt <> [] -> is_end e = true -> is_begin e = false ->
  step (2%Z, mkSt true vts inc vt key open comps) e =
  (1%Z, flush_tz (mkSt true vts inc (vt ++ [e]) key open comps)).
Proof.
  intros e vts inc vt key open comps Hvt He Hb.
  pose proof (end_not_tzid e He) as Ht. pose proof (end_not_wsp e He) as Hw.
  pose proof (notbegin_not_vtz e Hb) as Hv.
  unfold step, is_begin, is_end in *. rewrite Hb, He.
  cbn [in_vcalendar vtimezones included_tzids vtimezone tzid tzid_line components].
  change (2 =? 1)%Z with false. change (2 =? 2)%Z with true. change (2 - 1)%Z with 1%Z.
  cbn [andb]. rewrite Hv, Ht, Hw.
  destruct vt as [|x vt]; [contradiction|]. cbn [nonempty].
  rewrite andb_false_r. reflexivity.
Qed.

Lemma step_prop : forall l vts inc key open comps,
  is_begin l = false -> is_end l = false ->
  step (1%Z, mkSt true vts inc [] key open comps) l = (1%Z, mkSt true vts inc [] key open comps).
Proof.
  intros l vts inc key open comps Hb He.
  pose proof (notbegin_not_vtz l Hb) as Hv.
  assert (Hc : eqs l s_BEGIN_VCALENDAR = false).
  { destruct (eqs l s_BEGIN_VCALENDAR) eqn:E; [|reflexivity].
    apply eqs_eq in E. subst l. vm_compute in Hb. discriminate. }
  unfold step, is_begin, is_end in *. rewrite Hb, He.
  cbn [in_vcalendar vtimezones included_tzids vtimezone tzid tzid_line components].
  change (1 =? 1)%Z with true. change (1 =? 2)%Z with false. change (2 <=? 1)%Z with false.
  cbn [andb nonempty]. rewrite Hc. reflexivity.
Qed.

Lemma step_begin_vcal : forall vts inc comps,
  step (0%Z, mkSt false vts inc [] None false comps) s_BEGIN_VCALENDAR =
  (1%Z, mkSt true vts inc [] None false comps).
Proof. reflexivity. Qed.

Lemma step_end_vcal : forall vts inc comps,
  step (1%Z, mkSt true vts inc [] None false comps) s_END_VCALENDAR =
  (0%Z, mkSt false vts inc [] None false comps).
Proof. reflexivity. Qed.

Lemma step_empty : forall vts inc comps,
  step (0%Z, mkSt false vts inc [] None false comps) [] =
  (0%Z, mkSt false vts inc [] None false comps).
Proof. reflexivity. Qed.

Lemma step_begin_vtz : forall vts inc key open comps,
  step (1%Z, mkSt true vts inc [] key open comps) s_BEGIN_VTIMEZONE =
  (2%Z, mkSt true vts inc [s_BEGIN_VTIMEZONE] key open comps).
Proof. reflexivity. Qed.

(* ------------------------------------------------------------------ inner lines *)
Lemma inner_comp : forall ls, inner ls -> forall d vts inc key open comps, (2 <= d)%Z ->
  fold_left step ls (d, mkSt true vts inc [] key open comps) =
  (d, mkSt true vts inc [] key open (comps ++ ls)).
Proof.
  intros ls Hin.
  induction Hin as [|l r Hb He Hr IHr|b mid e r Hb He Heb Hmid IHmid Hr IHr];
    intros d vts inc key open comps Hd.
  - cbn [fold_left]. rewrite app_nil_r. reflexivity.
  - cbn [fold_left]. rewrite step_comp.
    + unfold dpre, dpost. rewrite Hb, He. rewrite IHr by lia. rewrite <- app_assoc. reflexivity.
    + unfold dpre. rewrite Hb. lia.
    + rewrite (notbegin_not_vtz l Hb). apply andb_false_r.
  - pose proof (begin_not_end b Hb) as Hbe.
    cbn [fold_left]. rewrite step_comp.
    + unfold dpre, dpost. rewrite Hb, Hbe.
      rewrite fold_left_app. rewrite IHmid by lia.
      cbn [fold_left]. rewrite step_comp.
      * unfold dpre, dpost. rewrite Heb, He.
        replace (d + 1 - 1)%Z with d by lia.
        rewrite IHr by lia. repeat rewrite <- app_assoc. reflexivity.
      * unfold dpre. rewrite Heb. lia.
      * rewrite (notbegin_not_vtz e Heb). apply andb_false_r.
    + unfold dpre. rewrite Hb. lia.
    + unfold dpre. rewrite Hb.
      replace (d + 1 =? 2)%Z with false by (symmetry; apply Z.eqb_neq; lia). reflexivity.
Qed.

Lemma inner_tz : forall ls, inner ls -> forall d vts inc vt key open comps, (2 <= d)%Z -> vt <> [] ->
  exists key' open',
    fold_left step ls (d, mkSt true vts inc vt key open comps) =
    (d, mkSt true vts inc (vt ++ ls) key' open' comps) /\
    forall rest, tz_key_scan d key open (ls ++ rest) = tz_key_scan d key' open' rest.
Proof.
  intros ls Hin.
  induction Hin as [|l r Hb He Hr IHr|b mid e r Hb He Heb Hmid IHmid Hr IHr];
    intros d vts inc vt key open comps Hd Hvt.
  - exists key, open. split; [cbn [fold_left]; rewrite app_nil_r; reflexivity|]. intros rest. reflexivity.
  - assert (Hpre : dpre d l = d) by (unfold dpre; rewrite Hb; reflexivity).
    assert (Hpost : dpost d l = d) by (unfold dpost; rewrite He; reflexivity).
    destruct (IHr d vts inc (vt ++ [l]) (fst (scan1 d key open l)) (snd (scan1 d key open l)) comps Hd
                (snoc_not_nil _ vt l)) as [key' [open' [Hrun Hscan]]].
    exists key', open'. split.
    + cbn [fold_left]. rewrite step_tz.
      * rewrite Hpre, Hpost. rewrite Hrun. rewrite <- app_assoc. reflexivity.
      * exact Hvt.
      * rewrite Hpre. exact Hd.
      * rewrite (notbegin_not_vtz l Hb). apply andb_false_r.
      * rewrite He. apply andb_false_r.
    + intros rest. cbn [app]. rewrite scan_cons. rewrite Hpre, Hpost. apply Hscan.
  - pose proof (begin_not_end b Hb) as Hbe.
    assert (Hpre : dpre d b = (d + 1)%Z) by (unfold dpre; rewrite Hb; reflexivity).
    assert (Hpost : dpost (d + 1)%Z b = (d + 1)%Z) by (unfold dpost; rewrite Hbe; reflexivity).
    assert (Hpre2 : dpre (d + 1)%Z e = (d + 1)%Z) by (unfold dpre; rewrite Heb; reflexivity).
    assert (Hpost2 : dpost (d + 1)%Z e = d) by (unfold dpost; rewrite He; lia).
    assert (Hne : ((d + 1 =? 2)%Z = false)) by (apply Z.eqb_neq; lia).
    destruct (IHmid (d + 1)%Z vts inc (vt ++ [b]) (fst (scan1 (d + 1)%Z key open b))
                (snd (scan1 (d + 1)%Z key open b)) comps ltac:(lia) (snoc_not_nil _ vt b))
      as [k1 [o1 [Hrun1 Hscan1]]].
    destruct (IHr d vts inc (((vt ++ [b]) ++ mid) ++ [e]) (fst (scan1 (d + 1)%Z k1 o1 e))
                (snd (scan1 (d + 1)%Z k1 o1 e)) comps Hd (snoc_not_nil _ _ e))
      as [k2 [o2 [Hrun2 Hscan2]]].
    exists k2, o2. split.
    + cbn [fold_left]. rewrite step_tz.
      * rewrite Hpre, Hpost. rewrite fold_left_app. rewrite Hrun1.
        cbn [fold_left]. rewrite step_tz.
        -- rewrite Hpre2, Hpost2. rewrite Hrun2. repeat rewrite <- app_assoc. reflexivity.
        -- intros E. apply app_eq_nil in E. destruct E as [E _]. exact (snoc_not_nil _ _ _ E).
        -- rewrite Hpre2. lia.
        -- rewrite Hpre2, Hne. reflexivity.
        -- rewrite Hpre2, Hne. reflexivity.
      * exact Hvt.
      * rewrite Hpre. lia.
      * rewrite Hpre, Hne. reflexivity.
      * rewrite Hpre, Hne. reflexivity.
    + intros rest. cbn [app]. rewrite scan_cons. rewrite Hpre, Hpost.
      rewrite <- app_assoc. rewrite Hscan1. cbn [app]. rewrite scan_cons.
      rewrite Hpre2, Hpost2. apply Hscan2.
Qed.

(* ------------------------------------------------------------------ blocks *)
Definition blk_vts (vts : list line) (inc : list pystr) (b : block) : list line :=
  match tz_key b with
  | None => vts ++ block_lines b
  | Some k => if mem_str k inc then vts else vts ++ block_lines b
  end.
Definition blk_inc (inc : list pystr) (b : block) : list pystr :=
  match tz_key b with
  | None => inc
  | Some k => if mem_str k inc then inc else inc ++ [k]
  end.

Lemma block_comp : forall b vts inc key open comps, wf_block b -> is_tz_block b = false ->
  fold_left step (block_lines b) (1%Z, mkSt true vts inc [] key open comps) =
  (1%Z, mkSt true vts inc [] key open (comps ++ block_lines b)).
Proof.
  intros b vts inc key open comps [Hb [Hbe [He [Heb Hin]]]] Htz.
  unfold is_tz_block in Htz. unfold block_lines.
  cbn [fold_left]. rewrite step_comp.
  - unfold dpre, dpost. rewrite Hb, Hbe. change (1 + 1)%Z with 2%Z.
    rewrite fold_left_app. rewrite inner_comp by (exact Hin || lia).
    cbn [fold_left]. rewrite step_comp.
    + unfold dpre, dpost. rewrite Heb, He. change (2 - 1)%Z with 1%Z.
      repeat rewrite <- app_assoc. reflexivity.
    + unfold dpre. rewrite Heb. lia.
    + rewrite (notbegin_not_vtz _ Heb). apply andb_false_r.
  - unfold dpre. rewrite Hb. lia.
  - rewrite Htz. apply andb_false_r.
Qed.

Lemma block_tz : forall b vts inc comps, wf_block b -> is_tz_block b = true ->
  fold_left step (block_lines b) (1%Z, mkSt true vts inc [] None false comps) =
  (1%Z, mkSt true (blk_vts vts inc b) (blk_inc inc b) [] None false comps).
Proof.
  intros b vts inc comps [Hb [Hbe [He [Heb Hin]]]] Htz.
  unfold is_tz_block in Htz. apply eqs_eq in Htz.
  unfold blk_vts, blk_inc, tz_key, block_lines. rewrite Htz.
  cbn [fold_left]. rewrite step_begin_vtz. rewrite fold_left_app.
  destruct (inner_tz (b_inner b) Hin 2%Z vts inc [s_BEGIN_VTIMEZONE] None false comps ltac:(lia)
              ltac:(discriminate)) as [k [o [Hrun Hscan]]].
  rewrite Hrun. specialize (Hscan []). rewrite app_nil_r in Hscan. cbn [tz_key_scan] in Hscan.
  rewrite Hscan.
  cbn [fold_left]. rewrite step_tz_end by (assumption || discriminate).
  unfold flush_tz.
  cbn [in_vcalendar vtimezones included_tzids vtimezone tzid tzid_line components].
  destruct k as [t|]; [destruct (mem_str t inc)|]; reflexivity.
Qed.

Fixpoint seen_after (seen : list pystr) (bs : list block) : list pystr :=
  match bs with
  | [] => seen
  | b :: r =>
      match tz_key b with
      | None => seen_after seen r
      | Some k => if mem_str k seen then seen_after seen r else seen_after (seen ++ [k]) r
      end
  end.

Lemma seen_after_app : forall a seen b, seen_after seen (a ++ b) = seen_after (seen_after seen a) b.
Proof.
  induction a as [|x a IH]; intros seen b; [reflexivity|].
  cbn [app seen_after]. destruct (tz_key x) as [k|]; [destruct (mem_str k seen)|]; apply IH.
Qed.

Lemma dedup_tz_app : forall a seen b,
  dedup_tz seen (a ++ b) = dedup_tz seen a ++ dedup_tz (seen_after seen a) b.
Proof.
  induction a as [|x a IH]; intros seen b; [reflexivity|].
  cbn [app seen_after dedup_tz]. destruct (tz_key x) as [k|]; [destruct (mem_str k seen)|];
    cbn [app]; rewrite IH; reflexivity.
Qed.

Lemma blocks_run : forall bs, Forall wf_block bs -> forall vts inc comps,
  fold_left step (List.concat (map block_lines bs)) (1%Z, mkSt true vts inc [] None false comps) =
  (1%Z, mkSt true
          (vts ++ List.concat (map block_lines (dedup_tz inc (filter is_tz_block bs))))
          (seen_after inc (filter is_tz_block bs)) [] None false
          (comps ++ List.concat (map block_lines (filter (fun b => negb (is_tz_block b)) bs)))).
Proof.
  intros bs Hwf. induction Hwf as [|a bs Ha Hbs IH]; intros vts inc comps.
  - cbn. rewrite !app_nil_r. reflexivity.
  - cbn [map List.concat filter]. rewrite fold_left_app.
    destruct (is_tz_block a) eqn:E; cbn [negb].
    + rewrite block_tz by assumption. rewrite IH.
      cbn [dedup_tz seen_after]. unfold blk_vts, blk_inc.
      destruct (tz_key a) as [k|]; [destruct (mem_str k inc)|];
        cbn [map List.concat]; repeat rewrite <- app_assoc; reflexivity.
    + rewrite block_comp by assumption. rewrite IH.
      cbn [map List.concat]. repeat rewrite <- app_assoc. reflexivity.
Qed.

(* ------------------------------------------------------------------ items *)
Lemma props_run : forall ps, Forall (fun l => is_begin l = false /\ is_end l = false) ps ->
  forall vts inc key open comps,
  fold_left step ps (1%Z, mkSt true vts inc [] key open comps) = (1%Z, mkSt true vts inc [] key open comps).
Proof.
  intros ps Hps. induction Hps as [|l ps [Hb He] Hps IH]; intros vts inc key open comps; [reflexivity|].
  cbn [fold_left]. rewrite step_prop by assumption. apply IH.
Qed.

Lemma item_run : forall it vts inc comps, wf_item it ->
  run_item step (mkSt false vts inc [] None false comps) (item_lines it) =
  mkSt false
    (vts ++ List.concat (map block_lines (dedup_tz inc (filter is_tz_block (i_blocks it)))))
    (seen_after inc (filter is_tz_block (i_blocks it))) [] None false
    (comps ++ List.concat (map block_lines (filter (fun b => negb (is_tz_block b)) (i_blocks it)))).
Proof.
  intros it vts inc comps [Hps Hbs]. unfold run_item, item_lines.
  cbn [fold_left]. rewrite step_begin_vcal.
  rewrite !fold_left_app. rewrite props_run by exact Hps. rewrite blocks_run by exact Hbs.
  cbn [fold_left]. rewrite step_end_vcal. rewrite step_empty. reflexivity.
Qed.

Lemma items_run : forall items, Forall wf_item items -> forall vts inc comps,
  fold_left (run_item step) (map item_lines items) (mkSt false vts inc [] None false comps) =
  mkSt false
    (vts ++ List.concat (map block_lines (dedup_tz inc (tz_blocks items))))
    (seen_after inc (tz_blocks items)) [] None false
    (comps ++ List.concat (map block_lines (comp_blocks items))).
Proof.
  intros items Hwf. induction Hwf as [|it items Hit Hitems IH]; intros vts inc comps.
  - cbn. rewrite !app_nil_r. reflexivity.
  - cbn [map fold_left]. rewrite item_run by exact Hit. rewrite IH.
    unfold tz_blocks, comp_blocks. cbn [flat_map]. rewrite !filter_app.
    rewrite dedup_tz_app, seen_after_app. rewrite !map_app, !concat_app.
    repeat rewrite <- app_assoc. reflexivity.
Qed.

Theorem export_spec : forall items, Forall wf_item items ->
  let s := run_items step (map item_lines items) in
  components s = List.concat (map block_lines (comp_blocks items)) /\
  vtimezones s = List.concat (map block_lines (dedup_tz [] (tz_blocks items))) /\
  in_vcalendar s = false /\ vtimezone s = [] /\ tzid s = None /\ tzid_line s = false.
Proof.
  intros items Hwf. unfold run_items, st0. rewrite items_run by exact Hwf.
  cbn [in_vcalendar vtimezones included_tzids vtimezone tzid tzid_line components app].
  repeat split; reflexivity.
Qed.

(* the set `included_tzids` at the end, for completeness *)
Lemma export_included : forall items, Forall wf_item items ->
  included_tzids (run_items step (map item_lines items)) = seen_after [] (tz_blocks items).
Proof. intros items Hwf. unfold run_items, st0. rewrite items_run by exact Hwf. reflexivity. Qed.

(* ------------------------------------------------------------------ dedup_tz *)
Definition keys_of (bs : list block) : list pystr :=
  flat_map (fun b => match tz_key b with Some k => [k] | None => [] end) bs.

Lemma mem_str_In : forall s l, mem_str s l = true <-> In s l.
Proof.
  intros s l. induction l as [|x l IH]; cbn [mem_str In]; [split; [discriminate|tauto]|].
  rewrite orb_true_iff, eqs_eq, IH. split; intros [H|H]; auto.
Qed.

Lemma mem_str_not_In : forall s l, mem_str s l = false <-> ~ In s l.
Proof.
  intros s l. split.
  - intros H Hin. apply mem_str_In in Hin. congruence.
  - intros H. destruct (mem_str s l) eqn:E; [|reflexivity]. apply mem_str_In in E. contradiction.
Qed.

Lemma dedup_tz_incl : forall seen bs b, In b (dedup_tz seen bs) -> In b bs.
Proof.
  intros seen bs. revert seen. induction bs as [|a bs IH]; intros seen b Hin; [exact Hin|].
  cbn [dedup_tz] in Hin. destruct (tz_key a) as [k|].
  - destruct (mem_str k seen).
    + right. exact (IH _ _ Hin).
    + destruct Hin as [Hin|Hin]; [left; exact Hin|right; exact (IH _ _ Hin)].
  - destruct Hin as [Hin|Hin]; [left; exact Hin|right; exact (IH _ _ Hin)].
Qed.

Lemma dedup_tz_keys_nodup_gen : forall bs seen, NoDup seen -> NoDup (seen ++ keys_of (dedup_tz seen bs)).
Proof.
  induction bs as [|a bs IH]; intros seen Hnd.
  - cbn. rewrite app_nil_r. exact Hnd.
  - cbn [dedup_tz]. destruct (tz_key a) as [k|] eqn:Ek.
    + destruct (mem_str k seen) eqn:Em.
      * apply IH. exact Hnd.
      * unfold keys_of. cbn [flat_map]. rewrite Ek. cbn [app].
        change (seen ++ k :: ?r) with (seen ++ [k] ++ r). rewrite app_assoc.
        apply IH. apply NoDup_rev in Hnd.
        apply mem_str_not_In in Em.
        rewrite <- (rev_involutive (seen ++ [k])). apply NoDup_rev.
        rewrite rev_app_distr. cbn [rev app]. constructor; [|exact Hnd].
        intros Hin. apply Em. apply in_rev. exact Hin.
    + unfold keys_of. cbn [flat_map]. rewrite Ek. cbn [app]. apply IH. exact Hnd.
Qed.

Lemma dedup_tz_keys_nodup : forall bs, NoDup (keys_of (dedup_tz [] bs)).
Proof. intros bs. apply (dedup_tz_keys_nodup_gen bs []). constructor. Qed.

Lemma dedup_tz_keys_fresh : forall bs seen k, NoDup seen ->
  In k (keys_of (dedup_tz seen bs)) -> ~ In k seen.
Proof.
  intros bs seen k Hnd Hin Hs.
  pose proof (dedup_tz_keys_nodup_gen bs seen Hnd) as H.
  apply in_split in Hs. destruct Hs as [l1 [l2 Hs]]. subst seen.
  rewrite <- app_assoc in H. cbn [app] in H. apply NoDup_remove_2 in H.
  apply H. apply in_or_app. right. apply in_or_app. right. exact Hin.
Qed.

Lemma dedup_tz_complete_gen : forall bs seen b k, In b bs -> tz_key b = Some k ->
  In k seen \/ exists b', In b' (dedup_tz seen bs) /\ tz_key b' = Some k.
Proof.
  induction bs as [|a bs IH]; intros seen b k Hin Hk; [contradiction|].
  cbn [dedup_tz]. destruct Hin as [Hin|Hin].
  - subst a. rewrite Hk. destruct (mem_str k seen) eqn:Em.
    + left. apply mem_str_In. exact Em.
    + right. exists b. split; [left; reflexivity|exact Hk].
  - destruct (tz_key a) as [k'|] eqn:Ea.
    + destruct (mem_str k' seen) eqn:Em.
      * exact (IH seen b k Hin Hk).
      * destruct (IH (seen ++ [k']) b k Hin Hk) as [H|[b' [H1 H2]]].
        -- apply in_app_or in H. destruct H as [H|[H|[]]]; [left; exact H|].
           subst k'. right. exists a. split; [left; reflexivity|exact Ea].
        -- right. exists b'. split; [right; exact H1|exact H2].
    + destruct (IH seen b k Hin Hk) as [H|[b' [H1 H2]]]; [left; exact H|].
      right. exists b'. split; [right; exact H1|exact H2].
Qed.

Lemma dedup_tz_complete : forall bs b k, In b bs -> tz_key b = Some k ->
  exists b', In b' (dedup_tz [] bs) /\ tz_key b' = Some k.
Proof.
  intros bs b k Hin Hk. destruct (dedup_tz_complete_gen bs [] b k Hin Hk) as [[]|H]. exact H.
Qed.

Lemma dedup_tz_nokey_kept : forall seen bs b, In b bs -> tz_key b = None -> In b (dedup_tz seen bs).
Proof.
  intros seen bs. revert seen. induction bs as [|a bs IH]; intros seen b Hin Hk; [contradiction|].
  cbn [dedup_tz]. destruct Hin as [Hin|Hin].
  - subst a. rewrite Hk. left. reflexivity.
  - destruct (tz_key a) as [k'|]; [destruct (mem_str k' seen)|].
    + apply IH; assumption.
    + right. apply IH; assumption.
    + right. apply IH; assumption.
Qed.

(* ------------------------------------------------------------------ the key of a standard block *)
Lemma scan_no_tzid : forall rest d k, Forall (fun l => startswith l s_TZIDc = false) rest ->
  tz_key_scan d (Some k) false rest = Some k.
Proof.
  induction rest as [|l rest IH]; intros d k Hall; [reflexivity|].
  inversion Hall as [|? ? Hl Hrest]; subst.
  rewrite scan_cons. unfold scan1. rewrite Hl, andb_false_r. cbn [andb fst snd]. apply IH. exact Hrest.
Qed.

Lemma scan_conts : forall conts k rest, Forall (fun l => starts_wsp l = true) conts ->
  tz_key_scan 2%Z (Some k) true (conts ++ rest) =
  tz_key_scan 2%Z (Some (k ++ List.concat (map (skipn 1) conts))) true rest.
Proof.
  induction conts as [|l conts IH]; intros k rest Hall.
  - cbn [map List.concat app]. rewrite app_nil_r. reflexivity.
  - inversion Hall as [|? ? Hl Hconts]; subst.
    cbn [app]. rewrite scan_cons. unfold scan1, dpre, dpost.
    rewrite (wsp_not_begin l Hl), (wsp_not_end l Hl), (wsp_not_tzid l Hl), Hl.
    rewrite andb_false_r. cbn [andb fst snd].
    rewrite IH by exact Hconts. cbn [map List.concat]. rewrite app_assoc. reflexivity.
Qed.

Lemma tz_key_unfolded : forall b v conts rest,
  b_inner b = (s_TZIDc ++ v) :: conts ++ rest ->
  Forall (fun l => starts_wsp l = true) conts ->
  match rest with [] => True | l :: _ => starts_wsp l = false end ->
  Forall (fun l => startswith l s_TZIDc = false) rest ->
  tz_key b = Some (v ++ List.concat (map (skipn 1) conts)).
Proof.
  intros b v conts rest Hb Hconts Hfirst Hrest.
  unfold tz_key. rewrite Hb. rewrite scan_cons. unfold scan1, dpre, dpost.
  rewrite tzid_line_begin, tzid_line_end, tzid_line_tzid, tzid_line_skip.
  change (2 =? 2)%Z with true. cbn [andb fst snd].
  rewrite scan_conts by exact Hconts.
  destruct rest as [|l rest]; [reflexivity|].
  inversion Hrest as [|? ? Hl Hrest']; subst.
  rewrite scan_cons. unfold scan1. rewrite Hl, Hfirst, !andb_false_r. cbn [fst snd].
  apply scan_no_tzid. exact Hrest'.
Qed.

Print Assumptions export_spec.
Print Assumptions tz_key_unfolded.
Print Assumptions dedup_tz_keys_nodup.
Print Assumptions dedup_tz_complete.
