(* Every successful step preserves the weak file-system invariant (parents are directories, the storage
   folder exists, dom covers the support); consequences used by C02 (a file or a missing path has nothing
   below it; a successful rmdir means an empty directory). *)
From Coq Require Import List NArith Bool Lia PeanoNat.
Import ListNotations.
Require Import RV.Model.Fs RV.Proofs.FsLemmas.
Open Scope N_scope.

Lemma look_upd : forall p v s q, look (upd p v s) q = if path_eqb q p then v else look s q.
Proof. reflexivity. Qed.

Lemma snoc_neq_self : forall (p : path) x, p <> p ++ [x].
Proof. intros p x H. apply (f_equal (@List.length name)) in H. rewrite app_length in H. cbn in H. lia. Qed.

Lemma closed_upd : forall s p0 v, closed s -> p0 <> [] ->
  (v <> None -> look s (parent p0) = Some D) ->
  (v <> Some D -> forall x, look s (p0 ++ [x]) = None) ->
  closed (upd p0 v s).
Proof.
  intros s p0 v [Hroot Hcl] Hne Hpar Hch. split.
  - rewrite look_upd. destruct (path_eqb [] p0) eqn:E; [apply path_eqb_eq in E; congruence | exact Hroot].
  - intros p x H. rewrite look_upd in H. rewrite look_upd.
    destruct (path_eqb (p ++ [x]) p0) eqn:E.
    + apply path_eqb_eq in E. subst p0. rewrite parent_snoc in Hpar.
      destruct (path_eqb p (p ++ [x])) eqn:E2; [apply path_eqb_eq in E2; exfalso; eapply snoc_neq_self; eauto|].
      apply Hpar. exact H.
    + specialize (Hcl _ _ H). destruct (path_eqb p p0) eqn:E2; [|exact Hcl].
      apply path_eqb_eq in E2. subst p0.
      destruct v as [[|c]|]; [reflexivity | | ]; exfalso; apply H; apply Hch; discriminate.
Qed.

Lemma dom_ok_upd : forall s p0 v, dom_ok s -> dom_ok (upd p0 v s).
Proof.
  intros s p0 v Hd q H. rewrite look_upd in H. cbn [dom upd].
  destruct (path_eqb q p0) eqn:E; [left; apply path_eqb_eq in E; auto | right; apply Hd; exact H].
Qed.

(* nothing exists below a path that is not a directory *)
Lemma closed_below : forall s p, closed s -> look s p <> Some D -> forall r, r <> [] -> look s (p ++ r) = None.
Proof.
  intros s p [_ Hcl] Hp r. induction r as [|x r IH] using rev_ind; [congruence|]. intros _.
  destruct (look s (p ++ r ++ [x])) eqn:E; [|reflexivity]. exfalso.
  rewrite app_assoc in E. assert (H : look s ((p ++ r) ++ [x]) <> None) by congruence.
  apply Hcl in H. destruct r as [|y r].
  - rewrite app_nil_r in H. contradiction.
  - rewrite IH in H; discriminate.
Qed.

Lemma has_child_false : forall s p, dom_ok s -> has_child s p = false -> forall x, look s (p ++ [x]) = None.
Proof.
  intros s p Hd Hc x. destruct (look s (p ++ [x])) eqn:E; [|reflexivity]. exfalso.
  assert (Hin : In (p ++ [x]) (dom s)) by (apply Hd; congruence).
  unfold has_child in Hc. rewrite <- not_true_iff_false in Hc. apply Hc.
  apply existsb_exists. exists (p ++ [x]). split; [exact Hin|].
  rewrite is_child_snoc, E. reflexivity.
Qed.

(* an empty directory (or a file, or nothing) has nothing below it *)
Lemma nothing_below : forall s p, closed s -> (forall x, look s (p ++ [x]) = None) -> forall r, r <> [] -> look s (p ++ r) = None.
Proof.
  intros s p Hc Hch r Hr. destruct r as [|x r]; [congruence|].
  destruct r as [|y r]; [apply Hch|].
  replace (p ++ x :: y :: r) with ((p ++ [x]) ++ (y :: r)) by (rewrite <- app_assoc; reflexivity).
  apply closed_below; [exact Hc | rewrite Hch; discriminate | discriminate].
Qed.

Lemma is_dir_true : forall s p, is_dir s p = true <-> look s p = Some D.
Proof. intros s p. unfold is_dir. destruct (look s p) as [[|c]|]; split; congruence. Qed.
Lemma is_file_true : forall s p, is_file s p = true <-> exists c, look s p = Some (F c).
Proof.
  intros s p. unfold is_file. destruct (look s p) as [[|c]|]; split; try congruence; try (intros [c' H]; discriminate).
  intros _. exists c. reflexivity.
Qed.

Lemma prefix_nil_false : forall b, b <> [] -> prefix b [] = false.
Proof. intros [|x b] H; [congruence | reflexivity]. Qed.

Lemma prefix_parent_false : forall a b, b <> [] -> prefix a b = false -> a <> [] -> prefix a (parent b) = false.
Proof.
  intros a b Hb H Ha. destruct (path_snoc_cases b) as [->|[q [x ->]]]; [congruence|].
  rewrite parent_snoc. eapply prefix_false_app; eauto.
Qed.

Lemma apply_inv : forall st s s', fs_inv_weak s -> apply st s = inl s' -> fs_inv_weak s'.
Proof.
  intros st s s' [Hc Hd] H.
  destruct st; cbn [apply] in H.
  - (* Mkdir *)
    inv_apply H. subst s'. apply negb_false_iff in E, E1. apply nonempty_true in E. apply is_dir_true in E1.
    split; [|apply dom_ok_upd; exact Hd].
    apply closed_upd; [exact Hc | exact E | intros _; exact E1 | intro Hv; congruence].
  - (* Create *)
    inv_apply H. subst s'. apply negb_false_iff in E, E0. apply nonempty_true in E. apply is_dir_true in E0.
    split; [|apply dom_ok_upd; exact Hd].
    apply closed_upd; [exact Hc | exact E | intros _; exact E0 | ].
    intros _ x. apply (closed_below s p Hc) with (r := [x]); [|discriminate].
    intro Hp. apply is_dir_true in Hp. congruence.
  - (* Write *)
    inv_apply H. subst s'. apply is_file_true in E. destruct E as [c0 E].
    assert (Hne : p <> []) by (intros ->; destruct Hc as [Hr _]; congruence).
    split; [|apply dom_ok_upd; exact Hd].
    apply closed_upd; [exact Hc | exact Hne | | ].
    + intros _. destruct (path_snoc_cases p) as [->|[q [x ->]]]; [congruence|].
      rewrite parent_snoc. destruct Hc as [_ Hcl]. apply Hcl with (x := x). congruence.
    + intros _ x. apply (closed_below s p Hc) with (r := [x]); [congruence | discriminate].
  - (* FsyncF *) inv_apply H. subst s'. split; assumption.
  - (* FsyncD *) inv_apply H. subst s'. split; assumption.
  - (* Rename *)
    inv_apply H; subst s'; apply negb_false_iff in E, E1; apply andb_true_iff in E; destruct E as [Ea Eb];
      apply nonempty_true in Ea, Eb; apply is_dir_true in E1;
      (split; [ | intros q Hq; cbn [look dom] in *;
        destruct (prefix b q) eqn:Pb;
        [ right; apply in_map_iff; exists (a ++ strip b q); split;
          [ unfold rekey; rewrite prefix_app, strip_app; symmetry; apply prefix_strip; exact Pb | apply Hd; exact Hq ]
        | destruct (prefix a q) eqn:Pa; [congruence|];
          right; apply in_map_iff; exists q; split; [unfold rekey; rewrite Pa; reflexivity | apply Hd; exact Hq] ] ]);
      (destruct Hc as [Hroot Hcl]; split;
       [ cbn [look]; rewrite (prefix_nil_false b Eb), (prefix_nil_false a Ea); exact Hroot
       | intros p x Hpx; cbn [look] in *;
         destruct (prefix b (p ++ [x])) eqn:Pb;
         [ destruct (prefix_snoc _ _ _ Pb) as [Heq | Pbp];
           [ subst b; rewrite parent_snoc in E1; rewrite prefix_snoc_self_false;
             rewrite (prefix_false_app _ _ _ E0); exact E1
           | rewrite Pbp; rewrite (strip_snoc _ _ _ Pbp) in Hpx; rewrite app_assoc in Hpx; apply Hcl in Hpx; exact Hpx ]
         | destruct (prefix a (p ++ [x])) eqn:Pa; [congruence|];
           rewrite (prefix_false_app _ _ _ Pb), (prefix_false_app _ _ _ Pa); apply Hcl in Hpx; exact Hpx ] ]).
  - (* Exchange *)
    inv_apply H. subst s'. apply negb_false_iff in E, E1. apply andb_true_iff in E, E1. destruct E as [Ea Eb], E1 as [La Lb].
    apply nonempty_true in Ea, Eb. apply orb_false_iff in E0. destruct E0 as [Pab Pba].
    assert (La' : look s a <> None) by (destruct (look s a); [discriminate | discriminate La]).
    assert (Lb' : look s b <> None) by (destruct (look s b); [discriminate | discriminate Lb]).
    destruct Hc as [Hroot Hcl].
    assert (Hpar : forall q, q <> [] -> look s q <> None -> look s (parent q) = Some D).
    { intros q Hq Hl. destruct (path_snoc_cases q) as [->|[q' [x ->]]]; [congruence|]. rewrite parent_snoc. eapply Hcl; eauto. }
    split.
    + split.
      * cbn [look]. rewrite (prefix_nil_false b Eb), (prefix_nil_false a Ea). exact Hroot.
      * intros p x Hpx. cbn [look] in *.
        destruct (prefix b (p ++ [x])) eqn:Pb.
        { destruct (prefix_snoc _ _ _ Pb) as [Heq | Pbp].
          - subst b. rewrite prefix_snoc_self_false. rewrite (prefix_false_app _ _ _ Pab).
            specialize (Hpar (p ++ [x]) Eb Lb'). rewrite parent_snoc in Hpar. exact Hpar.
          - rewrite Pbp. rewrite (strip_snoc _ _ _ Pbp) in Hpx. rewrite app_assoc in Hpx. apply Hcl in Hpx. exact Hpx. }
        destruct (prefix a (p ++ [x])) eqn:Pa.
        { destruct (prefix_snoc _ _ _ Pa) as [Heq | Pap].
          - subst a. rewrite prefix_snoc_self_false. rewrite (prefix_false_app _ _ _ Pba).
            specialize (Hpar (p ++ [x]) Ea La'). rewrite parent_snoc in Hpar. exact Hpar.
          - rewrite (prefix_false_app _ _ _ Pb). rewrite Pap. rewrite (strip_snoc _ _ _ Pap) in Hpx. rewrite app_assoc in Hpx.
            apply Hcl in Hpx. exact Hpx. }
        rewrite (prefix_false_app _ _ _ Pb), (prefix_false_app _ _ _ Pa). apply Hcl in Hpx. exact Hpx.
    + intros q Hq. cbn [look dom] in *. apply in_map_iff.
      destruct (prefix b q) eqn:Pb.
      * exists (a ++ strip b q). split; [|apply Hd; exact Hq].
        rewrite prefix_app, strip_app. symmetry. apply prefix_strip. exact Pb.
      * destruct (prefix a q) eqn:Pa.
        { exists (b ++ strip a q). split; [|apply Hd; exact Hq].
          destruct (prefix a (b ++ strip a q)) eqn:P1.
          - exfalso. destruct (prefix_comparable a b (b ++ strip a q) P1 (prefix_app _ _)); congruence.
          - rewrite prefix_app, strip_app. symmetry. apply prefix_strip. exact Pa. }
        exists q. rewrite Pa, Pb. split; [reflexivity | apply Hd; exact Hq].
  - (* Unlink *)
    inv_apply H. subst s'.
    assert (Hne : p <> []) by (intros ->; destruct Hc as [Hr _]; congruence).
    split; [|apply dom_ok_upd; exact Hd].
    apply closed_upd; [exact Hc | exact Hne | congruence | ].
    intros _ x. apply (closed_below s p Hc) with (r := [x]); [congruence | discriminate].
  - (* Rmdir *)
    inv_apply H. subst s'. apply negb_false_iff in E. apply nonempty_true in E.
    split; [|apply dom_ok_upd; exact Hd].
    apply closed_upd; [exact Hc | exact E | congruence | ].
    intros _. apply has_child_false; auto.
  - (* Rmtree *)
    inv_apply H. subst s'. apply negb_false_iff in E. apply nonempty_true in E.
    destruct Hc as [Hroot Hcl]. split; [split|].
    + cbn [look]. rewrite (prefix_nil_false p E). exact Hroot.
    + intros q x Hq. cbn [look] in *. destruct (prefix p (q ++ [x])) eqn:P; [congruence|].
      rewrite (prefix_false_app _ _ _ P). eapply Hcl; eauto.
    + intros q Hq. cbn [look dom] in *. destruct (prefix p q); [congruence|]. apply Hd. exact Hq.
Qed.
