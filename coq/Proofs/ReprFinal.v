(* Refinement L1 -> L0, composed with C02: running a storage operation (under ANY fault oracle) from a file
   system that represents the L0 store sigma ends in a file system that represents sigma or the L0 result
   sigma' of the handler model's mutation; a normal end gives sigma'.  Plus a populated example. *)
From Coq Require Import List NArith Bool Lia.
Import ListNotations.
Require RV.Model.Store RV.Proofs.StoreLemmas RV.Proofs.HandlersInv.
Require Import RV.Lib.Prog RV.Model.Fs RV.Model.StorageOps RV.Model.Repr RV.Proofs.FsLemmas RV.Proofs.FsInv
  RV.Proofs.C12Units RV.Proofs.C12Final RV.Proofs.C02Units RV.Proofs.C02Final RV.Proofs.C02Req
  RV.Proofs.ReprProofs RV.Proofs.ReprUnits.
Open Scope N_scope.

(* the outcome of a run, seen from L0 *)
Definition refines (sigma sigma' : ST.store) (r : config step fs * outcome errno) : Prop :=
  let s' := c_st (fst r) in
  fs_inv_weak s' /\ (R s' sigma \/ R s' sigma') /\ (snd r = ONorm -> R s' sigma').

Lemma result_refines : forall u s0 sigma sigma' r, R s0 sigma ->
  (forall s', dpost (ideal u s0) s' -> R s' sigma') -> result_ok u s0 r -> refines sigma sigma' r.
Proof.
  intros u s0 sigma sigma' r HR Hstep (Hi & Hba & Hn). split; [exact Hi|]. split.
  - destruct Hba as [Hb | Ha]; [left; eapply R_abs; eauto | right; apply Hstep; exact Ha].
  - intro H. apply Hstep. apply Hn. exact H.
Qed.

(* generic: any operation, any oracle *)
Lemma refine_unit : forall lay u s0 sigma sigma' (o : oracle errno),
  R s0 sigma -> unit_wf u -> dirs_exist (unit_dirs02 u) s0 -> fs_inv_weak s0 ->
  (forall s', dpost (ideal u s0) s' -> R s' sigma') ->
  refines sigma sigma' (machine_run o (unit_prog lay u) (start s0)).
Proof.
  intros lay u s0 sigma sigma' o HR Hwf Hd Hi Hstep.
  apply (result_refines u s0); [exact HR | exact Hstep | apply c02_any; assumption].
Qed.

(* generic: a whole request (the handler's reads with their cache side effects, then the operation) *)
Lemma refine_request : forall lay rq u s0 sigma sigma' (o : oracle errno),
  R s0 sigma -> unit_of rq = Some u -> request_wf rq -> dirs_exist (request_dirs02 rq) s0 -> fs_inv_weak s0 ->
  (forall s', dpost (ideal u s0) s' -> R s' sigma') ->
  refines sigma sigma' (machine_run o (request_prog lay rq) (start s0)).
Proof.
  intros lay rq u s0 sigma sigma' o HR Hu Hwf Hd Hi Hstep.
  apply (result_refines u s0); [exact HR | exact Hstep | apply c02_requests; assumption].
Qed.

(* ------------------------------------------------------------------ the side conditions of C02 follow from R and the L0 facts *)
Lemma fp_coll : forall p, coll_path (fp p) = true.
Proof. intro p. cbn. apply forallb_safe_map. Qed.

Lemma R_dir : forall s sigma p c, R s sigma -> ST.lookup sigma p = Some c -> look s (fp p) = Some D.
Proof. intros s sigma p c HR H. rewrite (proj1 (HR p)). apply (nview_some _ _ c). exact H. Qed.

Lemma parent_fp_snoc : forall p x, parent (fp (p ++ [x])) = fp p.
Proof. intros. rewrite fp_snoc. apply parent_snoc. Qed.

Section Patterns.
  Variable lay : layout.
  Variable o : oracle errno.
  Variables (s0 : fs) (sigma : ST.store).
  Hypothesis HR : R s0 sigma.
  Hypothesis Hinv : HI.store_inv sigma.
  Hypothesis Hfs : fs_inv_weak s0.

  (* PUT of an item *)
  Lemma refine_put_item : forall (pp : ST.path) (h : ST.name) ob pc exp,
    ST.lookup sigma pp = Some pc -> ST.lookup sigma (pp ++ [h]) = None ->
    refines sigma (ST.set_coll sigma pp (ST.mkColl (ST.c_tag pc) (ST.c_props pc) (ST.assoc_set (ST.c_items pc) h ob)))
            (machine_run o (unit_prog lay (UUpload (fp pp) (Safe h) (ocode ob) exp)) (start s0)).
  Proof.
    intros pp h ob pc exp Hpp Hp. apply refine_unit; auto.
    - split; [apply fp_coll | reflexivity].
    - intros c [<- | []]. apply (R_dir _ _ _ _ HR Hpp).
    - intros s' Hpost. apply (R_put_item s0 s' sigma pp h ob pc exp); assumption.
  Qed.

  (* DELETE of an item *)
  Lemma refine_delete_item : forall (pp : ST.path) (h : ST.name) pc exp,
    ST.lookup sigma pp = Some pc -> ST.lookup sigma (pp ++ [h]) = None ->
    refines sigma (ST.set_coll sigma pp (ST.mkColl (ST.c_tag pc) (ST.c_props pc) (ST.assoc_del (ST.c_items pc) h)))
            (machine_run o (unit_prog lay (UDeleteItem (fp pp) (Safe h) exp)) (start s0)).
  Proof.
    intros pp h pc exp Hpp Hp. apply refine_unit; auto.
    - split; [apply fp_coll | reflexivity].
    - intros c [<- | []]. apply (R_dir _ _ _ _ HR Hpp).
    - intros s' Hpost. apply (R_delete_item s0 s' sigma pp h pc exp); assumption.
  Qed.

  (* DELETE of a collection (not the root) *)
  Lemma refine_delete_coll : forall (p : ST.path) c, ST.lookup sigma p = Some c -> p <> [] ->
    refines sigma (ST.del_subtree sigma p) (machine_run o (unit_prog lay (UDeleteColl (fp p))) (start s0)).
  Proof.
    intros p c Hp Hne. apply refine_unit; auto.
    - apply fp_coll.
    - intros c0 [].
    - intros s' Hpost. apply (R_delete_coll s0 s' sigma p c); assumption.
  Qed.

  (* PROPPATCH *)
  Lemma refine_proppatch : forall (p : ST.path) c props',
    ST.lookup sigma p = Some c ->
    refines sigma (ST.set_coll sigma p (ST.mkColl (ST.c_tag c) props' (ST.c_items c)))
            (machine_run o (unit_prog lay (USetMeta (fp p) (pcode (ST.c_tag c) props'))) (start s0)).
  Proof.
    intros p c props' Hp. apply refine_unit; auto.
    - apply fp_coll.
    - intros c0 [<- | []]. apply (R_dir _ _ _ _ HR Hp).
    - intros s' Hpost. apply (R_proppatch s0 s' sigma p c props'); assumption.
  Qed.

  (* MKCOL without props, home creation: one directory level *)
  Lemma refine_mkdir : forall (p : ST.path), ST.resolve sigma p = ST.NNothing ->
    refines sigma (ST.set_coll sigma p (ST.mkColl ST.TNone [] []))
            (machine_run o (unit_prog lay (UMkdir (fp p))) (start s0)).
  Proof.
    intros p Hres. apply refine_unit; auto.
    - apply fp_coll.
    - intros c0 [].
    - intros s' Hpost. apply (R_mkdir s0 s' sigma p); assumption.
  Qed.

  (* whole-collection PUT (new or replacing), the parent collection exists *)
  Lemma refine_put_coll : forall (q : ST.path) (x : ST.name) newc pcq,
    ST.lookup sigma q = Some pcq -> NoDup (map fst (ST.c_items newc)) ->
    refines sigma (ST.set_coll (ST.del_subtree sigma (q ++ [x])) (q ++ [x]) newc)
            (machine_run o (unit_prog lay (UCreate (fp (q ++ [x])) (Some (enc_items (ST.c_items newc)))
                                                   (pcode (ST.c_tag newc) (ST.c_props newc)))) (start s0)).
  Proof.
    intros q x newc pcq Hq Hnd. apply refine_unit; auto.
    - exists (fp q), (Safe x). split; [apply fp_snoc|]. split; [apply fp_coll | reflexivity].
    - intros c0 [<- | []]. cbn [unit_dirs02]. rewrite parent_fp_snoc. apply (R_dir _ _ _ _ HR Hq).
    - intros s' Hpost. apply (R_create s0 s' sigma (q ++ [x]) newc); assumption.
  Qed.

  (* MKCALENDAR / MKCOL with props or a tag *)
  Lemma refine_mkcoll : forall (q : ST.path) (x : ST.name) tg props pcq,
    ST.lookup sigma q = Some pcq -> ST.lookup sigma (q ++ [x]) = None ->
    refines sigma (ST.set_coll sigma (q ++ [x]) (ST.mkColl tg props []))
            (machine_run o (unit_prog lay (UCreate (fp (q ++ [x])) None (pcode tg props))) (start s0)).
  Proof.
    intros q x tg props pcq Hq Hp. apply refine_unit; auto.
    - exists (fp q), (Safe x). split; [apply fp_snoc|]. split; [apply fp_coll | reflexivity].
    - intros c0 [<- | []]. cbn [unit_dirs02]. rewrite parent_fp_snoc. apply (R_dir _ _ _ _ HR Hq).
    - intros s' Hpost. apply (R_mkcoll s0 s' sigma (q ++ [x]) tg props); assumption.
  Qed.

  (* MOVE of an item, same or another collection, with or without an existing destination item *)
  Lemma refine_move : forall (pp : ST.path) (h : ST.name) (tp : ST.path) (h' : ST.name) from_c ob to_c tc v exp exp',
    ST.lookup sigma pp = Some from_c -> ST.assoc (ST.c_items from_c) h = Some ob -> ST.lookup sigma (pp ++ [h]) = None ->
    ST.lookup sigma tp = Some to_c -> ST.lookup sigma (tp ++ [h']) = None -> pp ++ [h] <> tp ++ [h'] ->
    let s1 := ST.set_coll sigma pp (ST.mkColl (ST.c_tag from_c) (ST.c_props from_c) (ST.assoc_del (ST.c_items from_c) h)) in
    ST.lookup s1 tp = Some tc ->
    refines sigma (ST.set_coll s1 tp (ST.mkColl (ST.c_tag tc) (ST.c_props tc) (ST.assoc_set (ST.c_items tc) h' ob)))
            (machine_run o (unit_prog lay (UMove (fp pp) (Safe h) (fp tp) (Safe h') v exp exp')) (start s0)).
  Proof.
    intros pp h tp h' from_c ob to_c tc v exp exp' Hpp Ho Ha Htp Hb Hab s1 Htc.
    assert (Hsep : forall (a : ST.path) (c : ST.path) cc, ST.lookup sigma a = None -> ST.lookup sigma c = Some cc -> ST.is_prefix a c = false).
    { intros a c cc Hna Hc. destruct (ST.is_prefix a c) eqn:E; [|reflexivity]. apply SL.is_prefix_spec in E. destruct E as [r ->].
      rewrite (no_coll_below sigma a Hinv Hna r) in Hc. discriminate. }
    apply refine_unit; auto.
    - cbn [unit_wf]. repeat split; try apply fp_coll; rewrite <- fp_snoc, fp_prefix; [apply (Hsep _ _ to_c) | apply (Hsep _ _ from_c)]; assumption.
    - intros c0 [<- | [<- | []]]; [apply (R_dir _ _ _ _ HR Hpp) | apply (R_dir _ _ _ _ HR Htp)].
    - intros s' Hpost. apply (R_move s0 s' sigma pp h tp h' from_c ob tc v exp exp'); try assumption. congruence.
  Qed.
End Patterns.
