(* Reasoning about the durability monitor of Model/Fs.v along programs: the monitor state is a function
   of the trace; invariants "every dirty record satisfies G"; generic rules for the program combinators
   when only the normal end matters (C12 claims nothing for failed requests). *)
From Coq Require Import List NArith Bool Lia PeanoNat.
Import ListNotations.
Require Import RV.Lib.Prog RV.Model.Fs RV.Model.StorageOps RV.Proofs.ProgLemmas RV.Proofs.FsLemmas.
Open Scope N_scope.

Definition ev := (step * bool)%type.
Definition mon_of (t : list ev) : mon := mon_run (done t).

Lemma done_app : forall t1 t2 : list ev, done (t1 ++ t2) = done t1 ++ done t2.
Proof. intros. unfold done. rewrite filter_app, map_app. reflexivity. Qed.

Lemma mon_of_ok : forall t st, mon_of (t ++ [(st, true)]) = dstep st (mon_of t).
Proof. intros. unfold mon_of, mon_run. rewrite done_app. cbn. rewrite fold_left_app. reflexivity. Qed.

Lemma mon_of_fail : forall t st, mon_of (t ++ [(st, false)]) = mon_of t.
Proof. intros. unfold mon_of. rewrite done_app. cbn. rewrite app_nil_r. reflexivity. Qed.

(* ------------------------------------------------------------------ invariants of the monitor *)
Definition IG (G : dent -> Prop) (m : mon) : Prop := m_bad m = false /\ forall d, In d (m_dirty m) -> G d.

Lemma IG_weaken : forall (G G' : dent -> Prop) m, (forall d, G d -> G' d) -> IG G m -> IG G' m.
Proof. intros G G' m H [Hb Hd]. split; auto. Qed.

Lemma IG_drop : forall G f m, IG G m -> IG (fun d => G d /\ f d = false) (drop f m).
Proof.
  intros G f m [Hb Hd]. split; [exact Hb|]. cbn. intros d Hin. apply filter_In in Hin. destruct Hin as [Hin Hf].
  apply negb_true_iff in Hf. auto.
Qed.

Lemma IG_drop' : forall G f m, IG G m -> IG G (drop f m).
Proof. intros. eapply IG_weaken; [|apply IG_drop; eauto]. cbn. tauto. Qed.

Lemma IG_add : forall (G : dent -> Prop) d m, G d -> IG G m -> IG G (add d m).
Proof. intros G d m Hg [Hb Hd]. split; [exact Hb|]. cbn. intros e [<-|Hin]; auto. Qed.

Lemma IG_flag : forall G b m, b = false -> IG G m -> IG G (flag b m).
Proof. intros G b m -> [Hb Hd]. split; [cbn; rewrite Hb; reflexivity | exact Hd]. Qed.

Lemma clean_IG : forall m, clean m <-> IG (fun d => is_data (dpath d) = false) m.
Proof. intros. reflexivity. Qed.

(* Rename a b: the records that survive the overwrite of b are re-keyed; nothing data may sit below b *)
Lemma IG_rename : forall (G G' : dent -> Prop) a b m, IG G m ->
  (forall d, G d -> under b d = false -> d <> DE a ->
     G' (dmap (rekey a b) d) /\ (under b (dmap (rekey a b) d) = true -> is_data (dpath (dmap (rekey a b) d)) = false)) ->
  G' (DE a) -> G' (DE b) -> IG G' (dstep (Rename a b) m).
Proof.
  intros G G' a b m [Hb Hd] Hre Ga Gb. cbn [dstep].
  assert (Hsurv : forall e, In e (map (dmap (rekey a b)) (filter (fun d => negb (under b d || dent_eqb (DE a) d)) (m_dirty m))) ->
                            exists d, e = dmap (rekey a b) d /\ G d /\ under b d = false /\ d <> DE a).
  { intros e He. apply in_map_iff in He. destruct He as [d [<- Hin]]. apply filter_In in Hin. destruct Hin as [Hin Hf].
    apply negb_true_iff in Hf. apply orb_false_iff in Hf. destruct Hf as [Hu He].
    exists d. repeat split; auto. intros ->. cbn in He. rewrite path_eqb_refl in He. discriminate. }
  split.
  - cbn. rewrite Hb. cbn. unfold exposes. cbn [m_dirty drop].
    rewrite <- not_true_iff_false. intro Hex. apply existsb_exists in Hex. destruct Hex as [e [He Hc]].
    apply Hsurv in He. destruct He as [d [-> [Hg [Hu Hne]]]]. apply andb_true_iff in Hc. destruct Hc as [Hc1 Hc2].
    destruct (Hre d Hg Hu Hne) as [_ H2]. rewrite (H2 Hc1) in Hc2. discriminate.
  - cbn. intros e [<-|[<-|He]]; auto. apply Hsurv in He. destruct He as [d [-> [Hg [Hu Hne]]]].
    apply (Hre d Hg Hu Hne).
Qed.

(* ------------------------------------------------------------------ program rules, normal end only *)
Definition TT : assertion step fs := fun _ _ => True.
Definition TE : exn errno -> assertion step fs := fun _ _ _ => True.
Definition WP (p : P) (Q : assertion step fs) : assertion step fs := machine_wp p Q TE TT.
Definition TQ (I : mon -> Prop) : assertion step fs := fun _ t => I (mon_of t).

Lemma wp_true : forall (p : P) s t, machine_wp p TT TE TT s t.
Proof.
  intros p s t. apply (wp_all_steps step errno path (option node) fs apply look ls (fun _ => True) TT); unfold TT; auto.
  clear. induction p; cbn; auto.
Qed.

Lemma WP_mono : forall (p : P) (Q Q' : assertion step fs) s t,
  (forall s t, Q s t -> Q' s t) -> WP p Q s t -> WP p Q' s t.
Proof. intros p Q Q' s t H. unfold WP, machine_wp. apply wp_mono; auto. Qed.

Lemma WP_seq : forall (p q : P) (M Q : assertion step fs) s t,
  WP p M s t -> (forall s' t', M s' t' -> WP q Q s' t') -> WP (Seq p q) Q s t.
Proof. intros. unfold WP, machine_wp in *. eapply wp_seq; eauto. Qed.

Lemma WP_do : forall st (Q : assertion step fs) s t,
  (forall s', apply st s = inl s' -> Q s' (t ++ [(st, true)])) -> WP (Do st) Q s t.
Proof. intros st Q s t H. unfold WP, machine_wp, Do, TE, TT. cbn. auto. Qed.

Lemma WP_fsyncD : forall q (Q : assertion step fs) s t,
  (forall s', Q s' (t ++ [(FsyncD q, true)])) -> WP (fsyncD q) Q s t.
Proof. intros q Q s t H. unfold WP, machine_wp, fsyncD, TE, TT. cbn. auto. Qed.

Lemma WP_fsyncF : forall q (Q : assertion step fs) s t,
  (forall s', Q s' (t ++ [(FsyncF q, true)])) -> WP (fsyncF q) Q s t.
Proof. intros q Q s t H. unfold WP, machine_wp, fsyncF, TE, TT. cbn. auto. Qed.

Lemma WP_fsyncD_s : forall q (Q : assertion step fs) s t,
  Q s (t ++ [(FsyncD q, true)]) -> WP (fsyncD q) Q s t.
Proof.
  intros q Q s t H. unfold WP, machine_wp, fsyncD, TE, TT. cbn. repeat split; auto.
  intros s' Hs'. destruct (is_dir s q); [injection Hs' as <-; exact H | discriminate].
Qed.

Lemma WP_fsyncF_s : forall q (Q : assertion step fs) s t,
  Q s (t ++ [(FsyncF q, true)]) -> WP (fsyncF q) Q s t.
Proof.
  intros q Q s t H. unfold WP, machine_wp, fsyncF, TE, TT. cbn. repeat split; auto.
  intros s' Hs'. destruct (is_file s q); [injection Hs' as <-; exact H | discriminate].
Qed.

(* a handler that only re-raises / converts the exception *)
Lemma WP_catch_raise : forall (p : P) (h : exn errno -> P) (Q : assertion step fs) s t,
  (forall e, exists e', h e = Raise e') -> WP p Q s t -> WP (Catch p h) Q s t.
Proof.
  intros p h Q s t Hh Hp. unfold WP, machine_wp in *. eapply wp_catch; [exact Hp|].
  intros e s' t' _. destruct (Hh e) as [e' ->]. exact I.
Qed.

Lemma WP_finally : forall (body c : P) (Q : assertion step fs) s t,
  WP body (WP c Q) s t -> WP (Finally body c) Q s t.
Proof.
  intros body c Q s t H. unfold WP, machine_wp, Finally in *. cbn [wp].
  eapply wp_mono; [ | | | exact H ]; cbn beta; auto.
  intros e s' t' _. cbn [wp]. eapply wp_mono; [ | | | apply (wp_true c s' t') ]; cbn; auto.
Qed.

Lemma WP_fresh : forall (k : N -> P) (Q : assertion step fs) s t, (forall id, WP (k id) Q s t) -> WP (Fresh k) Q s t.
Proof. intros. unfold WP, machine_wp. cbn. auto. Qed.

Lemma WP_read : forall pa (k : option node -> P) (Q : assertion step fs) s t, (forall r, WP (k r) Q s t) -> WP (Read pa k) Q s t.
Proof. intros. unfold WP, machine_wp. cbn. apply H. Qed.

Lemma WP_ret : forall (Q : assertion step fs) s t, Q s t -> WP Ret Q s t.
Proof. intros. exact H. Qed.

(* a program all of whose steps preserve IG G (whether they succeed or fail) *)
Definition gstep (G : dent -> Prop) (st : step) : Prop := forall m, IG G m -> IG G (dstep st m).

Lemma WP_gsteps : forall G (p : P), all_steps step errno path (option node) (gstep G) p ->
  forall s t, IG G (mon_of t) -> machine_wp p (TQ (IG G)) (fun _ => TQ (IG G)) (TQ (IG G)) s t.
Proof.
  intros G p Hall s t H.
  apply (wp_all_steps step errno path (option node) fs apply look ls (gstep G) (TQ (IG G))); auto.
  - intros st s0 s' t0 Hg Hi _. unfold TQ in *. rewrite mon_of_ok. apply Hg. exact Hi.
  - intros st s0 t0 _ Hi. unfold TQ in *. rewrite mon_of_fail. exact Hi.
Qed.

Lemma WP_gsteps' : forall G (p : P), all_steps step errno path (option node) (gstep G) p ->
  forall s t, IG G (mon_of t) -> WP p (TQ (IG G)) s t.
Proof.
  intros G p Hall s t H. unfold WP, machine_wp. eapply wp_mono; [ | | | apply (WP_gsteps G p Hall s t H) ]; cbn; auto.
  - intros; exact I.
  - intros; exact I.
Qed.
