(* C05: non-vacuity examples for the htpasswd theorems, and the regression witness of defect F10
   (pinned tree: `_verify_bcrypt` bound only if a bcrypt entry existed at start-up). *)
From Coq Require Import List NArith Bool String.
Import ListNotations.
Require Import RV.Lib.PyStr RV.Model.C05Text RV.Model.Htpasswd RV.Proofs.C05Htpasswd.
Open Scope N_scope.

(* a hash library that accepts exactly the password "pw" and never raises *)
Definition ex_verify (s : scheme) (h pw : pystr) : vres := if eqs pw (str "pw") then VTrue else VFalse.

Definition bc60 := str "$2b$04$..CA.uOD/eaGAOmJB.yMBu/p8pzi/Poxi87S0g7SVrl8L0fOVwTL.".
Definition file0 : hfile :=
  {| f_text := FText (str "# users" ++ [LF] ++ str "bob:plainpw" ++ [LF]); f_size := 20; f_mtime := 1000 |}.
Definition file1 : hfile :=
  {| f_text := FText (str "# users" ++ [LF] ++ str "bob:plainpw" ++ [LF] ++ str "alice:" ++ bc60 ++ [LF]
                      ++ str "carol:$2y$abc" ++ [LF] ++ str "alice:other" ++ [LF]);
     f_size := 113; f_mtime := 1001 |}.
Definition auto_cfg (cache : bool) : hconfig := {| h_enc := EAuto; h_cache := cache; h_module := true |}.

(* the patched start-up, then the file gets a bcrypt entry: the login works, cache on or off *)
Example ex_htpasswd_late_bcrypt : forall cache,
  match init (auto_cfg cache) file0 with
  | Some st => run ex_verify (auto_cfg cache) st
                   [(file0, str "bob", str "plainpw"); (file1, str "alice", str "pw");
                    (file1, str "alice", str "other"); (file1, str "carol", str "$2y$abc");
                    (file1, str "bob", str "nope")]
  | None => []
  end = [LUser (str "bob"); LUser (str "alice"); LFail; LUser (str "carol"); LFail].
Proof. intros [|]; vm_compute; reflexivity. Qed.

(* hypotheses of c05_htpasswd_nocache are satisfiable, with a login that succeeds *)
Example ex_htpasswd_nocache_hyps :
  exists st, init (auto_cfg false) file0 = Some st /\ flags_ok (auto_cfg false) st /\
    first_entry (h_has_bcrypt st) (file_lines (str "bob:plainpw" ++ [LF] ++ str "alice:" ++ bc60)) (str "alice") = Some bc60
    /\ detect EAuto bc60 = SBcrypt /\ detect EAuto (str "$2y$abc") = SPlain /\ detect EAuto (str "plainpw") = SPlain.
Proof. eexists. split; [vm_compute; reflexivity|]. split; [intros _; reflexivity|]. vm_compute. repeat split; reflexivity. Qed.

(* F10 on the pinned tree (init_with false): same history, the login of alice and of carol RAISES
   (AttributeError -> 500) although the hash library never does -- so the conclusion of
   c05_htpasswd_no_crash fails, and its hypothesis flags_ok is exactly what the pinned start-up lacks *)
Theorem c05_htpasswd_orig_refuted :
  exists cfg f0 f1 st l pw,
    init_with false cfg f0 = Some st /\ ~ flags_ok cfg st /\
    snd (hlogin ex_verify cfg st f1 l pw) = LRaise /\
    (forall s h p, ex_verify s h p <> VRaise) /\
    (* ... while the file does hold an entry for l whose digest verifies *)
    (exists h, first_entry (h_has_bcrypt st) (match f_text f1 with FText t => file_lines t | _ => [] end) l = Some h
               /\ verify_as ex_verify (detect (h_enc cfg) h) h pw = VTrue).
Proof.
  exists (auto_cfg false), file0, file1.
  eexists. exists (str "alice"), (str "pw").
  split; [vm_compute; reflexivity|].
  split; [intros H; specialize (H eq_refl); vm_compute in H; discriminate|].
  split; [vm_compute; reflexivity|].
  split; [intros s h p; unfold ex_verify; destruct (eqs p (str "pw")); discriminate|].
  exists bc60. vm_compute. split; reflexivity.
Qed.

(* the second witness: a wrong-length "$2y$" digest present at start-up *)
Example ex_htpasswd_orig_short_bcrypt :
  match init_with false (auto_cfg false) file1 with Some _ => true | None => false end = false
  /\ (let f := {| f_text := FText (str "carol:$2y$abc" ++ [LF]); f_size := 14; f_mtime := 1 |} in
      match init_with false (auto_cfg false) f, init (auto_cfg false) f with
      | Some st, Some st' => (snd (hlogin ex_verify (auto_cfg false) st f (str "carol") (str "$2y$abc")),
                              snd (hlogin ex_verify (auto_cfg false) st' f (str "carol") (str "$2y$abc")))
      | _, _ => (LFail, LFail)
      end = (LRaise, LUser (str "carol"))).
Proof. vm_compute. split; reflexivity. Qed.

(* stale cache, stated exactly: same size and mtime, other content -> the old dict answers *)
Example ex_htpasswd_stale_cache :
  let f0 := {| f_text := FText (str "bob:aaaa" ++ [LF]); f_size := 9; f_mtime := 5 |} in
  let f1 := {| f_text := FText (str "bob:bbbb" ++ [LF]); f_size := 9; f_mtime := 5 |} in
  let f2 := {| f_text := FText (str "bob:bbbb" ++ [LF]); f_size := 9; f_mtime := 6 |} in
  match init {| h_enc := EPlain; h_cache := true; h_module := true |} f0 with
  | Some st => run ex_verify {| h_enc := EPlain; h_cache := true; h_module := true |} st
                   [(f1, str "bob", str "bbbb"); (f1, str "bob", str "aaaa"); (f2, str "bob", str "bbbb")]
  | None => []
  end = [LFail; LUser (str "bob"); LUser (str "bob")].
Proof. vm_compute. reflexivity. Qed.
