(* C04: the section loop of from_file -- "the first section that matches (or fails) decides". *)
From Coq Require Import List NArith Bool.
Import ListNotations.
Require Import RV.Lib.PyStr RV.Model.Path RV.Model.Regex RV.Model.FromFile.
Open Scope N_scope.

(* a section "decides" when it is not skipped *)
Definition decides (sec : section) (u sp : pystr) : bool :=
  match eval_section sec u sp with SNoMatch => false | _ => true end.

Definition section_outcome (sec : section) (u sp : pystr) : outcome :=
  match eval_section sec u sp with
  | SMatch => match s_perm sec with Some x => Perm x | None => Error end
  | SError => Error
  | SUnsup => Unsupported
  | SFuel => OutOfFuel
  | SNoMatch => Deny
  end.

Definition skipped (u sp : pystr) (sec : section) : Prop := eval_section sec u sp = SNoMatch.

(* closed form: `find` of the first deciding section *)
Lemma authorization_sections_find : forall rules u sp,
  authorization_sections rules u sp =
  match find (fun sec => decides sec u sp) rules with
  | None => Deny
  | Some sec => section_outcome sec u sp
  end.
Proof.
  induction rules as [|sec rest IH]; intros u sp; [reflexivity|].
  cbn [authorization_sections find]. unfold decides at 1.
  destruct (eval_section sec u sp) eqn:E; cbn beta iota; unfold section_outcome; try rewrite E; try reflexivity.
  rewrite IH. reflexivity.
Qed.

Lemma find_split : forall (A : Type) (f : A -> bool) l x,
  find f l = Some x -> exists pre post, l = pre ++ x :: post /\ Forall (fun y => f y = false) pre /\ f x = true.
Proof.
  induction l as [|a l IH]; intros x H; [discriminate|]. cbn [find] in H.
  destruct (f a) eqn:Ea.
  - inversion H; subst. exists [], l. repeat split; [constructor|exact Ea].
  - destruct (IH x H) as (pre & post & -> & Hpre & Hx).
    exists (a :: pre), post. repeat split; [constructor; assumption|exact Hx].
Qed.

Lemma find_none_forall : forall (A : Type) (f : A -> bool) l, find f l = None <-> Forall (fun y => f y = false) l.
Proof.
  induction l as [|a l IH]; cbn [find]; [split; [constructor|reflexivity]|].
  destruct (f a) eqn:Ea; split; intros H.
  - discriminate.
  - inversion H; congruence.
  - constructor; [exact Ea|apply IH; exact H].
  - inversion H; subst. apply IH. assumption.
Qed.

Lemma find_app_skip : forall (A : Type) (f : A -> bool) pre x post,
  Forall (fun y => f y = false) pre -> f x = true -> find f (pre ++ x :: post) = Some x.
Proof.
  induction pre as [|a pre IH]; intros x post Hpre Hx; cbn [app find].
  - rewrite Hx. reflexivity.
  - inversion Hpre; subst. rewrite H1. apply IH; assumption.
Qed.

Lemma decides_false_skipped : forall sec u sp, decides sec u sp = false <-> skipped u sp sec.
Proof.
  intros sec u sp. unfold decides, skipped. destruct (eval_section sec u sp); split; intros H; congruence.
Qed.

Lemma Forall_decides_skipped : forall u sp l,
  Forall (fun s => decides s u sp = false) l <-> Forall (skipped u sp) l.
Proof.
  intros u sp l. split; intros H; (eapply Forall_impl; [|exact H]); intros a Ha; apply decides_false_skipped; exact Ha.
Qed.

(* The first section whose user pattern and collection pattern both match in full wins:
   permissions x are returned iff some section matches, carries x, and every section before it was skipped. *)
Theorem from_file_first_match : forall rules u sp x,
  authorization_sections rules u sp = Perm x <->
  exists pre sec post, rules = pre ++ sec :: post /\ Forall (skipped u sp) pre
                       /\ eval_section sec u sp = SMatch /\ s_perm sec = Some x.
Proof.
  intros rules u sp x. rewrite authorization_sections_find. split.
  - destruct (find (fun sec => decides sec u sp) rules) as [sec|] eqn:F; [|discriminate].
    intros H. destruct (find_split _ _ _ _ F) as (pre & post & -> & Hpre & Hd).
    exists pre, sec, post. split; [reflexivity|]. split; [apply Forall_decides_skipped; exact Hpre|].
    unfold section_outcome in H. destruct (eval_section sec u sp); try discriminate.
    destruct (s_perm sec) as [y|]; [|discriminate]. inversion H; subst. split; reflexivity.
  - intros (pre & sec & post & -> & Hpre & Hm & Hp).
    rewrite (find_app_skip _ (fun s => decides s u sp) pre sec post).
    + unfold section_outcome. rewrite Hm, Hp. reflexivity.
    + apply Forall_decides_skipped; exact Hpre.
    + unfold decides. rewrite Hm. reflexivity.
Qed.

(* access is denied (the empty permission string) exactly when every section is skipped *)
Theorem from_file_deny : forall rules u sp,
  authorization_sections rules u sp = Deny <-> Forall (skipped u sp) rules.
Proof.
  intros rules u sp. rewrite authorization_sections_find. split.
  - destruct (find (fun sec => decides sec u sp) rules) as [sec|] eqn:F.
    + intros H. destruct (find_split _ _ _ _ F) as (pre & post & -> & Hpre & Hd).
      unfold section_outcome in H. unfold decides in Hd.
      destruct (eval_section sec u sp); try discriminate. destruct (s_perm sec); discriminate.
    + intros _. apply Forall_decides_skipped. apply find_none_forall. exact F.
  - intros H. apply Forall_decides_skipped in H. apply find_none_forall in H. rewrite H. reflexivity.
Qed.

(* an exception (RuntimeError / NoOptionError, a 500 for the client, nothing granted) arises exactly from
   the first deciding section: it is malformed, or it matches but has no `permissions` key *)
Theorem from_file_error : forall rules u sp,
  authorization_sections rules u sp = Error <->
  exists pre sec post, rules = pre ++ sec :: post /\ Forall (skipped u sp) pre
                       /\ (eval_section sec u sp = SError \/ (eval_section sec u sp = SMatch /\ s_perm sec = None)).
Proof.
  intros rules u sp. rewrite authorization_sections_find. split.
  - destruct (find (fun sec => decides sec u sp) rules) as [sec|] eqn:F; [|discriminate].
    intros H. destruct (find_split _ _ _ _ F) as (pre & post & -> & Hpre & Hd).
    exists pre, sec, post. split; [reflexivity|]. split; [apply Forall_decides_skipped; exact Hpre|].
    unfold section_outcome in H. destruct (eval_section sec u sp); try discriminate.
    + right. destruct (s_perm sec); [discriminate|]. split; reflexivity.
    + left. reflexivity.
  - intros (pre & sec & post & -> & Hpre & Hm).
    rewrite (find_app_skip _ (fun s => decides s u sp) pre sec post).
    + unfold section_outcome. destruct Hm as [Hm|[Hm Hp]]; rewrite Hm; [reflexivity|rewrite Hp; reflexivity].
    + apply Forall_decides_skipped; exact Hpre.
    + unfold decides. destruct Hm as [Hm|[Hm _]]; rewrite Hm; reflexivity.
Qed.

(* later sections are irrelevant once one decides; earlier skipped sections are irrelevant too *)
Corollary from_file_order : forall pre sec post u sp,
  Forall (skipped u sp) pre -> decides sec u sp = true ->
  authorization_sections (pre ++ sec :: post) u sp = section_outcome sec u sp.
Proof.
  intros pre sec post u sp Hpre Hd. rewrite authorization_sections_find.
  rewrite (find_app_skip _ (fun s => decides s u sp) pre sec post); [reflexivity| |exact Hd].
  apply Forall_decides_skipped; exact Hpre.
Qed.

(* the path enters only through strip_path *)
Lemma authorization_unfold : forall rules u p,
  authorization rules u p = authorization_sections rules u (strip_path p).
Proof. reflexivity. Qed.
