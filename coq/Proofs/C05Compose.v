(* C05: end to end -- gate over the htpasswd back-end. *)
From Coq Require Import List NArith ZArith Bool.
Import ListNotations.
Require Import RV.Lib.PyStr RV.Model.Path RV.Model.C05Text RV.Model.LoginMap RV.Model.Gate RV.Model.Htpasswd RV.Model.C05Compose.
Require Import RV.Proofs.C05Gate RV.Proofs.C05Htpasswd.
Open Scope N_scope.

Theorem c05_gate_htpasswd :
  forall py_lower py_upper basic_decode handler home_exists home_exists_w rights_w create_fails ext_verify
         hcfg st t sz mt cfg env m bp p u,
    c_kind cfg = AOther -> h_cache hcfg = false -> flags_ok hcfg st ->
    In (EDispatch m bp p u)
       (r_effects (gate py_lower py_upper basic_decode (ht_backend ext_verify hcfg st (present t sz mt))
                        handler home_exists home_exists_w rights_w create_fails cfg env)) ->
    u <> [] ->
    exists ext l pw h,
      creds basic_decode cfg env = CCreds ext l pw /\ l <> [] /\
      u = mapped py_lower py_upper cfg l /\ is_safe_path_component u = true /\
      first_entry (h_has_bcrypt st) (file_lines t) u = Some h /\ h <> [] /\
      verify_as ext_verify (detect (h_enc hcfg) h) h pw = VTrue.
Proof.
  intros py_lower py_upper basic_decode handler home_exists home_exists_w rights_w create_fails ext_verify
         hcfg st t sz mt cfg env m bp p u Hk Hc Hf Hd Hu.
  apply c05_gate in Hd as (ext & l & pw & H1 & H2 & H3 & H4 & _); [|exact Hu].
  rewrite Hk in H3. cbn [backend_login] in H3. unfold ht_backend in H3.
  destruct (snd (hlogin ext_verify hcfg st (present t sz mt) (mapped py_lower py_upper cfg l) pw)) as [u'| |] eqn:Eh;
    [|inversion H3; subst; congruence|discriminate].
  inversion H3; subst u'. clear H3.
  apply (c05_htpasswd_nocache ext_verify hcfg st t sz mt _ pw u Hc Hf) in Eh as [-> (h & E1 & E2 & E3)].
  exists ext, l, pw, h. repeat split; auto.
Qed.
