(* C07 -- basic lemmas: decidable equalities of the symbolic hashes, sorted association lists, token store. *)
From Coq Require Import List NArith ZArith Bool Lia.
Import ListNotations.
Require Import RV.Model.Sync.
Open Scope Z_scope.

(* ------------------------------------------------------------------ equality tests are exact *)
Lemma etag_eqb_eq : forall a b, etag_eqb a b = true <-> a = b.
Proof.
  intros [x] [y]; cbn; rewrite N.eqb_eq; split; intro H; [subst; reflexivity | inversion H; reflexivity].
Qed.

Lemma oetag_eqb_eq : forall a b, oetag_eqb a b = true <-> a = b.
Proof.
  intros [x|] [y|]; cbn; try (split; intro H; discriminate H); try (split; reflexivity).
  rewrite etag_eqb_eq; split; intro H; [subst; reflexivity | inversion H; reflexivity].
Qed.

Lemma oetag_eqb_refl : forall a, oetag_eqb a a = true.
Proof. intro a; apply oetag_eqb_eq; reflexivity. Qed.

Lemma hetag_eqb_eq : forall a b, hetag_eqb a b = true <-> a = b.
Proof.
  induction a as [x | h IH e]; intros [y | h' e']; cbn; try (split; intro H; discriminate H).
  - rewrite N.eqb_eq; split; intro H; [subst; reflexivity | inversion H; reflexivity].
  - rewrite andb_true_iff, IH, oetag_eqb_eq; split.
    + intros [-> ->]; reflexivity.
    + intro H; inversion H; split; reflexivity.
Qed.

Lemma hetag_eqb_refl : forall a, hetag_eqb a a = true.
Proof. intro a; apply hetag_eqb_eq; reflexivity. Qed.

Lemma snap_eqb_eq : forall a b, snap_eqb a b = true <-> a = b.
Proof.
  induction a as [| [h x] r IH]; intros [| [h' x'] r']; cbn; try (split; intro H; discriminate H); try (split; reflexivity).
  rewrite !andb_true_iff, N.eqb_eq, hetag_eqb_eq, IH; split.
  - intros [[-> ->] ->]; reflexivity.
  - intro H; inversion H; repeat split; reflexivity.
Qed.

Lemma token_eqb_eq : forall a b, token_eqb a b = true <-> a = b.
Proof.
  intros [x] [y]; cbn; rewrite snap_eqb_eq; split; intro H; [subst; reflexivity | inversion H; reflexivity].
Qed.

Lemma token_eqb_refl : forall a, token_eqb a a = true.
Proof. intro a; apply token_eqb_eq; reflexivity. Qed.

(* the hash chain never returns to an earlier value (acyclicity of the free constructors) *)
Lemma hchain_acyclic : forall h e, HChain h e <> h.
Proof.
  induction h as [x | h IH e']; intros e H; [discriminate H | inversion H; subst; eapply IH; eassumption].
Qed.

(* ------------------------------------------------------------------ association lists *)
Section AL.
  Context {V : Type}.
  Implicit Types l : list (N * V).

  Lemma aget_ains : forall k k' (v : V) l, aget k (ains k' v l) = if N.eqb k k' then Some v else aget k l.
  Proof.
    intros k k' v l; induction l as [| [k0 v0] r IH]; cbn.
    - destruct (N.eqb k k'); reflexivity.
    - destruct (N.eqb k' k0) eqn:E1.
      + apply N.eqb_eq in E1; subst k0; cbn. destruct (N.eqb k k'); reflexivity.
      + destruct (N.ltb k' k0) eqn:E2; cbn.
        * destruct (N.eqb k k'); reflexivity.
        * rewrite IH. destruct (N.eqb k k0) eqn:E3; [| reflexivity].
          apply N.eqb_eq in E3; subst k0. destruct (N.eqb k k') eqn:E4; [| reflexivity].
          apply N.eqb_eq in E4; subst k'. rewrite N.eqb_refl in E1; discriminate E1.
  Qed.

  Lemma aget_adel : forall k k' l, aget k (@adel V k' l) = if N.eqb k k' then None else aget k l.
  Proof.
    intros k k' l; unfold adel; induction l as [| [k0 v0] r IH]; cbn.
    - destruct (N.eqb k k'); reflexivity.
    - destruct (N.eqb k0 k') eqn:E1; cbn.
      + rewrite IH. apply N.eqb_eq in E1; subst k0. destruct (N.eqb k k'); reflexivity.
      + rewrite IH. destruct (N.eqb k k0) eqn:E3; [| reflexivity].
        apply N.eqb_eq in E3; subst k0. rewrite E1; reflexivity.
  Qed.

  Lemma aget_filter_keys : forall (f : N -> bool) k l,
    aget k (filter (fun p : N * V => f (fst p)) l) = if f k then aget k l else None.
  Proof.
    intros f k l; induction l as [| [k0 v0] r IH]; cbn.
    - destruct (f k); reflexivity.
    - destruct (f k0) eqn:E; cbn.
      + rewrite IH. destruct (N.eqb k k0) eqn:E3; [| reflexivity].
        apply N.eqb_eq in E3; subst k0; rewrite E; reflexivity.
      + rewrite IH. destruct (N.eqb k k0) eqn:E3; [| reflexivity].
        apply N.eqb_eq in E3; subst k0; rewrite E; reflexivity.
  Qed.

  Lemma aget_In : forall k v l, aget k l = Some v -> In (k, v) l.
  Proof.
    intros k v l; induction l as [| [k0 v0] r IH]; cbn; [discriminate |].
    destruct (N.eqb k k0) eqn:E; intro H.
    - apply N.eqb_eq in E; subst k0; inversion H; left; reflexivity.
    - right; apply IH; exact H.
  Qed.

  Lemma aget_none_notin : forall k l, aget k l = None <-> ~ In k (akeys l).
  Proof.
    intros k l; induction l as [| [k0 v0] r IH]; cbn.
    - split; [intros _ [] | reflexivity].
    - destruct (N.eqb k k0) eqn:E.
      + apply N.eqb_eq in E; subst k0. split; [discriminate | intro H; exfalso; apply H; left; reflexivity].
      + apply N.eqb_neq in E. rewrite IH. split.
        * intros H [H1 | H1]; [apply E; symmetry; exact H1 | apply H; exact H1].
        * intros H H1; apply H; right; exact H1.
  Qed.

  Lemma amem_true_iff : forall k l, @amem V k l = true <-> In k (akeys l).
  Proof.
    intros k l; unfold amem. destruct (aget k l) eqn:E.
    - split; [intros _ | reflexivity]. apply aget_In in E. unfold akeys. apply (in_map fst) in E. exact E.
    - split; [discriminate |]. intro H; apply aget_none_notin in E; contradiction.
  Qed.

  Lemma amem_false_iff : forall k l, @amem V k l = false <-> aget k l = None.
  Proof. intros k l; unfold amem; destruct (aget k l); split; congruence. Qed.

  (* strictly sorted keys *)
  Fixpoint asorted l : Prop :=
    match l with
    | [] => True
    | (k, _) :: r => Forall (fun p => (k < fst p)%N) r /\ asorted r
    end.

  Lemma lb_aget_none : forall k l, Forall (fun p : N * V => (k < fst p)%N) l -> aget k l = None.
  Proof.
    intros k l H; induction H as [| [k0 v0] r H0 _ IH]; cbn; [reflexivity |].
    cbn in H0. destruct (N.eqb k k0) eqn:E; [apply N.eqb_eq in E; lia | exact IH].
  Qed.

  Lemma lb_ains : forall k0 k (v : V) l, (k0 < k)%N -> Forall (fun p : N * V => (k0 < fst p)%N) l ->
    Forall (fun p : N * V => (k0 < fst p)%N) (ains k v l).
  Proof.
    intros k0 k v l Hk H; induction H as [| [k1 v1] r H1 H2 IH]; cbn.
    - constructor; [exact Hk | constructor].
    - destruct (N.eqb k k1); [constructor; [exact Hk | exact H2] |].
      destruct (N.ltb k k1); constructor; try assumption; constructor; assumption.
  Qed.

  Lemma asorted_ains : forall k (v : V) l, asorted l -> asorted (ains k v l).
  Proof.
    intros k v l; induction l as [| [k0 v0] r IH]; cbn; intro H.
    - split; [constructor | exact I].
    - destruct H as [Hlb Hs]. destruct (N.eqb k k0) eqn:E1.
      + apply N.eqb_eq in E1; subst k0. cbn; split; assumption.
      + destruct (N.ltb k k0) eqn:E2.
        * apply N.ltb_lt in E2. cbn; split; [| split; assumption].
          constructor; [exact E2 |]. eapply Forall_impl; [| exact Hlb]. cbn; intros; lia.
        * apply N.ltb_ge in E2. apply N.eqb_neq in E1. cbn; split; [| apply IH; exact Hs].
          apply lb_ains; [lia | exact Hlb].
  Qed.

  Lemma asorted_filter : forall (f : N * V -> bool) l, asorted l -> asorted (filter f l).
  Proof.
    intros f l; induction l as [| [k0 v0] r IH]; cbn; intro H; [exact I |].
    destruct H as [Hlb Hs]. destruct (f (k0, v0)); cbn.
    - split; [| apply IH; exact Hs]. apply Forall_forall; intros p Hp. apply filter_In in Hp.
      rewrite Forall_forall in Hlb; apply Hlb; tauto.
    - apply IH; exact Hs.
  Qed.

  Lemma asorted_adel : forall k l, asorted l -> asorted (@adel V k l).
  Proof. intros; apply asorted_filter; assumption. Qed.

  Lemma asorted_NoDup : forall l, asorted l -> NoDup (akeys l).
  Proof.
    induction l as [| [k0 v0] r IH]; cbn; intro H; [constructor |].
    destruct H as [Hlb Hs]. constructor; [| apply IH; exact Hs].
    intro Hin. apply in_map_iff in Hin. destruct Hin as [[k1 v1] [E Hin]]; cbn in E; subst k1.
    rewrite Forall_forall in Hlb; specialize (Hlb _ Hin); cbn in Hlb; lia.
  Qed.

  (* replacing the value of an existing key of a sorted list keeps the key list *)
  Lemma akeys_ains_present : forall k (v : V) l, asorted l -> In k (akeys l) -> akeys (ains k v l) = akeys l.
  Proof.
    intros k v l; induction l as [| [k0 v0] r IH]; cbn; intros Hs Hin; [contradiction |].
    destruct Hs as [Hlb Hs]. destruct (N.eqb k k0) eqn:E1.
    - apply N.eqb_eq in E1; subst k0; reflexivity.
    - apply N.eqb_neq in E1. destruct Hin as [Hin | Hin]; [exfalso; apply E1; symmetry; exact Hin |].
      destruct (N.ltb k k0) eqn:E2.
      + apply N.ltb_lt in E2. exfalso. apply in_map_iff in Hin. destruct Hin as [[k1 v1] [E Hin]]; cbn in E; subst k1.
        rewrite Forall_forall in Hlb; specialize (Hlb _ Hin); cbn in Hlb; lia.
      + cbn; f_equal; apply IH; assumption.
  Qed.
End AL.

Lemma nmem_true_iff : forall k l, nmem k l = true <-> In k l.
Proof.
  intros k l; unfold nmem; rewrite existsb_exists; split.
  - intros [x [H E]]; apply N.eqb_eq in E; subst x; exact H.
  - intro H; exists k; split; [exact H | apply N.eqb_refl].
Qed.

(* ------------------------------------------------------------------ token store *)
Lemma tget_tset : forall t t' r l, tget t (tset t' r l) = if token_eqb t t' then Some r else tget t l.
Proof.
  intros t t' r l; induction l as [| [t0 r0] rest IH]; cbn.
  - destruct (token_eqb t t'); reflexivity.
  - destruct (token_eqb t' t0) eqn:E1; cbn.
    + apply token_eqb_eq in E1; subst t0. destruct (token_eqb t t'); reflexivity.
    + rewrite IH. destruct (token_eqb t t0) eqn:E3; [| reflexivity].
      apply token_eqb_eq in E3; subst t0. destruct (token_eqb t t') eqn:E4; [| reflexivity].
      apply token_eqb_eq in E4; subst t'. rewrite token_eqb_refl in E1; discriminate E1.
Qed.

Lemma tget_In : forall t r l, tget t l = Some r -> In (t, r) l.
Proof.
  intros t r l; induction l as [| [t0 r0] rest IH]; cbn; [discriminate |].
  destruct (token_eqb t t0) eqn:E; intro H.
  - apply token_eqb_eq in E; subst t0; inversion H; left; reflexivity.
  - right; apply IH; exact H.
Qed.

Lemma In_tset : forall t r l p, In p (tset t r l) -> p = (t, r) \/ In p l.
Proof.
  intros t r l p; induction l as [| [t0 r0] rest IH]; cbn.
  - intros [H | []]; left; symmetry; exact H.
  - destruct (token_eqb t t0); cbn; intros [H | H].
    + left; symmetry; exact H.
    + right; right; exact H.
    + right; left; exact H.
    + destruct (IH H) as [H1 | H1]; [left; exact H1 | right; right; exact H1].
Qed.

(* a filter that keeps the entry found keeps it findable *)
Lemma tget_filter_keep : forall (f : token * trec -> bool) t r l,
  tget t l = Some r -> f (t, r) = true -> tget t (filter f l) = Some r.
Proof.
  intros f t r l; induction l as [| [t0 r0] rest IH]; cbn; [discriminate |].
  destruct (token_eqb t t0) eqn:E; intros H Hf.
  - apply token_eqb_eq in E; subst t0. inversion H; subst r0. rewrite Hf; cbn. rewrite token_eqb_refl; reflexivity.
  - destruct (f (t0, r0)); cbn; [rewrite E |]; apply IH; assumption.
Qed.
