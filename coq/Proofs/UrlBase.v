(* C18: the base prefix _handle_request selects is "" or starts with "/" and does not end with "/" *)
From Coq Require Import List NArith Bool Lia.
Import ListNotations.
Require Import RV.Lib.PyStr RV.Model.Path RV.Model.Url RV.Proofs.PyStrLemmas.
Open Scope N_scope.

Lemma lstrip_char_not_head : forall c s, startswith (lstrip_char c s) [c] = false.
Proof.
  intros c. induction s as [|x s IH]; [reflexivity|]. cbn [lstrip_char].
  destruct (x =? c) eqn:E; [exact IH|]. rewrite startswith_single. exact E.
Qed.

Lemma rstrip_char_not_last : forall c s, endswith (rstrip_char c s) [c] = false.
Proof.
  intros c s. unfold rstrip_char, endswith. rewrite rev_involutive. cbn [rev app]. apply lstrip_char_not_head.
Qed.

(* Python: s.rstrip("/") of a string starting with "/" is "" or still starts with "/" *)
Lemma rstrip_slash_head : forall s, startswith s [slash] = true ->
  rstrip_char slash s = [] \/ startswith (rstrip_char slash s) [slash] = true.
Proof.
  intros s H. unfold rstrip_char. destruct (lstrip_char slash (rev s)) as [|y r] eqn:E; [left; reflexivity|right].
  (* the stripped string is a prefix of s: its first character is that of s *)
  assert (Hp : exists t, s = rev (y :: r) ++ t).
  { clear H. assert (Hs : s = rev (rev s)) by (rewrite rev_involutive; reflexivity).
    rewrite Hs. revert y r E. generalize (rev s) as u. clear s Hs.
    induction u as [|x u IH]; intros y r E; [discriminate|]. cbn [lstrip_char] in E.
    destruct (x =? slash).
    - destruct (IH y r E) as (t & Ht). exists (t ++ [x]). cbn [rev]. rewrite Ht, app_assoc. reflexivity.
    - inversion E; subst. exists []. rewrite app_nil_r. reflexivity. }
  destruct Hp as (t & Ht). rewrite Ht in H.
  destruct (rev (y :: r)) as [|z w] eqn:Er.
  - apply (f_equal (@rev N)) in Er. rewrite rev_involutive in Er. discriminate.
  - cbn [app] in H. rewrite startswith_single in *. exact H.
Qed.

Definition cfg_ok (cfg : pystr) : Prop := cfg = [] \/ (startswith cfg [slash] = true /\ endswith cfg [slash] = false).

(* Application.__init__ refuses any other [server] script_name *)
Theorem select_base_shape : forall cfg rp x s b, cfg_ok cfg -> select_base cfg rp x s = BOk b ->
  b = [] \/ (startswith b [slash] = true /\ endswith b [slash] = false).
Proof.
  intros cfg rp x s b Hc H. unfold select_base in H.
  destruct (nonempty cfg && rp) eqn:E.
  - inversion H; subst. exact Hc.
  - destruct (match x with Some v => (true, v) | None => (false, match s with Some v => v | None => [] end) end) as [from_x raw].
    destruct raw as [|c raw'].
    + cbn in H. inversion H. left. reflexivity.
    + cbn [nonempty andb] in H. destruct (startswith (c :: raw') [slash]) eqn:Es; cbn [negb] in H; [|destruct from_x; discriminate].
      destruct (endswith (c :: raw') [slash]) eqn:Ee; inversion H; subst.
      * destruct (rstrip_slash_head (c :: raw') Es) as [-> | Hh]; [left; reflexivity|right].
        split; [exact Hh|apply rstrip_char_not_last].
      * right. split; assumption.
Qed.
