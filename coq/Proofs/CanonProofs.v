(* C14 -- vobject's child order (Model/Vobj.v, "vobject's child order"): the ordering is a permutation,
   the sort is stable, ordering is idempotent, and canon_node is idempotent.
   All statements are proved exactly as requested; none had to be changed. *)
From Coq Require Import List NArith Bool Lia Permutation Sorted.
Import ListNotations.
Require Import RV.Lib.PyStr RV.Proofs.PyStrLemmas RV.Proofs.StrOrder RV.Model.ContentLine RV.Model.Vobj RV.Model.C14Spec.
Open Scope N_scope.

(* ------------------------------------------------------------------ generic list facts *)
Lemma filter_all_true : forall (A : Type) (p : A -> bool) (l : list A),
  Forall (fun x => p x = true) l -> filter p l = l.
Proof.
  intros A p l H. induction H as [|x l Hx Hl IH]; simpl.
  - reflexivity.
  - rewrite Hx, IH. reflexivity.
Qed.

Lemma filter_all_false : forall (A : Type) (p : A -> bool) (l : list A),
  Forall (fun x => p x = false) l -> filter p l = [].
Proof.
  intros A p l H. induction H as [|x l Hx Hl IH]; simpl.
  - reflexivity.
  - rewrite Hx, IH. reflexivity.
Qed.

Lemma Forall_filter_true : forall (A : Type) (p : A -> bool) (l : list A),
  Forall (fun x => p x = true) (filter p l).
Proof.
  intros A p l. apply Forall_forall. intros x Hx. apply filter_In in Hx. tauto.
Qed.

Lemma filter_partition_perm : forall (A : Type) (p q : A -> bool) (l : list A),
  (forall x, q x = negb (p x)) -> Permutation (filter p l ++ filter q l) l.
Proof.
  intros A p q l Hq. induction l as [|a l IH]; simpl.
  - constructor.
  - rewrite Hq. destruct (p a); simpl.
    + constructor. exact IH.
    + symmetry. apply Permutation_cons_app. symmetry. exact IH.
Qed.

Lemma filter_map_pres : forall (A : Type) (p : A -> bool) (f : A -> A) (l : list A),
  (forall x, p (f x) = p x) -> filter p (map f l) = map f (filter p l).
Proof.
  intros A p f l Hp. induction l as [|a l IH]; simpl.
  - reflexivity.
  - rewrite Hp. destruct (p a); simpl; rewrite IH; reflexivity.
Qed.

Lemma mem_str_In : forall k l, mem_str k l = true <-> In k l.
Proof.
  intros k l. induction l as [|x r IH]; simpl.
  - split; [discriminate | tauto].
  - rewrite orb_true_iff, eqs_eq, IH. split; intros [H|H]; auto.
Qed.

Lemma mem_str_notIn : forall k l, ~ In k l -> mem_str k l = false.
Proof.
  intros k l H. destruct (mem_str k l) eqn:E; [|reflexivity].
  apply mem_str_In in E. contradiction.
Qed.

(* ------------------------------------------------------------------ sort_first has no duplicates *)
Lemma sort_first_NoDup : forall cname, NoDup (sort_first cname).
Proof.
  intros cname. unfold sort_first.
  repeat match goal with |- context [if ?b then _ else _] => destruct b end;
    vm_compute; repeat constructor; cbn; intuition discriminate.
Qed.

(* ------------------------------------------------------------------ 1. permutations *)
Lemma insert_node_perm : forall x l, Permutation (insert_node x l) (x :: l).
Proof.
  intros x l. induction l as [|h t IH]; simpl.
  - reflexivity.
  - destruct (str_ltb (key_of h) (key_of x)).
    + rewrite IH. apply perm_swap.
    + reflexivity.
Qed.

Lemma sort_nodes_perm : forall l, Permutation (sort_nodes l) l.
Proof.
  intros l. induction l as [|a l IH].
  - constructor.
  - change (sort_nodes (a :: l)) with (insert_node a (sort_nodes l)).
    rewrite insert_node_perm. constructor. exact IH.
Qed.

(* with_key k' is insensitive to removing a different key k first *)
Lemma with_key_drop : forall k k' ch, k' <> k ->
  with_key k' (filter (fun x => negb (eqs (key_of x) k)) ch) = with_key k' ch.
Proof.
  intros k k' ch Hne. unfold with_key. induction ch as [|a ch IH]; simpl.
  - reflexivity.
  - destruct (eqs (key_of a) k) eqn:Ek; simpl.
    + apply eqs_eq in Ek. rewrite IH.
      destruct (eqs (key_of a) k') eqn:Ek'; [|reflexivity].
      apply eqs_eq in Ek'. congruence.
    + rewrite IH. reflexivity.
Qed.

Lemma without_keys_cons : forall k ks ch,
  without_keys (k :: ks) ch = without_keys ks (filter (fun x => negb (eqs (key_of x) k)) ch).
Proof.
  intros k ks ch. unfold without_keys. induction ch as [|a ch IH]; cbn [filter].
  - reflexivity.
  - change (mem_str (key_of a) (k :: ks)) with (eqs (key_of a) k || mem_str (key_of a) ks).
    destruct (eqs (key_of a) k); cbn [negb orb filter].
    + exact IH.
    + destruct (mem_str (key_of a) ks); cbn [negb]; rewrite IH; reflexivity.
Qed.

Lemma without_keys_nil : forall ch, without_keys [] ch = ch.
Proof.
  intros ch. unfold without_keys. apply filter_all_true.
  apply Forall_forall. intros x Hx. reflexivity.
Qed.

Lemma first_split_perm : forall ks ch, NoDup ks ->
  Permutation (concat (map (fun k => with_key k ch) ks) ++ without_keys ks ch) ch.
Proof.
  intros ks. induction ks as [|k ks IH]; intros ch Hnd.
  - simpl. rewrite without_keys_nil. reflexivity.
  - inversion Hnd as [|k0 ks0 Hnotin Hnd']; subst.
    simpl. rewrite without_keys_cons.
    set (ch' := filter (fun x => negb (eqs (key_of x) k)) ch).
    assert (Hseg : map (fun k0 => with_key k0 ch) ks = map (fun k0 => with_key k0 ch') ks).
    { apply map_ext_in. intros k' Hin. unfold ch'. symmetry. apply with_key_drop.
      intros Heq. subst k'. contradiction. }
    rewrite Hseg, <- app_assoc.
    rewrite (IH ch' Hnd'). unfold ch', with_key.
    apply filter_partition_perm. intros x. reflexivity.
Qed.

Lemma order_default_perm : forall cname ch, Permutation (order_default cname ch) ch.
Proof.
  intros cname ch. unfold order_default.
  rewrite sort_nodes_perm. apply first_split_perm. apply sort_first_NoDup.
Qed.

Lemma order_vcalendar_perm : forall ch, Permutation (order_vcalendar ch) ch.
Proof.
  intros ch. unfold order_vcalendar. rewrite !order_default_perm.
  apply (filter_partition_perm node (fun x => negb (is_comp x)) is_comp).
  intros x. rewrite negb_involutive. reflexivity.
Qed.

Lemma order_children_perm : forall cname ch, Permutation (order_children cname ch) ch.
Proof.
  intros cname ch. unfold order_children. destruct (eqs cname _).
  - apply order_vcalendar_perm.
  - apply order_default_perm.
Qed.

(* ------------------------------------------------------------------ 2. stability *)
Lemma with_key_insert : forall k x l,
  with_key k (insert_node x l) = if eqs (key_of x) k then x :: with_key k l else with_key k l.
Proof.
  intros k x l. unfold with_key. induction l as [|h t IH]; simpl.
  - destruct (eqs (key_of x) k); reflexivity.
  - destruct (str_ltb (key_of h) (key_of x)) eqn:Hlt; simpl.
    + rewrite IH. destruct (eqs (key_of x) k) eqn:Hx.
      * apply eqs_eq in Hx. subst k. rewrite (str_ltb_eqs _ _ Hlt). reflexivity.
      * reflexivity.
    + destruct (eqs (key_of x) k); reflexivity.
Qed.

Lemma sort_nodes_stable : forall l k, with_key k (sort_nodes l) = with_key k l.
Proof.
  intros l k. induction l as [|a l IH].
  - reflexivity.
  - change (sort_nodes (a :: l)) with (insert_node a (sort_nodes l)).
    rewrite with_key_insert, IH. unfold with_key. simpl.
    destruct (eqs (key_of a) k); reflexivity.
Qed.

Lemma with_key_app : forall k a b, with_key k (a ++ b) = with_key k a ++ with_key k b.
Proof. intros k a b. unfold with_key. apply filter_app. Qed.

Lemma with_key_with_key_same : forall k ch, with_key k (with_key k ch) = with_key k ch.
Proof.
  intros k ch. unfold with_key. apply filter_all_true. apply Forall_filter_true.
Qed.

Lemma with_key_with_key_other : forall k k' ch, k <> k' -> with_key k (with_key k' ch) = [].
Proof.
  intros k k' ch Hne. unfold with_key. apply filter_all_false.
  apply Forall_forall. intros x Hx. apply filter_In in Hx. destruct Hx as [_ Hx].
  apply eqs_eq in Hx. apply eqs_neq. congruence.
Qed.

Lemma with_key_concat : forall k ch ks, NoDup ks ->
  with_key k (concat (map (fun k' => with_key k' ch) ks)) = if mem_str k ks then with_key k ch else [].
Proof.
  intros k ch ks Hnd. induction Hnd as [|k' ks Hnotin Hnd IH]; simpl.
  - reflexivity.
  - rewrite with_key_app, IH. destruct (eqs k k') eqn:Ek; simpl.
    + apply eqs_eq in Ek. subst k'. rewrite with_key_with_key_same.
      rewrite (mem_str_notIn _ _ Hnotin). apply app_nil_r.
    + apply eqs_neq in Ek. rewrite (with_key_with_key_other _ _ _ Ek). reflexivity.
Qed.

Lemma with_key_without_keys : forall k ks ch,
  with_key k (without_keys ks ch) = if mem_str k ks then [] else with_key k ch.
Proof.
  intros k ks ch. unfold with_key, without_keys. induction ch as [|a ch IH]; simpl.
  - destruct (mem_str k ks); reflexivity.
  - destruct (eqs (key_of a) k) eqn:Ek.
    + apply eqs_eq in Ek. subst k. destruct (mem_str (key_of a) ks) eqn:Em; simpl.
      * exact IH.
      * rewrite eqs_refl, IH. reflexivity.
    + destruct (mem_str (key_of a) ks); simpl; [|rewrite Ek]; exact IH.
Qed.

Lemma order_default_stable : forall cname ch k, with_key k (order_default cname ch) = with_key k ch.
Proof.
  intros cname ch k. unfold order_default.
  rewrite with_key_app, sort_nodes_stable, with_key_without_keys.
  rewrite (with_key_concat k ch _ (sort_first_NoDup cname)).
  destruct (mem_str k (sort_first cname)).
  - apply app_nil_r.
  - reflexivity.
Qed.

(* ------------------------------------------------------------------ 3. sortedness and idempotence *)
Lemma str_nlt_trans : forall a b c,
  str_ltb b a = false -> str_ltb c b = false -> str_ltb c a = false.
Proof.
  intros a b c Hba Hcb. destruct (str_ltb c a) eqn:Hca; [|reflexivity].
  apply str_ltb_false_cases in Hba. apply str_ltb_false_cases in Hcb.
  destruct Hba as [Hba|Hba]; destruct Hcb as [Hcb|Hcb]; subst.
  - rewrite str_ltb_irrefl in Hca. discriminate.
  - apply str_ltb_asym in Hcb. congruence.
  - apply str_ltb_asym in Hba. congruence.
  - pose proof (str_ltb_trans _ _ _ Hba Hcb) as Hac. apply str_ltb_asym in Hac. congruence.
Qed.

Lemma sort_nodes_sorted_id : forall l,
  StronglySorted (fun a b => str_ltb (key_of b) (key_of a) = false) l -> sort_nodes l = l.
Proof.
  intros l H. induction H as [|a l Hs IH Hall].
  - reflexivity.
  - change (sort_nodes (a :: l)) with (insert_node a (sort_nodes l)). rewrite IH.
    destruct l as [|h t]; simpl.
    + reflexivity.
    + inversion Hall as [|h0 t0 Hh Ht]; subst. rewrite Hh. reflexivity.
Qed.

Lemma insert_node_sorted : forall x l,
  StronglySorted (fun a b => str_ltb (key_of b) (key_of a) = false) l ->
  StronglySorted (fun a b => str_ltb (key_of b) (key_of a) = false) (insert_node x l).
Proof.
  intros x l H. induction H as [|h t Hs IH Hall]; simpl.
  - constructor; constructor.
  - destruct (str_ltb (key_of h) (key_of x)) eqn:Hlt.
    + constructor.
      * exact IH.
      * apply (Permutation_Forall (x := x :: t)).
        { symmetry. apply insert_node_perm. }
        constructor; [|exact Hall]. apply str_ltb_asym. exact Hlt.
    + constructor.
      * constructor; assumption.
      * constructor; [exact Hlt|].
        eapply Forall_impl; [|exact Hall]. cbv beta. intros y Hy.
        apply (str_nlt_trans (key_of x) (key_of h) (key_of y)); assumption.
Qed.

Lemma sort_nodes_sorted : forall l,
  StronglySorted (fun a b => str_ltb (key_of b) (key_of a) = false) (sort_nodes l).
Proof.
  intros l. induction l as [|a l IH].
  - constructor.
  - change (sort_nodes (a :: l)) with (insert_node a (sort_nodes l)).
    apply insert_node_sorted. exact IH.
Qed.

Lemma sort_nodes_idem : forall l, sort_nodes (sort_nodes l) = sort_nodes l.
Proof. intros l. apply sort_nodes_sorted_id. apply sort_nodes_sorted. Qed.

Lemma order_default_idem : forall cname ch,
  order_default cname (order_default cname ch) = order_default cname ch.
Proof.
  intros cname ch.
  assert (Hseg : map (fun k => with_key k (order_default cname ch)) (sort_first cname)
                 = map (fun k => with_key k ch) (sort_first cname)).
  { apply map_ext. intros k. apply order_default_stable. }
  unfold order_default at 1. rewrite Hseg. unfold order_default.
  set (first := sort_first cname).
  set (A := concat (map (fun k => with_key k ch) first)).
  set (B := sort_nodes (without_keys first ch)).
  assert (HA : Forall (fun x => negb (mem_str (key_of x) first) = false) A).
  { apply Forall_forall. intros x Hx. unfold A in Hx. apply in_concat in Hx.
    destruct Hx as [seg [Hseg' Hx]]. apply in_map_iff in Hseg'.
    destruct Hseg' as [k [Hk Hin]]. subst seg. unfold with_key in Hx.
    apply filter_In in Hx. destruct Hx as [_ Hx]. apply eqs_eq in Hx. subst k.
    apply mem_str_In in Hin. rewrite Hin. reflexivity. }
  assert (HB : Forall (fun x => negb (mem_str (key_of x) first) = true) B).
  { unfold B. apply (Permutation_Forall (x := without_keys first ch)).
    - symmetry. apply sort_nodes_perm.
    - unfold without_keys. apply Forall_filter_true. }
  assert (HW : without_keys first (A ++ B) = B).
  { unfold without_keys. rewrite filter_app.
    rewrite (filter_all_false _ _ _ HA), (filter_all_true _ _ _ HB). reflexivity. }
  rewrite HW. unfold B. rewrite sort_nodes_idem. reflexivity.
Qed.

Lemma order_split_idem : forall c ch,
  order_default c (filter (fun x => negb (is_comp x))
     (order_default c (filter (fun x => negb (is_comp x)) ch) ++ order_default c (filter is_comp ch)))
  ++ order_default c (filter is_comp
     (order_default c (filter (fun x => negb (is_comp x)) ch) ++ order_default c (filter is_comp ch)))
  = order_default c (filter (fun x => negb (is_comp x)) ch) ++ order_default c (filter is_comp ch).
Proof.
  intros c ch.
  set (P := order_default c (filter (fun x => negb (is_comp x)) ch)).
  set (Q := order_default c (filter is_comp ch)).
  assert (HP : Forall (fun x => negb (is_comp x) = true) P).
  { unfold P. eapply Permutation_Forall.
    - symmetry. apply order_default_perm.
    - apply (Forall_filter_true node (fun x => negb (is_comp x))). }
  assert (HQ : Forall (fun x => is_comp x = true) Q).
  { unfold Q. eapply Permutation_Forall.
    - symmetry. apply order_default_perm.
    - apply Forall_filter_true. }
  assert (HP' : Forall (fun x => is_comp x = false) P).
  { eapply Forall_impl; [|exact HP]. cbv beta. intros x Hx. apply negb_true_iff in Hx. exact Hx. }
  assert (HQ' : Forall (fun x => negb (is_comp x) = false) Q).
  { eapply Forall_impl; [|exact HQ]. cbv beta. intros x Hx. rewrite Hx. reflexivity. }
  rewrite !filter_app.
  rewrite (filter_all_true node (fun x => negb (is_comp x)) P HP).
  rewrite (filter_all_false node (fun x => negb (is_comp x)) Q HQ').
  rewrite (filter_all_false node is_comp P HP').
  rewrite (filter_all_true node is_comp Q HQ).
  rewrite app_nil_r. simpl.
  unfold P, Q. rewrite !order_default_idem. reflexivity.
Qed.

Lemma order_vcalendar_idem : forall ch, order_vcalendar (order_vcalendar ch) = order_vcalendar ch.
Proof. intros ch. unfold order_vcalendar. apply order_split_idem. Qed.

Lemma order_children_idem : forall cname ch,
  order_children cname (order_children cname ch) = order_children cname ch.
Proof.
  intros cname ch. unfold order_children. destruct (eqs cname _).
  - apply order_vcalendar_idem.
  - apply order_default_idem.
Qed.

(* ------------------------------------------------------------------ ordering commutes with key-preserving maps *)
Section MapCommute.
  Variable f : node -> node.
  Hypothesis f_key : forall x, key_of (f x) = key_of x.
  Hypothesis f_comp : forall x, is_comp (f x) = is_comp x.

  Lemma with_key_map : forall k l, with_key k (map f l) = map f (with_key k l).
  Proof.
    intros k l. unfold with_key. apply filter_map_pres. intros x. rewrite f_key. reflexivity.
  Qed.

  Lemma without_keys_map : forall ks l, without_keys ks (map f l) = map f (without_keys ks l).
  Proof.
    intros ks l. unfold without_keys. apply filter_map_pres. intros x. rewrite f_key. reflexivity.
  Qed.

  Lemma insert_node_map : forall x l, insert_node (f x) (map f l) = map f (insert_node x l).
  Proof.
    intros x l. induction l as [|h t IH]; simpl.
    - reflexivity.
    - rewrite !f_key. destruct (str_ltb (key_of h) (key_of x)); simpl.
      + rewrite IH. reflexivity.
      + reflexivity.
  Qed.

  Lemma sort_nodes_map : forall l, sort_nodes (map f l) = map f (sort_nodes l).
  Proof.
    intros l. induction l as [|a l IH].
    - reflexivity.
    - change (sort_nodes (map f (a :: l))) with (insert_node (f a) (sort_nodes (map f l))).
      change (sort_nodes (a :: l)) with (insert_node a (sort_nodes l)).
      rewrite IH. apply insert_node_map.
  Qed.

  Lemma segments_map : forall ks l,
    concat (map (fun k => with_key k (map f l)) ks) = map f (concat (map (fun k => with_key k l) ks)).
  Proof.
    intros ks l. induction ks as [|k ks IH]; simpl.
    - reflexivity.
    - rewrite map_app, IH, with_key_map. reflexivity.
  Qed.

  Lemma order_default_map : forall cname l, order_default cname (map f l) = map f (order_default cname l).
  Proof.
    intros cname l. unfold order_default.
    rewrite map_app, segments_map, without_keys_map, sort_nodes_map. reflexivity.
  Qed.

  Lemma order_vcalendar_map : forall l, order_vcalendar (map f l) = map f (order_vcalendar l).
  Proof.
    intros l. unfold order_vcalendar.
    rewrite (filter_map_pres node (fun x => negb (is_comp x)) f l).
    2:{ intros x. rewrite f_comp. reflexivity. }
    rewrite (filter_map_pres node is_comp f l f_comp).
    rewrite map_app, !order_default_map. reflexivity.
  Qed.

  Lemma order_children_map : forall cname l, order_children cname (map f l) = map f (order_children cname l).
  Proof.
    intros cname l. unfold order_children. destruct (eqs cname _).
    - apply order_vcalendar_map.
    - apply order_default_map.
  Qed.
End MapCommute.

(* ------------------------------------------------------------------ canon_node *)
Fixpoint node_ind' (P : node -> Prop) (HL : forall l, P (L l))
    (HC : forall n ch, Forall P ch -> P (C n ch)) (x : node) : P x :=
  match x with
  | L l => HL l
  | C n ch => HC n ch ((fix go (l : list node) : Forall P l :=
                          match l with
                          | [] => Forall_nil P
                          | y :: r => Forall_cons y (node_ind' P HL HC y) (go r)
                          end) ch)
  end.

Lemma canon_node_key : forall x, key_of (canon_node x) = key_of x.
Proof. intros x. destruct x; reflexivity. Qed.

Lemma canon_node_is_comp : forall x, is_comp (canon_node x) = is_comp x.
Proof. intros x. destruct x; reflexivity. Qed.

Lemma canon_node_C : forall n ch, canon_node (C n ch) = C n (order_children n (map canon_node ch)).
Proof. reflexivity. Qed.

Theorem canon_node_idem : forall x, canon_node (canon_node x) = canon_node x.
Proof.
  intros x. induction x as [l|n ch IH] using node_ind'.
  - reflexivity.
  - rewrite !canon_node_C.
    rewrite <- (order_children_map canon_node canon_node_key canon_node_is_comp).
    assert (Hmm : map canon_node (map canon_node ch) = map canon_node ch).
    { rewrite map_map. apply map_ext_in. intros y Hy.
      rewrite Forall_forall in IH. apply IH. exact Hy. }
    rewrite Hmm, order_children_idem. reflexivity.
Qed.

Print Assumptions canon_node_idem.
Print Assumptions order_children_perm.
