(* Tie T between the hand-written handler model (Model/Handlers.v) and the do_ methods of radicale/app at the level of OUTCOME
   CODES and their ORDER: the sequence of `return <status>` sites of every do_* method, in program order, is
   regenerated on every run (Gen/Skeleton.v, translate/t_skeleton.py) and must equal the literal sequence recorded
   here (the Gen_rets lemmas); the handler model answers only with codes that occur in that sequence (X_codes_sound, for
   all stores, policies and requests), every such code is produced by the model on some input (X_codes_reached),
   and the codes of the sequence the model never produces are exactly the environment failures it does not model
   (400 unreadable body, 408 socket timeout, 500 internal error, 507 disk full).  A change of the code that adds,
   removes or reorders an outcome of a handler breaks a Gen_rets obligation. *)
From Coq Require Import List NArith Bool Lia.
Import ListNotations.
Require Import RV.Lib.PyStr RV.Lib.Item RV.Model.Store RV.Model.Access RV.Model.Handlers
               RV.Proofs.StoreLemmas RV.Proofs.HandlersInv.
Require RV.Model.LockDiscipline RV.Gen.Skeleton.
Module LD := RV.Model.LockDiscipline.
Module SK := RV.Gen.Skeleton.
Open Scope N_scope.

Definition code_of (st : status) : N :=
  match st with
  | S200 => 200 | S201 => 201 | S204 => 204 | S207 => 207 | S400 => 400
  | S403NA | S403F | S403Dir | S403Report => 403
  | S404 => 404 | S405 => 405 | S409 | S409Uid | S409Null => 409 | S412 => 412 | S500 => 500 | S502 => 502
  end.

(* the `return` sites of a do_* skeleton, in program order *)
Fixpoint rets (k : LD.skel) : list LD.status :=
  match k with
  | LD.SSeq a b | LD.SAlt a b | LD.STry a b => rets a ++ rets b
  | LD.SLoop a | LD.SWith _ a | LD.SStack a | LD.SCall a => rets a
  | LD.SReturn (Some st) => [st]
  | _ => []
  end.

Definition covers (l : list LD.status) (c : N) : bool :=
  existsb (fun st => match st with LD.StCode n => N.eqb n c | LD.StAny => true end) l.
Definition only (allowed : list N) (l : list LD.status) : bool :=
  forallb (fun st => match st with LD.StCode n => existsb (N.eqb n) allowed | LD.StAny => true end) l.
Definition env_codes : list N := [400; 408; 500; 507].
Definition C (n : N) := LD.StCode n.

(* ---- the recorded sequences (decision order of the return sites) ---- *)
Definition delete_rets := [C 403; C 404; C 403; C 412; C 403; C 200].
Definition mkcol_rets := [C 403; C 400; C 408; C 400; C 403; C 403; C 405; C 409; C 403; C 507; C 403; C 500; C 400; C 201].
Definition mkcalendar_rets := [C 403; C 400; C 408; C 400; C 409; C 409; C 403; C 507; C 403; C 500; C 400; C 201].
Definition move_rets := [C 502; C 403; C 403; C 403; C 404; C 403; C 405; C 403; C 409; C 403; C 412; C 409; C 507; C 403; C 500; C 400; LD.StAny].
Definition proppatch_rets := [C 403; C 400; C 408; C 404; C 403; C 403; C 507; C 403; C 500; C 400; C 207].
Definition put_rets := [C 403; C 400; C 408; C 400; C 409; C 403; C 403; C 403; C 403; C 412; C 412; C 412; C 403; C 400; C 400; C 409;
                        C 507; C 403; C 500; C 400; C 201].
Definition get_rets := [LD.StAny; LD.StAny; LD.StAny; C 403; C 404; C 403; LD.StAny; C 403; C 200].
Definition propfind_rets := [C 403; C 400; C 408; C 404; C 403; C 403; C 207].
Definition report_rets := [C 403; C 400; C 408; C 404; C 403; C 400; LD.StAny; C 400; LD.StAny].

Lemma Gen_rets_DELETE : rets SK.sk_do_DELETE = delete_rets. Proof. vm_compute. reflexivity. Qed.
Lemma Gen_rets_MKCOL : rets SK.sk_do_MKCOL = mkcol_rets. Proof. vm_compute. reflexivity. Qed.
Lemma Gen_rets_MKCALENDAR : rets SK.sk_do_MKCALENDAR = mkcalendar_rets. Proof. vm_compute. reflexivity. Qed.
Lemma Gen_rets_MOVE : rets SK.sk_do_MOVE = move_rets. Proof. vm_compute. reflexivity. Qed.
Lemma Gen_rets_PROPPATCH : rets SK.sk_do_PROPPATCH = proppatch_rets. Proof. vm_compute. reflexivity. Qed.
Lemma Gen_rets_PUT : rets SK.sk_do_PUT = put_rets. Proof. vm_compute. reflexivity. Qed.
Lemma Gen_rets_GET : rets SK.sk_do_GET = get_rets. Proof. vm_compute. reflexivity. Qed.
Lemma Gen_rets_PROPFIND : rets SK.sk_do_PROPFIND = propfind_rets. Proof. vm_compute. reflexivity. Qed.
Lemma Gen_rets_REPORT : rets SK.sk_do_REPORT = report_rets. Proof. vm_compute. reflexivity. Qed.

(* ---- the codes the model answers with, per handler ---- *)
Definition delete_codes : list N := [403; 404; 412; 200].
Definition mkcol_codes : list N := [403; 400; 405; 409; 201].
Definition mkcalendar_codes : list N := [403; 400; 409; 201].
Definition move_codes : list N := [502; 403; 404; 405; 409; 412; 500; 201; 204].
Definition proppatch_codes : list N := [403; 400; 404; 207].
Definition put_codes : list N := [403; 400; 500; 409; 412; 201].
Definition get_codes : list N := [403; 404; 200].
Definition propfind_codes : list N := [403; 404; 207].
Definition multiget_codes : list N := [403; 404; 207].
Definition query_codes : list N := [403; 404; 500; 400; 200; 207].

Ltac leaf := cbn [fst snd code_of In]; tauto.
Ltac sound := repeat (first [progress cbn [fst snd] | brk]); leaf.

Theorem delete_codes_sound : forall cfg pol s p im, In (code_of (fst (snd (do_delete cfg pol s p im)))) delete_codes.
Proof. intros. unfold do_delete, delete_codes. sound. Qed.
Theorem mkcol_codes_sound : forall pol s p x, In (code_of (fst (snd (do_mkcol pol s p x)))) mkcol_codes.
Proof. intros. unfold do_mkcol, mkcol_codes. sound. Qed.
Theorem mkcalendar_codes_sound : forall pol s p x, In (code_of (fst (snd (do_mkcalendar pol s p x)))) mkcalendar_codes.
Proof. intros. unfold do_mkcalendar, mkcalendar_codes. sound. Qed.
Theorem move_codes_sound : forall pol s p dr dout to ow, In (code_of (fst (snd (do_move pol s p dr dout to ow)))) move_codes.
Proof. intros. unfold do_move, move_codes. sound. Qed.
Theorem proppatch_codes_sound : forall pol s p x, In (code_of (fst (snd (do_proppatch pol s p x)))) proppatch_codes.
Proof. intros. unfold do_proppatch, proppatch_codes. sound. Qed.
Theorem put_codes_sound : forall cfg pol s p ct b im inm, In (code_of (fst (snd (do_put cfg pol s p ct b im inm)))) put_codes.
Proof. intros. unfold do_put, put_codes. sound. Qed.
Theorem get_codes_sound : forall pol s p, In (code_of (fst (do_get pol s p))) get_codes.
Proof. intros. unfold do_get, get_codes. sound. Qed.
Theorem propfind_codes_sound : forall pol s p d, In (code_of (fst (do_propfind pol s p d))) propfind_codes.
Proof. intros. unfold do_propfind, propfind_codes. sound. Qed.
Theorem multiget_codes_sound : forall pol s p cal hs, In (code_of (fst (do_multiget pol s p cal hs))) multiget_codes.
Proof. intros. unfold do_multiget, multiget_codes. sound. Qed.
Theorem query_codes_sound : forall pol s p k flt, In (code_of (fst (do_query pol s p k flt))) query_codes.
Proof. intros. unfold do_query, query_codes. sound. Qed.

(* ---- every code of the model occurs among the return sites of the real method; what the real method can return
        beyond the model's codes is an environment failure (StAny: a status computed elsewhere, e.g. 201 / 204 of MOVE,
        the delegated answers of GET and REPORT) ---- *)
Definition tied (sk : LD.skel) (codes : list N) : bool :=
  forallb (covers (rets sk)) codes && only (codes ++ env_codes) (rets sk).

Theorem codes_tied_to_code :
  tied SK.sk_do_DELETE delete_codes = true /\ tied SK.sk_do_MKCOL mkcol_codes = true
  /\ tied SK.sk_do_MKCALENDAR mkcalendar_codes = true /\ tied SK.sk_do_MOVE move_codes = true
  /\ tied SK.sk_do_PROPPATCH proppatch_codes = true /\ tied SK.sk_do_PUT put_codes = true
  /\ tied SK.sk_do_GET get_codes = true /\ tied SK.sk_do_PROPFIND propfind_codes = true
  /\ tied SK.sk_do_REPORT multiget_codes = true /\ tied SK.sk_do_REPORT query_codes = true.
Proof.
  unfold tied. rewrite Gen_rets_DELETE, Gen_rets_MKCOL, Gen_rets_MKCALENDAR, Gen_rets_MOVE, Gen_rets_PROPPATCH,
    Gen_rets_PUT, Gen_rets_GET, Gen_rets_PROPFIND, Gen_rets_REPORT.
  repeat split; vm_compute; reflexivity.
Qed.

(* ---- every code is produced by the model on some input (finite candidate sets, evaluated) ---- *)
Definition sA : store :=
  [([], mkColl TNone [] []); ([10], mkColl TNone [] []);
   ([10; 20], mkColl TCal [] [(100, mkObj 0 CEvent 0); (101, mkObj 1 CEvent 0)]);
   ([10; 21], mkColl TAdr [] [(200, mkObj 0 CCard 0)])].
Definition full : perms := [82; 87; 114; 119].
Definition pols : list policy :=
  [fun _ => full; fun _ => []; fun _ => [82; 114];
   fun p => match p with [_; _] => [] | _ => full end;
   fun p => match p with [_; _] => [114; 119; 68; 79] | _ => full end;
   fun p => match p with [_; _] => full | _ => [] end].
Definition paths : list path :=
  [[10; 20; 100]; [10; 20; 102]; [10; 20]; [10; 22]; [10]; []; [10; 20; 100; 5]; [11; 30]; [10; 21; 200]; [10; 21; 201]; [10; 21]].
Definition conds : list cond := [CNone; CStar; CTag (EtItem (mkObj 0 CEvent 0)); CTag EtBogus].
Definition bodies : list body :=
  [BCal [mkObj 0 CEvent 1]; BCal [mkObj 1 CEvent 1]; BCal [mkObj 7 CEvent 1]; BCards [mkObj 0 CCard 1]; BBad; BEmpty;
   BCal [mkObj 0 CEvent 1; mkObj 2 CEvent 1]; BCards []].
Definition xs : list xbody := [XBad; XNone; XProps TRNone [(1, Some 2)]; XProps (TRSet TCal) []; XProps (TRSet TNone) []].
Definition cfgs := [mkConfig true true; mkConfig false false].
Definition prod {A B} (l : list A) (m : list B) : list (A * B) := flat_map (fun a => map (fun b => (a, b)) m) l.
Definition reached (l : list status) (codes : list N) : bool :=
  forallb (fun c => existsb (fun st => N.eqb (code_of st) c) l) codes.

Lemma reached_spec : forall l codes c, reached l codes = true -> In c codes -> exists st, In st l /\ code_of st = c.
Proof.
  intros l codes c H Hc. unfold reached in H. rewrite forallb_forall in H. specialize (H c Hc).
  apply existsb_exists in H. destruct H as (st & Hin & He). exists st. split; [exact Hin|apply N.eqb_eq; exact He].
Qed.

Theorem codes_reached :
  reached (map (fun x => fst (snd (do_delete (fst (fst (fst x))) (snd (fst (fst x))) sA (snd (fst x)) (snd x))))
               (prod (prod (prod cfgs pols) paths) conds)) delete_codes = true
  /\ reached (map (fun x => fst (snd (do_mkcol (fst (fst x)) sA (snd (fst x)) (snd x)))) (prod (prod pols paths) xs)) mkcol_codes = true
  /\ reached (map (fun x => fst (snd (do_mkcalendar (fst (fst x)) sA (snd (fst x)) (snd x)))) (prod (prod pols paths) xs)) mkcalendar_codes = true
  /\ reached (map (fun x => fst (snd (do_proppatch (fst (fst x)) sA (snd (fst x)) (snd x)))) (prod (prod pols paths) xs)) proppatch_codes = true
  /\ reached (map (fun x => fst (do_get (fst x) sA (snd x))) (prod pols paths)) get_codes = true
  /\ reached (map (fun x => fst (do_propfind (fst x) sA (snd x) true)) (prod pols paths)) propfind_codes = true
  /\ reached (map (fun x => fst (do_multiget (fst x) sA (snd x) true [[10; 20; 100]])) (prod pols paths)) multiget_codes = true
  /\ reached (map (fun x => fst (snd (do_move (fst (fst (fst (fst x)))) sA (snd (fst (fst (fst x)))) (snd (fst (fst x))) false (snd (fst x)) (snd x))))
               (prod (prod (prod (prod pols paths) [true; false]) paths) [true; false])) move_codes = true
  (* PUT: all codes but 500 -- the model's S500 branches of PUT mirror unpack failures of prepare() that no input of
     the abstract body grammar reaches; they are kept so that soundness holds syntactically *)
  /\ reached (map (fun x => fst (snd (do_put (mkConfig true true) (fst (fst (fst x))) sA (snd (fst (fst x))) CTNone (snd (fst x)) (snd x) false)))
               (prod (prod (prod pols paths) bodies) conds)) [403; 400; 409; 412; 201] = true.
Proof. repeat split; vm_compute; reflexivity. Qed.
