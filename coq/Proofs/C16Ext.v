(* C16 extension -- RDATE and rescheduled instances (RECURRENCE-ID) of a VEVENT: the visitor of Model/FilterExt.v
   hands out exactly the instance set, find_time_range is its hull, time_range_match is the 9.9 overlap of some instance. *)
From Coq Require Import ZArith List Bool Lia ZifyBool.
Import ListNotations.
Require Import RV.Model.Rfc4791 RV.Model.Filter RV.Model.FilterExt RV.Model.Rfc4791Ext.
Require Import RV.Proofs.C16Xt RV.Proofs.C16Loop RV.Proofs.C16Rows RV.Proofs.C16Tables RV.Proofs.C16Hull.
Open Scope Z_scope.

(* ------------------------------------------------------------------ sort_dedup *)
Fixpoint ssorted (l : list Z) : Prop :=
  match l with [] => True | x :: r => (forall y, In y r -> x < y) /\ ssorted r end.

Lemma In_insert : forall x l z, In z (insert x l) <-> z = x \/ In z l.
Proof.
  induction l as [|y r IH]; intros z; cbn [insert].
  - cbn. intuition.
  - destruct (x <? y) eqn:H1; [cbn; intuition|].
    destruct (x =? y) eqn:H2.
    + apply Z.eqb_eq in H2. subst. cbn. intuition.
    + cbn [In]. rewrite IH. intuition.
Qed.

Lemma insert_sorted : forall x l, ssorted l -> ssorted (insert x l).
Proof.
  induction l as [|y r IH]; intros H; cbn [insert].
  - cbn. intuition.
  - destruct H as [Hy Hr]. destruct (x <? y) eqn:H1.
    + cbn [ssorted]. split; [|split; assumption]. intros z [<-|Hz]; [lia|]. specialize (Hy z Hz). lia.
    + destruct (x =? y) eqn:H2; [split; assumption|].
      cbn [ssorted]. split; [|apply IH; exact Hr].
      intros z Hz. apply In_insert in Hz as [->|Hz]; [lia|apply Hy; exact Hz].
Qed.

Lemma In_sort_dedup : forall l z, In z (sort_dedup l) <-> In z l.
Proof.
  induction l as [|x r IH]; intros z; cbn [sort_dedup fold_right]; [tauto|].
  rewrite In_insert. fold (sort_dedup r). rewrite IH. cbn. intuition.
Qed.

Lemma sort_dedup_sorted : forall l, ssorted (sort_dedup l).
Proof. induction l as [|x r IH]; cbn [sort_dedup fold_right]; [exact I|]. apply insert_sorted. exact IH. Qed.

(* ------------------------------------------------------------------ the merged iteration *)
Definition wf_orule (rule : option rrule) : Prop := match rule with Some rr => wf_rrule rr | None => True end.

Section Stream.
  Variables (s0 : Z) (rule : option rrule).
  Hypothesis Hrule : wf_orule rule.

  (* dates of the rule from candidate index k on *)
  Definition rule_mem (k d : Z) : Prop := exists k', k <= k' /\ rule_cand s0 rule k' = Some d.
  Definition smem (st : xstate) (d : Z) : Prop := rule_mem (fst st) d \/ In d (snd st).
  Definition sinv (st : xstate) : Prop := 0 <= fst st /\ ssorted (snd st).

  Lemma period_pos : forall rr, rule = Some rr -> 0 < r_period rr.
  Proof.
    intros rr E. unfold wf_orule in Hrule. rewrite E in Hrule. unfold wf_rrule in Hrule. unfold r_period.
    destruct (r_freq rr); lia.
  Qed.

  Lemma rule_cand_down : forall k k' d', 0 <= k -> k <= k' -> rule_cand s0 rule k' = Some d' ->
      exists d, rule_cand s0 rule k = Some d /\ d <= d' /\ (k < k' -> d < d').
  Proof.
    intros k k' d' H0 Hle H. pose proof period_pos as PP. unfold rule_cand in *. destruct rule as [rr|] eqn:E; [|discriminate].
    pose proof (PP rr eq_refl) as Hp.
    destruct (in_bound (r_bound rr) s0 (r_period rr) k') eqn:Hb; [|discriminate]. inversion H; subst d'.
    assert (Hk : in_bound (r_bound rr) s0 (r_period rr) k = true).
    { unfold in_bound in *. destruct (r_bound rr); [lia| |reflexivity]. apply Z.leb_le. apply Z.leb_le in Hb. nia. }
    rewrite Hk. eexists. split; [reflexivity|]. split; nia.
  Qed.

  Lemma RM1 : forall k, 0 <= k -> rule_cand s0 rule k = None -> forall d, ~ rule_mem k d.
  Proof.
    intros k H0 Hn d (k' & Hle & Hc). destruct (rule_cand_down k k' d H0 Hle Hc) as (x & Hx & _). congruence.
  Qed.

  Lemma RM2 : forall k dr, 0 <= k -> rule_cand s0 rule k = Some dr ->
      forall d, rule_mem k d <-> d = dr \/ rule_mem (k + 1) d.
  Proof.
    intros k dr H0 Hc d. split.
    - intros (k' & Hle & Hk'). destruct (Z.eq_dec k k') as [<-|Hne].
      + left. congruence.
      + right. exists k'. split; [lia|exact Hk'].
    - intros [->|(k' & Hle & Hk')]; [exists k; split; [lia|exact Hc]|exists k'; split; [lia|exact Hk']].
  Qed.

  Lemma RM3 : forall k dr, 0 <= k -> rule_cand s0 rule k = Some dr -> forall d, rule_mem (k + 1) d -> dr < d.
  Proof.
    intros k dr H0 Hc d (k' & Hle & Hk'). destruct (rule_cand_down k k' d H0 ltac:(lia) Hk') as (x & Hx & _ & Hlt).
    rewrite Hc in Hx. inversion Hx; subst. apply Hlt. lia.
  Qed.

  Lemma RM4 : forall k dr, 0 <= k -> rule_cand s0 rule k = Some dr -> forall d, rule_mem k d -> dr <= d.
  Proof.
    intros k dr H0 Hc d H. apply (RM2 k dr H0 Hc) in H as [->|H]; [lia|]. pose proof (RM3 k dr H0 Hc d H). lia.
  Qed.

  Lemma step_none : forall st, sinv st -> xnext s0 rule st = None -> forall d, ~ smem st d.
  Proof.
    intros [k xs] [H0 Hs] H d. cbn [fst snd] in *. unfold xnext in H.
    destruct (rule_cand s0 rule k) as [dr|] eqn:Hc; destruct xs as [|x xs']; try discriminate.
    - destruct (x <? dr); [discriminate|]. destruct (x =? dr); discriminate.
    - intros [Hm|[]]. exact (RM1 k H0 Hc d Hm).
  Qed.

  Lemma step_some : forall st d0 st', sinv st -> xnext s0 rule st = Some (d0, st') ->
      sinv st' /\ (forall d, smem st d <-> d = d0 \/ smem st' d) /\ (forall d, smem st' d -> d0 < d).
  Proof.
    intros [k xs] d0 [k1 xs1] [H0 Hs] H. cbn [fst snd] in *. unfold xnext in H. unfold smem, sinv. cbn [fst snd].
    destruct (rule_cand s0 rule k) as [dr|] eqn:Hc; destruct xs as [|x xs'].
    - inversion H; subst. split; [split; [lia|exact I]|]. split.
      + intros d. rewrite (RM2 k d0 H0 Hc d). cbn. tauto.
      + intros d [Hm|[]]. exact (RM3 k d0 H0 Hc d Hm).
    - destruct Hs as [Hx Hs']. destruct (x <? dr) eqn:H1; [|destruct (x =? dr) eqn:H2]; inversion H; subst.
      + split; [split; assumption|]. split.
        * intros d. cbn [In]. intuition.
        * intros d [Hm|Hi]; [pose proof (RM4 k1 dr H0 Hc d Hm); lia|apply Hx; exact Hi].
      + apply Z.eqb_eq in H2. subst x. split; [split; [lia|assumption]|]. split.
        * intros d. rewrite (RM2 k d0 H0 Hc d). cbn [In]. intuition.
        * intros d [Hm|Hi]; [exact (RM3 k d0 H0 Hc d Hm)|apply Hx; exact Hi].
      + split; [split; [lia|split; assumption]|]. split.
        * intros d. rewrite (RM2 k d0 H0 Hc d). tauto.
        * intros d [Hm|[<-|Hi]]; [exact (RM3 k d0 H0 Hc d Hm)|lia|specialize (Hx d Hi); lia].
    - discriminate.
    - inversion H; subst. destruct Hs as [Hx Hs']. split; [split; assumption|]. split.
      + intros d. cbn [In]. split.
        * intros [Hm|[<-|Hi]]; [destruct (RM1 k1 H0 Hc d Hm)|left; reflexivity|right; right; exact Hi].
        * intros [->|[Hm|Hi]]; [right; left; reflexivity|left; exact Hm|right; right; exact Hi].
      + intros d [Hm|Hi]; [destruct (RM1 k1 H0 Hc d Hm)|apply Hx; exact Hi].
  Qed.
End Stream.

(* ------------------------------------------------------------------ small facts *)
Lemma mem_In : forall x l, mem x l = true <-> In x l.
Proof.
  intros x l. unfold mem. rewrite existsb_exists. split.
  - intros (y & Hy & He). apply Z.eqb_eq in He. subst. exact Hy.
  - intros H. exists x. split; [exact H|apply Z.eqb_refl].
Qed.

Lemma run_calls_single : forall {St} (f : call -> St -> St * bool) c st, run_calls f [c] st = f c st.
Proof. intros St f c st. cbn. destruct (f c st) as [a []]; reflexivity. Qed.

Lemma xmaster_block : forall o, wf_vevent (xe_master o) ->
    0 < xlen o /\ forall rec d, vevent_calls (xe_master o) rec d = [fcall d (d + xlen o) rec].
Proof.
  intros o [_ Hend]. unfold xlen, vevent_calls, xe_master in *. cbn [ev_end ev_start ev_kind] in *.
  destruct (xe_end o) as [t|d|].
  - split; [lia|reflexivity].
  - destruct (0 <? d) eqn:Hd; (split; [lia|reflexivity]).
  - split; [lia|reflexivity].
Qed.

Lemma over_calls_eq : forall v, over_calls v = [fcall (ov_start v) (ov_end v) true].
Proof.
  intros v. unfold over_calls, vevent_calls, over_ev. cbn [ev_end ev_start].
  replace (ov_start v + (ov_end v - ov_start v)) with (ov_end v) by lia. reflexivity.
Qed.

Definition over_call (v : xover) : call := fcall (ov_start v) (ov_end v) true.

Lemma over_block : forall l, flat_map over_calls l = map over_call l.
Proof. induction l as [|v r IH]; [reflexivity|]. cbn [flat_map map]. rewrite over_calls_eq, IH. reflexivity. Qed.

(* ------------------------------------------------------------------ the loop over the master's recurrence set *)
Section MasterLoop.
  Variable o : xevent.
  Hypothesis Hwf : wf_vevent (xe_master o).
  Hypothesis Hrule : wf_orule (xe_rule o).
  Let s0 := xe_start o.
  Let rule := xe_rule o.
  Let mcall (d : Z) : call := fcall d (d + xlen o) false.

  (* ranges of the master still to come from state st *)
  Definition mseen (st : xstate) (c : call) : Prop :=
    exists d, smem s0 rule st d /\ xskip o d = false /\ c = fcall d (d + xlen o) false.

  Lemma mseen_none : forall st, sinv st -> xnext s0 rule st = None -> forall c, ~ mseen st c.
  Proof. intros st Hi Hn c (d & Hd & _). exact (step_none s0 rule Hrule st Hi Hn d Hd). Qed.

  Lemma mseen_step : forall st st' d0, (forall d, smem s0 rule st d <-> d = d0 \/ smem s0 rule st' d) ->
      forall c, mseen st c <-> (xskip o d0 = false /\ c = fcall d0 (d0 + xlen o) false) \/ mseen st' c.
  Proof.
    intros st st' d0 Hiff c. split.
    - intros (d & Hd & Hs & Hc). apply Hiff in Hd as [->|Hd]; [left; split; assumption|right; exists d; repeat split; assumption].
    - intros [[Hs Hc]|(d & Hd & Hs & Hc)].
      + exists d0. repeat split; try assumption. apply Hiff. left. reflexivity.
      + exists d. repeat split; try assumption. apply Hiff. right. exact Hd.
  Qed.

  (* (a) a recording visitor that never cancels *)
  Lemma L_rec : forall fuel st l0 l stop, sinv st ->
      xvisit_set rec_all fuel o st l0 = Some (l, stop) ->
      stop = false /\ exists calls, l = l0 ++ calls /\ forall c, In c calls <-> mseen st c.
  Proof.
    induction fuel as [|f IH]; intros st l0 l stop Hi H; cbn [xvisit_set] in H; [discriminate|].
    fold s0 rule in H. destruct (xnext s0 rule st) as [[d0 st']|] eqn:Hn.
    - destruct (step_some s0 rule Hrule st d0 st' Hi Hn) as (Hi' & Hiff & _).
      pose proof (mseen_step st st' d0 Hiff) as Hms.
      destruct (xskip o d0) eqn:Hs.
      + destruct (IH st' l0 l stop Hi' H) as (-> & calls & -> & Hc). split; [reflexivity|]. exists calls. split; [reflexivity|].
        intros c. rewrite Hc, Hms. intuition congruence.
      + destruct (xmaster_block o Hwf) as [_ Hb]. rewrite Hb, run_calls_single in H. unfold rec_all at 1 in H.
        destruct (IH st' _ l stop Hi' H) as (-> & calls & -> & Hc). split; [reflexivity|].
        exists (fcall d0 (d0 + xlen o) false :: calls). split; [rewrite <- app_assoc; reflexivity|].
        intros c. rewrite Hms. cbn [In]. rewrite Hc. intuition congruence.
    - inversion H; subst. split; [reflexivity|]. exists []. split; [rewrite app_nil_r; reflexivity|].
      intros c. split; [intros []|intros Hc; exact (mseen_none st Hi Hn c Hc)].
  Qed.

  (* (c) time_range_match's range_fn: the early stop loses nothing *)
  Lemma L_match : forall s e fuel st m m' stop, sinv st ->
      xvisit_set (match_fn s e) fuel o st m = Some (m', stop) ->
      (m' = true <-> m = true \/ exists c, mseen st c /\ overlap s e c = true).
  Proof.
    intros s e. induction fuel as [|f IH]; intros st m m' stop Hi H; cbn [xvisit_set] in H; [discriminate|].
    fold s0 rule in H. destruct (xnext s0 rule st) as [[d0 st']|] eqn:Hn.
    - destruct (step_some s0 rule Hrule st d0 st' Hi Hn) as (Hi' & Hiff & Hasc).
      pose proof (mseen_step st st' d0 Hiff) as Hms.
      destruct (xskip o d0) eqn:Hs.
      + rewrite (IH st' m m' stop Hi' H). split; (intros [Hm|(c & Hc & Ho)]; [left; exact Hm|right; exists c; split; [|exact Ho]]).
        * apply Hms. right. exact Hc.
        * apply Hms in Hc as [[Hc _]|Hc]; [discriminate|exact Hc].
      + destruct (xmaster_block o Hwf) as [Hlen Hb]. rewrite Hb, run_calls_single in H. unfold match_fn at 1 in H.
        destruct (overlap s e (fcall d0 (d0 + xlen o) false)) eqn:Hov.
        * inversion H; subst. split; [|reflexivity]. intros _. right. eexists. split; [|exact Hov]. apply Hms. left. split; reflexivity.
        * cbn [c_s c_rec fcall negb] in H. rewrite andb_true_r in H. destruct (xlt e (Fin d0)) eqn:He.
          -- inversion H; subst. split; [left; assumption|]. intros [Hm|(c & Hc & Ho)]; [exact Hm|exfalso].
             apply Hms in Hc as [[_ ->]|(d & Hd & _ & ->)]; [congruence|].
             specialize (Hasc d Hd). unfold overlap, fcall in Ho. cbn [c_s c_e] in Ho.
             apply andb_true_iff in Ho as [_ Ho]. destruct e; cbn in *; try discriminate; lia.
          -- rewrite (IH st' m m' stop Hi' H). split; (intros [Hm|(c & Hc & Ho)]; [left; exact Hm|right; exists c; split; [|exact Ho]]).
             ++ apply Hms. right. exact Hc.
             ++ apply Hms in Hc as [[_ ->]|Hc]; [congruence|exact Hc].
    - inversion H; subst. split; [left; assumption|]. intros [Hm|(c & Hc & _)]; [exact Hm|destruct (mseen_none st Hi Hn c Hc)].
  Qed.

  (* (b) find_time_range's range_fn *)
  Lemma L_hull : forall fuel st h h' stop (Seen : call -> Prop), sinv st -> hinv h Seen ->
      xvisit_set hull_fn fuel o st h = Some (h', stop) ->
      stop = false /\ hinv h' (fun c => Seen c \/ mseen st c).
  Proof.
    induction fuel as [|f IH]; intros st h h' stop Seen Hi Hh H; cbn [xvisit_set] in H; [discriminate|].
    fold s0 rule in H. destruct (xnext s0 rule st) as [[d0 st']|] eqn:Hn.
    - destruct (step_some s0 rule Hrule st d0 st' Hi Hn) as (Hi' & Hiff & _).
      pose proof (mseen_step st st' d0 Hiff) as Hms.
      destruct (xskip o d0) eqn:Hs.
      + destruct (IH st' h h' stop Seen Hi' Hh H) as [-> Hh']. split; [reflexivity|].
        eapply hinv_ext; [|exact Hh']. intros c. cbn beta. rewrite Hms. intuition congruence.
      + destruct (xmaster_block o Hwf) as [_ Hb]. rewrite Hb, run_calls_single, hull_fn_eq in H.
        destruct (IH st' _ h' stop _ Hi' (hinv_add h Seen _ Hh) H) as [-> Hh']. split; [reflexivity|].
        eapply hinv_ext; [|exact Hh']. intros c. cbn beta. rewrite Hms. intuition congruence.
    - inversion H; subst. split; [reflexivity|]. eapply hinv_ext; [|exact Hh]. intros c. cbn beta.
      split; [tauto|intros [Hc|Hc]; [exact Hc|destruct (mseen_none st Hi Hn c Hc)]].
  Qed.

  (* getrruleset's infinite branch: the first date not in `ignore` *)
  Lemma L_first : forall fuel st r, sinv st -> xfirst fuel o st = Some r ->
      match r with
      | Some d => mseen st (fcall d (d + xlen o) false) /\ forall c, mseen st c -> xle (Fin d) (c_s c) = true
      | None => forall c, ~ mseen st c
      end.
  Proof.
    induction fuel as [|f IH]; intros st r Hi H; cbn [xfirst] in H; [discriminate|].
    fold s0 rule in H. destruct (xnext s0 rule st) as [[d0 st']|] eqn:Hn.
    - destruct (step_some s0 rule Hrule st d0 st' Hi Hn) as (Hi' & Hiff & Hasc).
      pose proof (mseen_step st st' d0 Hiff) as Hms.
      destruct (xskip o d0) eqn:Hs.
      + specialize (IH st' r Hi' H). destruct r as [d|].
        * destruct IH as [H1 H2]. split; [apply Hms; right; exact H1|].
          intros c Hc. apply Hms in Hc as [[Hc _]|Hc]; [discriminate|apply H2; exact Hc].
        * intros c Hc. apply Hms in Hc as [[Hc _]|Hc]; [discriminate|exact (IH c Hc)].
      + inversion H; subst. split; [apply Hms; left; split; reflexivity|].
        intros c Hc. apply Hms in Hc as [[_ ->]|(d & Hd & _ & ->)]; unfold xle, fcall; cbn; [lia|].
        specialize (Hasc d Hd). lia.
    - inversion H; subst. intros c Hc. exact (mseen_none st Hi Hn c Hc).
  Qed.
End MasterLoop.

(* ------------------------------------------------------------------ the model's set = the specification's set *)
Lemma xskip_false : forall o d, xskip o d = false <-> ~ In d (xe_ex o) /\ ~ In d (xe_rids o).
Proof.
  intros o d. unfold xskip. rewrite orb_false_iff. rewrite <- !not_true_iff_false, !mem_In. tauto.
Qed.

Lemma rule_mem0 : forall o d, rule_mem (xe_start o) (xe_rule o) 0 d <-> xrule_inst o d.
Proof.
  intros o d. unfold rule_mem, xrule_inst, rule_cand. destruct (xe_rule o) as [rr|].
  - split.
    + intros (k & Hk & H). destruct (in_bound (r_bound rr) (xe_start o) (r_period rr) k) eqn:Hb; [|discriminate].
      inversion H. exists k. repeat split; [lia|exact Hb].
    + intros (k & Hk & Hb & ->). exists k. split; [lia|]. rewrite Hb. reflexivity.
  - split; [intros (k & _ & H); discriminate|intros []].
Qed.

Lemma extras_In : forall o d, In d (xe_extras o) <-> xe_rdate o <> [] /\ (d = xe_start o \/ In d (xe_rdate o)).
Proof.
  intros o d. unfold xe_extras. destruct (xe_rdate o) as [|x r].
  - cbn. split; [intros []|intros [H _]; apply H; reflexivity].
  - rewrite In_sort_dedup. cbn [In]. split; [intros H; split; [discriminate|]|intros [_ H]]; intuition.
Qed.

Lemma wf_x_orule : forall o, wf_xevent o -> wf_orule (xe_rule o).
Proof. intros o (_ & H & _). unfold wf_orule. destruct (xe_rule o); [apply H|exact I]. Qed.

Lemma sinv_init : forall o, sinv (0, xe_extras o).
Proof.
  intros o. split; cbn [fst snd]; [lia|]. unfold xe_extras. destruct (xe_rdate o); [exact I|apply sort_dedup_sorted].
Qed.

Lemma bridge_set : forall o, wf_xevent o -> xe_has_set o = true ->
    forall c, mseen o (0, xe_extras o) c <-> exists D, xmaster_inst o D /\ c = fcall D (D + xlen o) false.
Proof.
  intros o (_ & Hr & _) Hset c. unfold mseen, smem, xmaster_inst. cbn [fst snd].
  split; intros (d & H1 & H2); exists d.
  - destruct H2 as [H2 ->]. apply xskip_false in H2. split; [|reflexivity]. split; [|exact H2].
    destruct H1 as [H1|H1]; [left; apply rule_mem0; exact H1|]. apply extras_In in H1 as [_ [->|H1]]; tauto.
  - destruct H1 as (H1 & H3). split; [|split; [apply xskip_false; exact H3|exact H2]].
    rewrite rule_mem0, extras_In. destruct H1 as [H1|[H1|H1]]; [left; exact H1| |].
    + right. split; [intros E; rewrite E in H1; destruct H1|right; exact H1].
    + destruct (xe_rdate o) as [|x r] eqn:Erd; [|right; split; [discriminate|left; exact H1]].
      left. unfold xrule_inst. unfold xe_has_set in Hset. rewrite Erd in Hset.
      destruct (xe_rule o) as [rr|].
      * exists 0. destruct Hr as [_ Hb]. split; [lia|split; [exact Hb|lia]].
      * destruct (Hr eq_refl) as [Hex _]. rewrite Hex in Hset. discriminate.
Qed.

Lemma bridge_one : forall o, wf_xevent o -> xe_has_set o = false -> forall D, xmaster_inst o D <-> D = xe_start o.
Proof.
  intros o (_ & Hr & _) Hset D. unfold xe_has_set in Hset. unfold xmaster_inst, xrule_inst.
  destruct (xe_rule o) as [rr|]; [discriminate|]. destruct (xe_rdate o) as [|x r]; [|discriminate].
  destruct (xe_ex o) as [|y q] eqn:Eex; [|discriminate]. destruct (Hr eq_refl) as [_ Hnr].
  cbn [In]. split; [intros [[[]|[[]|H]] _]; exact H|intros ->; split; [right; right; reflexivity|split; [intros []|exact Hnr]]].
Qed.

(* ------------------------------------------------------------------ the override components *)
Definition oseen (o : xevent) (c : call) : Prop := exists v, In v (xe_over o) /\ c = over_call v.

Lemma oseen_map : forall o c, In c (map over_call (xe_over o)) <-> oseen o c.
Proof.
  intros o c. rewrite in_map_iff. unfold oseen. split; intros (v & H1 & H2); exists v; [split; [exact H2|symmetry; exact H1]|split; [symmetry; exact H2|exact H1]].
Qed.

Lemma run_rec_all : forall l st, run_calls rec_all l st = (st ++ l, false).
Proof.
  induction l as [|c r IH]; intros st; cbn [run_calls]; [rewrite app_nil_r; reflexivity|].
  unfold rec_all at 1. rewrite IH, <- app_assoc. reflexivity.
Qed.

Lemma run_match_over : forall s e l m m' stop,
    run_calls (match_fn s e) (map over_call l) m = (m', stop) ->
    (m' = true <-> m = true \/ exists v, In v l /\ overlap s e (over_call v) = true) /\ (stop = true -> m' = true).
Proof.
  intros s e. induction l as [|v r IH]; intros m m' stop H; cbn [map run_calls] in H.
  - inversion H; subst. split; [|discriminate]. split; [left; assumption|intros [Hm|(v & [] & _)]; exact Hm].
  - unfold match_fn at 1 in H. destruct (overlap s e (over_call v)) eqn:Hov.
    + inversion H; subst. split; [|reflexivity]. split; [|reflexivity]. intros _. right. exists v. split; [left; reflexivity|exact Hov].
    + cbn [over_call fcall c_rec negb] in H. rewrite andb_false_r in H.
      destruct (IH m m' stop H) as [H1 H2]. split; [|exact H2]. rewrite H1. cbn [In].
      split; (intros [Hm|(w & Hw & Ho)]; [left; exact Hm|right]).
      * exists w. split; [right; exact Hw|exact Ho].
      * destruct Hw as [<-|Hw]; [congruence|]. exists w. split; assumption.
Qed.

(* without infinity_fn the master is the plain loop *)
Lemma master_noinf : forall {St} (f : call -> St -> St * bool) fuel o st r,
    xe_has_set o = true -> xvisit_master f no_infinity fuel o st = Some r ->
    xvisit_set f fuel o (0, xe_extras o) st = Some r.
Proof.
  intros St f fuel o st r Hset H. unfold xvisit_master in H. rewrite Hset in H.
  destruct (xe_infinite o); [|exact H]. destruct (xfirst fuel o (0, xe_extras o)) as [[d0|]|]; [|exact H|discriminate].
  unfold no_infinity in H. exact H.
Qed.

Lemma xvisited_split : forall o, wf_xevent o -> forall c,
    xvisited o c <-> oseen o c \/
      (if xe_has_set o then mseen o (0, xe_extras o) c else c = fcall (xe_start o) (xe_start o + xlen o) false).
Proof.
  intros o Hwf c. unfold xvisited, oseen, over_call. destruct (xe_has_set o) eqn:Hset.
  - rewrite (bridge_set o Hwf Hset c). tauto.
  - split.
    + intros [(D & HD & ->)|H]; [right|left; exact H]. apply (bridge_one o Hwf Hset) in HD. subst. reflexivity.
    + intros [H|H]; [right; exact H|left]. exists (xe_start o). split; [apply (bridge_one o Hwf Hset); reflexivity|exact H].
Qed.

(* ================================================================== (a) the visitor hands out exactly the instances *)
Theorem ext_visit_exact : forall o fuel l stop, wf_xevent o ->
    xvisit rec_all no_infinity fuel o [] = Some (l, stop) ->
    stop = false /\ forall c, In c l <-> xvisited o c.
Proof.
  intros o fuel l stop Hwf H. pose proof Hwf as (Hev & _ & _). pose proof (wf_x_orule o Hwf) as Hor.
  unfold xvisit in H. rewrite over_block, run_rec_all in H. cbn [app] in H.
  destruct (xe_has_set o) eqn:Hset.
  - apply (master_noinf _ _ _ _ _ Hset) in H.
    destruct (L_rec o Hev Hor fuel _ _ l stop (sinv_init o) H) as (-> & calls & -> & Hc). split; [reflexivity|].
    intros c. rewrite (xvisited_split o Hwf c), Hset, in_app_iff, oseen_map, Hc. tauto.
  - unfold xvisit_master in H. rewrite Hset in H. destruct (xmaster_block o Hev) as [_ Hb]. rewrite Hb, run_rec_all in H.
    inversion H; subst. split; [reflexivity|]. intros c. rewrite (xvisited_split o Hwf c), Hset, in_app_iff, oseen_map.
    cbn [In]. intuition.
Qed.

(* ================================================================== (c) time_range_match *)
Lemma row_master : forall o, wf_vevent (xe_master o) -> forall s e D,
    overlap s e (fcall D (D + xlen o) false) = vevent_row (xe_master o) D s e.
Proof.
  intros o Hev s e D. rewrite <- (rows_vevent (xe_master o) Hev s e D). destruct (xmaster_block o Hev) as [_ Hb]. rewrite Hb.
  unfold ov. cbn [existsb]. rewrite orb_false_r. reflexivity.
Qed.

Lemma row_over : forall v s e, ov_start v < ov_end v ->
    overlap s e (over_call v) = vevent_row (over_ev v) (ov_start v) s e.
Proof.
  intros v s e Hlt. assert (Hev : wf_vevent (over_ev v)) by (split; [exact I|cbn; exact Hlt]).
  rewrite <- (rows_vevent (over_ev v) Hev s e (ov_start v)). unfold vevent_calls, over_ev. cbn [ev_end ev_start].
  replace (ov_start v + (ov_end v - ov_start v)) with (ov_end v) by lia.
  unfold ov, over_call, overlap, fcall. cbn [existsb c_s c_e]. rewrite orb_false_r. reflexivity.
Qed.

Theorem ext_match_visited : forall o r fuel b, wf_xevent o -> tr_bounded r = true ->
    xtime_range_match fuel o r = Some b ->
    (b = true <-> exists c, xvisited o c /\ overlap (tr_start r) (tr_end r) c = true).
Proof.
  intros o r fuel b Hwf Hb H. pose proof Hwf as (Hev & _ & _). pose proof (wf_x_orule o Hwf) as Hor.
  unfold xtime_range_match in H. rewrite Hb in H. cbn [negb] in H.
  set (s := tr_start r) in *. set (e := tr_end r) in *. unfold xvisit in H. rewrite over_block in H.
  destruct (run_calls (match_fn s e) (map over_call (xe_over o)) false) as [m1 stop1] eqn:Ho.
  destruct (run_match_over s e _ _ _ _ Ho) as [Hm1 Hst1].
  assert (Hov : m1 = true <-> exists c, oseen o c /\ overlap s e c = true).
  { rewrite Hm1. split.
    - intros [?|(v & Hv & Hx)]; [discriminate|]. exists (over_call v). split; [exists v; split; [exact Hv|reflexivity]|exact Hx].
    - intros (c & (v & Hv & ->) & Hx). right. exists v. split; assumption. }
  destruct stop1.
  - cbn in H. inversion H; subst b. rewrite (Hst1 eq_refl). split; [intros _|reflexivity].
    apply Hov in Hst1; [|reflexivity]. destruct Hst1 as (c & Hc & Hx). exists c. split; [|exact Hx].
    apply (xvisited_split o Hwf). left. exact Hc.
  - destruct (xvisit_master (match_fn s e) no_infinity fuel o m1) as [[m' stop']|] eqn:Hm; [|discriminate].
    cbn in H. inversion H; subst b. clear H.
    assert (Hmast : m' = true <-> m1 = true \/ exists c,
               (if xe_has_set o then mseen o (0, xe_extras o) c else c = fcall (xe_start o) (xe_start o + xlen o) false)
               /\ overlap s e c = true).
    { destruct (xe_has_set o) eqn:Hset.
      - apply (master_noinf _ _ _ _ _ Hset) in Hm. exact (L_match o Hev Hor s e fuel _ m1 m' stop' (sinv_init o) Hm).
      - unfold xvisit_master in Hm. rewrite Hset in Hm. destruct (xmaster_block o Hev) as [_ Hbk]. rewrite Hbk, run_calls_single in Hm.
        unfold match_fn in Hm. destruct (overlap s e (fcall (xe_start o) (xe_start o + xlen o) false)) eqn:Hx.
        + inversion Hm; subst. split; [|reflexivity]. intros _. right. eexists. split; [reflexivity|exact Hx].
        + assert (m' = m1) by (destruct (xlt e (c_s (fcall (xe_start o) (xe_start o + xlen o) false)) && negb (c_rec (fcall (xe_start o) (xe_start o + xlen o) false))); inversion Hm; reflexivity).
          subst m'. split; [left; assumption|]. intros [?|(c & -> & Hc)]; [assumption|congruence]. }
    rewrite Hmast, Hov. split.
    + intros [(c & Hc & Hx)|(c & Hc & Hx)]; exists c; (split; [apply (xvisited_split o Hwf)|exact Hx]); [left|right]; exact Hc.
    + intros (c & Hc & Hx). apply (xvisited_split o Hwf) in Hc as [Hc|Hc]; [left|right]; exists c; split; assumption.
Qed.

Theorem ext_match_rfc : forall o r fuel b, wf_xevent o -> tr_bounded r = true ->
    xtime_range_match fuel o r = Some b -> (b = true <-> xrfc_overlaps o r).
Proof.
  intros o r fuel b Hwf Hb H. rewrite (ext_match_visited o r fuel b Hwf Hb H).
  pose proof Hwf as (Hev & _ & Hovr). unfold xvisited, xrfc_overlaps. split.
  - intros (c & [(D & HD & ->)|(v & Hv & ->)] & Hx).
    + left. exists D. split; [exact HD|]. rewrite <- (row_master o Hev). exact Hx.
    + right. exists v. split; [exact Hv|]. rewrite <- (row_over v _ _ (Hovr v Hv)). exact Hx.
  - intros [(D & HD & Hx)|(v & Hv & Hx)].
    + exists (fcall D (D + xlen o) false). split; [left; exists D; split; [exact HD|reflexivity]|]. rewrite (row_master o Hev). exact Hx.
    + exists (over_call v). split; [right; exists v; split; [exact Hv|reflexivity]|]. rewrite (row_over v _ _ (Hovr v Hv)). exact Hx.
Qed.

Theorem ext_unbounded_range : forall o fuel, xtime_range_match fuel o (None, None) = Some false.
Proof. reflexivity. Qed.

(* ================================================================== (b) find_time_range is the hull of the instances *)
Lemma xvisited_nonempty : forall o, wf_xevent o -> forall c, xvisited o c -> nonempty_c c.
Proof.
  intros o (Hev & _ & Hovr) c [(D & _ & ->)|(v & Hv & ->)]; unfold nonempty_c, fcall; cbn.
  - destruct (xmaster_block o Hev) as [Hl _]. lia.
  - specialize (Hovr v Hv). lia.
Qed.

Lemma hull_finish : forall o h, wf_xevent o -> hinv h (xvisited o) -> hull_ok (fst (final h)) (snd (final h)) (xvisited o).
Proof.
  intros o h Hwf Hh. apply hinv_final; [|exact Hh]. intros c Hc. pose proof (xvisited_nonempty o Hwf c Hc) as Hn.
  split; exists c; (split; [exact Hc|split; [exact Hn|apply xle_refl]]).
Qed.

Lemma xle_PInf : forall x, xle x PInf = true.
Proof. intros [| |]; reflexivity. Qed.

Theorem ext_hull : forall o fuel a b, wf_xevent o ->
    xfind_time_range fuel o = Some (a, b) -> hull_ok a b (xvisited o).
Proof.
  intros o fuel a b Hwf H. pose proof Hwf as (Hev & _ & Hovr). pose proof (wf_x_orule o Hwf) as Hor.
  unfold xfind_time_range, xvisit in H. rewrite over_block, run_hull in H.
  set (h1 := fold_left (fun st c => hull_add c st) (map over_call (xe_over o)) (None, None)) in *.
  assert (Hh1 : hinv h1 (oseen o)).
  { eapply hinv_ext; [|apply (hinv_block (map over_call (xe_over o)) (None, None) (fun _ => False)); cbn; tauto].
    intros c. cbn beta. rewrite oseen_map. tauto. }
  assert (Hfin : forall h' (stop : bool), hinv h' (xvisited o) ->
            (let '(start, end_) := h' in Some (match start with Some s => s | None => MInf end, match end_ with Some e => e | None => PInf end))
            = Some (a, b) -> hull_ok a b (xvisited o)).
  { intros [sa sb] stop Hh E. inversion E; subst. exact (hull_finish o (sa, sb) Hwf Hh). }
  assert (Hloop : forall r, xvisit_set hull_fn fuel o (0, xe_extras o) h1 = Some r -> xe_has_set o = true ->
            hinv (fst r) (xvisited o)).
  { intros [h' stop] Hr Hset. destruct (L_hull o Hev Hor fuel _ h1 h' stop _ (sinv_init o) Hh1 Hr) as [_ Hh'].
    eapply hinv_ext; [|exact Hh']. intros c. cbn beta. rewrite (xvisited_split o Hwf c), Hset. tauto. }
  cbn [fst snd] in H. unfold xvisit_master in H. destruct (xe_has_set o) eqn:Hset.
  - destruct (xe_infinite o) eqn:Hinf.
    + destruct (xfirst fuel o (0, xe_extras o)) as [[d0|]|] eqn:Hf; [| |discriminate].
      * pose proof (L_first o Hor fuel _ _ (sinv_init o) Hf) as [Hd0 Hmin]. cbn beta iota in Hd0, Hmin.
        assert (Hv0 : xvisited o (fcall d0 (d0 + xlen o) false)).
        { apply (xvisited_split o Hwf). rewrite Hset. right. exact Hd0. }
        assert (Hall : forall c, xvisited o c -> oseen o c \/ xle (Fin d0) (c_s c) = true).
        { intros c Hc. apply (xvisited_split o Hwf) in Hc. rewrite Hset in Hc. destruct Hc as [Hc|Hc]; [left; exact Hc|right; apply Hmin; exact Hc]. }
        assert (Hos : forall c, oseen o c -> xvisited o c).
        { intros c Hc. apply (xvisited_split o Hwf). left. exact Hc. }
        destruct h1 as [[a1|] [b1|]]; cbn [hinv] in Hh1; try contradiction; unfold hull_inf in H; cbn beta iota in H.
        -- destruct Hh1 as (He & (c1 & Hc1 & E1) & _).
           destruct (xlt (Fin d0) a1) eqn:Hlt; inversion H; subst a b; (split; [|split]).
           ++ intros c Hc. split; [|apply xle_PInf]. destruct (Hall c Hc) as [Hc'|Hc']; [|exact Hc'].
              eapply xle_trans; [apply xlt_xle; exact Hlt|apply (He c Hc')].
           ++ intros _. exists (fcall d0 (d0 + xlen o) false). split; [exact Hv0|split; [exact (xvisited_nonempty o Hwf _ Hv0)|reflexivity]].
           ++ discriminate.
           ++ intros c Hc. split; [|apply xle_PInf]. destruct (Hall c Hc) as [Hc'|Hc']; [apply (He c Hc')|].
              eapply xle_trans; [|exact Hc']. unfold xle. rewrite Hlt. reflexivity.
           ++ intros _. exists c1. split; [exact (Hos c1 Hc1)|split; [exact (xvisited_nonempty o Hwf _ (Hos c1 Hc1))|exact E1]].
           ++ discriminate.
        -- inversion H; subst a b. split; [|split].
           ++ intros c Hc. split; [|apply xle_PInf]. destruct (Hall c Hc) as [Hc'|Hc']; [destruct (Hh1 c Hc')|exact Hc'].
           ++ intros _. exists (fcall d0 (d0 + xlen o) false). split; [exact Hv0|split; [exact (xvisited_nonempty o Hwf _ Hv0)|reflexivity]].
           ++ discriminate.
      * destruct (xvisit_set hull_fn fuel o (0, xe_extras o) h1) as [[h' stop]|] eqn:Hr; [|discriminate].
        exact (Hfin h' stop (Hloop _ eq_refl eq_refl) H).
    + destruct (xvisit_set hull_fn fuel o (0, xe_extras o) h1) as [[h' stop]|] eqn:Hr; [|discriminate].
      exact (Hfin h' stop (Hloop _ eq_refl eq_refl) H).
  - destruct (xmaster_block o Hev) as [_ Hb]. rewrite Hb, run_calls_single, hull_fn_eq in H.
    refine (Hfin _ false _ H). eapply hinv_ext; [|apply hinv_add; exact Hh1].
    intros c. cbn beta. rewrite (xvisited_split o Hwf c), Hset. tauto.
Qed.

(* ================================================================== non-vacuity *)
(* DTSTART 0, DTEND 3600, RRULE:FREQ=HOURLY;INTERVAL=6;COUNT=3, RDATE 1800, EXDATE 43200 + an unrelated one,
   the 21600 instance rescheduled to 22500-23400 *)
Definition ex_x : xevent :=
  {| xe_start := 0; xe_end := EDtend 3600;
     xe_rule := Some {| r_freq := Hourly; r_interval := 6; r_bound := RCount 3 |};
     xe_rdate := [1800]; xe_ex := [43200; 777]; xe_over := [{| ov_rid := 21600; ov_start := 22500; ov_end := 23400 |}] |}.
(* unbounded: DTSTART 100, DURATION 60, RRULE:FREQ=DAILY, first instance rescheduled to an earlier time *)
Definition ex_inf : xevent :=
  {| xe_start := 100; xe_end := EDuration 60;
     xe_rule := Some {| r_freq := Daily; r_interval := 1; r_bound := RForever |};
     xe_rdate := []; xe_ex := []; xe_over := [{| ov_rid := 100; ov_start := 40; ov_end := 50 |}] |}.

Lemma ex_x_wf : wf_xevent ex_x.
Proof.
  unfold wf_xevent, wf_vevent, wf_rrule. cbn. repeat split; try lia.
  intros v [<-|[]]. cbn. lia.
Qed.
Lemma ex_inf_wf : wf_xevent ex_inf.
Proof.
  unfold wf_xevent, wf_vevent, wf_rrule. cbn. repeat split; try lia.
  intros v [<-|[]]. cbn. lia.
Qed.

Lemma ex_x_visit : xvisit rec_all no_infinity (xhull_fuel ex_x) ex_x [] =
                   Some ([fcall 22500 23400 true; fcall 0 3600 false; fcall 1800 5400 false], false).
Proof. vm_compute. reflexivity. Qed.
Lemma ex_x_hull : xfind_time_range (xhull_fuel ex_x) ex_x = Some (Fin 0, Fin 23400).
Proof. vm_compute. reflexivity. Qed.
Lemma ex_x_match_removed : xtime_range_match (xmatch_fuel ex_x (Some 21600, Some 22000)) ex_x (Some 21600, Some 22000) = Some false.
Proof. vm_compute. reflexivity. Qed.
Lemma ex_x_match_moved : xtime_range_match (xmatch_fuel ex_x (Some 23000, None)) ex_x (Some 23000, None) = Some true.
Proof. vm_compute. reflexivity. Qed.
Lemma ex_inf_hull : xfind_time_range (xhull_fuel ex_inf) ex_inf = Some (Fin 40, PInf).
Proof. vm_compute. reflexivity. Qed.
Lemma ex_inf_match : xtime_range_match (xmatch_fuel ex_inf (Some 50, Some 86500)) ex_inf (Some 50, Some 86500) = Some false
                     /\ xtime_range_match (xmatch_fuel ex_inf (Some 50, Some 86501)) ex_inf (Some 50, Some 86501) = Some true.
Proof. split; vm_compute; reflexivity. Qed.

Definition ext_nonvacuous_stmt : Prop :=
  wf_xevent ex_x /\ wf_xevent ex_inf
  /\ xvisit rec_all no_infinity (xhull_fuel ex_x) ex_x [] = Some ([fcall 22500 23400 true; fcall 0 3600 false; fcall 1800 5400 false], false)
  /\ xfind_time_range (xhull_fuel ex_x) ex_x = Some (Fin 0, Fin 23400)
  /\ xtime_range_match (xmatch_fuel ex_x (Some 21600, Some 22000)) ex_x (Some 21600, Some 22000) = Some false
  /\ xtime_range_match (xmatch_fuel ex_x (Some 23000, None)) ex_x (Some 23000, None) = Some true
  /\ xfind_time_range (xhull_fuel ex_inf) ex_inf = Some (Fin 40, PInf)
  /\ xtime_range_match (xmatch_fuel ex_inf (Some 50, Some 86500)) ex_inf (Some 50, Some 86500) = Some false
  /\ xtime_range_match (xmatch_fuel ex_inf (Some 50, Some 86501)) ex_inf (Some 50, Some 86501) = Some true.
Lemma ext_nonvacuous : ext_nonvacuous_stmt.
Proof.
  unfold ext_nonvacuous_stmt.
  split; [exact ex_x_wf|]. split; [exact ex_inf_wf|]. split; [exact ex_x_visit|]. split; [exact ex_x_hull|].
  split; [exact ex_x_match_removed|]. split; [exact ex_x_match_moved|]. split; [exact ex_inf_hull|]. exact ex_inf_match.
Qed.
