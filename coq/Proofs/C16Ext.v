(* C16 extension -- RDATE and rescheduled instances (RECURRENCE-ID) of a VEVENT: the visitor of Model/FilterExt.v
   hands out exactly the instance set, find_time_range is its hull, time_range_match is the 9.9 overlap of some instance. *)
From Coq Require Import ZArith List Bool Lia ZifyBool.
Import ListNotations.
Require Import RV.Model.Rfc4791 RV.Model.Filter RV.Model.FilterExt RV.Model.Rfc4791Ext.
Require Import RV.Proofs.C16Xt RV.Proofs.C16Loop RV.Proofs.C16Rows RV.Proofs.C16Tables RV.Proofs.C16Hull.
Open Scope Z_scope.

(* ------------------------------------------------------------------ sort_dedup *)
Fixpoint ssorted (l : list Z) : Prop :=
  match l with [] => True | x :: r => (forall y, In y r -> x < y) /\ ssorted r end.

Lemma In_insert : forall x l z, In z (insert x l) <-> z = x \/ In z l.
Proof.
  induction l as [|y r IH]; intros z; cbn [insert].
  - cbn. intuition.
  - destruct (x <? y) eqn:H1; [cbn; intuition|].
    destruct (x =? y) eqn:H2.
    + apply Z.eqb_eq in H2. subst. cbn. intuition.
    + cbn [In]. rewrite IH. intuition.
Qed.

Lemma insert_sorted : forall x l, ssorted l -> ssorted (insert x l).
Proof.
  induction l as [|y r IH]; intros H; cbn [insert].
  - cbn. intuition.
  - destruct H as [Hy Hr]. destruct (x <? y) eqn:H1.
    + cbn [ssorted]. split; [|split; assumption]. intros z [<-|Hz]; [lia|]. specialize (Hy z Hz). lia.
    + destruct (x =? y) eqn:H2; [split; assumption|].
      cbn [ssorted]. split; [|apply IH; exact Hr].
      intros z Hz. apply In_insert in Hz as [->|Hz]; [lia|apply Hy; exact Hz].
Qed.

Lemma In_sort_dedup : forall l z, In z (sort_dedup l) <-> In z l.
Proof.
  induction l as [|x r IH]; intros z; cbn [sort_dedup fold_right]; [tauto|].
  rewrite In_insert. fold (sort_dedup r). rewrite IH. cbn. intuition.
Qed.

Lemma sort_dedup_sorted : forall l, ssorted (sort_dedup l).
Proof. induction l as [|x r IH]; cbn [sort_dedup fold_right]; [exact I|]. apply insert_sorted. exact IH. Qed.

(* ------------------------------------------------------------------ the merged iteration *)
Definition wf_orule (rule : option rrule) : Prop := match rule with Some rr => wf_rrule rr | None => True end.

Section Stream.
  Variables (s0 : Z) (rule : option rrule).
  Hypothesis Hrule : wf_orule rule.

  (* dates of the rule from candidate index k on *)
  Definition rule_mem (k d : Z) : Prop := exists k', k <= k' /\ rule_cand s0 rule k' = Some d.
  Definition smem (st : xstate) (d : Z) : Prop := rule_mem (fst st) d \/ In d (snd st).
  Definition sinv (st : xstate) : Prop := 0 <= fst st /\ ssorted (snd st).

  Lemma period_pos : forall rr, rule = Some rr -> 0 < r_period rr.
  Proof.
    intros rr E. unfold wf_orule in Hrule. rewrite E in Hrule. unfold wf_rrule in Hrule. unfold r_period.
    destruct (r_freq rr); lia.
  Qed.

  Lemma rule_cand_down : forall k k' d', 0 <= k -> k <= k' -> rule_cand s0 rule k' = Some d' ->
      exists d, rule_cand s0 rule k = Some d /\ d <= d' /\ (k < k' -> d < d').
  Proof.
    intros k k' d' H0 Hle H. pose proof period_pos as PP. unfold rule_cand in *. destruct rule as [rr|] eqn:E; [|discriminate].
    pose proof (PP rr eq_refl) as Hp.
    destruct (in_bound (r_bound rr) s0 (r_period rr) k') eqn:Hb; [|discriminate]. inversion H; subst d'.
    assert (Hk : in_bound (r_bound rr) s0 (r_period rr) k = true).
    { unfold in_bound in *. destruct (r_bound rr); [lia| |reflexivity]. apply Z.leb_le. apply Z.leb_le in Hb. nia. }
    rewrite Hk. eexists. split; [reflexivity|]. split; nia.
  Qed.

  Lemma RM1 : forall k, 0 <= k -> rule_cand s0 rule k = None -> forall d, ~ rule_mem k d.
  Proof.
    intros k H0 Hn d (k' & Hle & Hc). destruct (rule_cand_down k k' d H0 Hle Hc) as (x & Hx & _). congruence.
  Qed.

  Lemma RM2 : forall k dr, 0 <= k -> rule_cand s0 rule k = Some dr ->
      forall d, rule_mem k d <-> d = dr \/ rule_mem (k + 1) d.
  Proof.
    intros k dr H0 Hc d. split.
    - intros (k' & Hle & Hk'). destruct (Z.eq_dec k k') as [<-|Hne].
      + left. congruence.
      + right. exists k'. split; [lia|exact Hk'].
    - intros [->|(k' & Hle & Hk')]; [exists k; split; [lia|exact Hc]|exists k'; split; [lia|exact Hk']].
  Qed.

  Lemma RM3 : forall k dr, 0 <= k -> rule_cand s0 rule k = Some dr -> forall d, rule_mem (k + 1) d -> dr < d.
  Proof.
    intros k dr H0 Hc d (k' & Hle & Hk'). destruct (rule_cand_down k k' d H0 ltac:(lia) Hk') as (x & Hx & _ & Hlt).
    rewrite Hc in Hx. inversion Hx; subst. apply Hlt. lia.
  Qed.

  Lemma RM4 : forall k dr, 0 <= k -> rule_cand s0 rule k = Some dr -> forall d, rule_mem k d -> dr <= d.
  Proof.
    intros k dr H0 Hc d H. apply (RM2 k dr H0 Hc) in H as [->|H]; [lia|]. pose proof (RM3 k dr H0 Hc d H). lia.
  Qed.

  Lemma step_none : forall st, sinv st -> xnext s0 rule st = None -> forall d, ~ smem st d.
  Proof.
    intros [k xs] [H0 Hs] H d. cbn [fst snd] in *. unfold xnext in H.
    destruct (rule_cand s0 rule k) as [dr|] eqn:Hc; destruct xs as [|x xs']; try discriminate.
    - destruct (x <? dr); [discriminate|]. destruct (x =? dr); discriminate.
    - intros [Hm|[]]. exact (RM1 k H0 Hc d Hm).
  Qed.

  Lemma step_some : forall st d0 st', sinv st -> xnext s0 rule st = Some (d0, st') ->
      sinv st' /\ (forall d, smem st d <-> d = d0 \/ smem st' d) /\ (forall d, smem st' d -> d0 < d).
  Proof.
    intros [k xs] d0 [k1 xs1] [H0 Hs] H. cbn [fst snd] in *. unfold xnext in H. unfold smem, sinv. cbn [fst snd].
    destruct (rule_cand s0 rule k) as [dr|] eqn:Hc; destruct xs as [|x xs'].
    - inversion H; subst. split; [split; [lia|exact I]|]. split.
      + intros d. rewrite (RM2 k d0 H0 Hc d). cbn. tauto.
      + intros d [Hm|[]]. exact (RM3 k d0 H0 Hc d Hm).
    - destruct Hs as [Hx Hs']. destruct (x <? dr) eqn:H1; [|destruct (x =? dr) eqn:H2]; inversion H; subst.
      + split; [split; assumption|]. split.
        * intros d. cbn [In]. intuition.
        * intros d [Hm|Hi]; [pose proof (RM4 k1 dr H0 Hc d Hm); lia|apply Hx; exact Hi].
      + apply Z.eqb_eq in H2. subst x. split; [split; [lia|assumption]|]. split.
        * intros d. rewrite (RM2 k d0 H0 Hc d). cbn [In]. intuition.
        * intros d [Hm|Hi]; [exact (RM3 k d0 H0 Hc d Hm)|apply Hx; exact Hi].
      + split; [split; [lia|split; assumption]|]. split.
        * intros d. rewrite (RM2 k d0 H0 Hc d). tauto.
        * intros d [Hm|[<-|Hi]]; [exact (RM3 k d0 H0 Hc d Hm)|lia|specialize (Hx d Hi); lia].
    - discriminate.
    - inversion H; subst. destruct Hs as [Hx Hs']. split; [split; assumption|]. split.
      + intros d. cbn [In]. split.
        * intros [Hm|[<-|Hi]]; [destruct (RM1 k1 H0 Hc d Hm)|left; reflexivity|right; right; exact Hi].
        * intros [->|[Hm|Hi]]; [right; left; reflexivity|left; exact Hm|right; right; exact Hi].
      + intros d [Hm|Hi]; [destruct (RM1 k1 H0 Hc d Hm)|apply Hx; exact Hi].
  Qed.
End Stream.

(* ------------------------------------------------------------------ small facts *)
Lemma mem_In : forall x l, mem x l = true <-> In x l.
Proof.
  intros x l. unfold mem. rewrite existsb_exists. split.
  - intros (y & Hy & He). apply Z.eqb_eq in He. subst. exact Hy.
  - intros H. exists x. split; [exact H|apply Z.eqb_refl].
Qed.

Lemma run_calls_single : forall {St} (f : call -> St -> St * bool) c st, run_calls f [c] st = f c st.
Proof. intros St f c st. cbn. destruct (f c st) as [a []]; reflexivity. Qed.

Lemma xmaster_block : forall o, wf_vevent (xe_master o) ->
    0 < xlen o /\ forall rec d, vevent_calls (xe_master o) rec d = [fcall d (d + xlen o) rec].
Proof.
  intros o [_ Hend]. unfold xlen, vevent_calls, xe_master in *. cbn [ev_end ev_start ev_kind] in *.
  destruct (xe_end o) as [t|d|].
  - split; [lia|reflexivity].
  - destruct (0 <? d) eqn:Hd; (split; [lia|reflexivity]).
  - split; [lia|reflexivity].
Qed.

Lemma over_calls_eq : forall v, over_calls v = [fcall (ov_start v) (ov_end v) true].
Proof.
  intros v. unfold over_calls, vevent_calls, over_ev. cbn [ev_end ev_start].
  replace (ov_start v + (ov_end v - ov_start v)) with (ov_end v) by lia. reflexivity.
Qed.

Definition over_call (v : xover) : call := fcall (ov_start v) (ov_end v) true.

Lemma over_block : forall l, flat_map over_calls l = map over_call l.
Proof. induction l as [|v r IH]; [reflexivity|]. cbn [flat_map map]. rewrite over_calls_eq, IH. reflexivity. Qed.

(* ------------------------------------------------------------------ the loop over the master's recurrence set *)
Section MasterLoop.
  Variable o : xevent.
  Hypothesis Hwf : wf_vevent (xe_master o).
  Hypothesis Hrule : wf_orule (xe_rule o).
  Let s0 := xe_start o.
  Let rule := xe_rule o.
  Let mcall (d : Z) : call := fcall d (d + xlen o) false.

  (* ranges of the master still to come from state st *)
  Definition mseen (st : xstate) (c : call) : Prop :=
    exists d, smem s0 rule st d /\ xskip o d = false /\ c = fcall d (d + xlen o) false.

  Lemma mseen_none : forall st, sinv st -> xnext s0 rule st = None -> forall c, ~ mseen st c.
  Proof. intros st Hi Hn c (d & Hd & _). exact (step_none s0 rule Hrule st Hi Hn d Hd). Qed.

  Lemma mseen_step : forall st st' d0, (forall d, smem s0 rule st d <-> d = d0 \/ smem s0 rule st' d) ->
      forall c, mseen st c <-> (xskip o d0 = false /\ c = fcall d0 (d0 + xlen o) false) \/ mseen st' c.
  Proof.
    intros st st' d0 Hiff c. split.
    - intros (d & Hd & Hs & Hc). apply Hiff in Hd as [->|Hd]; [left; split; assumption|right; exists d; repeat split; assumption].
    - intros [[Hs Hc]|(d & Hd & Hs & Hc)].
      + exists d0. repeat split; try assumption. apply Hiff. left. reflexivity.
      + exists d. repeat split; try assumption. apply Hiff. right. exact Hd.
  Qed.

  (* (a) a recording visitor that never cancels *)
  Lemma L_rec : forall fuel st l0 l stop, sinv st ->
      xvisit_set rec_all fuel o st l0 = Some (l, stop) ->
      stop = false /\ exists calls, l = l0 ++ calls /\ forall c, In c calls <-> mseen st c.
  Proof.
    induction fuel as [|f IH]; intros st l0 l stop Hi H; cbn [xvisit_set] in H; [discriminate|].
    fold s0 rule in H. destruct (xnext s0 rule st) as [[d0 st']|] eqn:Hn.
    - destruct (step_some s0 rule Hrule st d0 st' Hi Hn) as (Hi' & Hiff & _).
      pose proof (mseen_step st st' d0 Hiff) as Hms.
      destruct (xskip o d0) eqn:Hs.
      + destruct (IH st' l0 l stop Hi' H) as (-> & calls & -> & Hc). split; [reflexivity|]. exists calls. split; [reflexivity|].
        intros c. rewrite Hc, Hms. intuition congruence.
      + destruct (xmaster_block o Hwf) as [_ Hb]. rewrite Hb, run_calls_single in H. unfold rec_all at 1 in H.
        destruct (IH st' _ l stop Hi' H) as (-> & calls & -> & Hc). split; [reflexivity|].
        exists (fcall d0 (d0 + xlen o) false :: calls). split; [rewrite <- app_assoc; reflexivity|].
        intros c. rewrite Hms. cbn [In]. rewrite Hc. intuition congruence.
    - inversion H; subst. split; [reflexivity|]. exists []. split; [rewrite app_nil_r; reflexivity|].
      intros c. split; [intros []|intros Hc; exact (mseen_none st Hi Hn c Hc)].
  Qed.

  (* (c) time_range_match's range_fn: the early stop loses nothing *)
  Lemma L_match : forall s e fuel st m m' stop, sinv st ->
      xvisit_set (match_fn s e) fuel o st m = Some (m', stop) ->
      (m' = true <-> m = true \/ exists c, mseen st c /\ overlap s e c = true).
  Proof.
    intros s e. induction fuel as [|f IH]; intros st m m' stop Hi H; cbn [xvisit_set] in H; [discriminate|].
    fold s0 rule in H. destruct (xnext s0 rule st) as [[d0 st']|] eqn:Hn.
    - destruct (step_some s0 rule Hrule st d0 st' Hi Hn) as (Hi' & Hiff & Hasc).
      pose proof (mseen_step st st' d0 Hiff) as Hms.
      destruct (xskip o d0) eqn:Hs.
      + rewrite (IH st' m m' stop Hi' H). split; (intros [Hm|(c & Hc & Ho)]; [left; exact Hm|right; exists c; split; [|exact Ho]]).
        * apply Hms. right. exact Hc.
        * apply Hms in Hc as [[Hc _]|Hc]; [discriminate|exact Hc].
      + destruct (xmaster_block o Hwf) as [Hlen Hb]. rewrite Hb, run_calls_single in H. unfold match_fn at 1 in H.
        destruct (overlap s e (fcall d0 (d0 + xlen o) false)) eqn:Hov.
        * inversion H; subst. split; [|reflexivity]. intros _. right. eexists. split; [|exact Hov]. apply Hms. left. split; reflexivity.
        * cbn [c_s c_rec fcall negb] in H. rewrite andb_true_r in H. destruct (xlt e (Fin d0)) eqn:He.
          -- inversion H; subst. split; [left; assumption|]. intros [Hm|(c & Hc & Ho)]; [exact Hm|exfalso].
             apply Hms in Hc as [[_ ->]|(d & Hd & _ & ->)]; [congruence|].
             specialize (Hasc d Hd). unfold overlap, fcall in Ho. cbn [c_s c_e] in Ho.
             apply andb_true_iff in Ho as [_ Ho]. destruct e; cbn in *; try discriminate; lia.
          -- rewrite (IH st' m m' stop Hi' H). split; (intros [Hm|(c & Hc & Ho)]; [left; exact Hm|right; exists c; split; [|exact Ho]]).
             ++ apply Hms. right. exact Hc.
             ++ apply Hms in Hc as [[_ ->]|Hc]; [congruence|exact Hc].
    - inversion H; subst. split; [left; assumption|]. intros [Hm|(c & Hc & _)]; [exact Hm|destruct (mseen_none st Hi Hn c Hc)].
  Qed.

  (* (b) find_time_range's range_fn *)
  Lemma L_hull : forall fuel st h h' stop (Seen : call -> Prop), sinv st -> hinv h Seen ->
      xvisit_set hull_fn fuel o st h = Some (h', stop) ->
      stop = false /\ hinv h' (fun c => Seen c \/ mseen st c).
  Proof.
    induction fuel as [|f IH]; intros st h h' stop Seen Hi Hh H; cbn [xvisit_set] in H; [discriminate|].
    fold s0 rule in H. destruct (xnext s0 rule st) as [[d0 st']|] eqn:Hn.
    - destruct (step_some s0 rule Hrule st d0 st' Hi Hn) as (Hi' & Hiff & _).
      pose proof (mseen_step st st' d0 Hiff) as Hms.
      destruct (xskip o d0) eqn:Hs.
      + destruct (IH st' h h' stop Seen Hi' Hh H) as [-> Hh']. split; [reflexivity|].
        eapply hinv_ext; [|exact Hh']. intros c. cbn beta. rewrite Hms. intuition congruence.
      + destruct (xmaster_block o Hwf) as [_ Hb]. rewrite Hb, run_calls_single, hull_fn_eq in H.
        destruct (IH st' _ h' stop _ Hi' (hinv_add h Seen _ Hh) H) as [-> Hh']. split; [reflexivity|].
        eapply hinv_ext; [|exact Hh']. intros c. cbn beta. rewrite Hms. intuition congruence.
    - inversion H; subst. split; [reflexivity|]. eapply hinv_ext; [|exact Hh]. intros c. cbn beta.
      split; [tauto|intros [Hc|Hc]; [exact Hc|destruct (mseen_none st Hi Hn c Hc)]].
  Qed.

  (* getrruleset's infinite branch: the first date not in `ignore` *)
  Lemma L_first : forall fuel st r, sinv st -> xfirst fuel o st = Some r ->
      match r with
      | Some d => mseen st (fcall d (d + xlen o) false) /\ forall c, mseen st c -> xle (Fin d) (c_s c) = true
      | None => forall c, ~ mseen st c
      end.
  Proof.
    induction fuel as [|f IH]; intros st r Hi H; cbn [xfirst] in H; [discriminate|].
    fold s0 rule in H. destruct (xnext s0 rule st) as [[d0 st']|] eqn:Hn.
    - destruct (step_some s0 rule Hrule st d0 st' Hi Hn) as (Hi' & Hiff & Hasc).
      pose proof (mseen_step st st' d0 Hiff) as Hms.
      destruct (xskip o d0) eqn:Hs.
      + specialize (IH st' r Hi' H). destruct r as [d|].
        * destruct IH as [H1 H2]. split; [apply Hms; right; exact H1|].
          intros c Hc. apply Hms in Hc as [[Hc _]|Hc]; [discriminate|apply H2; exact Hc].
        * intros c Hc. apply Hms in Hc as [[Hc _]|Hc]; [discriminate|exact (IH c Hc)].
      + inversion H; subst. split; [apply Hms; left; split; reflexivity|].
        intros c Hc. apply Hms in Hc as [[_ ->]|(d & Hd & _ & ->)]; unfold xle, fcall; cbn; [lia|].
        specialize (Hasc d Hd). lia.
    - inversion H; subst. intros c Hc. exact (mseen_none st Hi Hn c Hc).
  Qed.
End MasterLoop.
