(* Progress and preservation of the reserved-path invariant CL: move of an item, delete of a collection,
   one level of makedirs, set_meta (default cache layout). *)
From Coq Require Import List NArith Bool Lia.
Import ListNotations.
Require Import RV.Lib.Prog RV.Model.Fs RV.Model.StorageOps RV.Proofs.FsLemmas RV.Proofs.FsInv RV.Proofs.NoFault
  RV.Proofs.C12Units RV.Proofs.ReprProgress RV.Proofs.ReprClean RV.Proofs.ReprProgress2.
Open Scope N_scope.

Lemma app_cons_neq_self : forall (a : path) x r, a ++ x :: r <> a.
Proof. intros a x r E. apply (f_equal (@List.length name)) in E. rewrite app_length in E. cbn in E. lia. Qed.

(* rename of a regular file onto a file or a free name: two point updates *)
Lemma rename_file_look : forall s a b v0, fs_inv_weak s -> look s a = Some (F v0) -> look s b <> Some D ->
  forall q, look (renamed a b s) q = if path_eqb q b then Some (F v0) else if path_eqb q a then None else look s q.
Proof.
  intros s a b v0 [Hc Hd] Ha Hb q. unfold renamed. cbn [look].
  destruct (prefix b q) eqn:Ebq.
  - apply prefix_spec in Ebq. destruct Ebq as [r ->]. rewrite strip_app. destruct r as [|x r].
    + rewrite !app_nil_r, path_eqb_refl. exact Ha.
    + rewrite (closed_below s a Hc); [| rewrite Ha; discriminate | discriminate].
      assert (E1 : path_eqb (b ++ x :: r) b = false) by (apply path_eqb_neq; apply app_cons_neq_self).
      rewrite E1. destruct (path_eqb (b ++ x :: r) a); [reflexivity|]. symmetry. apply closed_below; [exact Hc | exact Hb | discriminate].
  - assert (E1 : path_eqb q b = false) by (apply path_eqb_neq; intros ->; rewrite prefix_refl in Ebq; discriminate).
    rewrite E1. destruct (prefix a q) eqn:Eaq.
    + apply prefix_spec in Eaq. destruct Eaq as [r ->]. destruct r as [|x r]; [rewrite app_nil_r, path_eqb_refl; reflexivity|].
      assert (E2 : path_eqb (a ++ x :: r) a = false) by (apply path_eqb_neq; apply app_cons_neq_self).
      rewrite E2. symmetry. apply closed_below; [exact Hc | rewrite Ha; discriminate | discriminate].
    + assert (E2 : path_eqb q a = false) by (apply path_eqb_neq; intros ->; rewrite prefix_refl in Eaq; discriminate).
      rewrite E2. reflexivity.
Qed.

Lemma rename_result : forall s a b s', apply (Rename a b) s = inl s' -> s' = renamed a b s.
Proof. intros s a b s' H. cbn [apply] in H. inv_apply H; subst s'; reflexivity. Qed.

Lemma CL_rename_file : forall s a b v0 s', CL s -> look s a = Some (F v0) -> look s b <> Some D ->
  apply (Rename a b) s = inl s' -> kind_ok b (F v0) ->
  CL s' /\ forall q, look s' q = if path_eqb q b then Some (F v0) else if path_eqb q a then None else look s q.
Proof.
  intros s a b v0 s' Hcl Ha Hb Hap Hk.
  assert (I' : fs_inv_weak s') by (apply (apply_inv (Rename a b) s); [apply Hcl | exact Hap]).
  pose proof (rename_result _ _ _ _ Hap) as ->.
  pose proof (rename_file_look s a b v0 (proj1 Hcl) Ha Hb) as L. split; [|exact L].
  set (mid := upd a None s).
  assert (Im : fs_inv_weak mid) by (apply (apply_inv (Unlink a) s); [apply Hcl | apply (unlink_ok s a v0 Ha)]).
  assert (Hm : CL mid) by (apply (CL_upd s a None mid Hcl); [intro r; reflexivity | exact Im | intros n0 Hn0; discriminate]).
  apply (CL_upd mid b (Some (F v0)) _ Hm); [| exact I' | intros n0 Hn0; inversion Hn0; subst; exact Hk].
  intro r. rewrite (L r). unfold mid. cbn [look upd]. reflexivity.
Qed.

(* _makedirs_synced of a cache folder *)
Lemma md_cache_nf : forall c sub s n (Q : npost) EE,
  coll_path c = true -> centry_dir sub = true -> CL s -> look s c = Some D ->
  (forall s', CL s' -> dframe s s' -> look s' (c ++ [Cache; sub]) = Some D ->
     (forall q, prefix q (c ++ [Cache; sub]) = false -> look s' q = look s q) -> Q s' n) ->
  nfwp (MD (c ++ [Cache; sub])) Q EE s n.
Proof.
  intros c sub s n Q EE Hc Hs Hcl Hlc HQ. set (cd := c ++ [Cache; sub]).
  apply md_nf; [apply Hcl | apply cache_chain_ok; assumption |]. intros s1 I1 P1.
  assert (Hcl1 : CL s1) by (apply (CL_md s cd s1 Hcl P1 I1); intros r Hr Hne; apply (kind_cache_chain c sub); assumption).
  apply HQ; [exact Hcl1 | | | ].
  - intros q Hd. rewrite (P1 q). destruct (prefix q cd && nonempty q) eqn:E; [|reflexivity].
    apply andb_true_iff in E. destruct E as [E _]. symmetry.
    apply (closed_prefix_dir s c); [apply Hcl | exact Hlc | apply (data_prefix_of_cache c sub); assumption].
  - change (look s1 cd = Some D). rewrite (P1 cd), prefix_refl. unfold cd. destruct c; reflexivity.
  - intros q Hq. rewrite (P1 q). fold cd in Hq. rewrite Hq. reflexivity.
Qed.

Lemma coll_look_frame : forall s s' c, coll_path c = true -> dframe s s' -> look s c = Some D -> look s' c = Some D.
Proof. intros s s' c Hc Hdf H. rewrite (Hdf c (coll_is_data c Hc)). exact H. Qed.

Section MoveTail.
  Variables (c c' : path) (h h' : name) (v : N).
  Hypotheses (Hc : coll_path c = true) (Hc' : coll_path c' = true) (Hh : is_safe h = true) (Hh' : is_safe h' = true).

  Lemma move_tail_nf : forall s n,
    CL s -> look s c = Some D -> look s c' = Some D ->
    nfwp (seqs [update_history lay0 c' h' (Some v); update_history lay0 c h None; clean_history lay0 c' [];
                (if path_eqb c c' then Ret else clean_history lay0 c [])]) (fun s' _ => CL s') NoExn s n.
  Proof.
    intros s n Hcl Hlc Hlc'. cbn [seqs nfwp].
    apply update_history_nf; try assumption. intros s1 n1 Hcl1 Hdf1 _.
    apply update_history_nf; try assumption; [apply (coll_look_frame s s1 c Hc Hdf1 Hlc)|]. intros s2 n2 Hcl2 Hdf2 _.
    unfold clean_history. cbn [clean_list nfwp]. destruct (path_eqb c c'); cbn [nfwp]; exact Hcl2.
  Qed.

  Lemma move_nf : forall v0 s0 n,
    CL s0 -> look s0 c = Some D -> look s0 c' = Some D ->
    look s0 (c ++ [h]) = Some (F v0) -> look s0 (c' ++ [h']) <> Some D -> c ++ [h] <> c' ++ [h'] ->
    nfwp (move lay0 c h c' h' v [] []) (fun s' _ => CL s') NoExn s0 n.
  Proof.
    intros v0 s0 n Hcl Hlc Hlc' Hsrc Hdst Hne. unfold move.
    rewrite !(cache_dir_lay0 CItem _ eq_refl).
    set (a := c ++ [h]). set (b := c' ++ [h']). set (cd := c ++ [Cache; CItem]). set (cd' := c' ++ [Cache; CItem]).
    cbn [seqs]. cbn [nfwp]. unfold Do at 1. cbn [nfwp].
    assert (Hab : prefix a b = false).
    { destruct (prefix a b) eqn:E; [|reflexivity]. exfalso. apply prefix_spec in E. destruct E as [r E].
      destruct r as [|x r] using rev_ind; [rewrite app_nil_r in E; apply Hne; symmetry; exact E|].
      unfold b in E. rewrite app_assoc in E. apply snoc_inj in E. destruct E as [E _].
      assert (X : look s0 a = Some D) by (apply (closed_prefix_dir s0 c'); [apply Hcl | exact Hlc' | rewrite E; apply prefix_app]).
      unfold a in X. congruence. }
    assert (C1 : apply (Rename a b) s0 = inl (renamed a b s0)).
    { apply (rename_file_ok s0 a b v0); [apply snoc_not_nil | apply snoc_not_nil | exact Hab | unfold b; rewrite parent_snoc; exact Hlc' | exact Hsrc | exact Hdst]. }
    rewrite C1. cbn [nfwp].
    destruct (CL_rename_file s0 a b v0 _ Hcl Hsrc Hdst C1 (kind_item c' h' v0 Hc' (or_introl Hh'))) as [Hcl1 L1].
    set (s1 := renamed a b s0) in *.
    assert (Hdir : forall d, look s0 d = Some D -> d <> b -> look s1 d = Some D).
    { intros d Hd Hdb. rewrite (L1 d). destruct (path_eqb d b) eqn:E1; [apply path_eqb_eq in E1; contradiction|].
      destruct (path_eqb d a) eqn:E2; [apply path_eqb_eq in E2; subst d; change (look s0 (c ++ [h]) = Some D) in Hd; congruence | exact Hd]. }
    assert (Hlc1' : look s1 c' = Some D) by (apply Hdir; [exact Hlc' | apply snoc_neq_self]).
    assert (Hlc1 : look s1 c = Some D) by (apply Hdir; [exact Hlc | intro E; subst b; rewrite E in Hlc; contradiction]).
    unfold fsyncD at 1. cbn [nfwp]. rewrite (fsyncD_ok s1 c' Hlc1'). cbn [nfwp].
    assert (Hsync : forall (Q : npost), Q s1 n -> nfwp (if path_eqb c c' then Ret else fsyncD c) Q NoExn s1 n).
    { intros Q HQ. destruct (path_eqb c c'); [exact HQ|]. unfold fsyncD. cbn [nfwp]. rewrite (fsyncD_ok s1 c Hlc1). exact HQ. }
    apply Hsync.
    apply md_cache_nf; try assumption; [reflexivity|]. intros s2 Hcl2 Hdf2 Hcd2 _. fold cd' in Hcd2.
    assert (Hlc2 : look s2 c = Some D) by (apply (coll_look_frame s1 s2 c Hc Hdf2 Hlc1)).
    assert (Hlc2' : look s2 c' = Some D) by (apply (coll_look_frame s1 s2 c' Hc' Hdf2 Hlc1')).
    destruct (apply (Rename (cd ++ [h]) (cd' ++ [h'])) s2) as [s3|e] eqn:C3.
    - (* the cache entry moves along *)
      assert (Hsrc3 : exists cv, look s2 (cd ++ [h]) = Some (F cv)).
      { assert (X : look s2 (cd ++ [h]) <> None).
        { intro X. cbn [apply] in C3. rewrite X in C3. inv_apply C3. }
        unfold cd in *. rewrite <- app_assoc in *. cbn [app] in *.
        replace (c ++ [Cache; CItem; h]) with ((c ++ [Cache]) ++ [CItem; h]) in * by (rewrite <- app_assoc; reflexivity).
        destruct (look s2 ((c ++ [Cache]) ++ [CItem; h])) as [nd|] eqn:E; [|congruence].
        destruct (proj2 Hcl2 _ _ E) as (_ & _ & K). destruct (K (c ++ [Cache]) CItem h eq_refl eq_refl) as [cv ->]. exists cv. reflexivity. }
      destruct Hsrc3 as [cv Hsrc3].
      assert (Hdst3 : look s2 (cd' ++ [h']) <> Some D).
      { unfold cd'. rewrite <- app_assoc. cbn [app]. replace (c' ++ [Cache; CItem; h']) with ((c' ++ [Cache]) ++ [CItem; h']) by (rewrite <- app_assoc; reflexivity).
        apply CL_entry; [exact Hcl2 | reflexivity]. }
      destruct (CL_rename_file s2 _ _ cv s3 Hcl2 Hsrc3 Hdst3 C3 (kind_cache_entry c' CItem h' cv Hc' eq_refl Hh')) as [Hcl3 L3].
      assert (Hdf3 : dframe s2 s3).
      { intros q Hd. rewrite (L3 q).
        destruct (path_eqb q (cd' ++ [h'])) eqn:E1.
        { apply path_eqb_eq in E1. subst q. unfold cd' in Hd. rewrite <- app_assoc in Hd. cbn [app] in Hd. rewrite is_data_cache in Hd. discriminate. }
        destruct (path_eqb q (cd ++ [h])) eqn:E2; [|reflexivity].
        apply path_eqb_eq in E2. subst q. unfold cd in Hd. rewrite <- app_assoc in Hd. cbn [app] in Hd. rewrite is_data_cache in Hd. discriminate. }
      assert (Hcd3' : look s3 cd' = Some D).
      { rewrite (L3 cd'). destruct (path_eqb cd' (cd' ++ [h'])) eqn:E1; [apply path_eqb_eq in E1; apply snoc_neq_self in E1; contradiction|].
        destruct (path_eqb cd' (cd ++ [h])) eqn:E2; [apply path_eqb_eq in E2; rewrite <- E2 in Hsrc3; congruence | exact Hcd2]. }
      assert (Hcd3 : look s3 cd = Some D).
      { assert (X : look s2 cd = Some D) by (apply (closed_parent_dir s2 cd h); [apply Hcl2 | rewrite Hsrc3; discriminate]).
        rewrite (L3 cd). destruct (path_eqb cd (cd' ++ [h'])) eqn:E1; [apply path_eqb_eq in E1; rewrite <- E1 in Hdst3; contradiction|].
        destruct (path_eqb cd (cd ++ [h])) eqn:E2; [apply path_eqb_eq in E2; apply snoc_neq_self in E2; contradiction | exact X]. }
      cbn [nfwp]. apply md_existing_nf; [exact Hcd3'|].
      assert (Hk : forall (Q : npost), Q s3 n -> nfwp (if path_eqb cd cd' then Ret else MD cd) Q NoExn s3 n).
      { intros Q HQ. destruct (path_eqb cd cd'); [exact HQ | apply md_existing_nf; [exact Hcd3 | exact HQ]]. }
      apply Hk. apply move_tail_nf; [exact Hcl3 | apply (coll_look_frame s2 s3 c Hc Hdf3 Hlc2) | apply (coll_look_frame s2 s3 c' Hc' Hdf3 Hlc2')].
    - (* no cache entry to move *)
      cbn [nfwp]. apply move_tail_nf; assumption.
  Qed.
End MoveTail.

(* ------------------------------------------------------------------ the operations without cache tails, with CL *)
Lemma CL_sub : forall s0 s', CL s0 -> fs_inv_weak s' -> (forall q n, look s' q = Some n -> look s0 q = Some n) -> CL s'.
Proof. intros s0 s' Hcl I' H. split; [exact I'|]. intros q n Hq. apply (proj2 Hcl). apply H. exact Hq. Qed.

Lemma mkdir_nf : forall p s0 n, coll_path p = true -> CL s0 -> look s0 (parent p) = Some D ->
  (look s0 p = None \/ look s0 p = Some D) ->
  nfwp (mkdir_synced p) (fun s' _ => CL s') NoExn s0 n.
Proof.
  intros p s0 n Hp Hcl Hpar Hlp. pose proof (coll_ne p Hp) as Hne. unfold mkdir_synced. cbn [nfwp].
  destruct Hlp as [Hlp | Hlp]; rewrite Hlp; cbn [nfwp]; [|exact Hcl]. unfold Do, fsyncD. cbn [nfwp].
  pose proof (mkdir_ok s0 p Hne Hlp Hpar) as C1. rewrite C1. cbn [nfwp].
  assert (I1 : fs_inv_weak (upd p (Some D) s0)) by (apply (apply_inv _ _ _ (proj1 Hcl) C1)).
  assert (L : look (upd p (Some D) s0) (parent p) = Some D).
  { cbn [look upd]. destruct (path_eqb (parent p) p) eqn:E; [reflexivity | exact Hpar]. }
  rewrite (fsyncD_ok _ _ L). cbn [nfwp].
  apply (CL_upd s0 p (Some D) _ Hcl); [intro r; reflexivity | exact I1 |].
  intros n0 Hn0. inversion Hn0; subst. apply (kind_coll_prefix p p Hp (prefix_refl p) Hne).
Qed.

Lemma set_meta_nf : forall c pv s0 n, coll_path c = true -> CL s0 -> look s0 c = Some D -> look s0 (c ++ [Props]) <> Some D ->
  nfwp (set_meta c pv) (fun s' _ => CL s') NoExn s0 n.
Proof.
  intros c pv s0 n Hc Hcl Hlc Hp. unfold set_meta. cbn [nfwp].
  apply aw_nf; [apply Hcl | apply (coll_ne c Hc) | exact Hlc | apply (CL_tmp_free s0 Hcl) | exact Hp | discriminate |].
  intros s1 I1 U1. apply (CL_upd s0 _ _ s1 Hcl U1 I1). intros n0 Hn0. inversion Hn0; subst. apply kind_item; [exact Hc | right; reflexivity].
Qed.

Lemma delete_coll_nf : forall par x s0 n, is_safe x = true -> CL s0 -> look s0 (par ++ [x]) = Some D ->
  nfwp (delete_coll (par ++ [x])) (fun s' _ => CL s') NoExn s0 n.
Proof.
  intros par x s0 n Hsx Hcl Hc. pose proof (proj1 Hcl) as Hinv. unfold delete_coll. cbn [nfwp].
  assert (Hx : x <> Tmp n) by (destruct x; discriminate).
  pose proof (CL_tmp_free s0 Hcl par n) as Hf.
  set (c := par ++ [x]) in *.
  assert (Hpar : look s0 par = Some D) by (apply (closed_parent_dir s0 par x); [apply Hinv | fold c; rewrite Hc; discriminate]).
  assert (Hpc : parent c = par) by apply parent_snoc.
  destruct (apply (Rmdir c) s0) as [s1 | e] eqn:Ermdir.
  - unfold fsyncD. cbn [nfwp]. rewrite Hpc.
    assert (I1 : fs_inv_weak s1) by (apply (apply_inv _ _ _ Hinv Ermdir)).
    assert (U1 : s1 = upd c None s0) by (cbn [apply] in Ermdir; inv_apply Ermdir; subst s1; reflexivity).
    assert (L : look s1 par = Some D).
    { subst s1. cbn [look upd].
      destruct (path_eqb par c) eqn:Epc; [apply path_eqb_eq in Epc; unfold c in Epc; apply snoc_neq_self in Epc; contradiction | exact Hpar]. }
    rewrite (fsyncD_ok _ _ L). cbn [nfwp].
    apply (CL_upd s0 c None s1 Hcl); [subst s1; intro r; reflexivity | exact I1 | intros n0 Hn0; discriminate].
  - unfold with_tmp, Finally, Do, fsyncD. cbn [nfwp]. rewrite Hpc. set (t0 := par ++ [Tmp n]).
    assert (C1 : apply (Mkdir t0) s0 = inl (upd t0 (Some D) s0)).
    { apply mkdir_ok; [apply snoc_not_nil | exact Hf | unfold t0; rewrite parent_snoc; exact Hpar]. }
    rewrite C1. set (s1 := upd t0 (Some D) s0). assert (I1 : fs_inv_weak s1) by apply (apply_inv _ _ _ Hinv C1).
    set (b := t0 ++ [last_name c]).
    assert (Hct0 : path_eqb c t0 = false) by (unfold c, t0; apply path_eqb_snoc_diff; exact Hx).
    assert (C2 : apply (Rename c b) s1 = inl (renamed c b s1)).
    { apply rename_dir_ok; [apply snoc_not_nil | apply snoc_not_nil | | | |].
      - unfold b, c, t0. rewrite <- app_assoc. apply prefix_snoc_diff. exact Hx.
      - unfold b. rewrite parent_snoc. unfold s1. cbn [look upd]. rewrite path_eqb_refl. reflexivity.
      - unfold s1. cbn [look upd]. rewrite Hct0. exact Hc.
      - unfold s1. cbn [look upd]. destruct (path_eqb b t0) eqn:E; [apply path_eqb_eq in E; unfold b in E; symmetry in E; apply snoc_neq_self in E; contradiction|].
        unfold b. apply closed_below; [apply Hinv | unfold t0; rewrite Hf; discriminate | discriminate]. }
    rewrite C2. set (s2 := renamed c b s1). assert (I2 : fs_inv_weak s2) by apply (apply_inv _ _ _ I1 C2).
    assert (Hbpar : prefix b par = false).
    { destruct (prefix b par) eqn:E; [|reflexivity]. apply prefix_length in E. unfold b, t0 in E. rewrite !app_length in E. cbn in E. lia. }
    assert (Hcpar : prefix c par = false) by (unfold c; apply prefix_snoc_self_false).
    assert (L2 : look s2 par = Some D).
    { unfold s2, renamed. cbn [look]. rewrite Hbpar, Hcpar. unfold s1. cbn [look upd].
      destruct (path_eqb par t0) eqn:E; [reflexivity | exact Hpar]. }
    rewrite (fsyncD_ok _ _ L2).
    assert (L2t : look s2 t0 = Some D).
    { unfold s2, renamed. cbn [look]. unfold b at 1. rewrite prefix_snoc_self_false.
      assert (X : prefix c t0 = false) by (unfold c, t0; rewrite <- (app_nil_r (par ++ [Tmp n])), <- app_assoc; apply prefix_snoc_diff; exact Hx).
      rewrite X. unfold s1. cbn [look upd]. rewrite path_eqb_refl. reflexivity. }
    pose proof (rmtree_ok s2 t0 (snoc_not_nil _ _) L2t) as C3. rewrite C3. cbn [nfwp].
    apply (CL_sub s0 _ Hcl); [apply (apply_inv _ _ _ I2 C3)|].
    intros q nd. cbn [look]. destruct (prefix t0 q) eqn:Et; [discriminate|].
    unfold s2, renamed. cbn [look].
    destruct (prefix b q) eqn:Eb.
    { rewrite (prefix_trans t0 b q) in Et; [discriminate | unfold b; apply prefix_app | exact Eb]. }
    destruct (prefix c q); [discriminate|]. unfold s1. cbn [look upd].
    destruct (path_eqb q t0) eqn:E; [apply path_eqb_eq in E; subst q; rewrite prefix_refl in Et; discriminate | tauto].
Qed.
