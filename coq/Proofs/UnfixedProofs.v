(* C14 -- what was wrong in the pinned code (regression witnesses of the two repaired defects), by computation. *)
From Coq Require Import List NArith ZArith Bool String.
Import ListNotations.
Require Import RV.Lib.PyStr RV.Model.ContentLine RV.Model.Export RV.Model.Split.
Open Scope N_scope.

(* two VTIMEZONEs whose TZID lines are folded and differ only on the continuation line *)
Definition tzb (suffix : string) : block :=
  mkBlock s_BEGIN_VTIMEZONE [s_TZIDc ++ str "/example.org/Long"; SP :: str suffix; str "BEGIN:STANDARD"; str "TZOFFSETTO:+0100"; str "END:STANDARD"]
          (str "END:VTIMEZONE").
Definition evb (uid : string) : block := mkBlock (str "BEGIN:VEVENT") [str "UID:" ++ str uid] (str "END:VEVENT").
Definition it1 : item := mkItem [str "VERSION:2.0"] [tzb "/One"; evb "1"].
Definition it2 : item := mkItem [str "VERSION:2.0"] [tzb "/Two"; evb "2"].

Lemma export_unfixed_loses_vtimezone :
  wf_item it1 /\ wf_item it2 /\
  tz_key (tzb "/One") <> tz_key (tzb "/Two") /\
  vtimezones (run_items step_unfixed (map item_lines [it1; it2])) = block_lines (tzb "/One") /\
  vtimezones (run_items step (map item_lines [it1; it2])) = block_lines (tzb "/One") ++ block_lines (tzb "/Two").
Proof.
  assert (W : forall s, inner [s_TZIDc ++ str "/example.org/Long"; SP :: str s; str "BEGIN:STANDARD"; str "TZOFFSETTO:+0100"; str "END:STANDARD"]).
  { intros s. apply inner_plain; [reflexivity|reflexivity|]. apply inner_plain; [reflexivity|reflexivity|].
    apply (inner_nest (str "BEGIN:STANDARD") [str "TZOFFSETTO:+0100"] (str "END:STANDARD") []); try reflexivity.
    - apply inner_plain; [reflexivity|reflexivity|constructor].
    - constructor. }
  assert (E : forall u, inner [str "UID:" ++ str u]).
  { intros u. apply inner_plain; [reflexivity|reflexivity|constructor]. }
  assert (WI : forall it s u, it = mkItem [str "VERSION:2.0"] [tzb s; evb u] -> wf_item it).
  { intros it s u ->. split; cbn.
    - repeat constructor.
    - constructor; [|constructor; [|constructor]]; unfold wf_block; cbn; repeat split; try reflexivity; [apply W | apply E]. }
  split; [eapply WI; reflexivity|]. split; [eapply WI; reflexivity|].
  split; [vm_compute; discriminate|]. split; vm_compute; reflexivity.
Qed.

(* the pinned split attaches no VTIMEZONE at all (vobject then generates substitutes from a process-wide registry) *)
Definition up : upload :=
  mkUpload [mkTz (Some (str "Zone/A")) (tzb "/One")]
           [mkComp KEvent (str "u1") [str "Zone/A"] (evb "1"); mkComp KEvent (str "u2") [] (evb "2")].
Lemma split_unfixed_drops_vtimezones :
  map (fun g => List.length (g_tzs g)) (split_unfixed up) = [0; 0]%nat /\
  map (fun g => List.length (g_tzs g)) (split up) = [1; 0]%nat.
Proof. split; reflexivity. Qed.

(* non-vacuity of the hypotheses of the regroup theorem: a well-formed upload with a referenced, folded-TZID zone *)
Definition up_ok : upload :=
  mkUpload [mkTz (tz_key (tzb "/One")) (tzb "/One")]
           [mkComp KEvent (str "u1") [str "/example.org/Long/One"] (evb "1"); mkComp KTodo (str "u2") [] (evb "2")].
Lemma tzb_key : tz_key (tzb "/One") = Some (str "/example.org/Long/One").
Proof. vm_compute. reflexivity. Qed.
