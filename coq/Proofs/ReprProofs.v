(* Basic facts about the representation relation R of Model/Repr.v: the codes are injective, R only looks
   at data paths (so it is preserved by abs_eq: cache / temp residue never matters), R determines the L0
   store up to the order of the association lists, every L0 store has a representing file system. *)
From Coq Require Import List NArith Bool Lia.
Import ListNotations.
Require RV.Model.Store RV.Proofs.StoreLemmas RV.Proofs.HandlersInv.
Require Import RV.Model.Fs RV.Model.Repr RV.Proofs.FsLemmas.
Open Scope N_scope.

Module SL := RV.Proofs.StoreLemmas.
Module HI := RV.Proofs.HandlersInv.

(* ------------------------------------------------------------------ codes *)
Lemma npair_inj : forall x y x' y', npair x y = npair x' y' -> x = x' /\ y = y'.
Proof.
  unfold npair. intros x y x' y' H.
  assert (Hs : x + y = x' + y').
  { destruct (N.lt_trichotomy (x + y) (x' + y')) as [L | [E | L]]; [exfalso | exact E | exfalso]; nia. }
  rewrite Hs in H. split; lia.
Qed.

Lemma ocode_inj : forall o1 o2, ocode o1 = ocode o2 -> o1 = o2.
Proof.
  intros [u1 c1 i1] [u2 c2 i2] H. unfold ocode in H. cbn in H.
  apply npair_inj in H. destruct H as [-> H]. apply npair_inj in H. destruct H as [Hc ->].
  destruct c1, c2; cbn in Hc; try discriminate; reflexivity.
Qed.

Lemma lcode_inj : forall l1 l2, lcode l1 = lcode l2 -> l1 = l2.
Proof.
  induction l1 as [|[k v] l1 IH]; intros [|[k' v'] l2] H; cbn [lcode] in H; try reflexivity; try lia.
  assert (H' : npair k (npair v (lcode l1)) = npair k' (npair v' (lcode l2))) by lia.
  apply npair_inj in H'. destruct H' as [-> H']. apply npair_inj in H'. destruct H' as [-> H'].
  f_equal. apply IH. exact H'.
Qed.

Lemma pcode_inj : forall t1 p1 t2 p2, pcode t1 p1 = pcode t2 p2 -> t1 = t2 /\ p1 = p2.
Proof.
  intros t1 p1 t2 p2 H. unfold pcode in H. apply npair_inj in H. destruct H as [Ht Hl].
  split; [destruct t1, t2; cbn in Ht; try discriminate; reflexivity | apply lcode_inj; exact Hl].
Qed.

(* ------------------------------------------------------------------ fp and the path predicates *)
Lemma fp_snoc : forall p h, fp (p ++ [h]) = fp p ++ [Safe h].
Proof. intros. unfold fp. rewrite map_app. reflexivity. Qed.

Lemma fp_app : forall p r, fp (p ++ r) = fp p ++ map Safe r.
Proof. intros. unfold fp. rewrite map_app. reflexivity. Qed.

Lemma map_safe_eqb : forall a b, path_eqb (map Safe a) (map Safe b) = ST.path_eqb a b.
Proof. induction a as [|x a IH]; intros [|y b]; cbn; try reflexivity. rewrite IH. reflexivity. Qed.
Lemma map_safe_prefix : forall a b, prefix (map Safe a) (map Safe b) = ST.is_prefix a b.
Proof. induction a as [|x a IH]; intros [|y b]; cbn; try reflexivity. rewrite IH. reflexivity. Qed.

Lemma fp_eqb : forall a b, path_eqb (fp a) (fp b) = ST.path_eqb a b.
Proof. intros. unfold fp. cbn. apply map_safe_eqb. Qed.
Lemma fp_prefix : forall a b, prefix (fp a) (fp b) = ST.is_prefix a b.
Proof. intros. unfold fp. cbn. apply map_safe_prefix. Qed.

Lemma map_safe_prefix_props : forall a b, prefix (map Safe a) (map Safe b ++ [Props]) = ST.is_prefix a b.
Proof.
  induction a as [|x a IH]; intros [|y b]; cbn; try reflexivity; try (rewrite IH; reflexivity); destruct a; reflexivity.
Qed.
Lemma fp_prefix_props : forall a b, prefix (fp a) (fp b ++ [Props]) = ST.is_prefix a b.
Proof. intros. unfold fp. cbn. apply map_safe_prefix_props. Qed.

Lemma map_safe_neq_props : forall a b, path_eqb (map Safe b ++ [Props]) (map Safe a) = false.
Proof.
  induction a as [|x a IH]; intros [|y b]; cbn; try reflexivity; try (rewrite IH; reflexivity); try (destruct b; reflexivity); try (rewrite IH; apply andb_false_r).
Qed.
Lemma fp_props_neq : forall a b, path_eqb (fp b ++ [Props]) (fp a) = false.
Proof. intros. unfold fp. cbn. apply map_safe_neq_props. Qed.
Lemma fp_neq_props : forall a b, path_eqb (fp a) (fp b ++ [Props]) = false.
Proof. intros. rewrite path_eqb_sym. apply fp_props_neq. Qed.

Lemma map_safe_props_eqb : forall a b, path_eqb (map Safe b ++ [Props]) (map Safe a ++ [Props]) = ST.path_eqb b a.
Proof.
  induction a as [|x a IH]; intros [|y b]; cbn; try reflexivity; try (rewrite IH; reflexivity); try (destruct b; reflexivity); destruct a; reflexivity.
Qed.
Lemma fp_props_eqb : forall a b, path_eqb (fp b ++ [Props]) (fp a ++ [Props]) = ST.path_eqb b a.
Proof. intros. unfold fp. cbn. apply map_safe_props_eqb. Qed.

Lemma map_safe_props_prefix : forall a b, prefix (map Safe a ++ [Props]) (map Safe b) = false.
Proof.
  induction a as [|x a IH]; intros [|y b]; cbn; try reflexivity; try (rewrite IH; reflexivity); try (rewrite IH; apply andb_false_r).
Qed.
Lemma fp_props_prefix : forall a b, prefix (fp a ++ [Props]) (fp b) = false.
Proof. intros. unfold fp. cbn. apply map_safe_props_prefix. Qed.
Lemma map_safe_props_prefix_props : forall a b, prefix (map Safe a ++ [Props]) (map Safe b ++ [Props]) = ST.path_eqb a b.
Proof.
  induction a as [|x a IH]; intros [|y b]; cbn; try reflexivity; try (rewrite IH; reflexivity); try (destruct b; reflexivity); destruct a; reflexivity.
Qed.
Lemma fp_props_prefix_props : forall a b, prefix (fp a ++ [Props]) (fp b ++ [Props]) = ST.path_eqb a b.
Proof. intros. unfold fp. cbn. apply map_safe_props_prefix_props. Qed.

Lemma forallb_safe_map : forall p, forallb is_safe (map Safe p) = true.
Proof. induction p; cbn; auto. Qed.
Lemma rel_data_map_safe : forall p, rel_data (map Safe p) = true.
Proof. induction p as [|x p IH]; [reflexivity|]. cbn [map rel_data]. destruct (map Safe p) eqn:E; [reflexivity | exact IH]. Qed.
Lemma rel_data_map_safe_props : forall p, rel_data (map Safe p ++ [Props]) = true.
Proof.
  induction p as [|x p IH]; [reflexivity|]. cbn [map app rel_data].
  destruct (map Safe p ++ [Props]) eqn:E; [destruct (map Safe p); discriminate | exact IH].
Qed.
Lemma fp_data : forall p, is_data (fp p) = true.
Proof. intro p. cbn. apply rel_data_map_safe. Qed.
Lemma fp_props_data : forall p, is_data (fp p ++ [Props]) = true.
Proof. intro p. cbn. apply rel_data_map_safe_props. Qed.

(* every data path is fp p or the props file of fp p *)
Lemma rel_data_cases : forall r, rel_data r = true -> exists p, r = map Safe p \/ r = map Safe p ++ [Props].
Proof.
  induction r as [|x r IH]; intro H; [exists []; left; reflexivity|].
  cbn [rel_data] in H. destruct r as [|y r].
  - destruct x; cbn in H; try discriminate; [exists [n]; left; reflexivity | exists []; right; reflexivity].
  - apply andb_true_iff in H. destruct H as [Hx Hr]. destruct x; try discriminate.
    destruct (IH Hr) as [p [E | E]]; exists (n :: p); [left | right]; cbn; rewrite E; reflexivity.
Qed.
Lemma data_cases : forall q, is_data q = true -> exists p, q = fp p \/ q = fp p ++ [Props].
Proof.
  intros [|x r] H; [discriminate|]. destruct x; try discriminate. cbn in H.
  destruct (rel_data_cases r H) as [p [E | E]]; exists p; [left | right]; unfold fp; rewrite E; reflexivity.
Qed.

(* ------------------------------------------------------------------ R looks at data paths only *)
Lemma R_abs : forall s s' sigma, R s sigma -> abs_eq s' s -> R s' sigma.
Proof.
  intros s s' sigma H Ha p. rewrite (Ha _ (fp_data p)), (Ha _ (fp_props_data p)). apply H.
Qed.

(* R only depends on the look-up function of the L0 store *)
Lemma resolve_ext : forall s1 s2, (forall p, ST.lookup s1 p = ST.lookup s2 p) -> forall p, ST.resolve s1 p = ST.resolve s2 p.
Proof. intros s1 s2 H p. unfold ST.resolve. rewrite !H. reflexivity. Qed.
Lemma R_ext : forall s s1 s2, (forall p, ST.lookup s1 p = ST.lookup s2 p) -> R s s1 -> R s s2.
Proof.
  intros s s1 s2 H HR p. destruct (HR p) as [A B]. split.
  - rewrite A. unfold nview. rewrite (resolve_ext s1 s2 H). reflexivity.
  - unfold props_ok in *. rewrite <- H. exact B.
Qed.

(* ------------------------------------------------------------------ resolve *)
Lemma nview_coll : forall sigma p, nview sigma p = Some D <-> ST.lookup sigma p <> None.
Proof.
  intros sigma p. unfold nview, ST.resolve. destruct (ST.lookup sigma p) as [c|]; [split; [discriminate | reflexivity]|].
  split; [|congruence]. destruct p; [discriminate|]. destruct (ST.lookup sigma (ST.parent (n :: p))) as [pc|]; [|discriminate].
  destruct (ST.assoc (ST.c_items pc) (ST.last_name (n :: p))); discriminate.
Qed.

(* a collection that has a child collection holds no items *)
Lemma parent_no_items : forall sigma p c, HI.store_inv sigma -> ST.lookup sigma p = Some c -> p <> [] ->
  exists pc, ST.lookup sigma (ST.parent p) = Some pc /\ ST.c_items pc = [].
Proof.
  intros sigma p c (Hnd & Hroot & Hc & Hp) Hl Hne. destruct (Hp p c Hl Hne) as (pc & Hpl & Hpt).
  exists pc. split; [exact Hpl|]. destruct (Hc _ _ Hpl) as (_ & _ & Hv).
  destruct (ST.c_items pc) as [|[n o] r] eqn:E; [reflexivity|]. exfalso.
  specialize (Hv n o (or_introl eq_refl)). rewrite Hpt in Hv. exact Hv.
Qed.

Lemma parent_snoc' : forall (p : ST.path) h, ST.parent (p ++ [h]) = p.
Proof. intros. unfold ST.parent. apply removelast_last. Qed.
Lemma last_name_snoc : forall (p : ST.path) h, ST.last_name (p ++ [h]) = h.
Proof. intros. unfold ST.last_name. apply last_last. Qed.

(* below a path that is not a collection there are no collections *)
Lemma no_coll_below : forall sigma p, HI.store_inv sigma -> ST.lookup sigma p = None ->
  forall r, ST.lookup sigma (p ++ r) = None.
Proof.
  intros sigma p Hinv Hn r. induction r as [|x r IH] using rev_ind; [rewrite app_nil_r; exact Hn|].
  destruct (ST.lookup sigma (p ++ r ++ [x])) as [c|] eqn:E; [|reflexivity]. exfalso.
  destruct Hinv as (_ & _ & _ & Hp). rewrite app_assoc in E.
  destruct (Hp _ _ E) as (pc & Hpl & _); [destruct (p ++ r); discriminate|].
  rewrite parent_snoc' in Hpl. congruence.
Qed.

(* ------------------------------------------------------------------ the data view determines the L0 store *)
Lemma R_functional : forall s s1 s2, R s s1 -> R s s2 -> HI.store_inv s1 -> HI.store_inv s2 ->
  forall p, coll_equiv (ST.lookup s1 p) (ST.lookup s2 p).
Proof.
  intros s s1 s2 H1 H2 I1 I2 p.
  assert (Hn : forall q, nview s1 q = nview s2 q) by (intro q; rewrite <- (proj1 (H1 q)); apply (proj1 (H2 q))).
  destruct (ST.lookup s1 p) as [c1|] eqn:E1; destruct (ST.lookup s2 p) as [c2|] eqn:E2; cbn.
  - (* both collections *)
    destruct (H1 p) as [_ P1], (H2 p) as [_ P2]. unfold props_ok in P1, P2. rewrite E1 in P1. rewrite E2 in P2.
    assert (Htp : ST.c_tag c1 = ST.c_tag c2 /\ ST.c_props c1 = ST.c_props c2).
    { destruct (look s (fp p ++ [Props])) as [[|v]|]; [contradiction | | ].
      - subst v. apply pcode_inj in P2. destruct P2; split; congruence.
      - destruct P1 as [A1 B1], P2 as [A2 B2]. split; congruence. }
    destruct Htp as [Ht Hp]. split; [exact Ht|]. split; [exact Hp|]. intro h.
    specialize (Hn (p ++ [h])).
    destruct (ST.lookup s1 (p ++ [h])) as [cc|] eqn:C1.
    + (* a child collection: neither store has items in p *)
      assert (C2 : ST.lookup s2 (p ++ [h]) <> None).
      { apply nview_coll. rewrite <- Hn. apply nview_coll. congruence. }
      destruct (ST.lookup s2 (p ++ [h])) as [cc2|] eqn:C2'; [|congruence].
      destruct (parent_no_items s1 _ _ I1 C1) as (pc1 & L1 & N1); [destruct p; discriminate|].
      destruct (parent_no_items s2 _ _ I2 C2') as (pc2 & L2 & N2); [destruct p; discriminate|].
      rewrite parent_snoc' in L1, L2. rewrite E1 in L1. rewrite E2 in L2. inversion L1; inversion L2; subst.
      rewrite N1, N2. reflexivity.
    + assert (C2 : ST.lookup s2 (p ++ [h]) = None).
      { destruct (ST.lookup s2 (p ++ [h])) eqn:C2'; [|reflexivity]. exfalso.
        assert (X : ST.lookup s1 (p ++ [h]) <> None) by (apply nview_coll; rewrite Hn; apply nview_coll; congruence). congruence. }
      unfold nview, ST.resolve in Hn. rewrite C1, C2 in Hn.
      destruct (p ++ [h]) eqn:Eph; [destruct p; discriminate|]. rewrite <- Eph in Hn.
      rewrite parent_snoc', last_name_snoc, E1, E2 in Hn.
      destruct (ST.assoc (ST.c_items c1) h) as [o1|], (ST.assoc (ST.c_items c2) h) as [o2|]; try discriminate; try reflexivity.
      inversion Hn as [Ho]. apply ocode_inj in Ho. subst. reflexivity.
  - exfalso. assert (X : ST.lookup s2 p <> None) by (apply nview_coll; rewrite <- Hn; apply nview_coll; congruence). congruence.
  - exfalso. assert (X : ST.lookup s1 p <> None) by (apply nview_coll; rewrite Hn; apply nview_coll; congruence). congruence.
  - exact I.
Qed.

(* ------------------------------------------------------------------ every L0 store is represented *)
Lemma unsafe_map : forall p, unsafe (map Safe p) = Some (p, false).
Proof. induction p as [|x p IH]; [reflexivity|]. cbn. rewrite IH. reflexivity. Qed.
Lemma unsafe_map_props : forall p, unsafe (map Safe p ++ [Props]) = Some (p, true).
Proof. induction p as [|x p IH]; [reflexivity|]. cbn. rewrite IH. reflexivity. Qed.

Lemma R_fs_of : forall sigma, R (fs_of sigma) sigma.
Proof.
  intros sigma p. unfold fs_of, fp. cbn [look]. split.
  - cbn [app]. rewrite unsafe_map. reflexivity.
  - change ((Root :: map Safe p) ++ [Props]) with (Root :: (map Safe p ++ [Props])). cbn iota. rewrite unsafe_map_props.
    unfold props_ok. destruct (ST.lookup sigma p); reflexivity.
Qed.
