(* C14 -- build (vobject's readComponents as a stack machine) inverts flatten on well-formed trees.
   All statements are as requested; nothing had to be changed. *)
From Coq Require Import List NArith Bool Lia.
Import ListNotations.
Require Import RV.Lib.PyStr RV.Proofs.PyStrLemmas RV.Model.ContentLine RV.Model.Vobj RV.Model.C14Spec.
Open Scope N_scope.

(* ------------------------------------------------------------------ strong induction on trees *)
Fixpoint node_ind' (P : node -> Prop) (HL : forall l, P (L l))
         (HC : forall n ch, Forall P ch -> P (C n ch)) (x : node) : P x :=
  match x with
  | L l => HL l
  | C n ch =>
      HC n ch ((fix go (l : list node) : Forall P l :=
                  match l with
                  | [] => Forall_nil P
                  | y :: r => Forall_cons y (node_ind' P HL HC y) (go r)
                  end) ch)
  end.

(* a tree as vobject holds it: component names are upper-case, no content line is itself called BEGIN or END *)
Inductive wf_node : node -> Prop :=
| wf_L l : eqs (cl_name l) s_BEGIN = false -> eqs (cl_name l) s_END = false -> wf_node (L l)
| wf_C n ch : upper_ascii n = n -> Forall wf_node ch -> wf_node (C n ch).

(* ------------------------------------------------------------------ flatten *)
Lemma flatten_all_nil : flatten_all [] = [].
Proof. reflexivity. Qed.

Lemma flatten_all_cons : forall x r, flatten_all (x :: r) = flatten x ++ flatten_all r.
Proof. intros x r. reflexivity. Qed.

Lemma flatten_all_app : forall a b, flatten_all (a ++ b) = flatten_all a ++ flatten_all b.
Proof.
  intros a b. unfold flatten_all. rewrite map_app. apply concat_app.
Qed.

Lemma flatten_fix_all : forall ch,
  (fix fl (l : list node) : list cl :=
     match l with [] => [] | y :: r => flatten y ++ fl r end) ch = flatten_all ch.
Proof.
  induction ch as [|y r IH].
  - reflexivity.
  - rewrite flatten_all_cons. rewrite IH. reflexivity.
Qed.

Lemma flatten_C : forall n ch, flatten (C n ch) = begin_line n :: flatten_all ch ++ [end_line n].
Proof.
  intros n ch. rewrite <- flatten_fix_all. reflexivity.
Qed.

(* ------------------------------------------------------------------ single steps of the stack machine *)
Lemma build_aux_begin : forall n r st tops,
  build_aux (begin_line n :: r) st tops = build_aux r ((upper_ascii n, []) :: st) tops.
Proof. intros n r st tops. reflexivity. Qed.

Lemma build_aux_end : forall n r m ch st tops,
  build_aux (end_line n :: r) ((m, ch) :: st) tops =
  if eqs (upper_ascii n) m then
    match st with
    | [] => build_aux r [] (C m (rev ch) :: tops)
    | (n', ch') :: st' => build_aux r ((n', C m (rev ch) :: ch') :: st') tops
    end
  else None.
Proof. intros n r m ch st tops. reflexivity. Qed.

Lemma build_aux_line : forall l r n ch st tops,
  eqs (cl_name l) s_BEGIN = false -> eqs (cl_name l) s_END = false ->
  build_aux (l :: r) ((n, ch) :: st) tops = build_aux r ((n, L l :: ch) :: st) tops.
Proof.
  intros l r n ch st tops HB HE.
  unfold build_aux; fold build_aux. rewrite HB, HE. reflexivity.
Qed.

(* ------------------------------------------------------------------ the generalised statement *)
Definition consumed_inner (x : node) : Prop :=
  forall rest n' ch' st tops,
    build_aux (flatten x ++ rest) ((n', ch') :: st) tops = build_aux rest ((n', x :: ch') :: st) tops.

Definition consumed_top (x : node) : Prop :=
  forall rest tops, build_aux (flatten x ++ rest) [] tops = build_aux rest [] (x :: tops).

Lemma consumed_children : forall ch,
  Forall consumed_inner ch ->
  forall rest m acc st tops,
    build_aux (flatten_all ch ++ rest) ((m, acc) :: st) tops =
    build_aux rest ((m, rev ch ++ acc) :: st) tops.
Proof.
  induction ch as [|y r IH]; intros HF rest m acc st tops.
  - reflexivity.
  - inversion HF as [|y0 r0 Hy Hr]; subst.
    rewrite flatten_all_cons. rewrite <- app_assoc.
    rewrite (Hy (flatten_all r ++ rest) m acc st tops).
    rewrite (IH Hr rest m (y :: acc) st tops).
    simpl rev. rewrite <- app_assoc. reflexivity.
Qed.

Lemma Forall_wf_consumed : forall (ch : list node),
  Forall (fun y => wf_node y -> consumed_inner y) ch -> Forall wf_node ch -> Forall consumed_inner ch.
Proof.
  induction ch as [|y r IH]; intros HP HW.
  - constructor.
  - inversion HP as [|y0 r0 Hy Hr]; subst. inversion HW as [|y1 r1 Wy Wr]; subst.
    constructor.
    + apply Hy. exact Wy.
    + apply IH; assumption.
Qed.

Lemma comp_shape : forall n ch rest,
  flatten (C n ch) ++ rest = begin_line n :: flatten_all ch ++ (end_line n :: rest).
Proof.
  intros n ch rest. rewrite flatten_C. simpl. rewrite <- app_assoc. reflexivity.
Qed.

Lemma wf_consumed_inner : forall x, wf_node x -> consumed_inner x.
Proof.
  intros x. induction x as [l | n ch IH] using node_ind'; intros HW.
  - inversion HW as [l0 HB HE |]; subst.
    intros rest n' ch' st tops. simpl flatten. simpl app.
    apply build_aux_line; assumption.
  - inversion HW as [| n0 ch0 HU HF]; subst.
    assert (HCI : Forall consumed_inner ch) by (apply Forall_wf_consumed; assumption).
    intros rest n' ch' st tops.
    rewrite comp_shape. rewrite build_aux_begin.
    rewrite (consumed_children ch HCI).
    rewrite build_aux_end. rewrite eqs_refl.
    rewrite app_nil_r, rev_involutive, HU. reflexivity.
Qed.

Lemma wf_consumed_top : forall n ch, wf_node (C n ch) -> consumed_top (C n ch).
Proof.
  intros n ch HW. inversion HW as [| n0 ch0 HU HF]; subst.
  assert (HCI : Forall consumed_inner ch).
  { clear HW HU. induction HF as [|y r Wy Wr IH]; constructor.
    - apply wf_consumed_inner. exact Wy.
    - exact IH. }
  intros rest tops.
  rewrite comp_shape. rewrite build_aux_begin.
  rewrite (consumed_children ch HCI).
  rewrite build_aux_end. rewrite eqs_refl.
  rewrite app_nil_r, rev_involutive, HU. reflexivity.
Qed.

(* the combined form of the generalised lemma *)
Lemma build_aux_flatten : forall x, wf_node x ->
  (forall rest n' ch' st tops,
     build_aux (flatten x ++ rest) ((n', ch') :: st) tops = build_aux rest ((n', x :: ch') :: st) tops)
  /\ (forall n ch, x = C n ch ->
      forall rest tops, build_aux (flatten x ++ rest) [] tops = build_aux rest [] (x :: tops)).
Proof.
  intros x HW. split.
  - apply wf_consumed_inner. exact HW.
  - intros n ch E. subst x. apply wf_consumed_top. exact HW.
Qed.

Lemma build_aux_flatten_all_top : forall xs,
  Forall (fun x => exists n ch, x = C n ch /\ wf_node x) xs ->
  forall tops, build_aux (flatten_all xs) [] tops = Some (rev tops ++ xs).
Proof.
  induction xs as [|x r IH]; intros HF tops.
  - simpl. rewrite app_nil_r. reflexivity.
  - inversion HF as [|x0 r0 Hx Hr]; subst.
    destruct Hx as [n [ch [E HW]]]. subst x.
    rewrite flatten_all_cons.
    rewrite (wf_consumed_top n ch HW (flatten_all r) tops).
    rewrite (IH Hr (C n ch :: tops)).
    simpl rev. rewrite <- app_assoc. reflexivity.
Qed.

Theorem build_flatten : forall xs,
  Forall (fun x => exists n ch, x = C n ch /\ wf_node x) xs -> build (flatten_all xs) = Some xs.
Proof.
  intros xs HF. unfold build.
  rewrite (build_aux_flatten_all_top xs HF []). reflexivity.
Qed.

(* ------------------------------------------------------------------ a nested instance *)
Module TreeExample.
  Import String.
  Definition ln (k v : string) : cl := mkCl None (str k) [] (str v).
  Definition ex : node :=
    C (str "VCALENDAR")
      [ L (ln "VERSION" "2.0");
        C (str "VEVENT") [ L (ln "UID" "u1"); C (str "VALARM") [ L (ln "ACTION" "DISPLAY") ] ] ].
End TreeExample.

Example build_flatten_example :
  exists x, wf_node x /\ (exists n a b r, x = C n (a :: C b r :: nil)) /\ build (flatten x) = Some [x].
Proof.
  exists TreeExample.ex. split; [| split].
  - unfold TreeExample.ex.
    repeat (first [ apply wf_C; [vm_compute; reflexivity |]
                  | apply wf_L; vm_compute; reflexivity
                  | apply Forall_cons
                  | apply Forall_nil ]).
  - unfold TreeExample.ex. do 4 eexists. reflexivity.
  - vm_compute. reflexivity.
Qed.

Print Assumptions build_flatten.
Print Assumptions build_flatten_example.
