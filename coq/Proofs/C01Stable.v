(* C01 -- "nothing else appears or disappears", over whole histories: an item stays exactly as stored until a
   request addresses it (PUT/DELETE of it or of a collection containing it, MOVE from or onto it, MKCOL on its name).
   Every other request -- successful or failed, by any user under any policy, with the gate's home creation --
   leaves the item at p with the same content.  With [put_item_effect] this is read-your-writes across arbitrary
   unrelated traffic. *)
From Coq Require Import List NArith Bool Lia.
Import ListNotations.
Require Import RV.Lib.PyStr RV.Lib.Item RV.Model.Store RV.Model.Access RV.Model.Handlers
               RV.Proofs.StoreLemmas RV.Proofs.HandlersInv RV.Proofs.HandlersStore.
Open Scope N_scope.

Definition item_at (s : store) (p : path) (o : obj) : Prop := exists pc, resolve s p = NItem pc o.

(* the request does not address p: *)
Definition leaves (p : path) (r : request) : bool :=
  match r with
  | RPut q _ _ _ _ => negb (is_prefix q p)          (* not a PUT of p or of a collection above it *)
  | RDelete q _ => negb (is_prefix q p)              (* not a DELETE of p or of a collection above it *)
  | RMove q _ to _ => negb (path_eqb q p) && negb (path_eqb to p)
  | RMkcol q _ | RMkcalendar q _ => negb (path_eqb q p)
  | RProppatch _ _ | RGet _ | RPropfind _ _ | RMultiget _ _ _ | RQuery _ _ _ => true
  end.

Lemma item_at_lookups : forall s p o,
  item_at s p o <->
  lookup s p = None /\ p <> [] /\ exists pc, lookup s (parent p) = Some pc /\ assoc (c_items pc) (last_name p) = Some o.
Proof.
  intros s p o. split.
  - intros [pc H]. apply resolve_item in H. destruct H as (H1 & H2 & H3 & H4). split; [exact H1|]. split; [exact H2|].
    exists pc. split; assumption.
  - intros (H1 & H2 & pc & H3 & H4). exists pc. apply resolve_item_intro; assumption.
Qed.

Lemma parent_last : forall p : path, p <> [] -> p = parent p ++ [last_name p].
Proof. intros p H. unfold parent, last_name. apply app_removelast_last. exact H. Qed.

Lemma same_parent_last : forall p q : path, p <> [] -> q <> [] -> parent p = parent q -> last_name p = last_name q -> p = q.
Proof. intros p q Hp Hq H1 H2. rewrite (parent_last p Hp), (parent_last q Hq), H1, H2. reflexivity. Qed.

Lemma is_prefix_trans_parent : forall q p, p <> [] -> is_prefix q (parent p) = true -> is_prefix q p = true.
Proof.
  intros q p Hp H. apply is_prefix_spec in H. destruct H as [r Hr]. apply is_prefix_spec.
  exists (r ++ [last_name p]). rewrite (parent_last p Hp) at 1. rewrite Hr, app_assoc. reflexivity.
Qed.

(* a local change of one collection's item list at a name other than p's keeps the item *)
Lemma item_at_set_items : forall s p o q c',
  item_at s p o -> q <> p ->
  (forall pc, lookup s (parent p) = Some pc -> q = parent p -> assoc (c_items c') (last_name p) = assoc (c_items pc) (last_name p)) ->
  item_at (set_coll s q c') p o.
Proof.
  intros s p o q c' Hit Hqp Hsame. apply item_at_lookups in Hit. destruct Hit as (H1 & H2 & pc & H3 & H4).
  apply item_at_lookups. split; [rewrite lookup_set_other by exact Hqp; exact H1|]. split; [exact H2|].
  destruct (list_eq_dec N.eq_dec q (parent p)) as [->|Hne].
  - exists c'. split; [apply lookup_set_same|]. rewrite (Hsame pc H3 eq_refl). exact H4.
  - exists pc. split; [rewrite lookup_set_other by exact Hne; exact H3|exact H4].
Qed.

Lemma item_at_home : forall pol s u p o, item_at s p o -> item_at (ensure_home pol s u) p o.
Proof.
  intros pol s u p o Hit. unfold ensure_home. destruct u as [n|]; [|exact Hit].
  destruct (resolve s [n]) eqn:E; try exact Hit. destruct (has lW (pol [n])); [|exact Hit].
  apply item_at_set_items; [exact Hit| |].
  - intros Heq. subst p. destruct Hit as [pc Hpc]. rewrite Hpc in E. discriminate.
  - intros pc Hpc Hq. rewrite <- Hq in Hpc. apply resolve_nothing_lookup in E. rewrite E in Hpc. discriminate.
Qed.

Ltac brk_in H :=
  repeat (match type of H with context [match ?x with _ => _ end] => destruct x eqn:? end).

Section Stable.
  Variables (cfg : config) (pol : policy).

  Lemma put_stable : forall s q ct b im inm p o,
    item_at s p o -> is_prefix q p = false ->
    item_at (fst (do_put cfg pol s q ct b im inm)) p o.
  Proof.
    intros s q ct b im inm p o Hit Hpre.
    destruct (do_put cfg pol s q ct b im inm) as [s' r] eqn:E. cbn [fst]. apply do_put_cases in E.
    destruct E as [[-> _]|[(pc & tg & objs & _ & _ & _ & _ & -> & _)|(pc & o' & Hpar & _ & _ & _ & _ & -> & _ & _ & Hroot)]];
      [exact Hit| |].
    - (* whole collection at q, q not above p *)
      pose proof Hit as Hit0. apply item_at_lookups in Hit. destruct Hit as (H1 & H2 & pp & H3 & H4).
      assert (Hqp : q <> p) by (intros ->; rewrite is_prefix_refl in Hpre; discriminate).
      assert (Hqpp : is_prefix q (parent p) = false).
      { destruct (is_prefix q (parent p)) eqn:E; [|reflexivity]. rewrite (is_prefix_trans_parent q p H2 E) in Hpre. discriminate. }
      assert (Hqpp' : q <> parent p) by (intros ->; rewrite is_prefix_refl in Hqpp; discriminate).
      apply item_at_lookups. split; [|split; [exact H2|]].
      + rewrite lookup_set_other by exact Hqp. rewrite lookup_del_subtree, Hpre. exact H1.
      + exists pp. split; [|exact H4]. rewrite lookup_set_other by exact Hqpp'. rewrite lookup_del_subtree, Hqpp. exact H3.
    - (* one item at q <> p *)
      apply resolve_coll in Hpar.
      assert (Hqne : q <> []) by (destruct q; [discriminate|discriminate]).
      assert (Hqp : q <> p) by (intros ->; rewrite is_prefix_refl in Hpre; discriminate).
      apply item_at_set_items; [exact Hit| |].
      + intros Heq. apply item_at_lookups in Hit. destruct Hit as (H1 & _). rewrite <- Heq, Hpar in H1. discriminate.
      + intros pp Hpp Heq. cbn [c_items]. rewrite Heq, Hpp in Hpar. inversion Hpar; subst pp.
        apply assoc_set_other. intros Hl. apply Hqp.
        apply item_at_lookups in Hit. destruct Hit as (_ & H2 & _). apply same_parent_last; assumption.
  Qed.

  Lemma delete_stable : forall s q im p o,
    item_at s p o -> is_prefix q p = false ->
    item_at (fst (do_delete cfg pol s q im)) p o.
  Proof.
    intros s q im p o Hit Hpre.
    assert (Hqp : q <> p) by (intros ->; rewrite is_prefix_refl in Hpre; discriminate).
    unfold do_delete.
    destruct (negb (check pol q lw NoItem)); [exact Hit|].
    destruct (resolve s q) as [c|pc oq|] eqn:Er; [| |exact Hit].
    - destruct (negb (check pol q lw (kind_of (NColl c)))); [exact Hit|].
      destruct (negb match im with CNone | CStar => true | CTag e => etag_eqb_current (NColl c) e end); [exact Hit|].
      destruct (if permit_delete cfg then has ld (pol q) else negb (has lD (pol q))); [exact Hit|]. cbn [fst].
      destruct (is_root q) eqn:Eroot; [destruct q; [discriminate Hpre|discriminate Eroot]|].
      pose proof Hit as Hit0. apply item_at_lookups in Hit. destruct Hit as (H1 & H2 & pp & H3 & H4).
      assert (Hqpp : is_prefix q (parent p) = false).
      { destruct (is_prefix q (parent p)) eqn:E; [|reflexivity]. rewrite (is_prefix_trans_parent q p H2 E) in Hpre. discriminate. }
      apply item_at_lookups. split; [rewrite lookup_del_subtree, Hpre; exact H1|]. split; [exact H2|].
      exists pp. split; [rewrite lookup_del_subtree, Hqpp; exact H3|exact H4].
    - destruct (negb (check pol q lw (kind_of (NItem pc oq)))); [exact Hit|].
      destruct (negb match im with CNone | CStar => true | CTag e => etag_eqb_current (NItem pc oq) e end); [exact Hit|]. cbn [fst].
      apply resolve_item in Er. destruct Er as (_ & Hqne & Hpar & _).
      apply item_at_set_items; [exact Hit| |].
      + intros Heq. apply item_at_lookups in Hit. destruct Hit as (H1 & _). rewrite <- Heq, Hpar in H1. discriminate.
      + intros pp Hpp Heq. cbn [c_items]. rewrite Heq, Hpp in Hpar. inversion Hpar; subst pp.
        apply assoc_del_other. intros Hl. apply Hqp.
        apply item_at_lookups in Hit. destruct Hit as (_ & H2 & _). apply same_parent_last; assumption.
  Qed.

  Lemma mkcol_stable : forall s q x p o,
    item_at s p o -> q <> p -> item_at (fst (do_mkcol pol s q x)) p o.
  Proof.
    intros s q x p o Hit Hqp. destruct (do_mkcol pol s q x) as [s' r] eqn:E. cbn [fst].
    unfold do_mkcol in E. brk_in E; inversion E; subst; try exact Hit.
    all: apply item_at_set_items; [exact Hit|exact Hqp|].
    all: intros pp Hpp Heq; subst q;
      match goal with Hn : resolve _ ?z = NNothing, Hp : lookup _ ?z = Some _ |- _ => apply resolve_nothing_lookup in Hn; rewrite Hn in Hp; discriminate end.
  Qed.

  Lemma mkcalendar_stable : forall s q x p o,
    item_at s p o -> q <> p -> item_at (fst (do_mkcalendar pol s q x)) p o.
  Proof.
    intros s q x p o Hit Hqp. destruct (do_mkcalendar pol s q x) as [s' r] eqn:E. cbn [fst].
    unfold do_mkcalendar in E. brk_in E; inversion E; subst; try exact Hit.
    all: apply item_at_set_items; [exact Hit|exact Hqp|].
    all: intros pp Hpp Heq; subst q;
      match goal with Hn : resolve _ ?z = NNothing, Hp : lookup _ ?z = Some _ |- _ => apply resolve_nothing_lookup in Hn; rewrite Hn in Hp; discriminate end.
  Qed.

  Lemma proppatch_stable : forall s q x p o,
    item_at s p o -> item_at (fst (do_proppatch pol s q x)) p o.
  Proof.
    intros s q x p o Hit. destruct (do_proppatch pol s q x) as [s' r] eqn:E. cbn [fst].
    unfold do_proppatch in E. brk_in E; inversion E; subst; try exact Hit.
    all: match goal with Hc : resolve _ _ = NColl ?c |- _ => apply resolve_coll in Hc end.
    all: apply item_at_set_items; [exact Hit| |].
    all: try (intros Heq; subst q; apply item_at_lookups in Hit; destruct Hit as (H1 & _); congruence).
    all: intros pp Hpp Heq; subst q; cbn [c_items]; congruence.
  Qed.

  Lemma move_stable : forall s q dr dout to ow p o,
    item_at s p o -> q <> p -> to <> p ->
    item_at (fst (do_move pol s q dr dout to ow)) p o.
  Proof.
    intros s q dr dout to ow p o Hit Hqp Htp.
    destruct (do_move pol s q dr dout to ow) as [s' r] eqn:E. cbn [fst]. apply do_move_cases in E.
    destruct E as [[-> _]|(fc & oq & toc & tc & Hi & Htc & _ & _ & Hcf & Hl & -> & _)]; [exact Hit|].
    apply resolve_item in Hi. destruct Hi as (_ & Hqne & Hqpar & _).
    apply resolve_coll in Htc.
    assert (Htone : to <> []).
    { intros ->. cbn in Hcf. destruct (resolve s []) eqn:Er; try contradiction.
      - unfold resolve in Er. destruct (lookup s []); discriminate.
      - unfold resolve in Er. cbn in Htc. rewrite Htc in Er. discriminate. }
    set (fc' := mkColl (c_tag fc) (c_props fc) (assoc_del (c_items fc) (last_name q))) in *.
    assert (Hit1 : item_at (set_coll s (parent q) fc') p o).
    { apply item_at_set_items; [exact Hit| |].
      - intros Heq. apply item_at_lookups in Hit. destruct Hit as (H1 & _). rewrite <- Heq, Hqpar in H1. discriminate.
      - intros pp Hpp Heq. cbn [c_items fc']. rewrite Heq, Hpp in Hqpar. inversion Hqpar; subst pp.
        apply assoc_del_other. intros Hlq. apply Hqp.
        apply item_at_lookups in Hit. destruct Hit as (_ & H2 & _). apply same_parent_last; assumption. }
    apply item_at_set_items; [exact Hit1| |].
    - intros Heq. apply item_at_lookups in Hit1. destruct Hit1 as (H1 & _). rewrite <- Heq, Hl in H1. discriminate.
    - intros pp Hpp Heq. cbn [c_items]. rewrite Heq, Hpp in Hl. inversion Hl; subst pp.
      apply assoc_set_other. intros Hlt. apply Htp.
      apply item_at_lookups in Hit. destruct Hit as (_ & H2 & _). apply same_parent_last; assumption.
  Qed.

  (* one request *)
  Theorem handle_stable : forall user s r p o,
    item_at s p o -> leaves p r = true -> item_at (fst (handle cfg pol user s r)) p o.
  Proof.
    intros user s r p o Hit Hl. pose proof (item_at_home pol s user p o Hit) as Hh. unfold handle.
    destruct r as [q ct b im inm|q im|q dok to ow|q x|q x|q x|q|q d|q cal hs|q k flt]; cbn [leaves] in Hl; cbn [fst]; try exact Hh.
    - apply put_stable; [exact Hh|apply negb_true_iff; exact Hl].
    - apply delete_stable; [exact Hh|apply negb_true_iff; exact Hl].
    - apply andb_true_iff in Hl. destruct Hl as [H1 H2]. apply negb_true_iff in H1, H2.
      apply move_stable; [exact Hh|apply path_eqb_neq; exact H1|apply path_eqb_neq; exact H2].
    - apply mkcol_stable; [exact Hh|apply path_eqb_neq; apply negb_true_iff; exact Hl].
    - apply mkcalendar_stable; [exact Hh|apply path_eqb_neq; apply negb_true_iff; exact Hl].
    - apply proppatch_stable; exact Hh.
  Qed.

  (* any history *)
  Theorem history_stable : forall user rs s p o,
    item_at s p o -> forallb (leaves p) rs = true -> item_at (fst (run_history cfg pol user s rs)) p o.
  Proof.
    induction rs as [|r rs IH]; intros s p o Hit Hl; cbn [run_history]; [exact Hit|].
    cbn [forallb] in Hl. apply andb_true_iff in Hl. destruct Hl as [Hr Hrs].
    pose proof (handle_stable user s r p o Hit Hr) as H1.
    destruct (handle cfg pol user s r) as [s1 out]. cbn [fst] in H1.
    pose proof (IH s1 p o H1 Hrs) as H2.
    destruct (run_history cfg pol user s1 rs) as [s2 outs]. exact H2.
  Qed.

  (* read your writes across unrelated traffic: a successful item PUT, then any history that does not address the
     item, then GET by a user who may read it: the uploaded object. *)
  Theorem read_your_writes : forall s p ct b im inm s1 o rs pol' user',
    store_inv s ->
    do_put cfg pol s p ct b im inm = (s1, (S201, PEtag (EtItem o))) ->
    forallb (leaves p) rs = true ->
    check pol' p lr NoItem = true -> check pol' p lr IsItem = true ->
    do_get pol' (fst (run_history cfg pol user' s1 rs)) p = (S200, PItem o).
  Proof.
    intros s p ct b im inm s1 o rs pol' user' Hs Hput Hl Hc1 Hc2.
    destruct (put_item_effect _ _ _ _ _ _ _ _ _ _ Hs Hput) as (pc & _ & Hres & _).
    assert (Hit : item_at s1 p o) by (eexists; exact Hres).
    destruct (history_stable user' rs s1 p o Hit Hl) as [pc' Hr].
    exact (get_item_served pol' _ p pc' o Hr Hc1 Hc2).
  Qed.
End Stable.
