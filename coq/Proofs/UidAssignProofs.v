(* C14 -- after the UID assignment of a whole-collection upload every object has a non-empty first UID, the number of UID
   properties grows only from 0 to 1, nothing else changes, and the step is idempotent. *)
From Coq Require Import List NArith Bool Lia.
Import ListNotations.
Require Import RV.Lib.PyStr RV.Proofs.PyStrLemmas RV.Model.ContentLine RV.Model.Vobj RV.Model.UidAssign.
Open Scope N_scope.

Lemma lines_named_app : forall n a b, lines_named n (a ++ b) = lines_named n a ++ lines_named n b.
Proof. intros n a b. unfold lines_named. rewrite flat_map_app. reflexivity. Qed.

Lemma lines_named_set_first : forall v ch l r, lines_named s_UID ch = l :: r ->
  lines_named s_UID (set_first_uid v ch) = mkCl (cl_group l) (cl_name l) (cl_params l) v :: r.
Proof.
  induction ch as [|x ch IH]; intros l r H; [discriminate|].
  destruct x as [l0|n sub]; cbn [set_first_uid].
  - destruct (eqs (cl_name l0) s_UID) eqn:E.
    + unfold lines_named in *. cbn [flat_map] in *. rewrite E in H. cbn [app] in H. inversion H; subst.
      cbn [cl_name]. rewrite E. reflexivity.
    + unfold lines_named in *. cbn [flat_map] in *. rewrite E in *. cbn [app] in *. apply IH. exact H.
  - unfold lines_named in *. cbn [flat_map app] in *. apply IH. exact H.
Qed.

Lemma drop_named_set_first : forall v ch, drop_named s_UID (set_first_uid v ch) = drop_named s_UID ch.
Proof.
  induction ch as [|x ch IH]; [reflexivity|]. destruct x as [l0|n sub]; cbn [set_first_uid].
  - destruct (eqs (cl_name l0) s_UID) eqn:E; unfold drop_named; cbn [filter cl_name]; rewrite E; cbn [negb].
    + reflexivity.
    + f_equal. apply IH.
  - unfold drop_named. cbn [filter]. f_equal. apply IH.
Qed.

Theorem assign_uid_spec : forall fresh ch, fresh <> [] ->
  first_uid (assign_uid fresh ch) <> [] /\
  List.length (lines_named s_UID (assign_uid fresh ch)) = Nat.max 1 (List.length (lines_named s_UID ch)) /\
  drop_named s_UID (assign_uid fresh ch) = drop_named s_UID ch /\
  (first_uid ch <> [] -> assign_uid fresh ch = ch).
Proof.
  intros fresh ch Hf. unfold assign_uid. destruct (nonempty (first_uid ch)) eqn:E.
  - assert (Hne : first_uid ch <> []) by (destruct (first_uid ch); [discriminate|discriminate]).
    repeat split; try assumption; try reflexivity.
    unfold first_uid in Hne. destruct (lines_named s_UID ch); [contradiction|]. cbn [List.length]. lia.
  - assert (He : first_uid ch = []) by (destruct (first_uid ch); [reflexivity|discriminate]).
    destruct (lines_named s_UID ch) as [|l r] eqn:EL.
    + repeat split.
      * unfold first_uid. rewrite lines_named_app, EL. cbn. exact Hf.
      * rewrite lines_named_app, EL. reflexivity.
      * unfold drop_named. rewrite filter_app. cbn. apply app_nil_r.
      * intros H. contradiction.
    + repeat split.
      * unfold first_uid. rewrite (lines_named_set_first fresh ch l r EL). exact Hf.
      * rewrite (lines_named_set_first fresh ch l r EL). cbn [List.length]. lia.
      * apply drop_named_set_first.
      * intros H. contradiction.
Qed.

Corollary assign_uid_idem : forall f f' ch, f <> [] -> assign_uid f' (assign_uid f ch) = assign_uid f ch.
Proof.
  intros f f' ch Hf. destruct (assign_uid_spec f ch Hf) as [H _].
  unfold assign_uid at 1. destruct (first_uid (assign_uid f ch)); [contradiction|reflexivity].
Qed.

(* the seeded shape keeps the empty UID in front: the object still has no usable UID *)
Example assign_uid_always_add_refuted :
  let card := [L (mkCl None [70; 78] [] [65]); L (mkCl None s_UID [] [])] in
  first_uid (assign_uid_always_add [120] card) = [] /\ uid_values (assign_uid_always_add [120] card) = [[]; [120]] /\
  uid_values (assign_uid [120] card) = [[120]].
Proof. vm_compute. repeat split. Qed.
