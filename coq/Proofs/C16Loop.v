(* C16 -- the loop of time_range_match over a recurrence set: soundness and completeness of the early stop,
   termination with explicit fuel.  Generic in the per-date block of calls; the three hypotheses P1-P3 are
   discharged per component type in C16Rows.v. *)
From Coq Require Import ZArith List Bool Lia ZifyBool.
Import ListNotations.
Require Import RV.Model.Rfc4791 RV.Model.Filter RV.Proofs.C16Xt.
Open Scope Z_scope.

(* early stop of a block, as a boolean *)
Fixpoint early (s e : xt) (l : list call) : bool :=
  match l with
  | [] => false
  | c :: r => negb (overlap s e c) && ((xlt e (c_s c) && negb (c_rec c)) || early s e r)
  end.

Lemma run_early : forall s e l m stop,
    run_calls (match_fn s e) l false = (m, stop) -> (early s e l = true <-> (m = false /\ stop = true)).
Proof.
  induction l as [|c r IH]; intros m stop H; cbn in H.
  - inversion H; subst. cbn. split; [discriminate|intros [_ ?]; discriminate].
  - cbn [early]. unfold match_fn in H at 1. destruct (overlap s e c) eqn:Ho; cbn [negb andb].
    + cbn in H. inversion H; subst. split; [discriminate|intros [? _]; discriminate].
    + destruct (xlt e (c_s c) && negb (c_rec c)) eqn:Hx; cbn in H; cbn [orb].
      * inversion H; subst. split; auto.
      * apply IH. exact H.
Qed.

Lemma mem_ex_bound : forall d ex b, mem d ex = true -> d <= ex_bound b ex.
Proof.
  induction ex as [|x r IH]; intros b H; cbn in H; [discriminate|].
  cbn [ex_bound fold_right]. apply orb_true_iff in H as [H|H].
  - apply Z.eqb_eq in H. subst. lia.
  - specialize (IH b H). unfold ex_bound in IH. lia.
Qed.

Lemma ex_bound_ge : forall ex b, b <= ex_bound b ex.
Proof. induction ex as [|x r IH]; intros b; cbn; [lia|]. specialize (IH b). unfold ex_bound in IH. lia. Qed.

Section Loop.
  Variable r : trange.
  Let s := tr_start r.
  Let e := tr_end r.
  Variable per_date : Z -> list call.
  Variables (s0 : Z) (rc : recur).
  Let p := r_period (rc_rule rc).
  Let b := r_bound (rc_rule rc).
  Hypothesis Hp : 0 < p.
  Hypothesis Hbounded : tr_bounded r = true.
  (* P1: the ranges of date D start at D - 1 or later *)
  Hypothesis P1 : forall D c, In c (per_date D) -> xle (Fin (D - 1)) (c_s c) = true.
  (* P2: an early stop in the block of D happens only when the range ends at D or before, and nothing in the block overlaps *)
  Hypothesis P2 : forall D, early s e (per_date D) = true -> xle e (Fin D) = true /\ ov s e (per_date D) = false.
  (* P3: the first range of date D is not a recurrence override and ends at D or later *)
  Hypothesis P3 : forall D, exists c1 rest, per_date D = c1 :: rest /\ xle (Fin D) (c_e c1) = true
                                           /\ xlt (c_s c1) PInf = true /\ c_rec c1 = false.

  Definition date (k : Z) : Z := s0 + k * p.
  Definition good (k : Z) : bool :=
    in_bound b s0 p k && negb (mem (date k) (rc_ex rc)) && ov s e (per_date (date k)).

  Lemma in_bound_down : forall k k', 0 <= k -> k <= k' -> in_bound b s0 p k' = true -> in_bound b s0 p k = true.
  Proof.
    intros k k' H0 Hk H. unfold in_bound in *. destruct b as [n|u|]; [lia| |reflexivity].
    apply Z.leb_le in H. apply Z.leb_le. nia.
  Qed.

  (* nothing overlaps in any later date once a block stopped early *)
  Lemma later_no_overlap : forall D D', xle e (Fin D) = true -> D < D' -> ov s e (per_date D') = false.
  Proof.
    intros D D' He HD. unfold ov. apply not_true_is_false. intros H.
    apply existsb_exists in H as (c & Hin & Hc). specialize (P1 D' c Hin).
    unfold overlap in Hc. apply andb_true_iff in Hc as [_ Hc].
    assert (Hle : xle (Fin D) (c_s c) = true).
    { eapply xle_trans; [|exact P1]. unfold xle. cbn. lia. }
    assert (H1 : xlt (c_s c) (Fin D) = true) by (eapply xlt_le_trans; eauto).
    unfold xle in Hle. rewrite H1 in Hle. discriminate.
  Qed.

  Theorem visit_rule_sound : forall fuel k m stop, 0 <= k ->
      visit_rule (match_fn s e) fuel per_date s0 rc k false = Some (m, stop) ->
      (m = true <-> exists k', k <= k' /\ good k' = true).
  Proof.
    induction fuel as [|f IH]; intros k m stop Hk H; [discriminate|].
    cbn [visit_rule] in H. fold p in H. fold b in H. fold (date k) in H.
    destruct (in_bound b s0 p k) eqn:Hb; cbn [negb] in H.
    2:{ inversion H; subst. split; [discriminate|]. intros (k' & Hk' & Hg). exfalso.
        unfold good in Hg. apply andb_true_iff in Hg as [Hg _]. apply andb_true_iff in Hg as [Hg _].
        rewrite (in_bound_down k k' Hk Hk' Hg) in Hb. discriminate. }
    destruct (mem (date k) (rc_ex rc)) eqn:Hm.
    - specialize (IH (k + 1) m stop ltac:(lia) H). rewrite IH. split; intros (k' & Hk' & Hg).
      + exists k'. split; [lia|exact Hg].
      + exists k'. split; [|exact Hg]. assert (k' <> k); [|lia]. intros ->.
        unfold good in Hg. rewrite Hm in Hg. rewrite andb_false_r in Hg. discriminate.
    - destruct (run_calls (match_fn s e) (per_date (date k)) false) as [m' stop'] eqn:Hr.
      pose proof (run_match_spec s e _ _ _ Hr) as [Hs1 Hs2].
      pose proof (run_early s e _ _ _ Hr) as He.
      destruct stop'.
      + inversion H; subst m' stop. destruct m.
        * split; [intros _|reflexivity]. exists k. split; [lia|]. unfold good. rewrite Hb, Hm.
          destruct (Hs1 eq_refl) as [_ ->]. reflexivity.
        * split; [discriminate|]. intros (k' & Hk' & Hg). exfalso.
          destruct He as [_ He]. specialize (He (conj eq_refl eq_refl)).
          destruct (P2 _ He) as [Hend Hno].
          unfold good in Hg. apply andb_true_iff in Hg as [_ Hg].
          destruct (Z.eq_dec k' k) as [->|Hne]; [rewrite Hno in Hg; discriminate|].
          rewrite (later_no_overlap (date k) (date k') Hend) in Hg; [discriminate|]. unfold date. assert (k < k') by lia. nia.
      + destruct (Hs2 eq_refl) as [-> Hno]. specialize (IH (k + 1) m stop ltac:(lia) H). rewrite IH.
        split; intros (k' & Hk' & Hg).
        * exists k'. split; [lia|exact Hg].
        * exists k'. split; [|exact Hg]. assert (k' <> k); [|lia]. intros ->.
          unfold good in Hg. rewrite Hno in Hg. rewrite andb_false_r in Hg. discriminate.
  Qed.

  (* ---------------------------------------------------------------- termination *)
  Lemma run_stops_beyond : forall D m stop,
      range_bound r < D -> run_calls (match_fn s e) (per_date D) false = (m, stop) -> stop = true.
  Proof.
    intros D m stop HD H. destruct (P3 D) as (c1 & rest & Hpd & Hend & Hfin & Hrec).
    pose proof (P1 D c1 ltac:(rewrite Hpd; left; reflexivity)) as Hst.
    rewrite Hpd in H. cbn [run_calls] in H. unfold match_fn in H at 1.
    destruct (overlap s e c1) eqn:Ho; [cbn in H; congruence|].
    assert (Hx : xlt e (c_s c1) && negb (c_rec c1) = true).
    { rewrite Hrec. cbn [negb]. rewrite andb_true_r. unfold overlap in Ho.
      subst s e. destruct r as [[a|] [z|]]; cbn [tr_start tr_end fst snd range_bound] in *; try discriminate.
      - (* both *) destruct (c_s c1); unfold xle in *; cbn [xlt negb andb] in *; try reflexivity; try discriminate. lia.
      - (* start only: the first range overlaps *) exfalso.
        rewrite Hfin in Ho. rewrite andb_true_r in Ho.
        destruct (c_e c1); unfold xle in *; cbn [xlt negb andb] in *; try discriminate; lia.
      - destruct (c_s c1); unfold xle in *; cbn [xlt negb andb] in *; try reflexivity; try discriminate; lia. }
    rewrite Hx in H. cbn in H. congruence.
  Qed.

  Definition Kinf : Z := (ex_bound (range_bound r) (rc_ex rc) - s0) / p + 1.

  Lemma beyond_Kinf : forall k, Kinf <= k -> ex_bound (range_bound r) (rc_ex rc) < date k.
  Proof.
    intros k Hk. unfold Kinf, date in *.
    pose proof (Z.div_mod (ex_bound (range_bound r) (rc_ex rc) - s0) p ltac:(lia)) as Hdm.
    pose proof (Z.mod_pos_bound (ex_bound (range_bound r) (rc_ex rc) - s0) p Hp) as Hmod. nia.
  Qed.

  Theorem visit_rule_total_forever : forall fuel k, 0 <= k -> b = RForever ->
      (Z.to_nat (Kinf - k) < fuel)%nat ->
      exists res, visit_rule (match_fn s e) fuel per_date s0 rc k false = Some res.
  Proof.
    induction fuel as [|f IH]; intros k Hk Hb Hf; [lia|].
    cbn [visit_rule]. fold p. fold b. fold (date k). rewrite Hb. cbn [in_bound negb].
    destruct (mem (date k) (rc_ex rc)) eqn:Hm.
    - apply IH; [lia|exact Hb|].
      assert (k < Kinf); [|lia]. destruct (Z_lt_le_dec k Kinf) as [|Hge]; [assumption|exfalso].
      pose proof (beyond_Kinf k Hge). pose proof (mem_ex_bound _ _ (range_bound r) Hm). lia.
    - destruct (run_calls (match_fn s e) (per_date (date k)) false) as [m' stop'] eqn:Hr.
      destruct stop'; [eexists; reflexivity|].
      destruct (run_match_spec s e _ _ _ Hr) as [_ Hs2]. destruct (Hs2 eq_refl) as [-> _].
      apply IH; [lia|exact Hb|].
      assert (k < Kinf); [|lia]. destruct (Z_lt_le_dec k Kinf) as [|Hge]; [assumption|exfalso].
      pose proof (beyond_Kinf k Hge). pose proof (ex_bound_ge (rc_ex rc) (range_bound r)).
      assert (Hs : false = true); [|discriminate]. eapply run_stops_beyond; [|exact Hr]. lia.
  Qed.

End Loop.

Section Bounded.
  Variable per_date : Z -> list call.
  Variables (s0 : Z) (rc : recur).
  Let p := r_period (rc_rule rc).
  Let b := r_bound (rc_rule rc).
  Hypothesis Hp : 0 < p.

  Lemma in_bound_rule_len : forall k, 0 <= k -> in_bound b s0 p k = true -> b <> RForever -> k < rule_len s0 rc.
  Proof.
    intros k Hk H Hb. unfold rule_len. fold b. fold p. destruct b as [n|u|]; [| |congruence]; cbn in H.
    - lia.
    - apply Z.leb_le in H.
      pose proof (Z.div_mod (u - s0) p ltac:(lia)) as Hdm. pose proof (Z.mod_pos_bound (u - s0) p Hp) as Hmod. nia.
  Qed.

  Theorem visit_rule_total_bounded : forall {St} (fn : call -> St -> St * bool) fuel k st, 0 <= k -> b <> RForever ->
      (Z.to_nat (rule_len s0 rc - k) < fuel)%nat ->
      exists res, visit_rule fn fuel per_date s0 rc k st = Some res.
  Proof.
    intros St fn. induction fuel as [|f IH]; intros k st Hk Hb Hf; [lia|].
    cbn [visit_rule]. fold p. fold b.
    destruct (in_bound b s0 p k) eqn:Hin; cbn [negb]; [|eexists; reflexivity].
    pose proof (in_bound_rule_len k Hk Hin Hb).
    destruct (mem (s0 + k * p) (rc_ex rc)).
    - apply IH; [lia|exact Hb|lia].
    - destruct (run_calls fn (per_date (s0 + k * p)) st) as [st' stop']. destruct stop'; [eexists; reflexivity|].
      apply IH; [lia|exact Hb|lia].
  Qed.
End Bounded.
