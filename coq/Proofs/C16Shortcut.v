(* C16 -- the storage pre-selection (simplify_prefilters + the skip / declared-matched logic of get_filtered) never
   changes the answer of a report: skipped items do not match, items declared matched do match. *)
From Coq Require Import ZArith List Bool Lia ZifyBool.
Import ListNotations.
Require Import RV.Model.Rfc4791 RV.Model.Filter RV.Proofs.C16Xt RV.Proofs.C16Loop RV.Proofs.C16Rows
        RV.Proofs.C16Tables RV.Proofs.C16Hull.
Open Scope Z_scope.

Definition range_ok (r : trange) : Prop := tr_bounded r = true -> tr_proper r = true.
(* every time-range that can be evaluated (child of a component comp-filter inside a VCALENDAR comp-filter) *)
Definition ranges_ok1 (ch2 : list elem) : Prop := forall r, In (ETimeRange r) ch2 -> range_ok r.
Definition ranges_ok0 (ch : list elem) : Prop := forall t ch2, In (ECompFilter t ch2) ch -> ranges_ok1 ch2.
Definition ranges_okf (f : list elem) : Prop := forall n ch, In (ECompFilter n ch) f -> ranges_ok0 ch.
Definition ranges_ok (filters : list (list elem)) : Prop := forall f, In f filters -> ranges_okf f.

Section Shortcut.
  Variable prop_match : Z -> item -> bool.
  Variable fuel_of : item -> trange -> nat.

  Definition item_ok (it : item) : Prop :=
    it_comp it = obj_cname (it_obj it) /\ wf_obj (it_obj it) /\ ~ f14_class (it_obj it)
    /\ find_time_range (hull_fuel (it_obj it)) (it_obj it) = Some (it_range it)
    /\ forall r, (match_fuel (it_obj it) r <= fuel_of it r)%nat.

  Notation cm0 := (comp_match0 prop_match fuel_of).
  Notation cm1 := (comp_match1 prop_match fuel_of).
  Notation tf := (test_filter prop_match fuel_of).
  Notation af := (all_filters prop_match fuel_of).

  (* ---------------------------------------------------------------- time_range_match on an item *)
  Lemma trm_item : forall it r, item_ok it -> range_ok r ->
      exists b, time_range_match (fuel_of it r) (it_obj it) r = Some b /\
                (b = true <-> tr_bounded r = true /\ exists c, visited (it_obj it) c /\ overlap (tr_start r) (tr_end r) c = true).
  Proof.
    intros it r (Hc & Hwf & Hn & Hh & Hf) Hr. destruct (tr_bounded r) eqn:Hb.
    - destruct (early_stop_complete (it_obj it) r (fuel_of it r) Hwf Hb (fun _ => Hr Hb) (Hf r)) as (b & Hm & Hiff).
      exists b. split; [exact Hm|]. rewrite Hiff. tauto.
    - exists false. unfold time_range_match. rewrite Hb. split; [reflexivity|]. split; [discriminate|intros [? _]; discriminate].
  Qed.

  Lemma hull_of_item : forall it, item_ok it -> hull_ok (fst (it_range it)) (snd (it_range it)) (visited (it_obj it)).
  Proof.
    intros it (Hc & Hwf & Hn & Hh & Hf). destruct (hull_spec (it_obj it) Hwf Hn) as (a & b & Hfind & Hok).
    rewrite Hh in Hfind. inversion Hfind as [Heq]. rewrite Heq. exact Hok.
  Qed.

  Lemma skip_sound : forall it s e, item_ok it ->
      xle e (fst (it_range it)) || xle (snd (it_range it)) s = true ->
      forall c, visited (it_obj it) c -> overlap s e c = false.
  Proof.
    intros it s e Hok Hskip c Hc. destruct (hull_of_item it Hok) as (He & _ & _). destruct (He c Hc) as [H1 H2].
    unfold overlap. apply orb_true_iff in Hskip as [Hs|Hs].
    - assert (H : xle e (c_s c) = true) by (eapply xle_trans; eauto). unfold xle in H. apply negb_true_iff in H.
      rewrite H. apply andb_false_r.
    - assert (H : xle (c_e c) s = true) by (eapply xle_trans; eauto). unfold xle in H. apply negb_true_iff in H.
      rewrite H. reflexivity.
  Qed.

  Lemma matched_sound : forall it s e, item_ok it ->
      xle e (fst (it_range it)) || xle (snd (it_range it)) s = false ->
      gf_matched true (fst (it_range it)) (snd (it_range it)) s e = true ->
      exists c, visited (it_obj it) c /\ overlap s e c = true.
  Proof.
    intros it s e Hok Hns Hm. destruct (hull_of_item it Hok) as (He & Ha & Hb).
    apply orb_false_iff in Hns as [Hn1 Hn2]. unfold xle in Hn1, Hn2. apply negb_false_iff in Hn1, Hn2.
    unfold gf_matched in Hm. cbn [andb] in Hm. apply orb_true_iff in Hm as [Hm|Hm]; apply andb_true_iff in Hm as [Hm1 Hm2].
    - destruct (Ha Hm1) as (c & Hc & Hne & Hs). exists c. split; [exact Hc|]. unfold overlap. rewrite Hs.
      rewrite Hn1. rewrite andb_true_r. eapply xle_lt_trans; [exact Hm2|]. rewrite <- Hs. exact Hne.
    - destruct (Hb Hm1) as (c & Hc & Hne & Hs). exists c. split; [exact Hc|]. unfold overlap. rewrite Hs.
      rewrite Hn2. cbn [andb]. eapply xlt_le_trans; [|exact Hm2]. rewrite <- Hs. exact Hne.
  Qed.

  (* the enclosing range of an item is never degenerate on the open sides *)
  Lemma hull_nondeg : forall it, item_ok it -> xle PInf (fst (it_range it)) || xle (snd (it_range it)) MInf = false.
  Proof.
    intros it Hok. destruct (hull_of_item it Hok) as (He & Ha & Hb).
    destruct (fst (it_range it)) as [|a|] eqn:Hfa; destruct (snd (it_range it)) as [|b|] eqn:Hfb; try reflexivity; exfalso.
    all: try (destruct (Hb eq_refl) as (c & _ & Hne & Hs); unfold nonempty_c in Hne; rewrite Hs in Hne;
              destruct (c_s c); discriminate).
    all: try (destruct (Ha eq_refl) as (c & _ & Hne & Hs); unfold nonempty_c in Hne; rewrite Hs in Hne;
              destruct (c_e c); discriminate).
  Qed.

  (* ---------------------------------------------------------------- shape of comp_match *)
  Lemma cm_loop_true : forall ev l, cm_loop ev l = Some true -> forall x, In x l -> ev x = Some true.
  Proof.
    induction l as [|y r IH]; intros H x Hx; [destruct Hx|]. cbn [cm_loop] in H.
    destruct (ev y) as [[|]|] eqn:Hy; cbn [obind] in H; try discriminate.
    destruct Hx as [<-|Hx]; [exact Hy|apply IH; assumption].
  Qed.

  Lemma body_true : forall tag u ev name ch, comp_match_body tag u ev name ch = Some true ->
      (ch = [] /\ cname_eqb name tag = true) \/ (ch = [EIsNotDefined] /\ cname_eqb name tag = false) \/
      (ch <> [] /\ ch <> [EIsNotDefined] /\ cname_eqb name tag = true /\ (u name = true \/ cm_loop ev ch = Some true)).
  Proof.
    intros tag u ev name ch H. unfold comp_match_body in H.
    assert (Hgen : (if negb (cname_eqb name tag) then Some false else if u name then Some true else cm_loop ev ch) = Some true ->
                   cname_eqb name tag = true /\ (u name = true \/ cm_loop ev ch = Some true)).
    { destruct (cname_eqb name tag); cbn [negb]; [|discriminate]. destruct (u name); auto. }
    destruct ch as [|x [|y l]].
    - left. inversion H. auto.
    - destruct x; try (right; right; repeat split; try discriminate; apply Hgen; exact H).
      right. left. inversion H as [H1]. apply negb_true_iff in H1. auto.
    - right. right. destruct x; (split; [discriminate|split; [discriminate|apply Hgen; exact H]]).
  Qed.

  Lemma cname_eqb_refl : forall n, cname_eqb n n = true.
  Proof. destruct n; cbn; try reflexivity. apply Z.eqb_refl. Qed.
  Lemma cname_eqb_eq : forall a b, cname_eqb a b = true -> a = b.
  Proof. destruct a, b; cbn; intros H; try discriminate; try reflexivity. apply Z.eqb_eq in H. congruence. Qed.

  (* ---------------------------------------------------------------- A: whatever simplify_prefilters returns, a matching item is not skipped *)
  Section A.
    Variable it : item.
    Hypothesis Hok : item_ok it.
    Let a := fst (it_range it).
    Let b := snd (it_range it).

    Lemma sp_time_simple_false : forall t l, snd (sp_time t l false) = false /\
        match fst (sp_time t l false) with Some (_, _, sim) => sim = false | None => True end.
    Proof.
      intros t l. induction l as [|x l' IH]; cbn [sp_time]; [cbn; auto|]. destruct (negb (is3 t)); [cbn; auto|].
      destruct x; try exact IH. cbn. auto.
    Qed.

    (* level 1 *)
    Lemma A2 : forall t ch2 sim, ranges_ok1 ch2 -> cm1 it t ch2 = Some true -> existsb is_not_defined ch2 = false ->
        let '(s, e) := match fst (sp_time (upper t) ch2 sim) with Some (s, e, _) => (s, e) | None => (MInf, PInf) end in
        gf_skip (Some (upper t)) (it_comp it) a b s e = false.
    Proof.
      intros t ch2 sim Hr Hm Hind. unfold comp_match1 in Hm. cbv zeta in Hm. apply body_true in Hm.
      assert (Hwhole : gf_skip (Some (upper t)) (it_comp it) a b MInf PInf = false -> True) by auto.
      assert (Hall : cname_eqb (upper t) (it_comp it) = true -> gf_skip (Some (upper t)) (it_comp it) a b MInf PInf = false).
      { intros Heq. unfold gf_skip. rewrite Heq. cbn [negb orb]. apply (hull_nondeg it Hok). }
      destruct Hm as [[-> Heq]|[[-> Heq]|(Hne & Hni & Heq & Hm)]].
      - cbn. apply Hall. exact Heq.
      - cbn in Hind. discriminate.
      - destruct ch2 as [|x l]; [congruence|]. cbn [sp_time].
        destruct (negb (is3 (upper t))) eqn:H3; [cbn; apply Hall; exact Heq|].
        destruct Hm as [Hm|Hm]; [congruence|].
        pose proof (cm_loop_true _ _ Hm) as Hev.
        (* either the head is the time-range that both sides read, or there is no time-range at all *)
        assert (Hno : forall l' sim', (forall y, In y l' -> In y (x :: l)) ->
                   (forall r0, In (ETimeRange r0) l' -> False) ->
                   fst (sp_time (upper t) l' sim') = None).
        { induction l' as [|y l' IH]; intros sim' Hsub Hnr; [reflexivity|]. cbn [sp_time]. rewrite H3.
          destruct y; try (apply IH; [intros; apply Hsub; right; assumption|intros r0 Hr0; apply (Hnr r0); right; exact Hr0]).
          exfalso. apply (Hnr r). left. reflexivity. }
        destruct x as [|r0| | |].
        + (* is-not-defined first *) cbn in Hind. discriminate.
        + (* time-range first: it is the one evaluated *)
          cbn [fst]. specialize (Hev (ETimeRange r0) (or_introl eq_refl)). cbn [first_child_range] in Hev.
          destruct (trm_item it r0 Hok (Hr r0 (or_introl eq_refl))) as (bb & Hbb & Hiff). rewrite Hbb in Hev.
          inversion Hev; subst bb. destruct Hiff as [Hiff _]. destruct (Hiff eq_refl) as (Hb & c & Hc & Ho).
          unfold gf_skip. rewrite Heq. cbn [negb orb]. apply not_true_is_false. intros Hskip.
          rewrite (skip_sound it _ _ Hok Hskip c Hc) in Ho. discriminate.
        + (* another element first: a later time-range child would be evaluated on an element without bounds *)
          assert (Hnr : forall r0, In (ETimeRange r0) l -> False).
          { intros r0 Hin. specialize (Hev (ETimeRange r0) (or_intror Hin)). cbn [first_child_range] in Hev.
            unfold time_range_match in Hev. cbn in Hev. discriminate. }
          rewrite (Hno l false); [cbn; apply Hall; exact Heq|intros; right; assumption|exact Hnr].
        + assert (Hnr : forall r0, In (ETimeRange r0) l -> False).
          { intros r0 Hin. specialize (Hev (ETimeRange r0) (or_intror Hin)). cbn [first_child_range] in Hev.
            unfold time_range_match in Hev. cbn in Hev. discriminate. }
          rewrite (Hno l false); [cbn; apply Hall; exact Heq|intros; right; assumption|exact Hnr].
        + specialize (Hev EUnknown (or_introl eq_refl)). discriminate.
    Qed.

    (* level 0: the children of a matching VCALENDAR comp-filter *)
    Lemma A1 : forall l sim, ranges_ok0 l ->
        (forall x, In x l -> match x with
                             | ECompFilter t ch2 => cm1 it t ch2 = Some true
                             | EPropFilter _ => True
                             | _ => False
                             end) ->
        match fst (sp_comp l sim) with
        | Some (tag, s, e, _) => gf_skip (Some tag) (it_comp it) a b s e = false
        | None => True
        end.
    Proof.
      induction l as [|x r IH]; intros sim Hr Hall; [exact I|]. cbn [sp_comp].
      assert (IH' : forall sim', match fst (sp_comp r sim') with
                                 | Some (tag, s, e, _) => gf_skip (Some tag) (it_comp it) a b s e = false
                                 | None => True end).
      { intros sim'. apply IH; [intros t ch2 Hin; apply (Hr t ch2); right; exact Hin|intros y Hy; apply Hall; right; exact Hy]. }
      destruct x as [| | |t ch2|]; try apply IH'.
      destruct (existsb is_not_defined ch2) eqn:Hind; [apply IH'|].
      pose proof (A2 t ch2 (sim && len_le1 ch2) (Hr t ch2 (or_introl eq_refl)) (Hall _ (or_introl eq_refl)) Hind) as H2.
      cbv zeta. destruct (sp_time (upper t) ch2 (sim && len_le1 ch2)) as [[[[s e] sm]|] sim2]; cbn [fst] in *; exact H2.
    Qed.

    Lemma A0 : forall flat sim,
        (forall c, In c flat -> exists n ch, c = ECompFilter n ch /\ ranges_ok0 ch /\ cm0 it n ch = Some true) ->
        let '(tag, s, e, _) := sp_col flat sim in gf_skip tag (it_comp it) a b s e = false.
    Proof.
      induction flat as [|c r IH]; intros sim Hall.
      - cbn. apply (hull_nondeg it Hok).
      - cbn [sp_col].
        assert (IH' : forall sim', let '(tag, s, e, _) := sp_col r sim' in gf_skip tag (it_comp it) a b s e = false).
        { intros sim'. apply IH. intros c' Hc'. apply Hall. right. exact Hc'. }
        destruct (Hall c (or_introl eq_refl)) as (n & ch & -> & Hr & Hm).
        destruct (cname_eqb (upper n) NCal) eqn:Hn; [|apply IH'].
        unfold comp_match0 in Hm. cbv zeta in Hm. apply body_true in Hm.
        destruct Hm as [[-> _]|[[-> Heq]|(Hne & Hni & _ & Hm)]].
        + cbn. apply IH'.
        + congruence.
        + destruct Hm as [Hm|Hm]; [rewrite Hn in Hm; discriminate|].
          pose proof (cm_loop_true _ _ Hm) as Hev.
          pose proof (A1 ch (sim && len_le1 ch) Hr) as H1.
          assert (Hch : forall x, In x ch -> match x with ECompFilter t ch2 => cm1 it t ch2 = Some true
                                                      | EPropFilter _ => True | _ => False end).
          { intros x Hx. specialize (Hev x Hx). destruct x; try discriminate; auto.
            destruct (tr_bounded (first_child_range ch)); discriminate. }
          specialize (H1 Hch).
          destruct (sp_comp ch (sim && len_le1 ch)) as [[[[[tag s] e] sm]|] sim2]; cbn [fst] in H1.
          * exact H1.
          * apply IH'.
    Qed.
  End A.

  (* all filters true -> every element of every filter is a matching comp-filter *)
  Lemma af_true_elems : forall it filters, ranges_ok filters -> af it filters = Some true ->
      forall c, In c (concat filters) -> exists n ch, c = ECompFilter n ch /\ ranges_ok0 ch /\ cm0 it n ch = Some true.
  Proof.
    induction filters as [|f r IH]; intros Hr H c Hc; [destruct Hc|].
    cbn [all_filters] in H. destruct (tf it f) as [[|]|] eqn:Hf; cbn [obind] in H; try discriminate.
    cbn [concat] in Hc. apply in_app_or in Hc as [Hc|Hc].
    - unfold test_filter in Hf. destruct f as [|x [|y l]]; [destruct Hc| |destruct x; discriminate].
      destruct x; try discriminate. destruct Hc as [<-|[]]. exists name, children. split; [reflexivity|].
      split; [|exact Hf]. apply (Hr [ECompFilter name children] (or_introl eq_refl) name children). left. reflexivity.
    - apply IH; auto. intros f' Hf'. apply Hr. right. exact Hf'.
  Qed.

  Theorem skipped_do_not_match : forall it filters, item_ok it -> ranges_ok filters ->
      af it filters = Some true ->
      let '(tag, s, e, _) := simplify_prefilters filters in
      gf_skip tag (it_comp it) (fst (it_range it)) (snd (it_range it)) s e = false.
  Proof.
    intros it filters Hok Hr H. unfold simplify_prefilters. apply A0; [exact Hok|].
    apply af_true_elems; assumption.
  Qed.

  (* ---------------------------------------------------------------- B: an item declared matched does match *)
  Lemma sp_comp_simple_false : forall l, snd (sp_comp l false) = false /\
      match fst (sp_comp l false) with Some (_, _, _, sim) => sim = false | None => True end.
  Proof.
    induction l as [|x l' IH]; cbn [sp_comp]; [cbn; auto|].
    destruct x; try exact IH. cbv zeta. destruct (existsb is_not_defined children); [exact IH|]. cbn [andb].
    destruct (sp_time_simple_false (upper name) children) as [H1 H2].
    destruct (sp_time (upper name) children false) as [[[[s e] sm]|] sim2]; cbn [fst snd] in *; subst; auto.
  Qed.

  Lemma sp_col_simple_false : forall l, snd (sp_col l false) = false.
  Proof.
    induction l as [|x l' IH]; cbn [sp_col]; [reflexivity|].
    destruct x; try exact IH. destruct (cname_eqb (upper name) NCal); [|exact IH]. cbn [andb].
    destruct (sp_comp_simple_false children) as [H1 H2].
    destruct (sp_comp children false) as [[[[[tag s] e] sm]|] sim2]; cbn [fst snd] in *; subst; auto.
  Qed.

  Lemma af_single : forall it filters, len_le1 (concat filters) = true ->
      af it filters = match concat filters with [] => Some true | c :: _ => tf it [c] end.
  Proof.
    induction filters as [|f r IH]; intros Hl; [reflexivity|]. cbn [all_filters concat] in *.
    destruct f as [|x [|y l]].
    - cbn [app] in *. cbn [test_filter obind]. apply IH. exact Hl.
    - cbn [app] in *. destruct (concat r) as [|z l] eqn:Hc; [|cbn in Hl; discriminate].
      rewrite (IH eq_refl). destruct (tf it [x]) as [[|]|]; reflexivity.
    - cbn in Hl. discriminate.
  Qed.

  Theorem declared_matched_do_match : forall it filters tag s e, item_ok it -> ranges_ok filters ->
      simplify_prefilters filters = (tag, s, e, true) ->
      gf_skip tag (it_comp it) (fst (it_range it)) (snd (it_range it)) s e = false ->
      gf_matched true (fst (it_range it)) (snd (it_range it)) s e = true ->
      af it filters = Some true.
  Proof.
    intros it filters tag s e Hok Hr Hsp Hskip Hm. unfold simplify_prefilters in Hsp.
    destruct (len_le1 (concat filters)) eqn:Hl.
    2:{ pose proof (sp_col_simple_false (concat filters)) as H. rewrite Hsp in H. discriminate. }
    rewrite (af_single it filters Hl).
    assert (Hin : forall c, In c (concat filters) -> exists f, In f filters /\ In c f).
    { intros c Hc. apply in_concat in Hc as (f & Hf & Hc). exists f. auto. }
    destruct (concat filters) as [|c [|c2 l]] eqn:Hflat; [reflexivity| |cbn in Hl; discriminate].
    cbn [sp_col] in Hsp.
    assert (Hfalse : forall X, snd (sp_col [] false) = true -> X) by (cbn; discriminate).
    destruct c as [| | |n ch|]; try (cbn in Hsp; inversion Hsp; fail).
    destruct (cname_eqb (upper n) NCal) eqn:Hn; [|cbn in Hsp; inversion Hsp].
    cbn [andb] in Hsp. cbn [test_filter]. unfold comp_match0, comp_match_body. cbv zeta. rewrite Hn.
    destruct (Hin (ECompFilter n ch) (or_introl eq_refl)) as (f & Hf & Hcf).
    pose proof (Hr f Hf n ch Hcf) as Hr0.
    destruct ch as [|x [|y l]].
    - reflexivity.
    - cbn [len_le1 sp_comp] in Hsp.
      destruct x as [| | |t ch2|]; try (cbn in Hsp; inversion Hsp; fail).
      destruct (existsb is_not_defined ch2) eqn:Hind; [cbn in Hsp; inversion Hsp|].
      cbv zeta in Hsp. cbn [andb negb cm_loop].
      assert (Hcm1 : cm1 it t ch2 = Some true).
      { pose proof (Hr0 t ch2 (or_introl eq_refl)) as Hr1.
        destruct ch2 as [|y [|y2 l2]].
        - cbn in Hsp. inversion Hsp; subst. unfold gf_skip in Hskip. apply orb_false_iff in Hskip as [Ht _].
          apply negb_false_iff in Ht. unfold comp_match1, comp_match_body. cbv zeta. rewrite Ht. reflexivity.
        - cbn [len_le1 andb sp_time] in Hsp. destruct (negb (is3 (upper t))) eqn:H3; [cbn in Hsp; inversion Hsp|].
          destruct y as [|r| | |]; try (cbn in Hsp; inversion Hsp; fail).
          cbn in Hsp. inversion Hsp as [[Ht Hs He Hb]]. subst tag s e.
          unfold gf_skip in Hskip. apply orb_false_iff in Hskip as [Ht Htime]. apply negb_false_iff in Ht.
          unfold comp_match1, comp_match_body. cbv zeta. rewrite Ht, H3. cbn [negb cm_loop first_child_range].
          destruct (trm_item it r Hok (Hr1 r (or_introl eq_refl))) as (bb & Hbb & Hiff). rewrite Hbb. cbn [obind].
          destruct (matched_sound it _ _ Hok Htime Hm) as (c & Hc & Ho).
          destruct Hiff as [_ Hiff]. assert (bb = true) as -> by (apply Hiff; split; [exact Hb|exists c; auto]). rewrite ?Hb. reflexivity.
        - cbn [len_le1 andb] in Hsp. destruct (sp_time_simple_false (upper t) (y :: y2 :: l2)) as [H1 H2].
          destruct (sp_time (upper t) (y :: y2 :: l2) false) as [[[[s' e'] sm]|] sim2]; cbn [fst snd] in *; inversion Hsp; subst; discriminate. }
      rewrite Hcm1. reflexivity.
    - cbn [len_le1 andb] in Hsp. destruct (sp_comp_simple_false (x :: y :: l)) as [H1 H2].
      destruct (sp_comp (x :: y :: l) false) as [[[[[tag' s'] e'] sm]|] sim2]; cbn [fst snd] in *.
      + inversion Hsp; subst. discriminate.
      + subst. cbn in Hsp. inversion Hsp.
  Qed.

  (* ---------------------------------------------------------------- C16_shortcut *)
  Lemma report_loop_app : forall filters l1 l2,
      report_loop prop_match fuel_of filters (l1 ++ l2) =
      obind (report_loop prop_match fuel_of filters l1)
            (fun r1 => obind (report_loop prop_match fuel_of filters l2) (fun r2 => Some (r1 ++ r2))).
  Proof.
    induction l1 as [|[it m] l1 IH]; intros l2.
    - cbn. destruct (report_loop prop_match fuel_of filters l2); reflexivity.
    - cbn [app report_loop]. rewrite IH.
      destruct (if _ : bool then af it filters else Some true) as [keep|]; cbn [obind]; [|reflexivity].
      destruct (report_loop prop_match fuel_of filters l1) as [r1|]; cbn [obind]; [|reflexivity].
      destruct (report_loop prop_match fuel_of filters l2) as [r2|]; cbn [obind]; [|reflexivity].
      destruct keep; reflexivity.
  Qed.

  Theorem shortcut : forall filters items l, Forall item_ok items -> ranges_ok filters ->
      reference prop_match fuel_of filters items = Some l ->
      report prop_match fuel_of filters items = Some l.
  Proof.
    intros filters items l Hitems Hr. unfold report, get_filtered.
    destruct (simplify_prefilters filters) as [[[tag s] e] simple] eqn:Hsp.
    revert l. induction Hitems as [|it items Hok Hrest IH]; intros l Href.
    - cbn in *. exact Href.
    - cbn [reference] in Href. destruct (af it filters) as [keep|] eqn:Haf; cbn [obind] in Href; [|discriminate].
      destruct (reference prop_match fuel_of filters items) as [rl|] eqn:Hrl; cbn [obind] in Href; [|discriminate].
      specialize (IH rl eq_refl). cbn [flat_map]. rewrite report_loop_app, IH.
      destruct (it_range it) as [istart iend] eqn:Hrange.
      pose proof (skipped_do_not_match it filters Hok Hr) as Hskipped. rewrite Hsp, Hrange in Hskipped. cbn [fst snd] in Hskipped.
      destruct (gf_skip tag (it_comp it) istart iend s e) eqn:Hskip.
      + cbn [report_loop obind app]. destruct keep; [specialize (Hskipped Haf); discriminate|exact Href].
      + cbn [report_loop].
        destruct (gf_matched simple istart iend s e) eqn:Hm.
        * assert (simple = true) as -> by (unfold gf_matched in Hm; destruct simple; [reflexivity|discriminate]).
          pose proof (declared_matched_do_match it filters tag s e Hok Hr Hsp) as Hdm.
          rewrite Hrange in Hdm. cbn [fst snd] in Hdm. rewrite (Hdm Hskip Hm) in Haf. inversion Haf; subst keep.
          rewrite andb_false_r. cbn [obind app]. exact Href.
        * cbn [negb]. rewrite andb_true_r. destruct filters as [|f fs].
          -- cbn in Haf. inversion Haf; subst keep. cbn [obind app]. exact Href.
          -- rewrite Haf. cbn [obind app]. destruct keep; exact Href.
  Qed.
End Shortcut.

(* ------------------------------------------------------------------ adding an always-true condition changes nothing *)
Section AlwaysTrue.
  Variable prop_match : Z -> item -> bool.
  Variable fuel_of : item -> trange -> nat.
  Variable p : Z.
  Hypothesis Hp : forall it, prop_match p it = true.       (* a prop-filter that matches everything *)

  (* cal, t: the name attributes as spelled by the client (any case) *)
  Variable cal : rawname.
  Definition q_plain (t : rawname) (r : trange) (rest : list elem) : list (list elem) :=
    [[ECompFilter cal [ECompFilter t (ETimeRange r :: rest)]]].
  Definition q_prop (t : rawname) (r : trange) (rest : list elem) : list (list elem) :=
    [[ECompFilter cal [ECompFilter t (ETimeRange r :: rest ++ [EPropFilter p])]]].
  Definition q_twice (t : rawname) (r : trange) (rest : list elem) : list (list elem) :=
    [[ECompFilter cal [ECompFilter t (ETimeRange r :: rest); ECompFilter t (ETimeRange r :: rest)]]].

  Lemma cm_loop_ext : forall ev ev' l, (forall x, ev x = ev' x) -> cm_loop ev l = cm_loop ev' l.
  Proof. induction l as [|y l IH]; intros H; [reflexivity|]. cbn [cm_loop]. rewrite H, IH; auto. Qed.

  Lemma cm_loop_snoc_true : forall ev l x, ev x = Some true -> cm_loop ev (l ++ [x]) = cm_loop ev l.
  Proof.
    induction l as [|y l IH]; intros x Hx; cbn [app cm_loop].
    - rewrite Hx. reflexivity.
    - rewrite (IH x Hx). reflexivity.
  Qed.

  Lemma cm1_prop : forall it t r rest,
      comp_match1 prop_match fuel_of it t (ETimeRange r :: rest ++ [EPropFilter p])
      = comp_match1 prop_match fuel_of it t (ETimeRange r :: rest).
  Proof.
    intros it t r rest. unfold comp_match1, comp_match_body. cbv zeta. cbn [first_child_range].
    destruct (negb (cname_eqb (upper t) (it_comp it))); [reflexivity|]. destruct (negb (is3 (upper t))); [reflexivity|].
    change (ETimeRange r :: rest ++ [EPropFilter p]) with ((ETimeRange r :: rest) ++ [EPropFilter p]).
    apply cm_loop_snoc_true. rewrite Hp. reflexivity.
  Qed.

  Lemma af_prop : forall it t r rest, all_filters prop_match fuel_of it (q_prop t r rest) = all_filters prop_match fuel_of it (q_plain t r rest).
  Proof.
    intros. unfold q_prop, q_plain. cbn [all_filters test_filter]. unfold comp_match0, comp_match_body. cbv zeta.
    destruct (negb (cname_eqb (upper cal) NCal)); [reflexivity|].
    cbn [cm_loop]. rewrite cm1_prop. reflexivity.
  Qed.

  Lemma af_twice : forall it t r rest, all_filters prop_match fuel_of it (q_twice t r rest) = all_filters prop_match fuel_of it (q_plain t r rest).
  Proof.
    intros. unfold q_twice, q_plain. cbn [all_filters test_filter]. unfold comp_match0, comp_match_body. cbv zeta.
    destruct (negb (cname_eqb (upper cal) NCal)); [reflexivity|].
    cbn [cm_loop].
    destruct (comp_match1 prop_match fuel_of it t (ETimeRange r :: rest)) as [[|]|]; reflexivity.
  Qed.

  Lemma reference_ext : forall f1 f2 items,
      (forall it, all_filters prop_match fuel_of it f1 = all_filters prop_match fuel_of it f2) ->
      reference prop_match fuel_of f1 items = reference prop_match fuel_of f2 items.
  Proof. induction items as [|it l IH]; intros H; [reflexivity|]. cbn [reference]. rewrite H, IH; auto. Qed.

  Theorem always_true : forall t r rest items l,
      Forall (item_ok fuel_of) items ->
      (forall r', In (ETimeRange r') (ETimeRange r :: rest) -> range_ok r') ->
      reference prop_match fuel_of (q_plain t r rest) items = Some l ->
      report prop_match fuel_of (q_plain t r rest) items = Some l
      /\ report prop_match fuel_of (q_prop t r rest) items = Some l
      /\ report prop_match fuel_of (q_twice t r rest) items = Some l.
  Proof.
    intros t r rest items l Hitems Hranges Href.
    assert (Hok : forall ch2, (forall r', In (ETimeRange r') ch2 -> In (ETimeRange r') (ETimeRange r :: rest)) ->
                               forall chs, (forall x, In x chs -> x = ECompFilter t ch2) ->
                                           ranges_ok [[ECompFilter cal chs]]).
    { intros ch2 Hsub chs Hchs f [<-|[]] n ch [Heq|[]]. inversion Heq; subst. intros t' ch2' Hin.
      specialize (Hchs _ Hin). inversion Hchs; subst. intros r' Hr'. apply Hranges. apply Hsub. exact Hr'. }
    split; [|split].
    - apply shortcut; [exact Hitems| |exact Href]. apply (Hok (ETimeRange r :: rest)); [auto|].
      intros x [<-|[]]. reflexivity.
    - apply shortcut; [exact Hitems| |].
      + apply (Hok (ETimeRange r :: rest ++ [EPropFilter p])).
        * intros r' [H|H]; [left; exact H|right]. apply in_app_or in H as [H|[H|[]]]; [exact H|discriminate].
        * intros x [<-|[]]. reflexivity.
      + rewrite (reference_ext _ (q_plain t r rest)); [exact Href|]. intros it. apply af_prop.
    - apply shortcut; [exact Hitems| |].
      + apply (Hok (ETimeRange r :: rest)); [auto|]. intros x [<-|[<-|[]]]; reflexivity.
      + rewrite (reference_ext _ (q_plain t r rest)); [exact Href|]. intros it. apply af_twice.
  Qed.
End AlwaysTrue.
