(* shlex.quote makes any string inert for sh word lexing: in any unquoted context, lexing quote(s) appends
   exactly the characters of s to the current word and returns to the unquoted state. *)
From Coq Require Import List NArith Bool Lia String.
Import ListNotations.
Require Import RV.Lib.PyStr RV.Model.Shell RV.Proofs.PyStrLemmas.
Open Scope list_scope. Open Scope N_scope.

Lemma contains_str_cases : forall c l, contains_char c l = true -> In c l.
Proof. intros c l H. apply contains_char_In. exact H. Qed.

Ltac finite_chars H := apply contains_str_cases in H; cbn in H; repeat (destruct H as [<-|H]; [reflexivity|]); contradiction.

Lemma special_not_safe : forall c, is_special c = true -> shlex_safe_char c = false.
Proof. intros c H. unfold is_special in H. finite_chars H. Qed.

Lemma safe_char_facts : forall c, shlex_safe_char c = true ->
  (c =? sq) = false /\ (c =? dq) = false /\ is_blank c = false /\ is_special c = false.
Proof.
  intros c H. repeat split.
  - destruct (c =? sq) eqn:E; [apply N.eqb_eq in E; subst; discriminate H|reflexivity].
  - destruct (c =? dq) eqn:E; [apply N.eqb_eq in E; subst; discriminate H|reflexivity].
  - unfold is_blank. destruct (c =? 32) eqn:E1; [apply N.eqb_eq in E1; subst; discriminate H|].
    destruct (c =? 9) eqn:E2; [apply N.eqb_eq in E2; subst; discriminate H|].
    destruct (c =? 10) eqn:E3; [apply N.eqb_eq in E3; subst; discriminate H|reflexivity].
  - destruct (is_special c) eqn:E; [|reflexivity]. apply special_not_safe in E. congruence.
Qed.

Definition cur_chars (st : lex) : pystr := match l_cur st with Some w => w | None => [] end.

Lemma run_safe : forall s st, l_q st = QNone -> forallb shlex_safe_char s = true ->
  s <> [] ->
  lex_run st s = Some (mkLex (l_done st) (Some (rev s ++ cur_chars st)) QNone).
Proof.
  induction s as [|c r IH]; intros st Hq Hs Hne; [contradiction|].
  cbn [forallb] in Hs. apply andb_true_iff in Hs as [Hc Hr].
  destruct (safe_char_facts c Hc) as (E1 & E2 & E3 & E4).
  cbn [lex_run]. unfold lex_step. rewrite Hq, E1, E2, E3, E4.
  destruct r as [|c2 r2].
  - cbn [lex_run rev app]. unfold push, cur_chars. destruct (l_cur st); reflexivity.
  - rewrite IH; [|reflexivity|exact Hr|discriminate].
    cbn [l_done l_cur]. unfold cur_chars, push. cbn [l_cur].
    f_equal. f_equal. f_equal. cbn [rev]. rewrite <- !app_assoc. cbn [app]. destruct (l_cur st); reflexivity.
Qed.

Lemma step_S_sq : forall d w, lex_step (mkLex d (Some w) QSingle) sq = Some (mkLex d (Some w) QNone).
Proof. reflexivity. Qed.
Lemma step_N_dq : forall d w, lex_step (mkLex d (Some w) QNone) dq = Some (mkLex d (Some w) QDouble).
Proof. reflexivity. Qed.
Lemma step_D_sq : forall d w, lex_step (mkLex d (Some w) QDouble) sq = Some (mkLex d (Some (sq :: w)) QDouble).
Proof. reflexivity. Qed.
Lemma step_D_dq : forall d w, lex_step (mkLex d (Some w) QDouble) dq = Some (mkLex d (Some w) QNone).
Proof. reflexivity. Qed.
Lemma step_N_sq : forall d w, lex_step (mkLex d (Some w) QNone) sq = Some (mkLex d (Some w) QSingle).
Proof. reflexivity. Qed.
Lemma step_S_other : forall d w c, (c =? sq) = false ->
  lex_step (mkLex d (Some w) QSingle) c = Some (mkLex d (Some (c :: w)) QSingle).
Proof. intros d w c H. unfold lex_step. cbn [l_q l_done l_cur push]. rewrite H. reflexivity. Qed.

Lemma run_body : forall s d w rest,
  lex_run (mkLex d (Some w) QSingle) (quote_body s ++ rest)
  = lex_run (mkLex d (Some (rev s ++ w)) QSingle) rest.
Proof.
  induction s as [|c r IH]; intros d w rest; [reflexivity|].
  cbn [quote_body]. destruct (c =? sq) eqn:Ec.
  - apply N.eqb_eq in Ec. subst c. cbn [app lex_run].
    rewrite step_S_sq, step_N_dq, step_D_sq, step_D_dq, step_N_sq. rewrite IH. cbn [rev]. rewrite <- app_assoc. reflexivity.
  - cbn [app lex_run]. rewrite (step_S_other d w c Ec). rewrite IH. cbn [rev]. rewrite <- app_assoc. reflexivity.
Qed.

Theorem shlex_quote_inert : forall s st, l_q st = QNone ->
  lex_run st (shlex_quote s) = Some (mkLex (l_done st) (Some (rev s ++ cur_chars st)) QNone).
Proof.
  intros s st Hq. destruct st as [d cur q]. cbn in Hq. subst q. unfold shlex_quote. destruct s as [|c r] eqn:Es.
  - destruct cur as [w|]; reflexivity.
  - rewrite <- Es. destruct (forallb shlex_safe_char s) eqn:Ef.
    + apply run_safe; [reflexivity|exact Ef|subst; discriminate].
    + cbn [app lex_run]. unfold cur_chars. cbn [l_cur l_done].
      assert (Hopen : lex_step (mkLex d cur QNone) sq = Some (mkLex d (Some (match cur with Some w => w | None => [] end)) QSingle))
        by (destruct cur; reflexivity).
      rewrite Hopen, run_body. cbn [lex_run]. rewrite step_S_sq. reflexivity.
Qed.

(* a hook command "cmd <quoted user> <quoted path>" always has exactly these three words *)
Corollary hook_words : forall u p,
  sh_words (str "hook " ++ shlex_quote u ++ [32] ++ shlex_quote p) = Some [str "hook"; u; p].
Proof.
  intros u p. unfold sh_words.
  change (str "hook " ++ shlex_quote u ++ [32] ++ shlex_quote p) with ([104; 111; 111; 107; 32] ++ shlex_quote u ++ [32] ++ shlex_quote p).
  set (st1 := mkLex [str "hook"] None QNone).
  assert (H1 : lex_run (mkLex [] None QNone) ([104; 111; 111; 107; 32] ++ shlex_quote u ++ [32] ++ shlex_quote p)
               = lex_run st1 (shlex_quote u ++ [32] ++ shlex_quote p)) by reflexivity.
  rewrite H1. clear H1.
  assert (Happ : forall a b st, lex_run st (a ++ b) = match lex_run st a with Some st' => lex_run st' b | None => None end).
  { induction a as [|c a IH]; intros b st; [reflexivity|]. cbn [app lex_run]. destruct (lex_step st c); [apply IH|reflexivity]. }
  rewrite Happ, (shlex_quote_inert u st1 eq_refl). cbn [cur_chars st1 l_cur l_done app].
  rewrite app_nil_r. cbn [app lex_run].
  assert (Hsp : lex_step (mkLex [str "hook"] (Some (rev u)) QNone) 32 = Some (mkLex [rev (rev u); str "hook"] None QNone)) by reflexivity.
  rewrite Hsp, rev_involutive.
  match goal with |- context [lex_run ?st (shlex_quote p)] => rewrite (shlex_quote_inert p st eq_refl) end.
  cbn [cur_chars l_cur l_done app]. rewrite app_nil_r. unfold lex_finish. cbn [l_q l_cur l_done rev app].
  rewrite rev_involutive. reflexivity.
Qed.
