(* C16 -- per component type: the block of ranges handed to range_fn for one instance is the row of the
   RFC 4791 9.9 table (lemmas rows_...), and it satisfies the hypotheses P1-P3 of the generic loop theorem. *)
From Coq Require Import ZArith List Bool Lia ZifyBool.
Import ListNotations.
Require Import RV.Model.Rfc4791 RV.Model.Filter RV.Proofs.C16Xt RV.Proofs.C16Loop.
Open Scope Z_scope.

Ltac unfold_calls :=
  unfold ov in *; cbn [existsb early In] in *; unfold overlap, fcall, DAY in *; cbn [c_s c_e c_rec] in *.

(* goals that are boolean/arithmetical facts about explicit blocks, after case analysis on the extended times *)
Ltac solve_xt := unfold_calls; xt_cases; try reflexivity; try discriminate; try congruence; try lia.

(* ------------------------------------------------------------------ VEVENT *)
Section Event.
  Variable ev : vevent.
  Hypothesis Hwf : wf_vevent ev.

  Lemma vevent_block : forall D, exists len, 0 < len /\ vevent_calls ev false D = [fcall D (D + len) false].
  Proof.
    intros D. destruct Hwf as [_ Hend]. unfold vevent_calls.
    destruct (ev_end ev) as [t|d|].
    - exists (t - ev_start ev). split; [lia|reflexivity].
    - destruct (0 <? d) eqn:Hd.
      + exists d. split; [lia|reflexivity].
      + exists 1. split; [lia|reflexivity].
    - destruct (ev_kind ev); [exists DAY|exists 1]; (split; [unfold DAY; lia|reflexivity]).
  Qed.

  Lemma vevent_P1 : forall D c, In c (vevent_calls ev false D) -> xle (Fin (D - 1)) (c_s c) = true.
  Proof.
    intros D c H. destruct (vevent_block D) as (len & Hl & Heq). rewrite Heq in H.
    destruct H as [<-|[]]. unfold fcall. cbn. unfold xle. cbn. lia.
  Qed.

  Lemma vevent_P2 : forall s e D, early s e (vevent_calls ev false D) = true ->
                                  xle e (Fin D) = true /\ ov s e (vevent_calls ev false D) = false.
  Proof.
    intros s e D H. destruct (vevent_block D) as (len & Hl & Heq). rewrite Heq in *.
    split; solve_xt.
  Qed.

  Lemma vevent_P3 : forall D, exists c1 rest, vevent_calls ev false D = c1 :: rest /\ xle (Fin D) (c_e c1) = true
                                              /\ xlt (c_s c1) PInf = true /\ c_rec c1 = false.
  Proof.
    intros D. destruct (vevent_block D) as (len & Hl & Heq). rewrite Heq.
    eexists _, _. split; [reflexivity|]. unfold fcall. cbn. unfold xle. cbn. repeat split. lia.
  Qed.

  (* the block is the row of the VEVENT table *)
  Lemma rows_vevent : forall s e D, ov s e (vevent_calls ev false D) = vevent_row ev D s e.
  Proof.
    intros s e D. destruct Hwf as [_ Hend]. unfold vevent_calls, vevent_row.
    destruct (ev_end ev) as [t|d|].
    - solve_xt.
    - destruct (0 <? d) eqn:Hd; solve_xt.
    - destruct (ev_kind ev); solve_xt.
  Qed.
End Event.

(* ------------------------------------------------------------------ VJOURNAL *)
Section Journal.
  Variable k : vkind.

  Lemma vjournal_P1 : forall D c, In c (vjournal_calls k false D) -> xle (Fin (D - 1)) (c_s c) = true.
  Proof. intros D c H. destruct k; destruct H as [<-|[]]; unfold fcall, xle; cbn; lia. Qed.

  Lemma vjournal_P2 : forall s e D, early s e (vjournal_calls k false D) = true ->
                                    xle e (Fin D) = true /\ ov s e (vjournal_calls k false D) = false.
  Proof. intros s e D H. destruct k; cbn [vjournal_calls] in *; split; solve_xt. Qed.

  Lemma vjournal_P3 : forall D, exists c1 rest, vjournal_calls k false D = c1 :: rest /\ xle (Fin D) (c_e c1) = true
                                                /\ xlt (c_s c1) PInf = true /\ c_rec c1 = false.
  Proof.
    intros D. destruct k; cbn [vjournal_calls]; eexists _, _; (split; [reflexivity|]);
      unfold fcall, xle, DAY; cbn; repeat split; lia.
  Qed.

  Lemma rows_vjournal : forall s e D, ov s e (vjournal_calls k false D) = vjournal_row k D s e.
  Proof. intros s e D. destruct k; cbn [vjournal_calls vjournal_row]; solve_xt. Qed.
End Journal.

(* ------------------------------------------------------------------ VTODO *)
Section Todo.
  Variable t : vtodo.
  Hypothesis Hwf : wf_vtodo t.

  Ltac todo_cases :=
    destruct Hwf as (_ & Hdur & Hdue & _ & Hcc);
    unfold vtodo_calls, todo_row_of, vtodo_row in *;
    destruct (td_dtstart t) as [ds|], (td_duration t) as [dd|], (td_due t) as [du|],
             (td_completed t) as [co|], (td_created t) as [cr|];
    try (destruct Hdur as (Hd0 & Hd1 & Hd2); try congruence).

  Lemma vtodo_P1 : forall D c, In c (vtodo_calls t false D) -> xle (Fin (D - 1)) (c_s c) = true.
  Proof.
    intros D c H. todo_cases; cbn [In] in H;
      repeat (destruct H as [<-|H]; [unfold fcall, xle; cbn; lia|]); try destruct H.
  Qed.

  (* rows 1, 2 and 5 need a proper range (start < end, which RFC 4791 demands) *)
  Lemma vtodo_P2 : forall s e D, xlt s e = true -> early s e (vtodo_calls t false D) = true ->
                                 xle e (Fin D) = true /\ ov s e (vtodo_calls t false D) = false.
  Proof.
    intros s e D Hse H. todo_cases; try discriminate; split; solve_xt.
  Qed.

  Lemma vtodo_P3 : forall D,
      (td_dtstart t <> None \/ td_due t <> None \/ td_completed t <> None \/ td_created t <> None) ->
      exists c1 rest, vtodo_calls t false D = c1 :: rest /\ xle (Fin D) (c_e c1) = true
                      /\ xlt (c_s c1) PInf = true /\ c_rec c1 = false.
  Proof.
    intros D Hs. todo_cases; try (exfalso; intuition congruence); eexists _, _; (split; [reflexivity|]);
      unfold fcall, xle; cbn; repeat split; lia.
  Qed.

  (* the block is the row of the VTODO table (for the instance with reference D) *)
  Lemma rows_vtodo : forall s e D, s <> PInf -> todo_ref (todo_row_of t) <> None ->
      (td_dtstart t = None -> todo_ref (todo_row_of t) = Some D) ->
      ov s e (vtodo_calls t false D) = vtodo_row (todo_row_of t) D s e.
  Proof.
    intros s e D Hs Href HD. todo_cases; cbn [todo_ref] in *; try congruence;
      try (specialize (HD eq_refl); inversion HD; subst); solve_xt.
  Qed.
End Todo.

(* ------------------------------------------------------------------ facts used by the enclosing range (C16Hull.v)
   P5: inside a block every range is dominated, at its start and at its end, by a non-empty range of the block;
   P1s: the block of D starts at D or later; P4: some non-empty range of the block starts exactly at D. *)
Definition nonempty_c (c : call) : Prop := xlt (c_s c) (c_e c) = true.
Definition dominated (l : list call) (c : call) : Prop :=
  (exists c', In c' l /\ nonempty_c c' /\ xle (c_s c') (c_s c) = true) /\
  (exists c', In c' l /\ nonempty_c c' /\ xle (c_e c) (c_e c') = true).

Ltac dom_self := split; (eexists; split; [left; reflexivity|]; unfold nonempty_c, fcall, xle, DAY; cbn; split; lia).

Lemma vevent_P5 : forall ev, wf_vevent ev -> forall D c, In c (vevent_calls ev false D) -> dominated (vevent_calls ev false D) c.
Proof.
  intros ev Hwf D c H. destruct (vevent_block ev Hwf D) as (len & Hl & Heq). rewrite Heq in *.
  destruct H as [<-|[]]. dom_self.
Qed.

Lemma vevent_P1s : forall ev, wf_vevent ev -> forall D c, In c (vevent_calls ev false D) -> xle (Fin D) (c_s c) = true.
Proof.
  intros ev Hwf D c H. destruct (vevent_block ev Hwf D) as (len & Hl & Heq). rewrite Heq in *.
  destruct H as [<-|[]]. unfold fcall, xle. cbn. lia.
Qed.

Lemma vevent_P4 : forall ev, wf_vevent ev -> forall D, exists c, In c (vevent_calls ev false D) /\ c_s c = Fin D /\ nonempty_c c.
Proof.
  intros ev Hwf D. destruct (vevent_block ev Hwf D) as (len & Hl & Heq). rewrite Heq.
  eexists. split; [left; reflexivity|]. unfold nonempty_c, fcall. cbn. split; [reflexivity|lia].
Qed.

Lemma vjournal_P5 : forall k D c, In c (vjournal_calls k false D) -> dominated (vjournal_calls k false D) c.
Proof. intros k D c H. destruct k; cbn [vjournal_calls] in *; destruct H as [<-|[]]; dom_self. Qed.

Lemma vjournal_P1s : forall k D c, In c (vjournal_calls k false D) -> xle (Fin D) (c_s c) = true.
Proof. intros k D c H. destruct k; destruct H as [<-|[]]; unfold fcall, xle; cbn; lia. Qed.

Lemma vjournal_P4 : forall k D, exists c, In c (vjournal_calls k false D) /\ c_s c = Fin D /\ nonempty_c c.
Proof.
  intros k D. destruct k; cbn [vjournal_calls]; (eexists; split; [left; reflexivity|]);
    unfold nonempty_c, fcall, DAY; cbn; (split; [reflexivity|lia]).
Qed.

Section TodoHull.
  Variable t : vtodo.
  Hypothesis Hwf : wf_vtodo t.

  Ltac todo_cases' :=
    destruct Hwf as (_ & Hdur & Hdue & _ & Hcc);
    unfold vtodo_calls in *;
    destruct (td_dtstart t) as [ds|], (td_duration t) as [dd|], (td_due t) as [du|],
             (td_completed t) as [co|], (td_created t) as [cr|];
    try (destruct Hdur as (Hd0 & Hd1 & Hd2); try congruence).

  Ltac pick n := match n with
                 | 1%nat => left; reflexivity
                 | 2%nat => right; left; reflexivity
                 | 3%nat => right; right; left; reflexivity
                 | 4%nat => right; right; right; left; reflexivity
                 end.
  Ltac exists_nth i := eexists; split; [pick i|]; unfold nonempty_c, fcall, xle; cbn; split; first [reflexivity|lia].
  Ltac dom_side := first [exists_nth 1%nat|exists_nth 2%nat|exists_nth 3%nat|exists_nth 4%nat].
  Ltac dom_auto := split; dom_side.

  (* the DUE offset is DUE - DTSTART >= 0, the COMPLETED offset COMPLETED - CREATED >= 0 *)
  Lemma vtodo_P5 : forall D c, In c (vtodo_calls t false D) -> dominated (vtodo_calls t false D) c.
  Proof.
    intros D c H. todo_cases'; cbn [In] in H; try contradiction;
      repeat (destruct H as [<-|H]; [dom_auto|]); try contradiction.
  Qed.

  (* not of the F14 class: DURATION > 0 resp. DUE > DTSTART *)
  Definition not_zero_len : Prop :=
    td_duration t <> Some 0 /\ (td_duration t = None -> td_due t <> td_dtstart t).

  Lemma vtodo_P1s : not_zero_len -> td_dtstart t <> None ->
                    forall D c, In c (vtodo_calls t false D) -> xle (Fin D) (c_s c) = true.
  Proof.
    intros [Hz1 Hz2] Hs D c H. todo_cases'; try congruence; cbn [In] in H.
    all: try (assert (dd <> 0) by congruence).
    all: try (assert (du <> ds) by (specialize (Hz2 eq_refl); congruence)).
    all: repeat (destruct H as [<-|H]; [unfold fcall, xle; cbn; lia|]); try destruct H.
  Qed.

  Lemma vtodo_P4 : td_dtstart t <> None -> forall D, exists c, In c (vtodo_calls t false D) /\ c_s c = Fin D /\ nonempty_c c.
  Proof.
    intros Hs D. todo_cases'; try congruence;
      first [ eexists; split; [left; reflexivity|]; unfold nonempty_c, fcall; cbn; split; [reflexivity|lia]
            | eexists; split; [right; left; reflexivity|]; unfold nonempty_c, fcall; cbn; split; [reflexivity|lia] ].
  Qed.
End TodoHull.
