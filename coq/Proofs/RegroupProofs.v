(* C14 -- whole-collection upload followed by the export: Split.v composed with Export.v. *)
From Coq Require Import List NArith ZArith Bool Lia Permutation.
Import ListNotations.
Require Import RV.Lib.PyStr RV.Proofs.PyStrLemmas RV.Model.ContentLine RV.Model.Export RV.Model.Split
               RV.Proofs.ExportProofs RV.Proofs.SplitProofs.
Open Scope N_scope.

Definition wf_upload (u : upload) : Prop :=
  (forall c, In c (u_comps u) -> wf_block (c_data c) /\ is_tz_block (c_data c) = false) /\
  (forall z, In z (u_tzs u) -> wf_block (z_data z) /\ is_tz_block (z_data z) = true /\ tz_key (z_data z) = z_tzid z).

Definition plain_props (props : list line) : Prop := Forall (fun l => is_begin l = false /\ is_end l = false) props.

Lemma filter_map_all {A B} (f : A -> B) (p : B -> bool) (l : list A) :
  (forall x, In x l -> p (f x) = true) -> filter p (map f l) = map f l.
Proof.
  induction l as [|x l IH]; intros H; cbn; [reflexivity|].
  rewrite (H x (or_introl eq_refl)). f_equal. apply IH. intros y Hy. apply H. right. exact Hy.
Qed.

Lemma filter_map_none {A B} (f : A -> B) (p : B -> bool) (l : list A) :
  (forall x, In x l -> p (f x) = false) -> filter p (map f l) = [].
Proof.
  induction l as [|x l IH]; intros H; cbn; [reflexivity|].
  rewrite (H x (or_introl eq_refl)). apply IH. intros y Hy. apply H. right. exact Hy.
Qed.

Lemma in_collect_in_comps : forall u c, In c (collect u) -> In c (u_comps u).
Proof.
  intros u c H. unfold collect, of_kind in H.
  repeat (apply in_app_or in H; destruct H as [H|H]); apply filter_In in H; tauto.
Qed.

Section Regroup.
  Variable u : upload.
  Variable props : list line.
  Hypothesis Hu : wf_upload u.
  Hypothesis Hp : plain_props props.

  Let items := map (item_of_group props) (split u).

  Lemma group_comp_in : forall g c, In g (split u) -> In c (g_comps g) -> In c (u_comps u).
  Proof.
    intros g c Hg Hc. destruct (split_group_spec u g Hg) as [_ E]. rewrite E in Hc.
    apply filter_In in Hc. apply in_collect_in_comps. tauto.
  Qed.

  Lemma group_tz_in : forall g z, In g (split u) -> In z (g_tzs g) -> In z (u_tzs u).
  Proof.
    intros g z Hg Hz. unfold split in Hg. apply in_map_iff in Hg as [ug [E _]]. subst g. cbn in Hz.
    apply attach_sound in Hz. tauto.
  Qed.

  Lemma items_wf : Forall wf_item items.
  Proof.
    apply Forall_forall. intros it Hit. unfold items in Hit. apply in_map_iff in Hit as [g [E Hg]]. subst it.
    split; [exact Hp|]. cbn. apply Forall_forall. intros b Hb. apply in_app_or in Hb as [Hb|Hb].
    - apply in_map_iff in Hb as [z [E Hz]]. subst b. destruct Hu as [_ Hz']. apply (Hz' z (group_tz_in g z Hg Hz)).
    - apply in_map_iff in Hb as [c [E Hc]]. subst b. destruct Hu as [Hc' _]. apply (Hc' c (group_comp_in g c Hg Hc)).
  Qed.

  Lemma blocks_of_items : flat_map i_blocks items = flat_map (fun g => map z_data (g_tzs g) ++ map c_data (g_comps g)) (split u).
  Proof. unfold items. rewrite flat_map_concat_map, map_map, <- flat_map_concat_map. reflexivity. Qed.

  Lemma comp_blocks_items : comp_blocks items = map c_data (flat_map g_comps (split u)).
  Proof.
    unfold comp_blocks. rewrite blocks_of_items.
    assert (G : forall gs, (forall g, In g gs -> In g (split u)) ->
              filter (fun b => negb (is_tz_block b)) (flat_map (fun g => map z_data (g_tzs g) ++ map c_data (g_comps g)) gs)
              = map c_data (flat_map g_comps gs)).
    { induction gs as [|g gs IH]; intros Hin; cbn; [reflexivity|].
      rewrite filter_app, filter_app, map_app. rewrite IH by (intros g' Hg'; apply Hin; right; exact Hg').
      rewrite filter_map_none, filter_map_all; [reflexivity| |].
      - intros c Hc. destruct Hu as [Hc' _]. destruct (Hc' c (group_comp_in g c (Hin g (or_introl eq_refl)) Hc)) as [_ E]. rewrite E. reflexivity.
      - intros z Hz. destruct Hu as [_ Hz']. destruct (Hz' z (group_tz_in g z (Hin g (or_introl eq_refl)) Hz)) as [_ [E _]]. rewrite E. reflexivity. }
    apply G. auto.
  Qed.

  Lemma tz_blocks_items : tz_blocks items = map z_data (flat_map g_tzs (split u)).
  Proof.
    unfold tz_blocks. rewrite blocks_of_items.
    assert (G : forall gs, (forall g, In g gs -> In g (split u)) ->
              filter is_tz_block (flat_map (fun g => map z_data (g_tzs g) ++ map c_data (g_comps g)) gs)
              = map z_data (flat_map g_tzs gs)).
    { induction gs as [|g gs IH]; intros Hin; cbn; [reflexivity|].
      rewrite filter_app, filter_app, map_app. rewrite IH by (intros g' Hg'; apply Hin; right; exact Hg').
      rewrite filter_map_all, filter_map_none; [rewrite app_nil_r; reflexivity| |].
      - intros c Hc. destruct Hu as [Hc' _]. destruct (Hc' c (group_comp_in g c (Hin g (or_introl eq_refl)) Hc)) as [_ E]. exact E.
      - intros z Hz. destruct Hu as [_ Hz']. destruct (Hz' z (group_tz_in g z (Hin g (or_introl eq_refl)) Hz)) as [_ [E _]]. exact E. }
    apply G. auto.
  Qed.

  (* Every VEVENT/VTODO/VJOURNAL of the upload comes out of the export exactly once (as a multiset of blocks),
     every exported VTIMEZONE is one of the uploaded definitions, no TZID twice, and every uploaded definition
     that a component refers to is there. *)
  Theorem split_then_export :
    let s := run_items step (map item_lines items) in
    (exists bs, components s = List.concat (map block_lines bs)
                /\ Permutation bs (map c_data (filter is_main (u_comps u)))) /\
    (exists zs, vtimezones s = List.concat (map block_lines zs)
                /\ (forall b, In b zs -> exists z, In z (u_tzs u) /\ b = z_data z)
                /\ NoDup (keys_of zs)
                /\ (forall c t z, In c (collect u) -> In t (c_tzrefs c) -> In z (u_tzs u) -> z_tzid z = Some t ->
                      exists b, In b zs /\ tz_key b = Some t)).
  Proof.
    intros s. destruct (export_spec items items_wf) as [Hc [Hz _]]. fold s in Hc, Hz. split.
    - exists (comp_blocks items). split; [exact Hc|]. rewrite comp_blocks_items. apply Permutation_map. apply split_partition.
    - exists (dedup_tz [] (tz_blocks items)). split; [exact Hz|]. split; [|split].
      + intros b Hb. apply dedup_tz_incl in Hb. rewrite tz_blocks_items in Hb. apply in_map_iff in Hb as [z [E Hzz]].
        apply in_flat_map in Hzz as [g [Hg Hzg]]. exists z. split; [exact (group_tz_in g z Hg Hzg)|congruence].
      + apply dedup_tz_keys_nodup.
      + intros c t z Hcc Ht Hzu Hzt.
        destruct (split_covers u c Hcc) as [g [Hg [_ Hcg]]].
        assert (Hw : In t (flat_map c_tzrefs (g_comps g))) by (apply in_flat_map; exists c; tauto).
        unfold split in Hg. apply in_map_iff in Hg as [ug [E Hug]].
        assert (Hg' : In g (split u)) by (unfold split; apply in_map_iff; exists ug; tauto).
        subst g. cbn in Hw.
        destruct (attach_complete (u_tzs u) _ z t Hzu Hzt Hw) as [z' [Hz' [Hz't _]]].
        assert (Hin : In (z_data z') (tz_blocks items)).
        { rewrite tz_blocks_items. apply in_map. apply in_flat_map. eexists. split; [exact Hg'|]. cbn. exact Hz'. }
        assert (Hk : tz_key (z_data z') = Some t).
        { destruct Hu as [_ Hzz]. destruct (Hzz z') as [_ [_ K]]; [eapply group_tz_in; [exact Hg'|exact Hz']|]. rewrite K. exact Hz't. }
        destruct (dedup_tz_complete _ _ _ Hin Hk) as [b [Hb Kb]]. exists b. tauto.
  Qed.
End Regroup.

Require RV.Proofs.UnfixedProofs.
Example wf_upload_example :
  wf_upload UnfixedProofs.up_ok /\ plain_props [[86; 69; 82; 83; 73; 79; 78; 58; 50; 46; 48]] /\
  (exists c t z, In c (collect UnfixedProofs.up_ok) /\ In t (c_tzrefs c) /\ In z (u_tzs UnfixedProofs.up_ok) /\ z_tzid z = Some t).
Proof.
  destruct UnfixedProofs.export_unfixed_loses_vtimezone as [[_ W1] [[_ W2] _]].
  inversion W1 as [|? ? Wtz W1']; subst. inversion W1' as [|? ? Wev1 _]; subst.
  inversion W2 as [|? ? _ W2']; subst. inversion W2' as [|? ? Wev2 _]; subst.
  split; [split|split].
  - intros c [<-|[<-|[]]]; (split; [assumption|reflexivity]).
  - intros z [<-|[]]. split; [exact Wtz|]. split; reflexivity.
  - repeat constructor.
  - eexists _, _, _. split; [left; reflexivity|]. split; [left; reflexivity|]. split; [left; reflexivity|].
    cbn. exact UnfixedProofs.tzb_key.
Qed.
