(* Soundness of the weakest-precondition calculus of Lib/Prog.v against the interpreter `run`,
   for every fault oracle; monotonicity, conjunction, and the frame rule for programs whose steps all
   satisfy a predicate. *)
From Coq Require Import List NArith Bool.
Import ListNotations.
Require Import RV.Lib.Prog.

Section ProgLemmas.
  Variables (step errno path rd St : Type).
  Variable app : step -> St -> St + errno.
  Variable look : St -> path -> rd.
  Variable ls : St -> path -> list path.

  Notation prog := (prog step errno path rd).
  Notation run := (run step errno path rd St app look ls).
  Notation wp := (wp step errno path rd St app look ls).
  Notation assertion := (assertion step St).
  Notation all_steps := (all_steps step errno path rd).

  Definition post_of (Q : assertion) (E : exn errno -> assertion) (C : assertion)
             (r : config step St * outcome errno) : Prop :=
    match snd r with
    | ONorm => Q (c_st (fst r)) (c_tr (fst r))
    | OExn e => E e (c_st (fst r)) (c_tr (fst r))
    | OKilled => C (c_st (fst r)) (c_tr (fst r))
    end.

  Lemma wp_sound : forall (p : prog) Q E C s t, wp p Q E C s t ->
    forall o n fr, post_of Q E C (run o p (Cfg n fr s t)).
  Proof.
    induction p as [ | e | st kok IHok kerr IHerr | k IHk | p IHp q IHq | pa k IHk | pa k IHk | p IHp h IHh ];
      intros Q E C s t Hwp o n fr; cbn [Prog.run Prog.wp c_n c_fresh c_st c_tr] in *.
    - exact Hwp.
    - exact Hwp.
    - destruct Hwp as (HC & Herr & Hok).
      destruct (o n).
      + destruct (app st s) as [s' | e] eqn:Ha.
        * apply IHok. apply Hok. reflexivity.
        * apply IHerr. apply Herr.
      + apply IHerr. apply Herr.
      + exact HC.
    - apply IHk. apply Hwp.
    - specialize (IHp _ _ _ _ _ Hwp o n fr).
      destruct (run o p (Cfg n fr s t)) as [c' out]. unfold post_of in IHp. cbn [fst snd] in IHp.
      destruct out; try exact IHp.
      destruct c' as [n' fr' s' t']. apply IHq. exact IHp.
    - apply IHk. exact Hwp.
    - apply IHk. exact Hwp.
    - specialize (IHp _ _ _ _ _ Hwp o n fr).
      destruct (run o p (Cfg n fr s t)) as [c' out]. unfold post_of in IHp. cbn [fst snd] in IHp.
      destruct out; try exact IHp.
      destruct c' as [n' fr' s' t']. apply IHh. exact IHp.
  Qed.

  Lemma wp_mono : forall (p : prog) (Q Q' : assertion) (E E' : exn errno -> assertion) (C C' : assertion),
    (forall s t, Q s t -> Q' s t) -> (forall e s t, E e s t -> E' e s t) -> (forall s t, C s t -> C' s t) ->
    forall s t, wp p Q E C s t -> wp p Q' E' C' s t.
  Proof.
    induction p as [ | e | st kok IHok kerr IHerr | k IHk | p IHp q IHq | pa k IHk | pa k IHk | p IHp h IHh ];
      intros Q Q' E E' C C' HQ HE HC s t Hwp; cbn [Prog.wp] in *.
    - auto.
    - auto.
    - destruct Hwp as (H1 & H2 & H3). split; [auto|]. split.
      + intro e. eapply IHerr; eauto.
      + intros s' Hs'. eapply IHok; eauto.
    - intro id. eapply IHk; eauto.
    - eapply IHp; [ | exact HE | exact HC | exact Hwp ].
      intros s1 t1 H1. eapply IHq; eauto.
    - eapply IHk; eauto.
    - eapply IHk; eauto.
    - eapply IHp; [ exact HQ | | exact HC | exact Hwp ].
      intros e s1 t1 H1. eapply IHh; eauto.
  Qed.

  Lemma wp_conj : forall (p : prog) (Q1 Q2 : assertion) (E1 E2 : exn errno -> assertion) (C1 C2 : assertion) s t,
    wp p Q1 E1 C1 s t -> wp p Q2 E2 C2 s t ->
    wp p (fun s t => Q1 s t /\ Q2 s t) (fun e s t => E1 e s t /\ E2 e s t) (fun s t => C1 s t /\ C2 s t) s t.
  Proof.
    induction p as [ | e | st kok IHok kerr IHerr | k IHk | p IHp q IHq | pa k IHk | pa k IHk | p IHp h IHh ];
      intros Q1 Q2 E1 E2 C1 C2 s t H1 H2; cbn [Prog.wp] in *.
    - auto.
    - auto.
    - destruct H1 as (A1 & B1 & D1), H2 as (A2 & B2 & D2). split; [auto|]. split.
      + intro e. apply IHerr; auto.
      + intros s' Hs'. apply IHok; auto.
    - intro id. apply IHk; auto.
    - eapply wp_mono; [ | | | apply (IHp _ _ _ _ _ _ _ _ H1 H2) ]; cbn beta; auto.
      intros s1 t1 [A B]. apply IHq; auto.
    - apply IHk; auto.
    - apply IHk; auto.
    - eapply wp_mono; [ | | | apply (IHp _ _ _ _ _ _ _ _ H1 H2) ]; cbn beta; auto.
      intros e s1 t1 [A B]. apply IHh; auto.
  Qed.

  (* Frame rule: an invariant J of (state, trace) preserved by every step satisfying nd (whether the step
     succeeds or fails) holds at every end and at every kill point of a program made of such steps. *)
  Lemma wp_all_steps : forall (nd : step -> Prop) (J : assertion),
    (forall st s s' t, nd st -> J s t -> app st s = inl s' -> J s' (t ++ [(st, true)])) ->
    (forall st s t, nd st -> J s t -> J s (t ++ [(st, false)])) ->
    forall (p : prog), all_steps nd p -> forall s t, J s t -> wp p J (fun _ => J) J s t.
  Proof.
    intros nd J Hok Hfail.
    induction p as [ | e | st kok IHok kerr IHerr | k IHk | p IHp q IHq | pa k IHk | pa k IHk | p IHp h IHh ];
      intros Hall s t HJ; cbn [Prog.wp Prog.all_steps] in *.
    - exact HJ.
    - exact HJ.
    - destruct Hall as (Hnd & Hk & He). split; [exact HJ|]. split.
      + intro e. apply IHerr; auto.
      + intros s' Hs'. apply IHok; auto. eapply Hok; eauto.
    - intro id. apply IHk; auto.
    - destruct Hall as (Hp & Hq).
      eapply wp_mono; [ | | | apply (IHp Hp s t HJ) ]; cbn beta; auto.
    - apply IHk; auto.
    - apply IHk; auto.
    - destruct Hall as (Hp & Hh).
      eapply wp_mono; [ | | | apply (IHp Hp s t HJ) ]; cbn beta; auto.
  Qed.

  (* sequencing helper: establish a mid-condition, then continue *)
  Lemma wp_seq : forall (p q : prog) (M Q : assertion) E C s t,
    wp p M E C s t -> (forall s' t', M s' t' -> wp q Q E C s' t') -> wp (Seq p q) Q E C s t.
  Proof.
    intros p q M Q E C s t Hp Hq. cbn [Prog.wp].
    eapply wp_mono; [ | | | exact Hp ]; cbn beta; auto.
  Qed.

  Lemma wp_catch : forall (p : prog) h (Q : assertion) (E E1 : exn errno -> assertion) C s t,
    wp p Q E1 C s t -> (forall e s' t', E1 e s' t' -> wp (h e) Q E C s' t') -> wp (Catch p h) Q E C s t.
  Proof.
    intros p h Q E E1 C s t Hp Hh. cbn [Prog.wp].
    eapply wp_mono; [ | | | exact Hp ]; cbn beta; auto.
  Qed.
End ProgLemmas.
