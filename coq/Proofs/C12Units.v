(* C12, part 2: every storage operation, run from a state in which its collection(s) exist, under ANY
   fault oracle, ends normally only with a durable trace. *)
From Coq Require Import List NArith Bool Lia PeanoNat.
Import ListNotations.
Require Import RV.Lib.Prog RV.Model.Fs RV.Model.StorageOps RV.Proofs.ProgLemmas RV.Proofs.FsLemmas
  RV.Proofs.MonLemmas RV.Proofs.CacheCalm RV.Proofs.C12Mon.
Open Scope N_scope.

(* a collection path: collection-root followed by safe names only *)
Definition coll_path (c : path) : bool := match c with Root :: r => forallb is_safe r | _ => false end.

Lemma rel_data_safe : forall r, forallb is_safe r = true -> rel_data r = true.
Proof.
  induction r as [|x r IH]; intro H; [reflexivity|]. cbn in H. apply andb_true_iff in H. destruct H as [Hx Hr].
  cbn [rel_data]. destruct r; [rewrite Hx; reflexivity | rewrite Hx; cbn; apply IH; exact Hr].
Qed.
Lemma coll_is_data : forall c, coll_path c = true -> is_data c = true.
Proof. intros [|x r] H; [discriminate|]. destruct x; try discriminate. cbn in *. apply rel_data_safe. exact H. Qed.
Lemma coll_ne : forall c, coll_path c = true -> c <> [].
Proof. intros [|x r] H; [discriminate | discriminate]. Qed.
Lemma coll_ext : forall c r, coll_path c = true -> r <> [] -> is_data (c ++ r) = rel_data r.
Proof.
  intros [|x c] r H Hr; [discriminate|]. destruct x; try discriminate. cbn in *.
  destruct (rel_data_safe_app c r H) as [E|E]; [exact E | contradiction].
Qed.
Lemma coll_snoc : forall c h, coll_path c = true -> is_safe h = true -> coll_path (c ++ [h]) = true.
Proof.
  intros [|x c] h H Hh; [discriminate|]. destruct x; try discriminate. cbn in *.
  rewrite forallb_app, H. cbn. rewrite Hh. reflexivity.
Qed.
Lemma coll_item_data : forall c h, coll_path c = true -> is_safe h = true -> is_data (c ++ [h]) = true.
Proof. intros. apply coll_is_data. apply coll_snoc; auto. Qed.
Lemma coll_props_data : forall c, coll_path c = true -> is_data (c ++ [Props]) = true.
Proof. intros. rewrite coll_ext; auto. discriminate. Qed.
Lemma coll_parent : forall c x, coll_path (c ++ [x]) = true -> c <> [] -> coll_path c = true.
Proof.
  intros [|y c] x H Hne; [congruence|]. destruct y; try discriminate. cbn in *.
  rewrite forallb_app in H. apply andb_true_iff in H. apply H.
Qed.

(* the invariant carried through an operation: the monitor is clean, the collections exist *)
Definition J12 (cs : list path) : asrt :=
  fun s t => IG (GX []) (mon_of t) /\ forall c, In c cs -> look s c = Some D.

Section J12.
  Variable cs : list path.
  Hypothesis cs_data : forall c, In c cs -> is_data c = true.

  Lemma J12_ok : forall st s s' t, nondata_step st = true -> J12 cs s t -> apply st s = inl s' -> J12 cs s' (t ++ [(st, true)]).
  Proof.
    intros st s s' t Hnd [Hm Hd] Ha. split.
    - rewrite mon_of_ok. apply nd_gstep; auto.
    - intros c Hc. rewrite (frame _ _ _ _ Ha); [auto|]. apply nondata_no_touch; auto.
  Qed.
  Lemma J12_fail : forall st s t, J12 cs s t -> J12 cs s (t ++ [(st, false)]).
  Proof. intros st s t [Hm Hd]. split; [rewrite mon_of_fail; exact Hm | exact Hd]. Qed.
  Lemma J12_dir : forall c, In c cs -> forall s t, J12 cs s t -> look s c = Some D.
  Proof. intros c Hc s t [_ Hd]. auto. Qed.

  (* a visible change followed by the fsync of its directory *)
  Lemma J12_data_step : forall st (X : list dent) s t,
    (forall m, IG (GX []) m -> IG (GX X) (dstep st m)) ->
    (forall c, In c cs -> touch st c = false) ->
    J12 cs s t -> WP (Do st) (fun s' t' => IG (GX X) (mon_of t') /\ forall c, In c cs -> look s' c = Some D) s t.
  Proof.
    intros st X s t Hg Ht [Hm Hd]. apply WP_do. intros s' Ha. split.
    - rewrite mon_of_ok. apply Hg. exact Hm.
    - intros c Hc. rewrite (frame _ _ _ _ Ha); auto.
  Qed.

  Lemma J12_fsyncD : forall q (X : list dent) s t,
    (forall e, In e X -> exists p, e = DE p /\ parent p = q) ->
    IG (GX X) (mon_of t) /\ (forall c, In c cs -> look s c = Some D) ->
    WP (fsyncD q) (J12 cs) s t.
  Proof.
    intros q X s t HX [Hm Hd]. apply WP_fsyncD_s. split; [|exact Hd].
    rewrite mon_of_ok. cbn [dstep]. eapply IG_weaken; [|apply IG_drop; exact Hm]. cbn.
    intros e [[Hn|Hin] Hf]; [left; exact Hn|]. destruct (HX e Hin) as [p [-> Hp]]. rewrite Hp, path_eqb_refl in Hf. discriminate.
  Qed.
End J12.

Lemma GX_tmp : forall X d k r, GX X (DE (d ++ Tmp k :: r)) /\ GX X (DW (d ++ Tmp k :: r)).
Proof. intros. split; left; cbn; apply is_data_tmp. Qed.

(* _atomic_write into directory d keeps J12 when the tracked collections are d or ancestors of d *)
Lemma touch_ext : forall st (c d : path), prefix c d = true ->
  (forall q, touch st q = true -> exists r, r <> [] /\ prefix (d ++ r) q = true) -> touch st c = false.
Proof.
  intros st c d Hp H. destruct (touch st c) eqn:E; [|reflexivity]. exfalso.
  destruct (H c E) as [r [Hr Hq]]. apply prefix_length in Hp, Hq. rewrite app_length in Hq.
  destruct r; [congruence|]. cbn in Hq. lia.
Qed.

Lemma aw_dirs : forall (cs : list path) d x v s t, (forall c, In c cs -> prefix c d = true) ->
  (forall c, In c cs -> look s c = Some D) ->
  machine_wp (AW d x v) (fun s' _ => forall c, In c cs -> look s' c = Some D) (fun _ s' _ => forall c, In c cs -> look s' c = Some D)
             (fun s' _ => forall c, In c cs -> look s' c = Some D) s t.
Proof.
  intros cs d x v s t Hcs Hd.
  apply (wp_all_steps step errno path (option node) fs apply look ls (fun st => forall c, In c cs -> touch st c = false)
                      (fun s' _ => forall c, In c cs -> look s' c = Some D)); auto.
  - intros st s0 s' t0 Hnt Hl Ha c Hc. rewrite (frame _ _ _ _ Ha); auto.
  - assert (Hx : forall c r, In c cs -> r <> [] -> path_eqb c (d ++ r) = false /\ prefix (d ++ r) c = false).
    { intros c r Hc Hr. specialize (Hcs c Hc). apply prefix_length in Hcs. split.
      - apply path_eqb_neq. intros ->. rewrite app_length in Hcs. destruct r; [congruence | cbn in Hcs; lia].
      - destruct (prefix (d ++ r) c) eqn:E; [|reflexivity]. apply prefix_length in E. rewrite app_length in E.
        destruct r; [congruence | cbn in E; lia]. }
    unfold AW, with_tmp, Finally, Do, fsyncD, fsyncF. cbn [all_steps seqs]. repeat split; auto; intros;
      cbn [touch]; try reflexivity;
      repeat rewrite <- app_assoc;
      try (apply Hx; [assumption | discriminate]);
      try (apply orb_false_iff; split; apply Hx; try assumption; discriminate).
Qed.

Lemma aw_J12 : forall cs d x v s t, (forall c, In c cs -> prefix c d = true) ->
  J12 cs s t -> WP (AW d x v) (J12 cs) s t.
Proof.
  intros cs d x v s t Hcs [Hm Hd].
  pose proof (aw_mon (GX []) d x v (GX_tmp [] d) s t Hm) as H1.
  pose proof (aw_dirs cs d x v s t Hcs Hd) as H2.
  unfold WP, machine_wp in *.
  eapply wp_mono; [ | | | apply (wp_conj _ _ _ _ _ _ _ _ _ _ _ _ _ _ _ _ _ H1 H2) ]; cbn; auto.
  - intros; exact I.
  - intros; exact I.
Qed.

Section Units.
  Variable lay : layout.

  Ltac calm_tail cs Hcs :=
    apply calm_WP; [| assumption].

  (* Collection.upload *)
  Lemma upload_c12 : forall c h v exp s t, coll_path c = true -> is_safe h = true ->
    J12 [c] s t -> WP (upload lay c h v exp) (J12 [c]) s t.
  Proof.
    intros c h v exp s t Hc Hh H.
    assert (Hcd : forall c0, In c0 [c] -> is_data c0 = true) by (intros c0 [<- | []]; apply coll_is_data; exact Hc).
    assert (Hdir : forall s t, J12 [c] s t -> look s c = Some D) by (intros s0 t0 [_ Hd]; apply Hd; left; reflexivity).
    pose proof (J12_ok [c] Hcd) as Jok. pose proof (J12_fail [c]) as Jf. pose proof (coll_ne c Hc) as Hne.
    pose proof (coll_is_data c Hc) as Hdat.
    unfold upload. cbn [seqs].
    eapply WP_seq; [apply WP_catch_raise; [intro e; eexists; reflexivity|]; apply (aw_J12 [c]); [intros c0 [<- | []]; apply prefix_refl | exact H]|].
    intros s1 t1 H1.
    eapply WP_seq; [apply WP_catch_raise; [intro e; eexists; reflexivity|]; apply calm_WP; [apply (calm_store_cache _ Jok Jf c Hdir Hne Hdat) | exact H1]|].
    intros s2 t2 H2.
    eapply WP_seq; [apply calm_WP; [apply (calm_update_history _ Jok Jf c Hdir Hne Hdat) | exact H2]|].
    intros s3 t3 H3.
    eapply WP_seq; [apply calm_WP; [apply (calm_clean_history _ Jok Jf c) | exact H3]|].
    intros s4 t4 H4.
    apply calm_WP; [apply (calm_get_many _ Jok Jf c Hdir Hne Hdat) | exact H4].
  Qed.
End Units.
