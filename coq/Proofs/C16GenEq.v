(* Tie T: the regenerated translation of the skip / declared-matched expressions of
   BaseCollection.get_filtered (radicale/storage/__init__.py) equals the hand model.
   The proofs are semantic (case analysis + lia), so a harmless re-ordering of the Python operands still checks. *)
From Coq Require Import ZArith Bool Lia ZifyBool.
Require Import RV.Model.Rfc4791 RV.Model.Filter.
Require RV.Gen.C16Gen.

Lemma Gen_gf_skip_eq : forall tag comp istart iend start end_,
    C16Gen.gf_skip_tag tag comp || C16Gen.gf_skip_time istart iend start end_
    = gf_skip tag comp istart iend start end_.
Proof.
  intros tag comp istart iend start end_.
  unfold C16Gen.gf_skip_tag, C16Gen.gf_skip_time, C16Gen.opt_is_some, C16Gen.opt_name_neq, gf_skip, xle.
  destruct tag as [t|]; [destruct (cname_eqb t comp)|];
    destruct istart, iend, start, end_; cbn [xlt negb andb orb]; try reflexivity; lia.
Qed.

Lemma Gen_gf_matched_eq : forall simple istart iend start end_,
    C16Gen.gf_matched simple istart iend start end_ = gf_matched simple istart iend start end_.
Proof.
  intros simple istart iend start end_. unfold C16Gen.gf_matched, gf_matched, xle.
  destruct simple, istart, iend, start, end_; cbn [xlt negb andb orb]; try reflexivity; lia.
Qed.

Lemma get_filtered_expressions : forall tag comp simple istart iend start end_,
    C16Gen.gf_skip_tag tag comp || C16Gen.gf_skip_time istart iend start end_ = gf_skip tag comp istart iend start end_
    /\ C16Gen.gf_matched simple istart iend start end_ = gf_matched simple istart iend start end_.
Proof. intros. split; [apply Gen_gf_skip_eq|apply Gen_gf_matched_eq]. Qed.

(* Case folding of the comp-filter name attribute: the three places that read it (comp_match, and the two of
   simplify_prefilters) all apply str.upper(), as the model does -- hence they agree on every spelling. *)
Lemma Gen_name_sites_eq : forall n,
    C16Gen.comp_match_name n = Folded (upper n)
    /\ C16Gen.prefilter_col_name n = Folded (upper n)
    /\ C16Gen.prefilter_tag_name n = Folded (upper n).
Proof. intros n. repeat split; reflexivity. Qed.

Lemma name_sites_agree : forall n,
    C16Gen.comp_match_name n = C16Gen.prefilter_tag_name n /\ C16Gen.comp_match_name n = C16Gen.prefilter_col_name n.
Proof. intros n. destruct (Gen_name_sites_eq n) as (H1 & H2 & H3). rewrite H1, H2, H3. split; reflexivity. Qed.
