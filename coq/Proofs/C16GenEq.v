(* Tie T: the regenerated translation of the skip / declared-matched expressions of
   BaseCollection.get_filtered (radicale/storage/__init__.py) equals the hand model.
   The proofs are semantic (case analysis + lia), so a harmless re-ordering of the Python operands still checks. *)
From Coq Require Import ZArith Bool Lia ZifyBool.
Require Import RV.Model.Rfc4791 RV.Model.Filter.
Require RV.Gen.C16Gen.

Lemma Gen_gf_skip_eq : forall tag comp istart iend start end_,
    C16Gen.gf_skip_tag tag comp || C16Gen.gf_skip_time istart iend start end_
    = gf_skip tag comp istart iend start end_.
Proof.
  intros tag comp istart iend start end_.
  unfold C16Gen.gf_skip_tag, C16Gen.gf_skip_time, C16Gen.opt_is_some, C16Gen.opt_name_neq, gf_skip, xle.
  destruct tag as [t|]; [destruct (cname_eqb t comp)|];
    destruct istart, iend, start, end_; cbn [xlt negb andb orb]; try reflexivity; lia.
Qed.

Lemma Gen_gf_matched_eq : forall simple istart iend start end_,
    C16Gen.gf_matched simple istart iend start end_ = gf_matched simple istart iend start end_.
Proof.
  intros simple istart iend start end_. unfold C16Gen.gf_matched, gf_matched, xle.
  destruct simple, istart, iend, start, end_; cbn [xlt negb andb orb]; try reflexivity; lia.
Qed.

Lemma get_filtered_expressions : forall tag comp simple istart iend start end_,
    C16Gen.gf_skip_tag tag comp || C16Gen.gf_skip_time istart iend start end_ = gf_skip tag comp istart iend start end_
    /\ C16Gen.gf_matched simple istart iend start end_ = gf_matched simple istart iend start end_.
Proof. intros. split; [apply Gen_gf_skip_eq|apply Gen_gf_matched_eq]. Qed.
