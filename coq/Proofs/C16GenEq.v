(* Tie T: the regenerated translation of the skip / declared-matched expressions of
   BaseCollection.get_filtered (radicale/storage/__init__.py) equals the hand model. *)
From Coq Require Import ZArith Bool.
Require Import RV.Model.Rfc4791 RV.Model.Filter.
Require RV.Gen.C16Gen.

Lemma Gen_gf_skip_eq : forall tag comp istart iend start end_,
    C16Gen.gf_skip_tag tag comp || C16Gen.gf_skip_time istart iend start end_
    = gf_skip tag comp istart iend start end_.
Proof. intros [t|] comp istart iend start end_; reflexivity. Qed.

Lemma Gen_gf_matched_eq : forall simple istart iend start end_,
    C16Gen.gf_matched simple istart iend start end_ = gf_matched simple istart iend start end_.
Proof. reflexivity. Qed.
