(* C14 -- the readline-based unfolder of vobject (getLogicalLines(allowQP=True), model `unfold_qp`)
   against folding (`fold_line`).

   1. unfold_qp_fold: outside the known class (no white-space-only physical line, no mention of
      quoted-printable) the readline-based unfolder undoes folding.  The statement is the one that
      was asked for; no side condition had to be added.
   2. ws_witness_*: the known class is real: "S:" + 73 x + SPACE folds into a continuation line
      " " + " ", which the readline-based reader takes for a blank line; the regex-based reader
      (`unfold_std`) reads the same text back correctly.

   Route.  fold_line s is characterised by pieces (fold_line_shape):
       fold_line s = p ++ CRLF ++ concat (map (fun q => SP :: q ++ CRLF) ps)   with s = p ++ concat ps, p <> [].
   readlines cuts such a text into p ++ CRLF and the SP :: q ++ CRLF (readlines_folded); rstrip_brk
   removes the CRLF (rstrip_brk_crlf); unfold_qp_aux appends the continuation lines (unfold_qp_conts)
   and the quotedPrintable flag stays false because qp_pending of a prefix of a logical line that does
   not mention quoted-printable is false (qp_pending_prefix). *)
From Coq Require Import List NArith Bool Lia.
Import ListNotations.
Require Import RV.Lib.PyStr RV.Proofs.PyStrLemmas RV.Model.ContentLine RV.Model.Vobj RV.Model.C14Spec.
Open Scope N_scope.

Definition good_line (s : pystr) : Prop :=
  s <> [] /\ no_brk s /\ match s with c :: _ => is_wsp c = false | [] => True end.

(* ------------------------------------------------------------------ substring monotonicity *)
Lemma startswith_app : forall w a b, startswith a w = true -> startswith (a ++ b) w = true.
Proof.
  induction w as [|y w IH]; intros a b H; [destruct a; reflexivity|].
  destruct a as [|x a]; cbn in H; [discriminate|].
  cbn. apply andb_true_iff in H as [H1 H2]. rewrite H1. cbn. apply IH. exact H2.
Qed.

Lemma contains_sub_unfold : forall w b,
  contains_sub w b = startswith b w || match b with [] => false | _ :: r => contains_sub w r end.
Proof. intros w b. destruct b; reflexivity. Qed.

Lemma contains_sub_app_true : forall w a b, contains_sub w a = true -> contains_sub w (a ++ b) = true.
Proof.
  induction a as [|x a IH]; intros b H.
  - rewrite contains_sub_unfold in H. rewrite orb_false_r in H.
    rewrite contains_sub_unfold. rewrite (startswith_app w [] b H). reflexivity.
  - rewrite contains_sub_unfold in H. apply orb_true_iff in H as [H|H].
    + rewrite contains_sub_unfold. rewrite (startswith_app w (x :: a) b H). reflexivity.
    + rewrite contains_sub_unfold. cbn [app]. rewrite (IH b H). apply orb_true_r.
Qed.

Lemma contains_sub_prefix_false : forall w a b, contains_sub w (a ++ b) = false -> contains_sub w a = false.
Proof.
  intros w a b H. destruct (contains_sub w a) eqn:E; [|reflexivity].
  rewrite (contains_sub_app_true w a b E) in H. discriminate.
Qed.

Lemma mentions_qp_prefix : forall a b, mentions_qp (a ++ b) = false -> mentions_qp a = false.
Proof.
  unfold mentions_qp. intros a b H. rewrite map_app in H.
  exact (contains_sub_prefix_false _ _ _ H).
Qed.

Lemma qp_pending_prefix : forall a b, mentions_qp (a ++ b) = false -> qp_pending a = false.
Proof.
  intros a b H. unfold qp_pending. apply mentions_qp_prefix in H. unfold mentions_qp in H.
  rewrite H. apply andb_false_r.
Qed.

(* ------------------------------------------------------------------ shape of a folded line *)
Definition cont (q : pystr) : pystr := (SP :: q) ++ [CR; LF].
Definition raws (p : pystr) (ps : list pystr) : list pystr := (p ++ [CR; LF]) :: map cont ps.
Definition folded (p : pystr) (ps : list pystr) : pystr := (p ++ [CR; LF]) ++ List.concat (map cont ps).

Lemma fold_loop_shape : forall s k, exists p ps,
  s = p ++ List.concat ps /\ fold_loop s k ++ [CR; LF] = folded p ps.
Proof.
  induction s as [|c r IH]; intros k.
  - exists [], []. split; reflexivity.
  - cbn [fold_loop]. destruct (75 <? k + utf8_len c).
    + destruct (IH (1 + utf8_len c)) as (p & ps & Hs & Hf).
      exists [], ((c :: p) :: ps). split.
      * cbn. rewrite Hs. reflexivity.
      * unfold folded. cbn [map List.concat app]. unfold cont at 1. cbn [app].
        rewrite Hf. unfold folded. rewrite <- !app_assoc. reflexivity.
    + destruct (IH (k + utf8_len c)) as (p & ps & Hs & Hf).
      exists (c :: p), ps. split.
      * cbn. rewrite Hs. reflexivity.
      * cbn [app]. rewrite Hf. unfold folded. reflexivity.
Qed.

Lemma utf8_len_le : forall c, utf8_len c <= 4.
Proof.
  intros c. unfold utf8_len.
  destruct (c <? 128); [lia|]. destruct (c <? 2048); [lia|]. destruct (c <? 65536); lia.
Qed.

Lemma fold_line_shape : forall s, s <> [] -> exists p ps,
  p <> [] /\ s = p ++ List.concat ps /\ fold_line s = folded p ps.
Proof.
  intros s Hne. unfold fold_line. destruct (N.of_nat (length s) <? 75).
  - exists s, []. split; [exact Hne|]. split.
    + cbn. rewrite app_nil_r. reflexivity.
    + unfold folded. cbn. rewrite app_nil_r. reflexivity.
  - destruct s as [|c r]; [contradiction|]. cbn [fold_loop].
    assert (Hk : (75 <? 0 + utf8_len c) = false).
    { apply N.ltb_ge. pose proof (utf8_len_le c). lia. }
    rewrite Hk. destruct (fold_loop_shape r (0 + utf8_len c)) as (p & ps & Hs & Hf).
    exists (c :: p), ps. split; [discriminate|]. split.
    + cbn. rewrite Hs. reflexivity.
    + cbn [app]. rewrite Hf. reflexivity.
Qed.

(* ------------------------------------------------------------------ readlines over a folded line *)
Lemma readlines_aux_line : forall s acc rest,
  Forall (fun c => (c =? LF) = false) s ->
  readlines_aux acc (s ++ LF :: rest) = (rev acc ++ s ++ [LF]) :: readlines rest.
Proof.
  induction s as [|c s IH]; intros acc rest H.
  - cbn [app readlines_aux]. rewrite N.eqb_refl. reflexivity.
  - inversion H as [|? ? Hc Hs]; subst. cbn [app readlines_aux]. rewrite Hc.
    rewrite (IH _ _ Hs). cbn [rev]. rewrite <- app_assoc. reflexivity.
Qed.

Lemma no_brk_no_lf : forall l, no_brk l -> Forall (fun c => (c =? LF) = false) (l ++ [CR]).
Proof.
  intros l H. apply Forall_app. split.
  - unfold no_brk in H. eapply Forall_impl; [|exact H]. cbn beta. intros c Hc.
    unfold is_brk in Hc. apply orb_false_iff in Hc as [_ Hc]. exact Hc.
  - constructor; [reflexivity|constructor].
Qed.

Lemma readlines_crlf : forall l rest, no_brk l ->
  readlines ((l ++ [CR; LF]) ++ rest) = (l ++ [CR; LF]) :: readlines rest.
Proof.
  intros l rest H. unfold readlines at 1.
  replace ((l ++ [CR; LF]) ++ rest) with ((l ++ [CR]) ++ LF :: rest)
    by (rewrite <- !app_assoc; reflexivity).
  rewrite (readlines_aux_line _ [] rest (no_brk_no_lf l H)).
  cbn [rev app]. rewrite <- app_assoc. reflexivity.
Qed.

Lemma no_brk_sp : forall q, no_brk q -> no_brk (SP :: q).
Proof. intros q H. constructor; [reflexivity|exact H]. Qed.

Lemma readlines_conts : forall ps rest, Forall no_brk ps ->
  readlines (List.concat (map cont ps) ++ rest) = map cont ps ++ readlines rest.
Proof.
  induction ps as [|q ps IH]; intros rest H; [reflexivity|].
  inversion H as [|? ? Hq Hps]; subst. cbn [map List.concat].
  rewrite <- app_assoc. unfold cont at 1.
  rewrite (readlines_crlf (SP :: q) _ (no_brk_sp q Hq)). rewrite (IH rest Hps). reflexivity.
Qed.

Lemma readlines_folded : forall p ps rest, no_brk p -> Forall no_brk ps ->
  readlines (folded p ps ++ rest) = raws p ps ++ readlines rest.
Proof.
  intros p ps rest Hp Hps. unfold folded, raws. rewrite <- app_assoc.
  rewrite (readlines_crlf p _ Hp). rewrite (readlines_conts ps rest Hps). reflexivity.
Qed.

(* ------------------------------------------------------------------ rstrip("\r\n") *)
Lemma lstrip_brk_id : forall x, no_brk x -> lstrip_brk x = x.
Proof.
  intros x H. destruct x as [|c x]; [reflexivity|].
  inversion H as [|? ? Hc _]; subst. cbn [lstrip_brk]. rewrite Hc. reflexivity.
Qed.

Lemma no_brk_rev : forall l, no_brk l -> no_brk (rev l).
Proof.
  unfold no_brk. intros l H. apply Forall_forall. intros c Hc.
  apply in_rev in Hc. rewrite Forall_forall in H. exact (H c Hc).
Qed.

Lemma rstrip_brk_crlf : forall l, no_brk l -> rstrip_brk (l ++ [CR; LF]) = l.
Proof.
  intros l H. unfold rstrip_brk. rewrite rev_app_distr.
  change (rev [CR; LF] ++ rev l) with (LF :: CR :: rev l).
  change (lstrip_brk (LF :: CR :: rev l)) with (lstrip_brk (rev l)).
  rewrite (lstrip_brk_id _ (no_brk_rev l H)). apply rev_involutive.
Qed.

Lemma rstrip_brk_cont : forall q, no_brk q -> rstrip_brk (cont q) = SP :: q.
Proof. intros q H. unfold cont. apply rstrip_brk_crlf. apply no_brk_sp. exact H. Qed.

(* ------------------------------------------------------------------ the reader over one folded line *)
Lemma ws_only_false_nonempty : forall p, p <> [] -> ws_only_line p = false -> all_space p = false.
Proof.
  intros p Hne H. unfold ws_only_line in H. destruct p as [|c p]; [contradiction|]. exact H.
Qed.

(* continuation lines are appended, the quotedPrintable flag stays false *)
Lemma unfold_qp_conts : forall ps cur L,
  Forall no_brk ps ->
  Forall (fun q => ws_only_line (SP :: q) = false) ps ->
  mentions_qp (cur ++ List.concat ps) = false ->
  unfold_qp_aux cur false (map cont ps ++ L) = unfold_qp_aux (cur ++ List.concat ps) false L.
Proof.
  induction ps as [|q ps IH]; intros cur L Hb Hw Hq.
  - cbn. rewrite app_nil_r. reflexivity.
  - inversion Hb as [|? ? Hbq Hbps]; subst. inversion Hw as [|? ? Hwq Hwps]; subst.
    cbn [map app unfold_qp_aux]. rewrite (rstrip_brk_cont q Hbq).
    rewrite (ws_only_false_nonempty (SP :: q) ltac:(discriminate) Hwq).
    change (is_wsp SP) with true. cbv iota.
    cbn [List.concat] in Hq. rewrite app_assoc in Hq.
    rewrite (qp_pending_prefix _ _ Hq).
    rewrite (IH (cur ++ q) L Hbps Hwps Hq).
    cbn [List.concat]. rewrite app_assoc. reflexivity.
Qed.

Definition flush (cur : pystr) : list pystr := match cur with [] => [] | _ => [cur] end.

(* the physical lines of one folded logical line, read from any state with the flag off *)
Lemma unfold_qp_one : forall p ps cur L,
  p <> [] -> no_brk p -> Forall no_brk ps ->
  match p with c :: _ => is_wsp c = false | [] => True end ->
  ws_only_line p = false ->
  Forall (fun q => ws_only_line (SP :: q) = false) ps ->
  mentions_qp (p ++ List.concat ps) = false ->
  unfold_qp_aux cur false (raws p ps ++ L) = flush cur ++ unfold_qp_aux (p ++ List.concat ps) false L.
Proof.
  intros p ps cur L Hne Hbp Hbps Hc Hwp Hwps Hq.
  unfold raws. cbn [app unfold_qp_aux]. rewrite (rstrip_brk_crlf p Hbp).
  rewrite (ws_only_false_nonempty p Hne Hwp).
  destruct p as [|c tl]; [contradiction|]. rewrite Hc.
  rewrite (qp_pending_prefix _ _ Hq).
  rewrite (unfold_qp_conts ps (c :: tl) L Hbps Hwps Hq).
  destruct cur; reflexivity.
Qed.

(* ------------------------------------------------------------------ the physical lines of the whole text *)
Lemma phys_lines_folded : forall p ps rest, no_brk p -> Forall no_brk ps ->
  phys_lines (folded p ps ++ rest) = (p :: map (fun q => SP :: q) ps) ++ phys_lines rest.
Proof.
  intros p ps rest Hp Hps. unfold phys_lines. rewrite (readlines_folded p ps rest Hp Hps).
  rewrite map_app. f_equal. unfold raws. cbn [map]. rewrite (rstrip_brk_crlf p Hp). f_equal.
  rewrite map_map. apply map_ext_in. intros q Hq. apply rstrip_brk_cont.
  rewrite Forall_forall in Hps. exact (Hps q Hq).
Qed.

(* ------------------------------------------------------------------ main induction *)
Lemma unfold_qp_fold_gen : forall ss cur,
  Forall good_line ss ->
  Forall (fun s => mentions_qp s = false) ss ->
  no_ws_only_lines (List.concat (map fold_line ss)) ->
  unfold_qp_aux cur false (readlines (List.concat (map fold_line ss))) = flush cur ++ ss.
Proof.
  induction ss as [|s ss IH]; intros cur Hg Hq Hw.
  - cbn. unfold flush. destruct cur; reflexivity.
  - inversion Hg as [|? ? Hgs Hgss]; subst. inversion Hq as [|? ? Hqs Hqss]; subst.
    destruct Hgs as (Hne & Hbrk & Hhd).
    destruct (fold_line_shape s Hne) as (p & ps & Hpne & Hs & Hf).
    cbn [map List.concat] in Hw |- *. rewrite Hf in Hw |- *.
    assert (Hb : no_brk p /\ Forall no_brk ps).
    { unfold no_brk in Hbrk. rewrite Hs in Hbrk. apply Forall_app in Hbrk as [H1 H2].
      split; [exact H1|]. apply Forall_concat in H2. exact H2. }
    destruct Hb as [Hbp Hbps].
    unfold no_ws_only_lines in Hw. rewrite (phys_lines_folded p ps _ Hbp Hbps) in Hw.
    apply Forall_app in Hw as [Hw1 Hw2]. apply Forall_cons_iff in Hw1 as [Hwp Hwps].
    rewrite Forall_map in Hwps.
    assert (Hhd' : match p with c :: _ => is_wsp c = false | [] => True end).
    { destruct p as [|c tl]; [exact I|]. rewrite Hs in Hhd. exact Hhd. }
    rewrite (readlines_folded p ps _ Hbp Hbps).
    assert (Hq' : mentions_qp (p ++ List.concat ps) = false) by (rewrite <- Hs; exact Hqs).
    rewrite (unfold_qp_one p ps cur _ Hpne Hbp Hbps Hhd' Hwp Hwps Hq').
    rewrite <- Hs. rewrite (IH s Hgss Hqss Hw2).
    unfold flush at 2. destruct s as [|c tl]; [contradiction|]. reflexivity.
Qed.

(* 1. outside the known class the readline-based unfolder undoes folding *)
Theorem unfold_qp_fold : forall ss,
  Forall good_line ss ->
  Forall (fun s => mentions_qp s = false) ss ->
  no_ws_only_lines (List.concat (map fold_line ss)) ->
  unfold_qp (List.concat (map fold_line ss)) = ss.
Proof.
  intros ss Hg Hq Hw. unfold unfold_qp. rewrite (unfold_qp_fold_gen ss [] Hg Hq Hw). reflexivity.
Qed.

(* 2. the known class is real *)
Definition ws_witness : pystr := (83 :: 58 :: repeat_char 120 73) ++ [32].   (* "S:" + 73 x + one space = 76 characters *)

Lemma ws_witness_good : good_line ws_witness /\ mentions_qp ws_witness = false.
Proof.
  split; [|vm_compute; reflexivity].
  split; [vm_compute; discriminate|]. split; [|vm_compute; reflexivity].
  unfold no_brk. apply Forall_forall. intros c Hc. vm_compute in Hc.
  repeat (destruct Hc as [Hc|Hc]; [subst c; reflexivity|]). contradiction.
Qed.

Lemma unfold_qp_refuted : unfold_qp (fold_line ws_witness) <> [ws_witness].
Proof. vm_compute. discriminate. Qed.

Lemma ws_witness_in_class : ~ no_ws_only_lines (fold_line ws_witness).
Proof.
  unfold no_ws_only_lines. intros H.
  assert (E : phys_lines (fold_line ws_witness) = [83 :: 58 :: repeat_char 120 73; [32; 32]])
    by (vm_compute; reflexivity).
  rewrite E in H. inversion H as [|? ? _ H2]; subst. inversion H2 as [|? ? H3 _]; subst.
  vm_compute in H3. discriminate.
Qed.

Lemma ws_witness_std_ok : unfold_std (fold_line ws_witness) = [ws_witness].
Proof. vm_compute. reflexivity. Qed.

Print Assumptions unfold_qp_fold.
