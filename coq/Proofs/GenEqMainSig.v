(* Tie T for C20: the regenerated signal handling of radicale/__main__.py run() (Gen/MainSigGen.v) is what
   Model/ServerMain.v was written from: the same statements, and a shutdown handler that does exactly
   `shutdown_socket.close()`. *)
From Coq Require Import List String.
Import ListNotations.
Require Import RV.Model.ServerMain RV.Gen.MainSigGen.

Lemma Gen_mainsig_skeleton_eq : mainsig_skeleton = main_skeleton.
Proof. reflexivity. Qed.

Lemma Gen_shutdown_handler_eq : shutdown_handler = shutdown_handler_model.
Proof. reflexivity. Qed.
