(* C10 facts about the REGENERATED skeleton (Gen/Skeleton.v, translate/t_skeleton.py).
   Lemmas named Gen_* are the obligations that tie the proof to the current source: they are
   re-checked by vm_compute on every run and break when the code changes the lock discipline. *)
From Coq Require Import List NArith Bool String.
Import ListNotations.
Require Import RV.Model.LockDiscipline RV.Proofs.LockDisciplineProofs RV.Gen.Skeleton.

(* every request = gate + handler, for every method the application implements *)
Lemma Gen_skeleton_requests_ok : forallb (fun p => check_skel (snd p)) requests = true.
Proof. vm_compute. reflexivity. Qed.

(* the handlers alone (as called by the gate, which holds no lock at that point) *)
Lemma Gen_skeleton_handlers_ok : forallb (fun p => check_skel (snd p)) handlers = true.
Proof. vm_compute. reflexivity. Qed.

Lemma Gen_skeleton_methods :
  map fst requests = ["DELETE"; "GET"; "HEAD"; "MKCALENDAR"; "MKCOL"; "MOVE"; "OPTIONS"; "POST"; "PROPFIND";
                      "PROPPATCH"; "PUT"; "REPORT"]%string.
Proof. vm_compute. reflexivity. Qed.

(* lock.py: the hook is started for exactly the modes the model assumes *)
Lemma Gen_hook_modes_eq : forall m, existsb (mode_eqb m) hook_modes = hook_mode m.
Proof. intros [|]; vm_compute; reflexivity. Qed.

(* meta.py / Collection.etag: the re-read condition is the one of the model *)
Lemma Gen_meta_reread_eq : forall a b, meta_reread a b = reread a b.
Proof. intros [|] [|]; reflexivity. Qed.
Lemma Gen_etag_reread_eq : forall a b, etag_reread a b = reread a b.
Proof. intros [|] [|]; reflexivity. Qed.

Theorem c10_requests_disciplined :
  forall name s, In (name, s) requests -> forall t, trace_of s t -> discipline t.
Proof.
  intros name s Hin. pose proof Gen_skeleton_requests_ok as H.
  rewrite forallb_forall in H. specialize (H _ Hin). simpl in H.
  apply c10_checker_sound. exact H.
Qed.

Theorem c10_meta_cache_gen : forall v cached,
  (meta_reread (view_is_w v) (negb cached) = true <-> (v = LWrite \/ cached = false)) /\
  (etag_reread (view_is_w v) (negb cached) = true <-> (v = LWrite \/ cached = false)).
Proof.
  intros v cached. split.
  - rewrite Gen_meta_reread_eq. apply c10_meta_cache.
  - rewrite Gen_etag_reread_eq. apply c10_meta_cache.
Qed.

Theorem c10_hook_modes_gen : hook_modes = [W].
Proof. reflexivity. Qed.

(* not vacuous: the REPORT request has a trace that takes the shared lock, reads and releases early *)
Example c10_requests_nonempty : exists s, In ("REPORT"%string, s) requests.
Proof. eexists. unfold requests, handlers. apply in_map_iff. exists ("REPORT"%string, sk_do_REPORT). split; [reflexivity|]. simpl. tauto. Qed.
