(* C14 -- the Thunderbird clean-up as an explicit normalisation step with its guard: DURATION lines are removed ONLY when the
   component has a DTEND and its first DURATION is zero; otherwise the step is the identity. *)
From Coq Require Import List NArith Bool.
Import ListNotations.
Require Import RV.Lib.PyStr RV.Proofs.PyStrLemmas RV.Model.ContentLine RV.Model.Vobj.
Open Scope N_scope.

Lemma zero_duration_needs_dtend : forall ch, lines_named s_DTEND ch = [] -> fix_zero_duration ch = ch.
Proof. intros ch H. unfold fix_zero_duration, zero_duration_applies. rewrite H. reflexivity. Qed.

Lemma zero_duration_needs_zero : forall ch d r,
  lines_named s_DURATION ch = d :: r -> duration_seconds (cl_value d) <> Some 0 -> fix_zero_duration ch = ch.
Proof.
  intros ch d r H Hz. unfold fix_zero_duration, zero_duration_applies. rewrite H.
  destruct (duration_seconds (cl_value d)) as [[|p]|]; try (rewrite andb_false_r; reflexivity). contradiction.
Qed.

Lemma zero_duration_effect : forall ch, fix_zero_duration ch <> ch ->
  lines_named s_DTEND ch <> [] /\
  (exists d r, lines_named s_DURATION ch = d :: r /\ duration_seconds (cl_value d) = Some 0) /\
  fix_zero_duration ch = drop_named s_DURATION ch.
Proof.
  intros ch H. unfold fix_zero_duration in *. destruct (zero_duration_applies ch) eqn:E; [|contradiction].
  unfold zero_duration_applies in E. apply andb_true_iff in E as [E1 E2]. split; [|split].
  - destruct (lines_named s_DTEND ch); [discriminate|discriminate].
  - destruct (lines_named s_DURATION ch) as [|d r]; [discriminate|]. exists d, r. split; [reflexivity|].
    destruct (duration_seconds (cl_value d)) as [[|p]|]; try discriminate. reflexivity.
  - reflexivity.
Qed.

(* an event whose length is DTSTART + DURATION:PT0S (no DTEND) is left alone; with a DTEND the DURATION goes *)
Module ZeroDurationExample.
  Import Coq.Strings.String.
  Definition ln (n v : string) : node := L (mkCl None (str n) [] (str v)).
  Definition instant : node :=
    C (str "VCALENDAR") [ln "VERSION" "2.0"; C (str "VEVENT") [ln "UID" "z2"; ln "DTSTART" "20200102T100000Z"; ln "DURATION" "PT0S"]].
  Definition lightning : node :=
    C (str "VCALENDAR") [ln "VERSION" "2.0"; C (str "VEVENT") [ln "UID" "z1"; ln "DTSTART" "20200102T100000Z"; ln "DTEND" "20200102T110000Z"; ln "DURATION" "PT0S"]].
  Definition lightning_cleaned : node :=
    C (str "VCALENDAR") [ln "VERSION" "2.0"; C (str "VEVENT") [ln "UID" "z1"; ln "DTSTART" "20200102T100000Z"; ln "DTEND" "20200102T110000Z"]].
End ZeroDurationExample.
Example zero_duration_without_dtend_kept :
  sanitize ZeroDurationExample.instant = Some ZeroDurationExample.instant /\
  sanitize ZeroDurationExample.lightning = Some ZeroDurationExample.lightning_cleaned.
Proof. split; vm_compute; reflexivity. Qed.
