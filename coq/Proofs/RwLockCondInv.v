(* C11 -- the inductive invariant of the condition-variable lock (Model/RwLockCond.v), any number of threads. *)
From Coq Require Import List Arith Bool ZArith Lia.
Import ListNotations.
Require Import RV.Model.C11Base RV.Proofs.C11BaseLemmas RV.Model.RwLockCond.
Open Scope Z_scope.

Definition thr_at (s : state) (t : nat) (th : thread) : Prop := nth_error (thr s) t = Some th.

(* a notify of every waiter is imminent: the mutex owner is between its bookkeeping update and the end of
   notify_all, and will release every waiter lock still in the deque before it gives the mutex up *)
Definition notifying (s : state) : Prop :=
  exists u thu, mutex (glob s) = Some u /\ thr_at s u thu /\
    ((t_pc thu = R_Check /\ readers (glob s) = 0) \/
     (exists n, t_pc thu = R_Notify n /\ (List.length (waiters (glob s)) <= n)%nat)).

Record Inv (s : state) : Prop := {
  inv_mx_own : forall t th, thr_at s t th -> owns_mutex (t_pc th) = true -> mutex (glob s) = Some t;
  inv_mx_some : forall t, mutex (glob s) = Some t -> exists th, thr_at s t th /\ owns_mutex (t_pc th) = true;
  inv_readers : readers (glob s) = Z.of_nat (count (holds R) (thr s));
  inv_writer : count (holds W) (thr s) = (if writer (glob s) then 1 else 0)%nat;
  inv_excl : writer (glob s) = true -> count (holds R) (thr s) = 0%nat;
  inv_upd : forall t th, thr_at s t th -> t_pc th = A_Upd -> pred (t_mode th) (glob s) = true;
  inv_winit : forall t th, thr_at s t th -> t_pc th = A_WInit -> pred (t_mode th) (glob s) = false;
  inv_wait_in : forall t, In t (waiters (glob s)) ->
      exists th, thr_at s t th /\ (t_pc th = A_WRel \/ t_pc th = A_Blocked) /\ ~ In t (notified (glob s));
  inv_wait_conv : forall t th, thr_at s t th ->
      (t_pc th = A_WRel \/ (t_pc th = A_Blocked /\ ~ In t (notified (glob s)))) -> In t (waiters (glob s));
  inv_wait_nodup : NoDup (waiters (glob s));
  inv_nolost : forall t th, In t (waiters (glob s)) -> thr_at s t th -> pred (t_mode th) (glob s) = true -> notifying s
}.

(* ------------------------------------------------------------------ initial states *)
Lemma start_pc : forall p, t_pc (start p) = A_Lock \/ t_pc (start p) = Done.
Proof. destruct p; simpl; auto. Qed.

Lemma init_thr_at : forall progs t th, thr_at (init progs) t th -> t_pc th = A_Lock \/ t_pc th = Done.
Proof.
  unfold thr_at, init. simpl. intros progs t th H.
  apply nth_error_In in H. apply in_map_iff in H. destruct H as (p & <- & _). apply start_pc.
Qed.

Lemma init_count : forall m progs, count (holds m) (map start progs) = 0%nat.
Proof.
  intros. apply count_map_const. intros p. unfold holds. destruct (start_pc p) as [E|E]; rewrite E; reflexivity.
Qed.

Lemma Inv_init : forall progs, Inv (init progs).
Proof.
  intros progs. constructor.
  - intros t th H Ho. apply init_thr_at in H. destruct H as [E|E]; rewrite E in Ho; discriminate.
  - simpl. discriminate.
  - simpl. rewrite init_count. reflexivity.
  - simpl. rewrite init_count. reflexivity.
  - simpl. intros. apply init_count.
  - intros t th H E. apply init_thr_at in H. destruct H as [E'|E']; congruence.
  - intros t th H E. apply init_thr_at in H. destruct H as [E'|E']; congruence.
  - simpl. contradiction.
  - intros t th H [E|[E _]]; apply init_thr_at in H; destruct H as [E'|E']; congruence.
  - simpl. constructor.
  - simpl. contradiction.
Qed.

(* ------------------------------------------------------------------ one step, by cases on the program counter *)
Ltac inv_some :=
  repeat match goal with
         | H : Some _ = Some _ |- _ => inversion H; subst; clear H
         | H : None = Some _ |- _ => discriminate H
         end.

(* decompose `step s t = Some s'` into the thread, its pc and the concrete successor *)
Ltac step_cases H :=
  let th := fresh "th" in let g' := fresh "g'" in let th' := fresh "th'" in
  let Hth := fresh "Hth" in let Hts := fresh "Hts" in let Epc := fresh "Epc" in
  apply step_inv in H; destruct H as (th & g' & th' & Hth & Hts & ->);
  unfold tstep in Hts; destruct (t_pc th) eqn:Epc;
  repeat match type of Hts with
         | context [match mutex ?g with _ => _ end] => let E := fresh "Emx" in destruct (mutex g) eqn:E
         | context [if memb ?a ?b then _ else _] => let E := fresh "Emem" in destruct (memb a b) eqn:E
         | context [match waiters ?g with _ => _ end] => let E := fresh "Ewt" in destruct (waiters g) eqn:E
         | context [match ?n with O => _ | S _ => _ end] => is_var n; destruct n
         end; inv_some.

Lemma owner_unique : forall s t u th thu, Inv s -> thr_at s t th -> thr_at s u thu ->
  owns_mutex (t_pc th) = true -> owns_mutex (t_pc thu) = true -> t = u.
Proof.
  intros s t u th thu I H1 H2 O1 O2.
  pose proof (inv_mx_own s I _ _ H1 O1). pose proof (inv_mx_own s I _ _ H2 O2). congruence.
Qed.

(* facts available in every case: if the stepping thread owns the mutex, the mutex says so *)
Ltac own_fact I Hth Epc :=
  try (assert (mutex (glob _) = Some _) as Hmine
         by (eapply (inv_mx_own _ I); [exact Hth | rewrite Epc; reflexivity])).

Ltac split_thr H :=
  unfold thr_at in H; simpl in H; apply nth_upd_inv in H;
  destruct H as [(? & ? & _)|(? & H)]; subst.

Lemma step_mx_own : forall s t s', Inv s -> step s t = Some s' ->
  forall t0 th0, thr_at s' t0 th0 -> owns_mutex (t_pc th0) = true -> mutex (glob s') = Some t0.
Proof.
  intros s t s' I H. step_cases H; own_fact I Hth Epc; intros t0 th0 H0 Ho; split_thr H0;
    unfold next_cycle in *; simpl in *;
    try discriminate; try reflexivity; try assumption;
    try (destruct (pred _ _); discriminate);
    try (pose proof (inv_mx_own _ I _ _ H0 Ho); congruence).
  all: try (destruct (t_mode th); simpl; auto; fail).
  all: try (pose proof (inv_mx_own _ I _ _ H0 Ho) as HH; destruct (t_mode th); simpl; congruence).
  all: try (destruct (t_todo th); discriminate).
Qed.

Lemma step_mx_some : forall s t s', Inv s -> step s t = Some s' ->
  forall t0, mutex (glob s') = Some t0 -> exists th0, thr_at s' t0 th0 /\ owns_mutex (t_pc th0) = true.
Proof.
  intros s t s' I H. step_cases H; own_fact I Hth Epc; intros t0 Hm; unfold thr_at; simpl in *;
    try discriminate;
    try (assert (mutex (glob s) = Some t0) as Hm0 by (destruct (t_mode th); exact Hm));
    (destruct (Nat.eq_dec t0 t) as [->|Hne];
     [ eexists; split; [eapply nth_upd_eq; eauto|]; unfold next_cycle; simpl;
       try reflexivity; try (destruct (pred _ _); reflexivity); try (destruct (Z.eqb _ _); reflexivity)
     | rewrite nth_upd_neq by auto; try (apply (inv_mx_some _ I); assumption) ]).
  all: try congruence.
  all: try (destruct (t_q th); reflexivity).
  destruct (inv_mx_some _ I _ Hm) as (th0 & H1 & H2). unfold thr_at in H1. rewrite Hth in H1.
  inversion H1; subst. rewrite Epc in H2. discriminate.
Qed.

Lemma holds_at : forall m th p, t_pc th = p -> holds m th = holds_pc p && mode_eqb (t_mode th) m.
Proof. intros. unfold holds. rewrite H. reflexivity. Qed.

Lemma holds_set_pc : forall m th p, holds m (set_pc th p) = holds_pc p && mode_eqb (t_mode th) m.
Proof. reflexivity. Qed.
Lemma holds_Th : forall m p m' q td sn, holds m (Th p m' q td sn) = holds_pc p && mode_eqb m' m.
Proof. reflexivity. Qed.

Lemma step_counts : forall s t s', Inv s -> step s t = Some s' ->
  readers (glob s') = Z.of_nat (count (holds R) (thr s'))
  /\ count (holds W) (thr s') = (if writer (glob s') then 1 else 0)%nat
  /\ (writer (glob s') = true -> count (holds R) (thr s') = 0%nat).
Proof.
  intros s t s' I H.
  pose proof (inv_readers _ I) as HR. pose proof (inv_writer _ I) as HW. pose proof (inv_excl _ I) as HX.
  step_cases H;
    try (pose proof (inv_upd _ I _ _ Hth Epc) as HP; unfold pred in HP);
    simpl;
    match goal with |- context [upd t ?x _] =>
      pose proof (count_upd _ (holds R) _ _ x _ Hth) as CR; pose proof (count_upd _ (holds W) _ _ x _ Hth) as CW end;
    rewrite (holds_at R th _ Epc) in CR; rewrite (holds_at W th _ Epc) in CW; unfold next_cycle in *;
    repeat match type of CR with
           | context [pred ?a ?b] => destruct (pred a b)
           | context [Z.eqb ?a ?b] => destruct (Z.eqb a b)
           | context [t_q ?a] => destruct (t_q a)
           | context [t_todo ?a] => destruct (t_todo a)
           end;
    rewrite ?holds_set_pc, ?holds_Th in CR, CW; simpl in CR, CW;
    destruct (t_mode th); simpl in *; destruct (writer (glob s)); simpl in *;
    try discriminate;
    repeat split; try lia; intros; try discriminate; try lia.
Qed.

(* another thread that owns the mutex: the stepping thread cannot own it too *)
Ltac other_owns I Hth Epc H0 :=
  match goal with
  | Hp : t_pc ?th0 = _ |- _ =>
      let Ho := fresh "Ho" in
      assert (owns_mutex (t_pc th0) = true) as Ho by (rewrite Hp; reflexivity);
      pose proof (inv_mx_own _ I _ _ H0 Ho)
  end.

Lemma step_upd : forall s t s', Inv s -> step s t = Some s' ->
  forall t0 th0, thr_at s' t0 th0 ->
    (t_pc th0 = A_Upd -> pred (t_mode th0) (glob s') = true) /\
    (t_pc th0 = A_WInit -> pred (t_mode th0) (glob s') = false).
Proof.
  intros s t s' I H. step_cases H; own_fact I Hth Epc; intros t0 th0 H0; split_thr H0; unfold next_cycle in *; simpl in *.
  all: try (split; intros Hp; discriminate Hp).
  all: try (split; intros Hp; other_owns I Hth Epc H0; congruence).
  all: try (split; intros Hp;
            [apply (inv_upd _ I _ _ H0 Hp) | apply (inv_winit _ I _ _ H0 Hp)]).
  - destruct (pred (t_mode th) (glob s)); split; intros; auto; discriminate.
  - destruct (t_q th); split; intros; discriminate.
  - destruct (Z.eqb (readers (glob s)) 0); split; intros; discriminate.
  - destruct (t_todo th); split; intros; discriminate.
Qed.

Lemma step_wait_in : forall s t s', Inv s -> step s t = Some s' ->
  forall t0, In t0 (waiters (glob s')) ->
    exists th0, thr_at s' t0 th0 /\ (t_pc th0 = A_WRel \/ t_pc th0 = A_Blocked) /\ ~ In t0 (notified (glob s')).
Proof.
  intros s t s' I H. step_cases H; intros t0 Hin; unfold thr_at; simpl in *;
    try (assert (In t0 (waiters (glob s))) as Hin0 by (destruct (t_mode th); exact Hin));
    try (destruct (inv_wait_in _ I _ Hin0) as (th0 & Hat & Hpc & Hnn); unfold thr_at in Hat;
         destruct (Nat.eq_dec t0 t) as [->|Hne];
         [ rewrite Hth in Hat; inversion Hat; subst th0; destruct Hpc as [Hpc|Hpc]; try congruence
         | exists th0; rewrite nth_upd_neq by auto; repeat split; auto; destruct (t_mode th); auto ]).
  - (* A_WInit *)
    apply in_app_or in Hin. destruct Hin as [Hin|[<-|[]]].
    + destruct (inv_wait_in _ I _ Hin) as (th0 & Hat & Hpc & Hnn). unfold thr_at in Hat.
      assert (t0 <> t) as Hne by (intros ->; rewrite Hth in Hat; inversion Hat; subst; destruct Hpc; congruence).
      exists th0. rewrite nth_upd_neq by auto. repeat split; auto. rewrite In_remove_nat. tauto.
    + exists (set_pc th A_WRel). split; [eapply nth_upd_eq; eauto|]. split; [left; reflexivity|].
      rewrite In_remove_nat. tauto.
  - (* A_WRel *)
    exists (set_pc th A_Blocked). split; [eapply nth_upd_eq; eauto|]. split; [right; reflexivity|]. auto.
  - (* A_Blocked, notified: not in the deque *)
    exfalso. apply Hnn. apply memb_In. auto.
  - rewrite In_remove_nat. tauto.
  - rewrite In_remove_nat. tauto.
  - (* R_Notify: the head of the deque is released and removed *)
    pose proof (inv_wait_nodup _ I) as ND. rewrite Ewt in ND. inversion ND as [|? ? Hnotin ND']; subst.
    assert (In t0 (waiters (glob s))) as Hin0 by (rewrite Ewt; right; auto).
    destruct (inv_wait_in _ I _ Hin0) as (th0 & Hat & Hpc & Hnn). unfold thr_at in Hat.
    assert (t0 <> t) as Hne by (intros ->; rewrite Hth in Hat; inversion Hat; subst; destruct Hpc; congruence).
    exists th0. rewrite nth_upd_neq by auto. repeat split; auto.
    intros [->|Hx]; auto.
Qed.

Lemma step_wait_conv : forall s t s', Inv s -> step s t = Some s' ->
  forall t0 th0, thr_at s' t0 th0 ->
    (t_pc th0 = A_WRel \/ (t_pc th0 = A_Blocked /\ ~ In t0 (notified (glob s')))) -> In t0 (waiters (glob s')).
Proof.
  intros s t s' I H. step_cases H; own_fact I Hth Epc; intros t0 th0 H0 Hc; split_thr H0; unfold next_cycle in *; simpl in *.
  all: try (destruct Hc as [Hc|[Hc _]]; discriminate Hc).
  all: try (apply (inv_wait_conv _ I _ _ H0); exact Hc).
  all: try (destruct (t_mode th); apply (inv_wait_conv _ I _ _ H0); exact Hc).
  - destruct (pred (t_mode th) (glob s)); destruct Hc as [Hc|[Hc _]]; discriminate Hc.
  - apply in_or_app. right. left. reflexivity.
  - apply in_or_app. left. apply (inv_wait_conv _ I _ _ H0). rewrite In_remove_nat in Hc.
    assert (t0 <> t) by auto. tauto.
  - apply (inv_wait_conv _ I _ _ Hth). left. exact Epc.
  - apply (inv_wait_conv _ I _ _ H0). rewrite In_remove_nat in Hc. assert (t0 <> t) by auto. tauto.
  - destruct (t_q th); destruct Hc as [Hc|[Hc _]]; discriminate Hc.
  - destruct (Z.eqb (readers (glob s)) 0); destruct Hc as [Hc|[Hc _]]; discriminate Hc.
  - assert (In t0 (waiters (glob s))) as Hin.
    { apply (inv_wait_conv _ I _ _ H0). tauto. }
    rewrite Ewt in Hin. destruct Hin as [->|Hin]; auto. exfalso.
    destruct Hc as [Hc|[_ Hc]]; [|tauto].
    assert (owns_mutex (t_pc th0) = true) as Ho by (rewrite Hc; reflexivity).
    pose proof (inv_mx_own _ I _ _ H0 Ho). congruence.
  - destruct (t_todo th); destruct Hc as [Hc|[Hc _]]; discriminate Hc.
Qed.

Lemma step_wait_nodup : forall s t s', Inv s -> step s t = Some s' -> NoDup (waiters (glob s')).
Proof.
  intros s t s' I H. pose proof (inv_wait_nodup _ I) as ND.
  step_cases H; simpl; auto; try (destruct (t_mode th); simpl; auto; fail).
  - (* A_WInit: t is not in the deque yet *)
    assert (~ In t (waiters (glob s))) as Hn.
    { intros Hin. destruct (inv_wait_in _ I _ Hin) as (th0 & Hat & Hpc & _). unfold thr_at in Hat.
      rewrite Hth in Hat. inversion Hat; subst. destruct Hpc; congruence. }
    clear - ND Hn. induction (waiters (glob s)) as [|a l IH]; simpl.
    + constructor; auto; constructor.
    + inversion ND; subst. constructor.
      * rewrite in_app_iff. simpl. intros [Hx|[Hx|[]]]; auto. subst. apply Hn. left. auto.
      * apply IH; auto. intros Hx. apply Hn. right. auto.
  - rewrite Ewt; auto.
  - rewrite Ewt; auto.
  - inversion ND; auto.
Qed.

Lemma notifying_owner : forall s t th, notifying s -> thr_at s t th -> mutex (glob s) = Some t ->
  (t_pc th = R_Check /\ readers (glob s) = 0) \/
  (exists n, t_pc th = R_Notify n /\ (List.length (waiters (glob s)) <= n)%nat).
Proof.
  intros s t th (u & thu & Hm & Hat & Hc) Ht Hmt. unfold thr_at in *.
  assert (u = t) by congruence. subst. assert (thu = th) by congruence. subst. exact Hc.
Qed.

(* waiters of the old state, as seen from the new one *)
Lemma waiter_not_stepper : forall s t th t0, Inv s -> thr_at s t th -> In t0 (waiters (glob s)) ->
  t_pc th <> A_WRel -> t_pc th <> A_Blocked -> t0 <> t.
Proof.
  intros s t th t0 I Hth Hin H1 H2 ->. destruct (inv_wait_in _ I _ Hin) as (th0 & Hat & Hpc & _).
  unfold thr_at in *. rewrite Hth in Hat. inversion Hat; subst. destruct Hpc; congruence.
Qed.

(* the old state had a waiter with a true predicate although its mutex owner is not notifying: impossible *)
Ltac contra_owner I Hth Epc Hmine Hin0 H0 Hp0 :=
  exfalso; let N := fresh "N" in let E := fresh "E" in
  pose proof (inv_nolost _ I _ _ Hin0 H0 Hp0) as N;
  destruct (notifying_owner _ _ _ N Hth Hmine) as [[E _]|(? & E & _)]; rewrite Epc in E; discriminate E.

Ltac contra_free I Emx Hin0 H0 Hp0 :=
  exfalso; let N := fresh "N" in
  pose proof (inv_nolost _ I _ _ Hin0 H0 Hp0) as N;
  destruct N as (? & ? & N & _); rewrite Emx in N; discriminate N.

Lemma pred_set_mutex : forall m g o, pred m (set_mutex g o) = pred m g.
Proof. reflexivity. Qed.

Lemma step_nolost : forall s t s', Inv s -> step s t = Some s' ->
  forall t0 th0, In t0 (waiters (glob s')) -> thr_at s' t0 th0 -> pred (t_mode th0) (glob s') = true -> notifying s'.
Proof.
  intros s t s' I H. step_cases H; own_fact I Hth Epc; intros t0 th0 Hin H0 Hp; simpl in Hin.
  - (* A_Lock *) assert (t0 <> t) by (eapply waiter_not_stepper; eauto; rewrite Epc; discriminate).
    split_thr H0; [congruence|]. contra_free I Emx Hin H0 Hp.
  - (* A_Test *) assert (t0 <> t) by (eapply waiter_not_stepper; eauto; rewrite Epc; discriminate).
    split_thr H0; [congruence|]. contra_owner I Hth Epc Hmine Hin H0 Hp.
  - (* A_Upd *) assert (In t0 (waiters (glob s))) as Hin0 by (destruct (t_mode th); exact Hin).
    assert (t0 <> t) by (eapply waiter_not_stepper; eauto; rewrite Epc; discriminate).
    split_thr H0; [congruence|].
    assert (pred (t_mode th0) (glob s) = true) as Hp0.
    { simpl in Hp. unfold pred in *. destruct (t_mode th); simpl in Hp; [|discriminate].
      destruct (writer (glob s)); [discriminate|]. simpl in *. destruct (t_mode th0); auto.
      pose proof (inv_readers _ I). apply Z.eqb_eq in Hp. lia. }
    contra_owner I Hth Epc Hmine Hin0 H0 Hp0.
  - (* A_Unlock *) assert (t0 <> t) by (eapply waiter_not_stepper; eauto; rewrite Epc; discriminate).
    split_thr H0; [congruence|]. contra_owner I Hth Epc Hmine Hin H0 Hp.
  - (* A_WInit *) apply in_app_or in Hin. destruct Hin as [Hin|[<-|[]]].
    + assert (t0 <> t) by (eapply waiter_not_stepper; eauto; rewrite Epc; discriminate).
      split_thr H0; [congruence|]. contra_owner I Hth Epc Hmine Hin H0 Hp.
    + exfalso. unfold thr_at in H0. simpl in H0. erewrite nth_upd_eq in H0 by eauto. inversion H0; subst.
      simpl in Hp. pose proof (inv_winit _ I _ _ Hth Epc) as Hf. unfold pred in *. simpl in *. congruence.
  - (* A_WRel *)
    split_thr H0.
    + contra_owner I Hth Epc Hmine Hin Hth Hp.
    + contra_owner I Hth Epc Hmine Hin H0 Hp.
  - (* A_Blocked: the stepper is notified, hence not in the deque *)
    assert (t0 <> t) as Hne.
    { intros ->. destruct (inv_wait_in _ I _ Hin) as (? & _ & _ & Hnn). apply Hnn. apply memb_In. auto. }
    split_thr H0; [congruence|].
    pose proof (inv_nolost _ I _ _ Hin H0 Hp) as (u & thu & Hm & Hat & Hc).
    assert (u <> t) as Hut.
    { intros ->. unfold thr_at in Hat. rewrite Hth in Hat. inversion Hat; subst.
      destruct Hc as [[E _]|(? & E & _)]; rewrite Epc in E; discriminate E. }
    exists u, thu. unfold thr_at. simpl. rewrite nth_upd_neq by auto. auto.
  - (* A_Reacq *) assert (t0 <> t) by (eapply waiter_not_stepper; eauto; rewrite Epc; discriminate).
    split_thr H0; [congruence|]. contra_free I Emx Hin H0 Hp.
  - (* InCS *) assert (t0 <> t) by (eapply waiter_not_stepper; eauto; rewrite Epc; discriminate).
    split_thr H0; [congruence|]. contra_free I Emx Hin H0 Hp.
  - (* Q_Read *) assert (t0 <> t) by (eapply waiter_not_stepper; eauto; rewrite Epc; discriminate).
    split_thr H0; [congruence|]. contra_owner I Hth Epc Hmine Hin H0 Hp.
  - (* Q_Unlock *) assert (t0 <> t) by (eapply waiter_not_stepper; eauto; rewrite Epc; discriminate).
    split_thr H0; [congruence|]. contra_owner I Hth Epc Hmine Hin H0 Hp.
  - (* R_Upd: the bookkeeping update may make predicates true; then _readers = 0 and notify_all follows *)
    assert (t0 <> t) by (eapply waiter_not_stepper; eauto; rewrite Epc; discriminate).
    split_thr H0; [congruence|].
    exists t, (set_pc th R_Check). split; [exact Hmine|]. split; [unfold thr_at; simpl; eapply nth_upd_eq; eauto|].
    left. split; [reflexivity|]. simpl.
    assert (pred (t_mode th0) (glob s) = false) as Hp0.
    { destruct (pred (t_mode th0) (glob s)) eqn:E; auto. contra_owner I Hth Epc Hmine Hin H0 E. }
    pose proof (inv_readers _ I) as HR. pose proof (inv_writer _ I) as HW. pose proof (inv_excl _ I) as HX.
    assert (holds (t_mode th) th = true) as Hh by (unfold holds; rewrite Epc; destruct (t_mode th); reflexivity).
    unfold pred in *. simpl in Hp. destruct (t_mode th) eqn:Em.
    + pose proof (count_nth _ _ _ _ _ Hth Hh). destruct (writer (glob s)); [specialize (HX eq_refl); lia|].
      simpl in *. destruct (t_mode th0); [discriminate|]. apply Z.eqb_eq in Hp. exact Hp.
    + pose proof (count_nth _ _ _ _ _ Hth Hh). destruct (writer (glob s)); [|lia]. specialize (HX eq_refl). lia.
  - (* R_Check *) assert (t0 <> t) by (eapply waiter_not_stepper; eauto; rewrite Epc; discriminate).
    split_thr H0; [congruence|]. simpl in Hp.
    destruct (Z.eqb (readers (glob s)) 0) eqn:Ez.
    + exists t, (set_pc th (R_Notify (List.length (waiters (glob s))))). split; [exact Hmine|].
      split; [unfold thr_at; simpl; eapply nth_upd_eq; eauto|]. right. eexists. split; [reflexivity|]. simpl. lia.
    + exfalso. pose proof (inv_nolost _ I _ _ Hin H0 Hp) as N.
      destruct (notifying_owner _ _ _ N Hth Hmine) as [[_ E]|(? & E & _)]; [|rewrite Epc in E; discriminate E].
      rewrite E in Ez. discriminate.
  - (* R_Notify, empty deque *) exfalso. simpl in Hin. rewrite Ewt in Hin. exact Hin.
  - (* R_Notify 0, non-empty deque: impossible when some predicate is true *)
    assert (t0 <> t) by (eapply waiter_not_stepper; eauto; rewrite Epc; discriminate).
    split_thr H0; [congruence|]. exfalso. simpl in Hp. pose proof (inv_nolost _ I _ _ Hin H0 Hp) as N.
    destruct (notifying_owner _ _ _ N Hth Hmine) as [[E _]|(k & E & Hl)]; rewrite Epc in E; [discriminate E|].
    inversion E; subst. rewrite Ewt in Hl. simpl in Hl. lia.
  - (* R_Notify (S n) *)
    assert (In t0 (waiters (glob s))) as Hin0 by (rewrite Ewt; right; exact Hin).
    assert (t0 <> t) by (eapply waiter_not_stepper; eauto; rewrite Epc; discriminate).
    split_thr H0; [congruence|]. simpl in Hp.
    assert (pred (t_mode th0) (glob s) = true) as Hp0 by exact Hp.
    pose proof (inv_nolost _ I _ _ Hin0 H0 Hp0) as N.
    destruct (notifying_owner _ _ _ N Hth Hmine) as [[E _]|(k & E & Hl)]; rewrite Epc in E; [discriminate E|].
    inversion E; subst. rewrite Ewt in Hl. simpl in Hl.
    exists t, (set_pc th (R_Notify n)). split; [exact Hmine|]. split; [unfold thr_at; simpl; eapply nth_upd_eq; eauto|].
    right. exists n. split; [reflexivity|]. simpl. lia.
  - (* R_Unlock *) assert (t0 <> t) by (eapply waiter_not_stepper; eauto; rewrite Epc; discriminate).
    split_thr H0; [congruence|]. contra_owner I Hth Epc Hmine Hin H0 Hp.
Qed.

Lemma Inv_step : forall s t s', Inv s -> step s t = Some s' -> Inv s'.
Proof.
  intros s t s' I H. destruct (step_counts _ _ _ I H) as (C1 & C2 & C3).
  constructor; auto.
  - eapply step_mx_own; eauto.
  - eapply step_mx_some; eauto.
  - intros t0 th0 H0. apply (step_upd _ _ _ I H _ _ H0).
  - intros t0 th0 H0. apply (step_upd _ _ _ I H _ _ H0).
  - eapply step_wait_in; eauto.
  - eapply step_wait_conv; eauto.
  - eapply step_wait_nodup; eauto.
  - eapply step_nolost; eauto.
Qed.

Lemma Inv_reachable : forall s, reachable s -> Inv s.
Proof.
  intros s (progs & Hr). revert s Hr. apply reach_ind_inv.
  - apply Inv_init.
  - intros s t s' I H. eapply Inv_step; eauto.
Qed.
