(* For C19 (do not confuse with Props/C19.v, written by the C19 builder): on the regenerated skeleton of
   the five XML-accepting handlers, the request body is parsed before any lock or storage event, and a
   failing parse leads to the end of the handler without any. *)
From Coq Require Import List NArith Bool String.
Import ListNotations.
Require Import RV.Model.LockDiscipline RV.Proofs.LockDisciplineProofs RV.Gen.Skeleton.

Lemma Gen_skeleton_parse_first_ok : forallb (fun p => check_parse_first (snd p)) xml_handlers = true.
Proof. vm_compute. reflexivity. Qed.

Lemma Gen_skeleton_xml_methods :
  map fst xml_handlers = ["MKCALENDAR"; "MKCOL"; "PROPFIND"; "PROPPATCH"; "REPORT"]%string.
Proof. vm_compute. reflexivity. Qed.

Theorem c19_parse_first : forall name s, In (name, s) xml_handlers -> forall t, trace_of s t ->
  parse_first t /\
  (forall pre post, t = (pre ++ EParseFail :: post)%list -> forall e, In e post -> ~ is_lock_or_storage e).
Proof.
  intros name s Hin t Ht. pose proof Gen_skeleton_parse_first_ok as H.
  rewrite forallb_forall in H. specialize (H _ Hin). simpl in H.
  pose proof (c19_checker_sound _ H _ Ht) as Hp. split; [exact Hp|].
  apply parse_first_fail_inert. exact Hp.
Qed.
Print Assumptions c19_parse_first.
