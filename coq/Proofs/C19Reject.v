(* C19 -- response level: a rejected XML body is answered by one of three closed constants, the store is
   unchanged and the part of the handler that locks and touches the store is never run.
   Gen_* lemmas tie the tables of Model/XmlReject.v to the ones regenerated from the source (Gen/XmlGen.v). *)
From Coq Require Import List NArith Bool String.
Import ListNotations.
Require Import RV.Lib.PyStr RV.Model.XmlProlog RV.Model.XmlReject RV.Gen.XmlGen RV.Proofs.C19Prolog.
Require RV.Model.Handlers.
Open Scope N_scope.

(* ------------------------------------------------------------------ tie T: regenerated tables *)
(* the only place where radicale parses XML is DefusedET.fromstring in app/base.py *)
Lemma Gen_xml_parse_sites : gen_parse_sites = [("radicale/app/base.py", "DefusedET.fromstring")]%string.
Proof. vm_compute. reflexivity. Qed.

(* _read_xml_request_body has the modelled shape; entities and external references stay forbidden
   (forbid_dtd may be either: the theorems hold for both values) *)
Lemma Gen_xml_read_shape : gen_read_shape_ok = true /\ gen_forbid_entities = true /\ gen_forbid_external = true.
Proof. vm_compute. repeat split; reflexivity. Qed.

Lemma Gen_xml_rewrap_eq : gen_parse_rewrap = [(CParseError, XRuntimeError)].
Proof. vm_compute. reflexivity. Qed.

Lemma Gen_xml_clauses_eq : gen_handler_clauses = map (fun m => (method_name m, handler_clauses m)) all_methods.
Proof. vm_compute. reflexivity. Qed.

Lemma Gen_xml_const_eq :
  map (fun x => (fst x, mkResp (fst (fst (snd x))) (str (snd (fst (snd x)))) (str (snd (snd x))))) gen_const
  = map (fun c => (c, const_resp c)) [BAD_REQUEST; REQUEST_TIMEOUT; INTERNAL_SERVER_ERROR].
Proof. vm_compute. reflexivity. Qed.

Lemma Gen_xml_top_eq : gen_top_clause = top_clause.
Proof. vm_compute. reflexivity. Qed.

Lemma Gen_xml_charsets_eq :
  gen_fallback_charsets = ["utf-8"; "iso8859-1"]%string /\ gen_suppressed = ["UnicodeDecodeError"]%string.
Proof. vm_compute. split; reflexivity. Qed.

(* ------------------------------------------------------------------ exception -> response *)
Definition reject_class (e : exn) : rconst :=
  match e with
  | XRuntimeError => BAD_REQUEST
  | XSocketTimeout => REQUEST_TIMEOUT
  | _ => INTERNAL_SERVER_ERROR
  end.

Lemma reject_const_total m e : reject_const m e = Some (reject_class e).
Proof. destruct m, e; reflexivity. Qed.

(* which class of exception answers what: malformed XML / short body -> 400; defusedxml's refusal -> 500 *)
Lemma reject_malformed m : reject_const m XRuntimeError = Some BAD_REQUEST.
Proof. destruct m; reflexivity. Qed.
Lemma reject_forbidden m : reject_const m XDefused = Some INTERNAL_SERVER_ERROR.
Proof. destruct m; reflexivity. Qed.
(* without the re-raise in _read_xml_request_body a parse error would be a 500 as well *)
Lemma reject_raw_parse_error m : reject_const m XParseErrorRaw = Some INTERNAL_SERVER_ERROR.
Proof. destruct m; reflexivity. Qed.

Lemma exception_map m :
  reject_const m XRuntimeError = Some BAD_REQUEST /\
  reject_const m XSocketTimeout = Some REQUEST_TIMEOUT /\
  reject_const m XDefused = Some INTERNAL_SERVER_ERROR /\
  reject_const m XLookupError = Some INTERNAL_SERVER_ERROR.
Proof. destruct m; repeat split; reflexivity. Qed.

Lemma source_tables :
  gen_parse_sites = [("radicale/app/base.py", "DefusedET.fromstring")]%string /\
  (gen_read_shape_ok = true /\ gen_forbid_entities = true /\ gen_forbid_external = true) /\
  gen_parse_rewrap = [(CParseError, XRuntimeError)] /\
  gen_handler_clauses = map (fun m => (method_name m, handler_clauses m)) all_methods /\
  gen_top_clause = top_clause.
Proof.
  exact (conj Gen_xml_parse_sites (conj Gen_xml_read_shape (conj Gen_xml_rewrap_eq
          (conj Gen_xml_clauses_eq Gen_xml_top_eq)))).
Qed.

Section Inert.
  Variable tree : Type.
  Variable store : Type.
  Variable xml_parse : pystr -> parsed tree.

  Notation serve := (serve tree store).
  Notation read_xml := (read_xml tree xml_parse).

  (* a failing body read: the store is returned as it was, the response is the constant of the exception
     class, whatever the continuation (= lock + storage part of the handler) is *)
  Theorem serve_reject_inert m e cont s :
    serve m None (RRaise e) cont s = (s, Some (const_resp (reject_class e))).
  Proof. unfold XmlReject.serve. rewrite reject_const_total. reflexivity. Qed.

  Theorem serve_reject_status m e cont s :
    exists r, snd (serve m None (RRaise e) cont s) = Some r /\
              (r_status r = 400 \/ r_status r = 408 \/ r_status r = 500).
  Proof.
    rewrite serve_reject_inert. eexists. split; [reflexivity|].
    destruct e; simpl; auto.
  Qed.

  Theorem serve_reject_full m e cont s :
    serve m None (RRaise e) cont s = (s, Some (const_resp (reject_class e))) /\
    (r_status (const_resp (reject_class e)) = 400 \/ r_status (const_resp (reject_class e)) = 408 \/
     r_status (const_resp (reject_class e)) = 500).
  Proof. split; [apply serve_reject_inert | destruct e; simpl; auto]. Qed.

  (* no leak: two rejected requests of the same failure class get the same response, whatever their bodies,
     decoders, continuations and stores; and the response is one of three closed terms *)
  Theorem serve_no_leak m1 m2 e1 e2 cont1 cont2 s1 s2 :
    reject_class e1 = reject_class e2 ->
    snd (serve m1 None (RRaise e1) cont1 s1) = snd (serve m2 None (RRaise e2) cont2 s2).
  Proof. intro H. rewrite !serve_reject_inert. simpl. rewrite H. reflexivity. Qed.

  Theorem serve_reject_constant m rd cont s e :
    rd = RRaise e -> exists c, serve m None rd cont s = (s, Some (const_resp c)) /\
                               In c [BAD_REQUEST; REQUEST_TIMEOUT; INTERNAL_SERVER_ERROR].
  Proof.
    intros ->. exists (reject_class e). split; [apply serve_reject_inert|].
    destruct e; simpl; auto.
  Qed.

  (* reading: what raises what *)
  Lemma read_xml_cases r decode cs :
    match read_xml r decode cs with
    | RRaise XParseErrorRaw => False          (* ET.ParseError never leaves: it is re-raised as RuntimeError *)
    | _ => True
    end.
  Proof.
    unfold XmlReject.read_xml. destruct r as [b| |]; try exact I.
    destruct (decode_request (decode b) cs) as [[|c content]|e] eqn:E; try exact I.
    - destruct (xml_parse (c :: content)); exact I.
    - revert E. generalize (decode b). intros d E. induction cs as [|x cs IH]; simpl in E.
      + inversion E. exact I.
      + destruct (d x); [discriminate | apply IH; exact E | inversion E; exact I].
  Qed.

  (* ---- the assumption about expat + defusedxml, for the value of forbid_dtd found in the source ---- *)
  Variable forbid_dtd : bool.
  Hypothesis defused_ok : forall content, must_reject forbid_dtd content = true ->
                                          exists k, xml_parse content = PForbidden k.

  Theorem read_xml_hostile b decode cs content :
    decode_request (decode b) cs = inl content -> must_reject forbid_dtd content = true ->
    read_xml (RawOk b) decode cs = RRaise XDefused.
  Proof.
    intros Hd Hm. unfold XmlReject.read_xml. rewrite Hd.
    destruct content as [|c content]; [vm_compute in Hm; destruct forbid_dtd; discriminate|].
    destruct (defused_ok _ Hm) as [k Hk]. rewrite Hk. reflexivity.
  Qed.

  (* rejection => inert, for a body whose decoded text declares an entity *)
  Theorem hostile_body_inert m b decode cs content cont s :
    decode_request (decode b) cs = inl content -> declares_entity content = true ->
    serve m None (read_xml (RawOk b) decode cs) cont s = (s, Some (const_resp INTERNAL_SERVER_ERROR)).
  Proof.
    intros Hd He. rewrite (read_xml_hostile _ _ _ _ Hd); [apply serve_reject_inert|].
    unfold must_reject. rewrite He. reflexivity.
  Qed.

  (* ... in particular for every body of the attack grammar that contains an <!ENTITY declaration *)
  Theorem attack_inert m a b decode cs cont s :
    wf_attack a = true -> attack_declares a = true ->
    decode_request (decode b) cs = inl (render a) ->
    serve m None (read_xml (RawOk b) decode cs) cont s = (s, Some (const_resp INTERNAL_SERVER_ERROR)).
  Proof.
    intros Hw Ha Hd. apply (hostile_body_inert _ _ _ _ _ _ _ Hd).
    rewrite (declares_entity_attack _ Hw). exact Ha.
  Qed.

  (* malformed XML: 400, inert as well *)
  Theorem malformed_body_inert m b decode cs content cont s :
    decode_request (decode b) cs = inl content -> content <> [] -> xml_parse content = PParseError ->
    serve m None (read_xml (RawOk b) decode cs) cont s = (s, Some (const_resp BAD_REQUEST)).
  Proof.
    intros Hd Hn Hp. unfold XmlReject.read_xml. rewrite Hd.
    destruct content as [|c content]; [contradiction|]. rewrite Hp. apply serve_reject_inert.
  Qed.

  (* a body that parses is handed to the rest of the handler (control stream of the correspondence) *)
  Theorem parsed_body_handled m b decode cs content t cont s :
    decode_request (decode b) cs = inl content -> content <> [] -> xml_parse content = PTree t ->
    serve m None (read_xml (RawOk b) decode cs) cont s = (fst (cont (Some t) s), Some (snd (cont (Some t) s))).
  Proof.
    intros Hd Hn Hp. unfold XmlReject.read_xml. rewrite Hd.
    destruct content as [|c content]; [contradiction|]. rewrite Hp. simpl.
    destruct (cont (Some t) s). reflexivity.
  Qed.
End Inert.

(* the hypothesis is satisfiable (a parser that refuses exactly the class) and the theorem is not vacuous *)
Example defused_ok_satisfiable fd :
  let parse := fun content => if must_reject fd content then @PForbidden unit FEntities else PTree tt in
  forall content, must_reject fd content = true -> exists k, parse content = PForbidden k.
Proof. intros parse content H. unfold parse. rewrite H. eauto. Qed.

Example attack_inert_example :
  let parse := fun content => if must_reject false content then @PForbidden unit FEntities else PTree tt in
  let decode := fun (b : list N) (c : pystr) => if eqs c (str "utf-8") then DecOk b else DecLookupError in
  serve unit nat MPropfind None
        (read_xml unit parse (RawOk (render ex_lol)) decode (charsets None (str "utf-8")))
        (fun _ s => (S s, const_resp BAD_REQUEST)) 7%nat
  = (7%nat, Some (const_resp INTERNAL_SERVER_ERROR)).
Proof. vm_compute. reflexivity. Qed.

(* decode_request: the charset named by the request first, then the configured one, then the fall-backs *)
Example charsets_example :
  charsets (Some (str "utf-16")) (str "utf-8") = [str "utf-16"; str "utf-8"; str "iso8859-1"] /\
  charsets (Some (str "utf-8")) (str "utf-8") = [str "utf-8"; str "iso8859-1"] /\
  charsets None (str "utf-8") = [str "utf-8"; str "iso8859-1"].
Proof. vm_compute. repeat split; reflexivity. Qed.

(* ------------------------------------------------------------------ the handlers over the ideal store *)
(* Model/Handlers.v (C01 / C15) carries the parse failure as the abstract body XBad: the three handlers that
   take an XML body and may write leave the store as it is and answer 400 (403 when the rights check that
   precedes the body read fails).  [handle] = gate + handler: the store afterwards is the one after the
   home creation of the gate, which does not depend on the body. *)
Import RV.Model.Handlers.

Theorem handlers_xbad_inert pol s p :
  (fst (do_mkcol pol s p XBad) = s /\ In (fst (snd (do_mkcol pol s p XBad))) [S400; S403NA]) /\
  (fst (do_mkcalendar pol s p XBad) = s /\ In (fst (snd (do_mkcalendar pol s p XBad))) [S400; S403NA]) /\
  (fst (do_proppatch pol s p XBad) = s /\ In (fst (snd (do_proppatch pol s p XBad))) [S400; S403NA]).
Proof.
  unfold do_mkcol, do_mkcalendar, do_proppatch. repeat split;
    match goal with |- context [if ?c then _ else _] => destruct c end; simpl; auto.
Qed.

Theorem handle_xbad_inert cfg pol user s0 p :
  fst (handle cfg pol user s0 (RMkcol p XBad)) = ensure_home pol s0 user /\
  fst (handle cfg pol user s0 (RMkcalendar p XBad)) = ensure_home pol s0 user /\
  fst (handle cfg pol user s0 (RProppatch p XBad)) = ensure_home pol s0 user.
Proof.
  unfold handle. pose proof (handlers_xbad_inert pol (ensure_home pol s0 user) p) as [[H1 _] [[H2 _] [H3 _]]].
  repeat split; assumption.
Qed.
