(* Progress: a FAULT-FREE run of a storage operation from a well-formed tree ends normally.
   (The wp calculus of C02/C12 over-approximates faults and therefore never claims a normal end.) *)
From Coq Require Import List NArith Bool Lia.
Import ListNotations.
Require Import RV.Lib.Prog RV.Model.Fs RV.Model.StorageOps RV.Proofs.FsLemmas RV.Proofs.FsInv RV.Proofs.NoFault
  RV.Proofs.C12Units RV.Proofs.C12Final RV.Proofs.C02Final.
Open Scope N_scope.

(* s' is s with q set to v *)
Definition is_upd (s : fs) (q : path) (v : option node) (s' : fs) : Prop :=
  forall r, look s' r = if path_eqb r q then v else look s r.

Lemma snoc_not_nil : forall (p : path) x, p ++ [x] <> [].
Proof. intros p x H. destruct p; discriminate. Qed.

Lemma path_eqb_snoc_diff : forall (d : path) x y, x <> y -> path_eqb (d ++ [x]) (d ++ [y]) = false.
Proof. intros d x y H. apply path_eqb_neq. intro E. apply app_inv_head in E. congruence. Qed.

Lemma prefix_snoc_diff : forall (d : path) x y r, x <> y -> prefix (d ++ [x]) (d ++ y :: r) = false.
Proof.
  intros d x y r H. destruct (prefix (d ++ [x]) (d ++ y :: r)) eqn:E; [|reflexivity].
  apply prefix_spec in E. destruct E as [r' E]. rewrite <- app_assoc in E. apply app_inv_head in E. cbn in E. congruence.
Qed.

(* ------------------------------------------------------------------ _atomic_write *)
Lemma aw_nf : forall d x v s n (Q : npost) E,
  fs_inv_weak s -> d <> [] -> look s d = Some D -> look s (d ++ [Tmp n]) = None -> look s (d ++ [x]) <> Some D -> x <> Tmp n ->
  (forall s', fs_inv_weak s' -> is_upd s (d ++ [x]) (Some (F v)) s' -> Q s' (N.succ n)) ->
  nfwp (AW d x v) Q E s n.
Proof.
  intros d x v s n Q EE Hinv Hd Hld Hfresh Hbx Hx HQ. unfold AW, with_tmp, Finally, Do, fsyncD, fsyncF. cbn [nfwp seqs].
  set (t0 := d ++ [Tmp n]). set (a := t0 ++ [x]). set (b := d ++ [x]).
  assert (Hpt0 : parent t0 = d) by apply parent_snoc. assert (Hpa : parent a = t0) by apply parent_snoc.
  assert (Hpb : parent b = d) by apply parent_snoc.
  assert (Hbt0 : forall r, prefix t0 (b ++ r) = false).
  { intro r. unfold t0, b. rewrite <- app_assoc. cbn [app]. apply prefix_snoc_diff. congruence. }
  assert (Hunder : forall r, r <> [] -> look s (t0 ++ r) = None).
  { intros r Hr. apply closed_below; [apply Hinv | unfold t0; rewrite Hfresh; discriminate | exact Hr]. }
  (* Mkdir t0 *)
  rewrite (mkdir_ok s t0); [|apply snoc_not_nil | exact Hfresh | rewrite Hpt0; exact Hld].
  set (s1 := upd t0 (Some D) s).
  assert (I1 : fs_inv_weak s1) by (apply (apply_inv (Mkdir t0) s); [exact Hinv | apply mkdir_ok; [apply snoc_not_nil | exact Hfresh | rewrite Hpt0; exact Hld]]).
  (* Create a *)
  assert (Hat0 : path_eqb a t0 = false) by (apply path_eqb_neq; unfold a; intro E; symmetry in E; apply snoc_neq_self in E; exact E).
  assert (L1a : look s1 a = None).
  { unfold s1. cbn [look upd]. rewrite Hat0. unfold a. apply Hunder. discriminate. }
  assert (C1 : apply (Create a) s1 = inl (upd a (Some (F 0)) s1)).
  { apply create_ok; [apply snoc_not_nil | rewrite Hpa; unfold s1; cbn [look upd]; rewrite path_eqb_refl; reflexivity | rewrite L1a; discriminate]. }
  rewrite C1. set (s2 := upd a (Some (F 0)) s1). assert (I2 : fs_inv_weak s2) by (apply (apply_inv _ _ _ I1 C1)).
  (* Write a *)
  assert (C2 : apply (Write a v) s2 = inl (upd a (Some (F v)) s2)).
  { apply (write_ok s2 a 0 v). unfold s2. cbn [look upd]. rewrite path_eqb_refl. reflexivity. }
  rewrite C2. set (s3 := upd a (Some (F v)) s2). assert (I3 : fs_inv_weak s3) by (apply (apply_inv _ _ _ I2 C2)).
  assert (L3a : look s3 a = Some (F v)) by (unfold s3; cbn [look upd]; rewrite path_eqb_refl; reflexivity).
  (* FsyncF a *)
  rewrite (fsyncF_ok s3 a v L3a).
  (* Rename a b *)
  assert (L3 : forall q, path_eqb q a = false -> path_eqb q t0 = false -> look s3 q = look s q).
  { intros q E1 E2. unfold s3, s2, s1. cbn [look upd]. rewrite E1, E2. reflexivity. }
  assert (Hbna : path_eqb b a = false).
  { apply path_eqb_neq. intro E. pose proof (Hbt0 []) as X. rewrite app_nil_r, E in X. unfold a in X. rewrite prefix_app in X. discriminate. }
  assert (Hbnt : path_eqb b t0 = false).
  { apply path_eqb_neq. intro E. pose proof (Hbt0 []) as X. rewrite app_nil_r, E, prefix_refl in X. discriminate. }
  assert (Hdna : path_eqb d a = false).
  { apply path_eqb_neq. intro E. apply (f_equal (@List.length name)) in E. unfold a, t0 in E. rewrite !app_length in E. cbn in E. lia. }
  assert (Hdnt : path_eqb d t0 = false) by (apply path_eqb_neq; apply snoc_neq_self).
  assert (C4 : apply (Rename a b) s3 = inl (renamed a b s3)).
  { apply (rename_file_ok s3 a b v); [apply snoc_not_nil | apply snoc_not_nil | | rewrite Hpb, (L3 d Hdna Hdnt); exact Hld | exact L3a | rewrite (L3 b Hbna Hbnt); exact Hbx].
    destruct (prefix a b) eqn:E; [|reflexivity]. pose proof (Hbt0 []) as X. rewrite app_nil_r in X.
    rewrite (prefix_trans t0 a b) in X; [discriminate | unfold a; apply prefix_app | exact E]. }
  rewrite C4. set (s5 := renamed a b s3). assert (I5 : fs_inv_weak s5) by (apply (apply_inv _ _ _ I3 C4)).
  (* Rmtree t0 *)
  assert (L5t : look s5 t0 = Some D).
  { unfold s5, renamed. cbn [look].
    assert (X : prefix b t0 = false).
    { destruct (prefix b t0) eqn:E; [|reflexivity]. apply prefix_spec in E. destruct E as [r E]. unfold b, t0 in E.
      rewrite <- app_assoc in E. apply app_inv_head in E. cbn in E. congruence. }
    rewrite X. unfold a at 1. rewrite prefix_snoc_self_false. unfold s3, s2, s1. cbn [look upd].
    rewrite (path_eqb_sym t0 a), Hat0, path_eqb_refl. reflexivity. }
  assert (C5 : apply (Rmtree t0) s5 = inl {| look := fun r => if prefix t0 r then None else look s5 r; dom := dom s5 |})
    by (apply rmtree_ok; [apply snoc_not_nil | exact L5t]).
  rewrite C5. set (s6 := {| look := fun r => if prefix t0 r then None else look s5 r; dom := dom s5 |}).
  assert (I6 : fs_inv_weak s6) by (apply (apply_inv _ _ _ I5 C5)).
  (* the final state is s with d/x set *)
  assert (Heq : is_upd s b (Some (F v)) s6).
  { intro q. unfold s6. cbn [look]. destruct (prefix t0 q) eqn:Et.
    - apply prefix_strip in Et. assert (Hqb : path_eqb q b = false).
      { apply path_eqb_neq. intros ->. pose proof (Hbt0 []) as X. rewrite app_nil_r in X. rewrite Et in X. rewrite prefix_app in X. discriminate. }
      rewrite Hqb. destruct (strip t0 q) as [|y r]; [rewrite app_nil_r in Et; rewrite Et; symmetry; exact Hfresh|].
      rewrite Et. symmetry. apply Hunder. discriminate.
    - unfold s5, renamed. cbn [look]. destruct (prefix b q) eqn:Eb.
      + apply prefix_strip in Eb. destruct (strip b q) as [|y r] eqn:Es.
        * rewrite app_nil_r in Eb. subst q. rewrite path_eqb_refl, app_nil_r. exact L3a.
        * assert (Hqb : path_eqb q b = false).
          { apply path_eqb_neq. intro E. rewrite E in Eb. apply (f_equal (@List.length name)) in Eb. rewrite app_length in Eb. cbn in Eb. lia. }
          rewrite Hqb. rewrite L3.
          -- unfold a. rewrite <- app_assoc. rewrite Hunder; [|discriminate]. rewrite Eb. symmetry.
             apply closed_below; [apply Hinv | exact Hbx | discriminate].
          -- apply path_eqb_neq. intro E. apply (f_equal (@List.length name)) in E. rewrite app_length in E. cbn in E. lia.
          -- apply path_eqb_neq. intro E. apply (f_equal (@List.length name)) in E. unfold a in E. rewrite !app_length in E. cbn in E. lia.
      + assert (Hqb : path_eqb q b = false) by (apply path_eqb_neq; intros ->; rewrite prefix_refl in Eb; discriminate).
        rewrite Hqb. assert (Ea : prefix a q = false).
        { destruct (prefix a q) eqn:E; [|reflexivity]. rewrite (prefix_trans t0 a q) in Et; [discriminate | unfold a; apply prefix_app | exact E]. }
        rewrite Ea. apply L3.
        * apply path_eqb_neq. intros ->. rewrite prefix_refl in Ea. discriminate.
        * apply path_eqb_neq. intros ->. rewrite prefix_refl in Et. discriminate. }
  (* FsyncD d *)
  assert (L6d : look s6 d = Some D).
  { rewrite (Heq d). destruct (path_eqb d b) eqn:E; [apply path_eqb_eq in E; unfold b in E; apply snoc_neq_self in E; contradiction | exact Hld]. }
  rewrite (fsyncD_ok s6 d L6d). apply HQ; [exact I6 | exact Heq].
Qed.

(* ------------------------------------------------------------------ _makedirs_synced *)
Definition chain_ok (s : fs) (p : path) : Prop :=
  forall q, prefix q p = true -> q <> [] -> look s q = None \/ look s q = Some D.
Definition md_post (s : fs) (p : path) (s' : fs) : Prop :=
  forall r, look s' r = if prefix r p && nonempty r then Some D else look s r.

Lemma prefix_of_snoc : forall (r p0 : path) x, prefix r (p0 ++ [x]) = path_eqb r (p0 ++ [x]) || prefix r p0.
Proof.
  induction r as [|y r IH]; intros p0 x.
  - cbn. destruct (p0 ++ [x]) eqn:E; [destruct p0; discriminate | reflexivity].
  - destruct p0 as [|z p0]; cbn.
    + destruct r; cbn; [rewrite orb_false_r; reflexivity | rewrite andb_false_r; reflexivity].
    + rewrite IH. destruct (name_eqb y z); reflexivity.
Qed.

Lemma closed_prefix_dir : forall s p, closed s -> look s p = Some D -> forall r, prefix r p = true -> look s r = Some D.
Proof.
  intros s p [Hroot Hcl] Hp r Hr. apply prefix_spec in Hr. destruct Hr as [e ->]. revert Hp.
  induction e as [|x e IH] using rev_ind; intro Hp; [rewrite app_nil_r in Hp; exact Hp|].
  apply IH. rewrite app_assoc in Hp. apply (Hcl _ x). rewrite Hp. discriminate.
Qed.

Lemma md_rev_nf : forall rp s n (Q : npost) EE,
  fs_inv_weak s -> chain_ok s (rev rp) ->
  (forall s', fs_inv_weak s' -> md_post s (rev rp) s' -> Q s' n) -> nfwp (md_rev rp) Q EE s n.
Proof.
  induction rp as [|x rest IH]; intros s n Q EE Hinv Hch HQ; cbn [md_rev nfwp].
  - apply HQ; [exact Hinv|]. intro r. cbn [rev]. destruct r; reflexivity.
  - cbn [rev] in *. set (p0 := rev rest) in *. set (p := p0 ++ [x]) in *.
    assert (Hdir : look s p = Some D -> Q s n).
    { intro Hp. apply HQ; [exact Hinv|]. intro r. destruct (prefix r p && nonempty r) eqn:E; [|reflexivity].
      apply andb_true_iff in E. destruct E as [E _]. apply (closed_prefix_dir s p); [apply Hinv | exact Hp | exact E]. }
    destruct (Hch p (prefix_refl p) (snoc_not_nil p0 x)) as [Hnone | Hd]; [|rewrite Hd; apply Hdir; exact Hd].
    rewrite Hnone. cbn [seqs nfwp].
    apply IH; [exact Hinv | |].
    { intros q Hq Hne. apply Hch; [|exact Hne]. unfold p. rewrite (prefix_of_snoc q p0 x). rewrite Hq. apply orb_true_r. }
    intros s1 I1 P1. unfold Do. cbn [nfwp].
    assert (Hp1 : look s1 p = None).
    { rewrite (P1 p). unfold p at 1, p0. fold p0. rewrite prefix_snoc_self_false. cbn. exact Hnone. }
    assert (Hpar : look s1 p0 = Some D).
    { rewrite (P1 p0). rewrite prefix_refl. destruct p0 as [|y q] eqn:E0; cbn; [apply Hinv | reflexivity]. }
    assert (C : apply (Mkdir p) s1 = inl (upd p (Some D) s1)).
    { apply mkdir_ok; [apply snoc_not_nil | exact Hp1 | unfold p; rewrite parent_snoc; exact Hpar]. }
    rewrite C. unfold fsyncD. cbn [nfwp].
    assert (L2 : look (upd p (Some D) s1) p0 = Some D).
    { cbn [look upd]. destruct (path_eqb p0 p) eqn:E; [reflexivity | exact Hpar]. }
    rewrite (fsyncD_ok _ _ L2). apply HQ; [apply (apply_inv _ _ _ I1 C)|].
    intro r. cbn [look upd]. unfold p. rewrite (prefix_of_snoc r p0 x). fold p. destruct (path_eqb r p) eqn:E.
    + apply path_eqb_eq in E. subst r. cbn [orb andb]. unfold p. destruct (p0 ++ [x]) eqn:Ep; [destruct p0; discriminate | reflexivity].
    + cbn [orb]. apply P1.
Qed.

Lemma md_nf : forall p s n (Q : npost) EE,
  fs_inv_weak s -> chain_ok s p ->
  (forall s', fs_inv_weak s' -> md_post s p s' -> Q s' n) -> nfwp (MD p) Q EE s n.
Proof.
  intros p s n Q EE Hinv Hch HQ. unfold MD. apply md_rev_nf; [exact Hinv | rewrite rev_involutive; exact Hch |].
  rewrite rev_involutive. exact HQ.
Qed.
