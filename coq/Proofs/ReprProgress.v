(* Progress: a FAULT-FREE run of a storage operation from a well-formed tree ends normally.
   (The wp calculus of C02/C12 over-approximates faults and therefore never claims a normal end.) *)
From Coq Require Import List NArith Bool Lia.
Import ListNotations.
Require Import RV.Lib.Prog RV.Model.Fs RV.Model.StorageOps RV.Proofs.FsLemmas RV.Proofs.FsInv RV.Proofs.NoFault
  RV.Proofs.C12Units RV.Proofs.C12Final RV.Proofs.C02Final.
Open Scope N_scope.

(* s' is s with q set to v *)
Definition is_upd (s : fs) (q : path) (v : option node) (s' : fs) : Prop :=
  forall r, look s' r = if path_eqb r q then v else look s r.

Lemma snoc_not_nil : forall (p : path) x, p ++ [x] <> [].
Proof. intros p x H. destruct p; discriminate. Qed.

Lemma path_eqb_snoc_diff : forall (d : path) x y, x <> y -> path_eqb (d ++ [x]) (d ++ [y]) = false.
Proof. intros d x y H. apply path_eqb_neq. intro E. apply app_inv_head in E. congruence. Qed.

Lemma prefix_snoc_diff : forall (d : path) x y r, x <> y -> prefix (d ++ [x]) (d ++ y :: r) = false.
Proof.
  intros d x y r H. destruct (prefix (d ++ [x]) (d ++ y :: r)) eqn:E; [|reflexivity].
  apply prefix_spec in E. destruct E as [r' E]. rewrite <- app_assoc in E. apply app_inv_head in E. cbn in E. congruence.
Qed.

(* ------------------------------------------------------------------ _atomic_write *)
Lemma aw_nf : forall d x v s n (Q : npost) E,
  fs_inv_weak s -> d <> [] -> look s d = Some D -> look s (d ++ [Tmp n]) = None -> look s (d ++ [x]) <> Some D -> x <> Tmp n ->
  (forall s', fs_inv_weak s' -> is_upd s (d ++ [x]) (Some (F v)) s' -> Q s' (N.succ n)) ->
  nfwp (AW d x v) Q E s n.
Proof.
  intros d x v s n Q EE Hinv Hd Hld Hfresh Hbx Hx HQ. unfold AW, with_tmp, Finally, Do, fsyncD, fsyncF. cbn [nfwp seqs].
  set (t0 := d ++ [Tmp n]). set (a := t0 ++ [x]). set (b := d ++ [x]).
  assert (Hpt0 : parent t0 = d) by apply parent_snoc. assert (Hpa : parent a = t0) by apply parent_snoc.
  assert (Hpb : parent b = d) by apply parent_snoc.
  assert (Hbt0 : forall r, prefix t0 (b ++ r) = false).
  { intro r. unfold t0, b. rewrite <- app_assoc. cbn [app]. apply prefix_snoc_diff. congruence. }
  assert (Hunder : forall r, r <> [] -> look s (t0 ++ r) = None).
  { intros r Hr. apply closed_below; [apply Hinv | unfold t0; rewrite Hfresh; discriminate | exact Hr]. }
  (* Mkdir t0 *)
  rewrite (mkdir_ok s t0); [|apply snoc_not_nil | exact Hfresh | rewrite Hpt0; exact Hld].
  set (s1 := upd t0 (Some D) s).
  assert (I1 : fs_inv_weak s1) by (apply (apply_inv (Mkdir t0) s); [exact Hinv | apply mkdir_ok; [apply snoc_not_nil | exact Hfresh | rewrite Hpt0; exact Hld]]).
  (* Create a *)
  assert (Hat0 : path_eqb a t0 = false) by (apply path_eqb_neq; unfold a; intro E; symmetry in E; apply snoc_neq_self in E; exact E).
  assert (L1a : look s1 a = None).
  { unfold s1. cbn [look upd]. rewrite Hat0. unfold a. apply Hunder. discriminate. }
  assert (C1 : apply (Create a) s1 = inl (upd a (Some (F 0)) s1)).
  { apply create_ok; [apply snoc_not_nil | rewrite Hpa; unfold s1; cbn [look upd]; rewrite path_eqb_refl; reflexivity | rewrite L1a; discriminate]. }
  rewrite C1. set (s2 := upd a (Some (F 0)) s1). assert (I2 : fs_inv_weak s2) by (apply (apply_inv _ _ _ I1 C1)).
  (* Write a *)
  assert (C2 : apply (Write a v) s2 = inl (upd a (Some (F v)) s2)).
  { apply (write_ok s2 a 0 v). unfold s2. cbn [look upd]. rewrite path_eqb_refl. reflexivity. }
  rewrite C2. set (s3 := upd a (Some (F v)) s2). assert (I3 : fs_inv_weak s3) by (apply (apply_inv _ _ _ I2 C2)).
  assert (L3a : look s3 a = Some (F v)) by (unfold s3; cbn [look upd]; rewrite path_eqb_refl; reflexivity).
  (* FsyncF a *)
  rewrite (fsyncF_ok s3 a v L3a).
  (* Rename a b *)
  assert (L3 : forall q, path_eqb q a = false -> path_eqb q t0 = false -> look s3 q = look s q).
  { intros q E1 E2. unfold s3, s2, s1. cbn [look upd]. rewrite E1, E2. reflexivity. }
  assert (Hbna : path_eqb b a = false).
  { apply path_eqb_neq. intro E. pose proof (Hbt0 []) as X. rewrite app_nil_r, E in X. unfold a in X. rewrite prefix_app in X. discriminate. }
  assert (Hbnt : path_eqb b t0 = false).
  { apply path_eqb_neq. intro E. pose proof (Hbt0 []) as X. rewrite app_nil_r, E, prefix_refl in X. discriminate. }
  assert (Hdna : path_eqb d a = false).
  { apply path_eqb_neq. intro E. apply (f_equal (@List.length name)) in E. unfold a, t0 in E. rewrite !app_length in E. cbn in E. lia. }
  assert (Hdnt : path_eqb d t0 = false) by (apply path_eqb_neq; apply snoc_neq_self).
  assert (C4 : apply (Rename a b) s3 = inl (renamed a b s3)).
  { apply (rename_file_ok s3 a b v); [apply snoc_not_nil | apply snoc_not_nil | | rewrite Hpb, (L3 d Hdna Hdnt); exact Hld | exact L3a | rewrite (L3 b Hbna Hbnt); exact Hbx].
    destruct (prefix a b) eqn:E; [|reflexivity]. pose proof (Hbt0 []) as X. rewrite app_nil_r in X.
    rewrite (prefix_trans t0 a b) in X; [discriminate | unfold a; apply prefix_app | exact E]. }
  rewrite C4. set (s5 := renamed a b s3). assert (I5 : fs_inv_weak s5) by (apply (apply_inv _ _ _ I3 C4)).
  (* Rmtree t0 *)
  assert (L5t : look s5 t0 = Some D).
  { unfold s5, renamed. cbn [look].
    assert (X : prefix b t0 = false).
    { destruct (prefix b t0) eqn:E; [|reflexivity]. apply prefix_spec in E. destruct E as [r E]. unfold b, t0 in E.
      rewrite <- app_assoc in E. apply app_inv_head in E. cbn in E. congruence. }
    rewrite X. unfold a at 1. rewrite prefix_snoc_self_false. unfold s3, s2, s1. cbn [look upd].
    rewrite (path_eqb_sym t0 a), Hat0, path_eqb_refl. reflexivity. }
  assert (C5 : apply (Rmtree t0) s5 = inl {| look := fun r => if prefix t0 r then None else look s5 r; dom := dom s5 |})
    by (apply rmtree_ok; [apply snoc_not_nil | exact L5t]).
  rewrite C5. set (s6 := {| look := fun r => if prefix t0 r then None else look s5 r; dom := dom s5 |}).
  assert (I6 : fs_inv_weak s6) by (apply (apply_inv _ _ _ I5 C5)).
  (* the final state is s with d/x set *)
  assert (Heq : is_upd s b (Some (F v)) s6).
  { intro q. unfold s6. cbn [look]. destruct (prefix t0 q) eqn:Et.
    - apply prefix_strip in Et. assert (Hqb : path_eqb q b = false).
      { apply path_eqb_neq. intros ->. pose proof (Hbt0 []) as X. rewrite app_nil_r in X. rewrite Et in X. rewrite prefix_app in X. discriminate. }
      rewrite Hqb. destruct (strip t0 q) as [|y r]; [rewrite app_nil_r in Et; rewrite Et; symmetry; exact Hfresh|].
      rewrite Et. symmetry. apply Hunder. discriminate.
    - unfold s5, renamed. cbn [look]. destruct (prefix b q) eqn:Eb.
      + apply prefix_strip in Eb. destruct (strip b q) as [|y r] eqn:Es.
        * rewrite app_nil_r in Eb. subst q. rewrite path_eqb_refl, app_nil_r. exact L3a.
        * assert (Hqb : path_eqb q b = false).
          { apply path_eqb_neq. intro E. rewrite E in Eb. apply (f_equal (@List.length name)) in Eb. rewrite app_length in Eb. cbn in Eb. lia. }
          rewrite Hqb. rewrite L3.
          -- unfold a. rewrite <- app_assoc. rewrite Hunder; [|discriminate]. rewrite Eb. symmetry.
             apply closed_below; [apply Hinv | exact Hbx | discriminate].
          -- apply path_eqb_neq. intro E. apply (f_equal (@List.length name)) in E. rewrite app_length in E. cbn in E. lia.
          -- apply path_eqb_neq. intro E. apply (f_equal (@List.length name)) in E. unfold a in E. rewrite !app_length in E. cbn in E. lia.
      + assert (Hqb : path_eqb q b = false) by (apply path_eqb_neq; intros ->; rewrite prefix_refl in Eb; discriminate).
        rewrite Hqb. assert (Ea : prefix a q = false).
        { destruct (prefix a q) eqn:E; [|reflexivity]. rewrite (prefix_trans t0 a q) in Et; [discriminate | unfold a; apply prefix_app | exact E]. }
        rewrite Ea. apply L3.
        * apply path_eqb_neq. intros ->. rewrite prefix_refl in Ea. discriminate.
        * apply path_eqb_neq. intros ->. rewrite prefix_refl in Et. discriminate. }
  (* FsyncD d *)
  assert (L6d : look s6 d = Some D).
  { rewrite (Heq d). destruct (path_eqb d b) eqn:E; [apply path_eqb_eq in E; unfold b in E; apply snoc_neq_self in E; contradiction | exact Hld]. }
  rewrite (fsyncD_ok s6 d L6d). apply HQ; [exact I6 | exact Heq].
Qed.

(* ------------------------------------------------------------------ _makedirs_synced *)
Definition chain_ok (s : fs) (p : path) : Prop :=
  forall q, prefix q p = true -> q <> [] -> look s q = None \/ look s q = Some D.
Definition md_post (s : fs) (p : path) (s' : fs) : Prop :=
  forall r, look s' r = if prefix r p && nonempty r then Some D else look s r.

Lemma prefix_of_snoc : forall (r p0 : path) x, prefix r (p0 ++ [x]) = path_eqb r (p0 ++ [x]) || prefix r p0.
Proof.
  induction r as [|y r IH]; intros p0 x.
  - cbn. destruct (p0 ++ [x]) eqn:E; [destruct p0; discriminate | reflexivity].
  - destruct p0 as [|z p0]; cbn.
    + destruct r; cbn; [rewrite orb_false_r; reflexivity | rewrite andb_false_r; reflexivity].
    + rewrite IH. destruct (name_eqb y z); reflexivity.
Qed.

Lemma closed_prefix_dir : forall s p, closed s -> look s p = Some D -> forall r, prefix r p = true -> look s r = Some D.
Proof.
  intros s p [Hroot Hcl] Hp r Hr. apply prefix_spec in Hr. destruct Hr as [e ->]. revert Hp.
  induction e as [|x e IH] using rev_ind; intro Hp; [rewrite app_nil_r in Hp; exact Hp|].
  apply IH. rewrite app_assoc in Hp. apply (Hcl _ x). rewrite Hp. discriminate.
Qed.

Lemma md_rev_nf : forall rp s n (Q : npost) EE,
  fs_inv_weak s -> chain_ok s (rev rp) ->
  (forall s', fs_inv_weak s' -> md_post s (rev rp) s' -> Q s' n) -> nfwp (md_rev rp) Q EE s n.
Proof.
  induction rp as [|x rest IH]; intros s n Q EE Hinv Hch HQ; cbn [md_rev nfwp].
  - apply HQ; [exact Hinv|]. intro r. cbn [rev]. destruct r; reflexivity.
  - cbn [rev] in *. set (p0 := rev rest) in *. set (p := p0 ++ [x]) in *.
    assert (Hdir : look s p = Some D -> Q s n).
    { intro Hp. apply HQ; [exact Hinv|]. intro r. destruct (prefix r p && nonempty r) eqn:E; [|reflexivity].
      apply andb_true_iff in E. destruct E as [E _]. apply (closed_prefix_dir s p); [apply Hinv | exact Hp | exact E]. }
    destruct (Hch p (prefix_refl p) (snoc_not_nil p0 x)) as [Hnone | Hd]; [|rewrite Hd; apply Hdir; exact Hd].
    rewrite Hnone. cbn [seqs nfwp].
    apply IH; [exact Hinv | |].
    { intros q Hq Hne. apply Hch; [|exact Hne]. unfold p. rewrite (prefix_of_snoc q p0 x). rewrite Hq. apply orb_true_r. }
    intros s1 I1 P1. unfold Do. cbn [nfwp].
    assert (Hp1 : look s1 p = None).
    { rewrite (P1 p). unfold p at 1, p0. fold p0. rewrite prefix_snoc_self_false. cbn. exact Hnone. }
    assert (Hpar : look s1 p0 = Some D).
    { rewrite (P1 p0). rewrite prefix_refl. destruct p0 as [|y q] eqn:E0; cbn; [apply Hinv | reflexivity]. }
    assert (C : apply (Mkdir p) s1 = inl (upd p (Some D) s1)).
    { apply mkdir_ok; [apply snoc_not_nil | exact Hp1 | unfold p; rewrite parent_snoc; exact Hpar]. }
    rewrite C. unfold fsyncD. cbn [nfwp].
    assert (L2 : look (upd p (Some D) s1) p0 = Some D).
    { cbn [look upd]. destruct (path_eqb p0 p) eqn:E; [reflexivity | exact Hpar]. }
    rewrite (fsyncD_ok _ _ L2). apply HQ; [apply (apply_inv _ _ _ I1 C)|].
    intro r. cbn [look upd]. unfold p. rewrite (prefix_of_snoc r p0 x). fold p. destruct (path_eqb r p) eqn:E.
    + apply path_eqb_eq in E. subst r. cbn [orb andb]. unfold p. destruct (p0 ++ [x]) eqn:Ep; [destruct p0; discriminate | reflexivity].
    + cbn [orb]. apply P1.
Qed.

Lemma md_nf : forall p s n (Q : npost) EE,
  fs_inv_weak s -> chain_ok s p ->
  (forall s', fs_inv_weak s' -> md_post s p s' -> Q s' n) -> nfwp (MD p) Q EE s n.
Proof.
  intros p s n Q EE Hinv Hch HQ. unfold MD. apply md_rev_nf; [exact Hinv | rewrite rev_involutive; exact Hch |].
  rewrite rev_involutive. exact HQ.
Qed.

(* ------------------------------------------------------------------ from nfwp to the outcome of the run *)
Definition TrueQ : npost := fun _ _ => True.

Lemma nf_norm : forall (p : P) s, nfwp p TrueQ NoExn s 0 -> snd (machine_run no_fault p (start s)) = ONorm.
Proof.
  intros p s H. pose proof (nfwp_sound p TrueQ NoExn s 0 H 0%nat []) as Hs. unfold nf_result, start in *.
  destruct (snd (machine_run no_fault p (Cfg 0 0 s []))); [reflexivity | contradiction | contradiction].
Qed.

(* no temp directory is left in the tree (what a fault-free history leaves behind) *)
Definition tmp_free (s : fs) : Prop := forall q k, look s (q ++ [Tmp k]) = None.

Lemma md_existing_nf : forall p s n (Q : npost) EE, look s p = Some D -> Q s n -> nfwp (MD p) Q EE s n.
Proof.
  intros p s n Q EE Hp HQ. unfold MD. destruct (path_snoc_cases p) as [-> | [q [x ->]]]; [exact HQ|].
  rewrite rev_app_distr. cbn [rev app md_rev nfwp]. rewrite rev_involutive. rewrite Hp. exact HQ.
Qed.

Lemma closed_parent_dir : forall s p x, closed s -> look s (p ++ [x]) <> None -> look s p = Some D.
Proof. intros s p x [_ H] Hl. apply (H p x). exact Hl. Qed.

(* one level of _makedirs_synced: the path is free or already a directory, its parent exists *)
Lemma mkdir_progress : forall lay p s0, p <> [] -> fs_inv_weak s0 -> look s0 (parent p) = Some D ->
  (look s0 p = None \/ look s0 p = Some D) ->
  snd (machine_run no_fault (unit_prog lay (UMkdir p)) (start s0)) = ONorm.
Proof.
  intros lay p s0 Hne Hinv Hpar Hp. apply nf_norm. cbn [unit_prog]. unfold mkdir_synced. cbn [nfwp].
  destruct Hp as [Hp | Hp]; rewrite Hp; [|exact I]. unfold Do, fsyncD. cbn [nfwp].
  rewrite (mkdir_ok s0 p Hne Hp Hpar). cbn [nfwp].
  assert (L : look (upd p (Some D) s0) (parent p) = Some D).
  { cbn [look upd]. destruct (path_eqb (parent p) p); [reflexivity | exact Hpar]. }
  rewrite (fsyncD_ok _ _ L). exact I.
Qed.

(* set_meta: the collection exists, no temp residue in it, the props path is not a directory *)
Lemma set_meta_progress : forall lay c pv s0, c <> [] -> fs_inv_weak s0 -> look s0 c = Some D ->
  look s0 (c ++ [Tmp 0]) = None -> look s0 (c ++ [Props]) <> Some D ->
  snd (machine_run no_fault (unit_prog lay (USetMeta c pv)) (start s0)) = ONorm.
Proof.
  intros lay c pv s0 Hne Hinv Hc Hf Hp. apply nf_norm. cbn [unit_prog]. unfold set_meta. cbn [nfwp].
  apply aw_nf; auto; [discriminate|]. intros; exact I.
Qed.

(* delete of a collection: it exists, its parent has no temp residue *)
Lemma delete_coll_progress : forall lay par x s0, fs_inv_weak s0 -> look s0 (par ++ [x]) = Some D ->
  look s0 (par ++ [Tmp 0]) = None -> x <> Tmp 0 ->
  snd (machine_run no_fault (unit_prog lay (UDeleteColl (par ++ [x]))) (start s0)) = ONorm.
Proof.
  intros lay par x s0 Hinv Hc Hf Hx. apply nf_norm. cbn [unit_prog]. unfold delete_coll. cbn [nfwp].
  set (c := par ++ [x]) in *.
  assert (Hpar : look s0 par = Some D) by (apply (closed_parent_dir s0 par x); [apply Hinv | fold c; rewrite Hc; discriminate]).
  assert (Hpc : parent c = par) by apply parent_snoc.
  destruct (apply (Rmdir c) s0) as [s1 | e] eqn:Ermdir.
  - (* the directory was empty *)
    unfold fsyncD. cbn [nfwp]. rewrite Hpc.
    assert (L : look s1 par = Some D).
    { cbn [apply] in Ermdir. inv_apply Ermdir. subst s1. cbn [look upd].
      destruct (path_eqb par c) eqn:Epc; [apply path_eqb_eq in Epc; unfold c in Epc; apply snoc_neq_self in Epc; contradiction | exact Hpar]. }
    rewrite (fsyncD_ok _ _ L). exact I.
  - (* rename into a temp directory, sync, remove *)
    unfold with_tmp, Finally, Do, fsyncD. cbn [nfwp]. rewrite Hpc. set (t0 := par ++ [Tmp 0]).
    assert (C1 : apply (Mkdir t0) s0 = inl (upd t0 (Some D) s0)).
    { apply mkdir_ok; [apply snoc_not_nil | exact Hf | unfold t0; rewrite parent_snoc; exact Hpar]. }
    rewrite C1. set (s1 := upd t0 (Some D) s0). assert (I1 : fs_inv_weak s1) by apply (apply_inv _ _ _ Hinv C1).
    set (b := t0 ++ [last_name c]).
    assert (Hct0 : path_eqb c t0 = false) by (unfold c, t0; apply path_eqb_snoc_diff; exact Hx).
    assert (C2 : apply (Rename c b) s1 = inl (renamed c b s1)).
    { apply rename_dir_ok; [apply snoc_not_nil | apply snoc_not_nil | | | |].
      - unfold b, c, t0. rewrite <- app_assoc. apply prefix_snoc_diff. exact Hx.
      - unfold b. rewrite parent_snoc. unfold s1. cbn [look upd]. rewrite path_eqb_refl. reflexivity.
      - unfold s1. cbn [look upd]. rewrite Hct0. exact Hc.
      - unfold s1. cbn [look upd]. destruct (path_eqb b t0) eqn:E; [apply path_eqb_eq in E; unfold b in E; symmetry in E; apply snoc_neq_self in E; contradiction|].
        unfold b. apply closed_below; [apply Hinv | unfold t0; rewrite Hf; discriminate | discriminate]. }
    rewrite C2. set (s2 := renamed c b s1). assert (I2 : fs_inv_weak s2) by apply (apply_inv _ _ _ I1 C2).
    assert (Hbpar : prefix b par = false).
    { destruct (prefix b par) eqn:E; [|reflexivity]. apply prefix_length in E. unfold b, t0 in E. rewrite !app_length in E. cbn in E. lia. }
    assert (Hcpar : prefix c par = false) by (unfold c; apply prefix_snoc_self_false).
    assert (L2 : look s2 par = Some D).
    { unfold s2, renamed. cbn [look]. rewrite Hbpar, Hcpar. unfold s1. cbn [look upd].
      destruct (path_eqb par t0) eqn:E; [reflexivity | exact Hpar]. }
    rewrite (fsyncD_ok _ _ L2).
    assert (L2t : look s2 t0 = Some D).
    { unfold s2, renamed. cbn [look]. unfold b at 1. rewrite prefix_snoc_self_false.
      assert (X : prefix c t0 = false) by (unfold c, t0; rewrite <- (app_nil_r (par ++ [Tmp 0])), <- app_assoc; apply prefix_snoc_diff; exact Hx).
      rewrite X. unfold s1. cbn [look upd]. rewrite path_eqb_refl. reflexivity. }
    rewrite (rmtree_ok s2 t0 (snoc_not_nil _ _) L2t). exact I.
Qed.

(* create_collection with props and no items (MKCALENDAR, MKCOL with props): the parent exists and holds no
   temp residue; the target may exist (Exchange) or not (Rename) *)
Lemma create_progress : forall lay par x pv s0, fs_inv_weak s0 -> look s0 par = Some D -> par <> [] ->
  look s0 (par ++ [Tmp 0]) = None -> x <> Tmp 0 ->
  snd (machine_run no_fault (unit_prog lay (UCreate (par ++ [x]) None pv)) (start s0)) = ONorm.
Proof.
  intros lay par x pv s0 Hinv Hpar Hparne Hf Hx. apply nf_norm. cbn [unit_prog]. unfold create_collection, create_collection_gen.
  rewrite parent_snoc. cbn [nfwp]. apply md_existing_nf; [exact Hpar|]. cbn [nfwp]. unfold with_tmp, Finally, Do. cbn [nfwp seqs].
  set (p := par ++ [x]). set (t0 := par ++ [Tmp 0]). set (tc := t0 ++ [n_collection]).
  assert (Hunder : forall r, r <> [] -> look s0 (t0 ++ r) = None).
  { intros r Hr. apply closed_below; [apply Hinv | unfold t0; rewrite Hf; discriminate | exact Hr]. }
  assert (Hpt0 : forall r, prefix t0 (p ++ r) = false).
  { intro r. unfold t0, p. rewrite <- app_assoc. cbn [app]. apply prefix_snoc_diff. congruence. }
  assert (C1 : apply (Mkdir t0) s0 = inl (upd t0 (Some D) s0)).
  { apply mkdir_ok; [apply snoc_not_nil | exact Hf | unfold t0; rewrite parent_snoc; exact Hpar]. }
  rewrite C1. set (s1 := upd t0 (Some D) s0). assert (I1 : fs_inv_weak s1) by apply (apply_inv _ _ _ Hinv C1).
  assert (Htct0 : path_eqb tc t0 = false) by (apply path_eqb_neq; unfold tc; intro E; symmetry in E; apply snoc_neq_self in E; exact E).
  assert (C2 : apply (Mkdir tc) s1 = inl (upd tc (Some D) s1)).
  { apply mkdir_ok; [apply snoc_not_nil | | unfold tc; rewrite parent_snoc; unfold s1; cbn [look upd]; rewrite path_eqb_refl; reflexivity].
    unfold s1. cbn [look upd]. rewrite Htct0. unfold tc. apply Hunder. discriminate. }
  rewrite C2. set (s2 := upd tc (Some D) s1). assert (I2 : fs_inv_weak s2) by apply (apply_inv _ _ _ I1 C2).
  assert (L2 : forall q, path_eqb q tc = false -> path_eqb q t0 = false -> look s2 q = look s0 q).
  { intros q E1 E2. unfold s2, s1. cbn [look upd]. rewrite E1, E2. reflexivity. }
  assert (Hlen : forall (a : path) r, r <> [] -> path_eqb (a ++ r) a = false).
  { intros a r Hr. apply path_eqb_neq. intro E. apply (f_equal (@List.length name)) in E. rewrite app_length in E. destruct r; [congruence | cbn in E; lia]. }
  (* set_meta into the staging collection *)
  unfold set_meta. cbn [nfwp].
  apply aw_nf; [exact I2 | apply snoc_not_nil | unfold s2; cbn [look upd]; rewrite path_eqb_refl; reflexivity | | | discriminate |].
  { rewrite L2; [| apply Hlen; discriminate | unfold tc; rewrite <- app_assoc; apply Hlen; discriminate].
    unfold tc. rewrite <- app_assoc. apply Hunder. discriminate. }
  { rewrite L2; [| apply Hlen; discriminate | unfold tc; rewrite <- app_assoc; apply Hlen; discriminate].
    unfold tc. rewrite <- app_assoc. rewrite Hunder; discriminate. }
  intros s3 I3 U3. cbn [nfwp].
  assert (L3 : forall q, prefix t0 q = false -> look s3 q = look s0 q).
  { intros q Hq. rewrite (U3 q).
    assert (E0 : path_eqb q (tc ++ [Props]) = false).
    { apply path_eqb_neq. intros ->. unfold tc in Hq. rewrite <- app_assoc, prefix_app in Hq. discriminate. }
    rewrite E0. apply L2; apply path_eqb_neq; intros ->; [unfold tc in Hq; rewrite prefix_app in Hq | rewrite prefix_refl in Hq]; discriminate. }
  assert (L3tc : look s3 tc = Some D).
  { rewrite (U3 tc). rewrite (path_eqb_sym tc (tc ++ [Props])), Hlen; [|discriminate]. unfold s2. cbn [look upd]. rewrite path_eqb_refl. reflexivity. }
  assert (L3t0 : look s3 t0 = Some D).
  { rewrite (U3 t0). assert (E0 : path_eqb t0 (tc ++ [Props]) = false).
    { unfold tc. rewrite <- app_assoc, path_eqb_sym. apply Hlen. discriminate. }
    rewrite E0. unfold s2, s1. cbn [look upd]. rewrite (path_eqb_sym t0 tc), Htct0, path_eqb_refl. reflexivity. }
  assert (Hp0 : prefix t0 p = false) by (rewrite <- (app_nil_r p); apply Hpt0).
  assert (Hpar0 : prefix t0 par = false) by (unfold t0; apply prefix_snoc_self_false).
  assert (Htcp : prefix tc p = false).
  { destruct (prefix tc p) eqn:E; [|reflexivity]. rewrite (prefix_trans t0 tc p) in Hp0; [discriminate | unfold tc; apply prefix_app | exact E]. }
  assert (Hptc : prefix p tc = false).
  { unfold p, tc, t0. rewrite <- app_assoc. cbn [app]. apply prefix_snoc_diff. exact Hx. }
  assert (Hp_par : prefix p par = false) by (unfold p; apply prefix_snoc_self_false).
  assert (Htc_par : prefix tc par = false).
  { destruct (prefix tc par) eqn:E; [|reflexivity]. rewrite (prefix_trans t0 tc par) in Hpar0; [discriminate | unfold tc; apply prefix_app | exact E]. }
  assert (Hp_t0 : prefix p t0 = false).
  { unfold p, t0. rewrite <- (app_nil_r (par ++ [Tmp 0])), <- app_assoc. apply prefix_snoc_diff. exact Hx. }
  assert (Htc_t0 : prefix tc t0 = false) by (unfold tc; apply prefix_snoc_self_false).
  rewrite (L3 p Hp0). unfold fsyncD.
  destruct (look s0 p) as [np|] eqn:Elp; cbn [nfwp].
  - (* the target exists: exchange *)
    destruct (exchange_ok s3 tc p D np) as [s4 [C4 L4]]; [apply snoc_not_nil | apply snoc_not_nil | exact Htcp | exact Hptc | exact L3tc | rewrite (L3 p Hp0); exact Elp|].
    rewrite C4. cbn [nfwp].
    assert (L4par : look s4 par = Some D) by (rewrite L4, Hp_par, Htc_par, (L3 par Hpar0); exact Hpar).
    rewrite (fsyncD_ok _ _ L4par). cbn [nfwp].
    assert (L4t0 : look s4 t0 = Some D) by (rewrite L4, Hp_t0, Htc_t0; exact L3t0).
    rewrite (rmtree_ok s4 t0 (snoc_not_nil _ _) L4t0). exact I.
  - (* the target is free: rename *)
    assert (C4 : apply (Rename tc p) s3 = inl (renamed tc p s3)).
    { apply rename_dir_ok; [apply snoc_not_nil | apply snoc_not_nil | exact Htcp | unfold p; rewrite parent_snoc, (L3 par Hpar0); exact Hpar | exact L3tc | rewrite (L3 p Hp0); exact Elp]. }
    rewrite C4. cbn [nfwp]. set (s4 := renamed tc p s3).
    assert (L4par : look s4 par = Some D) by (unfold s4, renamed; cbn [look]; rewrite Hp_par, Htc_par, (L3 par Hpar0); exact Hpar).
    rewrite (fsyncD_ok _ _ L4par). cbn [nfwp].
    assert (L4t0 : look s4 t0 = Some D) by (unfold s4, renamed; cbn [look]; rewrite Hp_t0, Htc_t0; exact L3t0).
    rewrite (rmtree_ok s4 t0 (snoc_not_nil _ _) L4t0). exact I.
Qed.

(* ------------------------------------------------------------------ why the cache side conditions are needed *)
(* The weak invariant and the data view do not say anything about reserved paths.  Two well-formed trees on which
   a FAULT-FREE item upload raises: (1) `.Radicale.cache` of the collection is a regular file: the item is stored,
   then os.makedirs of the cache folder fails -> ValueError (the PUT is answered 400 although the item changed);
   (2) a left-over temp directory with the name mkdtemp would pick (the model numbers temp names per run from 0;
   the real mkdtemp retries with another random name, so (2) is an artefact of the numbering, excluded by
   `tmp_free` / by numbering residue from 1000 in the harness). *)
Definition bad_cal : path := [Root; Safe 2; Safe 3].
Definition bad_fs1 : fs := init_fs [([], D); ([Root], D); ([Root; Safe 2], D); (bad_cal, D); (bad_cal ++ [Cache], F 5)].
Definition bad_fs2 : fs := init_fs [([], D); ([Root], D); ([Root; Safe 2], D); (bad_cal, D); (bad_cal ++ [Tmp 0], D)].
Definition lay0 : layout := {| l_item := false; l_hist := false |}.

Example upload_raises_when_cache_is_a_file :
  fs_inv_weak bad_fs1 /\ look bad_fs1 bad_cal = Some D
  /\ snd (machine_run no_fault (unit_prog lay0 (UUpload bad_cal (Safe 4) 9 [])) (start bad_fs1)) = OExn EVal
  /\ look (c_st (fst (machine_run no_fault (unit_prog lay0 (UUpload bad_cal (Safe 4) 9 [])) (start bad_fs1)))) (bad_cal ++ [Safe 4]) = Some (F 9).
Proof. split; [apply init_fs_inv; reflexivity|]. vm_compute. repeat split. Qed.

Example upload_raises_on_temp_name_clash :
  fs_inv_weak bad_fs2
  /\ snd (machine_run no_fault (unit_prog lay0 (UUpload bad_cal (Safe 4) 9 [])) (start bad_fs2)) = OExn EVal
  /\ look (c_st (fst (machine_run no_fault (unit_prog lay0 (UUpload bad_cal (Safe 4) 9 [])) (start bad_fs2)))) (bad_cal ++ [Safe 4]) = None.
Proof. split; [apply init_fs_inv; reflexivity|]. vm_compute. repeat split. Qed.
