(* C04: `_verify_user` is off exactly for the auth type "none"; consequences for every other auth type. *)
From Coq Require Import List NArith Bool String.
Import ListNotations.
Require Import RV.Lib.PyStr RV.Model.Path RV.Model.Rights.
Require Import RV.Proofs.PyStrLemmas RV.Proofs.PathProofs RV.Proofs.RightsProofs RV.Proofs.GenEqRightsVerify.
Require RV.Gen.RightsGen RV.Gen.RightsVerifyGen.
Open Scope list_scope. Open Scope N_scope.

Lemma c04_verify_user : forall t, RightsVerifyGen.verify_user t = false <-> t = Some (str "none").
Proof.
  intros t. rewrite Gen_verify_user_eq. unfold verify_user. destruct t as [t|].
  - rewrite negb_false_iff, eqs_eq. split; [intros ->; reflexivity|intros H; inversion H; reflexivity].
  - split; discriminate.
Qed.

Lemma verify_user_on : forall t, t <> Some (str "none") -> RightsVerifyGen.verify_user t = true.
Proof.
  intros t Ht. destruct (RightsVerifyGen.verify_user t) eqn:E; [reflexivity|].
  apply c04_verify_user in E. contradiction.
Qed.

(* with EVERY auth type other than "none" (htpasswd, remote_user, http_x_remote_user, ldap, a custom module, a callable ...)
   the anonymous user gets nothing, on every path *)
Lemma c04_anonymous_nothing_auth : forall t p, t <> Some (str "none") ->
  RightsGen.authorization_owner_only (RightsVerifyGen.verify_user t) [] p = []
  /\ RightsGen.authorization_owner_write (RightsVerifyGen.verify_user t) [] p = []
  /\ RightsGen.authorization_authenticated (RightsVerifyGen.verify_user t) [] p = [].
Proof. intros t p Ht. rewrite (verify_user_on t Ht). apply c04_anonymous_nothing. Qed.

(* ... and owner_only grants nothing inside another user's home *)
Lemma c04_no_foreign_home_auth : forall t u o rest tr, t <> Some (str "none") -> Forall safe (o :: rest) ->
  (tr = [] \/ tr = [slash]) -> o <> u ->
  RightsGen.authorization_owner_only (RightsVerifyGen.verify_user t) u (render (o :: rest) ++ tr) = [].
Proof. intros t u o rest tr Ht. rewrite (verify_user_on t Ht). apply c04_no_foreign_home. Qed.

Example ex_verify_user :
  RightsVerifyGen.verify_user (Some (str "none")) = false /\ RightsVerifyGen.verify_user (Some (str "remote_user")) = true
  /\ RightsVerifyGen.verify_user (Some (str "http_x_remote_user")) = true /\ RightsVerifyGen.verify_user (Some (str "htpasswd")) = true
  /\ RightsVerifyGen.verify_user (Some (str "None")) = true /\ RightsVerifyGen.verify_user (Some []) = true
  /\ RightsVerifyGen.verify_user None = true.   (* a callable auth plugin: verification stays on *)
Proof. vm_compute. repeat split. Qed.
