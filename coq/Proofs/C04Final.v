(* C04: the statements of Props/C04.v that combine the layers:
   from_file's section loop (FromFileProofs) + regex matcher = declarative language (RegexMatchProofs). *)
From Coq Require Import List NArith Bool String.
Import ListNotations.
Require Import RV.Lib.PyStr RV.Model.Path RV.Model.Regex RV.Model.FromFile.
Require Import RV.Proofs.PyStrLemmas RV.Proofs.RegexMatchProofs RV.Proofs.RegexEscapeProofs RV.Proofs.FromFileProofs.
Open Scope list_scope. Open Scope N_scope.

(* ---- what a "yes" / "no" of the model of re.fullmatch means ---- *)
Lemma fullmatch_py_yes : forall p s gs,
  fullmatch_py p s = FmYes gs ->
  exists r g c, compile p = Ok (r, g) /\ fullmatch_fuel (default_fuel r s) r s = MOk c
                /\ gs = groups_of g c /\ M r s.
Proof.
  intros p s gs H. unfold fullmatch_py in H.
  destruct (compile p) as [[r g]| |] eqn:Ec; try discriminate.
  destruct (uses_cat r && negb (is_ascii s)); [discriminate|].
  destruct (fullmatch_fuel (default_fuel r s) r s) as [| |c] eqn:Em; try discriminate.
  inversion H; subst. exists r, g, c. repeat split; try reflexivity; [exact Em|].
  exact (fullmatch_sound _ _ _ _ Em).
Qed.

Lemma fullmatch_py_no : forall p s,
  fullmatch_py p s = FmNo -> exists r g, compile p = Ok (r, g) /\ ~ M r s.
Proof.
  intros p s H. unfold fullmatch_py in H.
  destruct (compile p) as [[r g]| |] eqn:Ec; try discriminate.
  destruct (uses_cat r && negb (is_ascii s)); [discriminate|].
  destruct (fullmatch_fuel (default_fuel r s) r s) as [| |c] eqn:Em; try discriminate.
  exists r, g. split; [reflexivity|]. exact (fullmatch_complete _ _ _ Em).
Qed.

(* the collection pattern of a section, instantiated for a user whose match produced captures `cu` *)
Definition instantiate (cpat : pystr) (gu : N) (cu : caps) (u : pystr) : res pystr :=
  format (map (fun g => escape (group_text g)) (groups_of gu cu)) (Some (escape u)) cpat.

(* A section matches  ==>  its user pattern matches the user name IN FULL and its collection pattern,
   with the escaped user name and the escaped captured groups substituted, matches the stripped path IN FULL. *)
Lemma section_match_spec : forall sec u sp,
  eval_section sec u sp = SMatch ->
  exists cpat up ru gu cu cp rc gc,
    s_coll sec = Some cpat /\ user_pattern_of sec <> [] /\
    format [] None (user_pattern_of sec) = Ok up /\ compile up = Ok (ru, gu) /\
    fullmatch_fuel (default_fuel ru u) ru u = MOk cu /\ M ru u /\
    instantiate cpat gu cu u = Ok cp /\ compile cp = Ok (rc, gc) /\ M rc sp.
Proof.
  intros sec u sp H. unfold eval_section in H.
  destruct (s_coll sec) as [cpat|] eqn:Ecoll; [|discriminate].
  destruct (user_pattern_of sec) as [|x upat] eqn:Eup; [discriminate|]. cbn [nonempty negb] in H.
  destruct (format [] None (x :: upat)) as [up| |] eqn:Ef; try discriminate.
  destruct (fullmatch_py up u) as [|gs| | |] eqn:Eu; try discriminate.
  destruct (format (map (fun g => escape (group_text g)) gs) (Some (escape u)) cpat) as [cp| |] eqn:Ef2; try discriminate.
  destruct (fullmatch_py cp sp) as [|gs2| | |] eqn:Ec; try discriminate.
  destruct (fullmatch_py_yes _ _ _ Eu) as (ru & gu & cu & Hcu & Hmu & -> & HMu).
  destruct (fullmatch_py_yes _ _ _ Ec) as (rc & gc & cc & Hcc & Hmc & _ & HMc).
  exists cpat, up, ru, gu, cu, cp, rc, gc.
  repeat split; try assumption; try reflexivity. discriminate.
Qed.

(* A section is skipped  ==>  it has no user pattern, or the user name is not in the language of the user
   pattern, or it is but the stripped path is not in the language of the instantiated collection pattern. *)
Lemma section_skipped_spec : forall sec u sp,
  eval_section sec u sp = SNoMatch ->
  exists cpat, s_coll sec = Some cpat /\
    (user_pattern_of sec = []
     \/ exists up ru gu, format [] None (user_pattern_of sec) = Ok up /\ compile up = Ok (ru, gu) /\
          (~ M ru u
           \/ exists cu cp rc gc, fullmatch_fuel (default_fuel ru u) ru u = MOk cu /\
                instantiate cpat gu cu u = Ok cp /\ compile cp = Ok (rc, gc) /\ ~ M rc sp)).
Proof.
  intros sec u sp H. unfold eval_section in H.
  destruct (s_coll sec) as [cpat|] eqn:Ecoll; [|discriminate].
  exists cpat. split; [reflexivity|].
  destruct (user_pattern_of sec) as [|x upat] eqn:Eup; [left; reflexivity|right]. cbn [nonempty negb] in H.
  destruct (format [] None (x :: upat)) as [up| |] eqn:Ef; try discriminate.
  destruct (fullmatch_py up u) as [|gs| | |] eqn:Eu; try discriminate.
  - destruct (fullmatch_py_no _ _ Eu) as (ru & gu & Hc & Hn). exists up, ru, gu. repeat split; try assumption. left; exact Hn.
  - destruct (format (map (fun g => escape (group_text g)) gs) (Some (escape u)) cpat) as [cp| |] eqn:Ef2; try discriminate.
    destruct (fullmatch_py cp sp) as [|gs2| | |] eqn:Ec; try discriminate.
    destruct (fullmatch_py_yes _ _ _ Eu) as (ru & gu & cu & Hcu & Hmu & -> & HMu).
    destruct (fullmatch_py_no _ _ Ec) as (rc & gc & Hcc & Hn).
    exists up, ru, gu. repeat split; try assumption. right. exists cu, cp, rc, gc. repeat split; assumption.
Qed.

(* ---- Rights.authorization of from_file, on the path as the request handler passes it ---- *)
Lemma c04_from_file : forall rules u p x,
  authorization rules u p = Perm x <->
  exists pre sec post, rules = pre ++ sec :: post
    /\ Forall (skipped u (strip_path p)) pre
    /\ eval_section sec u (strip_path p) = SMatch /\ s_perm sec = Some x.
Proof. intros. unfold authorization. apply from_file_first_match. Qed.

Lemma c04_from_file_deny : forall rules u p,
  authorization rules u p = Deny <-> Forall (skipped u (strip_path p)) rules.
Proof. intros. unfold authorization. apply from_file_deny. Qed.

Lemma c04_from_file_error : forall rules u p,
  authorization rules u p = Error <->
  exists pre sec post, rules = pre ++ sec :: post /\ Forall (skipped u (strip_path p)) pre
    /\ (eval_section sec u (strip_path p) = SError
        \/ (eval_section sec u (strip_path p) = SMatch /\ s_perm sec = None)).
Proof. intros. unfold authorization. apply from_file_error. Qed.

(* granted permissions always come from a section both of whose patterns match in full *)
Lemma c04_from_file_granted_means_full_match : forall rules u p x,
  authorization rules u p = Perm x ->
  exists sec cpat up ru gu cu cp rc gc,
    In sec rules /\ s_perm sec = Some x /\ s_coll sec = Some cpat /\
    format [] None (user_pattern_of sec) = Ok up /\ compile up = Ok (ru, gu) /\ M ru u /\
    fullmatch_fuel (default_fuel ru u) ru u = MOk cu /\
    instantiate cpat gu cu u = Ok cp /\ compile cp = Ok (rc, gc) /\ M rc (strip_path p).
Proof.
  intros rules u p x H. apply c04_from_file in H. destruct H as (pre & sec & post & -> & _ & Hm & Hp).
  destruct (section_match_spec _ _ _ Hm) as (cpat & up & ru & gu & cu & cp & rc & gc & H1 & _ & H3 & H4 & H5 & H6 & H7 & H8 & H9).
  exists sec, cpat, up, ru, gu, cu, cp, rc, gc.
  repeat split; try assumption. apply in_or_app. right. left. reflexivity.
Qed.

(* ---- the documented example rule "principal": user ".+", collection "{user}" ----
   whatever the user name contains, the rule reaches exactly the collection named like the user *)
Definition rule_principal (perms : pystr) : section :=
  Section (Some (str ".+")) (Some (str "{user}")) (Some perms).

Lemma principal_rule_exact : forall perms u sp,
  eval_section (rule_principal perms) u sp = SMatch -> sp = u.
Proof.
  intros perms u sp H.
  assert (E1 : eval_section (rule_principal perms) u sp =
    match fullmatch_py (str ".+") u with
    | FmYes gs =>
        match format (map (fun g => escape (group_text g)) gs) (Some (escape u)) (str "{user}") with
        | Ok cp => match fullmatch_py cp sp with
                   | FmErr => SError | FmUnsup => SUnsup | FmFuel => SFuel | FmNo => SNoMatch | FmYes _ => SMatch end
        | Err => SError | Unsup => SUnsup
        end
    | FmErr => SError | FmUnsup => SUnsup | FmFuel => SFuel | FmNo => SNoMatch
    end) by reflexivity.
  rewrite E1 in H. clear E1.
  destruct (fullmatch_py (str ".+") u) as [|gs| | |] eqn:Eu; try discriminate.
  rewrite format_user_hole in H. rewrite fullmatch_escape_exact in H.
  destruct (eqs sp u) eqn:E; [|discriminate]. apply eqs_eq in E. exact E.
Qed.

Lemma principal_rule_no_widening : forall perms u sp x,
  authorization_sections [rule_principal perms] u sp = Perm x -> sp = u.
Proof.
  intros perms u sp x H. apply from_file_first_match in H.
  destruct H as (pre & sec & post & Hr & _ & Hm & _).
  destruct pre as [|a pre]; cbn in Hr.
  - inversion Hr; subst. exact (principal_rule_exact _ _ _ Hm).
  - inversion Hr as [[Ha Hn]]. destruct pre; discriminate.
Qed.

Example principal_rule_metachar_user :
  authorization [rule_principal (str "RW")] (str ".*") (str "/alice/") = Deny
  /\ authorization [rule_principal (str "RW")] (str ".*") (str "/.*/") = Perm (str "RW")
  /\ authorization [rule_principal (str "RW")] (str "a|b") (str "/a/") = Deny
  /\ authorization [rule_principal (str "RW")] (str "bob") (str "/bobby/") = Deny
  /\ authorization [rule_principal (str "RW")] (str "bobby") (str "/bob/") = Deny
  /\ authorization [rule_principal (str "RW")] (str "") (str "/") = Deny.
Proof. vm_compute. repeat split. Qed.

(* a rule file in the style of /repo/rights (owner_only example); first match wins, later sections do not matter *)
Definition example_owner_only : list section :=
  [ Section (Some (str ".+")) (Some (str "")) (Some (str "R"));
    Section (Some (str ".+")) (Some (str "{user}")) (Some (str "RW"));
    Section (Some (str ".+")) (Some (str "{user}/[^/]+")) (Some (str "rw")) ].

Example example_owner_only_runs :
  authorization example_owner_only (str "tmp") (str "/") = Perm (str "R")
  /\ authorization example_owner_only (str "tmp") (str "/tmp/") = Perm (str "RW")
  /\ authorization example_owner_only (str "tmp") (str "/tmp/cal/") = Perm (str "rw")
  /\ authorization example_owner_only (str "tmp") (str "/tmp2/") = Deny
  /\ authorization example_owner_only (str "tmp") (str "/tmp/cal/x/") = Deny
  /\ authorization example_owner_only (str "") (str "/") = Deny
  /\ authorization example_owner_only (str ".+") (str "/tmp/cal/") = Deny.
Proof. vm_compute. repeat split. Qed.

(* hypotheses of section_match_spec / section_skipped_spec are satisfiable *)
Example section_match_example :
  eval_section (Section (Some (str ".+@([^@]+)")) (Some (str "{0}/[^/]+")) (Some (str "r")))
               (str "bob@example.com") (str "example.com/cal") = SMatch
  /\ eval_section (Section (Some (str ".+@([^@]+)")) (Some (str "{0}/[^/]+")) (Some (str "r")))
               (str "bob@example.com") (str "examplexcom/cal") = SNoMatch
  /\ eval_section (Section (Some (str "(bob)|(alice)")) (Some (str ".*")) (Some (str "r"))) (str "alice") (str "x") = SMatch
  /\ eval_section (Section (Some (str "(")) (Some (str ".*")) (Some (str "r"))) (str "alice") (str "x") = SError
  /\ eval_section (Section (Some (str ".*")) None (Some (str "r"))) (str "alice") (str "x") = SError.
Proof. vm_compute. repeat split. Qed.
