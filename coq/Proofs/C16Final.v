(* C16 -- witnesses: the pinned code (before the fixes) violates the tables (F3, F4); the known finding F14;
   non-vacuity examples for the hypotheses of the theorems. *)
From Coq Require Import ZArith List Bool Lia.
Import ListNotations.
Require Import RV.Model.Rfc4791 RV.Model.Filter RV.Proofs.C16Xt RV.Proofs.C16Loop RV.Proofs.C16Rows
        RV.Proofs.C16Tables RV.Proofs.C16Hull.
Open Scope Z_scope.

Ltac closed := vm_compute; repeat split; try reflexivity; try discriminate; try (intros H; discriminate H); try congruence.

(* 2024-01-10T00:00:00Z *)
Definition J10 : Z := 1704844800.

(* F3: DTSTART 2024-01-10T00:00Z, DURATION P1D; range 12:00-13:00 that day *)
Definition f3_event : vevent := {| ev_kind := KDateTime; ev_start := J10; ev_end := EDuration 86400; ev_rec := None |}.
Definition f3_range : trange := (Some (J10 + 43200), Some (J10 + 46800)).

Lemma legacy_F3_refuted :
  exists ev r D, wf_vevent ev /\ occurs (ev_start ev) (ev_rec ev) D
                 /\ vevent_row ev D (tr_start r) (tr_end r) = true
                 /\ ov (tr_start r) (tr_end r) (vevent_calls_legacy ev false D) = false.
Proof.
  exists f3_event, f3_range, J10. split; [|split; [|split]].
  - closed.
  - reflexivity.
  - vm_compute. reflexivity.
  - vm_compute. reflexivity.
Qed.

(* F4: CREATED Jan 1, COMPLETED Jan 10, no DTSTART/DUE; range Jan 3 - Jan 5 *)
Definition f4_todo : vtodo :=
  {| td_dtstart := None; td_duration := None; td_due := None; td_completed := Some J10;
     td_created := Some (J10 - 9 * 86400); td_rec := None |}.
Definition f4_range : trange := (Some (J10 - 7 * 86400), Some (J10 - 5 * 86400)).

Lemma legacy_F4_refuted :
  exists t r, wf_vtodo t /\ rfc_overlaps_vtodo t r
              (* the pinned code takes COMPLETED as reference date *)
              /\ ov (tr_start r) (tr_end r) (vtodo_calls_legacy t false J10) = false.
Proof.
  exists f4_todo, f4_range. split; [|split].
  - closed.
  - exists (J10 - 9 * 86400). split; [reflexivity|]. vm_compute. reflexivity.
  - vm_compute. reflexivity.
Qed.

(* F14 (known finding, not repaired): unbounded daily VTODO with DUE = DTSTART; the visitor hands out a range that
   begins one second before the enclosing range computed by find_time_range *)
Definition f14_todo : vtodo :=
  {| td_dtstart := Some J10; td_duration := None; td_due := Some J10; td_completed := None; td_created := None;
     td_rec := Some {| rc_rule := {| r_freq := Daily; r_interval := 1; r_bound := RForever |}; rc_ex := [] |} |}.

Lemma hull_F14_refuted :
  exists o c a b, wf_obj o /\ f14_class o /\ visited o c
                  /\ find_time_range (hull_fuel o) o = Some (a, b) /\ xle a (c_s c) = false.
Proof.
  exists (OTodo f14_todo), (fcall (J10 - 1) J10 false), (Fin J10), PInf. split; [|split; [|split; [|split]]].
  - closed.
  - vm_compute. split; [reflexivity|right; split; reflexivity].
  - exists J10. split.
    + exists 0. closed.
    + vm_compute. right. right. left. reflexivity.
  - vm_compute. reflexivity.
  - vm_compute. reflexivity.
Qed.

(* ------------------------------------------------------------------ non-vacuity *)
Definition ex_event : vevent :=
  {| ev_kind := KDateTime; ev_start := J10; ev_end := EDtend (J10 + 3600);
     ev_rec := Some {| rc_rule := {| r_freq := Weekly; r_interval := 2; r_bound := RForever |}; rc_ex := [J10 + 1209600] |} |}.
Definition ex_range : trange := (Some (J10 + 2419200 + 1800), None).

Example hypotheses_satisfiable :
  wf_obj (OEvent ex_event) /\ ~ f14_class (OEvent ex_event) /\ tr_bounded ex_range = true
  /\ tr_proper ex_range = true
  /\ time_range_match (match_fuel (OEvent ex_event) ex_range) (OEvent ex_event) ex_range = Some true
  /\ time_range_match (match_fuel (OEvent ex_event) (Some (J10 + 1209600), Some (J10 + 1209600 + 3600)))
       (OEvent ex_event) (Some (J10 + 1209600), Some (J10 + 1209600 + 3600)) = Some false.
Proof.
  split; [|split; [|split; [|split; [|split]]]].
  - closed.
  - intros H. exact H.
  - reflexivity.
  - reflexivity.
  - vm_compute. reflexivity.
  - vm_compute. reflexivity.
Qed.

Example todo_hypotheses_satisfiable :
  wf_obj (OTodo f4_todo) /\ tr_proper f4_range = true
  /\ time_range_match (match_fuel (OTodo f4_todo) f4_range) (OTodo f4_todo) f4_range = Some true.
Proof.
  split; [|split].
  - closed.
  - reflexivity.
  - vm_compute. reflexivity.
Qed.

(* ------------------------------------------------------------------ non-vacuity of the shortcut theorems *)
Require Import RV.Proofs.C16Shortcut RV.Proofs.C16Fill RV.Proofs.C16FreeBusy.

Definition std_fuel (it : item) (r : trange) : nat := match_fuel (it_obj it) r.
Definition ex_item : item :=
  {| it_comp := NEvent; it_obj := OEvent ex_event; it_range := (Fin J10, PInf); it_id := 0 |}.
Definition ex_item2 : item :=
  {| it_comp := NTodo; it_obj := OTodo f4_todo; it_range := (Fin (J10 - 9 * 86400 - 1), Fin (J10 + 1)); it_id := 1 |}.

Example item_ok_satisfiable : Forall (item_ok std_fuel) [ex_item; ex_item2].
Proof.
  apply Forall_cons; [|apply Forall_cons; [|apply Forall_nil]];
    (split; [reflexivity|split; [closed|split; [intros H; exact H|split; [vm_compute; reflexivity|intros r; apply le_n]]]]).
Qed.

Example shortcut_premises_satisfiable :
  let q := q_plain (U NCal) {| rn_upper := NEvent; rn_is_upper := false |} ex_range [] in   (* name="vevent" *)
  ranges_ok q /\
  reference (fun _ _ => true) std_fuel q [ex_item; ex_item2] = Some [ex_item] /\
  report (fun _ _ => true) std_fuel q [ex_item; ex_item2] = Some [ex_item].
Proof.
  cbv zeta. split; [|split].
  - intros f [<-|[]] n ch [Heq|[]]. inversion Heq; subst. intros t ch2 [Heq2|[]]. inversion Heq2; subst.
    intros r' [Heq3|[]]. inversion Heq3; subst. intros _. reflexivity.
  - vm_compute. reflexivity.
  - vm_compute. reflexivity.
Qed.
