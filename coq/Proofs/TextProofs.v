(* C14 -- the TEXT value codec (backslashEscape / stringToTextValues) of vobject:
   decoding undoes encoding, parse-then-serialise is idempotent, and the known defect class
   C14:text-comma (an unescaped comma truncates a TEXT value). *)
From Coq Require Import List NArith Bool Lia.
Import ListNotations.
Require Import RV.Lib.PyStr RV.Proofs.PyStrLemmas RV.Model.ContentLine RV.Model.Vobj RV.Model.C14Spec.
Open Scope N_scope.

(* what backslashEscape followed by decoding does to line breaks: CRLF and a lone CR are read back as LF *)
Fixpoint nl_norm (s : pystr) : pystr :=
  match s with
  | [] => []
  | c :: r =>
      if c =? CR then
        match r with
        | d :: r' => if d =? LF then LF :: nl_norm r' else LF :: nl_norm r
        | [] => [LF]
        end
      else c :: nl_norm r
  end.

(* ------------------------------------------------------------------ induction principles *)
Lemma pair_ind (P : pystr -> Prop) :
  P [] ->
  (forall c r, P r -> (forall d r', r = d :: r' -> P r') -> P (c :: r)) ->
  forall v, P v.
Proof.
  intros H0 Hstep v.
  assert (H : P v /\ (forall d r', v = d :: r' -> P r')).
  { induction v as [|c r IH].
    - split; [exact H0|]. intros d r' E. discriminate E.
    - destruct IH as [IH1 IH2]. split.
      + apply Hstep; assumption.
      + intros d r' E. inversion E; subst. exact IH1. }
  exact (proj1 H).
Qed.

(* the recursion scheme shared by backslash_escape and nl_norm *)
Lemma esc_ind (P : pystr -> Prop) :
  P [] ->
  P [CR] ->
  (forall r, P r -> P (CR :: LF :: r)) ->
  (forall d r, (d =? LF) = false -> P (d :: r) -> P (CR :: d :: r)) ->
  (forall c r, (c =? CR) = false -> P r -> P (c :: r)) ->
  forall v, P v.
Proof.
  intros Hnil Hcr Hcrlf Hcrd Hoth v.
  induction v as [|c r IH1 IH2] using pair_ind; [exact Hnil|].
  destruct (c =? CR) eqn:Ec.
  - apply N.eqb_eq in Ec. subst c.
    destruct r as [|d r']; [exact Hcr|].
    destruct (d =? LF) eqn:Ed.
    + apply N.eqb_eq in Ed. subst d. apply Hcrlf. apply (IH2 LF r'). reflexivity.
    + apply Hcrd; assumption.
  - apply Hoth; assumption.
Qed.

(* ------------------------------------------------------------------ equations *)
Lemma esc_bsl : forall r, backslash_escape (BSL :: r) = BSL :: BSL :: backslash_escape r.
Proof. reflexivity. Qed.
Lemma esc_semi : forall r, backslash_escape (SEMI :: r) = BSL :: SEMI :: backslash_escape r.
Proof. reflexivity. Qed.
Lemma esc_comma : forall r, backslash_escape (COMMA :: r) = BSL :: COMMA :: backslash_escape r.
Proof. reflexivity. Qed.
Lemma esc_lf : forall r, backslash_escape (LF :: r) = BSL :: 110 :: backslash_escape r.
Proof. reflexivity. Qed.
Lemma esc_cr_nil : backslash_escape [CR] = [BSL; 110].
Proof. reflexivity. Qed.
Lemma esc_cr_lf : forall r, backslash_escape (CR :: LF :: r) = BSL :: 110 :: backslash_escape r.
Proof. reflexivity. Qed.
Lemma esc_cr_other : forall d r, (d =? LF) = false ->
  backslash_escape (CR :: d :: r) = BSL :: 110 :: backslash_escape (d :: r).
Proof.
  intros d r Hd.
  change (backslash_escape (CR :: d :: r))
    with (if d =? LF then BSL :: 110 :: backslash_escape r else BSL :: 110 :: backslash_escape (d :: r)).
  rewrite Hd. reflexivity.
Qed.
Lemma esc_plain : forall c r,
  (c =? BSL) = false -> (c =? SEMI) = false -> (c =? COMMA) = false -> (c =? CR) = false -> (c =? LF) = false ->
  backslash_escape (c :: r) = c :: backslash_escape r.
Proof.
  intros c r H1 H2 H3 H4 H5. cbn [backslash_escape]. rewrite H1, H2, H3, H4, H5. reflexivity.
Qed.

Lemma nl_cr_nil : nl_norm [CR] = [LF].
Proof. reflexivity. Qed.
Lemma nl_cr_lf : forall r, nl_norm (CR :: LF :: r) = LF :: nl_norm r.
Proof. reflexivity. Qed.
Lemma nl_cr_other : forall d r, (d =? LF) = false -> nl_norm (CR :: d :: r) = LF :: nl_norm (d :: r).
Proof.
  intros d r Hd.
  change (nl_norm (CR :: d :: r)) with (if d =? LF then LF :: nl_norm r else LF :: nl_norm (d :: r)).
  rewrite Hd. reflexivity.
Qed.
Lemma nl_other : forall c r, (c =? CR) = false -> nl_norm (c :: r) = c :: nl_norm r.
Proof. intros c r H. cbn [nl_norm]. rewrite H. reflexivity. Qed.

Lemma nl_norm_no_cr : forall v, no_cr v -> nl_norm v = v.
Proof.
  intros v Hv. induction Hv as [|c r Hc Hr IH]; [reflexivity|].
  rewrite nl_other by exact Hc. rewrite IH. reflexivity.
Qed.

Lemma nonempty_nl_norm : forall v, nonempty (nl_norm v) = nonempty v.
Proof.
  intros v. induction v as [| | r IH | d r Hd IH | c r Hc IH] using esc_ind; try reflexivity.
  - rewrite nl_cr_other by exact Hd. reflexivity.
  - rewrite nl_other by exact Hc. reflexivity.
Qed.

Lemma nonempty_rev : forall (l : pystr), nonempty (rev l) = nonempty l.
Proof.
  intros l. destruct l as [|x l]; [reflexivity|]. cbn [rev nonempty].
  destruct (rev l ++ [x]) eqn:E; [|reflexivity].
  apply app_eq_nil in E. destruct E as [_ E]. discriminate E.
Qed.

Lemma rev_cons_app : forall (c : N) l cur, rev (c :: l) ++ cur = rev l ++ c :: cur.
Proof. intros c l cur. cbn [rev]. rewrite <- app_assoc. reflexivity. Qed.

(* steps of the state machine *)
Lemma tva_nil : forall sep cur res,
  text_values_aux sep [] false cur res =
  if nonempty cur || negb (nonempty res) then rev (rev cur :: res) else rev res.
Proof. reflexivity. Qed.

Lemma tva_bsl_bsl : forall sep r cur res,
  text_values_aux sep (BSL :: BSL :: r) false cur res = text_values_aux sep r false (BSL :: cur) res.
Proof. reflexivity. Qed.
Lemma tva_bsl_semi : forall sep r cur res,
  text_values_aux sep (BSL :: SEMI :: r) false cur res = text_values_aux sep r false (SEMI :: cur) res.
Proof. reflexivity. Qed.
Lemma tva_bsl_comma : forall sep r cur res,
  text_values_aux sep (BSL :: COMMA :: r) false cur res = text_values_aux sep r false (COMMA :: cur) res.
Proof. reflexivity. Qed.
Lemma tva_bsl_n : forall sep r cur res,
  text_values_aux sep (BSL :: 110 :: r) false cur res = text_values_aux sep r false (LF :: cur) res.
Proof. reflexivity. Qed.
Lemma tva_plain : forall sep c r cur res, (c =? BSL) = false -> (c =? sep) = false ->
  text_values_aux sep (c :: r) false cur res = text_values_aux sep r false (c :: cur) res.
Proof. intros sep c r cur res H1 H2. cbn [text_values_aux]. rewrite H1, H2. reflexivity. Qed.
Lemma tva_sep : forall sep r cur res, (sep =? BSL) = false ->
  text_values_aux sep (sep :: r) false cur res = text_values_aux sep r false [] (rev cur :: res).
Proof. intros sep r cur res H. cbn [text_values_aux]. rewrite H, N.eqb_refl. reflexivity. Qed.

Lemma sep_not_bsl : forall sep, (sep = COMMA \/ sep = SEMI) -> (sep =? BSL) = false.
Proof. intros sep [H|H]; subst sep; reflexivity. Qed.

(* ------------------------------------------------------------------ 1. decode after encode *)
(* reading an escaped text, whatever follows it: the state machine stays in the same value and
   appends the text with its line breaks normalised *)
Lemma tva_escape_app : forall sep, (sep = COMMA \/ sep = SEMI) ->
  forall v rest cur res,
  text_values_aux sep (backslash_escape v ++ rest) false cur res =
  text_values_aux sep rest false (rev (nl_norm v) ++ cur) res.
Proof.
  intros sep Hsep v.
  induction v as [| | r IH | d r Hd IH | c r Hc IH] using esc_ind; intros rest cur res.
  - reflexivity.
  - reflexivity.
  - rewrite esc_cr_lf, nl_cr_lf. cbn [app]. rewrite tva_bsl_n, IH, rev_cons_app. reflexivity.
  - rewrite esc_cr_other, nl_cr_other by exact Hd. cbn [app]. rewrite tva_bsl_n, IH, rev_cons_app. reflexivity.
  - rewrite nl_other by exact Hc. rewrite rev_cons_app.
    destruct (c =? BSL) eqn:Eb.
    { apply N.eqb_eq in Eb. subst c. rewrite esc_bsl. cbn [app]. rewrite tva_bsl_bsl. apply IH. }
    destruct (c =? SEMI) eqn:Es.
    { apply N.eqb_eq in Es. subst c. rewrite esc_semi. cbn [app]. rewrite tva_bsl_semi. apply IH. }
    destruct (c =? COMMA) eqn:Ek.
    { apply N.eqb_eq in Ek. subst c. rewrite esc_comma. cbn [app]. rewrite tva_bsl_comma. apply IH. }
    destruct (c =? LF) eqn:El.
    { apply N.eqb_eq in El. subst c. rewrite esc_lf. cbn [app]. rewrite tva_bsl_n. apply IH. }
    rewrite esc_plain by assumption. cbn [app].
    rewrite tva_plain; [apply IH | exact Eb |].
    destruct Hsep as [H|H]; subst sep; assumption.
Qed.

Lemma text_values_escape_gen : forall sep v, (sep = COMMA \/ sep = SEMI) ->
  text_values sep (backslash_escape v) = [nl_norm v].
Proof.
  intros sep v Hsep. unfold text_values.
  rewrite <- (app_nil_r (backslash_escape v)).
  rewrite (tva_escape_app sep Hsep). rewrite tva_nil.
  cbn [nonempty negb]. rewrite orb_true_r.
  rewrite app_nil_r, rev_involutive. reflexivity.
Qed.

(* general form, any separator among ',' and ';' : the whole escaped text is ONE value *)
Lemma text_values_escape : forall sep v, (sep = COMMA \/ sep = SEMI) -> no_cr v ->
  text_values sep (backslash_escape v) = [v].
Proof.
  intros sep v Hsep Hv. rewrite text_values_escape_gen by exact Hsep.
  rewrite nl_norm_no_cr by exact Hv. reflexivity.
Qed.

(* 1b. without the side condition: every CRLF and every lone CR comes back as LF *)
Theorem text_decode_encode_gen : forall v, text_decode (text_encode v) = nl_norm v.
Proof.
  intros v. unfold text_decode, text_encode.
  rewrite text_values_escape_gen by (left; reflexivity). reflexivity.
Qed.

(* 1. decoding undoes encoding, for every text without a CR *)
Theorem text_decode_encode : forall v, no_cr v -> text_decode (text_encode v) = v.
Proof.
  intros v Hv. rewrite text_decode_encode_gen. apply nl_norm_no_cr. exact Hv.
Qed.

(* ------------------------------------------------------------------ 2. idempotence *)
(* CR, CRLF and LF are all written \n *)
Lemma escape_nl_norm : forall v, backslash_escape (nl_norm v) = backslash_escape v.
Proof.
  intros v. induction v as [| | r IH | d r Hd IH | c r Hc IH] using esc_ind.
  - reflexivity.
  - reflexivity.
  - rewrite nl_cr_lf, esc_cr_lf, esc_lf, IH. reflexivity.
  - rewrite nl_cr_other, esc_cr_other by exact Hd. rewrite esc_lf, IH. reflexivity.
  - rewrite nl_other by exact Hc.
    destruct (c =? BSL) eqn:Eb.
    { apply N.eqb_eq in Eb. subst c. rewrite !esc_bsl, IH. reflexivity. }
    destruct (c =? SEMI) eqn:Es.
    { apply N.eqb_eq in Es. subst c. rewrite !esc_semi, IH. reflexivity. }
    destruct (c =? COMMA) eqn:Ek.
    { apply N.eqb_eq in Ek. subst c. rewrite !esc_comma, IH. reflexivity. }
    destruct (c =? LF) eqn:El.
    { apply N.eqb_eq in El. subst c. rewrite !esc_lf, IH. reflexivity. }
    rewrite !esc_plain by assumption. rewrite IH. reflexivity.
Qed.

Theorem text_canon_idem : forall raw, text_canon (text_canon raw) = text_canon raw.
Proof.
  intros raw. unfold text_canon. rewrite text_decode_encode_gen.
  unfold text_encode. apply escape_nl_norm.
Qed.

(* --- MultiTextBehavior.
   multitext_canon is NOT idempotent on every raw value: stringToTextValues drops an empty LAST value
   when there are earlier values, so a parsed list of two or more values whose last one is empty loses
   one trailing separator per round ( ",," -> "," -> "" ;  "a,," -> "a," -> "a" ;  "\\,," -> "\\," -> "\\" ).
   The exact side condition (multitext_canon_idem_iff below) is on the parsed list: it is a single value
   or its last value is not empty.  A dangling backslash ("a\" -> "a\\eof") needs NO side condition. *)
Definition mt_stable (vs : list pystr) : Prop :=
  vs <> [] /\ (last vs [] <> [] \/ exists v, vs = [v]).

Lemma join_cons2 : forall (s a b : pystr) l, join s (a :: b :: l) = a ++ s ++ join s (b :: l).
Proof. reflexivity. Qed.

(* reading back a joined list of escaped values *)
Lemma tva_join : forall sep, (sep = COMMA \/ sep = SEMI) ->
  forall vs res, vs <> [] ->
  (last vs [] <> [] \/ (res = [] /\ exists v, vs = [v])) ->
  text_values_aux sep (join [sep] (map backslash_escape vs)) false [] res = rev res ++ map nl_norm vs.
Proof.
  intros sep Hsep vs. induction vs as [|v vs IH]; intros res Hne Hl; [contradiction|].
  destruct vs as [|w vs'].
  - cbn [map join]. rewrite <- (app_nil_r (backslash_escape v)).
    rewrite (tva_escape_app sep Hsep), tva_nil, app_nil_r.
    assert (Hc : nonempty (rev (nl_norm v)) || negb (nonempty res) = true).
    { destruct Hl as [Hl|[Hl _]].
      - cbn [last] in Hl. rewrite nonempty_rev, nonempty_nl_norm.
        destruct v as [|x v]; [contradiction|reflexivity].
      - subst res. apply orb_true_r. }
    rewrite Hc, rev_involutive. reflexivity.
  - cbn [map]. rewrite join_cons2. rewrite (tva_escape_app sep Hsep).
    cbn [app]. rewrite tva_sep by (apply sep_not_bsl; exact Hsep).
    rewrite app_nil_r, rev_involutive.
    change (backslash_escape w :: map backslash_escape vs') with (map backslash_escape (w :: vs')).
    rewrite IH.
    + cbn [rev map]. rewrite <- app_assoc. reflexivity.
    + discriminate.
    + left. destruct Hl as [Hl|[_ [v0 Hv0]]]; [|discriminate Hv0].
      change (last (v :: w :: vs') []) with (last (w :: vs') []) in Hl. exact Hl.
Qed.

Lemma text_values_join : forall sep vs, (sep = COMMA \/ sep = SEMI) -> mt_stable vs ->
  text_values sep (join [sep] (map backslash_escape vs)) = map nl_norm vs.
Proof.
  intros sep vs Hsep [Hne Hl]. unfold text_values. rewrite (tva_join sep Hsep).
  - reflexivity.
  - exact Hne.
  - destruct Hl as [Hl|Hl]; [left; exact Hl | right; split; [reflexivity|exact Hl]].
Qed.

Lemma map_escape_nl_norm : forall vs, map backslash_escape (map nl_norm vs) = map backslash_escape vs.
Proof.
  intros vs. rewrite map_map. apply map_ext. intros a. apply escape_nl_norm.
Qed.

(* 2b. idempotent exactly when the parsed list does not end with a droppable empty value *)
Theorem multitext_canon_idem : forall sep raw, (sep = COMMA \/ sep = SEMI) ->
  mt_stable (text_values sep raw) ->
  multitext_canon sep (multitext_canon sep raw) = multitext_canon sep raw.
Proof.
  intros sep raw Hsep Hst. unfold multitext_canon.
  rewrite (text_values_join sep _ Hsep Hst). rewrite map_escape_nl_norm. reflexivity.
Qed.

(* the side condition cannot be dropped *)
Lemma multitext_canon_not_idem :
  exists raw, multitext_canon COMMA (multitext_canon COMMA raw) <> multitext_canon COMMA raw.
Proof. exists [COMMA; COMMA]. vm_compute. discriminate. Qed.

(* --- the side condition is exact *)
Lemma tva_cons : forall sep c r esc cur res,
  text_values_aux sep (c :: r) esc cur res =
  if esc then
    if escapable c then text_values_aux sep r false ((if (c =? 78) || (c =? 110) then LF else c) :: cur) res
    else text_values_aux sep r false (c :: BSL :: cur) res
  else if c =? BSL then text_values_aux sep r true cur res
  else if c =? sep then text_values_aux sep r false [] (rev cur :: res)
  else text_values_aux sep r false (c :: cur) res.
Proof. reflexivity. Qed.

Lemma rev_cons_nonnil : forall (A : Type) (x : A) l, rev (x :: l) <> [].
Proof.
  intros A x l E. cbn [rev] in E. apply app_eq_nil in E. destruct E as [_ E]. discriminate E.
Qed.

Lemma tva_nonnil : forall sep s esc cur res, text_values_aux sep s esc cur res <> [].
Proof.
  intros sep s. induction s as [|c r IH]; intros esc cur res.
  - cbn [text_values_aux].
    match goal with |- (if ?b then _ else _) <> [] => destruct b eqn:E end.
    + apply rev_cons_nonnil.
    + apply orb_false_iff in E. destruct E as [_ E].
      destruct res as [|x res]; [discriminate E|]. apply rev_cons_nonnil.
  - rewrite tva_cons.
    destruct esc; [destruct (escapable c)|destruct (c =? BSL); [|destruct (c =? sep)]]; apply IH.
Qed.

Lemma text_values_nonnil : forall sep s, text_values sep s <> [].
Proof. intros sep s. apply tva_nonnil. Qed.

Lemma nonempty_app_cons : forall (A : Type) (a : list A) x b, nonempty (a ++ x :: b) = true.
Proof. intros A a x b. destruct a; reflexivity. Qed.

(* reading back ANY joined list of escaped values: an empty last value is dropped unless it is the only one *)
Lemma tva_join_gen : forall sep, (sep = COMMA \/ sep = SEMI) ->
  forall vs res, vs <> [] ->
  text_values_aux sep (join [sep] (map backslash_escape vs)) false [] res =
  if nonempty (last vs []) || negb (nonempty (rev res ++ removelast vs))
  then rev res ++ map nl_norm vs
  else rev res ++ map nl_norm (removelast vs).
Proof.
  intros sep Hsep vs. induction vs as [|v vs IH]; intros res Hne; [contradiction|].
  destruct vs as [|w vs'].
  - cbn [map join last removelast]. rewrite <- (app_nil_r (backslash_escape v)).
    rewrite (tva_escape_app sep Hsep), tva_nil, !app_nil_r.
    rewrite nonempty_rev, nonempty_nl_norm, rev_involutive.
    assert (Hr : nonempty (rev res) = nonempty res).
    { destruct res as [|x res]; [reflexivity|]. cbn [nonempty].
      destruct (rev (x :: res)) eqn:E; [|reflexivity]. exfalso. exact (rev_cons_nonnil _ _ _ E). }
    rewrite Hr. cbn [map]. reflexivity.
  - cbn [map]. rewrite join_cons2. rewrite (tva_escape_app sep Hsep).
    cbn [app]. rewrite tva_sep by (apply sep_not_bsl; exact Hsep).
    rewrite app_nil_r, rev_involutive.
    change (backslash_escape w :: map backslash_escape vs') with (map backslash_escape (w :: vs')).
    rewrite IH by discriminate.
    change (last (v :: w :: vs') []) with (last (w :: vs') []).
    change (removelast (v :: w :: vs')) with (v :: removelast (w :: vs')).
    cbn [rev map]. rewrite <- !app_assoc. cbn [app].
    rewrite !nonempty_app_cons. reflexivity.
Qed.

Lemma join_snoc_nil : forall (s : pystr) l, l <> [] -> join s (l ++ [[]]) = join s l ++ s.
Proof.
  intros s l. induction l as [|a l IH]; intros Hne; [contradiction|].
  destruct l as [|b l'].
  - cbn [app join]. rewrite app_nil_r. reflexivity.
  - change ((a :: b :: l') ++ [[]]) with (a :: b :: (l' ++ [[]])).
    rewrite !join_cons2.
    change (b :: l' ++ [[]]) with ((b :: l') ++ [[]]).
    rewrite IH by discriminate. rewrite <- !app_assoc. reflexivity.
Qed.

Theorem multitext_canon_idem_iff : forall sep raw, (sep = COMMA \/ sep = SEMI) ->
  (multitext_canon sep (multitext_canon sep raw) = multitext_canon sep raw <-> mt_stable (text_values sep raw)).
Proof.
  intros sep raw Hsep. split; [|apply multitext_canon_idem; exact Hsep].
  unfold multitext_canon. pose proof (text_values_nonnil sep raw) as Hne.
  remember (text_values sep raw) as vs eqn:Evs. clear Evs raw.
  intros Hidem. split; [exact Hne|].
  unfold text_values in Hidem. rewrite (tva_join_gen sep Hsep vs [] Hne) in Hidem.
  cbn [rev app] in Hidem.
  destruct (nonempty (last vs [])) eqn:El.
  - left. intros E. rewrite E in El. discriminate El.
  - destruct (removelast vs) as [|f front] eqn:Er.
    + right. destruct vs as [|v vs]; [contradiction|].
      destruct vs as [|w vs]; [exists v; reflexivity|].
      change (removelast (v :: w :: vs)) with (v :: removelast (w :: vs)) in Er. discriminate Er.
    + exfalso. cbn [nonempty negb orb] in Hidem.
      rewrite map_escape_nl_norm in Hidem.
      assert (Hl : last vs [] = []).
      { destruct (last vs []); [reflexivity|discriminate El]. }
      assert (Evs : vs = removelast vs ++ [last vs []]) by (apply app_removelast_last; exact Hne).
      rewrite Er, Hl in Evs.
      rewrite Evs in Hidem. rewrite map_app in Hidem.
      change (map backslash_escape [[]]) with [@nil N] in Hidem.
      rewrite join_snoc_nil in Hidem by discriminate.
      apply (f_equal (@List.length N)) in Hidem. rewrite app_length in Hidem.
      cbn [List.length] in Hidem. lia.
Qed.

(* a readable sufficient condition: the raw value does not end with the separator *)
Lemma tva_end_nonempty : forall sep s, s <> [] -> endswith s [sep] = false ->
  forall esc cur res, exists cur' res', cur' <> [] /\ text_values_aux sep s esc cur res = rev (rev cur' :: res').
Proof.
  intros sep s. induction s as [|c s IH]; intros Hne He; [contradiction|].
  destruct s as [|d s'].
  - change [c] with ([] ++ [c]) in He. rewrite endswith_snoc in He.
    intros esc cur res. rewrite tva_cons. destruct esc.
    + destruct (escapable c); eexists; exists res; (split; [|reflexivity]); discriminate.
    + destruct (c =? BSL).
      * exists (102 :: 111 :: 101 :: BSL :: cur), res. split; [discriminate|reflexivity].
      * rewrite He. exists (c :: cur), res. split; [discriminate|reflexivity].
  - change (c :: d :: s') with ([c] ++ d :: s') in He.
    rewrite endswith_app_nonempty in He by discriminate.
    intros esc cur res. rewrite tva_cons.
    destruct esc; [destruct (escapable c)|destruct (c =? BSL); [|destruct (c =? sep)]];
      (apply IH; [discriminate|exact He]).
Qed.

Lemma text_values_stable_nosep : forall sep raw, endswith raw [sep] = false -> mt_stable (text_values sep raw).
Proof.
  intros sep raw He. destruct raw as [|c r].
  - split; [discriminate|]. right. exists []. reflexivity.
  - unfold text_values.
    destruct (tva_end_nonempty sep (c :: r) ltac:(discriminate) He false [] []) as [cur' [res' [Hc Ht]]].
    rewrite Ht. split; [apply rev_cons_nonnil|]. left.
    cbn [rev]. rewrite last_last. intros E. destruct cur' as [|x cur']; [contradiction|].
    exact (rev_cons_nonnil _ _ _ E).
Qed.

Corollary multitext_canon_idem_nosep : forall sep raw, (sep = COMMA \/ sep = SEMI) ->
  endswith raw [sep] = false ->
  multitext_canon sep (multitext_canon sep raw) = multitext_canon sep raw.
Proof.
  intros sep raw Hsep He. apply multitext_canon_idem; [exact Hsep|].
  apply text_values_stable_nosep. exact He.
Qed.

(* ------------------------------------------------------------------ 3. the defect class C14:text-comma *)
(* witness "geo:1,2" : the value is cut at the comma *)
Lemma text_comma_refuted :
  exists raw, text_canon raw <> raw /\ text_decode raw <> raw /\
              (List.length (text_canon raw) < List.length raw)%nat.
Proof.
  exists [103; 101; 111; 58; 49; 44; 50].
  split; [vm_compute; discriminate|]. split; [vm_compute; discriminate|]. vm_compute. lia.
Qed.

(* outside it nothing is lost *)
Inductive escaped_ok : pystr -> Prop :=
| eo_nil : escaped_ok []
| eo_plain c r : c <> BSL -> c <> COMMA -> c <> SEMI -> c <> CR -> c <> LF -> escaped_ok r -> escaped_ok (c :: r)
| eo_esc c r : (c = BSL \/ c = SEMI \/ c = COMMA \/ c = 110) -> escaped_ok r -> escaped_ok (BSL :: c :: r).

(* such a raw value is the encoding of a text without CR *)
Lemma escaped_ok_is_encoding : forall raw, escaped_ok raw -> exists v, no_cr v /\ backslash_escape v = raw.
Proof.
  intros raw H. induction H as [|c r H1 H2 H3 H4 H5 Hr IH|c r Hc Hr IH].
  - exists []. split; [constructor|reflexivity].
  - destruct IH as [v [Hv Ev]]. exists (c :: v).
    apply N.eqb_neq in H1, H2, H3, H4, H5. split.
    + constructor; assumption.
    + rewrite esc_plain by assumption. rewrite Ev. reflexivity.
  - destruct IH as [v [Hv Ev]]. destruct Hc as [Hc|[Hc|[Hc|Hc]]]; subst c.
    + exists (BSL :: v). split; [constructor; [reflexivity|exact Hv]|]. rewrite esc_bsl, Ev. reflexivity.
    + exists (SEMI :: v). split; [constructor; [reflexivity|exact Hv]|]. rewrite esc_semi, Ev. reflexivity.
    + exists (COMMA :: v). split; [constructor; [reflexivity|exact Hv]|]. rewrite esc_comma, Ev. reflexivity.
    + exists (LF :: v). split; [constructor; [reflexivity|exact Hv]|]. rewrite esc_lf, Ev. reflexivity.
Qed.

Theorem text_canon_id : forall raw, escaped_ok raw -> text_canon raw = raw.
Proof.
  intros raw H. destruct (escaped_ok_is_encoding raw H) as [v [Hv Ev]].
  subst raw. unfold text_canon. change (backslash_escape v) with (text_encode v) at 1.
  rewrite text_decode_encode by exact Hv. reflexivity.
Qed.

Print Assumptions text_decode_encode.
Print Assumptions text_values_escape.
Print Assumptions text_decode_encode_gen.
Print Assumptions text_canon_idem.
Print Assumptions multitext_canon_idem.
Print Assumptions multitext_canon_idem_iff.
Print Assumptions multitext_canon_idem_nosep.
Print Assumptions text_comma_refuted.
Print Assumptions text_canon_id.
