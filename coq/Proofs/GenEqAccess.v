(* Tie T: the regenerated translation of app/base.py Access.check equals the hand model Model/Access.v *)
From Coq Require Import List NArith Bool String.
Import ListNotations.
Require Import RV.Lib.PyStr RV.Lib.Item RV.Model.Access.
Require RV.Gen.AccessGen RV.Gen.RightsGen.
Open Scope N_scope.

Lemma Gen_intersect_eq : forall a b, RightsGen.intersect a b = intersect_chars a b.
Proof. reflexivity. Qed.

Lemma Gen_access_check_eq : forall perms pperms path ppath permission item,
  AccessGen.access_check perms pperms path ppath permission item
  = access_check perms pperms (eqs path ppath) permission item.
Proof.
  intros. unfold AccessGen.access_check, access_check.
  destruct (negb (contains_sub permission (str "rwdDoO"))); [reflexivity|].
  destruct item as [|t|]; cbn [item_truthy item_is_collection item_tag negb].
  - rewrite !Gen_intersect_eq. reflexivity.
  - destruct (nonempty t); rewrite !Gen_intersect_eq; reflexivity.
  - rewrite !Gen_intersect_eq. reflexivity.
Qed.
