(* C14 -- the storage codec: all sites that carry client text use the configured storage charset (regenerated table, tie T);
   then writing, hashing and reading an item go through ONE charset and the file round trip is the identity. *)
From Coq Require Import List NArith Bool String.
Import ListNotations.
Require Import RV.Lib.PyStr RV.Proofs.PyStrLemmas RV.Model.ContentLine RV.Model.Vobj RV.Model.Codec.
Require RV.Gen.C14EncSites.
Open Scope N_scope.

(* the table regenerated from radicale/storage/multifilesystem/*.py *)
Lemma Gen_enc_sites_ok : sites_ok C14EncSites.sites = true.
Proof. vm_compute. reflexivity. Qed.

Lemma sites_ok_resolve : forall l stock dflt fixed s,
  sites_ok l = true -> In s l -> is_content_role (s_role s) = true -> resolve stock dflt fixed (s_enc s) = stock.
Proof.
  intros l stock dflt fixed s H Hin Hrole. unfold sites_ok in H. apply andb_true_iff in H as [H _].
  rewrite forallb_forall in H. specialize (H s Hin). rewrite Hrole in H. cbn in H.
  destruct (s_enc s); cbn in H; try discriminate; reflexivity.
Qed.

Lemma sites_ok_role_present : forall l r, sites_ok l = true -> is_content_role r = true -> exists s, In s l /\ s_role s = r.
Proof.
  intros l r H Hr. unfold sites_ok in H. apply andb_true_iff in H as [_ H]. rewrite forallb_forall in H.
  assert (Hin : In r [ItemWrite; ItemHash; ItemRead; PropsWrite; PropsRead]) by (destruct r; cbn in *; try discriminate; tauto).
  specialize (H r Hin). apply existsb_exists in H as [s [Hs E]]. exists s. split; [exact Hs|].
  destruct (s_role s), r; cbn in E; try discriminate; reflexivity.
Qed.

(* encode with c then decode with c' is the identity when c' = c ... *)
Theorem same_charset_roundtrip : forall c text, codec_ok c ->
  (forall b, file_bytes c text = Some b -> cold_text c c text = Some text /\ cache_valid c c text = true) /\
  (file_bytes c text = None -> cold_text c c text = None).
Proof.
  intros c text Hok. split.
  - intros b Hb. unfold file_bytes, cold_text, cache_valid in *. rewrite Hb. split; [apply Hok; exact Hb | apply eqs_refl].
  - intros Hn. unfold file_bytes, cold_text in *. rewrite Hn. reflexivity.
Qed.

(* ... and with the sites of the regenerated table every write, hash and read of an item (and of the properties file) IS
   through the configured charset, whatever the interpreter default is: the stored file, read cold, gives the uploaded
   text back, and the cache entry written at upload is valid for it; a text the charset cannot hold is refused. *)
Theorem storage_codec_identity : forall l stock dflt fixed w h r text,
  sites_ok l = true -> codec_ok stock ->
  In w l -> s_role w = ItemWrite -> In h l -> s_role h = ItemHash -> In r l -> s_role r = ItemRead ->
  let cw := resolve stock dflt fixed (s_enc w) in
  let ch := resolve stock dflt fixed (s_enc h) in
  let cr := resolve stock dflt fixed (s_enc r) in
  (forall b, file_bytes cw text = Some b -> cold_text cw cr text = Some text /\ cache_valid cw ch text = true) /\
  (enc stock text = None -> file_bytes cw text = None).
Proof.
  intros l stock dflt fixed w h r text Hok Hc Hw Rw Hh Rh Hr Rr cw ch cr.
  assert (Ew : cw = stock) by (apply (sites_ok_resolve l); [exact Hok|exact Hw|rewrite Rw; reflexivity]).
  assert (Eh : ch = stock) by (apply (sites_ok_resolve l); [exact Hok|exact Hh|rewrite Rh; reflexivity]).
  assert (Er : cr = stock) by (apply (sites_ok_resolve l); [exact Hok|exact Hr|rewrite Rr; reflexivity]).
  rewrite Ew, Eh, Er. split.
  - intros b Hb. exact (proj1 (same_charset_roundtrip stock text Hc) b Hb).
  - intros Hn. exact Hn.
Qed.

(* the hypotheses are met by the real table: it has a write, a hash and a read site *)
Lemma real_sites_present :
  (exists w, In w C14EncSites.sites /\ s_role w = ItemWrite) /\ (exists h, In h C14EncSites.sites /\ s_role h = ItemHash) /\
  (exists r, In r C14EncSites.sites /\ s_role r = ItemRead).
Proof. repeat split; apply sites_ok_role_present; try exact Gen_enc_sites_ok; reflexivity. Qed.

(* What goes wrong otherwise (the shape of a seeded change: the write site falls back to the interpreter default). *)
Definition bad_sites : list site :=
  [mkSite "base.py" "_atomic_write" "open" ItemWrite EDefault; mkSite "upload.py" "upload" "encode" ItemHash EStock;
   mkSite "get.py" "_get" "decode" ItemRead EStock; mkSite "base.py" "_atomic_write" "open" PropsWrite EDefault;
   mkSite "meta.py" "get_meta" "open" PropsRead EStock].
Lemma mixed_charsets_refuted :
  sites_ok bad_sites = false /\
  let cw := resolve latin1 utf8 (fun _ => utf8) EDefault in
  let cs := resolve latin1 utf8 (fun _ => utf8) EStock in
  file_bytes cw [99; 97; 102; 233] = Some [99; 97; 102; 195; 169] /\           (* "café" written as UTF-8 *)
  cache_valid cw cs [99; 97; 102; 233] = false /\                             (* the cache entry never matches *)
  cold_text cw cs [99; 97; 102; 233] = Some [99; 97; 102; 195; 169] /\         (* read back as "cafÃ©" *)
  cold_text cs cw [99; 97; 102; 233] = None.                                  (* the other way round: undecodable *)
Proof. vm_compute. repeat split; reflexivity. Qed.

(* composed with the upload pipeline: what a cold read serves is the reload of the uploaded text *)
Theorem cold_serve_is_reload : forall c text b, codec_ok c -> file_bytes c text = Some b ->
  match cold_text c c text with Some t => reload_model t | None => None end = reload_model text.
Proof. intros c text b Hok Hb. destruct (proj1 (same_charset_roundtrip c text Hok) b Hb) as [E _]. rewrite E. reflexivity. Qed.
