(* Tie T for path_to_filesystem: the regenerated statement skeleton (Gen/PtfGen.v) is the one Model/Path.v
   (path_to_filesystem: per component, safety check, then posix join; the collision check is the identity on a
   case-sensitive file system without symlinks) was written from. *)
From Coq Require Import List String.
Import ListNotations.
Require Import RV.Gen.PtfGen.
Open Scope string_scope.

Definition ptf_expected : list string :=
  ["def path_to_filesystem(root, sane_path)";
   "  assert sane_path == strip_path(sanitize_path(sane_path))";
   "  safe_path = root";
   "  parts = sane_path.split('/') if sane_path else []";
   "  for part in parts:";
   "    if not is_safe_filesystem_path_component(part):";
   "      raise UnsafePathError(part)";
   "    safe_path_parent = safe_path";
   "    safe_path = os.path.join(safe_path, part)";
   "    if os.path.lexists(safe_path) and part not in (e.name for e in os.scandir(safe_path_parent)):";
   "      raise CollidingPathError(part)";
   "  return safe_path"].

Lemma Gen_ptf_skeleton_eq : ptf_skeleton = ptf_expected.
Proof. reflexivity. Qed.
