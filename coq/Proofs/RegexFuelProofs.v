(* C04: fuel adequacy of the backtracking matcher of Model/Regex.v.  The default fuel
   `default_fuel r s = (rsize r + 2) * (length s + 2)` is always enough: `fullmatch_fuel` never
   answers MFuel with it, hence `fullmatch_py` never answers FmFuel.

   Fuel is consumed one unit per structural descent in `m` and one unit per loop level in `mloop`;
   a continuation captures the fuel of the level where it was built, so fuel does not add up along
   a match path, only along nesting.  `need r n` bounds the nesting depth for a subject of at most
   n remaining characters; `lv` bounds the number of remaining loop levels of a repeat. *)
From Coq Require Import List NArith PeanoNat Bool Lia.
Import ListNotations.
Require Import RV.Lib.PyStr RV.Model.Regex RV.Proofs.RegexMatchProofs.
Local Open Scope nat_scope.

(* ------------------------------------------------------------------ the bound *)
Fixpoint need (r : regex) (n : nat) : nat :=
  match r with
  | Cat a b | Alt a b => S (Nat.max (need a n) (need b n))
  | Group _ body => S (need body n)
  | Rep mn _ _ body => S (N.to_nat mn + n + 2 + need body n)
  | _ => 1
  end.

Lemma need_pos r n : 1 <= need r n.
Proof. destruct r; cbn [need]; lia. Qed.

Lemma need_mono r : forall n n', n <= n' -> need r n <= need r n'.
Proof.
  induction r as [|x| |neg items|a IHa b IHb|a IHa b IHb|mn mx g body IH|i body IH];
    intros n n' Hn; cbn [need]; try lia.
  - specialize (IHa n n' Hn). specialize (IHb n n' Hn). lia.
  - specialize (IHa n n' Hn). specialize (IHb n n' Hn). lia.
  - specialize (IH n n' Hn). lia.
  - specialize (IH n n' Hn). lia.
Qed.

Lemma need_le_rsize r n : need r n <= rsize r * (n + 2).
Proof.
  induction r as [|x| |neg items|a IHa b IHb|a IHa b IHb|mn mx g body IH|i body IH];
    cbn [need rsize]; lia.
Qed.

Lemma need_le_default r s : need r (List.length s) <= default_fuel r s.
Proof.
  unfold default_fuel. pose proof (need_le_rsize r (List.length s)) as H.
  rewrite Nat.mul_add_distr_r. lia.
Qed.

(* remaining loop levels of a repeat at its UNTIL point *)
Definition lv (mn count : N) (last : option nat) (s : pystr) : nat :=
  if negb (count <? mn)%N && same_pos last s then 1
  else (N.to_nat mn - N.to_nat count) + List.length s + 2.

Lemma lv_pos mn count last s : 1 <= lv mn count last s.
Proof. unfold lv. destruct (negb (count <? mn)%N && same_pos last s); lia. Qed.

(* ------------------------------------------------------------------ continuations *)
Definition fine (k : kont) (n : nat) : Prop :=
  forall s c, List.length s <= n -> k s c <> MFuel.

Lemma orelse_nofuel a f : a <> MFuel -> f tt <> MFuel -> orelse a f <> MFuel.
Proof. destruct a; cbn [orelse]; intros Ha Hf; [exact Ha|exact Hf|exact Ha]. Qed.

Lemma orelse_nofuel_iff a f :
  orelse a f <> MFuel <-> a <> MFuel /\ (a = MFail -> f tt <> MFuel).
Proof.
  destruct a; cbn [orelse]; split.
  - intros H. contradiction.
  - intros [H _]. exact H.
  - intros H. split; [discriminate|intros _; exact H].
  - intros [_ H]. apply H. reflexivity.
  - intros H. split; [exact H|discriminate].
  - intros [H _]. exact H.
Qed.

Lemma fine_at_end n : fine at_end n.
Proof. intros s c _. destruct s; cbn [at_end]; discriminate. Qed.

(* ------------------------------------------------------------------ the induction on fuel *)
Lemma nofuel_mutual : forall fuel,
  (forall r s c k n, List.length s <= n -> need r n <= fuel -> fine k n ->
     m fuel r s c k <> MFuel) /\
  (forall body mn mx g count last s c k n, List.length s <= n ->
     lv mn count last s + need body n <= fuel -> fine k n ->
     mloop fuel body mn mx g count last s c k <> MFuel).
Proof.
  induction fuel as [|f [IHm IHl]]; split.
  - intros r s c k n _ Hf _. pose proof (need_pos r n) as Hp. lia.
  - intros body mn mx g count last s c k n _ Hf _.
    pose proof (lv_pos mn count last s) as Hp. lia.
  - intros r s c k n Hs Hf Hk. rewrite m_S.
    destruct r as [|x| |neg items|a b|a b|mn mx g body|i body]; cbn [need] in Hf.
    + apply Hk. exact Hs.
    + destruct s as [|y s']; [discriminate|]. cbn [List.length] in Hs.
      destruct (y =? x)%N; [apply Hk; lia|discriminate].
    + destruct s as [|y s']; [discriminate|]. cbn [List.length] in Hs.
      destruct (y =? 10)%N; [discriminate|apply Hk; lia].
    + destruct s as [|y s']; [discriminate|]. cbn [List.length] in Hs.
      destruct (set_match neg items y); [apply Hk; lia|discriminate].
    + apply (IHm a s c _ n); [exact Hs|lia|].
      intros s' c' Hs'. apply (IHm b s' c' k n); [exact Hs'|lia|exact Hk].
    + apply orelse_nofuel.
      * apply (IHm a s c k n); [exact Hs|lia|exact Hk].
      * apply (IHm b s c k n); [exact Hs|lia|exact Hk].
    + apply (IHl body mn mx g 0%N None s c k n); [exact Hs| |exact Hk].
      unfold lv. cbn [same_pos]. rewrite andb_false_r. lia.
    + apply (IHm body s c _ n); [exact Hs|lia|].
      intros s' c' Hs'. apply Hk. exact Hs'.
  - intros body mn mx g count last s c k n Hs Hf Hk. rewrite mloop_S.
    assert (Hit : forall l,
              (forall s', List.length s' <= List.length s ->
                 lv mn (count + 1) l s' + need body n <= f) ->
              m f body s c (fun s' c' => mloop f body mn mx g (count + 1) l s' c' k) <> MFuel).
    { intros l Hl.
      apply (IHm body s c _ (List.length s)); [lia| |].
      - pose proof (Hl s (le_n _)) as H1.
        pose proof (need_mono body (List.length s) n Hs) as H2. lia.
      - intros s' c' Hs'.
        apply (IHl body mn mx g (count + 1)%N l s' c' k n); [lia|apply Hl; exact Hs'|exact Hk]. }
    destruct (count <? mn)%N eqn:E.
    + apply Hit. intros s' Hs'. unfold lv in Hf |- *. rewrite E in Hf.
      cbn [negb andb] in Hf. apply N.ltb_lt in E.
      destruct (negb (count + 1 <? mn)%N && same_pos last s'); lia.
    + apply N.ltb_ge in E.
      destruct (lt_max count mx && negb (same_pos last s)) eqn:A.
      * apply andb_prop in A. destruct A as [_ A]. apply negb_true_iff in A.
        assert (Hi : m f body s c
                       (fun s' c' => mloop f body mn mx g (count + 1)
                                       (Some (List.length s)) s' c' k) <> MFuel).
        { apply Hit. intros s' Hs'. unfold lv in Hf |- *. rewrite A in Hf.
          rewrite andb_false_r in Hf.
          assert (E2 : (count + 1 <? mn)%N = false) by (apply N.ltb_ge; lia).
          rewrite E2. cbn [negb andb same_pos].
          destruct (Nat.eqb (List.length s) (List.length s')) eqn:Q.
          - lia.
          - apply Nat.eqb_neq in Q. lia. }
        destruct g.
        -- apply orelse_nofuel; [exact Hi|apply Hk; exact Hs].
        -- apply orelse_nofuel; [apply Hk; exact Hs|exact Hi].
      * destruct g.
        -- apply Hk. exact Hs.
        -- apply orelse_nofuel; [apply Hk; exact Hs|discriminate].
Qed.

Lemma m_nofuel fuel r s c k n :
  List.length s <= n -> need r n <= fuel -> fine k n -> m fuel r s c k <> MFuel.
Proof. apply (proj1 (nofuel_mutual fuel)). Qed.

(* more fuel than needed never hurts the "no MFuel" property *)
Theorem fullmatch_fuel_enough : forall fuel r s,
  need r (List.length s) <= fuel -> fullmatch_fuel fuel r s <> MFuel.
Proof.
  intros fuel r s Hf. unfold fullmatch_fuel.
  apply (m_nofuel fuel r s [] at_end (List.length s)); [lia|exact Hf|apply fine_at_end].
Qed.

(* ------------------------------------------------------------------ final theorems *)
Theorem default_fuel_enough : forall r s, fullmatch_fuel (default_fuel r s) r s <> MFuel.
Proof. intros r s. apply fullmatch_fuel_enough. apply need_le_default. Qed.

Corollary fullmatch_py_never_fuel : forall p s, fullmatch_py p s <> FmFuel.
Proof.
  intros p s. unfold fullmatch_py.
  destruct (compile p) as [[r g]| |]; [|discriminate|discriminate].
  destruct (uses_cat r && negb (is_ascii s)); [discriminate|].
  pose proof (default_fuel_enough r s) as H.
  destruct (fullmatch_fuel (default_fuel r s) r s) as [| |c]; [contradiction|discriminate|discriminate].
Qed.

(* with the default fuel the matcher decides the language of the regex, unconditionally *)
Corollary default_fuel_correct : forall r s,
  is_yes (fullmatch_fuel (default_fuel r s) r s) = true <-> M r s.
Proof. intros r s. apply fullmatch_correct. apply default_fuel_enough. Qed.

Print Assumptions default_fuel_enough.
Print Assumptions fullmatch_py_never_fuel.
Print Assumptions default_fuel_correct.
