(* C16 -- time_range_fill (the expansion used by free_busy_report) on a VEVENT: below the cap it lists exactly the
   occurrences that overlap the range, each with its start and end, in order; nothing else. *)
From Coq Require Import ZArith List Bool Lia ZifyBool.
Import ListNotations.
Require Import RV.Model.Rfc4791 RV.Model.Filter RV.Proofs.C16Xt RV.Proofs.C16Loop RV.Proofs.C16Rows RV.Proofs.C16Tables.
Open Scope Z_scope.

Section Fill.
  Variable ev : vevent.
  Hypothesis Hwf : wf_vevent ev.
  Variable r : trange.
  Variable z : Z.
  Hypothesis Hend : snd r = Some z.                 (* free-busy ranges have an end *)
  Let s := tr_start r.
  Let e := tr_end r.
  Variable n : Z.

  (* the range of the instance at D *)
  Definition inst (D : Z) : call := hd (fcall D D false) (vevent_calls ev false D).
  Definition inst_range (D : Z) : xt * xt := (c_s (inst D), c_e (inst D)).

  Lemma inst_block : forall D, vevent_calls ev false D = [inst D] /\ c_s (inst D) = Fin D /\ c_rec (inst D) = false.
  Proof.
    intros D. unfold inst. destruct (vevent_block ev Hwf D) as (len & Hl & Heq). rewrite Heq. cbn. auto.
  Qed.

  Lemma e_fin : e = Fin z.
  Proof. unfold e, tr_end. rewrite Hend. reflexivity. Qed.

  (* one step of fill_fn on the single range of date D *)
  Lemma fill_step : forall D st,
      run_calls (fill_fn s e n) (vevent_calls ev false D) st =
      if overlap s e (inst D)
      then (st ++ [inst_range D], (0 <? n) && (n <=? Z.of_nat (length (st ++ [inst_range D]))))
      else (st, z <? D).
  Proof.
    intros D st. destruct (inst_block D) as (Hb & Hs & Hr). rewrite Hb. cbn [run_calls]. unfold fill_fn.
    rewrite Hr, Hs. rewrite e_fin. cbn [xlt negb]. rewrite andb_true_r.
    destruct (overlap s (Fin z) (inst D)) eqn:Ho.
    - unfold inst_range. rewrite Hs.
      destruct ((0 <? n) && (n <=? Z.of_nat (length (st ++ [(Fin D, c_e (inst D))])))); [reflexivity|].
      (* overlapping and beyond the end is impossible *)
      unfold overlap in Ho. rewrite Hs in Ho. apply andb_true_iff in Ho as [_ Ho]. cbn [xlt] in Ho.
      destruct (z <? D) eqn:Hz; [lia|reflexivity].
    - destruct (z <? D); reflexivity.
  Qed.

  Variables (s0 : Z) (rc : recur).
  Let p := r_period (rc_rule rc).
  Let b := r_bound (rc_rule rc).
  Hypothesis Hp : 0 < p.

  Definition validk (k : Z) : Prop := 0 <= k /\ in_bound b s0 p k = true /\ mem (s0 + k * p) (rc_ex rc) = false.
  Definition hit (k : Z) : Prop := validk k /\ overlap s e (inst (s0 + k * p)) = true.

  Lemma no_hit_beyond : forall D D', z < D -> D <= D' -> overlap s e (inst D') = false.
  Proof.
    intros D D' Hz HD. destruct (inst_block D') as (_ & Hs & _). unfold overlap. rewrite Hs, e_fin. cbn [xlt].
    destruct (D' <? z) eqn:H; [lia|]. apply andb_false_r.
  Qed.

  Theorem fill_rule : forall fuel k st L stop, 0 <= k ->
      visit_rule (fill_fn s e n) fuel (vevent_calls ev false) s0 rc k st = Some (L, stop) ->
      exists added, L = st ++ added
        /\ (forall x, In x added -> exists k', k <= k' /\ hit k' /\ x = inst_range (s0 + k' * p))
        /\ (Z.of_nat (length L) < n \/ n <= 0 -> forall k', k <= k' -> hit k' -> In (inst_range (s0 + k' * p)) added).
  Proof.
    induction fuel as [|f IH]; intros k st L stop Hk H; [discriminate|].
    cbn [visit_rule] in H. fold p in H. fold b in H.
    destruct (in_bound b s0 p k) eqn:Hin; cbn [negb] in H.
    2:{ inversion H; subst. exists []. rewrite app_nil_r. split; [reflexivity|]. split; [intros x []|].
        intros _ k' Hk' ((H0 & Hb' & _) & _). exfalso.
        assert (in_bound b s0 p k = true); [|congruence].
        unfold in_bound in *. destruct b as [m|u|]; [lia| |reflexivity]. apply Z.leb_le in Hb'. apply Z.leb_le. nia. }
    destruct (mem (s0 + k * p) (rc_ex rc)) eqn:Hm.
    - destruct (IH (k + 1) st L stop ltac:(lia) H) as (added & HL & H1 & H2). exists added. split; [exact HL|]. split.
      + intros x Hx. destruct (H1 x Hx) as (k' & Hk' & Hh & Hx'). exists k'. split; [lia|auto].
      + intros Hlen k' Hk' Hh. apply H2; auto. assert (k' <> k); [|lia]. intros ->.
        destruct Hh as ((_ & _ & Hm') & _). congruence.
    - rewrite fill_step in H. destruct (overlap s e (inst (s0 + k * p))) eqn:Ho.
      + destruct ((0 <? n) && (n <=? Z.of_nat (length (st ++ [inst_range (s0 + k * p)])))) eqn:Hcap.
        * inversion H; subst. exists [inst_range (s0 + k * p)]. split; [reflexivity|]. split.
          -- intros x [<-|[]]. exists k. split; [lia|]. split; [|reflexivity]. repeat split; auto.
          -- intros Hlen. exfalso. lia.
        * destruct (IH (k + 1) _ L stop ltac:(lia) H) as (added & HL & H1 & H2).
          exists (inst_range (s0 + k * p) :: added). split; [rewrite HL, <- app_assoc; reflexivity|]. split.
          -- intros x [<-|Hx].
             ++ exists k. split; [lia|]. split; [|reflexivity]. repeat split; auto.
             ++ destruct (H1 x Hx) as (k' & Hk' & Hh & Hx'). exists k'. split; [lia|auto].
          -- intros Hlen k' Hk' Hh. destruct (Z.eq_dec k' k) as [->|Hne]; [left; reflexivity|right].
             apply H2; auto. lia.
      + destruct (z <? s0 + k * p) eqn:Hz.
        * inversion H; subst. exists []. rewrite app_nil_r. split; [reflexivity|]. split; [intros x []|].
          intros _ k' Hk' (_ & Hh). exfalso.
          rewrite (no_hit_beyond (s0 + k * p) (s0 + k' * p)) in Hh; [discriminate|lia|nia].
        * destruct (IH (k + 1) st L stop ltac:(lia) H) as (added & HL & H1 & H2). exists added. split; [exact HL|]. split.
          -- intros x Hx. destruct (H1 x Hx) as (k' & Hk' & Hh & Hx'). exists k'. split; [lia|auto].
          -- intros Hlen k' Hk' Hh. apply H2; auto. assert (k' <> k); [|lia]. intros ->.
             destruct Hh as (_ & Hh). congruence.
  Qed.

  (* termination, unbounded rule: beyond the end of the range the single call stops the visit *)
  Theorem fill_total_forever : forall fuel k st, 0 <= k -> b = RForever ->
      (Z.to_nat (Kinf r s0 rc - k) < fuel)%nat ->
      exists res, visit_rule (fill_fn s e n) fuel (vevent_calls ev false) s0 rc k st = Some res.
  Proof.
    induction fuel as [|f IH]; intros k st Hk Hb Hf; [lia|].
    cbn [visit_rule]. fold p. fold b. rewrite Hb. cbn [in_bound negb].
    assert (Hbeyond : Kinf r s0 rc <= k -> z + 1 < s0 + k * p /\ mem (s0 + k * p) (rc_ex rc) = false).
    { intros Hge.
      assert (Hbnd : tr_bounded r = true). { destruct r as [a0 z0]. cbn in Hend. subst z0. destruct a0; reflexivity. }
      pose proof (beyond_Kinf r s0 rc Hp Hbnd k Hge) as Hb1. unfold date in Hb1. fold p in Hb1.
      assert (Hrb : range_bound r = z + 1). { destruct r as [a0 z0]. cbn in Hend. subst z0. destruct a0; reflexivity. }
      pose proof (ex_bound_ge (rc_ex rc) (range_bound r)). split; [lia|].
      destruct (mem (s0 + k * p) (rc_ex rc)) eqn:Hm; [|reflexivity].
      pose proof (mem_ex_bound _ _ (range_bound r) Hm). lia. }
    destruct (mem (s0 + k * p) (rc_ex rc)) eqn:Hm.
    - apply IH; [lia|exact Hb|]. destruct (Z_lt_le_dec k (Kinf r s0 rc)) as [|Hge]; [lia|].
      destruct (Hbeyond Hge) as [_ Hm']. congruence.
    - rewrite fill_step. destruct (overlap s e (inst (s0 + k * p))) eqn:Ho.
      + destruct ((0 <? n) && _); [eexists; reflexivity|].
        apply IH; [lia|exact Hb|]. destruct (Z_lt_le_dec k (Kinf r s0 rc)) as [|Hge]; [lia|].
        destruct (Hbeyond Hge) as [Hz _]. rewrite (no_hit_beyond (s0 + k * p) (s0 + k * p)) in Ho; [discriminate|lia|lia].
      + destruct (z <? s0 + k * p) eqn:Hz; [eexists; reflexivity|].
        apply IH; [lia|exact Hb|]. destruct (Z_lt_le_dec k (Kinf r s0 rc)) as [|Hge]; [lia|].
        destruct (Hbeyond Hge) as [Hz' _]. lia.
  Qed.
End Fill.

(* length of an instance, as the visitor computes it *)
Definition vevent_len (ev : vevent) : Z :=
  match ev_end ev with
  | EDtend t => t - ev_start ev
  | EDuration d => if 0 <? d then d else 1
  | ENone => match ev_kind ev with KDate => DAY | KDateTime => 1 end
  end.

Lemma inst_range_len : forall ev D, inst_range ev D = (Fin D, Fin (D + vevent_len ev)).
Proof.
  intros ev D. unfold inst_range, inst, vevent_calls, vevent_len.
  destruct (ev_end ev) as [t|d|]; [reflexivity| |destruct (ev_kind ev); reflexivity].
  destruct (0 <? d); reflexivity.
Qed.

Lemma overlap_inst_row : forall ev, wf_vevent ev -> forall s e D, overlap s e (inst ev D) = vevent_row ev D s e.
Proof.
  intros ev Hwf s e D. rewrite <- (rows_vevent ev Hwf). destruct (inst_block ev Hwf D) as (Hb & _).
  rewrite Hb. unfold ov. cbn. rewrite orb_false_r. reflexivity.
Qed.

(* C16_freebusy (expansion level) *)
Theorem fill_spec : forall ev r z n fuel,
    wf_vevent ev -> snd r = Some z -> (match_fuel (OEvent ev) r <= fuel)%nat ->
    exists L, time_range_fill fuel (OEvent ev) r n = Some L
      /\ (forall x, In x L -> exists D, occurs (ev_start ev) (ev_rec ev) D
                                         /\ vevent_row ev D (tr_start r) (tr_end r) = true
                                         /\ x = (Fin D, Fin (D + vevent_len ev)))
      /\ (Z.of_nat (length L) < n \/ n <= 0 ->
          forall D, occurs (ev_start ev) (ev_rec ev) D -> vevent_row ev D (tr_start r) (tr_end r) = true ->
                    In (Fin D, Fin (D + vevent_len ev)) L).
Proof.
  intros ev r z n fuel Hwf Hend Hfuel.
  assert (Hbnd : tr_bounded r = true). { destruct r as [a0 z0]. cbn in Hend. subst z0. destruct a0; reflexivity. }
  unfold time_range_fill. rewrite Hbnd. cbn [negb visit]. rewrite match_fuel_event in Hfuel.
  destruct (ev_rec ev) as [rc|] eqn:Hrec; cbn [dates_of visit_dates dates_fuel] in *.
  2:{ rewrite (fill_step ev Hwf r z Hend). cbn [option_map fst].
      rewrite overlap_inst_row by exact Hwf.
      destruct (vevent_row ev (ev_start ev) (tr_start r) (tr_end r)) eqn:Hrow.
      - eexists. split; [reflexivity|]. cbn [app]. split.
        + intros x [<-|[]]. exists (ev_start ev). split; [reflexivity|]. split; [exact Hrow|apply inst_range_len].
        + intros _ D -> _. left. apply inst_range_len.
      - eexists. split; [reflexivity|]. split; [intros x []|]. intros _ D -> Hr. congruence. }
  assert (Hp : 0 < r_period (rc_rule rc)).
  { destruct Hwf as [Hw _]. rewrite Hrec in Hw. apply period_pos. exact Hw. }
  assert (Hgoal : forall res, visit_rule (fill_fn (tr_start r) (tr_end r) n) fuel (vevent_calls ev false) (ev_start ev) rc 0 [] = Some res ->
            exists L, option_map fst (Some res) = Some L
              /\ (forall x, In x L -> exists D, occurs (ev_start ev) (Some rc) D
                                                 /\ vevent_row ev D (tr_start r) (tr_end r) = true
                                                 /\ x = (Fin D, Fin (D + vevent_len ev)))
              /\ (Z.of_nat (length L) < n \/ n <= 0 ->
                  forall D, occurs (ev_start ev) (Some rc) D -> vevent_row ev D (tr_start r) (tr_end r) = true ->
                            In (Fin D, Fin (D + vevent_len ev)) L)).
  { intros [L stop] Hres. exists L. split; [reflexivity|].
    destruct (fill_rule ev Hwf r z Hend n (ev_start ev) rc Hp fuel 0 [] L stop ltac:(lia) Hres) as (added & HL & H1 & H2).
    cbn [app] in HL. subst added. split.
    - intros x Hx. destruct (H1 x Hx) as (k' & Hk' & ((H0 & Hin & Hm) & Ho) & ->).
      exists (ev_start ev + k' * r_period (rc_rule rc)). split; [exists k'; auto|]. split; [|apply inst_range_len].
      rewrite <- overlap_inst_row by exact Hwf. exact Ho.
    - intros Hlen D (k & Hk & Hin & -> & Hm) Hrow. rewrite <- inst_range_len. apply H2; [exact Hlen|lia|].
      split; [repeat split; auto|]. rewrite overlap_inst_row by exact Hwf. exact Hrow. }
  destruct (is_infinite rc) eqn:Hinf.
  - destruct (first_date_spec (ev_start ev) rc Hp (first_fuel (ev_start ev) rc) 0 ltac:(lia)) as (k' & _ & Hfd & _).
    { unfold first_fuel, K0. lia. }
    rewrite Hfd. cbn [no_infinity].
    destruct (fill_total_forever ev Hwf r z Hend n (ev_start ev) rc Hp fuel 0 [] ltac:(lia)) as [res Hres].
    { unfold is_infinite in Hinf. destruct (r_bound (rc_rule rc)); congruence. }
    { unfold Kinf. lia. }
    rewrite Hres. apply Hgoal. exact Hres.
  - destruct (visit_rule_total_bounded (vevent_calls ev false) (ev_start ev) rc Hp (fill_fn (tr_start r) (tr_end r) n) fuel 0 [] ltac:(lia)) as [res Hres].
    { unfold is_infinite in Hinf. destruct (r_bound (rc_rule rc)); congruence. }
    { lia. }
    rewrite Hres. apply Hgoal. exact Hres.
Qed.
