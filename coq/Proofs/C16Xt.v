(* C16 -- basic facts on extended times and the generic run of a block of range_fn calls. *)
From Coq Require Import ZArith List Bool Lia ZifyBool.
Import ListNotations.
Require Import RV.Model.Rfc4791 RV.Model.Filter.
Open Scope Z_scope.

(* destruct every xt variable, then leave Z comparisons to lia (ZifyBool understands <?, &&, ||, negb) *)
Ltac xt_cases :=
  repeat match goal with
         | x : xt |- _ => destruct x
         end;
  unfold xle in *; cbn [xlt xeqb negb andb orb] in *.

Ltac xt_lia := xt_cases; try (exfalso; discriminate); try reflexivity; try lia.

Lemma xlt_irrefl : forall a, xlt a a = false.
Proof. intros a. xt_lia. Qed.

Lemma xlt_trans : forall a b c, xlt a b = true -> xlt b c = true -> xlt a c = true.
Proof. intros a b c. xt_lia. Qed.

Lemma xle_refl : forall a, xle a a = true.
Proof. intros a. unfold xle. rewrite xlt_irrefl. reflexivity. Qed.

Lemma xle_trans : forall a b c, xle a b = true -> xle b c = true -> xle a c = true.
Proof. intros a b c. unfold xle. xt_lia. Qed.

Lemma xlt_le_trans : forall a b c, xlt a b = true -> xle b c = true -> xlt a c = true.
Proof. intros a b c. unfold xle. xt_lia. Qed.

Lemma xle_lt_trans : forall a b c, xle a b = true -> xlt b c = true -> xlt a c = true.
Proof. intros a b c. unfold xle. xt_lia. Qed.

Lemma xle_total : forall a b, xle a b = true \/ xle b a = true.
Proof. intros a b. unfold xle. xt_cases; try (left; reflexivity); try (right; reflexivity); lia. Qed.

Lemma xlt_xle : forall a b, xlt a b = true -> xle a b = true.
Proof. intros a b. unfold xle. xt_lia. Qed.

Lemma xle_antisym : forall a b, xle a b = true -> xle b a = true -> a = b.
Proof. intros a b. unfold xle. xt_cases; intros; try discriminate; try reflexivity. f_equal. lia. Qed.

Lemma tr_end_not_minf : forall r, tr_end r <> MInf.
Proof. intros [a [b|]]; cbn; discriminate. Qed.
Lemma tr_start_not_pinf : forall r, tr_start r <> PInf.
Proof. intros [[a|] b]; cbn; discriminate. Qed.

(* ------------------------------------------------------------------ run of match_fn over a block of calls *)
Section RunMatch.
  Variables s e : xt.

  Definition ov (l : list call) : bool := existsb (overlap s e) l.

  Lemma run_match_true : forall l m stop, run_calls (match_fn s e) l true = (m, stop) -> m = true.
  Proof.
    induction l as [|c r IH]; intros m stop H; cbn in H.
    - congruence.
    - unfold match_fn in H at 1. destruct (overlap s e c).
      + cbn in H. congruence.
      + destruct (xlt e (c_s c) && negb (c_rec c)); cbn in H; [congruence|]. eapply IH; eauto.
  Qed.

  (* from matched = false: matched at the end <-> stopped on an overlapping call; not stopped -> no call overlaps *)
  Lemma run_match_spec : forall l m stop,
      run_calls (match_fn s e) l false = (m, stop) ->
      (m = true -> stop = true /\ ov l = true) /\
      (stop = false -> m = false /\ ov l = false).
  Proof.
    induction l as [|c r IH]; intros m stop H; cbn in H.
    - inversion H; subst. split; intros; [discriminate|]. split; reflexivity.
    - unfold match_fn in H at 1. unfold ov. cbn [existsb]. destruct (overlap s e c) eqn:Ho.
      + cbn in H. inversion H; subst. split; intros; [split; reflexivity|discriminate].
      + destruct (xlt e (c_s c) && negb (c_rec c)) eqn:Hs; cbn in H.
        * inversion H; subst. split; intros; discriminate.
        * cbn [orb]. apply IH. exact H.
  Qed.

  (* an early stop (stopped without a match) happened on a call beyond the end of the range, and nothing before
     it overlapped *)
  Lemma run_match_early : forall l stop,
      run_calls (match_fn s e) l false = (false, stop) -> stop = true ->
      exists l1 c l2, l = l1 ++ c :: l2 /\ ov l1 = false /\ overlap s e c = false
                      /\ xlt e (c_s c) = true /\ c_rec c = false.
  Proof.
    induction l as [|c r IH]; intros stop H Hs; cbn in H.
    - inversion H; subst. discriminate.
    - unfold match_fn in H at 1. destruct (overlap s e c) eqn:Ho.
      + cbn in H. inversion H.
      + destruct (xlt e (c_s c) && negb (c_rec c)) eqn:Hx; cbn in H.
        * exists [], c, r. apply andb_true_iff in Hx as [Hx1 Hx2]. apply negb_true_iff in Hx2.
          repeat split; auto.
        * destruct (IH stop H Hs) as (l1 & c' & l2 & -> & H1 & H2 & H3 & H4).
          exists (c :: l1), c', l2. repeat split; auto. unfold ov. cbn. rewrite Ho. exact H1.
  Qed.
End RunMatch.
