(* C03_read / C03_confine: non-interference.  The handlers commute with the projection that erases every
   subtree in which the policy gives the user no permission at all ("dark" subtrees): responses do not depend on
   the existence or content of dark subtrees, and what a request changes outside them does not either. *)
From Coq Require Import List NArith Bool Lia.
Import ListNotations.
Require Import RV.Lib.PyStr RV.Lib.Item RV.Model.Store RV.Model.Access RV.Model.Handlers
               RV.Proofs.StoreLemmas RV.Proofs.HandlersInv RV.Proofs.HandlersStore RV.Proofs.HandlersRights.
Open Scope N_scope.

Section NonInterference.
  Variable pol : policy.
  Variable dk : path -> bool.            (* "q lies inside a dark subtree" *)
  Hypothesis dk_down : forall q x, dk q = true -> dk (q ++ [x]) = true.
  Hypothesis dk_pol : forall q, dk q = true -> pol q = [].
  Hypothesis dk_parent : forall q, dk q = true -> q <> [] ->
                           has lr (pol (parent q)) = false /\ has lw (pol (parent q)) = false.

  Definition vis (qc : path * coll) : bool := negb (dk (fst qc)).
  Definition V (s : store) : store := filter vis s.

  Lemma dk_parent_false : forall q, dk q = false -> dk (parent q) = false.
  Proof.
    intros q H. destruct q as [|x q'] eqn:E; [exact H|]. rewrite <- E in *.
    destruct (dk (parent q)) eqn:Ep; [|reflexivity].
    assert (Hne : q <> []) by (subst; discriminate).
    destruct (parent_prefix q Hne) as [y Hy]. rewrite Hy in H. rewrite (dk_down _ y Ep) in H. discriminate.
  Qed.

  Lemma V_cons : forall r c s, V ((r, c) :: s) = if dk r then V s else (r, c) :: V s.
  Proof. intros. unfold V. cbn [filter]. unfold vis at 1. cbn [fst]. destruct (dk r); reflexivity. Qed.

  Lemma V_nil : V [] = [].
  Proof. reflexivity. Qed.

  Lemma lookup_V : forall s q, dk q = false -> lookup (V s) q = lookup s q.
  Proof.
    induction s as [|[r c] s IH]; intros q H; [reflexivity|]. rewrite V_cons.
    destruct (dk r) eqn:Er; cbn [lookup].
    - destruct (path_eqb r q) eqn:E; [apply path_eqb_eq in E; congruence|apply IH; exact H].
    - destruct (path_eqb r q); [reflexivity|apply IH; exact H].
  Qed.

  Lemma resolve_V : forall s q, dk q = false -> resolve (V s) q = resolve s q.
  Proof.
    intros s q H. unfold resolve. rewrite (lookup_V s q H), (lookup_V s (parent q) (dk_parent_false q H)). reflexivity.
  Qed.

  Lemma V_set_coll : forall s q c, dk q = false -> V (set_coll s q c) = set_coll (V s) q c.
  Proof.
    induction s as [|[r c'] s IH]; intros q c H; cbn [set_coll].
    - rewrite V_cons, H, V_nil. reflexivity.
    - destruct (path_eqb r q) eqn:E.
      + apply path_eqb_eq in E. subst r. rewrite !V_cons, H. cbn [set_coll]. rewrite path_eqb_refl. reflexivity.
      + rewrite !V_cons. destruct (dk r); [apply IH; exact H|]. cbn [set_coll]. rewrite E. f_equal. apply IH. exact H.
  Qed.

  Lemma V_del_subtree : forall s p, V (del_subtree s p) = del_subtree (V s) p.
  Proof.
    intros s p. induction s as [|[r c] s IH]; [reflexivity|]. unfold del_subtree in *. cbn [filter fst].
    destruct (is_prefix p r) eqn:E; cbn [negb]; rewrite !V_cons.
    - destruct (dk r); [exact IH|]. cbn [filter fst]. rewrite E. cbn [negb]. exact IH.
    - destruct (dk r); [exact IH|]. cbn [filter fst]. rewrite E. cbn [negb]. f_equal. exact IH.
  Qed.

  (* inside a dark subtree every first permission test fails *)
  Lemma dark_has : forall q c, dk q = true -> has c (pol q) = false.
  Proof. intros q c H. unfold has. rewrite (dk_pol q H). reflexivity. Qed.

  Lemma dark_pperms : forall q, dk q = true -> is_root q = false ->
    has lr (pperms_of pol q) = false /\ has lw (pperms_of pol q) = false.
  Proof.
    intros q H Hr. rewrite (pperms_nonroot pol q Hr). apply dk_parent; [exact H|]. intros ->. discriminate.
  Qed.

  Lemma dark_check_r : forall q, dk q = true -> check pol q lr NoItem = false.
  Proof.
    intros q H. rewrite check_r_noitem, !(dark_has q _ H). cbn [orb]. destruct (is_root q) eqn:Er; [reflexivity|].
    cbn [negb andb]. exact (proj1 (dark_pperms q H Er)).
  Qed.

  Lemma dark_check_w : forall q, dk q = true -> check pol q lw NoItem = false.
  Proof.
    intros q H. rewrite check_w_noitem, !(dark_has q _ H). cbn [orb]. destruct (is_root q) eqn:Er; [reflexivity|].
    cbn [negb andb]. exact (proj2 (dark_pperms q H Er)).
  Qed.

  Lemma dark_inter : forall q l, dk q = true -> inter (pol q) l = false.
  Proof. intros q l H. unfold inter. induction l as [|c l IH]; [reflexivity|]. cbn [existsb]. rewrite (dark_has q c H), IH. reflexivity. Qed.

  Lemma V_empty : dk [] = false -> V empty_store = empty_store.
  Proof. intros H. unfold empty_store. rewrite V_cons, H. reflexivity. Qed.

  Ltac vstep := repeat (brk; cbn [fst snd]; try reflexivity).

  Lemma do_delete_V : forall cfg s p im,
    do_delete cfg pol (V s) p im = (V (fst (do_delete cfg pol s p im)), snd (do_delete cfg pol s p im)).
  Proof.
    intros cfg s p im. destruct (dk p) eqn:Ed.
    - unfold do_delete. rewrite (dark_check_w p Ed). reflexivity.
    - unfold do_delete. rewrite (resolve_V s p Ed). vstep.
      + destruct p; [|discriminate]. rewrite (V_empty Ed). reflexivity.
      + rewrite V_del_subtree. reflexivity.
      + rewrite (V_set_coll _ _ _ (dk_parent_false p Ed)). reflexivity.
  Qed.

  Lemma do_mkcol_V : forall s p x,
    do_mkcol pol (V s) p x = (V (fst (do_mkcol pol s p x)), snd (do_mkcol pol s p x)).
  Proof.
    intros s p x. destruct (dk p) eqn:Ed.
    - unfold do_mkcol. rewrite (dark_inter p _ Ed). reflexivity.
    - unfold do_mkcol. rewrite (resolve_V s p Ed), (resolve_V s (parent p) (dk_parent_false p Ed)). vstep;
        rewrite (V_set_coll _ _ _ Ed); reflexivity.
  Qed.

  Lemma do_mkcalendar_V : forall s p x,
    do_mkcalendar pol (V s) p x = (V (fst (do_mkcalendar pol s p x)), snd (do_mkcalendar pol s p x)).
  Proof.
    intros s p x. destruct (dk p) eqn:Ed.
    - unfold do_mkcalendar. rewrite (dark_has p _ Ed). reflexivity.
    - unfold do_mkcalendar. rewrite (resolve_V s p Ed), (resolve_V s (parent p) (dk_parent_false p Ed)). vstep;
        rewrite (V_set_coll _ _ _ Ed); reflexivity.
  Qed.

  Lemma do_proppatch_V : forall s p x,
    do_proppatch pol (V s) p x = (V (fst (do_proppatch pol s p x)), snd (do_proppatch pol s p x)).
  Proof.
    intros s p x. destruct (dk p) eqn:Ed.
    - unfold do_proppatch. rewrite (dark_check_w p Ed). reflexivity.
    - unfold do_proppatch. rewrite (resolve_V s p Ed). vstep; rewrite (V_set_coll _ _ _ Ed); reflexivity.
  Qed.

  Lemma do_put_V : forall cfg s p ct b im inm,
    do_put cfg pol (V s) p ct b im inm = (V (fst (do_put cfg pol s p ct b im inm)), snd (do_put cfg pol s p ct b im inm)).
  Proof.
    intros cfg s p ct b im inm. destruct (dk p) eqn:Ed.
    - unfold do_put. rewrite (dark_check_w p Ed). reflexivity.
    - unfold do_put. rewrite (resolve_V s p Ed), (resolve_V s (parent p) (dk_parent_false p Ed)). vstep.
      all: try (rewrite (V_set_coll _ _ _ Ed), V_del_subtree; reflexivity).
      all: try (rewrite (V_set_coll _ _ _ (dk_parent_false p Ed)); reflexivity).
  Qed.

  Ltac move_tail s p to fc ow Ed Et :=
    destruct (resolve s (parent to)) as [tc| |]; try reflexivity;
    destruct (tag_eqb (c_tag fc) TNone); [reflexivity|];
    destruct (negb (tag_eqb (c_tag fc) (c_tag tc))); [reflexivity|];
    cbn [andb]; try (destruct (negb ow); [reflexivity|]);
    match goal with |- context [if ?c then (V s, _) else _] => destruct c; [reflexivity|] end;
    rewrite <- (V_set_coll s (parent p) _ (dk_parent_false p Ed));
    rewrite (lookup_V _ (parent to) (dk_parent_false to Et));
    match goal with |- context [match lookup ?a ?b with _ => _ end] => destruct (lookup a b) end; cbn [fst snd]; try reflexivity;
    rewrite (V_set_coll _ _ _ (dk_parent_false to Et)); reflexivity.

  Lemma do_move_V : forall s p dr dout to ow,
    do_move pol (V s) p dr dout to ow = (V (fst (do_move pol s p dr dout to ow)), snd (do_move pol s p dr dout to ow)).
  Proof.
    intros s p dr dout to ow. unfold do_move. destruct dr; [reflexivity|].
    destruct (dk p) eqn:Ed; [rewrite (dark_check_w p Ed); reflexivity|].
    destruct (negb (check pol p lw NoItem)); [reflexivity|]. destruct dout; [reflexivity|].
    destruct (dk to) eqn:Et; [rewrite (dark_check_w to Et); reflexivity|].
    rewrite (resolve_V s p Ed), (resolve_V s to Et), (resolve_V s (parent to) (dk_parent_false to Et)).
    destruct (negb (check pol to lw NoItem)); [reflexivity|].
    destruct (resolve s p) as [c|fc o|] eqn:Er; try reflexivity.
    - destruct (_ || _); reflexivity.
    - destruct (_ || _); [reflexivity|].
      destruct (resolve s to) eqn:Ert; try reflexivity; move_tail s p to fc ow Ed Et.
  Qed.

  Lemma do_get_V : forall s p, do_get pol (V s) p = do_get pol s p.
  Proof.
    intros s p. destruct (dk p) eqn:Ed.
    - unfold do_get. rewrite (dark_check_r p Ed), (dark_has p li Ed). reflexivity.
    - unfold do_get. rewrite (resolve_V s p Ed). reflexivity.
  Qed.

  Lemma do_multiget_V : forall s p cal hs, do_multiget pol (V s) p cal hs = do_multiget pol s p cal hs.
  Proof.
    intros s p cal hs. destruct (dk p) eqn:Ed.
    - unfold do_multiget. rewrite (dark_check_r p Ed). reflexivity.
    - unfold do_multiget. rewrite (resolve_V s p Ed). reflexivity.
  Qed.

  (* calendar-query / addressbook-query / sync-collection / free-busy-query, for EVERY filter *)
  Lemma do_query_V : forall s p k flt, do_query pol (V s) p k flt = do_query pol s p k flt.
  Proof.
    intros s p k flt. destruct (dk p) eqn:Ed.
    - unfold do_query. rewrite (dark_check_r p Ed). reflexivity.
    - unfold do_query. rewrite (resolve_V s p Ed). reflexivity.
  Qed.

  Lemma entry_allowed_dark : forall q tg, dk q = true -> entry_allowed pol q tg = None.
  Proof. intros q tg H. unfold entry_allowed. rewrite !(dark_has q _ H). destruct tg; reflexivity. Qed.

  (* dark children contribute nothing to a Depth:1 listing *)
  Lemma kids_V : forall s p,
    flat_map (fun qc : path * coll =>
               let t := match c_tag (snd qc) with TNone => false | _ => true end in
               match entry_allowed pol (fst qc) t with
               | Some w => [ECollE (fst qc) (c_tag (snd qc)) (c_props (snd qc)) w]
               | None => [] end) (child_colls (V s) p)
    = flat_map (fun qc : path * coll =>
               let t := match c_tag (snd qc) with TNone => false | _ => true end in
               match entry_allowed pol (fst qc) t with
               | Some w => [ECollE (fst qc) (c_tag (snd qc)) (c_props (snd qc)) w]
               | None => [] end) (child_colls s p).
  Proof.
    intros s p. unfold child_colls. induction s as [|[r c] s IH]; [reflexivity|].
    rewrite V_cons. destruct (dk r) eqn:Er.
    - cbn [filter fst]. destruct (match r with [] => false | _ => path_eqb (parent r) p end); [|exact IH].
      cbn [flat_map fst snd]. rewrite (entry_allowed_dark r _ Er). cbn [app]. exact IH.
    - cbn [filter fst]. destruct (match r with [] => false | _ => path_eqb (parent r) p end); [|exact IH].
      cbn [flat_map]. rewrite IH. reflexivity.
  Qed.

  Lemma do_propfind_V : forall s p d, do_propfind pol (V s) p d = do_propfind pol s p d.
  Proof.
    intros s p d. destruct (dk p) eqn:Ed.
    - unfold do_propfind. rewrite (dark_check_r p Ed). reflexivity.
    - unfold do_propfind. rewrite (resolve_V s p Ed).
      destruct (negb (check pol p lr NoItem)); [reflexivity|].
      destruct (resolve s p) as [c|pc o|]; try reflexivity.
      destruct (negb (check pol p lr (kind_of (NColl c)))); [reflexivity|].
      destruct d; cbn [negb]; [|reflexivity]. rewrite kids_V. reflexivity.
  Qed.

  Lemma ensure_home_V : forall s u, ensure_home pol (V s) u = V (ensure_home pol s u).
  Proof.
    intros s u. unfold ensure_home. destruct u as [n|]; [|reflexivity].
    destruct (dk [n]) eqn:Ed.
    - rewrite (dark_has [n] lW Ed). destruct (resolve (V s) [n]), (resolve s [n]); reflexivity.
    - rewrite (resolve_V s [n] Ed). destruct (resolve s [n]); try reflexivity.
      destruct (has lW (pol [n])); [|reflexivity]. rewrite (V_set_coll _ _ _ Ed). reflexivity.
  Qed.

  (* every request commutes with the projection *)
  Theorem handle_V : forall cfg u s r,
    handle cfg pol u (V s) r = (V (fst (handle cfg pol u s r)), snd (handle cfg pol u s r)).
  Proof.
    intros cfg u s r. unfold handle. rewrite ensure_home_V. set (s1 := ensure_home pol s u).
    destruct r.
    - apply do_put_V.
    - apply do_delete_V.
    - apply do_move_V.
    - apply do_mkcol_V.
    - apply do_mkcalendar_V.
    - apply do_proppatch_V.
    - cbn [fst snd]. rewrite do_get_V. reflexivity.
    - cbn [fst snd]. rewrite do_propfind_V. reflexivity.
    - cbn [fst snd]. rewrite do_multiget_V. reflexivity.
    - cbn [fst snd]. rewrite do_query_V. reflexivity.
  Qed.

  Definition low_eq (a b : store) : Prop := V a = V b.

  (* C03_read: the response does not depend on the existence or content of dark subtrees *)
  Theorem noninterference_response : forall cfg u a b r,
    low_eq a b -> snd (handle cfg pol u a r) = snd (handle cfg pol u b r).
  Proof.
    intros cfg u a b r H. pose proof (handle_V cfg u a r) as Ha. pose proof (handle_V cfg u b r) as Hb.
    unfold low_eq in H. rewrite H in Ha. rewrite Ha in Hb. inversion Hb. reflexivity.
  Qed.

  (* C03_confine: nor does anything the request changes outside them *)
  Theorem noninterference_store : forall cfg u a b r,
    low_eq a b -> low_eq (fst (handle cfg pol u a r)) (fst (handle cfg pol u b r)).
  Proof.
    intros cfg u a b r H. pose proof (handle_V cfg u a r) as Ha. pose proof (handle_V cfg u b r) as Hb.
    unfold low_eq in *. rewrite H in Ha. rewrite Ha in Hb. inversion Hb. reflexivity.
  Qed.

  Theorem noninterference_history : forall cfg u rs a b,
    low_eq a b -> snd (run_history cfg pol u a rs) = snd (run_history cfg pol u b rs).
  Proof.
    intros cfg u rs. induction rs as [|r rs IH]; intros a b H; cbn [run_history]; [reflexivity|].
    pose proof (noninterference_response cfg u a b r H) as Hr. pose proof (noninterference_store cfg u a b r H) as Hs.
    destruct (handle cfg pol u a r) as [a' oa]. destruct (handle cfg pol u b r) as [b' ob]. cbn [fst snd] in *.
    specialize (IH a' b' Hs). destruct (run_history cfg pol u a' rs) as [a'' oas]. destruct (run_history cfg pol u b' rs) as [b'' obs].
    cbn [snd] in *. congruence.
  Qed.
End NonInterference.

(* ---- the instance: dark subtrees given by their roots ---- *)
Definition dark_root (pol : policy) (d : path) : Prop :=
  (forall q, is_prefix d q = true -> pol q = []) /\
  (d <> [] -> has lr (pol (parent d)) = false /\ has lw (pol (parent d)) = false).

Definition covered (ds : list path) (q : path) : bool := existsb (fun d => is_prefix d q) ds.

Lemma is_prefix_app : forall d q x, is_prefix d q = true -> is_prefix d (q ++ [x]) = true.
Proof. intros d q x H. apply is_prefix_spec in H as [r ->]. apply is_prefix_spec. exists (r ++ [x]). rewrite app_assoc. reflexivity. Qed.

Lemma covered_ok : forall pol ds, Forall (dark_root pol) ds ->
  (forall q x, covered ds q = true -> covered ds (q ++ [x]) = true)
  /\ (forall q, covered ds q = true -> pol q = [])
  /\ (forall q, covered ds q = true -> q <> [] -> has lr (pol (parent q)) = false /\ has lw (pol (parent q)) = false).
Proof.
  intros pol ds Hds. rewrite Forall_forall in Hds. repeat split.
  - intros q x H. unfold covered in *. apply existsb_exists in H as [d [Hin Hp]]. apply existsb_exists. exists d. split; [exact Hin|apply is_prefix_app; exact Hp].
  - intros q H. unfold covered in H. apply existsb_exists in H as [d [Hin Hp]]. exact (proj1 (Hds d Hin) q Hp).
  - unfold covered in H. apply existsb_exists in H as [d [Hin Hp]].
    destruct (list_eq_dec N.eq_dec d q) as [->|Hne]; [exact (proj1 (proj2 (Hds q Hin) H0))|].
    rewrite (proj1 (Hds d Hin) (parent q) (is_prefix_parent d q Hp Hne)). reflexivity.
  - unfold covered in H. apply existsb_exists in H as [d [Hin Hp]].
    destruct (list_eq_dec N.eq_dec d q) as [->|Hne]; [exact (proj2 (proj2 (Hds q Hin) H0))|].
    rewrite (proj1 (Hds d Hin) (parent q) (is_prefix_parent d q Hp Hne)). reflexivity.
Qed.

Theorem c03_noninterference : forall cfg pol u ds a b rs,
  Forall (dark_root pol) ds ->
  filter (fun qc => negb (covered ds (fst qc))) a = filter (fun qc => negb (covered ds (fst qc))) b ->
  snd (run_history cfg pol u a rs) = snd (run_history cfg pol u b rs).
Proof.
  intros cfg pol u ds a b rs Hds H. destruct (covered_ok pol ds Hds) as (H1 & H2 & H3).
  exact (noninterference_history pol (covered ds) H1 H2 H3 cfg u rs a b H).
Qed.

Example c03_noninterference_nonvacuous :
  let pol : policy := fun q => match q with [10] => [82; 87] | [10; 20] => [114; 119] | [] => [82] | _ => [] end in
  Forall (dark_root pol) [[11]]
  /\ filter (fun qc => negb (covered [[11]] (fst qc))) [([], mkColl TNone [] []); ([11], mkColl TNone [] []); ([11; 20], mkColl TCal [] [(100, mkObj 1 CEvent 1)])]
     = filter (fun qc => negb (covered [[11]] (fst qc))) [([], mkColl TNone [] [])].
Proof.
  split; [|reflexivity]. constructor; [|constructor]. split.
  - intros q H. destruct q as [|x q]; [discriminate|]. cbn [is_prefix] in H. apply andb_true_iff in H as [H _]. apply N.eqb_eq in H. subst x.
    destruct q as [|y [|z q]]; reflexivity.
  - intros _. cbn. split; reflexivity.
Qed.
