(* C14 -- the stages of the upload pipeline do not disturb each other's normal form: the OUTPUT of put_model is
   in normal form (values in codec form, no clean-up applicable, children in vobject's order), hence storing the
   stored text again returns it unchanged (store once = store twice, same ETag). *)
From Coq Require Import List NArith Bool Lia Permutation Sorted.
Import ListNotations.
Require Import RV.Lib.PyStr RV.Proofs.PyStrLemmas RV.Model.ContentLine RV.Model.Vobj RV.Model.C14Spec.
Require RV.Proofs.TreeProofs RV.Proofs.TextProofs RV.Proofs.C14Final RV.Proofs.StrOrder RV.Proofs.LinesProofs.
Require Import RV.Proofs.CleanupProofs RV.Proofs.CanonProofs RV.Proofs.FixedPointProofs.
Import CleanupNames.
Open Scope N_scope.

(* ------------------------------------------------------------------ the tree put_model prints *)
Definition put_tree (t : pystr) : option node :=
  match parse_lines_qp (read_cleanup t) with
  | Some ls =>
      match build ls with
      | Some [x] => match sanitize (canon_values [] x) with Some y => Some (canon_node y) | None => None end
      | _ => None
      end
  | None => None
  end.

Lemma put_model_tree : forall t, put_model t = option_map (print_node []) (put_tree t).
Proof.
  intros t. unfold put_model, put_tree. destruct (parse_lines_qp (read_cleanup t)) as [ls|]; [|reflexivity].
  destruct (build ls) as [[|x [|? ?]]|]; try reflexivity. destruct (sanitize (canon_values [] x)); reflexivity.
Qed.

(* ------------------------------------------------------------------ generic list facts *)
Lemma map_fixed_iff : forall (A : Type) (f : A -> A) (l : list A), map f l = l <-> Forall (fun x => f x = x) l.
Proof.
  intros A f l. induction l as [|a r IH]; [split; [constructor|reflexivity]|].
  cbn [map]. split.
  - intros H. injection H as H1 H2. constructor; [exact H1|apply IH; exact H2].
  - intros H. inversion H; subst. f_equal; [assumption|apply IH; assumption].
Qed.

Lemma Forall_perm : forall (A : Type) (P : A -> Prop) (l l' : list A), Permutation l' l -> Forall P l -> Forall P l'.
Proof.
  intros A P l l' Hp H. rewrite Forall_forall in *. intros x Hx. apply H. eapply Permutation_in; eassumption.
Qed.

Lemma Forall_map_pres : forall (A : Type) (P : A -> Prop) (f : A -> A) (l : list A),
  (forall x, In x l -> P x -> P (f x)) -> Forall P l -> Forall P (map f l).
Proof.
  intros A P f l Hf H. induction H as [|a r Ha Hr IH]; [constructor|].
  cbn [map]. constructor; [apply Hf; [left; reflexivity|exact Ha]|]. apply IH. intros x Hx. apply Hf. right; exact Hx.
Qed.

(* ------------------------------------------------------------------ 1. value codecs: idempotent on a tree *)
(* side condition (needed: CATEGORIES:a,, loses one trailing comma per upload): every multi-TEXT value is stable *)
Fixpoint multi_stable (c : pystr) (x : node) : bool :=
  match x with
  | L l => match value_class c l with
           | VMulti sep => eqs (multitext_canon sep (multitext_canon sep (cl_value l))) (multitext_canon sep (cl_value l))
           | _ => true
           end
  | C n ch => forallb (multi_stable n) ch
  end.

Lemma value_class_canon : forall c l, value_class c (canon_value c l) = value_class c l.
Proof.
  intros c [g n ps v]. unfold canon_value. destruct (value_class c (mkCl g n ps v)) eqn:E; try exact E; rewrite <- E; reflexivity.
Qed.

Lemma canon_value_raw : forall c l, value_class c l = VRaw -> canon_value c l = l.
Proof. intros c l H. unfold canon_value. rewrite H. reflexivity. Qed.

Lemma canon_value_idem : forall c l, multi_stable c (L l) = true -> canon_value c (canon_value c l) = canon_value c l.
Proof.
  intros c l H. cbn [multi_stable] in H.
  unfold canon_value at 1. rewrite value_class_canon.
  destruct (value_class c l) eqn:E; unfold canon_value; rewrite E; cbn [cl_group cl_name cl_params cl_value].
  - destruct l; reflexivity.
  - f_equal. apply TextProofs.text_canon_idem.
  - f_equal. apply eqs_eq. exact H.
Qed.

Lemma canon_values_C : forall c n ch, canon_values c (C n ch) = C n (map (canon_values n) ch).
Proof. reflexivity. Qed.

Lemma canon_values_idem : forall x c, multi_stable c x = true -> canon_values c (canon_values c x) = canon_values c x.
Proof.
  induction x as [l | n ch IH] using TreeProofs.node_ind'; intros c Hs.
  - cbn [canon_values]. f_equal. apply canon_value_idem. exact Hs.
  - rewrite !canon_values_C. f_equal. rewrite map_map. cbn [multi_stable] in Hs. rewrite forallb_forall in Hs.
    apply map_ext_in. intros y Hy. rewrite Forall_forall in IH. apply IH; auto.
Qed.

Definition vfixed (c : pystr) (y : node) : Prop := canon_values c y = y.

Lemma vfixed_C : forall c n ch, vfixed c (C n ch) <-> Forall (vfixed n) ch.
Proof.
  intros c n ch. unfold vfixed. rewrite canon_values_C. rewrite <- map_fixed_iff. split.
  - intros H. injection H as H. exact H.
  - intros H. rewrite H. reflexivity.
Qed.

(* ------------------------------------------------------------------ 2. the clean-ups keep the values in codec form *)
Lemma main_exrdate_raw : forall m name, is_main_component m = true ->
  eqs name s_EXDATE || eqs name s_RDATE = true -> mem_str name (raw_names m) = true.
Proof.
  intros m name Hm Hn. unfold is_main_component in Hm.
  apply orb_true_iff in Hn. apply orb_true_iff in Hm.
  destruct Hm as [Hm|Hm]; [apply orb_true_iff in Hm; destruct Hm as [Hm|Hm]|];
    apply eqs_eq in Hm; subst m; (destruct Hn as [Hn|Hn]; apply eqs_eq in Hn; subst name; vm_compute; reflexivity).
Qed.

Lemma fix_dates_children_vfixed : forall m ref rt a b, is_main_component m = true ->
  Forall (vfixed m) a -> fix_dates_children ref rt a = Some b -> Forall (vfixed m) b.
Proof.
  intros m ref rt a. induction a as [|x r IH]; intros b Hm Ha Hb.
  - cbn in Hb. injection Hb as <-. constructor.
  - rewrite fix_dates_children_cons in Hb. inversion Ha as [|? ? Hx Hr]; subst.
    destruct (fix_dates_children ref rt r) as [r'|] eqn:Er; [|discriminate].
    specialize (IH r' Hm Hr eq_refl).
    destruct x as [l|n s].
    + destruct (eqs (cl_name l) s_EXDATE || eqs (cl_name l) s_RDATE) eqn:En.
      * destruct (fix_dates_line ref rt l) as [l'|] eqn:El; [|discriminate]. injection Hb as <-.
        constructor; [|exact IH]. unfold vfixed. cbn [canon_values]. f_equal. apply canon_value_raw.
        unfold value_class. rewrite (fix_dates_line_name _ _ _ _ El). rewrite (main_exrdate_raw m _ Hm En). reflexivity.
      * injection Hb as <-. constructor; assumption.
    + injection Hb as <-. constructor; assumption.
Qed.

Lemma fix_dates_vfixed : forall m a b, is_main_component m = true ->
  Forall (vfixed m) a -> fix_dates a = Some b -> Forall (vfixed m) b.
Proof.
  intros m a b Hm Ha Hb. unfold fix_dates in Hb. destruct (lines_named s_DTSTART a) as [|ref r].
  - injection Hb as <-. exact Ha.
  - destruct (dtstart_type ref); try discriminate; eapply fix_dates_children_vfixed; eassumption.
Qed.

Lemma fix_zero_duration_Forall : forall (P : node -> Prop) ch, Forall P ch -> Forall P (fix_zero_duration ch).
Proof.
  intros P ch H. rewrite Forall_forall in *. intros x Hx. apply H. apply fix_zero_duration_sub. exact Hx.
Qed.

Lemma sanitize_children_vfixed : forall c ch ch', Forall (vfixed c) ch -> sanitize_children ch = Some ch' -> Forall (vfixed c) ch'.
Proof.
  intros c ch. induction ch as [|x r IH]; intros ch' Ha Hb.
  - cbn in Hb. injection Hb as <-. constructor.
  - rewrite sanitize_children_cons in Hb. inversion Ha as [|? ? Hx Hr]; subst.
    destruct (sanitize_children r) as [r'|] eqn:Er; [|discriminate]. specialize (IH r' Hr eq_refl).
    destruct x as [l|n sub].
    + injection Hb as <-. constructor; assumption.
    + destruct (is_main_component n) eqn:Hm.
      * destruct (fix_dates (fix_zero_duration sub)) as [sub'|] eqn:Ef; [|discriminate]. injection Hb as <-.
        constructor; [|exact IH]. apply vfixed_C. apply vfixed_C in Hx.
        eapply fix_dates_vfixed; [exact Hm| |exact Ef]. apply fix_zero_duration_Forall. exact Hx.
      * injection Hb as <-. constructor; assumption.
Qed.

Lemma sanitize_vfixed : forall w y, vfixed [] w -> sanitize w = Some y -> vfixed [] y.
Proof.
  intros w y Hw Hs. rewrite sanitize_unfold in Hs. destruct w as [l|n ch]; [injection Hs as <-; exact Hw|].
  destruct (eqs n s_VCALENDAR); [|injection Hs as <-; exact Hw].
  destruct (sanitize_children ch) as [ch'|] eqn:E; [|discriminate]. injection Hs as <-.
  apply vfixed_C. apply vfixed_C in Hw. eapply sanitize_children_vfixed; eassumption.
Qed.

(* ------------------------------------------------------------------ 3. the ordering keeps the values in codec form *)
Lemma canon_node_vfixed : forall y c, vfixed c y -> vfixed c (canon_node y).
Proof.
  induction y as [l | n ch IH] using TreeProofs.node_ind'; intros c H; [exact H|].
  rewrite canon_node_C. apply vfixed_C. apply vfixed_C in H.
  eapply Forall_perm; [apply order_children_perm|].
  apply Forall_map_pres; [|exact H]. intros x Hx Px. rewrite Forall_forall in IH. apply IH; assumption.
Qed.

(* ------------------------------------------------------------------ 4. the ordering keeps "no clean-up applies" *)
Lemma lines_named_map_canon : forall k ch, lines_named k (map canon_node ch) = lines_named k ch.
Proof.
  intros k ch. induction ch as [|x r IH]; [reflexivity|]. cbn [map]. destruct x as [l|n s].
  - cbn [canon_node]. rewrite !lines_named_cons_L. rewrite IH. reflexivity.
  - rewrite canon_node_C. rewrite !lines_named_cons_C. exact IH.
Qed.

Lemma lines_named_with_key : forall k ch, lines_named k (with_key (lower_ascii k) ch) = lines_named k ch.
Proof.
  intros k ch. unfold with_key. induction ch as [|x r IH]; [reflexivity|]. cbn [filter].
  destruct x as [l|n s].
  - cbn [key_of]. destruct (eqs (lower_ascii (cl_name l)) (lower_ascii k)) eqn:E.
    + rewrite !lines_named_cons_L. rewrite IH. reflexivity.
    + rewrite lines_named_cons_L. rewrite IH. destruct (eqs (cl_name l) k) eqn:E2; [|reflexivity].
      apply eqs_eq in E2. subst k. rewrite eqs_refl in E. discriminate.
  - destruct (eqs (key_of (C n s)) (lower_ascii k)); rewrite ?lines_named_cons_C; exact IH.
Qed.

Lemma lines_named_order_default : forall k m ch, lines_named k (order_default m ch) = lines_named k ch.
Proof.
  intros k m ch. rewrite <- (lines_named_with_key k (order_default m ch)). rewrite order_default_stable.
  apply lines_named_with_key.
Qed.

Lemma order_children_main : forall m ch, is_main_component m = true -> order_children m ch = order_default m ch.
Proof.
  intros m ch Hm. unfold order_children. match goal with |- (if ?b then _ else _) = _ => destruct b eqn:E end; [|reflexivity].
  apply eqs_eq in E. subst m. vm_compute in Hm. discriminate.
Qed.

Definition fdl_ok (ref : cl) (rt : vtype) (x : node) : Prop :=
  match x with
  | L l => if eqs (cl_name l) s_EXDATE || eqs (cl_name l) s_RDATE then fix_dates_line ref rt l = Some l else True
  | C _ _ => True
  end.

Lemma fdc_fixed_fwd : forall ref rt ch, fix_dates_children ref rt ch = Some ch -> Forall (fdl_ok ref rt) ch.
Proof.
  intros ref rt ch. induction ch as [|x r IH]; intros H; [constructor|].
  rewrite fix_dates_children_cons in H. destruct (fix_dates_children ref rt r) as [r'|] eqn:Er; [|discriminate].
  assert (Hx : fdl_ok ref rt x /\ r' = r).
  { destruct x as [l|n s]; cbn [fdl_ok].
    - destruct (eqs (cl_name l) s_EXDATE || eqs (cl_name l) s_RDATE).
      + destruct (fix_dates_line ref rt l) as [l'|]; [|discriminate]. injection H as H1 H2. subst. split; reflexivity.
      + injection H as H2. split; [trivial|exact H2].
    - injection H as H2. split; [trivial|exact H2]. }
  destruct Hx as [Hx ->]. constructor; [exact Hx|apply IH; reflexivity].
Qed.

Lemma fdc_fixed_bwd : forall ref rt ch, Forall (fdl_ok ref rt) ch -> fix_dates_children ref rt ch = Some ch.
Proof.
  intros ref rt ch H. induction H as [|x r Hx Hr IH]; [reflexivity|].
  rewrite fix_dates_children_cons. rewrite IH. destruct x as [l|n s]; [|reflexivity]. cbn [fdl_ok] in Hx.
  destruct (eqs (cl_name l) s_EXDATE || eqs (cl_name l) s_RDATE); [rewrite Hx|]; reflexivity.
Qed.

Lemma fdl_ok_canon : forall ref rt x, fdl_ok ref rt x -> fdl_ok ref rt (canon_node x).
Proof. intros ref rt [l|n s] H; [exact H|]. rewrite canon_node_C. exact I. Qed.

Lemma comp_fixed_reorder : forall m sub, is_main_component m = true ->
  fix_dates (fix_zero_duration sub) = Some sub ->
  fix_dates (fix_zero_duration (order_children m (map canon_node sub))) = Some (order_children m (map canon_node sub)).
Proof.
  intros m sub Hm H.
  assert (Hz : zero_duration_applies sub = false).
  { rewrite (zero_duration_applies_fix_dates _ _ H). apply zero_duration_applies_fixed. }
  rewrite (fix_zero_duration_only _ Hz) in H.
  rewrite (order_children_main _ _ Hm).
  set (sub2 := order_default m (map canon_node sub)).
  assert (EL : forall k, lines_named k sub2 = lines_named k sub).
  { intros k. unfold sub2. rewrite lines_named_order_default. apply lines_named_map_canon. }
  assert (Hz2 : zero_duration_applies sub2 = false).
  { unfold zero_duration_applies in *. rewrite !EL. exact Hz. }
  rewrite (fix_zero_duration_only _ Hz2).
  unfold fix_dates in *. rewrite EL. destruct (lines_named s_DTSTART sub) as [|ref r]; [reflexivity|].
  assert (G : forall rt, fix_dates_children ref rt sub = Some sub -> fix_dates_children ref rt sub2 = Some sub2).
  { intros rt Hc. apply fdc_fixed_bwd. unfold sub2. eapply Forall_perm; [apply order_default_perm|].
    apply Forall_map_pres; [intros x _; apply fdl_ok_canon|]. apply fdc_fixed_fwd. exact Hc. }
  destruct (dtstart_type ref); try discriminate; apply G; exact H.
Qed.

Definition sc_ok (x : node) : Prop :=
  match x with
  | C m sub => if is_main_component m then fix_dates (fix_zero_duration sub) = Some sub else True
  | L _ => True
  end.

Lemma sc_fixed_fwd : forall ch, sanitize_children ch = Some ch -> Forall sc_ok ch.
Proof.
  intros ch. induction ch as [|x r IH]; intros H; [constructor|].
  rewrite sanitize_children_cons in H. destruct (sanitize_children r) as [r'|] eqn:Er; [|discriminate].
  assert (Hx : sc_ok x /\ r' = r).
  { destruct x as [l|n s]; cbn [sc_ok].
    - injection H as H2. split; [trivial|exact H2].
    - destruct (is_main_component n).
      + destruct (fix_dates (fix_zero_duration s)) as [s'|]; [|discriminate]. injection H as H1 H2. subst. split; reflexivity.
      + injection H as H2. split; [trivial|exact H2]. }
  destruct Hx as [Hx ->]. constructor; [exact Hx|apply IH; reflexivity].
Qed.

Lemma sc_fixed_bwd : forall ch, Forall sc_ok ch -> sanitize_children ch = Some ch.
Proof.
  intros ch H. induction H as [|x r Hx Hr IH]; [reflexivity|].
  rewrite sanitize_children_cons. rewrite IH. destruct x as [l|n s]; [reflexivity|]. cbn [sc_ok] in Hx.
  destruct (is_main_component n); [rewrite Hx|]; reflexivity.
Qed.

Lemma sc_ok_canon : forall x, sc_ok x -> sc_ok (canon_node x).
Proof.
  intros [l|m sub] H; [exact H|]. rewrite canon_node_C. cbn [sc_ok] in *.
  destruct (is_main_component m) eqn:Hm; [|exact I]. apply comp_fixed_reorder; assumption.
Qed.

Lemma sanitize_canon_fixed : forall y, sanitize y = Some y -> sanitize (canon_node y) = Some (canon_node y).
Proof.
  intros [l|n ch] H; [reflexivity|]. rewrite canon_node_C. rewrite sanitize_unfold in *.
  destruct (eqs n s_VCALENDAR); [|reflexivity].
  destruct (sanitize_children ch) as [ch'|] eqn:E; [|discriminate]. injection H as H. subst ch'.
  rewrite sc_fixed_bwd; [reflexivity|].
  eapply Forall_perm; [apply order_children_perm|].
  apply Forall_map_pres; [intros x _; apply sc_ok_canon|]. apply sc_fixed_fwd. exact E.
Qed.

(* ------------------------------------------------------------------ 4b. the consistency of the reference DTSTART is kept *)
Lemma cdc_ext : forall a b, lines_named s_DTSTART a = lines_named s_DTSTART b ->
  comp_dtstart_consistent a = comp_dtstart_consistent b.
Proof. intros a b H. unfold comp_dtstart_consistent. rewrite H. reflexivity. Qed.

Lemma sanitize_children_dtc : forall ch ch', children_dtstart_consistent ch = true ->
  sanitize_children ch = Some ch' -> children_dtstart_consistent ch' = true.
Proof.
  intros ch. induction ch as [|x r IH]; intros ch' Hc H.
  - cbn in H. injection H as <-. reflexivity.
  - rewrite sanitize_children_cons in H. unfold children_dtstart_consistent in Hc. cbn [forallb] in Hc.
    apply andb_prop in Hc. destruct Hc as [Hx Hr].
    destruct (sanitize_children r) as [r'|] eqn:Er; [|discriminate]. specialize (IH r' Hr eq_refl).
    unfold children_dtstart_consistent in *.
    destruct x as [l|n sub].
    + injection H as <-. cbn [forallb]. exact IH.
    + destruct (is_main_component n) eqn:Hm.
      * destruct (fix_dates (fix_zero_duration sub)) as [sub'|] eqn:Ef; [|discriminate]. injection H as <-.
        cbn [forallb]. rewrite IH, Hm. cbn [negb orb] in *. rewrite andb_true_r.
        rewrite (cdc_ext sub' (fix_zero_duration sub)); [rewrite comp_dtstart_consistent_fixed; exact Hx|].
        apply (lines_named_fix_dates s_DTSTART _ _ eq_refl eq_refl Ef).
      * injection H as <-. cbn [forallb]. rewrite IH, Hm. reflexivity.
Qed.

Lemma sanitize_dtc : forall w y, dtstart_consistent w = true -> sanitize w = Some y -> dtstart_consistent y = true.
Proof.
  intros w y Hc H. rewrite sanitize_unfold in H. destruct w as [l|n ch]; [injection H as <-; exact Hc|].
  unfold dtstart_consistent in *. destruct (eqs n s_VCALENDAR) eqn:En; [|injection H as <-; rewrite En; reflexivity].
  destruct (sanitize_children ch) as [ch'|] eqn:E; [|discriminate]. injection H as <-. rewrite En. cbn [negb orb] in *.
  eapply sanitize_children_dtc; eassumption.
Qed.

Lemma canon_node_dtc : forall y, dtstart_consistent y = true -> dtstart_consistent (canon_node y) = true.
Proof.
  intros [l|n ch] H; [reflexivity|]. rewrite canon_node_C. unfold dtstart_consistent in *.
  destruct (eqs n s_VCALENDAR); [|reflexivity]. cbn [negb orb] in *. unfold children_dtstart_consistent in *.
  rewrite forallb_forall in *. intros x' Hx'.
  apply (Permutation_in _ (order_children_perm n (map canon_node ch))) in Hx'.
  apply in_map_iff in Hx'. destruct Hx' as [x [<- Hx]]. specialize (H x Hx).
  destruct x as [l|m sub]; [reflexivity|]. rewrite canon_node_C.
  destruct (is_main_component m) eqn:Hm; [|reflexivity]. cbn [negb orb] in *.
  rewrite (cdc_ext _ sub); [exact H|].
  rewrite (order_children_main _ _ Hm). rewrite lines_named_order_default. apply lines_named_map_canon.
Qed.

(* ------------------------------------------------------------------ 5. the stages commute: output in stage-normal form *)
Theorem put_stages_commute : forall x y,
  multi_stable [] x = true ->                               (* no multi-TEXT value ending in an empty element *)
  dtstart_consistent (canon_values [] x) = true ->          (* no DTSTART whose VALUE parameter contradicts its value *)
  sanitize (canon_values [] x) = Some y ->
  let z := canon_node y in
  canon_values [] z = z /\ sanitize z = Some z /\ canon_node z = z.
Proof.
  intros x y Hm Hd Hs z. split; [|split].
  - apply canon_node_vfixed. eapply sanitize_vfixed; [|exact Hs]. apply canon_values_idem. exact Hm.
  - apply sanitize_canon_fixed. eapply sanitize_idem; eassumption.
  - apply canon_node_idem.
Qed.

Lemma put_stages_dtc : forall x y, dtstart_consistent (canon_values [] x) = true ->
  sanitize (canon_values [] x) = Some y -> dtstart_consistent (canon_node y) = true.
Proof. intros x y Hd Hs. apply canon_node_dtc. eapply sanitize_dtc; eassumption. Qed.

(* ------------------------------------------------------------------ 6. boolean forms of the line-level premises *)
Fixpoint sortedb (ps : list (pystr * list pystr)) : bool :=
  match ps with [] => true | a :: r => forallb (fun b => str_ltb (fst a) (fst b)) r && sortedb r end.
Definition no_brkb (s : pystr) : bool := forallb (fun c => negb (is_brk c)) s.
Definition name_charsb (s : pystr) : bool := forallb is_name_char s.
Definition wf_pvalueb (v : pystr) : bool := nonempty v && negb (contains_char DQ v) && no_brkb v.
Definition wf_paramb (kv : pystr * list pystr) : bool :=
  nonempty (fst kv) && name_charsb (fst kv) && eqs (upper_name (fst kv)) (fst kv) && nonempty (snd kv) && forallb wf_pvalueb (snd kv).
Definition wf_clb (l : cl) : bool :=
  match cl_group l with Some g => nonempty g && name_charsb g | None => true end
  && nonempty (cl_name l) && name_charsb (cl_name l) && eqs (upper_name (dash_name (cl_name l))) (cl_name l)
  && forallb wf_paramb (cl_params l) && sortedb (cl_params l) && negb (has_qp (cl_params l)) && no_brkb (cl_value l).

Lemma nonempty_ne : forall (A : Type) (s : list A), nonempty s = true -> s <> [].
Proof. intros A [|a r] H; [discriminate|discriminate]. Qed.
Lemma no_brkb_sound : forall s, no_brkb s = true -> no_brk s.
Proof.
  intros s H. unfold no_brkb in H. rewrite forallb_forall in H. unfold no_brk. rewrite Forall_forall. intros c Hc.
  apply negb_true_iff. apply H. exact Hc.
Qed.
Lemma name_charsb_sound : forall s, name_charsb s = true -> all_name_chars s.
Proof. intros s H. unfold name_charsb in H. rewrite forallb_forall in H. unfold all_name_chars. rewrite Forall_forall. exact H. Qed.
Lemma sortedb_sound : forall ps, sortedb ps = true -> StronglySorted (fun a b => str_ltb (fst a) (fst b) = true) ps.
Proof.
  induction ps as [|a r IH]; intros H; [constructor|]. cbn [sortedb] in H. apply andb_prop in H. destruct H as [H1 H2].
  constructor; [apply IH; exact H2|]. rewrite forallb_forall in H1. rewrite Forall_forall. exact H1.
Qed.
Lemma wf_pvalueb_sound : forall v, wf_pvalueb v = true -> wf_pvalue v.
Proof.
  intros v H. unfold wf_pvalueb in H. apply andb_prop in H. destruct H as [H H3]. apply andb_prop in H. destruct H as [H1 H2].
  split; [apply nonempty_ne; exact H1|split; [apply negb_true_iff; exact H2|apply no_brkb_sound; exact H3]].
Qed.
Lemma wf_paramb_sound : forall kv, wf_paramb kv = true -> wf_param kv.
Proof.
  intros kv H. unfold wf_paramb in H. repeat (apply andb_prop in H; let H' := fresh "P" in destruct H as [H H']).
  unfold wf_param. repeat split.
  - apply nonempty_ne; exact H.
  - apply name_charsb_sound; assumption.
  - apply eqs_eq; assumption.
  - apply nonempty_ne; assumption.
  - rewrite forallb_forall in *. rewrite Forall_forall. intros v Hv. apply wf_pvalueb_sound. auto.
Qed.
Lemma wf_clb_sound : forall l, wf_clb l = true -> wf_cl l.
Proof.
  intros l H. unfold wf_clb in H. repeat (apply andb_prop in H; let H' := fresh "P" in destruct H as [H H']).
  unfold wf_cl. repeat split.
  - destruct (cl_group l) as [g|]; [|exact I]. apply andb_prop in H. destruct H as [H1 H2].
    split; [apply nonempty_ne; exact H1|apply name_charsb_sound; exact H2].
  - apply nonempty_ne; assumption.
  - apply name_charsb_sound; assumption.
  - apply eqs_eq; assumption.
  - rewrite forallb_forall in *. rewrite Forall_forall. intros kv Hkv. apply wf_paramb_sound. auto.
  - apply sortedb_sound; assumption.
  - apply negb_true_iff; assumption.
  - apply no_brkb_sound; assumption.
Qed.

Fixpoint folds_normallyb (comp : pystr) (x : node) : bool :=
  match x with
  | L l => eqs (fold_line_in comp l) (fold_line (print_cl l))
  | C n ch => forallb (folds_normallyb n) ch
  end.
Lemma folds_normallyb_sound : forall x comp, folds_normallyb comp x = true -> folds_normally comp x.
Proof.
  induction x as [l | n ch IH] using TreeProofs.node_ind'; intros comp H.
  - cbn in *. apply eqs_eq. exact H.
  - apply folds_normally_C. cbn [folds_normallyb] in H. rewrite forallb_forall in H. rewrite Forall_forall in *.
    intros y Hy. apply IH; auto.
Qed.

(* ------------------------------------------------------------------ 6b. parameter order
   The tree holds the parameters of a line in the order the client sent them (and the EXDATE/RDATE clean-up appends
   VALUE / TZID at the end); print_cl sorts them, so the next read sees the SORTED tree.  The three stages are blind to
   the order of parameters with distinct names: stage-normal form carries over to the sorted tree. *)
Definition sort_cl (l : cl) : cl := mkCl (cl_group l) (cl_name l) (sort_params (cl_params l)) (cl_value l).
Fixpoint sort_node (x : node) : node :=
  match x with L l => L (sort_cl l) | C n ch => C n (map sort_node ch) end.

Fixpoint nodup_keysb (ps : list (pystr * list pystr)) : bool :=
  match ps with
  | [] => true
  | a :: r => match lookup (fst a) r with None => true | Some _ => false end && nodup_keysb r
  end.
Fixpoint ndb (x : node) : bool :=
  match x with L l => nodup_keysb (cl_params l) | C _ ch => forallb ndb ch end.
(* sorting the printed parameters again changes nothing (true of every list with distinct names; checked) *)
Fixpoint sorted_after (x : node) : bool :=
  match x with L l => sortedb (sort_params (cl_params l)) | C _ ch => forallb sorted_after ch end.

Lemma lookup_cons : forall k h t, lookup k (h :: t) = if eqs (fst h) k then Some (snd h) else lookup k t.
Proof. intros k h t. unfold lookup. cbn [find]. destruct (eqs (fst h) k); reflexivity. Qed.

Lemma lookup_insert_same : forall kv l, lookup (fst kv) l = None -> lookup (fst kv) (insert_param kv l) = Some (snd kv).
Proof.
  intros kv l. induction l as [|h t IH]; intros H.
  - cbn [insert_param]. rewrite lookup_cons, eqs_refl. reflexivity.
  - cbn [insert_param]. rewrite lookup_cons in H. destruct (eqs (fst h) (fst kv)) eqn:E; [discriminate|].
    destruct (str_leb (fst h) (fst kv)).
    + rewrite lookup_cons, E. apply IH. exact H.
    + rewrite lookup_cons, eqs_refl. reflexivity.
Qed.

Lemma lookup_insert_other : forall kv k l, eqs (fst kv) k = false -> lookup k (insert_param kv l) = lookup k l.
Proof.
  intros kv k l E. induction l as [|h t IH].
  - cbn [insert_param]. rewrite lookup_cons, E. reflexivity.
  - cbn [insert_param]. destruct (str_leb (fst h) (fst kv)).
    + rewrite !lookup_cons. rewrite IH. reflexivity.
    + rewrite lookup_cons, E. reflexivity.
Qed.

Lemma lookup_sort : forall ps, nodup_keysb ps = true -> forall k, lookup k (sort_params ps) = lookup k ps.
Proof.
  induction ps as [|a r IH]; intros H k; [reflexivity|].
  cbn [nodup_keysb] in H. apply andb_prop in H. destruct H as [H1 H2].
  unfold sort_params. cbn [fold_right]. fold (sort_params r).
  destruct (eqs (fst a) k) eqn:E.
  - apply eqs_eq in E. subst k. rewrite lookup_insert_same.
    + rewrite lookup_cons, eqs_refl. reflexivity.
    + rewrite IH by exact H2. destruct (lookup (fst a) r); [discriminate|reflexivity].
  - rewrite lookup_insert_other by exact E. rewrite lookup_cons, E. apply IH. exact H2.
Qed.

Lemma vpt_sort : forall l, nodup_keysb (cl_params l) = true -> value_param_type (sort_cl l) = value_param_type l.
Proof. intros l H. rewrite !vpt_lookup. unfold sort_cl. cbn [cl_params]. rewrite lookup_sort by exact H. reflexivity. Qed.

Lemma dtstart_type_sort : forall l, nodup_keysb (cl_params l) = true -> dtstart_type (sort_cl l) = dtstart_type l.
Proof. intros l H. unfold dtstart_type. rewrite vpt_sort by exact H. reflexivity. Qed.

Lemma value_class_sort : forall c l, nodup_keysb (cl_params l) = true -> value_class c (sort_cl l) = value_class c l.
Proof.
  intros c l H. unfold value_class, is_base64. rewrite !param_lookup. unfold sort_cl. cbn [cl_params cl_name].
  rewrite lookup_sort by exact H. reflexivity.
Qed.

Lemma canon_value_sort : forall c l, nodup_keysb (cl_params l) = true -> canon_value c (sort_cl l) = sort_cl (canon_value c l).
Proof.
  intros c l H. unfold canon_value. rewrite value_class_sort by exact H. destruct (value_class c l); reflexivity.
Qed.

Lemma canon_values_sort : forall x c, ndb x = true -> canon_values c (sort_node x) = sort_node (canon_values c x).
Proof.
  induction x as [l | n ch IH] using TreeProofs.node_ind'; intros c H.
  - cbn [sort_node canon_values]. f_equal. apply canon_value_sort. exact H.
  - cbn [sort_node]. rewrite !canon_values_C. cbn [sort_node]. f_equal. rewrite !map_map.
    cbn [ndb] in H. rewrite forallb_forall in H. rewrite Forall_forall in IH.
    apply map_ext_in. intros y Hy. apply IH; auto.
Qed.

(* ordering commutes with any map that keeps keys and kinds *)
Section OrderMap.
  Variable f : node -> node.
  Hypothesis f_key : forall x, key_of (f x) = key_of x.
  Hypothesis f_comp : forall x, is_comp (f x) = is_comp x.

  Lemma insert_node_map : forall x l, insert_node (f x) (map f l) = map f (insert_node x l).
  Proof.
    intros x l. induction l as [|h t IH]; [reflexivity|]. cbn [map insert_node]. rewrite !f_key.
    destruct (str_ltb (key_of h) (key_of x)); [cbn [map]; rewrite IH|]; reflexivity.
  Qed.
  Lemma sort_nodes_map : forall l, sort_nodes (map f l) = map f (sort_nodes l).
  Proof.
    induction l as [|h t IH]; [reflexivity|]. unfold sort_nodes in *. cbn [map fold_right]. rewrite IH. apply insert_node_map.
  Qed.
  Lemma with_key_map : forall k l, with_key k (map f l) = map f (with_key k l).
  Proof. intros k l. unfold with_key. apply filter_map_pres. intros x. rewrite f_key. reflexivity. Qed.
  Lemma without_keys_map : forall ks l, without_keys ks (map f l) = map f (without_keys ks l).
  Proof. intros ks l. unfold without_keys. apply filter_map_pres. intros x. rewrite f_key. reflexivity. Qed.
  Lemma order_default_map : forall c l, order_default c (map f l) = map f (order_default c l).
  Proof.
    intros c l. unfold order_default. rewrite map_app. rewrite without_keys_map, sort_nodes_map. f_equal.
    rewrite concat_map. f_equal. rewrite map_map. apply map_ext. intros k. apply with_key_map.
  Qed.
  Lemma order_children_map : forall c l, order_children c (map f l) = map f (order_children c l).
  Proof.
    intros c l. unfold order_children, order_vcalendar.
    match goal with |- (if ?b then _ else _) = _ => destruct b end; [|apply order_default_map].
    rewrite map_app. rewrite <- !order_default_map. f_equal; f_equal; apply filter_map_pres; intros x; rewrite f_comp; reflexivity.
  Qed.
End OrderMap.

Lemma sort_node_key : forall x, key_of (sort_node x) = key_of x.
Proof. intros [l|n ch]; reflexivity. Qed.
Lemma sort_node_comp : forall x, is_comp (sort_node x) = is_comp x.
Proof. intros [l|n ch]; reflexivity. Qed.

Lemma canon_node_sort : forall x, canon_node (sort_node x) = sort_node (canon_node x).
Proof.
  induction x as [l | n ch IH] using TreeProofs.node_ind'; [reflexivity|].
  cbn [sort_node]. rewrite !canon_node_C. cbn [sort_node]. f_equal.
  rewrite <- (order_children_map sort_node sort_node_key sort_node_comp). f_equal.
  rewrite !map_map. apply map_ext_in. intros y Hy. rewrite Forall_forall in IH. apply IH. exact Hy.
Qed.

(* clean-ups *)
Lemma lines_named_sort : forall k ch, lines_named k (map sort_node ch) = map sort_cl (lines_named k ch).
Proof.
  intros k ch. induction ch as [|x r IH]; [reflexivity|]. cbn [map]. destruct x as [l|n s]; cbn [sort_node].
  - rewrite !lines_named_cons_L. rewrite map_app, IH. change (cl_name (sort_cl l)) with (cl_name l).
    destruct (eqs (cl_name l) k); reflexivity.
  - rewrite !lines_named_cons_C. exact IH.
Qed.

Lemma fdl_sort : forall ref ref' rt l, nodup_keysb (cl_params l) = true ->
  dtstart_type ref = rt -> rt <> TOther -> dtstart_line_consistent ref = true ->
  fix_dates_line ref rt l = Some l -> fix_dates_line ref' rt (sort_cl l) = Some (sort_cl l).
Proof.
  intros ref ref' rt l Hn Ht Hr Hc H. rewrite fix_dates_line_unfold in *. rewrite vpt_sort by exact Hn.
  change (cl_value (sort_cl l)) with (cl_value l).
  destruct (nonempty (cl_value l)); [|reflexivity].
  destruct (negb (forallb (multidate_ok (value_param_type l)) (split_on COMMA (cl_value l)))); [discriminate|].
  destruct (vtype_eqb (value_param_type l) rt) eqn:E; [reflexivity|]. exfalso.
  injection H as H.
  assert (T : value_param_type l = rt) by (rewrite <- H; apply conv_type; assumption).
  rewrite T, vtype_eqb_refl in E. discriminate.
Qed.

Lemma In_L_ndb : forall l ch, forallb ndb ch = true -> In (L l) ch -> nodup_keysb (cl_params l) = true.
Proof. intros l ch H Hi. rewrite forallb_forall in H. apply (H (L l) Hi). Qed.

Lemma comp_fixed_sort : forall sub, forallb ndb sub = true -> comp_dtstart_consistent sub = true ->
  fix_dates (fix_zero_duration sub) = Some sub ->
  fix_dates (fix_zero_duration (map sort_node sub)) = Some (map sort_node sub).
Proof.
  intros sub Hn Hc H.
  assert (Hz : zero_duration_applies sub = false).
  { rewrite (zero_duration_applies_fix_dates _ _ H). apply zero_duration_applies_fixed. }
  rewrite (fix_zero_duration_only _ Hz) in H.
  assert (Hz2 : zero_duration_applies (map sort_node sub) = false).
  { rewrite <- Hz. unfold zero_duration_applies. rewrite !lines_named_sort.
    destruct (lines_named s_DTEND sub); destruct (lines_named s_DURATION sub); reflexivity. }
  rewrite (fix_zero_duration_only _ Hz2).
  unfold fix_dates in *. unfold comp_dtstart_consistent in Hc. rewrite lines_named_sort.
  destruct (lines_named s_DTSTART sub) as [|ref r] eqn:ED; [reflexivity|]. cbn [map].
  assert (Hnr : nodup_keysb (cl_params ref) = true).
  { apply (In_L_ndb ref sub Hn). apply (In_lines_named s_DTSTART). rewrite ED. left. reflexivity. }
  rewrite dtstart_type_sort by exact Hnr.
  assert (G : forall rt, dtstart_type ref = rt -> rt <> TOther -> fix_dates_children ref rt sub = Some sub ->
                         fix_dates_children (sort_cl ref) rt (map sort_node sub) = Some (map sort_node sub)).
  { intros rt Ht Hr Hf. apply fdc_fixed_bwd. apply fdc_fixed_fwd in Hf. rewrite Forall_forall in *.
    intros x' Hx'. apply in_map_iff in Hx'. destruct Hx' as [x [<- Hx]]. specialize (Hf x Hx).
    destruct x as [l|n s]; [|exact I]. cbn [sort_node fdl_ok] in *. change (cl_name (sort_cl l)) with (cl_name l).
    destruct (eqs (cl_name l) s_EXDATE || eqs (cl_name l) s_RDATE); [|exact I].
    apply (fdl_sort ref); try assumption. apply (In_L_ndb l sub Hn Hx). }
  destruct (dtstart_type ref) eqn:ET; try discriminate; apply G; try reflexivity; try discriminate; exact H.
Qed.

Lemma sanitize_sort_fixed : forall y, ndb y = true -> dtstart_consistent y = true ->
  sanitize y = Some y -> sanitize (sort_node y) = Some (sort_node y).
Proof.
  intros [l|n ch] Hn Hd H; [reflexivity|]. cbn [sort_node]. rewrite sanitize_unfold in *. unfold dtstart_consistent in Hd.
  destruct (eqs n s_VCALENDAR); [|reflexivity]. cbn [negb orb] in Hd.
  destruct (sanitize_children ch) as [ch'|] eqn:E; [|discriminate]. injection H as H. subst ch'.
  rewrite sc_fixed_bwd; [reflexivity|]. apply sc_fixed_fwd in E. cbn [ndb] in Hn.
  unfold children_dtstart_consistent in Hd. rewrite forallb_forall in Hn, Hd. rewrite Forall_forall in *.
  intros x' Hx'. apply in_map_iff in Hx'. destruct Hx' as [x [<- Hx]].
  specialize (E x Hx). specialize (Hn x Hx). specialize (Hd x Hx).
  destruct x as [l|m sub]; [exact I|]. cbn [sort_node sc_ok] in *.
  destruct (is_main_component m); [|exact I]. cbn [negb orb] in Hd. apply comp_fixed_sort; assumption.
Qed.

(* printing ignores the order of the parameters *)
Lemma print_cl_sort : forall l, sortedb (sort_params (cl_params l)) = true -> print_cl (sort_cl l) = print_cl l.
Proof.
  intros l H. unfold print_cl, sort_cl. cbn [cl_group cl_name cl_params cl_value].
  rewrite (LinesProofs.sort_params_sorted (sort_params (cl_params l))); [reflexivity|]. apply sortedb_sound. exact H.
Qed.

Lemma print_node_sort : forall x comp, sorted_after x = true -> print_node comp (sort_node x) = print_node comp x.
Proof.
  induction x as [l | n ch IH] using TreeProofs.node_ind'; intros comp H.
  - cbn [sort_node print_node]. unfold fold_line_in. change (cl_name (sort_cl l)) with (cl_name l).
    rewrite print_cl_sort by exact H. reflexivity.
  - cbn [sort_node print_node]. f_equal. f_equal. cbn [sorted_after] in H.
    induction ch as [|y r IHr]; [reflexivity|]. cbn [map]. inversion IH as [|? ? Hy Hrest]; subst.
    cbn [forallb] in H. apply andb_prop in H. destruct H as [Ha Hb]. f_equal; [apply Hy; exact Ha|]. apply IHr; assumption.
Qed.

(* ------------------------------------------------------------------ 6c. tree shape *)
Import TreeProofs.
Lemma upper_c_idem : forall c, upper_c (upper_c c) = upper_c c.
Proof.
  intros c. unfold upper_c. destruct ((97 <=? c) && (c <=? 122)) eqn:E; [|rewrite E; reflexivity].
  apply andb_true_iff in E. destruct E as [E1 E2]. apply N.leb_le in E1, E2.
  assert (F : (97 <=? c - 32) = false) by (apply N.leb_gt; lia). rewrite F. reflexivity.
Qed.
Lemma upper_ascii_idem : forall s, upper_ascii (upper_ascii s) = upper_ascii s.
Proof. intros s. unfold upper_ascii. rewrite map_map. apply map_ext. intros c. apply upper_c_idem. Qed.

(* ------------------------------------------------------------------ 4c. tree shape: build yields components with upper-case names *)
Definition comp_wf (x : node) : Prop := (exists n ch, x = C n ch) /\ wf_node x.
Definition frame_wf (f : frame) : Prop := upper_ascii (fst f) = fst f /\ Forall wf_node (snd f).

Lemma build_aux_wf : forall ls stack tops xs, Forall frame_wf stack -> Forall comp_wf tops ->
  build_aux ls stack tops = Some xs -> Forall comp_wf xs.
Proof.
  induction ls as [|l r IH]; intros stack tops xs Hs Ht H.
  - cbn [build_aux] in H. destruct stack; [|discriminate]. injection H as <-.
    rewrite Forall_forall in *. intros x Hx. apply Ht. apply in_rev. exact Hx.
  - cbn [build_aux] in H. destruct (eqs (cl_name l) s_BEGIN) eqn:Eb.
    + eapply IH; [|exact Ht|exact H]. constructor; [|exact Hs]. split; [apply upper_ascii_idem|constructor].
    + destruct (eqs (cl_name l) s_END) eqn:Ee.
      * destruct stack as [|[n ch] st]; [discriminate|]. destruct (eqs (upper_ascii (cl_value l)) n); [|discriminate].
        inversion Hs as [|? ? [Hn Hch] Hst]; subst. cbn [fst snd] in *.
        assert (Wc : wf_node (C n (rev ch))).
        { constructor; [exact Hn|]. rewrite Forall_forall in *. intros x Hx. apply Hch. apply in_rev. exact Hx. }
        destruct st as [|[n' ch'] st'].
        -- eapply IH; [constructor| |exact H]. constructor; [|exact Ht]. split; [eexists _, _; reflexivity|exact Wc].
        -- eapply IH; [|exact Ht|exact H]. inversion Hst as [|? ? [Hn' Hch'] Hst']; subst. cbn [fst snd] in *.
           constructor; [|exact Hst']. split; [exact Hn'|]. cbn [snd]. constructor; assumption.
      * destruct stack as [|[n ch] st]; [discriminate|].
        inversion Hs as [|? ? [Hn Hch] Hst]; subst. cbn [fst snd] in *.
        eapply IH; [|exact Ht|exact H]. constructor; [|exact Hst]. split; [exact Hn|]. cbn [snd].
        constructor; [|exact Hch]. constructor; assumption.
Qed.

Lemma build_wf : forall ls xs, build ls = Some xs -> Forall comp_wf xs.
Proof. intros ls xs H. eapply build_aux_wf; [| |exact H]; constructor. Qed.

Lemma wf_L_name : forall l l', cl_name l' = cl_name l -> wf_node (L l) -> wf_node (L l').
Proof. intros l l' E W. inversion W; subst. constructor; rewrite E; assumption. Qed.

Lemma canon_value_name : forall c l, cl_name (canon_value c l) = cl_name l.
Proof. intros c l. unfold canon_value. destruct (value_class c l); reflexivity. Qed.

Lemma Forall_map_in : forall (A : Type) (P : A -> Prop) (f : A -> A) (l : list A),
  Forall (fun x => P x -> P (f x)) l -> Forall P l -> Forall P (map f l).
Proof.
  intros A P f l HI H. induction H as [|a r Ha Hr IH]; [constructor|]. inversion HI; subst.
  cbn [map]. constructor; auto.
Qed.

Lemma wf_canon_values : forall x c, wf_node x -> wf_node (canon_values c x).
Proof.
  induction x as [l | n ch IH] using node_ind'; intros c W.
  - cbn [canon_values]. eapply wf_L_name; [apply canon_value_name|exact W].
  - inversion W; subst. rewrite canon_values_C. constructor; [assumption|].
    apply Forall_map_in; [|assumption]. rewrite Forall_forall in *. intros y Hy Wy. apply IH; assumption.
Qed.

Lemma wf_sort_node : forall x, wf_node x -> wf_node (sort_node x).
Proof.
  induction x as [l | n ch IH] using node_ind'; intros W.
  - cbn [sort_node]. eapply wf_L_name; [|exact W]. reflexivity.
  - inversion W; subst. cbn [sort_node]. constructor; [assumption|].
    apply Forall_map_in; [|assumption]. rewrite Forall_forall in *. intros y Hy Wy. apply IH; assumption.
Qed.

Lemma wf_canon_node : forall x, wf_node x -> wf_node (canon_node x).
Proof.
  induction x as [l | n ch IH] using node_ind'; intros W; [exact W|].
  inversion W; subst. rewrite canon_node_C. constructor; [assumption|].
  eapply Forall_perm; [apply order_children_perm|].
  apply Forall_map_in; [|assumption]. rewrite Forall_forall in *. intros y Hy Wy. apply IH; assumption.
Qed.

Lemma fix_dates_children_wf : forall ref rt a b,
  Forall wf_node a -> fix_dates_children ref rt a = Some b -> Forall wf_node b.
Proof.
  intros ref rt a. induction a as [|x r IH]; intros b Ha Hb.
  - cbn in Hb. injection Hb as <-. constructor.
  - rewrite fix_dates_children_cons in Hb. inversion Ha as [|? ? Hx Hr]; subst.
    destruct (fix_dates_children ref rt r) as [r'|] eqn:Er; [|discriminate]. specialize (IH r' Hr eq_refl).
    destruct x as [l|n s].
    + destruct (eqs (cl_name l) s_EXDATE || eqs (cl_name l) s_RDATE).
      * destruct (fix_dates_line ref rt l) as [l'|] eqn:El; [|discriminate]. injection Hb as <-.
        constructor; [|exact IH]. eapply wf_L_name; [apply (fix_dates_line_name _ _ _ _ El)|exact Hx].
      * injection Hb as <-. constructor; assumption.
    + injection Hb as <-. constructor; assumption.
Qed.

Lemma fix_dates_wf : forall a b, Forall wf_node a -> fix_dates a = Some b -> Forall wf_node b.
Proof.
  intros a b Ha Hb. unfold fix_dates in Hb. destruct (lines_named s_DTSTART a) as [|ref r].
  - injection Hb as <-. exact Ha.
  - destruct (dtstart_type ref); try discriminate; eapply fix_dates_children_wf; eassumption.
Qed.

Lemma sanitize_children_wf : forall ch ch', Forall wf_node ch -> sanitize_children ch = Some ch' -> Forall wf_node ch'.
Proof.
  intros ch. induction ch as [|x r IH]; intros ch' Ha Hb.
  - cbn in Hb. injection Hb as <-. constructor.
  - rewrite sanitize_children_cons in Hb. inversion Ha as [|? ? Hx Hr]; subst.
    destruct (sanitize_children r) as [r'|] eqn:Er; [|discriminate]. specialize (IH r' Hr eq_refl).
    destruct x as [l|n sub].
    + injection Hb as <-. constructor; assumption.
    + destruct (is_main_component n).
      * destruct (fix_dates (fix_zero_duration sub)) as [sub'|] eqn:Ef; [|discriminate]. injection Hb as <-.
        constructor; [|exact IH]. inversion Hx; subst. constructor; [assumption|].
        eapply fix_dates_wf; [|exact Ef]. apply fix_zero_duration_Forall. assumption.
      * injection Hb as <-. constructor; assumption.
Qed.

Lemma wf_sanitize : forall w y, wf_node w -> sanitize w = Some y -> wf_node y.
Proof.
  intros w y W H. rewrite sanitize_unfold in H. destruct w as [l|n ch]; [injection H as <-; exact W|].
  destruct (eqs n CleanupNames.s_VCALENDAR); [|injection H as <-; exact W].
  destruct (sanitize_children ch) as [ch'|] eqn:E; [|discriminate]. injection H as <-.
  inversion W; subst. constructor; [assumption|]. eapply sanitize_children_wf; eassumption.
Qed.

(* the printed tree of an accepted upload is one component with upper-case component names, no BEGIN/END property *)
Lemma put_tree_shape : forall ls x y, build ls = Some [x] -> sanitize (canon_values [] x) = Some y ->
  exists n ch, sort_node (canon_node y) = C n ch /\ wf_node (sort_node (canon_node y)).
Proof.
  intros ls x y Hb Hs. apply build_wf in Hb. inversion Hb as [|? ? [[n [ch E]] W] _]; subst.
  assert (Wz : wf_node (sort_node (canon_node y))).
  { apply wf_sort_node. apply wf_canon_node. eapply wf_sanitize; [|exact Hs]. apply wf_canon_values. exact W. }
  rewrite canon_values_C in Hs. rewrite sanitize_unfold in Hs.
  assert (exists ch', y = C n ch') as [ch' ->].
  { destruct (eqs n CleanupNames.s_VCALENDAR); [|injection Hs as <-; eexists; reflexivity].
    destruct (sanitize_children _); [|discriminate]. injection Hs as <-. eexists; reflexivity. }
  rewrite canon_node_C in *. cbn [sort_node] in *. eexists _, _. split; [reflexivity|exact Wz].
Qed.

(* ------------------------------------------------------------------ 6d. what the line check already implies *)
Lemma lookup_all_gt : forall k l, forallb (fun b => str_ltb k (fst b)) l = true -> lookup k l = None.
Proof.
  intros k l. induction l as [|h t IH]; intros H; [reflexivity|]. cbn [forallb] in H. apply andb_prop in H. destruct H as [H1 H2].
  rewrite lookup_cons. rewrite CleanupProofs.eqs_sym. rewrite (StrOrder.str_ltb_eqs _ _ H1). apply IH. exact H2.
Qed.

Lemma forallb_insert_param : forall (P : pystr * list pystr -> bool) a l,
  forallb P (insert_param a l) = P a && forallb P l.
Proof.
  intros P a l. induction l as [|h t IH]; [reflexivity|]. cbn [insert_param].
  destruct (str_leb (fst h) (fst a)); cbn [forallb]; [rewrite IH|reflexivity].
  destruct (P h); destruct (P a); reflexivity.
Qed.

Lemma sorted_insert_inv : forall a l, sortedb (insert_param a l) = true -> sortedb l = true /\ lookup (fst a) l = None.
Proof.
  intros a l. induction l as [|h t IH]; intros H; [split; reflexivity|]. cbn [insert_param] in H.
  destruct (str_leb (fst h) (fst a)).
  - cbn [sortedb] in H. apply andb_prop in H. destruct H as [H1 H2]. destruct (IH H2) as [S Lk].
    rewrite forallb_insert_param in H1. apply andb_prop in H1. destruct H1 as [Ha Ht]. split.
    + cbn [sortedb]. rewrite Ht, S. reflexivity.
    + rewrite lookup_cons. rewrite (StrOrder.str_ltb_eqs _ _ Ha). exact Lk.
  - cbn [sortedb] in H. apply andb_prop in H. destruct H as [H1 H2]. split; [exact H2|]. apply lookup_all_gt. exact H1.
Qed.

Lemma nodup_of_sorted : forall ps, sortedb (sort_params ps) = true -> nodup_keysb ps = true.
Proof.
  induction ps as [|a r IH]; intros H; [reflexivity|]. unfold sort_params in H. cbn [fold_right] in H. fold (sort_params r) in H.
  destruct (sorted_insert_inv _ _ H) as [S Lk]. specialize (IH S). cbn [nodup_keysb]. rewrite IH.
  rewrite (lookup_sort r IH) in Lk. rewrite Lk. reflexivity.
Qed.

Lemma forallb_flatten_all : forall (P : cl -> bool) l, forallb P (flatten_all l) = true ->
  forall y, In y l -> forallb P (flatten y) = true.
Proof.
  intros P l. induction l as [|x r IH]; intros H y Hy; [destruct Hy|]. rewrite flatten_all_cons in H. rewrite forallb_app in H.
  apply andb_prop in H. destruct H as [H1 H2]. destruct Hy as [<-|Hy]; [exact H1|apply IH; assumption].
Qed.

Lemma wf_clb_sorted : forall l, wf_clb l = true -> sortedb (cl_params l) = true.
Proof.
  intros l H. unfold wf_clb in H. repeat (apply andb_prop in H; let H' := fresh "P" in destruct H as [H H']). assumption.
Qed.

Lemma lines_check_implies : forall x, forallb wf_clb (flatten (sort_node x)) = true -> ndb x = true /\ sorted_after x = true.
Proof.
  induction x as [l | n ch IH] using node_ind'; intros H.
  - cbn [sort_node flatten forallb] in H. rewrite andb_true_r in H. apply wf_clb_sorted in H. unfold sort_cl in H. cbn [cl_params] in H.
    cbn [ndb sorted_after]. split; [apply nodup_of_sorted|]; exact H.
  - cbn [sort_node] in H. rewrite flatten_C in H. cbn [forallb] in H. apply andb_prop in H. destruct H as [_ H].
    rewrite forallb_app in H. apply andb_prop in H. destruct H as [H _].
    cbn [ndb sorted_after]. rewrite !forallb_forall. rewrite Forall_forall in IH.
    split; intros y Hy; apply (IH y Hy); apply (forallb_flatten_all _ _ H); apply in_map; exact Hy.
Qed.

(* what remains to be CHECKED on the stored object (computable; observed on every generated object by checks/C14.py):
   on the tree with sorted parameters -- the one the next read builds --: well-formed lines (names, parameter values
   non-empty and without DQUOTE, strictly sorted i.e. distinct parameter names, no line break), no vCard PHOTO, clean-up-free text, not quoted-printable, outside the known
   class C14:fold-ws *)
Definition out_okb (z : node) : bool :=
  let z' := sort_node z in
  forallb wf_clb (flatten z') && folds_normallyb [] z'
  && eqs (read_cleanup (print_node [] z')) (print_node [] z')
  && forallb (fun l => negb (mentions_qp (print_cl l))) (flatten z')
  && forallb (fun p => negb (ws_only_line p)) (phys_lines (print_node [] z')).

(* the side condition of the composition theorem, a predicate of the uploaded text (true when the upload is refused) *)
Definition put_side_ok (s : pystr) : bool :=
  match parse_lines_qp (read_cleanup s) with
  | Some ls =>
      match build ls with
      | Some [x] =>
          multi_stable [] x && dtstart_consistent (canon_values [] x)
          && match sanitize (canon_values [] x) with Some y => out_okb (canon_node y) | None => true end
      | _ => true
      end
  | None => true
  end.

Theorem put_output_normal : forall s s',
  put_model s = Some s' -> put_side_ok s = true ->
  exists z, s' = print_node [] z /\ normal_form z /\ read_cleanup s' = s' /\
            Forall (fun l => mentions_qp (print_cl l) = false) (flatten z) /\ no_ws_only_lines s'.
Proof.
  intros s s' Hp Hside. unfold put_model in Hp. unfold put_side_ok in Hside.
  destruct (parse_lines_qp (read_cleanup s)) as [ls|]; [|discriminate].
  destruct (build ls) as [[|x [|? ?]]|] eqn:Hb; try discriminate.
  destruct (sanitize (canon_values [] x)) as [y|] eqn:Hs; [|discriminate]. injection Hp as <-.
  apply andb_prop in Hside. destruct Hside as [Hside Ho]. apply andb_prop in Hside. destruct Hside as [Hm Hd].
  destruct (put_stages_commute x y Hm Hd Hs) as [Hv [Hc Hn]].
  pose proof (put_tree_shape ls x y Hb Hs) as Hshape.
  pose proof (put_stages_dtc x y Hd Hs) as Hdz.
  set (z := canon_node y) in *. exists (sort_node z).
  unfold out_okb in Ho. cbv zeta in Ho. repeat (apply andb_prop in Ho; let H' := fresh "Q" in destruct Ho as [Ho H']).
  assert (Hnd : ndb z = true /\ sorted_after z = true) by (apply lines_check_implies; assumption).
  destruct Hnd as [Hnd Hsa].
  assert (Ep : print_node [] (sort_node z) = print_node [] z) by (apply print_node_sort; assumption).
  rewrite <- Ep.
  split; [reflexivity|]. split; [|split; [|split]].
  - constructor.
    + exact Hshape.
    + rewrite forallb_forall in *. rewrite Forall_forall. intros l Hl. apply wf_clb_sound. auto.
    + rewrite canon_values_sort by assumption. rewrite Hv. reflexivity.
    + apply sanitize_sort_fixed; assumption.
    + rewrite canon_node_sort. rewrite Hn. reflexivity.
    + apply folds_normallyb_sound. assumption.
  - apply eqs_eq. assumption.
  - rewrite forallb_forall in *. rewrite Forall_forall. intros l Hl. apply negb_true_iff. auto.
  - unfold no_ws_only_lines. rewrite forallb_forall in *. rewrite Forall_forall. intros p Hp. apply negb_true_iff. auto.
Qed.

(* store once = store twice: the stored text is accepted again and gives the same octets (same ETag) *)
Theorem put_idempotent : forall s s', put_model s = Some s' -> put_side_ok s = true -> put_model s' = Some s'.
Proof.
  intros s s' Hp Hside. destruct (put_output_normal s s' Hp Hside) as [z [-> [NF [H1 [H2 H3]]]]].
  apply put_model_fixed_point; assumption.
Qed.

Corollary put_then_reload : forall s s', put_model s = Some s' -> put_side_ok s = true ->
  C14Final.served_text (C14Final.mkStored s' None) = Some s'.
Proof. intros s s' Hp Hs. apply C14Final.served_after_cache_loss. eapply put_idempotent; eassumption. Qed.

(* ------------------------------------------------------------------ 7. examples: non-vacuity, and the side condition is needed *)
Module ComposeExamples.
  Import Coq.Strings.String.
  Definition mk (ls : list string) : pystr := List.concat (map (fun l => str l ++ [CR; LF]) ls).
  (* an upload on which every stage does something: properties out of order, zero DURATION next to DTEND, EXDATE of the
     wrong value type (the clean-up appends VALUE=DATE after X-A), a TEXT value to escape, parameters not in sorted order,
     a quoted parameter, a nested VALARM *)
  Definition busy : pystr := mk
    ["BEGIN:VCALENDAR"; "PRODID:-//x//EN"; "VERSION:2.0"; "BEGIN:VEVENT"; "SUMMARY:a,b;c"; "DTSTART;VALUE=DATE:20200102";
     "UID:u1"; "DTSTAMP:20200101T000000Z"; "EXDATE;X-A=1:20200103T100000Z"; "DTEND;VALUE=DATE:20200103"; "DURATION:PT0S";
     "CATEGORIES:a,b"; "ATTENDEE;ROLE=CHAIR;CN=""Doe, J"":mailto:x@y"; "BEGIN:VALARM"; "TRIGGER:-PT5M"; "ACTION:DISPLAY";
     "END:VALARM"; "END:VEVENT"; "END:VCALENDAR"]%string.
  (* CATEGORIES ending in empty elements: vobject drops one trailing empty element per parse *)
  Definition trailing : pystr := mk
    ["BEGIN:VCALENDAR"; "VERSION:2.0"; "PRODID:-//x//EN"; "BEGIN:VEVENT"; "UID:u1"; "DTSTAMP:20200101T000000Z";
     "DTSTART:20200102T100000Z"; "SUMMARY:s"; "CATEGORIES:a,,"; "END:VEVENT"; "END:VCALENDAR"]%string.
  (* known class C14:empty-param: CN="" is written as CN= and vanishes at the next parse *)
  Definition empty_param : pystr := mk
    ["BEGIN:VCALENDAR"; "VERSION:2.0"; "PRODID:-//x//EN"; "BEGIN:VEVENT"; "UID:u1"; "DTSTAMP:20200101T000000Z";
     "DTSTART:20200102T100000Z"; "ATTENDEE;CN="""":mailto:x@y"; "END:VEVENT"; "END:VCALENDAR"]%string.
End ComposeExamples.

Example put_side_ok_nonvacuous :
  put_side_ok ComposeExamples.busy = true /\
  exists s', put_model ComposeExamples.busy = Some s' /\ eqs s' ComposeExamples.busy = false /\ put_model s' = Some s'.
Proof.
  split; [vm_compute; reflexivity|]. eexists. split; [vm_compute; reflexivity|]. split; vm_compute; reflexivity.
Qed.

Example put_idempotent_side_condition_needed :
  put_side_ok ComposeExamples.trailing = false /\
  exists s1 s2, put_model ComposeExamples.trailing = Some s1 /\ put_model s1 = Some s2 /\ eqs s1 s2 = false.
Proof.
  split; [vm_compute; reflexivity|]. eexists _, _. split; [vm_compute; reflexivity|]. split; vm_compute; reflexivity.
Qed.

Example put_idempotent_empty_param_needed :
  put_side_ok ComposeExamples.empty_param = false /\
  exists s1 s2, put_model ComposeExamples.empty_param = Some s1 /\ put_model s1 = Some s2 /\ eqs s1 s2 = false.
Proof.
  split; [vm_compute; reflexivity|]. eexists _, _. split; [vm_compute; reflexivity|]. split; vm_compute; reflexivity.
Qed.

(* ------------------------------------------------------------------ 8. for the correspondence check: a stored text classified *)
(* 0: every premise of put_idempotent holds for the stored text AND it is a fixed point of put_model;
   1: premises hold, not a fixed point;  2: a premise fails;
   3: outside the theorem for a documented reason (vCard PHOTO never folded, known class C14:fold-ws, quoted-printable) *)
Definition eq_opt_str (a : option pystr) (b : pystr) : bool := match a with Some x => eqs x b | None => false end.
Definition stored_outside (o : pystr) : bool :=
  negb (forallb (fun p => negb (ws_only_line p)) (phys_lines o))
  || mentions_qp o
  || match put_tree o with Some z => negb (folds_normallyb [] z) | None => false end.
Definition stored_check (o : pystr) : N :=
  if stored_outside o then 3
  else if negb (put_side_ok o) then 2
  else if eq_opt_str (put_model o) o then 0 else 1.
Definition stored_check_ok (m e : N) : bool := (m =? 0) || ((m =? 3) && (e =? 3)).
