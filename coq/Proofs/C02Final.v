(* C02: the theorems about `run` (any oracle; crash_at k and fail_at k e as corollaries), what stays
   untouched, invisibility of temp / cache residue, the non-atomic rename_exchange fall-back. *)
From Coq Require Import List NArith Bool Lia PeanoNat.
Import ListNotations.
Require Import RV.Lib.Prog RV.Model.Fs RV.Model.StorageOps RV.Proofs.ProgLemmas RV.Proofs.FsLemmas
  RV.Proofs.FsInv RV.Proofs.CacheCalm RV.Proofs.C12Units RV.Proofs.C12Units2 RV.Proofs.C12Final
  RV.Proofs.C02Base RV.Proofs.C02Units RV.Proofs.C02Units2 RV.Proofs.C02Units3 RV.Proofs.C02Create.
Open Scope N_scope.
Local Transparent machine_wp.

(* collections that exist when the handler calls the operation (for create: the parent) *)
Definition unit_dirs02 (u : unit_op) : list path :=
  match u with
  | UCreate p _ _ => [parent p]
  | _ => unit_dirs u
  end.

Lemma unit_c02 : forall lay u s0 t, unit_wf u -> dirs_exist (unit_dirs02 u) s0 -> fs_inv_weak s0 ->
  machine_wp (unit_prog lay u) (AFT u s0) (fun _ => OUT u s0) (OUT u s0) s0 t.
Proof.
  intros lay u s0 t Hwf Hd Hi. destruct u; cbn [unit_prog unit_wf unit_dirs02 unit_dirs] in *.
  - destruct Hwf. apply upload_c02; auto. apply Hd. left. reflexivity.
  - destruct Hwf. apply delete_item_c02; auto. apply Hd. left. reflexivity.
  - apply delete_coll_c02; auto.
  - destruct Hwf as (H1 & H2 & H3 & H4 & H5 & H6). apply move_c02; auto; apply Hd; [left | right; left]; reflexivity.
  - apply set_meta_c02; auto.
  - apply mkdir_c02; auto.
  - destruct Hwf as (par & x & -> & Hp & Hx). apply create_c02; auto. apply Hd. rewrite parent_snoc. left. reflexivity.
Qed.

Definition result_ok (u : unit_op) (s0 : fs) (r : config step fs * outcome errno) : Prop :=
  let s' := c_st (fst r) in
  fs_inv_weak s' /\ (abs_eq s' s0 \/ dpost (ideal u s0) s') /\ (snd r = ONorm -> dpost (ideal u s0) s').

(* every oracle: any set of failing calls, a kill anywhere *)
Lemma c02_any : forall lay u s0 (o : oracle errno), unit_wf u -> dirs_exist (unit_dirs02 u) s0 -> fs_inv_weak s0 ->
  result_ok u s0 (machine_run o (unit_prog lay u) (start s0)).
Proof.
  intros lay u s0 o Hwf Hd Hi.
  pose proof (wp_sound step errno path (option node) fs apply look ls _ _ _ _ s0 [] (unit_c02 lay u s0 [] Hwf Hd Hi) o 0%nat 0) as Hs.
  unfold post_of in Hs. unfold result_ok, machine_run, start.
  destruct (run step errno path (option node) fs apply look ls o (unit_prog lay u) (Cfg 0 0 s0 [])) as [c out].
  cbn [fst snd] in *. destruct out as [|e|]; destruct Hs as [H1 H2]; (split; [exact H1|]); split; auto; intro; discriminate.
Qed.

Lemma c02_crash : forall lay u s0 k, unit_wf u -> dirs_exist (unit_dirs02 u) s0 -> fs_inv_weak s0 ->
  result_ok u s0 (machine_run (crash_at k) (unit_prog lay u) (start s0)).
Proof. intros. apply c02_any; assumption. Qed.

Lemma c02_fault : forall lay u s0 k e, unit_wf u -> dirs_exist (unit_dirs02 u) s0 -> fs_inv_weak s0 ->
  result_ok u s0 (machine_run (fail_at k e) (unit_prog lay u) (start s0)).
Proof. intros. apply c02_any; assumption. Qed.

(* ------------------------------------------------------------------ everything outside the target is untouched *)
Definition targets (u : unit_op) : list path :=
  match u with
  | UUpload c h _ _ | UDeleteItem c h _ => [c ++ [h]]
  | UDeleteColl c => [c]
  | UMove c h c' h' _ _ _ => [c ++ [h]; c' ++ [h']]
  | USetMeta c _ => [c ++ [Props]]
  | UMkdir p | UCreate p _ _ => [p]
  end.

Lemma prefix_false_neq : forall a q, prefix a q = false -> path_eqb q a = false.
Proof. intros a q H. apply path_eqb_neq. intros ->. rewrite prefix_refl in H. discriminate. Qed.

Lemma ideal_frame : forall u s0 q, (forall tg, In tg (targets u) -> prefix tg q = false) -> ideal u s0 q = look s0 q.
Proof.
  intros u s0 q H. destruct u; cbn [ideal targets] in *;
    try (rewrite (H _ (or_introl eq_refl))); try (rewrite (prefix_false_neq _ _ (H _ (or_introl eq_refl)))); try reflexivity.
  rewrite (H _ (or_intror (or_introl eq_refl))). reflexivity.
Qed.

Lemma c02_untouched : forall lay u s0 (o : oracle errno) q, unit_wf u -> dirs_exist (unit_dirs02 u) s0 -> fs_inv_weak s0 ->
  is_data q = true -> (forall tg, In tg (targets u) -> prefix tg q = false) ->
  look (c_st (fst (machine_run o (unit_prog lay u) (start s0)))) q = look s0 q.
Proof.
  intros lay u s0 o q Hwf Hd Hi Hq Hout. destruct (c02_any lay u s0 o Hwf Hd Hi) as (_ & [Hb | Ha] & _).
  - apply Hb. exact Hq.
  - rewrite (Ha q Hq). apply ideal_frame. exact Hout.
Qed.

(* ------------------------------------------------------------------ residue is invisible *)
Fixpoint apply_all (l : list step) (s : fs) : option fs :=
  match l with
  | [] => Some s
  | st :: r => match apply st s with inl s' => apply_all r s' | inr _ => None end
  end.

(* any sequence of changes confined to temp / cache / reserved paths (what a killed request leaves
   behind, what a later clean-up removes) does not change the client-visible store *)
Lemma c02_recover : forall l s s', forallb nondata_step l = true -> apply_all l s = Some s' ->
  abs_eq s' s /\ (fs_inv_weak s -> fs_inv_weak s').
Proof.
  induction l as [|st l IH]; intros s s' Hnd Ha; cbn in *.
  - injection Ha as <-. split; [apply abs_eq_refl | auto].
  - apply andb_true_iff in Hnd. destruct Hnd as [H1 H2]. destruct (apply st s) as [s1|e] eqn:E; [|discriminate].
    destruct (IH s1 s' H2 Ha) as [Hab Hinv]. split.
    + eapply abs_eq_trans; [exact Hab | eapply nondata_abs; eauto].
    + intro Hi. apply Hinv. eapply apply_inv; eauto.
Qed.

(* ------------------------------------------------------------------ the three-rename fall-back of rename_exchange is not atomic *)
Definition fb_u : path := [Root; Safe 2].
Definition fb_cal : path := [Root; Safe 2; Safe 3].
Definition fb_fs : fs := init_fs [([], D); ([Root], D); (fb_u, D); (fb_cal, D); (fb_cal ++ [Props], F 7); (fb_cal ++ [Safe 4], F 8)].
Definition fb_lay : layout := {| l_item := false; l_hist := false |}.
Definition fb_prog : P := create_collection_fallback fb_lay fb_cal (Some [(Safe 10, 11)]) (Some 14).
Definition fb_final : fs := c_st (fst (machine_run no_fault fb_prog (start fb_fs))).

Lemma c02_exchange_fallback_refuted :
  exists k, let sk := c_st (fst (machine_run (crash_at k) fb_prog (start fb_fs))) in
            ~ abs_eq sk fb_fs /\ ~ abs_eq sk fb_final.
Proof.
  exists 23%nat. split; intro H.
  - specialize (H fb_cal eq_refl). vm_compute in H. discriminate.
  - specialize (H fb_cal eq_refl). vm_compute in H. discriminate.
Qed.

Lemma init_fs_inv : forall entries, inv_check entries = true -> fs_inv_weak (init_fs entries).
Proof.
  intros entries H. unfold inv_check in H. apply andb_true_iff in H. destruct H as [H0 Hall].
  rewrite forallb_forall in Hall. split; [split|].
  - destruct (look (init_fs entries) []) as [[|c]|]; try discriminate. reflexivity.
  - intros p x Hne. cbn [look init_fs] in Hne.
    destruct (find (fun e => path_eqb (fst e) (p ++ [x])) entries) as [[q n]|] eqn:E; [|congruence].
    apply find_some in E. destruct E as [Hin Heq]. cbn [fst] in Heq. apply path_eqb_eq in Heq. subst q.
    specialize (Hall _ Hin). cbn [fst] in Hall. rewrite parent_snoc in Hall.
    destruct (p ++ [x]) eqn:Epx; [destruct p; discriminate|].
    destruct (look (init_fs entries) p) as [[|c]|]; try discriminate. reflexivity.
  - intros p Hne. cbn [look dom init_fs] in *.
    destruct (find (fun e => path_eqb (fst e) p) entries) as [[q n]|] eqn:E; [|congruence].
    apply find_some in E. destruct E as [Hin Heq]. cbn [fst] in Heq. apply path_eqb_eq in Heq. subst q.
    apply in_map_iff. exists (p, n). split; [reflexivity | exact Hin].
Qed.

(* with renameat2(RENAME_EXCHANGE) the same replacement is atomic at that and every other point *)
Lemma c02_exchange_ok_example : forall k,
  let u := UCreate fb_cal (Some [(Safe 10, 11)]) 14 in
  result_ok u fb_fs (machine_run (crash_at k) (unit_prog fb_lay u) (start fb_fs)).
Proof.
  intro k. apply c02_crash.
  - exists fb_u, (Safe 3). repeat split.
  - intros c [<- | []]. reflexivity.
  - apply init_fs_inv. reflexivity.
Qed.
