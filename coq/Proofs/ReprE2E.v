(* End-to-end steps: when a handler of the L0 model (Model/Handlers.v) answers a PUT / DELETE / MOVE with a
   success status and goes from sigma to sigma', there is a storage operation u (the one the real handler
   calls) such that, from every file system representing sigma and under every fault oracle, running u ends
   in a file system representing sigma or sigma', and a normal end represents sigma'. *)
From Coq Require Import List NArith Bool Lia.
Import ListNotations.
Require RV.Model.Store RV.Model.Handlers RV.Proofs.StoreLemmas RV.Proofs.HandlersInv.
Require Import RV.Lib.Prog RV.Model.Fs RV.Model.StorageOps RV.Model.Repr RV.Proofs.FsLemmas RV.Proofs.FsInv
  RV.Proofs.C02Units RV.Proofs.C02Final RV.Proofs.ReprProofs RV.Proofs.ReprUnits RV.Proofs.ReprFinal.
Open Scope N_scope.

Module H := RV.Model.Handlers.

Lemma spath_split : forall p : ST.path, p <> [] -> p = ST.parent p ++ [ST.last_name p].
Proof. intros p Hne. unfold ST.parent, ST.last_name. apply app_removelast_last. exact Hne. Qed.

Lemma is_root_false : forall p, ST.is_root p = false -> p <> [].
Proof. intros [|x p] H; [discriminate | discriminate]. Qed.

Lemma items_of_objs_nodup_acc : forall l acc, NoDup (map fst acc) ->
  NoDup (map fst (fold_left (fun acc o => ST.assoc_set acc (H.name_of_uid (ST.o_comp o) (ST.o_uid o)) (H.regroup o)) l acc)).
Proof.
  induction l as [|o l IH]; intros acc Hnd; cbn [fold_left]; [exact Hnd|]. apply IH. apply HI.assoc_set_NoDup. exact Hnd.
Qed.
Lemma items_of_objs_nodup : forall l, NoDup (map fst (H.items_of_objs l)).
Proof. intro l. unfold H.items_of_objs. apply items_of_objs_nodup_acc. constructor. Qed.

Definition served (sigma sigma' : ST.store) (s : fs) : Prop :=
  exists u, forall lay (o : oracle errno), refines sigma sigma' (machine_run o (unit_prog lay u) (start s)).

(* PUT of an item or of a whole collection *)
Lemma e2e_put : forall cfg pol s sigma p ct b im inm sigma' resp,
  R s sigma -> HI.store_inv sigma -> fs_inv_weak s ->
  H.do_put cfg pol sigma p ct b im inm = (sigma', resp) -> HI.is_error (fst resp) = false ->
  served sigma sigma' s.
Proof.
  intros cfg pol s sigma p ct b im inm sigma' resp HR Hinv Hfs Hput Hok.
  destruct (HI.do_put_cases _ _ _ _ _ _ _ _ _ _ Hput) as [[_ He] | [Hw | Hi]]; [congruence | |].
  - destruct Hw as (pc & tg & objs & Hroot & Hpar & _ & _ & -> & _).
    apply HI.resolve_coll in Hpar. pose proof (spath_split p (is_root_false _ Hroot)) as Hp.
    exists (UCreate (fp p) (Some (enc_items (H.items_of_objs objs))) (pcode tg [])). intros lay o.
    rewrite Hp. eapply refine_put_coll; eauto. apply items_of_objs_nodup.
  - destruct Hi as (pc & ob & Hpar & _ & Hnc & _ & _ & -> & _ & _ & Hroot).
    apply HI.resolve_coll in Hpar. pose proof (spath_split p (is_root_false _ Hroot)) as Hp.
    assert (Hl : ST.lookup sigma (ST.parent p ++ [ST.last_name p]) = None).
    { rewrite <- Hp. destruct (ST.lookup sigma p) eqn:E; [|reflexivity]. exfalso. apply (Hnc c). unfold ST.resolve. rewrite E. reflexivity. }
    exists (UUpload (fp (ST.parent p)) (Safe (ST.last_name p)) (ocode ob) []). intros lay o.
    eapply refine_put_item; eauto.
Qed.

(* MOVE (source and destination are different paths) *)
Lemma e2e_move : forall pol s sigma p dr dout to ow sigma' resp,
  R s sigma -> HI.store_inv sigma -> fs_inv_weak s -> p <> to ->
  H.do_move pol sigma p dr dout to ow = (sigma', resp) -> HI.is_error (fst resp) = false ->
  served sigma sigma' s.
Proof.
  intros pol s sigma p dr dout to ow sigma' resp HR Hinv Hfs Hpto Hmv Hok.
  destruct (HI.do_move_cases _ _ _ _ _ _ _ _ _ Hmv) as [[_ He] | Hm]; [congruence|].
  destruct Hm as (fc & ob & toc & tc & Hsrc & Hdst & _ & _ & Hto & Htc & -> & _).
  apply HI.resolve_item in Hsrc. destruct Hsrc as (Hpn & Hpne & Hpp & Hass).
  apply HI.resolve_coll in Hdst.
  assert (Hton : ST.lookup sigma to = None).
  { destruct (ST.resolve sigma to) eqn:E; [contradiction | apply HI.resolve_item in E; apply E | apply HI.resolve_nothing_lookup; exact E]. }
  assert (Htone : to <> []).
  { intros ->. destruct Hinv as (_ & (rc & Hr & _) & _). congruence. }
  pose proof (spath_split p Hpne) as Hp. pose proof (spath_split to Htone) as Ht.
  exists (UMove (fp (ST.parent p)) (Safe (ST.last_name p)) (fp (ST.parent to)) (Safe (ST.last_name to)) 0 [] []). intros lay o.
  eapply (refine_move lay o s sigma); try eassumption; try (rewrite <- Hp; eassumption); try (rewrite <- Ht; eassumption).
  rewrite <- Hp, <- Ht. exact Hpto.
Qed.

(* DELETE of an item or of a collection other than the root *)
Lemma e2e_delete : forall cfg pol s sigma p im sigma' resp,
  R s sigma -> HI.store_inv sigma -> fs_inv_weak s -> p <> [] ->
  H.do_delete cfg pol sigma p im = (sigma', resp) -> HI.is_error (fst resp) = false ->
  served sigma sigma' s.
Proof.
  intros cfg pol s sigma p im sigma' resp HR Hinv Hfs Hne Hdel Hok. unfold H.do_delete in Hdel.
  repeat (match type of Hdel with context [match ?x with _ => _ end] => destruct x eqn:? end;
          try (inversion Hdel; subst; cbn in Hok; discriminate)).
  all: inversion Hdel; subst sigma' resp; clear Hdel.
  all: try match goal with Hr : ST.is_root ?q = true |- _ => destruct q; [congruence | discriminate] end.
  - match goal with Hres : ST.resolve sigma p = ST.NColl ?c |- _ => apply HI.resolve_coll in Hres; rename Hres into Hl end.
    exists (UDeleteColl (fp p)). intros lay o. eapply refine_delete_coll; eauto.
  - match goal with Hres : ST.resolve sigma p = ST.NItem ?pc ?ob |- _ => apply HI.resolve_item in Hres; destruct Hres as (Hpn & _ & Hpp & _) end.
    pose proof (spath_split p Hne) as Hp.
    exists (UDeleteItem (fp (ST.parent p)) (Safe (ST.last_name p)) []). intros lay orc.
    eapply refine_delete_item; eauto. rewrite <- Hp. exact Hpn.
Qed.

(* the gate's automatic home creation *)
Lemma e2e_home : forall pol s sigma user,
  R s sigma -> HI.store_inv sigma -> fs_inv_weak s ->
  H.ensure_home pol sigma user = sigma \/ served sigma (H.ensure_home pol sigma user) s.
Proof.
  intros pol s sigma user HR Hinv Hfs. unfold H.ensure_home. destruct user as [u|]; [|left; reflexivity].
  destruct (ST.resolve sigma [u]) eqn:Hres; try (left; reflexivity).
  destruct (H.has H.lW (pol [u])); [|left; reflexivity]. right.
  exists (UMkdir (fp [u])). intros lay o. eapply refine_mkdir; eauto.
Qed.
