(* split_crlf (model of Python str.split("\r\n")) breaks ONLY at the two-character sequence CR LF.

   Statements: all as requested, except that the placeholder second hypothesis of
   [split_crlf_app] is dropped: NO side condition on the end of [a] is needed.  When [a] ends
   in CR the text reads ".. CR CR LF ..": the scan sees CR followed by CR (not LF), keeps the
   first CR as an ordinary character, and then splits at the following CR LF; the piece is
   still exactly [a].  (See [split_crlf_app_cr_end] and the example split_crlf_breaks_at_pair,
   whose second piece is [98; 13].)  Only [no_crlf a] is required: without it the FIRST pair
   inside [a] would split earlier. *)
From Coq Require Import List NArith Bool Lia.
Import ListNotations.
Require Import RV.Lib.PyStr RV.Proofs.PyStrLemmas RV.Model.ContentLine RV.Model.Export.
Open Scope N_scope.

(* no adjacent CR LF inside s *)
Fixpoint no_crlf (s : pystr) : Prop :=
  match s with
  | c :: ((d :: _) as r) => ~ (c = CR /\ d = LF) /\ no_crlf r
  | _ => True
  end.

(* ------------------------------------------------------------------ unfolding steps *)
Lemma split_crlf_aux_nil : forall acc, split_crlf_aux acc [] = [rev acc].
Proof. intros acc. reflexivity. Qed.

Lemma split_crlf_aux_one : forall acc c, split_crlf_aux acc [c] = [rev (c :: acc)].
Proof. intros acc c. reflexivity. Qed.

Lemma split_crlf_aux_two : forall acc c d r,
  split_crlf_aux acc (c :: d :: r) =
  if (c =? CR) && (d =? LF) then rev acc :: split_crlf_aux [] r else split_crlf_aux (c :: acc) (d :: r).
Proof. intros acc c d r. reflexivity. Qed.

Lemma no_crlf_two : forall c d r, no_crlf (c :: d :: r) <-> ~ (c = CR /\ d = LF) /\ no_crlf (d :: r).
Proof. intros c d r. simpl. tauto. Qed.

Lemma pair_test_false : forall c d, ~ (c = CR /\ d = LF) -> (c =? CR) && (d =? LF) = false.
Proof.
  intros c d Hn.
  destruct (c =? CR) eqn:Hc; [| reflexivity].
  destruct (d =? LF) eqn:Hd; [| reflexivity].
  exfalso. apply Hn. split.
  - apply N.eqb_eq. exact Hc.
  - apply N.eqb_eq. exact Hd.
Qed.

Lemma cr_lf_test_false : forall c, (c =? CR) && (CR =? LF) = false.
Proof. intros c. apply andb_false_r. Qed.

(* ------------------------------------------------------------------ 1. no pair: one piece *)
Lemma split_crlf_aux_no_pair : forall s acc, no_crlf s -> split_crlf_aux acc s = [rev acc ++ s].
Proof.
  induction s as [| c r IH]; intros acc Hs.
  - rewrite split_crlf_aux_nil, app_nil_r. reflexivity.
  - destruct r as [| d r'].
    + rewrite split_crlf_aux_one. reflexivity.
    + apply no_crlf_two in Hs. destruct Hs as [Hn Hr].
      rewrite split_crlf_aux_two, (pair_test_false c d Hn).
      rewrite (IH (c :: acc) Hr).
      simpl rev. rewrite <- app_assoc. reflexivity.
Qed.

Lemma split_crlf_no_pair : forall s, no_crlf s -> split_crlf s = [s].
Proof.
  intros s Hs. unfold split_crlf. rewrite (split_crlf_aux_no_pair s [] Hs). reflexivity.
Qed.

(* ------------------------------------------------------------------ 2. the pair splits *)
Lemma split_crlf_aux_app : forall a acc b, no_crlf a ->
  split_crlf_aux acc (a ++ CR :: LF :: b) = (rev acc ++ a) :: split_crlf_aux [] b.
Proof.
  induction a as [| x a' IH]; intros acc b Ha.
  - rewrite app_nil_l, app_nil_r, split_crlf_aux_two. reflexivity.
  - destruct a' as [| y a''].
    + (* a = [x]: the text is x CR LF b; x followed by CR is never the pair, even when x = CR *)
      change ([x] ++ CR :: LF :: b) with (x :: CR :: LF :: b).
      rewrite split_crlf_aux_two, cr_lf_test_false.
      change (CR :: LF :: b) with ([] ++ CR :: LF :: b).
      rewrite (IH (x :: acc) b I).
      simpl rev. rewrite app_nil_r. reflexivity.
    + apply no_crlf_two in Ha. destruct Ha as [Hn Hr].
      change ((x :: y :: a'') ++ CR :: LF :: b) with (x :: y :: (a'' ++ CR :: LF :: b)).
      rewrite split_crlf_aux_two, (pair_test_false x y Hn).
      change (y :: (a'' ++ CR :: LF :: b)) with ((y :: a'') ++ CR :: LF :: b).
      rewrite (IH (x :: acc) b Hr).
      simpl rev. rewrite <- app_assoc. reflexivity.
Qed.

Lemma split_crlf_app : forall a b, no_crlf a ->
  split_crlf (a ++ CR :: LF :: b) = a :: split_crlf b.
Proof.
  intros a b Ha. unfold split_crlf. rewrite (split_crlf_aux_app a [] b Ha). reflexivity.
Qed.

(* the case the placeholder worried about, spelled out: a piece ending in CR *)
Lemma no_crlf_snoc_cr : forall a, no_crlf a -> no_crlf (a ++ [CR]).
Proof.
  induction a as [| x a' IH]; intros Ha.
  - exact I.
  - destruct a' as [| y a''].
    + change ([x] ++ [CR]) with (x :: CR :: []). apply no_crlf_two. split.
      * intros [_ Hd]. discriminate Hd.
      * exact I.
    + apply no_crlf_two in Ha. destruct Ha as [Hn Hr].
      change ((x :: y :: a'') ++ [CR]) with (x :: y :: (a'' ++ [CR])). apply no_crlf_two. split.
      * exact Hn.
      * exact (IH Hr).
Qed.

Lemma split_crlf_app_cr_end : forall a b, no_crlf a ->
  split_crlf ((a ++ [CR]) ++ CR :: LF :: b) = (a ++ [CR]) :: split_crlf b.
Proof.
  intros a b Ha. apply split_crlf_app. apply no_crlf_snoc_cr. exact Ha.
Qed.

(* ------------------------------------------------------------------ 3. round trip on lines *)
Lemma crlf_lines_cons : forall l ls, crlf_lines (l :: ls) = l ++ CR :: LF :: crlf_lines ls.
Proof.
  intros l ls. unfold crlf_lines. simpl. rewrite <- app_assoc. reflexivity.
Qed.

Lemma split_crlf_lines : forall ls, Forall no_crlf ls -> split_crlf (crlf_lines ls) = ls ++ [[]].
Proof.
  induction ls as [| l ls IH]; intros Hls.
  - reflexivity.
  - inversion Hls as [| l0 ls0 Hl Hrest]; subst.
    rewrite crlf_lines_cons, (split_crlf_app l (crlf_lines ls) Hl), (IH Hrest).
    reflexivity.
Qed.

(* ------------------------------------------------------------------ 4. examples *)
(* LS U+2028, PS U+2029, NEL U+0085, VT, FF, FS, GS, RS, lone CR, lone LF: all ordinary *)
Example split_crlf_ignores_other_breaks :
  split_crlf [97; 8232; 98; 8233; 99; 133; 100; 11; 101; 12; 102; 28; 103; 29; 104; 30; 105; 13; 106; 10; 107] =
  [[97; 8232; 98; 8233; 99; 133; 100; 11; 101; 12; 102; 28; 103; 29; 104; 30; 105; 13; 106; 10; 107]].
Proof. vm_compute. reflexivity. Qed.

Example split_crlf_breaks_at_pair : split_crlf [97; 13; 10; 98; 13; 13; 10; 10; 99] = [[97]; [98; 13]; [10; 99]].
Proof. vm_compute. reflexivity. Qed.

Print Assumptions split_crlf_no_pair.
Print Assumptions split_crlf_app.
Print Assumptions split_crlf_lines.
