(* Proofs about Model/Path.v (C06 string layer, used by C03/C04/C18 too) *)
From Coq Require Import List NArith Bool Lia String.
Open Scope string_scope.
Import ListNotations.
Require Import RV.Lib.PyStr RV.Model.Path RV.Proofs.PyStrLemmas.
Open Scope list_scope. Open Scope N_scope.

Definition safe (p : pystr) : Prop := is_safe_path_component p = true.

Lemma safe_spec : forall p, safe p <->
  p <> [] /\ contains_char slash p = false /\ p <> [dot] /\ p <> [dot; dot].
Proof.
  intros p. unfold safe, is_safe_path_component. cbn [mem_str].
  change (str ".") with [dot]. change (str "..") with [dot; dot].
  rewrite !andb_true_iff, !negb_true_iff, orb_false_r, orb_false_iff, !eqs_neq.
  destruct p; cbn [nonempty]; intuition congruence.
Qed.

Lemma safe_no_slash : forall p, safe p -> contains_char slash p = false.
Proof. intros p H. apply safe_spec in H. tauto. Qed.
Lemma safe_nonempty : forall p, safe p -> p <> [].
Proof. intros p H. apply safe_spec in H. tauto. Qed.

Lemma safe_not_startswith_slash : forall p, safe p -> startswith p [slash] = false.
Proof.
  intros p H. destruct (startswith p [slash]) eqn:E; [|reflexivity].
  apply startswith_char_contains in E. rewrite (safe_no_slash p H) in E. discriminate.
Qed.

Lemma safe_not_endswith_slash : forall p, safe p -> endswith p [slash] = false.
Proof.
  intros p H. destruct (endswith p [slash]) eqn:E; [|reflexivity].
  apply endswith_char_contains in E. rewrite (safe_no_slash p H) in E. discriminate.
Qed.

Definition render (parts : list pystr) : pystr :=
  match parts with [] => [slash] | _ => List.concat (map (cons slash) parts) end.

Lemma nonempty_false_nil : forall (s : pystr), nonempty s = false -> s = [].
Proof. destruct s; [reflexivity|discriminate]. Qed.

Lemma fold_join_from : forall ps acc, Forall safe ps -> acc <> [] -> endswith acc [slash] = false ->
  fold_left posix_join ps acc = acc ++ List.concat (map (cons slash) ps).
Proof.
  induction ps as [|p ps IH]; intros acc Hs Hne He; cbn [fold_left map List.concat].
  - rewrite app_nil_r. reflexivity.
  - inversion Hs as [|? ? Hp Hps]; subst.
    assert (Hj : posix_join acc p = acc ++ slash :: p).
    { unfold posix_join. rewrite (safe_not_startswith_slash p Hp), He.
      destruct acc; [contradiction|reflexivity]. }
    rewrite Hj. rewrite IH; [rewrite <- app_assoc; reflexivity | exact Hps | destruct acc; discriminate |].
    rewrite endswith_app_nonempty by discriminate.
    change (slash :: p) with ([slash] ++ p).
    rewrite endswith_app_nonempty by (apply safe_nonempty; exact Hp).
    apply safe_not_endswith_slash; exact Hp.
Qed.

Lemma join_parts_render : forall parts, Forall safe parts -> join_parts parts = render parts.
Proof.
  intros [|p ps] Hs; [reflexivity|].
  inversion Hs as [|? ? Hp Hps]; subst. unfold join_parts. cbn [fold_left].
  assert (Hj : posix_join [slash] p = slash :: p).
  { unfold posix_join. rewrite (safe_not_startswith_slash p Hp). reflexivity. }
  rewrite Hj, fold_join_from; [reflexivity | exact Hps | discriminate |].
  change (slash :: p) with ([slash] ++ p).
  rewrite endswith_app_nonempty by (apply safe_nonempty; exact Hp).
  apply safe_not_endswith_slash; exact Hp.
Qed.

Lemma safe_parts_safe : forall s, Forall safe (safe_parts s).
Proof. intros s. unfold safe_parts. apply Forall_forall. intros x Hx. apply filter_In in Hx. exact (proj2 Hx). Qed.

Lemma render_endswith_slash : forall parts, Forall safe parts ->
  endswith (render parts) [slash] = match parts with [] => true | _ => false end.
Proof.
  intros parts Hs. destruct parts as [|p ps]; [reflexivity|].
  unfold render. cbn [map List.concat].
  revert p Hs. induction ps as [|q qs IH]; intros p Hs; inversion Hs as [|? ? Hp Hps]; subst.
  - cbn [map List.concat]. rewrite app_nil_r. change (slash :: p) with ([slash] ++ p).
    rewrite endswith_app_nonempty by (apply safe_nonempty; exact Hp). apply safe_not_endswith_slash; exact Hp.
  - cbn [map List.concat]. rewrite endswith_app_nonempty; [apply (IH q Hps)|].
    cbn [map List.concat]. discriminate.
Qed.

(* The shape of every sanitised path: "/" + "/".join(safe parts) + optional trailing "/" *)
Definition trailing_of (s : pystr) (parts : list pystr) : pystr :=
  match parts with [] => [] | _ => if endswith s [slash] then [slash] else [] end.

Theorem sanitize_path_shape : forall s,
  sanitize_path s = render (safe_parts s) ++ trailing_of s (safe_parts s)
  /\ Forall safe (safe_parts s).
Proof.
  intros s. split; [|apply safe_parts_safe].
  unfold sanitize_path. rewrite (join_parts_render _ (safe_parts_safe s)).
  rewrite (render_endswith_slash _ (safe_parts_safe s)). unfold trailing_of.
  destruct (safe_parts s); reflexivity.
Qed.

Lemma sanitize_starts_with_slash : forall s, startswith (sanitize_path s) [slash] = true.
Proof.
  intros s. destruct (sanitize_path_shape s) as [-> _].
  destruct (safe_parts s) as [|p ps]; reflexivity.
Qed.

(* ---- file-system component safety ---- *)
Lemma posix_dirname_noslash : forall p, contains_char slash p = false -> posix_dirname p = [].
Proof.
  intros p H. unfold posix_dirname.
  assert (E : rfind_slash_rev (rev p) = None).
  { rewrite <- contains_char_rev in H. induction (rev p) as [|x r IH]; [reflexivity|].
    cbn in *. apply orb_false_iff in H as [H1 H2]. rewrite H1. apply IH; exact H2. }
  rewrite E. reflexivity.
Qed.

Theorem fs_component_spec : forall p, is_safe_filesystem_path_component p = true <->
  p <> [] /\ contains_char slash p = false /\ startswith p [dot] = false /\ endswith p [tilde] = false.
Proof.
  intros p. unfold is_safe_filesystem_path_component. split.
  - rewrite !andb_true_iff, !negb_true_iff. intros [[[[[H1 H2] H3] H4] H5] H6].
    apply safe_spec in H6. tauto.
  - intros (H1 & H2 & H3 & H4).
    assert (Hs : safe p).
    { apply safe_spec. repeat split; try assumption; intros ->; discriminate H3. }
    rewrite (posix_dirname_noslash p H2), H3, H4. unfold safe in Hs. rewrite Hs.
    apply safe_spec in Hs. unfold is_safe_path_component in *.
    destruct p; [contradiction|]. cbn [nonempty negb andb].
    cbn [mem_str]. change (str ".") with [dot]. change (str "..") with [dot; dot].
    destruct Hs as (_ & _ & Hd & Hdd). apply eqs_neq in Hd, Hdd. rewrite Hd, Hdd. reflexivity.
Qed.

Lemma fs_safe_is_safe : forall p, is_safe_filesystem_path_component p = true -> safe p.
Proof. intros p H. unfold is_safe_filesystem_path_component in H. apply andb_true_iff in H. exact (proj2 H). Qed.

(* path_to_filesystem: lexically below root, every component safe for the file system *)
Lemma ptf_fold_none : forall parts,
  fold_left (fun acc part => match acc with None => None | Some sp =>
     if is_safe_filesystem_path_component part then Some (posix_join sp part) else None end) parts None = None.
Proof. induction parts; [reflexivity|exact IHparts]. Qed.

Lemma ptf_fold : forall parts acc f, acc <> [] -> endswith acc [slash] = false ->
  fold_left (fun acc part => match acc with None => None | Some sp =>
     if is_safe_filesystem_path_component part then Some (posix_join sp part) else None end) parts (Some acc) = Some f ->
  f = acc ++ List.concat (map (cons slash) parts) /\ Forall (fun c => is_safe_filesystem_path_component c = true) parts.
Proof.
  induction parts as [|p ps IH]; intros acc f Hne He H; cbn [fold_left] in H.
  - inversion H; subst. cbn. rewrite app_nil_r. split; [reflexivity|constructor].
  - destruct (is_safe_filesystem_path_component p) eqn:Ep; [|rewrite ptf_fold_none in H; discriminate].
    pose proof (fs_safe_is_safe p Ep) as Hp.
    assert (Hj : posix_join acc p = acc ++ slash :: p).
    { unfold posix_join. rewrite (safe_not_startswith_slash p Hp), He. destruct acc; [contradiction|reflexivity]. }
    rewrite Hj in H. apply IH in H.
    + destruct H as [-> Hall]. cbn [map List.concat]. rewrite <- app_assoc. split; [reflexivity|constructor; assumption].
    + destruct acc; discriminate.
    + rewrite endswith_app_nonempty by discriminate. change (slash :: p) with ([slash] ++ p).
      rewrite endswith_app_nonempty by (apply safe_nonempty; exact Hp). apply safe_not_endswith_slash; exact Hp.
Qed.

Theorem path_to_filesystem_confined : forall root sp f,
  root <> [] -> endswith root [slash] = false ->
  path_to_filesystem root sp = Some f ->
  exists parts, f = root ++ List.concat (map (cons slash) parts)
    /\ Forall (fun c => is_safe_filesystem_path_component c = true) parts.
Proof.
  intros root sp f Hne He H. unfold path_to_filesystem in H.
  eexists. eapply ptf_fold; eassumption.
Qed.

(* sync-token names are single safe file-system components *)
Lemma forallb_hex_no : forall t c, forallb is_hex t = true -> is_hex c = false -> contains_char c t = false.
Proof.
  induction t as [|x t IH]; intros c H Hc; [reflexivity|]. cbn in *.
  apply andb_true_iff in H as [Hx Ht]. rewrite (IH c Ht Hc), orb_false_r.
  destruct (N.eqb x c) eqn:E; [apply N.eqb_eq in E; subst; congruence|reflexivity].
Qed.

Theorem check_token_name_safe : forall t, check_token_name t = true ->
  List.length t = 64%nat /\ forallb is_hex t = true /\ is_safe_filesystem_path_component t = true.
Proof.
  intros t H. unfold check_token_name in H. apply andb_true_iff in H as [Hl Hh].
  apply N.eqb_eq in Hl. assert (Hlen : List.length t = 64%nat) by lia.
  repeat split; [exact Hlen | exact Hh |].
  apply fs_component_spec. repeat split.
  - intros ->. discriminate Hlen.
  - apply forallb_hex_no; [exact Hh|reflexivity].
  - destruct t as [|x t]; [reflexivity|]. rewrite startswith_single. cbn in Hh. apply andb_true_iff in Hh as [Hx _].
    destruct (N.eqb x dot) eqn:E; [apply N.eqb_eq in E; subst; discriminate Hx|reflexivity].
  - destruct (endswith t [tilde]) eqn:E; [|reflexivity]. apply endswith_char_contains in E.
    rewrite (forallb_hex_no t tilde Hh) in E; [discriminate|reflexivity].
Qed.

Theorem sanitize_path_exists_shape : forall s, exists parts tr,
  Forall safe parts /\ sanitize_path s = render parts ++ tr /\ (tr = [] \/ (tr = [slash] /\ parts <> [])).
Proof.
  intros s. destruct (sanitize_path_shape s) as [E Hs].
  exists (safe_parts s), (trailing_of s (safe_parts s)). split; [exact Hs|]. split; [exact E|].
  unfold trailing_of. destruct (safe_parts s) as [|p ps]; [left; reflexivity|].
  destruct (endswith s [slash]); [right; split; [reflexivity|discriminate]|left; reflexivity].
Qed.
