(* Lemmas about the Python string models of Lib/PyStr.v *)
From Coq Require Import List NArith Bool Lia.
Import ListNotations.
Require Import RV.Lib.PyStr.
Open Scope N_scope.

Lemma eqs_refl : forall a, eqs a a = true.
Proof. induction a as [|x a IH]; cbn; [reflexivity|]. rewrite N.eqb_refl. exact IH. Qed.

Lemma eqs_eq : forall a b, eqs a b = true <-> a = b.
Proof.
  induction a as [|x a IH]; destruct b as [|y b]; cbn; split; intros H; try congruence; try discriminate.
  - apply andb_true_iff in H as [H1 H2]. apply N.eqb_eq in H1. apply IH in H2. congruence.
  - inversion H; subst. rewrite N.eqb_refl. apply IH. reflexivity.
Qed.

Lemma eqs_neq : forall a b, eqs a b = false <-> a <> b.
Proof.
  intros a b. split.
  - intros H E. apply eqs_eq in E. congruence.
  - intros H. destruct (eqs a b) eqn:E; [apply eqs_eq in E; contradiction | reflexivity].
Qed.

Lemma contains_char_app : forall c a b, contains_char c (a ++ b) = contains_char c a || contains_char c b.
Proof. induction a as [|x a IH]; intros b; cbn; [reflexivity|]. rewrite IH. apply orb_assoc. Qed.

Lemma contains_char_In : forall c s, contains_char c s = true <-> In c s.
Proof.
  induction s as [|x s IH]; cbn; [split; [discriminate|tauto]|].
  rewrite orb_true_iff, N.eqb_eq, IH. tauto.
Qed.

Lemma contains_char_rev : forall c s, contains_char c (rev s) = contains_char c s.
Proof.
  intros c s. destruct (contains_char c s) eqn:E.
  - apply contains_char_In. apply in_rev. rewrite rev_involutive. apply contains_char_In. exact E.
  - destruct (contains_char c (rev s)) eqn:E2; [|reflexivity].
    apply contains_char_In in E2. apply in_rev in E2. apply contains_char_In in E2. congruence.
Qed.

Lemma startswith_single : forall s c, startswith s [c] = match s with x :: _ => N.eqb x c | [] => false end.
Proof. destruct s as [|x s]; intros c; cbn; [reflexivity|]. apply andb_true_r. Qed.

Lemma startswith_char_contains : forall s c, startswith s [c] = true -> contains_char c s = true.
Proof. intros s c. rewrite startswith_single. destruct s as [|x s]; [discriminate|]. cbn. intros ->. reflexivity. Qed.

Lemma endswith_char_contains : forall s c, endswith s [c] = true -> contains_char c s = true.
Proof. unfold endswith. intros s c H. cbn [rev app] in H. apply startswith_char_contains in H. rewrite contains_char_rev in H. exact H. Qed.

Lemma endswith_app_nonempty : forall a p c, p <> [] -> endswith (a ++ p) [c] = endswith p [c].
Proof.
  intros a p c Hp. unfold endswith. cbn [rev app]. rewrite rev_app_distr, !startswith_single.
  destruct (rev p) as [|x r] eqn:E.
  - apply (f_equal (@rev N)) in E. rewrite rev_involutive in E. cbn in E. contradiction.
  - reflexivity.
Qed.

Lemma endswith_snoc : forall a c d, endswith (a ++ [d]) [c] = N.eqb d c.
Proof. intros. unfold endswith. cbn [rev app]. rewrite rev_app_distr. cbn. apply andb_true_r. Qed.

Lemma endswith_nil : forall c, endswith [] [c] = false.
Proof. reflexivity. Qed.

(* split_on / join *)
Lemma split_on_nonnil : forall c s, split_on c s <> [].
Proof.
  induction s as [|x s IH]; cbn; [discriminate|].
  destruct (N.eqb x c); [discriminate|]. destruct (split_on c s); [contradiction|discriminate].
Qed.

Lemma split_on_noslash : forall c s, contains_char c s = false -> split_on c s = [s].
Proof.
  induction s as [|x s IH]; cbn; [reflexivity|].
  intros H. apply orb_false_iff in H as [H1 H2]. rewrite H1, (IH H2). reflexivity.
Qed.

Lemma split_on_app_sep : forall c a b, contains_char c a = false ->
  split_on c (a ++ c :: b) = a :: split_on c b.
Proof.
  induction a as [|x a IH]; intros b H; cbn.
  - rewrite N.eqb_refl. reflexivity.
  - cbn in H. apply orb_false_iff in H as [H1 H2]. rewrite H1, (IH b H2). reflexivity.
Qed.

Lemma split_on_parts_no_sep : forall c s, Forall (fun w => contains_char c w = false) (split_on c s).
Proof.
  induction s as [|x s IH]; cbn; [constructor; [reflexivity|constructor]|].
  destruct (N.eqb x c) eqn:E; [constructor; [reflexivity|exact IH]|].
  destruct (split_on c s) as [|w ws]; [constructor; [cbn; rewrite E; reflexivity|constructor]|].
  inversion IH; subst. constructor; [cbn; rewrite E; assumption|assumption].
Qed.

Lemma split_on_join : forall c parts, parts <> [] ->
  Forall (fun w => contains_char c w = false) parts ->
  split_on c (join [c] parts) = parts.
Proof.
  induction parts as [|w ws IH]; intros Hne Hall; [contradiction|].
  inversion Hall as [|? ? Hw Hws]; subst. cbn [join].
  destruct ws as [|w2 ws2]; [apply split_on_noslash; exact Hw|].
  cbn [app]. rewrite split_on_app_sep by exact Hw. f_equal. apply IH; [discriminate|exact Hws].
Qed.

Lemma lstrip_char_nohead : forall c s, startswith s [c] = false -> lstrip_char c s = s.
Proof. intros c s. rewrite startswith_single. destruct s as [|x s]; cbn; [reflexivity|]. intros ->. reflexivity. Qed.

Lemma count_char_zero : forall c s, count_char c s = 0 <-> contains_char c s = false.
Proof.
  induction s as [|x s IH]; cbn; [tauto|].
  destruct (N.eqb x c); cbn [orb]; [split; [intros H; exfalso; lia|discriminate]|]. rewrite N.add_0_l. exact IH.
Qed.
