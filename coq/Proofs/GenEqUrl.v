(* Tie T for C18: the regenerated translations of xmlutils.make_href and of the Location value of
   httputils.redirect equal the hand model. *)
From Coq Require Import List NArith Bool String.
Import ListNotations.
Require Import RV.Lib.PyStr RV.Model.Url.
Require RV.Gen.UrlGen.
Open Scope N_scope.

Lemma Gen_make_href_eq : forall base href, UrlGen.make_href base href = make_href base href.
Proof. reflexivity. Qed.

Lemma Gen_redirect_location_eq : forall location, UrlGen.redirect_location location = redirect_location location.
Proof. reflexivity. Qed.
