(* Tie T for C18: the regenerated translations of xmlutils.make_href, of the Location value of
   httputils.redirect and of the value flow environ["PATH_INFO"] -> path of Application._handle_request
   equal the hand model. *)
From Coq Require Import List NArith Bool String Lia.
Import ListNotations.
Require Import RV.Lib.PyStr RV.Model.Path RV.Model.Url.
Require RV.Gen.UrlGen.
Open Scope N_scope.

Lemma Gen_make_href_eq : forall base href, UrlGen.make_href base href = make_href base href.
Proof. reflexivity. Qed.

Lemma Gen_redirect_location_eq : forall location, UrlGen.redirect_location location = redirect_location location.
Proof. reflexivity. Qed.

(* _handle_request: everything that happens to environ["PATH_INFO"] before a handler gets it (the translator
   fails closed on any step it does not know: a further decoding, a statement that is not an assignment or an if,
   a value other than reverse_proxy / base_prefix flowing in) is the model's request_path. *)
Lemma Gen_request_path_eq : forall rp base pathinfo,
  UrlGen.request_path rp base pathinfo = request_path rp base pathinfo.
Proof.
  intros rp base pathinfo. unfold UrlGen.request_path, request_path, strip_prefix, under_prefix, drop_prefix.
  destruct rp; [|reflexivity].
  destruct base as [|c base]; [reflexivity|].
  cbn [andb nonempty].
  replace (0 <? N.of_nat (List.length (c :: base))) with true
    by (symmetry; apply N.ltb_lt; cbn [List.length]; lia).
  change (str "/") with [slash].
  destruct (startswith (sanitize_path pathinfo ++ [slash]) ((c :: base) ++ [slash])); reflexivity.
Qed.
