(* Deterministic weakest precondition for FAULT-FREE runs (oracle no_fault): a step fails only when
   Model/Fs.v `apply` says so.  nfwp p Q E s n: the run of p from state s and temp-name counter n ends
   normally in a state / counter satisfying Q, or raises e with E e; it is never killed.  Used for the
   progress facts of Proofs/ReprProgress.v. *)
From Coq Require Import List NArith Bool Lia.
Import ListNotations.
Require Import RV.Lib.Prog RV.Model.Fs RV.Model.StorageOps RV.Proofs.FsLemmas RV.Proofs.FsInv.
Open Scope N_scope.

Definition npost := fs -> N -> Prop.

Fixpoint nfwp (p : P) (Q : npost) (E : exn errno -> npost) (s : fs) (n : N) : Prop :=
  match p with
  | Ret => Q s n
  | Raise e => E e s n
  | Try st kok kerr => match apply st s with
                       | inl s' => nfwp kok Q E s' n
                       | inr e => nfwp (kerr e) Q E s n
                       end
  | Fresh k => nfwp (k n) Q E s (N.succ n)
  | Seq p q => nfwp p (fun s' n' => nfwp q Q E s' n') E s n
  | Read pa k => nfwp (k (look s pa)) Q E s n
  | Ls pa k => nfwp (k (ls s pa)) Q E s n
  | Catch p h => nfwp p Q (fun e s' n' => nfwp (h e) Q E s' n') s n
  end.

Definition nf_result (Q : npost) (E : exn errno -> npost) (r : config step fs * outcome errno) : Prop :=
  match snd r with
  | ONorm => Q (c_st (fst r)) (c_fresh (fst r))
  | OExn e => E e (c_st (fst r)) (c_fresh (fst r))
  | OKilled => False
  end.

Lemma nfwp_sound : forall (p : P) Q E s n, nfwp p Q E s n ->
  forall m t, nf_result Q E (machine_run no_fault p (Cfg m n s t)).
Proof.
  unfold machine_run.
  induction p as [ | e | st kok IHok kerr IHerr | k IHk | p IHp q IHq | pa k IHk | pa k IHk | p IHp h IHh ];
    intros Q E s n H m t; cbn [run nfwp c_n c_fresh c_st c_tr no_fault] in *.
  - exact H.
  - exact H.
  - destruct (apply st s) as [s' | e]; [apply IHok | apply IHerr]; exact H.
  - apply IHk. exact H.
  - specialize (IHp _ _ _ _ H m t). destruct (run _ _ _ _ _ _ _ _ no_fault p (Cfg m n s t)) as [c' out].
    unfold nf_result in *. cbn [fst snd] in *. destruct out; try exact IHp. destruct c' as [m' n' s' t']. apply IHq. exact IHp.
  - apply IHk. exact H.
  - apply IHk. exact H.
  - specialize (IHp _ _ _ _ H m t). destruct (run _ _ _ _ _ _ _ _ no_fault p (Cfg m n s t)) as [c' out].
    unfold nf_result in *. cbn [fst snd] in *. destruct out; try exact IHp. destruct c' as [m' n' s' t']. apply IHh. exact IHp.
Qed.

Lemma nfwp_mono : forall (p : P) (Q Q' : npost) (E E' : exn errno -> npost),
  (forall s n, Q s n -> Q' s n) -> (forall e s n, E e s n -> E' e s n) ->
  forall s n, nfwp p Q E s n -> nfwp p Q' E' s n.
Proof.
  induction p as [ | e | st kok IHok kerr IHerr | k IHk | p IHp q IHq | pa k IHk | pa k IHk | p IHp h IHh ];
    intros Q Q' E E' HQ HE s n H; cbn [nfwp] in *; auto.
  - destruct (apply st s); [eapply IHok | eapply IHerr]; eauto.
  - eapply IHk; eauto.
  - eapply IHp; [ | exact HE | exact H]. intros s1 n1 H1. eapply IHq; eauto.
  - eapply IHk; eauto.
  - eapply IHk; eauto.
  - eapply IHp; [exact HQ | | exact H]. intros e s1 n1 H1. eapply IHh; eauto.
Qed.

(* no exception expected *)
Definition NoExn : exn errno -> npost := fun _ _ _ => False.

(* ------------------------------------------------------------------ when the primitive steps succeed *)
Lemma mkdir_ok : forall s q, q <> [] -> look s q = None -> look s (parent q) = Some D ->
  apply (Mkdir q) s = inl (upd q (Some D) s).
Proof.
  intros s q Hne Hq Hp. cbn [apply]. destruct q; [congruence|]. cbn [nonempty negb]. rewrite Hq. cbn [is_some].
  unfold is_dir. rewrite Hp. reflexivity.
Qed.

Lemma create_ok : forall s q, q <> [] -> look s (parent q) = Some D -> look s q <> Some D ->
  apply (Create q) s = inl (upd q (Some (F 0)) s).
Proof.
  intros s q Hne Hp Hq. cbn [apply]. destruct q; [congruence|]. cbn [nonempty negb]. unfold is_dir. rewrite Hp. cbn [negb].
  destruct (look s (n :: q)) as [[|c]|]; [congruence | reflexivity | reflexivity].
Qed.

Lemma write_ok : forall s q c0 v, look s q = Some (F c0) -> apply (Write q v) s = inl (upd q (Some (F v)) s).
Proof. intros s q c0 v H. cbn [apply]. unfold is_file. rewrite H. reflexivity. Qed.

Lemma fsyncF_ok : forall s q c0, look s q = Some (F c0) -> apply (FsyncF q) s = inl s.
Proof. intros s q c0 H. cbn [apply]. unfold is_file. rewrite H. reflexivity. Qed.

Lemma fsyncD_ok : forall s q, look s q = Some D -> apply (FsyncD q) s = inl s.
Proof. intros s q H. cbn [apply]. unfold is_dir. rewrite H. reflexivity. Qed.

Lemma unlink_ok : forall s q c0, look s q = Some (F c0) -> apply (Unlink q) s = inl (upd q None s).
Proof. intros s q c0 H. cbn [apply]. rewrite H. reflexivity. Qed.

Lemma rmtree_ok : forall s q, q <> [] -> look s q = Some D ->
  apply (Rmtree q) s = inl {| look := fun r => if prefix q r then None else look s r; dom := dom s |}.
Proof. intros s q Hne H. cbn [apply]. destruct q; [congruence|]. cbn [nonempty negb]. unfold is_dir. rewrite H. reflexivity. Qed.

Definition renamed (a b : path) (s : fs) : fs :=
  {| look := fun q => if prefix b q then look s (a ++ strip b q) else if prefix a q then None else look s q;
     dom := b :: map (rekey a b) (dom s) |}.

(* a file over a file or nothing *)
Lemma rename_file_ok : forall s a b c0, a <> [] -> b <> [] -> prefix a b = false -> look s (parent b) = Some D ->
  look s a = Some (F c0) -> look s b <> Some D -> apply (Rename a b) s = inl (renamed a b s).
Proof.
  intros s a b c0 Ha Hb Hab Hp Hla Hlb. cbn [apply]. destruct a; [congruence|]. destruct b; [congruence|].
  cbn [nonempty andb negb]. rewrite Hab. unfold is_dir. rewrite Hp. cbn [negb]. rewrite Hla.
  destruct (look s (n0 :: b)) as [[|cb]|]; [congruence | reflexivity | reflexivity].
Qed.

(* a directory onto a free name *)
Lemma rename_dir_ok : forall s a b, a <> [] -> b <> [] -> prefix a b = false -> look s (parent b) = Some D ->
  look s a = Some D -> look s b = None -> apply (Rename a b) s = inl (renamed a b s).
Proof.
  intros s a b Ha Hb Hab Hp Hla Hlb. cbn [apply]. destruct a; [congruence|]. destruct b; [congruence|].
  cbn [nonempty andb negb]. rewrite Hab. unfold is_dir. rewrite Hp. cbn [negb]. rewrite Hla, Hlb. reflexivity.
Qed.

Lemma exchange_ok : forall s a b na nb, a <> [] -> b <> [] -> prefix a b = false -> prefix b a = false ->
  look s a = Some na -> look s b = Some nb -> exists s', apply (Exchange a b) s = inl s' /\
    forall q, look s' q = if prefix b q then look s (a ++ strip b q) else if prefix a q then look s (b ++ strip a q) else look s q.
Proof.
  intros s a b na nb Ha Hb Hab Hba Hla Hlb. cbn [apply]. destruct a; [congruence|]. destruct b; [congruence|].
  cbn [nonempty andb negb]. rewrite Hab, Hba, Hla, Hlb. cbn. eexists. split; [reflexivity|]. intro q. reflexivity.
Qed.
