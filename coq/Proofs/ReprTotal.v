(* Fault-free totality of the refinement: on trees that satisfy the reserved-path invariant CL (no temp residue,
   cache folders are directories, cache entries are not), the storage operation that serves a handler step ends
   normally without faults and re-establishes CL.  So the history theorem needs no normal-end hypothesis: from the
   empty storage folder every covered history has a fault-free run, and its final tree represents the final store. *)
From Coq Require Import List NArith Bool Lia.
Import ListNotations.
Require RV.Model.Store RV.Model.Handlers RV.Proofs.StoreLemmas RV.Proofs.HandlersInv.
Require Import RV.Lib.Prog RV.Model.Fs RV.Model.StorageOps RV.Model.Repr RV.Proofs.FsLemmas RV.Proofs.FsInv RV.Proofs.NoFault
  RV.Proofs.C12Units RV.Proofs.C02Units RV.Proofs.C02Final RV.Proofs.ReprProofs RV.Proofs.ReprUnits RV.Proofs.ReprFinal RV.Proofs.ReprE2E
  RV.Proofs.ReprHandle RV.Proofs.ReprExample RV.Proofs.ReprHistory
  RV.Proofs.ReprProgress RV.Proofs.ReprClean RV.Proofs.ReprProgress2 RV.Proofs.ReprProgress3 RV.Proofs.ReprProgress4.
Open Scope N_scope.

(* the operation has a normal fault-free end that keeps the invariant *)
Definition total (u : unit_op) (s : fs) : Prop := CL s -> exists s', run_unit lay0 u s = Some s' /\ CL s'.

Lemma nf_total : forall u s, (CL s -> nfwp (unit_prog lay0 u) (fun s' _ => CL s') NoExn s 0) -> total u s.
Proof.
  intros u s H Hcl. specialize (H Hcl).
  pose proof (nfwp_sound _ _ _ _ _ H 0%nat []) as Hs. unfold nf_result in Hs. unfold run_unit, start.
  destruct (snd (machine_run no_fault (unit_prog lay0 u) (Cfg 0 0 s []))); [eexists; split; [reflexivity | exact Hs] | contradiction | contradiction].
Qed.

Section Totals.
  Variables (s : fs) (sigma : ST.store).
  Hypotheses (HR : R s sigma) (Hinv : HI.store_inv sigma).

  Lemma look_item : forall (pp : ST.path) (h : ST.name), look s (fp pp ++ [Safe h]) = nview sigma (pp ++ [h]).
  Proof. intros pp h. rewrite <- fp_snoc. apply (proj1 (HR _)). Qed.

  Lemma look_absent_not_dir : forall (pp : ST.path) (h : ST.name), ST.lookup sigma (pp ++ [h]) = None -> look s (fp pp ++ [Safe h]) <> Some D.
  Proof. intros pp h Hl H. rewrite look_item in H. apply nview_coll in H. contradiction. Qed.

  Lemma total_put_item : forall (pp : ST.path) (h : ST.name) v pc, ST.lookup sigma pp = Some pc -> ST.lookup sigma (pp ++ [h]) = None ->
    total (UUpload (fp pp) (Safe h) v []) s.
  Proof.
    intros pp h v pc Hpp Hl. apply nf_total. intro Hcl. cbn [unit_prog].
    apply upload_nf; [apply fp_coll | reflexivity | exact Hcl | apply (R_dir _ _ _ _ HR Hpp) | apply look_absent_not_dir; exact Hl].
  Qed.

  Lemma total_delete_item : forall (pp : ST.path) (h : ST.name) pc ob, ST.lookup sigma pp = Some pc -> ST.resolve sigma (pp ++ [h]) = ST.NItem pc ob ->
    total (UDeleteItem (fp pp) (Safe h) []) s.
  Proof.
    intros pp h pc ob Hpp Hres. apply nf_total. intro Hcl. cbn [unit_prog].
    apply (delete_item_nf _ _ (ocode ob)); [apply fp_coll | reflexivity | exact Hcl | apply (R_dir _ _ _ _ HR Hpp) |].
    rewrite look_item. unfold nview. rewrite Hres. reflexivity.
  Qed.

  Lemma total_move : forall (pp : ST.path) (h : ST.name) (tp : ST.path) (h' : ST.name) fc ob toc v,
    ST.resolve sigma (pp ++ [h]) = ST.NItem fc ob -> ST.lookup sigma pp = Some fc ->
    ST.lookup sigma tp = Some toc -> ST.lookup sigma (tp ++ [h']) = None -> pp ++ [h] <> tp ++ [h'] ->
    total (UMove (fp pp) (Safe h) (fp tp) (Safe h') v [] []) s.
  Proof.
    intros pp h tp h' fc ob toc v Hres Hpp Htp Hto Hne. apply nf_total. intro Hcl. cbn [unit_prog].
    apply (move_nf (fp pp) (fp tp) (Safe h) (Safe h') v (fp_coll pp) (fp_coll tp) eq_refl eq_refl (ocode ob));
      [exact Hcl | apply (R_dir _ _ _ _ HR Hpp) | apply (R_dir _ _ _ _ HR Htp) | | apply look_absent_not_dir; exact Hto |].
    - rewrite look_item. unfold nview. rewrite Hres. reflexivity.
    - rewrite <- !fp_snoc. intro E. apply Hne. unfold fp in E. inversion E as [E']. clear E.
      revert E'. generalize (pp ++ [h]) (tp ++ [h']). induction l as [|a l IH]; intros [|b l'] E; try discriminate; [reflexivity|].
      cbn in E. inversion E; subst. f_equal. apply IH. assumption.
  Qed.

  Lemma total_delete_coll : forall (p : ST.path) c, ST.lookup sigma p = Some c -> p <> [] -> total (UDeleteColl (fp p)) s.
  Proof.
    intros p c Hp Hne. apply nf_total. intro Hcl. cbn [unit_prog].
    pose proof (R_dir _ _ _ _ HR Hp) as Hd. rewrite (spath_split p Hne) in *. rewrite fp_snoc in *.
    apply delete_coll_nf; [reflexivity | exact Hcl | exact Hd].
  Qed.

  Lemma total_proppatch : forall p c pv, ST.lookup sigma p = Some c -> total (USetMeta (fp p) pv) s.
  Proof.
    intros p c pv Hp. apply nf_total. intro Hcl. cbn [unit_prog].
    apply set_meta_nf; [apply fp_coll | exact Hcl | apply (R_dir _ _ _ _ HR Hp) |].
    intro H. pose proof (proj2 (HR p)) as Hpo. unfold props_ok in Hpo. rewrite Hp, H in Hpo. exact Hpo.
  Qed.

  Lemma total_mkdir : forall u, ST.resolve sigma [u] = ST.NNothing -> total (UMkdir (fp [u])) s.
  Proof.
    intros u Hres. apply nf_total. intro Hcl. cbn [unit_prog].
    apply mkdir_nf; [apply fp_coll | exact Hcl | | left].
    - destruct Hinv as (_ & (rc & Hr & _) & _). change (parent (fp [u])) with (fp []). apply (R_dir _ _ _ _ HR Hr).
    - rewrite (proj1 (HR [u])). unfold nview. rewrite Hres. reflexivity.
  Qed.

  Lemma enc_items_safe : forall l, Forall (fun it : name * N => is_safe (fst it) = true) (enc_items l).
  Proof. intro l. unfold enc_items. apply Forall_forall. intros it Hin. apply in_map_iff in Hin. destruct Hin as [ho [<- _]]. reflexivity. Qed.

  Lemma total_create : forall (q : ST.path) (x : ST.name) pcq items pv, ST.lookup sigma q = Some pcq ->
    match items with Some its => exists l, its = enc_items l | None => True end ->
    total (UCreate (fp (q ++ [x])) items pv) s.
  Proof.
    intros q x pcq items pv Hq Hits. apply nf_total. intro Hcl. cbn [unit_prog]. rewrite fp_snoc.
    apply create_nf; [apply fp_coll | reflexivity | exact Hcl | apply (R_dir _ _ _ _ HR Hq) |].
    destruct items as [its|]; [|exact I]. destruct Hits as [l ->]. apply enc_items_safe.
  Qed.
End Totals.

(* ------------------------------------------------------------------ the handler steps, with totality *)
Definition pserved (sigma sigma' : ST.store) (s : fs) : Prop :=
  exists u, (forall lay (o : oracle errno), refines sigma sigma' (machine_run o (unit_prog lay u) (start s))) /\ total u s.
Definition pstep_ok (sigma sigma' : ST.store) (s : fs) : Prop := sigma' = sigma \/ pserved sigma sigma' s.

Lemma pserved_served : forall sigma sigma' s, pserved sigma sigma' s -> served sigma sigma' s.
Proof. intros sigma sigma' s [u [H _]]. exists u. exact H. Qed.

Lemma p_put : forall cfg pol s sigma p ct b im inm sigma' resp,
  R s sigma -> HI.store_inv sigma -> fs_inv_weak s ->
  H.do_put cfg pol sigma p ct b im inm = (sigma', resp) -> HI.is_error (fst resp) = false ->
  pserved sigma sigma' s.
Proof.
  intros cfg pol s sigma p ct b im inm sigma' resp HR Hinv Hfs Hput Hok.
  destruct (HI.do_put_cases _ _ _ _ _ _ _ _ _ _ Hput) as [[_ He] | [Hw | Hi]]; [congruence | |].
  - destruct Hw as (pc & tg & objs & Hroot & Hpar & _ & _ & -> & _).
    apply HI.resolve_coll in Hpar. pose proof (spath_split p (is_root_false _ Hroot)) as Hp.
    exists (UCreate (fp p) (Some (enc_items (H.items_of_objs objs))) (pcode tg [])). split.
    + intros lay o. rewrite Hp. eapply refine_put_coll; eauto. apply items_of_objs_nodup.
    + rewrite Hp. eapply total_create; eauto.
  - destruct Hi as (pc & ob & Hpar & _ & Hnc & _ & _ & -> & _ & _ & Hroot).
    apply HI.resolve_coll in Hpar. pose proof (spath_split p (is_root_false _ Hroot)) as Hp.
    assert (Hl : ST.lookup sigma (ST.parent p ++ [ST.last_name p]) = None).
    { rewrite <- Hp. destruct (ST.lookup sigma p) eqn:E; [|reflexivity]. exfalso. apply (Hnc c). unfold ST.resolve. rewrite E. reflexivity. }
    exists (UUpload (fp (ST.parent p)) (Safe (ST.last_name p)) (ocode ob) []). split.
    + intros lay o. eapply refine_put_item; eauto.
    + eapply total_put_item; eauto.
Qed.

Lemma p_move : forall pol s sigma p dr dout to ow sigma' resp,
  R s sigma -> HI.store_inv sigma -> fs_inv_weak s -> p <> to ->
  H.do_move pol sigma p dr dout to ow = (sigma', resp) -> HI.is_error (fst resp) = false ->
  pserved sigma sigma' s.
Proof.
  intros pol s sigma p dr dout to ow sigma' resp HR Hinv Hfs Hpto Hmv Hok.
  destruct (HI.do_move_cases _ _ _ _ _ _ _ _ _ Hmv) as [[_ He] | Hm]; [congruence|].
  destruct Hm as (fc & ob & toc & tc & Hsrc & Hdst & _ & _ & Hto & Htc & -> & _).
  pose proof Hsrc as Hres.
  apply HI.resolve_item in Hsrc. destruct Hsrc as (Hpn & Hpne & Hpp & Hass).
  apply HI.resolve_coll in Hdst.
  assert (Hton : ST.lookup sigma to = None).
  { destruct (ST.resolve sigma to) eqn:E; [contradiction | apply HI.resolve_item in E; apply E | apply HI.resolve_nothing_lookup; exact E]. }
  assert (Htone : to <> []).
  { intros ->. destruct Hinv as (_ & (rc & Hr & _) & _). congruence. }
  pose proof (spath_split p Hpne) as Hp. pose proof (spath_split to Htone) as Ht.
  exists (UMove (fp (ST.parent p)) (Safe (ST.last_name p)) (fp (ST.parent to)) (Safe (ST.last_name to)) 0 [] []). split.
  - intros lay o.
    eapply (refine_move lay o s sigma); try eassumption; try (rewrite <- Hp; eassumption); try (rewrite <- Ht; eassumption).
    rewrite <- Hp, <- Ht. exact Hpto.
  - eapply (total_move s sigma HR); try eassumption; try (rewrite <- Hp; eassumption); try (rewrite <- Ht; eassumption).
    rewrite <- Hp, <- Ht. exact Hpto.
Qed.

Lemma p_delete : forall cfg pol s sigma p im sigma' resp,
  R s sigma -> HI.store_inv sigma -> fs_inv_weak s -> p <> [] ->
  H.do_delete cfg pol sigma p im = (sigma', resp) -> HI.is_error (fst resp) = false ->
  pserved sigma sigma' s.
Proof.
  intros cfg pol s sigma p im sigma' resp HR Hinv Hfs Hne Hdel Hok. unfold H.do_delete in Hdel.
  repeat (match type of Hdel with context [match ?x with _ => _ end] => destruct x eqn:? end;
          try (inversion Hdel; subst; cbn in Hok; discriminate)).
  all: inversion Hdel; subst sigma' resp; clear Hdel.
  all: try match goal with Hr : ST.is_root ?q = true |- _ => destruct q; [congruence | discriminate] end.
  - match goal with Hres : ST.resolve sigma p = ST.NColl ?c |- _ => apply HI.resolve_coll in Hres; rename Hres into Hl end.
    exists (UDeleteColl (fp p)). split; [intros lay o; eapply refine_delete_coll; eauto | eapply total_delete_coll; eauto].
  - match goal with Hres : ST.resolve sigma p = ST.NItem ?pc ?ob |- _ =>
      pose proof Hres as Hres0; apply HI.resolve_item in Hres; destruct Hres as (Hpn & _ & Hpp & _) end.
    pose proof (spath_split p Hne) as Hp.
    exists (UDeleteItem (fp (ST.parent p)) (Safe (ST.last_name p)) []). split.
    + intros lay orc. eapply refine_delete_item; eauto. rewrite <- Hp. exact Hpn.
    + eapply total_delete_item; eauto. rewrite <- Hp. exact Hres0.
Qed.

Lemma p_home : forall pol s sigma user,
  R s sigma -> HI.store_inv sigma -> fs_inv_weak s -> pstep_ok sigma (H.ensure_home pol sigma user) s.
Proof.
  intros pol s sigma user HR Hinv Hfs. unfold H.ensure_home. destruct user as [u|]; [|left; reflexivity].
  destruct (ST.resolve sigma [u]) eqn:Hres; try (left; reflexivity).
  destruct (H.has H.lW (pol [u])); [|left; reflexivity]. right.
  exists (UMkdir (fp [u])). split; [intros lay o; eapply refine_mkdir; eauto | eapply total_mkdir; eauto].
Qed.

Lemma p_new_coll : forall s sigma p pc tg props,
  R s sigma -> HI.store_inv sigma -> fs_inv_weak s ->
  ST.resolve sigma p = ST.NNothing -> ST.resolve sigma (ST.parent p) = ST.NColl pc ->
  pserved sigma (ST.set_coll sigma p (ST.mkColl tg props [])) s.
Proof.
  intros s sigma p pc tg props HR Hinv Hfs Hn Hpar.
  assert (Hne : p <> []) by (intros ->; apply (root_resolves sigma Hinv); exact Hn).
  apply HI.resolve_coll in Hpar. pose proof (HI.resolve_nothing_lookup _ _ Hn) as Hl.
  pose proof (spath_split p Hne) as Hp.
  exists (UCreate (fp p) None (pcode tg props)). split.
  - intros lay o. rewrite Hp. eapply refine_mkcoll; eauto. rewrite <- Hp. exact Hl.
  - rewrite Hp. eapply total_create; eauto.
Qed.

Lemma p_mkcol : forall pol s sigma p x sigma' resp,
  R s sigma -> HI.store_inv sigma -> fs_inv_weak s ->
  H.do_mkcol pol sigma p x = (sigma', resp) -> pstep_ok sigma sigma' s.
Proof.
  intros pol s sigma p x sigma' resp HR Hinv Hfs Hm. unfold H.do_mkcol in Hm.
  repeat (match type of Hm with context [match ?y with _ => _ end] => destruct y eqn:? end;
          try (inversion Hm; subst; left; reflexivity)).
  all: inversion Hm; subst; clear Hm; right; eapply p_new_coll; eauto.
Qed.

Lemma p_mkcalendar : forall pol s sigma p x sigma' resp,
  R s sigma -> HI.store_inv sigma -> fs_inv_weak s ->
  H.do_mkcalendar pol sigma p x = (sigma', resp) -> pstep_ok sigma sigma' s.
Proof.
  intros pol s sigma p x sigma' resp HR Hinv Hfs Hm. unfold H.do_mkcalendar in Hm.
  repeat (match type of Hm with context [match ?y with _ => _ end] => destruct y eqn:? end;
          try (inversion Hm; subst; left; reflexivity)).
  all: inversion Hm; subst; clear Hm; right; eapply p_new_coll; eauto.
Qed.

Lemma p_props : forall s sigma p c props',
  R s sigma -> HI.store_inv sigma -> fs_inv_weak s -> ST.lookup sigma p = Some c ->
  pserved sigma (ST.set_coll sigma p (ST.mkColl (ST.c_tag c) props' (ST.c_items c))) s.
Proof.
  intros s sigma p c props' HR Hinv Hfs Hl.
  exists (USetMeta (fp p) (pcode (ST.c_tag c) props')). split; [intros lay o; eapply refine_proppatch; eauto | eapply total_proppatch; eauto].
Qed.

Lemma p_proppatch : forall pol s sigma p x sigma' resp,
  R s sigma -> HI.store_inv sigma -> fs_inv_weak s ->
  H.do_proppatch pol sigma p x = (sigma', resp) -> pstep_ok sigma sigma' s.
Proof.
  intros pol s sigma p x sigma' resp HR Hinv Hfs Hm. unfold H.do_proppatch in Hm.
  repeat (match type of Hm with context [match ?y with _ => _ end] => destruct y eqn:? end;
          try (inversion Hm; subst; left; reflexivity)).
  all: inversion Hm; subst; clear Hm; right.
  all: match goal with Hres : ST.resolve _ _ = ST.NColl ?c |- _ => apply HI.resolve_coll in Hres end.
  all: try (eapply p_props; eauto; fail).
  all: match goal with Hl : ST.lookup _ _ = Some ?c |- _ =>
         destruct c as [t0 pr0 it0]; apply (p_props _ _ _ (ST.mkColl t0 pr0 it0) pr0); auto end.
Qed.

(* both stages of a covered request: no change, or one operation that refines the stage and is total *)
Theorem handle_total : forall cfg pol user s sigma r sigma' resp,
  R s sigma -> HI.store_inv sigma -> fs_inv_weak s -> covered r ->
  H.handle cfg pol user sigma r = (sigma', resp) ->
  let sigma1 := H.ensure_home pol sigma user in
  pstep_ok sigma sigma1 s /\ HI.store_inv sigma1 /\
  (forall s1, R s1 sigma1 -> fs_inv_weak s1 -> pstep_ok sigma1 sigma' s1) /\ HI.store_inv sigma'.
Proof.
  intros cfg pol user s sigma r sigma' resp HR Hinv Hfs Hcov Hh sigma1.
  assert (Hinv1 : HI.store_inv sigma1) by (apply HI.ensure_home_inv; exact Hinv).
  split; [apply p_home; assumption|]. split; [exact Hinv1|]. split.
  - intros s1 HR1 Hfs1. unfold H.handle in Hh. fold sigma1 in Hh.
    destruct r; cbn [covered] in Hcov.
    + match type of Hh with H.do_put ?cfg ?pol ?sg ?p ?ct ?b ?im ?inm = _ =>
        destruct (HI.do_put_uo cfg pol sg p ct b im inm) as [Hu | Hok]; rewrite Hh in *; cbn [fst snd] in * end;
        [left; exact Hu | right; eapply p_put; eauto].
    + match type of Hh with H.do_delete ?cfg ?pol ?sg ?p ?im = _ =>
        destruct (HI.do_delete_uo cfg pol sg p im) as [Hu | Hok]; rewrite Hh in *; cbn [fst snd] in * end;
        [left; exact Hu | right; eapply p_delete; eauto].
    + match type of Hh with H.do_move ?pol ?sg ?p ?dr ?dout ?to ?ow = _ =>
        destruct (HI.do_move_uo pol sg p dr dout to ow) as [Hu | Hok]; rewrite Hh in *; cbn [fst snd] in * end;
        [left; exact Hu | right; eapply p_move; eauto].
    + eapply p_mkcol; eauto.
    + eapply p_mkcalendar; eauto.
    + eapply p_proppatch; eauto.
    + inversion Hh; subst. left. reflexivity.
    + inversion Hh; subst. left. reflexivity.
    + inversion Hh; subst. left. reflexivity.
    + inversion Hh; subst. left. reflexivity.
  - pose proof (HI.handle_inv cfg pol user sigma r Hinv) as Hi. rewrite Hh in Hi. exact Hi.
Qed.

(* ------------------------------------------------------------------ histories *)
Lemma pstep_units : forall sigma sigma' s, R s sigma -> CL s -> pstep_ok sigma sigma' s ->
  exists us s', run_units lay0 us s = Some s' /\ R s' sigma' /\ CL s'.
Proof.
  intros sigma sigma' s HR Hcl [-> | [u [Hu Ht]]].
  - exists [], s. split; [reflexivity | split; assumption].
  - destruct (Ht Hcl) as (s' & Hrun & Hcl'). exists [u], s'. split; [cbn [run_units]; rewrite Hrun; reflexivity|].
    split; [|exact Hcl']. unfold run_unit in Hrun. destruct (Hu lay0 no_fault) as (_ & _ & Hn).
    destruct (snd (machine_run no_fault (unit_prog lay0 u) (start s))) eqn:E; try discriminate.
    inversion Hrun; subst s'. apply Hn. reflexivity.
Qed.

(* Every covered history has a fault-free run of storage operations from every CL tree representing the initial
   store: all operations end normally, and the final tree represents the final store of the handler model. *)
Theorem history_total : forall cfg pol user rs s sigma sigma' outs,
  R s sigma -> HI.store_inv sigma -> CL s -> Forall covered rs ->
  H.run_history cfg pol user sigma rs = (sigma', outs) ->
  exists us s', run_units lay0 us s = Some s' /\ R s' sigma' /\ CL s'.
Proof.
  intros cfg pol user rs. induction rs as [|r rs IH]; intros s sigma sigma' outs HR Hinv Hcl Hcov Hrun.
  - cbn in Hrun. inversion Hrun; subst. exists [], s. split; [reflexivity | split; assumption].
  - cbn [H.run_history] in Hrun. destruct (H.handle cfg pol user sigma r) as [sigma2 out] eqn:Hh.
    destruct (H.run_history cfg pol user sigma2 rs) as [sigma3 outs'] eqn:Hr. inversion Hrun; subst sigma' outs.
    inversion Hcov as [|? ? Hc Hcs]; subst.
    destruct (handle_total cfg pol user s sigma r sigma2 out HR Hinv (proj1 Hcl) Hc Hh) as (Hhome & Hinv1 & Hmeth & Hinv2).
    destruct (pstep_units _ _ s HR Hcl Hhome) as (us1 & s1 & E1 & HR1 & Hcl1).
    destruct (pstep_units _ _ s1 HR1 Hcl1 (Hmeth s1 HR1 (proj1 Hcl1))) as (us2 & s2 & E2 & HR2 & Hcl2).
    destruct (IH s2 sigma2 sigma3 outs' HR2 Hinv2 Hcl2 Hcs Hr) as (us3 & s3 & E3 & HR3 & Hcl3).
    exists (us1 ++ us2 ++ us3), s3. split; [|split; assumption].
    rewrite run_units_app, E1, run_units_app, E2. exact E3.
Qed.

Lemma CL_empty : CL ex_s0.
Proof.
  split; [apply ex_s0_inv|]. intros q n Hq.
  assert (Hc : (q = [] \/ q = [Root]) /\ n = D).
  { destruct q as [|a [|b q]]; [| destruct a |]; cbn in Hq; try discriminate; inversion Hq; auto.
    destruct a; cbn in Hq; discriminate. }
  destruct Hc as [[-> | ->] ->].
  - split; [reflexivity|]. split; [intros q' x E; destruct q'; discriminate | intros q' y x E; destruct q'; discriminate].
  - apply (kind_coll_prefix [Root] [Root]); [reflexivity | reflexivity | discriminate].
Qed.

(* from the empty storage folder: no side condition on the tree is left *)
Corollary history_total_empty : forall cfg pol user rs sigma' outs,
  Forall covered rs -> H.run_history cfg pol user ST.empty_store rs = (sigma', outs) ->
  exists us s', run_units lay0 us ex_s0 = Some s' /\ R s' sigma' /\ CL s'.
Proof.
  intros. eapply history_total; eauto; [apply R_empty | apply HI.empty_store_inv | apply CL_empty].
Qed.

Print Assumptions handle_total.
Print Assumptions history_total.
Print Assumptions history_total_empty.
