(* C11 -- list / transition-system lemmas shared by the three lock proofs. *)
From Coq Require Import List Arith Bool ZArith Lia.
Import ListNotations.
Require Import RV.Model.C11Base.

Lemma nth_upd_eq : forall A (l : list A) i x y, nth_error l i = Some y -> nth_error (upd i x l) i = Some x.
Proof.
  induction l as [|a l IH]; intros [|i] x y H; simpl in *; try discriminate; auto.
  eapply IH; eauto.
Qed.

Lemma nth_upd_neq : forall A (l : list A) i j x, i <> j -> nth_error (upd i x l) j = nth_error l j.
Proof.
  induction l as [|a l IH]; intros [|i] [|j] x H; simpl; auto; try congruence.
Qed.

Lemma upd_length : forall A (l : list A) i x, length (upd i x l) = length l.
Proof. induction l as [|a l IH]; intros [|i] x; simpl; auto. Qed.

Lemma nth_upd_inv : forall A (l : list A) i j x y, nth_error (upd i x l) j = Some y ->
  (i = j /\ y = x /\ exists z, nth_error l i = Some z) \/ (i <> j /\ nth_error l j = Some y).
Proof.
  intros A l i j x y H. destruct (Nat.eq_dec i j) as [->|Hne].
  - left. destruct (nth_error l j) as [z|] eqn:E.
    + erewrite nth_upd_eq in H by eauto. inversion H. eauto.
    + exfalso. apply nth_error_None in E. assert (nth_error (upd j x l) j = None) as E2.
      { apply nth_error_None. rewrite upd_length. auto. } congruence.
  - right. rewrite nth_upd_neq in H by auto. auto.
Qed.

Lemma count_upd : forall A (p : A -> bool) (l : list A) i x y, nth_error l i = Some y ->
  count p (upd i x l) + (if p y then 1 else 0) = count p l + (if p x then 1 else 0).
Proof.
  induction l as [|a l IH]; intros [|i] x y H; simpl in *; try discriminate.
  - inversion H; subst. lia.
  - specialize (IH i x y H). lia.
Qed.

Lemma count_upd_same : forall A (p : A -> bool) (l : list A) i x y, nth_error l i = Some y ->
  p x = p y -> count p (upd i x l) = count p l.
Proof. intros. pose proof (count_upd _ p l i x y H). rewrite H0 in *. lia. Qed.

Lemma count_pos : forall A (p : A -> bool) (l : list A), count p l > 0 -> exists i x, nth_error l i = Some x /\ p x = true.
Proof.
  induction l as [|a l IH]; simpl; intros H; [lia|].
  destruct (p a) eqn:E.
  - exists 0, a. simpl. auto.
  - destruct IH as (i & x & H1 & H2); [lia|]. exists (S i), x. auto.
Qed.

Lemma count_nth : forall A (p : A -> bool) (l : list A) i x, nth_error l i = Some x -> p x = true -> count p l > 0.
Proof.
  induction l as [|a l IH]; intros [|i] x H Hp; simpl in *; try discriminate.
  - inversion H; subst. rewrite Hp. lia.
  - specialize (IH i x H Hp). lia.
Qed.

(* two distinct positions satisfying p: count >= 2 *)
Lemma count_two : forall A (p : A -> bool) (l : list A) i j x y, i <> j ->
  nth_error l i = Some x -> nth_error l j = Some y -> p x = true -> p y = true -> count p l >= 2.
Proof.
  induction l as [|a l IH]; intros [|i] [|j] x y Hne Hi Hj Hx Hy; simpl in *; try discriminate; try congruence.
  - inversion Hi; subst. rewrite Hx. pose proof (count_nth _ p l j y Hj Hy). lia.
  - inversion Hj; subst. rewrite Hy. pose proof (count_nth _ p l i x Hi Hx). lia.
  - assert (i <> j) by congruence. specialize (IH i j x y H Hi Hj Hx Hy). lia.
Qed.

Lemma count_zero : forall A (p : A -> bool) (l : list A) i x, count p l = 0 -> nth_error l i = Some x -> p x = false.
Proof.
  intros. destruct (p x) eqn:E; auto. pose proof (count_nth _ p l i x H0 E). lia.
Qed.

Lemma count_map_const : forall A B (f : A -> B) (p : B -> bool) (l : list A),
  (forall a, p (f a) = false) -> count p (map f l) = 0.
Proof. induction l; simpl; intros; auto. rewrite H. simpl. auto. Qed.

Lemma memb_In : forall x l, memb x l = true <-> In x l.
Proof.
  unfold memb. intros. rewrite existsb_exists. split.
  - intros (y & Hy & E). apply Nat.eqb_eq in E. subst. auto.
  - intros. exists x. split; auto. apply Nat.eqb_refl.
Qed.

Lemma In_remove_nat : forall x y l, In y (remove_nat x l) <-> In y l /\ y <> x.
Proof.
  induction l as [|a l IH]; simpl; [tauto|].
  destruct (Nat.eqb x a) eqn:E.
  - apply Nat.eqb_eq in E. subst. rewrite IH. split; [tauto|]. intros [[->|H] H2]; tauto.
  - apply Nat.eqb_neq in E. simpl. rewrite IH. split.
    + intros [->|[H1 H2]]; split; auto.
    + intros [[->|H1] H2]; auto.
Qed.

Lemma upd_upd : forall A (l : list A) i x y, upd i x (upd i y l) = upd i x l.
Proof. induction l as [|a l IH]; intros [|i] x y; simpl; auto. rewrite IH. auto. Qed.

Lemma upd_same : forall A (l : list A) i x, nth_error l i = Some x -> upd i x l = l.
Proof.
  induction l as [|a l IH]; intros [|i] x H; simpl in *; try discriminate; auto.
  - inversion H; auto.
  - rewrite IH; auto.
Qed.

Lemma count_le : forall A (p q : A -> bool) (l : list A), (forall x, p x = true -> q x = true) -> count p l <= count q l.
Proof.
  induction l as [|a l IH]; simpl; intros H; auto. specialize (IH H).
  destruct (p a) eqn:E; [rewrite (H _ E)|destruct (q a)]; lia.
Qed.

Lemma count_lt : forall A (p q : A -> bool) (l : list A) i x, (forall y, p y = true -> q y = true) ->
  nth_error l i = Some x -> p x = false -> q x = true -> count p l + 1 <= count q l.
Proof.
  induction l as [|a l IH]; intros [|i] x H Hn Hp Hq; simpl in *; try discriminate.
  - inversion Hn; subst. rewrite Hp, Hq. pose proof (count_le _ p q l H). lia.
  - specialize (IH i x H Hn Hp Hq). destruct (p a) eqn:E; [rewrite (H _ E)|destruct (q a)]; lia.
Qed.

Section TS.
  Context {G T : Type}.
  Variable tstep : nat -> G -> T -> option (G * T).

  Lemma step_inv : forall (s s' : state) t, step tstep s t = Some s' ->
    exists th g' th', nth_error (thr s) t = Some th /\ tstep t (glob s) th = Some (g', th')
                      /\ s' = St g' (upd t th' (thr s)).
  Proof.
    unfold step. intros s s' t H. destruct (nth_error (thr s) t) as [th|] eqn:E; [|discriminate].
    destruct (tstep t (glob s) th) as [[g' th']|] eqn:E2; [|discriminate].
    inversion H. eauto 8.
  Qed.

  Lemma step_intro : forall (s : state) t th g' th', nth_error (thr s) t = Some th ->
    tstep t (glob s) th = Some (g', th') -> step tstep s t = Some (St g' (upd t th' (thr s))).
  Proof. unfold step. intros. rewrite H, H0. reflexivity. Qed.

  Lemma reach_ind_inv : forall (P : state -> Prop) s0,
    P s0 -> (forall s t s', P s -> step tstep s t = Some s' -> P s') -> forall s, reach tstep s0 s -> P s.
  Proof. intros P s0 H0 Hs s Hr. induction Hr; eauto. Qed.

  Lemma reach_trans_run : forall sched s0 s s', reach tstep s0 s -> run tstep sched s = Some s' -> reach tstep s0 s'.
  Proof.
    induction sched as [|t r IH]; simpl; intros s0 s s' Hr H.
    - inversion H; subst; auto.
    - destruct (step tstep s t) as [s1|] eqn:E; [|discriminate]. eapply IH; [|eauto]. eapply reach_step; eauto.
  Qed.

  Lemma run_n_run : forall k t s, run_n tstep t k s = run tstep (repeat t k) s.
  Proof. induction k; simpl; intros; auto. destruct (step tstep s t); auto. Qed.

  Lemma run_n_S : forall k t s s1, step tstep s t = Some s1 -> run_n tstep t (S k) s = run_n tstep t k s1.
  Proof. intros. simpl. rewrite H. auto. Qed.

  Lemma run_n_add : forall a b t s s1, run_n tstep t a s = Some s1 -> run_n tstep t (a + b) s = run_n tstep t b s1.
  Proof.
    induction a; simpl; intros b t s s1 H.
    - inversion H; auto.
    - destruct (step tstep s t); [|discriminate]. eauto.
  Qed.

  Lemma lrun_run_n : forall k t (s : state) th g' th', nth_error (thr s) t = Some th ->
    lrun tstep t k (glob s) th = Some (g', th') -> run_n tstep t k s = Some (St g' (upd t th' (thr s))).
  Proof.
    induction k; simpl; intros t s th g' th' Hn H.
    - inversion H; subst. rewrite upd_same by auto. destruct s; reflexivity.
    - destruct (tstep t (glob s) th) as [[g1 th1]|] eqn:E; [|discriminate].
      unfold step. rewrite Hn, E.
      erewrite IHk; [|simpl; eapply nth_upd_eq; eauto|simpl; eauto]. simpl. rewrite upd_upd. reflexivity.
  Qed.

  Lemma lrun_add : forall a b t g th g1 th1, lrun tstep t a g th = Some (g1, th1) ->
    lrun tstep t (a + b) g th = lrun tstep t b g1 th1.
  Proof.
    induction a; simpl; intros b t g th g1 th1 H.
    - inversion H; auto.
    - destruct (tstep t g th) as [[g2 th2]|]; [|discriminate]. eauto.
  Qed.

  Lemma run_reach : forall sched s0 s, run tstep sched s0 = Some s -> reach tstep s0 s.
  Proof. intros. eapply reach_trans_run; eauto. constructor. Qed.
End TS.
