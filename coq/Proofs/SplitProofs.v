(* C14 -- proofs about Model/Split.v (whole-collection upload: collect / sort by UID / group by UID /
   attach the referenced VTIMEZONEs).  All statements are proved as requested; none had to be changed.
   Note: sort_by_uid_stable (via filter_insert_by_uid) holds for ANY list, sortedness is not needed. *)
From Coq Require Import List NArith Bool Lia Permutation Sorted.
Import ListNotations.
Require Import RV.Lib.PyStr RV.Proofs.PyStrLemmas RV.Proofs.StrOrder RV.Model.ContentLine RV.Model.Export RV.Model.Split.

Definition is_main (c : vcomp) : bool := negb (ckind_eqb (c_kind c) KOther).
Definition has_uid (u : pystr) (c : vcomp) : bool := eqs (c_uid c) u.

(* ------------------------------------------------------------------ generic list facts *)

Lemma flat_map_map_comp : forall (A B C : Type) (f : B -> list C) (g : A -> B) (l : list A),
  flat_map f (map g l) = flat_map (fun x => f (g x)) l.
Proof. intros A B C f g l. induction l as [|a l IH]; simpl; congruence. Qed.

Lemma filter_none : forall (A : Type) (f : A -> bool) (l : list A),
  (forall x, In x l -> f x = false) -> filter f l = [].
Proof.
  intros A f l. induction l as [|a l IH]; intros H; simpl; [reflexivity|].
  rewrite (H a (or_introl eq_refl)). apply IH. intros x Hx. apply H. right. exact Hx.
Qed.

Lemma filter_all : forall (A : Type) (f : A -> bool) (l : list A),
  (forall x, In x l -> f x = true) -> filter f l = l.
Proof.
  intros A f l. induction l as [|a l IH]; intros H; simpl; [reflexivity|].
  rewrite (H a (or_introl eq_refl)). f_equal. apply IH. intros x Hx. apply H. right. exact Hx.
Qed.

(* ------------------------------------------------------------------ 1. partition *)

Lemma collect_perm_list : forall l,
  Permutation (of_kind KEvent l ++ of_kind KTodo l ++ of_kind KJournal l) (filter is_main l).
Proof.
  induction l as [|a l IH]; simpl; [constructor|].
  unfold is_main in *. destruct (c_kind a); simpl.
  - apply perm_skip, IH.
  - apply Permutation_sym, Permutation_cons_app, Permutation_sym, IH.
  - rewrite app_assoc. apply Permutation_sym, Permutation_cons_app. rewrite <- app_assoc.
    apply Permutation_sym, IH.
  - exact IH.
Qed.

Lemma collect_perm : forall u, Permutation (collect u) (filter is_main (u_comps u)).
Proof. intros u. unfold collect. apply collect_perm_list. Qed.

Lemma insert_by_uid_perm : forall c l, Permutation (insert_by_uid c l) (c :: l).
Proof.
  intros c l. induction l as [|h t IH]; simpl; [apply Permutation_refl|].
  destruct (str_ltb (c_uid h) (c_uid c)); [|apply Permutation_refl].
  eapply Permutation_trans; [apply perm_skip, IH|apply perm_swap].
Qed.

Lemma sort_by_uid_perm : forall l, Permutation (sort_by_uid l) l.
Proof.
  induction l as [|c l IH]; simpl; [constructor|].
  eapply Permutation_trans; [apply insert_by_uid_perm|]. apply perm_skip, IH.
Qed.

Lemma group_concat : forall l, flat_map snd (group_by_uid l) = l.
Proof.
  induction l as [|c r IH]; simpl; [reflexivity|].
  destruct (group_by_uid r) as [|[u g] gs]; simpl in *.
  - rewrite <- IH. reflexivity.
  - destruct (eqs u (c_uid c)); simpl; rewrite IH; reflexivity.
Qed.

Lemma split_comps : forall u,
  flat_map g_comps (split u) = flat_map snd (group_by_uid (sort_by_uid (collect u))).
Proof. intros u. unfold split. rewrite flat_map_map_comp. reflexivity. Qed.

Theorem split_partition : forall u, Permutation (flat_map g_comps (split u)) (filter is_main (u_comps u)).
Proof.
  intros u. rewrite split_comps, group_concat.
  eapply Permutation_trans; [apply sort_by_uid_perm|apply collect_perm].
Qed.

(* ------------------------------------------------------------------ 2. sortedness, stability *)

Definition le_uid (a b : vcomp) : Prop := str_ltb (c_uid b) (c_uid a) = false.

Lemma str_le_trans : forall a b c,
  str_ltb b a = false -> str_ltb c b = false -> str_ltb c a = false.
Proof.
  intros a b c Hab Hbc. destruct (str_ltb c a) eqn:Hca; [|reflexivity].
  destruct (str_ltb_false_cases _ _ Hab) as [E|L].
  - subst b. congruence.
  - rewrite (str_ltb_trans _ _ _ Hca L) in Hbc. discriminate.
Qed.

Lemma insert_by_uid_sorted : forall c l,
  StronglySorted le_uid l -> StronglySorted le_uid (insert_by_uid c l).
Proof.
  intros c l. induction l as [|h t IH]; intros HS; simpl.
  - constructor; constructor.
  - inversion HS as [|h' t' HSt HF]; subst.
    destruct (str_ltb (c_uid h) (c_uid c)) eqn:Hlt.
    + constructor; [apply IH, HSt|].
      apply Forall_forall. intros x Hx.
      apply (Permutation_in _ (insert_by_uid_perm c t)) in Hx. destruct Hx as [Hx|Hx].
      * subst x. unfold le_uid. apply str_ltb_asym, Hlt.
      * rewrite Forall_forall in HF. apply HF, Hx.
    + constructor; [exact HS|].
      constructor; [exact Hlt|].
      apply Forall_forall. intros x Hx. rewrite Forall_forall in HF.
      unfold le_uid in *. eapply str_le_trans; [exact Hlt|apply HF, Hx].
Qed.

Lemma sort_by_uid_sorted : forall l, StronglySorted (fun a b => str_ltb (c_uid b) (c_uid a) = false) (sort_by_uid l).
Proof.
  induction l as [|c l IH]; simpl; [constructor|].
  apply (insert_by_uid_sorted c _ IH).
Qed.

Lemma filter_insert_by_uid : forall u c l,
  filter (has_uid u) (insert_by_uid c l)
  = if has_uid u c then c :: filter (has_uid u) l else filter (has_uid u) l.
Proof.
  intros u c l. induction l as [|h t IH]; simpl.
  - destruct (has_uid u c); reflexivity.
  - destruct (str_ltb (c_uid h) (c_uid c)) eqn:Hlt; simpl.
    + rewrite IH. destruct (has_uid u c) eqn:Hc.
      * unfold has_uid in Hc. apply eqs_eq in Hc. subst u.
        assert (Hh : has_uid (c_uid c) h = false) by (apply (str_ltb_eqs _ _ Hlt)).
        rewrite Hh. reflexivity.
      * reflexivity.
    + destruct (has_uid u c); reflexivity.
Qed.

Lemma sort_by_uid_stable : forall l u, filter (has_uid u) (sort_by_uid l) = filter (has_uid u) l.
Proof.
  intros l u. induction l as [|c l IH]; simpl; [reflexivity|].
  rewrite filter_insert_by_uid, IH. reflexivity.
Qed.

(* ------------------------------------------------------------------ groups *)

Definition group_ok (ug : pystr * list vcomp) : Prop :=
  snd ug <> [] /\ Forall (fun c => c_uid c = fst ug) (snd ug).

Lemma group_by_uid_ok : forall l, Forall group_ok (group_by_uid l).
Proof.
  induction l as [|c r IH]; simpl; [constructor|].
  destruct (group_by_uid r) as [|[u g] gs].
  - constructor; [|constructor]. split; simpl; [discriminate|]. constructor; [reflexivity|constructor].
  - inversion IH as [|x xs [Hne Hall] Hgs]; subst. simpl in *.
    destruct (eqs u (c_uid c)) eqn:E.
    + apply eqs_eq in E. constructor; [|exact Hgs].
      split; simpl; [discriminate|]. constructor; [symmetry; exact E|exact Hall].
    + constructor; [|exact IH].
      split; simpl; [discriminate|]. constructor; [reflexivity|constructor].
Qed.

Lemma group_by_uid_head : forall l,
  hd_error (map fst (group_by_uid l)) = hd_error (map c_uid l).
Proof.
  intros [|c r]; simpl; [reflexivity|].
  destruct (group_by_uid r) as [|[u g] gs]; simpl; [reflexivity|].
  destruct (eqs u (c_uid c)) eqn:E; simpl; [|reflexivity].
  apply eqs_eq in E. congruence.
Qed.

Definition lt_str (a b : pystr) : Prop := str_ltb a b = true.

Lemma group_by_uid_increasing : forall l,
  StronglySorted le_uid l -> StronglySorted lt_str (map fst (group_by_uid l)).
Proof.
  induction l as [|c r IH]; intros HS; simpl; [constructor|].
  inversion HS as [|c' r' HSr HF]; subst.
  specialize (IH HSr). pose proof (group_by_uid_head r) as Hhd.
  destruct (group_by_uid r) as [|[u g] gs]; simpl in *.
  - constructor; constructor.
  - destruct (eqs u (c_uid c)) eqn:E; simpl; [exact IH|].
    destruct r as [|d r2]; simpl in Hhd; [discriminate|].
    injection Hhd as Hu. subst u.
    inversion HF as [|d' r2' Hcd HF2]; subst. unfold le_uid in Hcd.
    assert (Hlt : lt_str (c_uid c) (c_uid d)).
    { destruct (str_ltb_false_cases _ _ Hcd) as [Eq|L]; [|exact L].
      rewrite Eq, eqs_refl in E. discriminate. }
    inversion IH as [|x xs HSgs HFgs]; subst.
    constructor; [exact IH|]. constructor; [exact Hlt|].
    rewrite Forall_forall in *. intros x Hx. unfold lt_str in *.
    eapply str_ltb_trans; [exact Hlt|apply HFgs, Hx].
Qed.

(* a list of well-formed groups with strictly increasing uids: every group is the uid class of the
   concatenation *)
Lemma groups_filter : forall (G : list (pystr * list vcomp)) ug,
  Forall group_ok G -> StronglySorted lt_str (map fst G) -> In ug G ->
  filter (has_uid (fst ug)) (flat_map snd G) = snd ug.
Proof.
  induction G as [|[u0 g0] gs IH]; intros ug Hok HS Hin; [destruct Hin|].
  inversion Hok as [|x xs [Hne Hall] Hoks]; subst.
  simpl in HS. inversion HS as [|x xs HSgs HFgs]; subst.
  simpl in *. rewrite filter_app.
  rewrite Forall_forall in Hall, HFgs.
  destruct Hin as [Heq|Hin].
  - subst ug. simpl.
    rewrite filter_all.
    + rewrite filter_none; [apply app_nil_r|].
      intros x Hx. apply in_flat_map in Hx. destruct Hx as [[u1 g1] [Hin1 Hx1]].
      rewrite Forall_forall in Hoks. destruct (Hoks _ Hin1) as [_ Hall1].
      rewrite Forall_forall in Hall1. simpl in *.
      unfold has_uid. rewrite (Hall1 _ Hx1).
      apply eqs_neq. intros Eq. subst u1.
      assert (Hlt : lt_str u0 u0) by (apply HFgs; apply (in_map fst _ _ Hin1)).
      unfold lt_str in Hlt. rewrite str_ltb_irrefl in Hlt. discriminate.
    + intros x Hx. unfold has_uid. rewrite (Hall _ Hx). apply eqs_refl.
  - rewrite filter_none.
    + simpl. apply IH; assumption.
    + intros x Hx. unfold has_uid. rewrite (Hall _ Hx).
      apply str_ltb_eqs. apply HFgs. apply (in_map fst _ _ Hin).
Qed.

Lemma split_uids : forall u,
  map g_uid (split u) = map fst (group_by_uid (sort_by_uid (collect u))).
Proof. intros u. unfold split. rewrite map_map. reflexivity. Qed.

Lemma sort_by_uid_sorted_le : forall l, StronglySorted le_uid (sort_by_uid l).
Proof. exact sort_by_uid_sorted. Qed.

Theorem split_group_spec : forall u g, In g (split u) ->
  g_comps g <> [] /\ g_comps g = filter (has_uid (g_uid g)) (collect u).
Proof.
  intros u g Hin. unfold split in Hin. apply in_map_iff in Hin.
  destruct Hin as [ug [Hg Hin]]. subst g. simpl.
  pose proof (group_by_uid_ok (sort_by_uid (collect u))) as Hok.
  split.
  - rewrite Forall_forall in Hok. apply (Hok _ Hin).
  - rewrite <- (groups_filter _ ug Hok
                 (group_by_uid_increasing _ (sort_by_uid_sorted_le (collect u))) Hin).
    rewrite group_concat. apply sort_by_uid_stable.
Qed.

Theorem split_uids_increasing : forall u, StronglySorted (fun a b => str_ltb a b = true) (map g_uid (split u)).
Proof.
  intros u. rewrite split_uids.
  apply (group_by_uid_increasing _ (sort_by_uid_sorted_le (collect u))).
Qed.

Lemma lt_sorted_nodup : forall l : list pystr,
  StronglySorted (fun a b => str_ltb a b = true) l -> NoDup l.
Proof.
  induction l as [|a l IH]; intros HS; [constructor|].
  inversion HS as [|a' l' HSl HF]; subst.
  constructor; [|apply IH, HSl].
  intros Hin. rewrite Forall_forall in HF. specialize (HF _ Hin).
  rewrite str_ltb_irrefl in HF. discriminate.
Qed.

Corollary split_uids_nodup : forall u, NoDup (map g_uid (split u)).
Proof. intros u. apply lt_sorted_nodup, split_uids_increasing. Qed.

Theorem split_covers : forall u c, In c (collect u) -> exists g, In g (split u) /\ g_uid g = c_uid c /\ In c (g_comps g).
Proof.
  intros u c Hc.
  apply (Permutation_in _ (Permutation_sym (sort_by_uid_perm (collect u)))) in Hc.
  rewrite <- group_concat in Hc. apply in_flat_map in Hc.
  destruct Hc as [ug [Hin Hc]].
  exists (mkGroup (fst ug) (snd ug) (attach (u_tzs u) (flat_map c_tzrefs (snd ug)))).
  split; [|split]; simpl.
  - unfold split. apply in_map_iff. exists ug. split; [reflexivity|exact Hin].
  - pose proof (group_by_uid_ok (sort_by_uid (collect u))) as Hok.
    rewrite Forall_forall in Hok. destruct (Hok _ Hin) as [_ Hall].
    rewrite Forall_forall in Hall. symmetry. apply Hall, Hc.
  - exact Hc.
Qed.

(* ------------------------------------------------------------------ 3. time zones *)

Definition tzid_is (t : pystr) (z : vtz) : bool := match z_tzid z with Some t' => eqs t' t | None => false end.

Lemma mem_str_In : forall s l, mem_str s l = true <-> In s l.
Proof.
  intros s l. induction l as [|x r IH]; simpl.
  - split; [discriminate|intros []].
  - rewrite orb_true_iff, IH, eqs_eq. split; intros [H|H]; auto.
Qed.

Lemma remove_str_In : forall x t l, In x (remove_str t l) <-> In x l /\ x <> t.
Proof.
  intros x t l. induction l as [|y r IH]; simpl.
  - split; [intros []|intros [[] _]].
  - destruct (eqs t y) eqn:E.
    + apply eqs_eq in E. subst y. rewrite IH. split.
      * intros [H1 H2]. split; [right; exact H1|exact H2].
      * intros [[H1|H1] H2]; [congruence|split; assumption].
    + simpl. rewrite IH. split.
      * intros [H|[H1 H2]]; [|split; [right; exact H1|exact H2]].
        subst y. split; [left; reflexivity|]. intros Eq. subst x.
        rewrite eqs_refl in E. discriminate.
      * intros [[H1|H1] H2]; [left; exact H1|right; split; assumption].
Qed.

Lemma attach_sound : forall tzs w z, In z (attach tzs w) -> In z tzs /\ exists t, z_tzid z = Some t /\ In t w.
Proof.
  induction tzs as [|z0 r IH]; intros w z Hin; simpl in *; [destruct Hin|].
  destruct (z_tzid z0) as [t0|] eqn:Ez.
  - destruct (mem_str t0 w) eqn:Em.
    + destruct Hin as [Hin|Hin].
      * subst z0. split; [left; reflexivity|]. exists t0. split; [exact Ez|apply mem_str_In, Em].
      * destruct (IH _ _ Hin) as [H1 [t [H2 H3]]]. split; [right; exact H1|].
        exists t. split; [exact H2|]. apply remove_str_In in H3. apply H3.
    + destruct (IH _ _ Hin) as [H1 H2]. split; [right; exact H1|exact H2].
  - destruct (IH _ _ Hin) as [H1 H2]. split; [right; exact H1|exact H2].
Qed.

Definition tzids_of (z : vtz) : list pystr := match z_tzid z with Some t => [t] | None => [] end.

Lemma attach_tzids_wanted : forall tzs w t, In t (flat_map tzids_of (attach tzs w)) -> In t w.
Proof.
  intros tzs w t Hin. apply in_flat_map in Hin. destruct Hin as [z [Hz Ht]].
  destruct (attach_sound _ _ _ Hz) as [_ [t' [E Hw]]].
  unfold tzids_of in Ht. rewrite E in Ht. destruct Ht as [Ht|[]]. subst t'. exact Hw.
Qed.

Lemma attach_nodup : forall tzs w, NoDup (flat_map (fun z => match z_tzid z with Some t => [t] | None => [] end) (attach tzs w)).
Proof.
  change (forall tzs w, NoDup (flat_map tzids_of (attach tzs w))).
  induction tzs as [|z0 r IH]; intros w; simpl; [constructor|].
  destruct (z_tzid z0) as [t0|] eqn:Ez; [|apply IH].
  destruct (mem_str t0 w); [|apply IH].
  simpl. unfold tzids_of at 1. rewrite Ez. simpl.
  constructor; [|apply IH].
  intros Hin. apply attach_tzids_wanted, remove_str_In in Hin. destruct Hin as [_ Hne]. congruence.
Qed.

Lemma attach_complete : forall tzs w z t, In z tzs -> z_tzid z = Some t -> In t w ->
  exists z', In z' (attach tzs w) /\ z_tzid z' = Some t /\ find (tzid_is t) tzs = Some z'.
Proof.
  induction tzs as [|z0 r IH]; intros w z t Hin Hz Hw; [destruct Hin|].
  simpl. unfold tzid_is at 1.
  destruct (z_tzid z0) as [t0|] eqn:Ez.
  - destruct (eqs t0 t) eqn:E.
    + apply eqs_eq in E. subst t0.
      apply mem_str_In in Hw. rewrite Hw.
      exists z0. split; [left; reflexivity|]. split; [exact Ez|reflexivity].
    + assert (Hr : In z r).
      { destruct Hin as [Hin|Hin]; [|exact Hin]. subst z0.
        rewrite Hz in Ez. injection Ez as Eq. subst t0. rewrite eqs_refl in E. discriminate. }
      apply eqs_neq in E.
      destruct (mem_str t0 w).
      * assert (Hw' : In t (remove_str t0 w)).
        { apply remove_str_In. split; [exact Hw|]. intros Eq. apply E. symmetry. exact Eq. }
        destruct (IH _ _ _ Hr Hz Hw') as [z' [H1 [H2 H3]]].
        exists z'. split; [right; exact H1|]. split; assumption.
      * apply (IH _ _ _ Hr Hz Hw).
  - assert (Hr : In z r).
    { destruct Hin as [Hin|Hin]; [|exact Hin]. subst z0. congruence. }
    apply (IH _ _ _ Hr Hz Hw).
Qed.

Print Assumptions split_partition.
Print Assumptions split_group_spec.
Print Assumptions attach_complete.
