(* C20 -- non-vacuity: concrete reachable states that satisfy the hypotheses of the theorems *)
From Coq Require Import List ZArith NArith Bool Lia.
Import ListNotations.
Require Import RV.Model.Server RV.Proofs.ServerLemmas RV.Proofs.ServerInv RV.Proofs.ServerProofs.
Open Scope Z_scope.

(* max_connections = 2, timeout configured, internal server with max_content_length = 10, one listener *)
Definition cfgA : config := mkCfg 2 true (mkG true 10) 1.

Definition plain (cl : cl_r) : reqmsg := RHttp (mkReq PrefOk true WkNone AuthAnon cl false).
(* a method whose handler reads the declared body (PUT, PROPFIND, REPORT, ...) *)
Definition with_body (z : Z) : reqmsg := RHttp (mkReq PrefOk true WkNone AuthAnon (ClInt z) true).

(* four clients arrive, 0 and 1 send a small request, two iterations accept 0 and 1, both enter the handler *)
Definition evs_full : list event :=
  [EConnect 0; EConnect 0; EConnect 0; EConnect 0; ESend 0 (plain (ClInt 3)) true; ESend 1 (plain ClAbsent) true;
   LBuild; LSelect; LBody (Some 0); TRead 0; LBuild; LSelect; LBody (Some 0); TRead 1; LBuild]%N.

Definition st_of (cfg : config) (evs : list event) : state :=
  match run cfg init evs with Some (s, _) => s | None => init end.

Lemma reach_of : forall cfg evs, run cfg init evs <> None -> reachable cfg (st_of cfg evs).
Proof.
  intros cfg evs H. unfold st_of. destruct (run cfg init evs) as [[s o]|] eqn:E; [|contradiction].
  eapply reachable_run; [apply reach_init|exact E].
Qed.

(* more clients than slots: the bound is reached (2 workers, both inside the handler), two clients wait, and the
   loop is blocked in a select that does not poll the listeners *)
Example ex_bound_tight : exists s, reachable cfgA s /\ 0 < max_conn cfgA /\
  Z.of_nat (length (workers s)) = max_conn cfgA /\ Z.of_nat (handling s) = max_conn cfgA /\
  length (backlog s) = 2%nat /\ pc s = PSelect [0; 1]%N false.
Proof.
  exists (st_of cfgA evs_full). split; [apply reach_of; vm_compute; discriminate|]. vm_compute. repeat split; reflexivity.
Qed.

(* a free slot and waiting clients at the top of the loop *)
Example ex_progress_accept : exists s, reachable cfgA s /\ pc s = PTop /\ stop s = false /\ backlog s <> [] /\
  below_limit cfgA (workers s) = true /\ length (workers s) = 1%nat.
Proof.
  exists (st_of cfgA (firstn 10 evs_full)). split; [apply reach_of; vm_compute; discriminate|].
  vm_compute. repeat split; try reflexivity. discriminate.
Qed.

(* all slots taken, clients waiting, one handler returns: the worker is finished and select is blocked without
   the listeners *)
Example ex_progress_reap : exists s w o, reachable cfgA s /\ pc s = PSelect [0; 1]%N false /\ stop s = false /\
  In w (workers s) /\ w_st w = WDone o /\ backlog s <> [].
Proof.
  exists (st_of cfgA (evs_full ++ [ERelease 1%N])). eexists. eexists.
  split; [apply reach_of; vm_compute; discriminate|]. vm_compute.
  split; [reflexivity|]. split; [reflexivity|]. split; [right; left; reflexivity|]. split; [reflexivity|discriminate].
Qed.

(* silent clients hold every slot while others wait *)
Definition evs_silent : list event :=
  [EConnect 0; EConnect 0; EConnect 0; LBuild; LSelect; LBody (Some 0); LBuild; LSelect; LBody (Some 0); LBuild]%N.

Example ex_silent : exists s w rlw, reachable cfgA s /\ timeout_on cfgA = true /\ pc s = PSelect rlw false /\
  stop s = false /\ In w (workers s) /\ waits_for_client w = true /\ w_st w = WReading /\ w_cl w = CIdle /\
  Z.of_nat (length (workers s)) = max_conn cfgA /\ backlog s <> [].
Proof.
  exists (st_of cfgA evs_silent), (mkW 0 0 CIdle WReading), [0; 1]%N.
  split; [apply reach_of; vm_compute; discriminate|]. vm_compute.
  repeat split; try reflexivity; try discriminate. left. reflexivity.
Qed.

(* an accepted connection whose request declares 11 > 10 bytes *)
Definition evs_large : list event :=
  [EConnect 0; ESend 0 (plain (ClInt 11)) true; LBuild; LSelect; LBody (Some 0)]%N.

Example ex_413 : exists s w r full z, reachable cfgA s /\ internal (gc cfgA) = true /\ 0 < max_len (gc cfgA) /\
  In w (workers s) /\ w_st w = WReading /\ w_cl w = CSent (RHttp r) full /\ r_cl r = ClInt z /\ max_len (gc cfgA) < z /\
  r_pref r = PrefOk /\ r_method r = true /\ r_wk r = WkNone.
Proof.
  exists (st_of cfgA evs_large), (mkW 0 0 (CSent (plain (ClInt 11)) true) WReading), (mkReq PrefOk true WkNone AuthAnon (ClInt 11) false), true, 11.
  split; [apply reach_of; vm_compute; discriminate|]. vm_compute.
  repeat split; try reflexivity. left. reflexivity.
Qed.

(* and what the model then does: 413, handler not entered *)
Example ex_413_run : snd (play (cfgA, evs_large ++ [TRead 0%N])) = None /\
  In (OAnswer 0 413) (fst (play (cfgA, evs_large ++ [TRead 0%N]))) /\
  entered (st_of cfgA (evs_large ++ [TRead 0%N])) = [].
Proof. vm_compute. repeat split. right. right. right. right. right. left. reflexivity. Qed.

(* shutdown requested while two requests are in the handler and two clients wait in the queue *)
Example ex_closing : exists s, reachable cfgA s /\ closing s /\ handling s = 2%nat /\ length (backlog s) = 2%nat.
Proof.
  exists (st_of cfgA (evs_full ++ [EStop])). split; [apply reach_of; vm_compute; discriminate|]. vm_compute. auto.
Qed.

(* the shutdown arrives after select returned with a ready listener: ONE more accept happens *)
Example ex_one_more_accept : exists s evs s' o, reachable cfgA s /\ stop s = true /\ run cfgA s evs = Some (s', o) /\
  length (accepted s') = S (length (accepted s)).
Proof.
  exists (st_of cfgA [EConnect 0; LBuild; LSelect; EStop]%N), [LBody (Some 0%N)]. eexists. eexists.
  split; [apply reach_of; vm_compute; discriminate|]. vm_compute. repeat split; reflexivity.
Qed.

(* in the finally block with a request still inside the handler: serve() is blocked *)
Definition evs_final : list event := evs_full ++ [EStop; LSelect; LBody None].
Example ex_final_blocks : exists s w rest, reachable cfgA s /\ pc s = PFinal /\ workers s = w :: rest /\ is_done w = false.
Proof.
  exists (st_of cfgA evs_final). eexists. eexists. split; [apply reach_of; vm_compute; discriminate|]. vm_compute.
  repeat split; reflexivity.
Qed.

(* ... both handlers return, serve() returns: everything accepted is finished, both requests were handled *)
Example ex_shutdown : exists s, reachable cfgA s /\ pc s = PDone /\ accepted s = [0; 1]%N /\ entered s = [0; 1]%N /\
  finished s = [(0%N, OHandled); (1%N, OHandled)].
Proof.
  exists (st_of cfgA (evs_final ++ [ERelease 1; ERelease 0; LFinal; LFinal; LClose]%N)).
  split; [apply reach_of; vm_compute; discriminate|]. vm_compute. repeat split; reflexivity.
Qed.

(* unlimited (max_connections = 0): the listeners are always polled *)
Example ex_unlimited : let cfg0 := mkCfg 0 false (mkG true 0) 2 in
  pc (st_of cfg0 ([EConnect 0; EConnect 1; EConnect 0; LBuild; LSelect; LBody (Some 1); LBuild; LSelect; LBody (Some 0);
                   LBuild; LSelect; LBody (Some 0); LBuild]%N)) = PSelect [1; 0; 2]%N true.
Proof. vm_compute. reflexivity. Qed.

(* with the negative-length fix a negative declared length is answered 400 by the gate *)
Example ex_negative_length_rejected :
  gate (mkG true 1000) (mkReq PrefOk true WkNone AuthAnon (ClInt (-1)) true) = GEarly 400.
Proof. vm_compute. reflexivity. Qed.

(* ---- silence in every phase of a request: both slots are held by clients the server waits for ---- *)
(* client 0 sent a part of the request head and went silent; client 1 completed the head of a PUT declaring 5 bytes,
   is inside the handler and the body is outstanding; client 2 waits in the queue *)
Definition evs_phases : list event :=
  [EConnect 0; EConnect 0; EConnect 0; EPartial 0; ESend 1 (with_body 5) false;
   LBuild; LSelect; LBody (Some 0); LBuild; LSelect; LBody (Some 0); TRead 1; LBuild]%N.

Example ex_silent_phases : exists s w0 w1, reachable cfgA s /\ timeout_on cfgA = true /\ pc s = PSelect [0; 1]%N false /\
  stop s = false /\ length (backlog s) = 1%nat /\
  In w0 (workers s) /\ w_st w0 = WReading /\ w_cl w0 = CPartial /\ waits_for_client w0 = true /\
  In w1 (workers s) /\ w_st w1 = WBody /\ w_cl w1 = CSent (with_body 5) false /\ waits_for_client w1 = true /\
  handling s = 1%nat /\ entered s = [1%N].
Proof.
  exists (st_of cfgA evs_phases), (mkW 0 0 CPartial WReading), (mkW 1 0 (CSent (with_body 5) false) WBody).
  split; [apply reach_of; vm_compute; discriminate|]. vm_compute.
  repeat split; try reflexivity; try discriminate; [left | right; left]; reflexivity.
Qed.

(* what the model then does: both time out, both slots are reaped, the waiting client is accepted; the PUT ends
   "aborted" (500), not "handled" *)
Example ex_silent_phases_run :
  let r := play (cfgA, evs_phases ++ [TTimeout 0; TTimeout 1; LSelect; LBody None; LBuild; LSelect; LBody (Some 0)]%N) in
  snd r = None /\ In (OTimedOut 0) (fst r) /\ In (OBodyTimedOut 1) (fst r) /\ In (OReaped [0; 1]%N) (fst r) /\
  In (OAccepted 0 2) (fst r).
Proof. vm_compute. intuition. Qed.

(* silence in the MIDDLE of the body is the same state (body still incomplete); when the rest arrives the thread
   moves on and the time-out is no longer enabled *)
Example ex_body_completed :
  let s := st_of cfgA (evs_phases ++ [EBody 1; TBody 1]%N) in
  step cfgA s (TTimeout 1) = None /\ (exists s' o, step cfgA s (ERelease 1) = Some (s', o)).
Proof. vm_compute. split; [reflexivity|]. eexists. eexists. reflexivity. Qed.
