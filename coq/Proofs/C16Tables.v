(* C16 -- time_range_match on whole objects: the early stop loses nothing (C16_early_stop_complete) and the result
   is the RFC 4791 9.9 table (C16_tables), per component type. *)
From Coq Require Import ZArith List Bool Lia ZifyBool.
Import ListNotations.
Require Import RV.Model.Rfc4791 RV.Model.Filter RV.Proofs.C16Xt RV.Proofs.C16Loop RV.Proofs.C16Rows.
Open Scope Z_scope.

Lemma period_pos : forall rc, wf_rrule (rc_rule rc) -> 0 < r_period (rc_rule rc).
Proof. intros rc H. unfold wf_rrule in H. unfold r_period. destruct (r_freq (rc_rule rc)); lia. Qed.

(* ------------------------------------------------------------------ first date of an unbounded recurrence set *)
Section First.
  Variables (s0 : Z) (rc : recur).
  Let p := r_period (rc_rule rc).
  Hypothesis Hp : 0 < p.
  Definition K0 : Z := (ex_bound s0 (rc_ex rc) - s0) / p + 1.

  Lemma beyond_K0 : forall k, K0 <= k -> ex_bound s0 (rc_ex rc) < s0 + k * p.
  Proof.
    intros k Hk. unfold K0 in *.
    pose proof (Z.div_mod (ex_bound s0 (rc_ex rc) - s0) p ltac:(lia)) as Hdm.
    pose proof (Z.mod_pos_bound (ex_bound s0 (rc_ex rc) - s0) p Hp) as Hmod. nia.
  Qed.

  Lemma first_date_spec : forall fuel k, 0 <= k -> (Z.to_nat (K0 - k) < fuel)%nat ->
      exists k', k <= k' /\ first_date fuel s0 rc k = Some (s0 + k' * p)
                 /\ mem (s0 + k' * p) (rc_ex rc) = false
                 /\ forall j, k <= j < k' -> mem (s0 + j * p) (rc_ex rc) = true.
  Proof.
    induction fuel as [|f IH]; intros k Hk Hf; [lia|].
    cbn [first_date]. fold p. destruct (mem (s0 + k * p) (rc_ex rc)) eqn:Hm.
    - assert (k < K0).
      { destruct (Z_lt_le_dec k K0) as [|Hge]; [assumption|exfalso].
        pose proof (beyond_K0 k Hge). pose proof (mem_ex_bound _ _ s0 Hm). lia. }
      destruct (IH (k + 1) ltac:(lia) ltac:(lia)) as (k' & Hk' & Hfd & Hnm & Hall).
      exists k'. repeat split; auto; [lia|]. intros j Hj. destruct (Z.eq_dec j k) as [->|]; [assumption|].
      apply Hall. lia.
    - exists k. repeat split; auto; [lia|]. intros j Hj. lia.
  Qed.
End First.

(* ------------------------------------------------------------------ the visit with match_fn over a date sequence *)
Section Dates.
  Variable r : trange.
  Let s := tr_start r.
  Let e := tr_end r.
  Variable per_date : Z -> list call.
  Hypothesis Hbounded : tr_bounded r = true.
  Hypothesis P1 : forall D c, In c (per_date D) -> xle (Fin (D - 1)) (c_s c) = true.
  Hypothesis P2 : forall D, early s e (per_date D) = true -> xle e (Fin D) = true /\ ov s e (per_date D) = false.
  Hypothesis P3 : forall D, exists c1 rest, per_date D = c1 :: rest /\ xle (Fin D) (c_e c1) = true
                                           /\ xlt (c_s c1) PInf = true /\ c_rec c1 = false.

  Definition dates_fuel (s0 : Z) (rec : option recur) : nat :=
    match rec with
    | Some rc => if is_infinite rc
                 then S (S (Z.to_nat ((ex_bound (range_bound r) (rc_ex rc) - s0) / r_period (rc_rule rc) + 1)))
                 else S (Z.to_nat (rule_len s0 rc))
    | None => 1%nat
    end.

  Lemma run_one_date : forall d m stop, run_calls (match_fn s e) (per_date d) false = (m, stop) -> m = ov s e (per_date d).
  Proof.
    intros d m stop H. destruct (run_match_spec s e _ _ _ H) as [H1 H2]. pose proof (run_early s e _ _ _ H) as He.
    destruct m.
    - destruct (H1 eq_refl) as [_ ->]. reflexivity.
    - destruct stop.
      + destruct He as [_ He]. destruct (P2 d (He (conj eq_refl eq_refl))) as [_ ->]. reflexivity.
      + destruct (H2 eq_refl) as [_ ->]. reflexivity.
  Qed.

  Theorem visit_dates_match : forall s0 rec fuel, wf_recur rec -> (dates_fuel s0 rec <= fuel)%nat ->
      exists m stop, visit_dates (match_fn s e) no_infinity fuel per_date (dates_of s0 rec) false = Some (m, stop)
                     /\ (m = true <-> exists D, occurs s0 rec D /\ ov s e (per_date D) = true).
  Proof.
    intros s0 rec fuel Hwf Hfuel. pose proof run_one_date as Hone. subst s e.
    destruct rec as [rc|]; cbn [dates_of visit_dates].
    2:{ destruct (run_calls (match_fn (tr_start r) (tr_end r)) (per_date s0) false) as [m stop] eqn:Hr.
        exists m, stop. split; [reflexivity|]. rewrite (Hone _ _ _ Hr). cbn [occurs].
        split; [intros H; exists s0; auto|intros (D & -> & H); exact H]. }
    cbn [wf_recur] in Hwf. pose proof (period_pos rc Hwf) as Hp. cbn [dates_fuel] in Hfuel.
    assert (Hgoal : forall res, visit_rule (match_fn (tr_start r) (tr_end r)) fuel per_date s0 rc 0 false = Some res ->
              exists m stop, Some res = Some (m, stop) /\
                 (m = true <-> exists D, occurs s0 (Some rc) D /\ ov (tr_start r) (tr_end r) (per_date D) = true)).
    { intros [m stop] Hres. exists m, stop. split; [reflexivity|].
      rewrite (visit_rule_sound r per_date s0 rc Hp Hbounded P1 P2 fuel 0 m stop ltac:(lia) Hres).
      cbn [occurs]. split.
      - intros (k' & Hk' & Hg). unfold good in Hg. apply andb_true_iff in Hg as [Hg Hov].
        apply andb_true_iff in Hg as [Hin Hm]. apply negb_true_iff in Hm.
        exists (date s0 rc k'). split; [|exact Hov]. exists k'. unfold date in *. repeat split; auto.
      - intros (D & (k & Hk & Hin & -> & Hm) & Hov). exists k. split; [exact Hk|].
        unfold good, date. apply andb_true_iff. split; [apply andb_true_iff; split|];
          [exact Hin|rewrite Hm; reflexivity|exact Hov]. }
    destruct (is_infinite rc) eqn:Hinf.
    - destruct (first_date_spec s0 rc Hp (first_fuel s0 rc) 0 ltac:(lia)) as (k' & _ & Hfd & _).
      { unfold first_fuel, K0. lia. }
      rewrite Hfd. cbn [no_infinity].
      destruct (visit_rule_total_forever r per_date s0 rc Hp Hbounded P1 P2 P3 fuel 0 ltac:(lia)) as [res Hres].
      { unfold is_infinite in Hinf. destruct (r_bound (rc_rule rc)); congruence. }
      { unfold Kinf. lia. }
      rewrite Hres. apply Hgoal. exact Hres.
    - destruct (visit_rule_total_bounded per_date s0 rc Hp (match_fn (tr_start r) (tr_end r)) fuel 0 false ltac:(lia)) as [res Hres].
      { unfold is_infinite in Hinf. destruct (r_bound (rc_rule rc)); congruence. }
      { lia. }
      rewrite Hres. apply Hgoal. exact Hres.
  Qed.
End Dates.

(* ------------------------------------------------------------------ whole objects *)
Definition needs_proper (o : obj) : bool := match o with OTodo _ => true | _ => false end.

Lemma ov_exists : forall s e l, ov s e l = true <-> exists c, In c l /\ overlap s e c = true.
Proof. intros. unfold ov. apply existsb_exists. Qed.

Lemma vtodo_dates_row : forall t, wf_vtodo t ->
    match todo_ref (todo_row_of t) with
    | Some s0 => vtodo_dates t = Some (dates_of s0 (todo_rec t))
    | None => vtodo_dates t = None
    end.
Proof.
  intros t (_ & Hdur & Hdue & Hrec & Hcc). unfold vtodo_dates, todo_row_of, todo_rec, dates_of.
  destruct (td_dtstart t) as [ds|], (td_duration t) as [dd|], (td_due t) as [du|],
           (td_completed t) as [co|], (td_created t) as [cr|], (td_rec t) as [rc|];
    cbn [todo_ref]; try reflexivity; try (exfalso; intuition congruence).
Qed.

Lemma todo_has_ref : forall t s0, todo_ref (todo_row_of t) = Some s0 ->
    td_dtstart t <> None \/ td_due t <> None \/ td_completed t <> None \/ td_created t <> None.
Proof.
  intros t s0. unfold todo_row_of.
  destruct (td_dtstart t), (td_duration t), (td_due t), (td_completed t), (td_created t); cbn [todo_ref]; intros H;
    try discriminate; intuition congruence.
Qed.

Lemma match_fuel_event : forall ev r, match_fuel (OEvent ev) r = dates_fuel r (ev_start ev) (ev_rec ev).
Proof. intros. unfold match_fuel, obj_rule, dates_fuel. destruct (ev_rec ev); reflexivity. Qed.

Lemma match_fuel_journal : forall j k s0 r, jn_start j = Some (k, s0) ->
    match_fuel (OJournal j) r = dates_fuel r s0 (jn_rec j).
Proof. intros j k s0 r H. unfold match_fuel, obj_rule, dates_fuel. rewrite H. destruct (jn_rec j); reflexivity. Qed.

Lemma match_fuel_todo : forall t s0 rec r, vtodo_dates t = Some (dates_of s0 rec) ->
    match_fuel (OTodo t) r = dates_fuel r s0 rec.
Proof. intros t s0 rec r H. unfold match_fuel, obj_rule, dates_fuel. rewrite H. destruct rec; reflexivity. Qed.

(* C16_early_stop_complete: with the early stop, time_range_match answers "some range the visitor would hand out
   overlaps"; and the loop terminates with the explicit fuel match_fuel, also for unbounded rules. *)
Theorem early_stop_complete : forall o r fuel,
    wf_obj o -> tr_bounded r = true -> (needs_proper o = true -> tr_proper r = true) ->
    (match_fuel o r <= fuel)%nat ->
    exists b, time_range_match fuel o r = Some b /\
              (b = true <-> exists c, visited o c /\ overlap (tr_start r) (tr_end r) c = true).
Proof.
  intros o r fuel Hwf Hb Hproper Hfuel. unfold time_range_match. rewrite Hb. cbn [negb].
  destruct o as [ev|t|j]; cbn [visit visited wf_obj] in *.
  - (* VEVENT *)
    rewrite match_fuel_event in Hfuel.
    destruct (visit_dates_match r (vevent_calls ev false) Hb (vevent_P1 ev Hwf)
                (fun D => vevent_P2 ev Hwf _ _ D) (vevent_P3 ev Hwf) (ev_start ev) (ev_rec ev) fuel
                (proj1 Hwf) Hfuel) as (m & stop & Hv & Hm).
    rewrite Hv. exists m. split; [reflexivity|]. rewrite Hm. split.
    + intros (D & Hocc & Hov). apply ov_exists in Hov as (c & Hin & Hc). exists c. split; [exists D; auto|exact Hc].
    + intros (c & (D & Hocc & Hin) & Hc). exists D. split; [exact Hocc|]. apply ov_exists. exists c. auto.
  - (* VTODO *)
    specialize (Hproper eq_refl). unfold tr_proper in Hproper.
    pose proof (vtodo_dates_row t Hwf) as Hrow.
    destruct (todo_ref (todo_row_of t)) as [s0|] eqn:Href.
    + rewrite Hrow. rewrite (match_fuel_todo t s0 (todo_rec t) r Hrow) in Hfuel.
      assert (Hwfr : wf_recur (todo_rec t)).
      { unfold todo_rec. destruct (td_dtstart t); [exact (proj1 Hwf)|exact I]. }
      destruct (visit_dates_match r (vtodo_calls t false) Hb (vtodo_P1 t Hwf)
                  (fun D => vtodo_P2 t Hwf _ _ D Hproper) (fun D => vtodo_P3 t Hwf D (todo_has_ref t s0 Href))
                  s0 (todo_rec t) fuel Hwfr Hfuel) as (m & stop & Hv & Hm).
      rewrite Hv. exists m. split; [reflexivity|]. rewrite Hm.
      unfold dates_of. destruct (todo_rec t) as [rc|]; cbn [occurs].
      * split.
        -- intros (D & Hocc & Hov). apply ov_exists in Hov as (c & Hin & Hc). exists c. split; [exists D; auto|exact Hc].
        -- intros (c & (D & Hocc & Hin) & Hc). exists D. split; [exact Hocc|]. apply ov_exists. exists c. auto.
      * split.
        -- intros (D & -> & Hov). apply ov_exists in Hov as (c & Hin & Hc). exists c. auto.
        -- intros (c & Hin & Hc). exists s0. split; [reflexivity|]. apply ov_exists. exists c. auto.
    + rewrite Hrow. cbn [run_calls]. unfold match_fn at 1.
      assert (Ho : overlap (tr_start r) (tr_end r) (mkcall MInf PInf false) = true).
      { unfold overlap. cbn [c_s c_e]. destruct r as [[a|] [z|]]; reflexivity. }
      rewrite Ho. cbn. exists true. split; [reflexivity|]. split; [intros _|reflexivity].
      exists (mkcall MInf PInf false). split; [reflexivity|exact Ho].
  - (* VJOURNAL *)
    destruct (jn_start j) as [[k s0]|] eqn:Hs.
    + rewrite (match_fuel_journal j k s0 r Hs) in Hfuel.
      destruct (visit_dates_match r (vjournal_calls k false) Hb (vjournal_P1 k)
                  (fun D => vjournal_P2 k _ _ D) (vjournal_P3 k) s0 (jn_rec j) fuel Hwf Hfuel) as (m & stop & Hv & Hm).
      rewrite Hv. exists m. split; [reflexivity|]. rewrite Hm. split.
      * intros (D & Hocc & Hov). apply ov_exists in Hov as (c & Hin & Hc). exists c. split; [exists D; auto|exact Hc].
      * intros (c & (D & Hocc & Hin) & Hc). exists D. split; [exact Hocc|]. apply ov_exists. exists c. auto.
    + cbn. exists false. split; [reflexivity|]. split; [discriminate|]. intros (c & [] & _).
Qed.

(* the ranges handed out are the rows of the tables *)
Lemma visited_rfc : forall o r, wf_obj o ->
    (exists c, visited o c /\ overlap (tr_start r) (tr_end r) c = true) <-> rfc4791_overlaps o r.
Proof.
  intros o r Hwf. destruct o as [ev|t|j]; cbn [visited rfc4791_overlaps wf_obj] in *.
  - unfold rfc_overlaps_vevent. split.
    + intros (c & (D & Hocc & Hin) & Hc). exists D. split; [exact Hocc|].
      rewrite <- (rows_vevent ev Hwf). apply ov_exists. exists c. auto.
    + intros (D & Hocc & Hrow). rewrite <- (rows_vevent ev Hwf) in Hrow. apply ov_exists in Hrow as (c & Hin & Hc).
      exists c. split; [exists D; auto|exact Hc].
  - unfold rfc_overlaps_vtodo. pose proof (vtodo_dates_row t Hwf) as Hrow.
    destruct (todo_ref (todo_row_of t)) as [s0|] eqn:Href; rewrite Hrow.
    + assert (Hrows : forall D, occurs s0 (todo_rec t) D ->
                 ov (tr_start r) (tr_end r) (vtodo_calls t false D) = vtodo_row (todo_row_of t) D (tr_start r) (tr_end r)).
      { intros D Hocc. apply (rows_vtodo t Hwf); [apply tr_start_not_pinf|congruence|].
        intros Hnone. unfold todo_rec in Hocc. rewrite Hnone in Hocc. cbn in Hocc. subst. exact Href. }
      unfold dates_of. destruct (todo_rec t) as [rc|] eqn:Hrec.
      * split.
        -- intros (c & (D & Hocc & Hin) & Hc). exists D. split; [exact Hocc|]. rewrite <- Hrows by exact Hocc.
           apply ov_exists. exists c. auto.
        -- intros (D & Hocc & Hr). rewrite <- Hrows in Hr by exact Hocc. apply ov_exists in Hr as (c & Hin & Hc).
           exists c. split; [exists D; auto|exact Hc].
      * cbn [occurs] in *. split.
        -- intros (c & Hin & Hc). exists s0. split; [reflexivity|]. rewrite <- Hrows by reflexivity.
           apply ov_exists. exists c. auto.
        -- intros (D & -> & Hr). rewrite <- Hrows in Hr by reflexivity. apply ov_exists in Hr as (c & Hin & Hc).
           exists c. auto.
    + assert (todo_row_of t = TR8) as ->.
      { destruct (todo_row_of t); cbn in Href; congruence. }
      cbn [vtodo_row]. split; [reflexivity|]. intros _. exists (mkcall MInf PInf false). split; [reflexivity|].
      unfold overlap. cbn [c_s c_e]. destruct r as [[a|] [z|]]; reflexivity.
  - unfold rfc_overlaps_vjournal. destruct (jn_start j) as [[k s0]|].
    + split.
      * intros (c & (D & Hocc & Hin) & Hc). exists D. split; [exact Hocc|].
        rewrite <- rows_vjournal. apply ov_exists. exists c. auto.
      * intros (D & Hocc & Hrow). rewrite <- rows_vjournal in Hrow. apply ov_exists in Hrow as (c & Hin & Hc).
        exists c. split; [exists D; auto|exact Hc].
    + split; [intros (c & [] & _)|intros []].
Qed.

(* C16_tables *)
Theorem tables : forall o r fuel,
    wf_obj o -> tr_bounded r = true -> (needs_proper o = true -> tr_proper r = true) ->
    (match_fuel o r <= fuel)%nat ->
    exists b, time_range_match fuel o r = Some b /\ (b = true <-> rfc4791_overlaps o r).
Proof.
  intros o r fuel Hwf Hb Hp Hf. destruct (early_stop_complete o r fuel Hwf Hb Hp Hf) as (b & Hm & Hiff).
  exists b. split; [exact Hm|]. rewrite Hiff. apply visited_rfc. exact Hwf.
Qed.

(* per component type *)
Theorem tables_vevent : forall ev r fuel,
    wf_vevent ev -> tr_bounded r = true -> (match_fuel (OEvent ev) r <= fuel)%nat ->
    exists b, time_range_match fuel (OEvent ev) r = Some b /\ (b = true <-> rfc_overlaps_vevent ev r).
Proof. intros ev r fuel Hwf Hb Hf. exact (tables (OEvent ev) r fuel Hwf Hb (fun H => False_ind _ (Bool.diff_false_true H)) Hf). Qed.

Theorem tables_vjournal : forall j r fuel,
    wf_vjournal j -> tr_bounded r = true -> (match_fuel (OJournal j) r <= fuel)%nat ->
    exists b, time_range_match fuel (OJournal j) r = Some b /\ (b = true <-> rfc_overlaps_vjournal j r).
Proof. intros j r fuel Hwf Hb Hf. exact (tables (OJournal j) r fuel Hwf Hb (fun H => False_ind _ (Bool.diff_false_true H)) Hf). Qed.

Theorem tables_vtodo : forall t r fuel,
    wf_vtodo t -> tr_bounded r = true -> tr_proper r = true -> (match_fuel (OTodo t) r <= fuel)%nat ->
    exists b, time_range_match fuel (OTodo t) r = Some b /\ (b = true <-> rfc_overlaps_vtodo t r).
Proof. intros t r fuel Hwf Hb Hp Hf. exact (tables (OTodo t) r fuel Hwf Hb (fun _ => Hp) Hf). Qed.

Lemma unbounded_range : forall o fuel, time_range_match fuel o (None, None) = Some false.
Proof. reflexivity. Qed.
