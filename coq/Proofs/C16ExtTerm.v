(* C16 extension -- termination of the model of Model/FilterExt.v with the explicit fuel formulas xhull_fuel / xmatch_fuel,
   and the total-correctness forms of the theorems of C16Ext.v. *)
From Coq Require Import ZArith List Bool Lia ZifyBool.
Import ListNotations.
Require Import RV.Model.Rfc4791 RV.Model.Filter RV.Model.FilterExt RV.Model.Rfc4791Ext.
Require Import RV.Proofs.C16Xt RV.Proofs.C16Loop RV.Proofs.C16Rows RV.Proofs.C16Tables RV.Proofs.C16Hull RV.Proofs.C16Ext.
Open Scope Z_scope.

(* one step either consumes a date of the RDATE list or advances the rule *)
Lemma xnext_shape : forall s0 rule k xs d0 k' xs',
    xnext s0 rule (k, xs) = Some (d0, (k', xs')) ->
    (k' = k /\ length xs = S (length xs')) \/
    (k' = k + 1 /\ (length xs' <= length xs)%nat /\ rule_cand s0 rule k = Some d0).
Proof.
  intros s0 rule k xs d0 k' xs' H. unfold xnext in H.
  destruct (rule_cand s0 rule k) as [dr|]; destruct xs as [|x r].
  - inversion H; subst. right. repeat split; cbn; lia.
  - destruct (x <? dr); [|destruct (x =? dr)]; inversion H; subst; [left|right|right]; repeat split; cbn; lia.
  - discriminate.
  - inversion H; subst. left. split; reflexivity.
Qed.

(* ------------------------------------------------------------------ bounded rules (or no rule): any visitor *)
Section Bounded.
  Variable o : xevent.
  Hypothesis Hor : wf_orule (xe_rule o).
  Hypothesis Hfin : xe_infinite o = false.

  Lemma cand_lt_len : forall k d, 0 <= k -> rule_cand (xe_start o) (xe_rule o) k = Some d -> k < xrule_len o.
  Proof.
    intros k d Hk H. unfold rule_cand in H. unfold xrule_len. unfold xe_infinite in Hfin. unfold wf_orule in Hor.
    destruct (xe_rule o) as [rr|]; [|discriminate].
    assert (Hp : 0 < r_period rr) by (unfold wf_rrule in Hor; unfold r_period; destruct (r_freq rr); lia).
    destruct (in_bound (r_bound rr) (xe_start o) (r_period rr) k) eqn:Hb; [|discriminate].
    unfold in_bound in Hb. destruct (r_bound rr) as [n|u|]; [lia| |discriminate].
    apply Z.leb_le in Hb. assert (k <= (u - xe_start o) / r_period rr) by (apply Z.div_le_lower_bound; lia). lia.
  Qed.

  Lemma term_bounded : forall {St} (f : call -> St -> St * bool) fuel k xs h, 0 <= k ->
      (length xs + Z.to_nat (xrule_len o - k) < fuel)%nat ->
      exists r, xvisit_set f fuel o (k, xs) h = Some r.
  Proof.
    intros St f. induction fuel as [|n IH]; intros k xs h Hk Hm; [lia|].
    cbn [xvisit_set]. destruct (xnext (xe_start o) (xe_rule o) (k, xs)) as [[d0 [k' xs']]|] eqn:Hn; [|eexists; reflexivity].
    assert (Hdec : 0 <= k' /\ (length xs' + Z.to_nat (xrule_len o - k') < n)%nat).
    { apply xnext_shape in Hn as [[-> Hl]|(-> & Hl & Hc)]; [split; lia|]. pose proof (cand_lt_len k d0 Hk Hc). split; lia. }
    destruct Hdec as [Hk' Hm'].
    destruct (xskip o d0); [apply IH; assumption|].
    destruct (run_calls f (vevent_calls (xe_master o) false d0) h) as [h' stop]. destruct stop; [eexists; reflexivity|apply IH; assumption].
  Qed.
End Bounded.

(* ------------------------------------------------------------------ unbounded rules *)
Definition xKp (o : xevent) (B : Z) : Z := (B - xe_start o) / xe_period o + 1.

Section Infinite.
  Variable o : xevent.
  Hypothesis Hor : wf_orule (xe_rule o).
  Hypothesis Hinf : xe_infinite o = true.
  Variable B : Z.
  Hypothesis HB : forall d, xskip o d = true -> d <= B.

  Lemma inf_cand : forall k, rule_cand (xe_start o) (xe_rule o) k = Some (xe_start o + k * xe_period o) /\ 0 < xe_period o.
  Proof.
    intros k. unfold rule_cand, xe_period. unfold xe_infinite in Hinf. unfold wf_orule in Hor. destruct (xe_rule o) as [rr|]; [|discriminate].
    destruct (r_bound rr); try discriminate. cbn [in_bound]. split; [reflexivity|].
    unfold wf_rrule in Hor. unfold r_period. destruct (r_freq rr); lia.
  Qed.

  Lemma beyond : forall k, xKp o B <= k -> B < xe_start o + k * xe_period o.
  Proof.
    intros k Hk. destruct (inf_cand 0) as [_ Hp]. unfold xKp in Hk.
    pose proof (Z.mul_succ_div_gt (B - xe_start o) (xe_period o) Hp) as H. set (q := (B - xe_start o) / xe_period o) in *. nia.
  Qed.

  Lemma first_total : forall fuel k xs, 0 <= k -> (length xs + Z.to_nat (xKp o B - k) < fuel)%nat ->
      exists d, xfirst fuel o (k, xs) = Some (Some d).
  Proof.
    induction fuel as [|n IH]; intros k xs Hk Hm; [lia|]. cbn [xfirst].
    destruct (xnext (xe_start o) (xe_rule o) (k, xs)) as [[d0 [k' xs']]|] eqn:Hn.
    - destruct (xskip o d0) eqn:Hs; [|eexists; reflexivity].
      pose proof (xnext_shape _ _ _ _ _ _ _ Hn) as [[-> Hl]|(-> & Hl & Hc)]; [apply IH; lia|].
      destruct (inf_cand k) as [Hc' _]. rewrite Hc' in Hc. inversion Hc; subst d0.
      assert (k < xKp o B).
      { destruct (Z_lt_le_dec k (xKp o B)) as [|Hge]; [assumption|]. pose proof (beyond k Hge). specialize (HB _ Hs). lia. }
      apply IH; lia.
    - exfalso. unfold xnext in Hn. destruct (inf_cand k) as [Hc _]. rewrite Hc in Hn. destruct xs as [|x r]; [discriminate|].
      destruct (x <? xe_start o + k * xe_period o); [discriminate|]. destruct (x =? xe_start o + k * xe_period o); discriminate.
  Qed.

  Variable r : trange.
  Hypothesis Hr : tr_bounded r = true.
  Hypothesis HBr : range_bound r <= B.
  Hypothesis Hev : wf_vevent (xe_master o).

  (* a master instance beyond the bound stops the walk: it overlaps or it starts after the end of the range *)
  Lemma stop_beyond : forall d m, B < d ->
      exists m', match_fn (tr_start r) (tr_end r) (fcall d (d + xlen o) false) m = (m', true).
  Proof.
    intros d m Hd. destruct (xmaster_block o Hev) as [Hl _]. unfold match_fn.
    destruct (overlap (tr_start r) (tr_end r) (fcall d (d + xlen o) false)) eqn:Ho; [eexists; reflexivity|].
    assert (Hx : xlt (tr_end r) (c_s (fcall d (d + xlen o) false)) && negb (c_rec (fcall d (d + xlen o) false)) = true).
    { unfold overlap, fcall in *. cbn [c_s c_e c_rec negb] in *. rewrite andb_true_r.
      destruct r as [[s'|] [e'|]]; cbn in Ho, HBr, Hr |- *; try discriminate; lia. }
    rewrite Hx. eexists; reflexivity.
  Qed.

  Lemma match_total : forall fuel k xs m, 0 <= k -> (length xs + Z.to_nat (xKp o B - k) < fuel)%nat ->
      exists res, xvisit_set (match_fn (tr_start r) (tr_end r)) fuel o (k, xs) m = Some res.
  Proof.
    induction fuel as [|n IH]; intros k xs m Hk Hm; [lia|]. cbn [xvisit_set].
    destruct (xnext (xe_start o) (xe_rule o) (k, xs)) as [[d0 [k' xs']]|] eqn:Hn; [|eexists; reflexivity].
    pose proof (xnext_shape _ _ _ _ _ _ _ Hn) as Hsh. destruct (xmaster_block o Hev) as [_ Hb]. rewrite Hb, run_calls_single.
    destruct Hsh as [[-> Hl]|(-> & Hl & Hc)].
    - destruct (xskip o d0); [apply IH; lia|].
      destruct (match_fn (tr_start r) (tr_end r) (fcall d0 (d0 + xlen o) false) m) as [m' stop].
      destruct stop; [eexists; reflexivity|apply IH; lia].
    - destruct (inf_cand k) as [Hc' _]. rewrite Hc' in Hc. inversion Hc; subst d0.
      destruct (Z_lt_le_dec k (xKp o B)) as [Hlt|Hge].
      + destruct (xskip o (xe_start o + k * xe_period o)); [apply IH; lia|].
        destruct (match_fn (tr_start r) (tr_end r) (fcall (xe_start o + k * xe_period o) (xe_start o + k * xe_period o + xlen o) false) m) as [m' stop].
        destruct stop; [eexists; reflexivity|apply IH; lia].
      + pose proof (beyond k Hge) as Hbd.
        destruct (xskip o (xe_start o + k * xe_period o)) eqn:Hs; [specialize (HB _ Hs); lia|].
        destruct (stop_beyond _ m Hbd) as [m' Hst]. rewrite Hst. eexists; reflexivity.
  Qed.
End Infinite.

Lemma skip_le_bound : forall o b d, xskip o d = true -> d <= xskip_bound o b.
Proof.
  unfold xskip, xskip_bound. intros o b d H. apply orb_true_iff in H as [H|H].
  - pose proof (mem_ex_bound d (xe_ex o) b H). pose proof (ex_bound_ge (xe_rids o) (ex_bound b (xe_ex o))). lia.
  - exact (mem_ex_bound d (xe_rids o) _ H).
Qed.

Lemma bound_le : forall o b, b <= xskip_bound o b.
Proof.
  intros o b. unfold xskip_bound. pose proof (ex_bound_ge (xe_ex o) b). pose proof (ex_bound_ge (xe_rids o) (ex_bound b (xe_ex o))). lia.
Qed.

(* ================================================================== total forms *)
Theorem ext_match_total : forall o r fuel, wf_xevent o -> tr_bounded r = true -> (xmatch_fuel o r <= fuel)%nat ->
    exists b, xtime_range_match fuel o r = Some b /\ (b = true <-> xrfc_overlaps o r).
Proof.
  intros o r fuel Hwf Hb Hfuel. pose proof Hwf as (Hev & _ & _). pose proof (wf_x_orule o Hwf) as Hor.
  enough (exists b, xtime_range_match fuel o r = Some b) as [b H].
  { exists b. split; [exact H|exact (ext_match_rfc o r fuel b Hwf Hb H)]. }
  unfold xtime_range_match. rewrite Hb. cbn [negb]. unfold xvisit.
  destruct (run_calls (match_fn (tr_start r) (tr_end r)) (flat_map over_calls (xe_over o)) false) as [m1 stop1].
  destruct stop1; [eexists; reflexivity|].
  enough (exists res, xvisit_master (match_fn (tr_start r) (tr_end r)) no_infinity fuel o m1 = Some res) as [[m' st'] ->].
  { eexists; reflexivity. }
  unfold xvisit_master. destruct (xe_has_set o); [|eexists; reflexivity].
  unfold xmatch_fuel, xhull_fuel in Hfuel. destruct (xe_infinite o) eqn:Hinf.
  - unfold xinf_fuel in Hfuel. set (B := xskip_bound o (range_bound r)) in *.
    assert (HB : forall d, xskip o d = true -> d <= B) by (intros d; apply skip_le_bound).
    assert (Hm : (length (xe_extras o) + Z.to_nat (xKp o B - 0) < fuel)%nat) by (unfold xKp; lia).
    destruct (first_total o Hor Hinf B HB fuel 0 (xe_extras o) ltac:(lia) Hm) as [d0 Hf]. rewrite Hf. unfold no_infinity.
    exact (match_total o Hor Hinf B HB r Hb (bound_le o (range_bound r)) Hev fuel 0 (xe_extras o) m1 ltac:(lia) Hm).
  - apply (term_bounded o Hor Hinf); lia.
Qed.

Theorem ext_hull_total : forall o fuel, wf_xevent o -> (xhull_fuel o <= fuel)%nat ->
    exists a b, xfind_time_range fuel o = Some (a, b) /\ hull_ok a b (xvisited o).
Proof.
  intros o fuel Hwf Hfuel. pose proof (wf_x_orule o Hwf) as Hor.
  enough (exists ab, xfind_time_range fuel o = Some ab) as [[a b] H].
  { exists a, b. split; [exact H|exact (ext_hull o fuel a b Hwf H)]. }
  unfold xfind_time_range, xvisit. rewrite over_block, run_hull.
  set (h1 := fold_left (fun st c => hull_add c st) (map over_call (xe_over o)) (None, None)).
  enough (exists res, xvisit_master hull_fn hull_inf fuel o h1 = Some res) as [[[sa sb] st] ->].
  { eexists; reflexivity. }
  unfold xvisit_master. destruct (xe_has_set o); [|eexists; reflexivity].
  unfold xhull_fuel in Hfuel. destruct (xe_infinite o) eqn:Hinf.
  - unfold xinf_fuel in Hfuel. set (B := xskip_bound o (xe_start o)) in *.
    assert (HB : forall d, xskip o d = true -> d <= B) by (intros d; apply skip_le_bound).
    assert (Hm : (length (xe_extras o) + Z.to_nat (xKp o B - 0) < fuel)%nat) by (unfold xKp; lia).
    destruct (first_total o Hor Hinf B HB fuel 0 (xe_extras o) ltac:(lia) Hm) as [d0 Hf]. rewrite Hf.
    unfold hull_inf. destruct h1 as [a1 b1]. eexists; reflexivity.
  - apply (term_bounded o Hor Hinf); lia.
Qed.

Theorem ext_visit_total : forall o fuel, wf_xevent o -> xe_infinite o = false -> (xhull_fuel o <= fuel)%nat ->
    exists l, xvisit rec_all no_infinity fuel o [] = Some (l, false) /\ forall c, In c l <-> xvisited o c.
Proof.
  intros o fuel Hwf Hinf Hfuel. pose proof (wf_x_orule o Hwf) as Hor.
  enough (exists res, xvisit rec_all no_infinity fuel o [] = Some res) as [[l stop] H].
  { destruct (ext_visit_exact o fuel l stop Hwf H) as [-> Hc]. exists l. split; [exact H|exact Hc]. }
  unfold xvisit. rewrite over_block, run_rec_all. unfold xvisit_master. rewrite Hinf.
  destruct (xe_has_set o); [|eexists; reflexivity].
  unfold xhull_fuel in Hfuel. rewrite Hinf in Hfuel. apply (term_bounded o Hor Hinf); lia.
Qed.
