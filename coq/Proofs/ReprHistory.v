(* The refinement lifted to whole request histories: the tree produced by the fault-free runs of the
   storage operations of a covered history represents exactly the ideal store after that history. *)
From Coq Require Import List NArith Bool Lia.
Import ListNotations.
Require RV.Model.Store RV.Model.Handlers RV.Proofs.StoreLemmas RV.Proofs.HandlersInv.
Require Import RV.Lib.Prog RV.Model.Fs RV.Model.StorageOps RV.Model.Repr RV.Proofs.FsLemmas RV.Proofs.FsInv
  RV.Proofs.C02Units RV.Proofs.C02Final RV.Proofs.ReprProofs RV.Proofs.ReprUnits RV.Proofs.ReprFinal RV.Proofs.ReprE2E
  RV.Proofs.ReprHandle RV.Proofs.ReprExample.
Open Scope N_scope.

(* fault-free execution of one storage operation / of a list of them; None = some operation did not end normally *)
Definition run_unit (lay : layout) (u : unit_op) (s : fs) : option fs :=
  let r := machine_run no_fault (unit_prog lay u) (start s) in
  match snd r with ONorm => Some (c_st (fst r)) | _ => None end.

Fixpoint run_units (lay : layout) (us : list unit_op) (s : fs) : option fs :=
  match us with
  | [] => Some s
  | u :: rest => match run_unit lay u s with Some s' => run_units lay rest s' | None => None end
  end.

Lemma run_units_app : forall lay us1 us2 s,
  run_units lay (us1 ++ us2) s = match run_units lay us1 s with Some s' => run_units lay us2 s' | None => None end.
Proof.
  intros lay us1. induction us1 as [|u us1 IH]; intros us2 s; cbn [app run_units]; [reflexivity|].
  destruct (run_unit lay u s); [apply IH | reflexivity].
Qed.

(* one step of the ideal store: no operation, or one operation whose normal end represents the new store *)
Lemma step_units : forall lay sigma sigma' s, R s sigma -> fs_inv_weak s -> step_ok sigma sigma' s ->
  exists us, forall s', run_units lay us s = Some s' -> R s' sigma' /\ fs_inv_weak s'.
Proof.
  intros lay sigma sigma' s HR Hfs [-> | [u Hu]].
  - exists []. intros s' H. cbn in H. inversion H; subst. split; assumption.
  - exists [u]. intros s' H. cbn [run_units] in H. unfold run_unit in H.
    destruct (Hu lay no_fault) as (Hi & _ & Hn).
    destruct (snd (machine_run no_fault (unit_prog lay u) (start s))) eqn:E; try discriminate.
    inversion H; subst s'. split; [apply Hn; reflexivity | exact Hi].
Qed.

Theorem history_refines : forall cfg pol user lay rs s sigma sigma' outs,
  R s sigma -> HI.store_inv sigma -> fs_inv_weak s -> Forall covered rs ->
  H.run_history cfg pol user sigma rs = (sigma', outs) ->
  exists us, forall s', run_units lay us s = Some s' -> R s' sigma' /\ fs_inv_weak s'.
Proof.
  intros cfg pol user lay rs. induction rs as [|r rs IH]; intros s sigma sigma' outs HR Hinv Hfs Hcov Hrun.
  - cbn in Hrun. inversion Hrun; subst. exists []. intros s' H. cbn in H. inversion H; subst. split; assumption.
  - cbn [H.run_history] in Hrun. destruct (H.handle cfg pol user sigma r) as [sigma2 out] eqn:Hh.
    destruct (H.run_history cfg pol user sigma2 rs) as [sigma3 outs'] eqn:Hr. inversion Hrun; subst sigma' outs.
    inversion Hcov as [|? ? Hc Hcs]; subst.
    destruct (handle_refines cfg pol user s sigma r sigma2 out HR Hinv Hfs Hc Hh) as (Hhome & Hinv1 & Hmeth & Hinv2).
    destruct (step_units lay _ _ s HR Hfs Hhome) as [us1 H1].
    destruct (run_units lay us1 s) as [s1|] eqn:E1.
    + destruct (H1 s1 eq_refl) as [HR1 Hfs1].
      destruct (step_units lay _ _ s1 HR1 Hfs1 (Hmeth s1 HR1 Hfs1)) as [us2 H2].
      destruct (run_units lay us2 s1) as [s2|] eqn:E2.
      * destruct (H2 s2 eq_refl) as [HR2 Hfs2].
        destruct (IH s2 sigma2 sigma3 outs' HR2 Hinv2 Hfs2 Hcs Hr) as [us3 H3].
        exists (us1 ++ us2 ++ us3). intros s' Hs'. rewrite run_units_app, E1, run_units_app, E2 in Hs'. apply H3. exact Hs'.
      * exists (us1 ++ us2). intros s' Hs'. rewrite run_units_app, E1, E2 in Hs'. discriminate.
    + exists us1. intros s' Hs'. congruence.
Qed.

(* from the empty storage folder *)
Corollary history_refines_empty : forall cfg pol user lay rs sigma' outs,
  Forall covered rs -> H.run_history cfg pol user ST.empty_store rs = (sigma', outs) ->
  exists us, forall s', run_units lay us ex_s0 = Some s' -> R s' sigma' /\ fs_inv_weak s'.
Proof.
  intros. eapply history_refines; eauto; [apply R_empty | apply HI.empty_store_inv | apply ex_s0_inv].
Qed.

(* ------------------------------------------------------------------ explicit chains of operations *)
(* us takes the ideal store from sigma to sigma' : each operation refines its step from EVERY representing tree *)
Inductive chain : list unit_op -> ST.store -> ST.store -> Prop :=
| chain_nil : forall sigma, chain [] sigma sigma
| chain_cons : forall u us sigma sigma1 sigma2,
    (forall lay (o : oracle errno) s, R s sigma -> fs_inv_weak s -> refines sigma sigma1 (machine_run o (unit_prog lay u) (start s))) ->
    chain us sigma1 sigma2 -> chain (u :: us) sigma sigma2.

Lemma chain_run : forall us sigma sigma', chain us sigma sigma' ->
  forall lay s s', R s sigma -> fs_inv_weak s -> run_units lay us s = Some s' -> R s' sigma' /\ fs_inv_weak s'.
Proof.
  intros us sigma sigma' Hc. induction Hc as [sg | u us sg sg1 sg2 Hu Hc IH]; intros lay s s' HR Hfs Hrun.
  - cbn in Hrun. inversion Hrun; subst. split; assumption.
  - cbn [run_units] in Hrun. unfold run_unit in Hrun. destruct (Hu lay no_fault s HR Hfs) as (Hi & _ & Hn).
    destruct (snd (machine_run no_fault (unit_prog lay u) (start s))) eqn:E; try discriminate.
    apply (IH lay _ s' (Hn eq_refl) Hi Hrun).
Qed.

(* ------------------------------------------------------------------ a concrete history, evaluated on both sides *)
Definition hx_cfg := H.mkConfig true true.
Definition hx_pol : H.policy := fun _ => [82; 87; 114; 119].
Definition hx_ob2 : ST.obj := ST.mkObj 7 ST.CEvent 3.
Definition hx_history : list H.request :=
  [H.RMkcalendar [10; 20] H.XNone;
   H.RPut [10; 20; 100] H.CTNone (H.BCal [ex_ob]) H.CNone false;
   H.RMove [10; 20; 100] true [10; 20; 101] false;
   H.RPut [10; 20; 102] H.CTNone (H.BCal [hx_ob2]) H.CNone false;
   H.RDelete [10; 20; 101] H.CNone].
Definition hx_sigma : ST.store := fst (H.run_history hx_cfg hx_pol (Some 10) ST.empty_store hx_history).

(* the storage operations the real handlers issue for it: home creation, then one per request *)
Definition hx_units : list unit_op :=
  [UMkdir (fp [10]);
   UCreate (fp ([10] ++ [20])) None (pcode ST.TCal []);
   UUpload (fp [10; 20]) (Safe 100) (ocode ex_ob) [];
   UMove (fp [10; 20]) (Safe 100) (fp [10; 20]) (Safe 101) 0 [] [];
   UUpload (fp [10; 20]) (Safe 102) (ocode hx_ob2) [];
   UDeleteItem (fp [10; 20]) (Safe 101) []].

Definition hx_sig4 : ST.store :=
  let s1 := ST.set_coll ex_sig3 [10; 20] (ST.mkColl ST.TCal [] (ST.assoc_del [(100, ex_ob)] 100)) in
  ST.set_coll s1 [10; 20] (ST.mkColl ST.TCal [] (ST.assoc_set [] 101 ex_ob)).
Definition hx_sig5 : ST.store := ST.set_coll hx_sig4 [10; 20] (ST.mkColl ST.TCal [] (ST.assoc_set [(101, ex_ob)] 102 hx_ob2)).
Definition hx_sig6 : ST.store := ST.set_coll hx_sig5 [10; 20] (ST.mkColl ST.TCal [] (ST.assoc_del [(101, ex_ob); (102, hx_ob2)] 101)).

Lemma hx_inv_of : forall sg rs, sg = fst (H.run_history hx_cfg hx_pol (Some 10) ST.empty_store rs) -> HI.store_inv sg.
Proof. intros sg rs ->. apply HI.run_history_inv. apply HI.empty_store_inv. Qed.
Lemma hx_inv4 : HI.store_inv hx_sig4.
Proof. apply (hx_inv_of _ (firstn 3 hx_history)). vm_compute. reflexivity. Qed.
Lemma hx_inv5 : HI.store_inv hx_sig5.
Proof. apply (hx_inv_of _ (firstn 4 hx_history)). vm_compute. reflexivity. Qed.

Lemma hx_chain : chain hx_units ST.empty_store hx_sig6.
Proof.
  unfold hx_units.
  apply (chain_cons _ _ _ ex_sig1); [intros lay o s HR Hfs; apply (refine_mkdir lay o s ST.empty_store HR HI.empty_store_inv Hfs [10] eq_refl)|].
  apply (chain_cons _ _ _ ex_sig2).
  { intros lay o s HR Hfs. apply (refine_mkcoll lay o s ex_sig1 HR ex_inv1 Hfs [10] 20 ST.TCal [] (ST.mkColl ST.TNone [] []) eq_refl eq_refl). }
  apply (chain_cons _ _ _ ex_sig3).
  { intros lay o s HR Hfs. apply (refine_put_item lay o s ex_sig2 HR ex_inv2 Hfs [10; 20] 100 ex_ob (ST.mkColl ST.TCal [] []) [] eq_refl eq_refl). }
  apply (chain_cons _ _ _ hx_sig4).
  { intros lay o s HR Hfs.
    apply (refine_move lay o s ex_sig3 HR ex_inv3 Hfs [10; 20] 100 [10; 20] 101
              (ST.mkColl ST.TCal [] [(100, ex_ob)]) ex_ob (ST.mkColl ST.TCal [] [(100, ex_ob)])
              (ST.mkColl ST.TCal [] (ST.assoc_del [(100, ex_ob)] 100)) 0 [] []
              eq_refl eq_refl eq_refl eq_refl eq_refl ltac:(discriminate) eq_refl). }
  apply (chain_cons _ _ _ hx_sig5).
  { intros lay o s HR Hfs. apply (refine_put_item lay o s hx_sig4 HR hx_inv4 Hfs [10; 20] 102 hx_ob2 (ST.mkColl ST.TCal [] [(101, ex_ob)]) [] eq_refl eq_refl). }
  apply (chain_cons _ _ _ hx_sig6); [|apply chain_nil].
  intros lay o s HR Hfs. apply (refine_delete_item lay o s hx_sig5 HR hx_inv5 Hfs [10; 20] 101 (ST.mkColl ST.TCal [] [(101, ex_ob); (102, hx_ob2)]) [] eq_refl eq_refl).
Qed.

Definition is_some_fs (o : option fs) : bool := match o with Some _ => true | None => false end.

(* every operation of the history ends normally (one vm_compute over the whole run); the resulting tree
   represents the store the handler model reaches on the same history *)
Theorem history_example :
  hx_sig6 = hx_sigma /\
  exists s', run_units ex_lay hx_units ex_s0 = Some s'
    /\ R s' hx_sigma /\ HI.store_inv hx_sigma /\ fs_inv_weak s'
    /\ look s' (fp [10; 20; 102]) = Some (F (ocode hx_ob2))
    /\ look s' (fp [10; 20; 100]) = None /\ look s' (fp [10; 20; 101]) = None.
Proof.
  assert (Heq : hx_sig6 = hx_sigma) by (vm_compute; reflexivity). split; [exact Heq|].
  assert (Hsome : is_some_fs (run_units ex_lay hx_units ex_s0) = true) by (vm_compute; reflexivity).
  destruct (run_units ex_lay hx_units ex_s0) as [s'|] eqn:E; [|discriminate]. exists s'. split; [reflexivity|].
  destruct (chain_run _ _ _ hx_chain ex_lay ex_s0 s' R_empty ex_s0_inv E) as [HR Hi]. rewrite <- Heq.
  split; [exact HR|]. split; [apply (hx_inv_of _ hx_history); exact Heq|]. split; [exact Hi|].
  repeat split.
  - rewrite (proj1 (HR [10; 20; 102])). vm_compute. reflexivity.
  - rewrite (proj1 (HR [10; 20; 100])). vm_compute. reflexivity.
  - rewrite (proj1 (HR [10; 20; 101])). vm_compute. reflexivity.
Qed.
