(* C07 -- invariants over histories and the property theorems (used by Props/C07.v). *)
From Coq Require Import List NArith ZArith Bool Lia.
Import ListNotations.
Require Import RV.Model.Sync RV.Proofs.SyncLemmas RV.Proofs.SyncInv.
Open Scope Z_scope.

(* ------------------------------------------------------------------ state plumbing *)
Lemma getc_setc : forall st c x c', getc (setc st c x) c' = if N.eqb c' c then x else getc st c'.
Proof. intros; unfold getc, setc; cbn. rewrite aget_ains. destruct (N.eqb c' c); reflexivity. Qed.
Lemma getc_setc_same : forall st c x, getc (setc st c x) c = x.
Proof. intros; rewrite getc_setc, N.eqb_refl; reflexivity. Qed.
Lemma getc_setc_other : forall st c x c', c' <> c -> getc (setc st c x) c' = getc st c'.
Proof. intros st c x c' H; rewrite getc_setc. apply N.eqb_neq in H; rewrite H; reflexivity. Qed.
Lemma getc_set_seed : forall st s c, getc (set_seed st s) c = getc st c.
Proof. reflexivity. Qed.
Lemma now_setc : forall st c x, st_now (setc st c x) = st_now st.
Proof. reflexivity. Qed.
Lemma now_set_seed : forall st s, st_now (set_seed st s) = st_now st.
Proof. reflexivity. Qed.

(* ------------------------------------------------------------------ collection-level invariant preservation *)
Lemma toks_ok_mono : forall now now' ts, now <= now' -> toks_ok now ts -> toks_ok now' ts.
Proof.
  intros now now' ts Hle H; unfold toks_ok in *. eapply Forall_impl; [| exact H].
  intros p [H1 H2]; split; [exact H1 | lia].
Qed.

Lemma inv_c_mono : forall now now' x, now <= now' -> inv_c now x -> inv_c now' x.
Proof. intros now now' x Hle [H1 H2 H3 H4]; constructor; auto. eapply toks_ok_mono; eassumption. Qed.

Lemma clean_history_sorted : forall cfg now items (hi : hist), asorted hi -> asorted (clean_history cfg now items hi).
Proof. intros; unfold clean_history; apply asorted_filter; assumption. Qed.
Lemma clean_history_wf : forall cfg now items (hi : hist), hist_wf hi -> hist_wf (clean_history cfg now items hi).
Proof. intros; unfold clean_history, hist_wf; apply Forall_filter_keep; assumption. Qed.

Lemma put_coll_inv : forall cfg now seed x h e x' seed',
  put_coll cfg now seed x h e = (x', seed') -> inv_c now x ->
  inv_c now x' /\ c_toks x' = c_toks x /\ c_exists x' = true.
Proof.
  intros cfg now seed x h e x' seed' H [H1 H2 H3 H4]. unfold put_coll in H.
  destruct (upd_hist now (c_hist x, seed) h (Some e)) as [[hi s1] he] eqn:E. inversion H; subst; clear H.
  destruct (upd_hist_inv _ _ _ _ _ _ _ _ E H2 H3) as [Hs [Hwf _]].
  split; [| split; reflexivity]. constructor; cbn.
  - apply asorted_ains; exact H1.
  - apply clean_history_sorted; exact Hs.
  - apply clean_history_wf; exact Hwf.
  - exact H4.
Qed.

Lemma del_coll_inv : forall cfg now seed x h x' seed',
  del_coll cfg now seed x h = (x', seed') -> inv_c now x ->
  inv_c now x' /\ c_toks x' = c_toks x /\ c_exists x' = true.
Proof.
  intros cfg now seed x h x' seed' H [H1 H2 H3 H4]. unfold del_coll in H.
  destruct (upd_hist now (c_hist x, seed) h None) as [[hi s1] he] eqn:E. inversion H; subst; clear H.
  destruct (upd_hist_inv _ _ _ _ _ _ _ _ E H2 H3) as [Hs [Hwf _]].
  split; [| split; reflexivity]. constructor; cbn.
  - apply asorted_adel; exact H1.
  - apply clean_history_sorted; exact Hs.
  - apply clean_history_wf; exact Hwf.
  - exact H4.
Qed.

Lemma move_same_coll_inv : forall cfg now seed x h h2 e x' seed',
  move_same_coll cfg now seed x h h2 e = (x', seed') -> inv_c now x ->
  inv_c now x' /\ c_toks x' = c_toks x /\ c_exists x' = true.
Proof.
  intros cfg now seed x h h2 e x' seed' H [H1 H2 H3 H4]. unfold move_same_coll in H.
  destruct (upd_hist now (c_hist x, seed) h2 (Some e)) as [[hi1 s1] he1] eqn:E1.
  destruct (upd_hist now (hi1, s1) h None) as [[hi2 s2] he2] eqn:E2. inversion H; subst; clear H.
  destruct (upd_hist_inv _ _ _ _ _ _ _ _ E1 H2 H3) as [Hs1 [Hwf1 _]].
  destruct (upd_hist_inv _ _ _ _ _ _ _ _ E2 Hs1 Hwf1) as [Hs2 [Hwf2 _]].
  split; [| split; reflexivity]. constructor; cbn.
  - destruct (N.eqb h h2); [exact H1 | apply asorted_ains, asorted_adel; exact H1].
  - apply clean_history_sorted; exact Hs2.
  - apply clean_history_wf; exact Hwf2.
  - exact H4.
Qed.

Lemma build_items_sorted : forall l, asorted (build_items l).
Proof. induction l as [| [h e] r IH]; cbn; [exact I | apply asorted_ains; exact IH]. Qed.

Lemma survive_cases : forall {A} b (l : list A), survive b l = l \/ survive b l = [].
Proof. intros A [|] l; cbn; auto. Qed.

Lemma reset_coll_inv : forall cfg now x ex l, asorted l -> inv_c now x -> inv_c now (reset_coll cfg x ex l).
Proof.
  intros cfg now x ex l Hl [H1 H2 H3 H4]. unfold reset_coll. constructor; cbn.
  - exact Hl.
  - destruct (survive_cases (sub_hist cfg) (c_hist x)) as [-> | ->]; [exact H2 | exact I].
  - destruct (survive_cases (sub_hist cfg) (c_hist x)) as [-> | ->]; [exact H3 | constructor].
  - destruct (survive_cases (sub_tok cfg) (c_toks x)) as [-> | ->]; [exact H4 | constructor].
Qed.

Lemma dropcache_coll_inv : forall cfg now x b, inv_c now x -> inv_c now (dropcache_coll cfg x b).
Proof.
  intros cfg now x b [H1 H2 H3 H4]. unfold dropcache_coll. constructor; cbn.
  - exact H1.
  - destruct (Bool.eqb b (sub_hist cfg)); [exact H2 | exact I].
  - destruct (Bool.eqb b (sub_hist cfg)); [exact H3 | constructor].
  - destruct (Bool.eqb b (sub_tok cfg)); [exact H4 | constructor].
Qed.

Lemma clean_tokens_ok : forall cfg now ts, toks_ok now ts -> toks_ok now (clean_tokens cfg now ts).
Proof. intros; unfold clean_tokens, toks_ok; apply Forall_filter_keep; assumption. Qed.

(* ------------------------------------------------------------------ sync at collection level *)
(* [settled x s]: recomputing the state of the collection writes nothing and yields the snapshot s *)
Definition settled (x : coll) (s : snapshot) : Prop :=
  forall now seed, compute_state now (c_items x) (c_hist x, seed) = ((c_hist x, seed), s).

Lemma tget_tok_ok : forall now ts t s mt, toks_ok now ts -> tget t ts = Some (s, mt) -> t = Tok s /\ mt <= now.
Proof.
  intros now ts t s mt Hok H. apply tget_In in H. unfold toks_ok in Hok; rewrite Forall_forall in Hok.
  apply (Hok _ H).
Qed.

Lemma sync_coll_inv : forall cfg now seed x a x' seed' r,
  sync_coll cfg now seed x a = (x', seed', r) -> inv_c now x ->
  inv_c now x' /\ c_items x' = c_items x /\ c_exists x' = c_exists x.
Proof.
  intros cfg now seed x a x' seed' r H Hinv. destruct Hinv as [H1 H2 H3 H4].
  unfold sync_coll in H.
  destruct a as [| | t]; [| inversion H; subst; repeat split; assumption |].
  - destruct (compute_state now (c_items x) (c_hist x, seed)) as [[hi s1] state] eqn:E.
    destruct (compute_state_spec _ _ _ _ _ _ _ E H1 H2 H3) as [Hs [Hwf _]].
    destruct (tget (Tok state) (c_toks x)) as [[s0 m0] |] eqn:Et; inversion H; subst; clear H.
    + split; [| split; reflexivity]. constructor; cbn; auto.
      apply Forall_tset; [| exact H4]. destruct (tget_tok_ok _ _ _ _ _ H4 Et) as [Hk _].
      split; cbn; [exact Hk | lia].
    + split; [| split; reflexivity]. constructor; cbn; auto.
      * destruct (sync_cleans_history cfg); [apply clean_history_sorted |]; exact Hs.
      * destruct (sync_cleans_history cfg); [apply clean_history_wf |]; exact Hwf.
      * apply clean_tokens_ok. apply Forall_tset; [| exact H4]. split; cbn; [reflexivity | lia].
  - destruct (compute_state now (c_items x) (c_hist x, seed)) as [[hi s1] state] eqn:E.
    destruct (compute_state_spec _ _ _ _ _ _ _ E H1 H2 H3) as [Hs [Hwf _]].
    destruct (token_eqb t (Tok state)); [inversion H; subst; split; [constructor; cbn; auto | split; reflexivity] |].
    destruct (tget t (c_toks x)) as [[s0 m0] |] eqn:Eo;
      [| inversion H; subst; split; [constructor; cbn; auto | split; reflexivity]].
    destruct (tget (Tok state) (c_toks x)) as [[s2 m2] |] eqn:Et; inversion H; subst; clear H.
    + split; [| split; reflexivity]. constructor; cbn; auto.
      apply Forall_tset; [| exact H4]. destruct (tget_tok_ok _ _ _ _ _ H4 Et) as [Hk _].
      split; cbn; [exact Hk | lia].
    + split; [| split; reflexivity]. constructor; cbn; auto.
      * destruct (sync_cleans_history cfg); [apply clean_history_sorted |]; exact Hs.
      * destruct (sync_cleans_history cfg); [apply clean_history_wf |]; exact Hwf.
      * apply clean_tokens_ok. apply Forall_tset; [| exact H4]. split; cbn; [reflexivity | lia].
Qed.

(* a token handed out is the hash of a snapshot that tells exactly the collection's current view *)
Lemma sync_coll_issue : forall cfg now seed x a x' seed' t d,
  sync_coll cfg now seed x a = (x', seed', Delta t d) -> inv_c now x ->
  exists s, t = Tok s /\ (forall h, view_of_snap s h = aget h (c_items x)) /\
            (sync_cleans_history cfg = false -> settled x' s).
Proof.
  intros cfg now seed x a x' seed' t d H [H1 H2 H3 H4]. unfold sync_coll in H.
  destruct a as [| | t0]; [| discriminate H |].
  - destruct (compute_state now (c_items x) (c_hist x, seed)) as [[hi s1] state] eqn:E.
    destruct (compute_state_spec _ _ _ _ _ _ _ E H1 H2 H3) as [_ [_ [Hv Hid]]].
    exists state.
    destruct (tget (Tok state) (c_toks x)) as [[s0 m0] |] eqn:Et; inversion H; subst; clear H;
      (split; [reflexivity | split; [exact Hv |]]); intro Hfix; unfold settled; cbn.
    + exact Hid.
    + rewrite Hfix. exact Hid.
  - destruct (compute_state now (c_items x) (c_hist x, seed)) as [[hi s1] state] eqn:E.
    destruct (compute_state_spec _ _ _ _ _ _ _ E H1 H2 H3) as [_ [_ [Hv Hid]]].
    exists state.
    destruct (token_eqb t0 (Tok state)).
    { inversion H; subst; clear H. split; [reflexivity | split; [exact Hv |]]. intros _; unfold settled; cbn; exact Hid. }
    destruct (tget t0 (c_toks x)) as [[s0 m0] |] eqn:Eo; [| discriminate H].
    destruct (tget (Tok state) (c_toks x)) as [[s2 m2] |] eqn:Et; inversion H; subst; clear H;
      (split; [reflexivity | split; [exact Hv |]]); intro Hfix; unfold settled; cbn.
    + exact Hid.
    + rewrite Hfix. exact Hid.
Qed.

(* what is not in the change list is unchanged with respect to the presented token's snapshot *)
Lemma changes_sound : forall (state old : snapshot) h, nmem h (changes state old) = false ->
  (forall he, aget h state = Some he -> aget h old = Some he) /\
  (aget h state = None -> aget h old = None).
Proof.
  intros state old h Hn.
  assert (Hnot : ~ In h (changes state old)).
  { intro Hc. apply nmem_true_iff in Hc. congruence. }
  unfold changes in Hnot. rewrite in_app_iff in Hnot. split.
  - intros he Hg.
    destruct (aget h old) as [he' |] eqn:Eo.
    + destruct (hetag_eqb he he') eqn:Ee; [apply hetag_eqb_eq in Ee; subst; reflexivity |].
      exfalso; apply Hnot; left. apply in_map_iff. exists (h, he); split; [reflexivity |].
      apply filter_In; split; [apply aget_In; exact Hg |]. cbn. rewrite Eo, Ee; reflexivity.
    + exfalso; apply Hnot; left. apply in_map_iff. exists (h, he); split; [reflexivity |].
      apply filter_In; split; [apply aget_In; exact Hg |]. cbn. rewrite Eo; reflexivity.
  - intro Hg. destruct (aget h old) as [he' |] eqn:Eo; [| reflexivity].
    exfalso; apply Hnot; right. apply filter_In; split.
    + apply amem_true_iff. unfold amem; rewrite Eo; reflexivity.
    + apply negb_true_iff. apply amem_false_iff; exact Hg.
Qed.

Lemma sync_coll_delta_sound : forall cfg now seed x s x' seed' t' d,
  sync_coll cfg now seed x (ATok (Tok s)) = (x', seed', Delta t' d) -> inv_c now x ->
  forall h, nmem h d = false -> view_of_snap s h = aget h (c_items x).
Proof.
  intros cfg now seed x s x' seed' t' d H [H1 H2 H3 H4] h Hn. unfold sync_coll in H.
  destruct (compute_state now (c_items x) (c_hist x, seed)) as [[hi s1] state] eqn:E.
  destruct (compute_state_spec _ _ _ _ _ _ _ E H1 H2 H3) as [_ [_ [Hv _]]].
  destruct (token_eqb (Tok s) (Tok state)) eqn:Eq.
  - apply token_eqb_eq in Eq. inversion Eq; subst state. apply Hv.
  - destruct (tget (Tok s) (c_toks x)) as [[s0 m0] |] eqn:Eo; [| discriminate H].
    destruct (tget_tok_ok _ _ _ _ _ H4 Eo) as [Hk _]. inversion Hk; subst s0.
    assert (Hd : d = changes state s).
    { destruct (tget (Tok state) (c_toks x)) as [[s2 m2] |]; inversion H; reflexivity. }
    subst d. destruct (changes_sound _ _ _ Hn) as [Hc1 Hc2].
    rewrite <- Hv. unfold view_of_snap.
    destruct (aget h state) as [he |] eqn:Es.
    + rewrite (Hc1 he eq_refl); reflexivity.
    + rewrite (Hc2 eq_refl); reflexivity.
Qed.

(* with the fix, a settled collection stays settled under sync, and sync answers with the settled token *)
Lemma sync_coll_settled : forall cfg now seed x a x' seed' r s,
  sync_cleans_history cfg = false -> settled x s ->
  sync_coll cfg now seed x a = (x', seed', r) ->
  settled x' s /\ c_exists x' = c_exists x /\
  (forall t d, r = Delta t d -> t = Tok s) /\
  (a = ANone -> exists d, r = Delta (Tok s) d) /\
  (a = ATok (Tok s) -> r = Delta (Tok s) []).
Proof.
  intros cfg now seed x a x' seed' r s Hfix Hset H. unfold sync_coll in H.
  assert (Hne_dummy : True) by exact I.
  Ltac fin_settled Hfix Hset :=
    split; [first [exact Hset | cbn; rewrite ?Hfix; exact Hset]
           | split; [reflexivity
           | split; [let Hr := fresh in intros ? ? Hr; inversion Hr; reflexivity
           | split; [let Ha := fresh in intro Ha; try discriminate Ha; eexists; reflexivity
                    | let Ha := fresh in intro Ha; try discriminate Ha; try reflexivity]]]].
  destruct a as [| | t].
  - rewrite (Hset now seed) in H.
    destruct (tget (Tok s) (c_toks x)) as [[s0 m0] |]; inversion H; subst; clear H; fin_settled Hfix Hset.
  - inversion H; subst; clear H. fin_settled Hfix Hset.
  - rewrite (Hset now seed) in H.
    destruct (token_eqb t (Tok s)) eqn:Eq.
    + apply token_eqb_eq in Eq; subst t. inversion H; subst; clear H. fin_settled Hfix Hset.
    + assert (Hne : ATok t <> ATok (Tok s)).
      { intro Hc; inversion Hc; subst t. rewrite token_eqb_refl in Eq; discriminate. }
      destruct (tget t (c_toks x)) as [[s0 m0] |].
      * destruct (tget (Tok s) (c_toks x)) as [[s2 m2] |]; inversion H; subst; clear H;
          fin_settled Hfix Hset; exfalso; apply Hne; assumption.
      * inversion H; subst; clear H; fin_settled Hfix Hset; exfalso; apply Hne; assumption.
Qed.

(* token files: a file younger than max age survives sync; its mtime never decreases *)
Lemma not_expired : forall cfg now m, now < m + max_age cfg -> m <= now -> expired cfg now m = false.
Proof.
  intros cfg now m H1 H2. unfold expired.
  assert (Hpos : 0 < max_age cfg) by lia. apply Z.ltb_lt in Hpos; rewrite Hpos.
  apply Z.leb_gt; lia.
Qed.

Lemma sync_coll_keeps_token : forall cfg now seed x a x' seed' r t s m m',
  sync_coll cfg now seed x a = (x', seed', r) -> inv_c now x ->
  tget t (c_toks x) = Some (s, m') -> m <= m' -> now < m + max_age cfg ->
  exists m'', tget t (c_toks x') = Some (s, m'') /\ m <= m''.
Proof.
  intros cfg now seed x a x' seed' r t s m m' H [H1 H2 H3 H4] Hg Hm Hage.
  destruct (tget_tok_ok _ _ _ _ _ H4 Hg) as [Hts Hm'].
  assert (Hkeep : forall tok state (ts := tset tok (state, now) (c_toks x)),
             tget tok (c_toks x) = None ->
             tget t (clean_tokens cfg now ts) = Some (s, m')).
  { intros tok state ts Hnone. unfold clean_tokens. apply tget_filter_keep.
    - unfold ts. rewrite tget_tset. destruct (token_eqb t tok) eqn:Eq; [| exact Hg].
      apply token_eqb_eq in Eq; subst tok. congruence.
    - cbn. rewrite not_expired; [reflexivity | lia | exact Hm']. }
  assert (Htouch : forall tok s2 m2, tget tok (c_toks x) = Some (s2, m2) ->
             exists m'', tget t (tset tok (s2, now) (c_toks x)) = Some (s, m'') /\ m <= m'').
  { intros tok s2 m2 Ht. rewrite tget_tset. destruct (token_eqb t tok) eqn:Eq.
    - apply token_eqb_eq in Eq; subst tok. rewrite Hg in Ht; inversion Ht; subst. exists now; split; [reflexivity | lia].
    - exists m'; split; [exact Hg | exact Hm]. }
  unfold sync_coll in H.
  destruct a as [| | t0]; [| inversion H; subst; exists m'; split; assumption |].
  - destruct (compute_state now (c_items x) (c_hist x, seed)) as [[hi s1] state].
    destruct (tget (Tok state) (c_toks x)) as [[s0 m0] |] eqn:Et; inversion H; subst; clear H; cbn.
    + eapply Htouch; exact Et.
    + exists m'; split; [apply Hkeep; exact Et | exact Hm].
  - destruct (compute_state now (c_items x) (c_hist x, seed)) as [[hi s1] state].
    destruct (token_eqb t0 (Tok state)); [inversion H; subst; exists m'; split; assumption |].
    destruct (tget t0 (c_toks x)) as [[s0 m0] |]; [| inversion H; subst; exists m'; split; assumption].
    destruct (tget (Tok state) (c_toks x)) as [[s2 m2] |] eqn:Et; inversion H; subst; clear H; cbn.
    + eapply Htouch; exact Et.
    + exists m'; split; [apply Hkeep; exact Et | exact Hm].
Qed.

(* the server writes or touches the token file whenever it hands the token out, except on the early return *)
Lemma sync_coll_writes_token : forall cfg now seed x a x' seed' t d,
  sync_coll cfg now seed x a = (x', seed', Delta t d) -> a <> ATok t -> 0 < max_age cfg ->
  exists s, tget t (c_toks x') = Some (s, now).
Proof.
  intros cfg now seed x a x' seed' t d H Hne Hpos.
  assert (Hnew : forall tok state, tget tok (clean_tokens cfg now (tset tok (state, now) (c_toks x))) = Some (state, now)).
  { intros tok state. unfold clean_tokens. apply tget_filter_keep.
    - rewrite tget_tset, token_eqb_refl; reflexivity.
    - cbn. rewrite not_expired; [reflexivity | lia | lia]. }
  unfold sync_coll in H.
  destruct a as [| | t0]; [| discriminate H |].
  - destruct (compute_state now (c_items x) (c_hist x, seed)) as [[hi s1] state].
    destruct (tget (Tok state) (c_toks x)) as [[s0 m0] |] eqn:Et; inversion H; subst; clear H; cbn.
    + exists s0. rewrite tget_tset, token_eqb_refl; reflexivity.
    + exists state. apply Hnew.
  - destruct (compute_state now (c_items x) (c_hist x, seed)) as [[hi s1] state].
    destruct (token_eqb t0 (Tok state)) eqn:Eq.
    { apply token_eqb_eq in Eq; subst t0. inversion H; subst. exfalso; apply Hne; reflexivity. }
    destruct (tget t0 (c_toks x)) as [[s0 m0] |]; [| discriminate H].
    destruct (tget (Tok state) (c_toks x)) as [[s2 m2] |] eqn:Et; inversion H; subst; clear H; cbn.
    + exists s2. rewrite tget_tset, token_eqb_refl; reflexivity.
    + exists state. apply Hnew.
Qed.

(* with a findable token sync never refuses *)
Lemma sync_coll_accepts : forall cfg now seed x t s m,
  tget t (c_toks x) = Some (s, m) -> exists x' seed' t' d, sync_coll cfg now seed x (ATok t) = (x', seed', Delta t' d).
Proof.
  intros cfg now seed x t s m Hg. unfold sync_coll.
  destruct (compute_state now (c_items x) (c_hist x, seed)) as [[hi s1] state].
  destruct (token_eqb t (Tok state)); [do 4 eexists; reflexivity |].
  rewrite Hg. destruct (tget (Tok state) (c_toks x)) as [[s2 m2] |]; do 4 eexists; reflexivity.
Qed.

(* ------------------------------------------------------------------ a REPORT whose token write fails *)
Lemma sync_coll_fail_cases : forall cfg now seed x a x' seed' r,
  sync_coll_fail cfg now seed x a = (x', seed', r) ->
  (exists r0, r = Some r0 /\ sync_coll cfg now seed x a = (x', seed', r0)) \/
  (r = None /\ exists state, compute_state now (c_items x) (c_hist x, seed) = ((c_hist x', seed'), state) /\
                x' = set_hist x (c_hist x')).
Proof.
  intros cfg now seed x a x' seed' r H. unfold sync_coll_fail in H.
  destruct (writes_new_token now seed x a).
  - right. destruct (compute_state now (c_items x) (c_hist x, seed)) as [[hi s1] state] eqn:E.
    inversion H; subst; clear H. split; [reflexivity |]. exists state; split; reflexivity.
  - left. destruct (sync_coll cfg now seed x a) as [[x0 s0] r0] eqn:E. inversion H; subst; clear H.
    exists r0; split; reflexivity.
Qed.

Lemma sync_coll_fail_inv : forall cfg now seed x a x' seed' r,
  sync_coll_fail cfg now seed x a = (x', seed', r) -> inv_c now x ->
  inv_c now x' /\ c_items x' = c_items x /\ c_exists x' = c_exists x /\ (r = None -> c_toks x' = c_toks x).
Proof.
  intros cfg now seed x a x' seed' r H Hinv.
  destruct (sync_coll_fail_cases _ _ _ _ _ _ _ _ H) as [[r0 [-> Hs]] | [-> [state [E Hx]]]].
  - destruct (sync_coll_inv _ _ _ _ _ _ _ _ Hs Hinv) as [H1 [H2 H3]].
    split; [exact H1 |]. split; [exact H2 |]. split; [exact H3 |]. intro Hc; discriminate Hc.
  - destruct Hinv as [H1 H2 H3 H4].
    destruct (compute_state_spec _ _ _ _ _ _ _ E H1 H2 H3) as [Hs [Hwf _]].
    rewrite Hx. cbn. split; [constructor; cbn; assumption |].
    split; [reflexivity |]. split; [reflexivity |]. intros _; reflexivity.
Qed.

Lemma sync_coll_fail_settled : forall cfg now seed x a x' seed' r s,
  sync_cleans_history cfg = false -> settled x s ->
  sync_coll_fail cfg now seed x a = (x', seed', r) -> settled x' s /\ c_exists x' = c_exists x.
Proof.
  intros cfg now seed x a x' seed' r s Hfix Hset H.
  destruct (sync_coll_fail_cases _ _ _ _ _ _ _ _ H) as [[r0 [-> Hs]] | [-> [state [E Hx]]]].
  - destruct (sync_coll_settled _ _ _ _ _ _ _ _ _ Hfix Hset Hs) as [H1 [H2 _]]. split; assumption.
  - rewrite (Hset now seed) in E. inversion E as [[Hh Hsd Hst]]. rewrite Hx. rewrite <- Hh.
    split; [| reflexivity]. unfold settled; cbn. rewrite <- Hst. exact Hset.
Qed.

(* ------------------------------------------------------------------ invariant over histories *)
Definition Inv (st : state) : Prop := forall c, inv_c (st_now st) (getc st c).

Lemma inv_init : Inv init_state.
Proof. intro c; unfold getc; cbn. constructor; cbn; try exact I; constructor. Qed.

Lemma inv_setc : forall st c x, Inv st -> inv_c (st_now st) x -> Inv (setc st c x).
Proof.
  intros st c x Hinv Hx c'. rewrite now_setc, getc_setc. destruct (N.eqb c' c); [exact Hx | apply Hinv].
Qed.

Lemma step_inv : forall cfg st o, Inv st -> Inv (fst (step cfg st o)).
Proof.
  intros cfg st o Hinv. destruct o as [c h e | c h | c h c2 h2 | c l | c | c b | dt | c a | c | c a]; cbn [step].
  - destruct (c_exists (getc st c)); [| exact Hinv].
    destruct (put_coll cfg (st_now st) (st_seed st) (getc st c) h (EText e)) as [x' s'] eqn:E; cbn.
    destruct (put_coll_inv _ _ _ _ _ _ _ _ E (Hinv c)) as [Hx _]. apply (inv_setc st c x' Hinv Hx).
  - destruct (c_exists (getc st c) && amem h (c_items (getc st c))); [| exact Hinv].
    destruct (del_coll cfg (st_now st) (st_seed st) (getc st c) h) as [x' s'] eqn:E; cbn.
    destruct (del_coll_inv _ _ _ _ _ _ _ E (Hinv c)) as [Hx _]. apply (inv_setc st c x' Hinv Hx).
  - destruct (if c_exists (getc st c) && c_exists (getc st c2) then aget h (c_items (getc st c)) else None) as [e |];
      [| exact Hinv].
    destruct (N.eqb c c2).
    + destruct (move_same_coll cfg (st_now st) (st_seed st) (getc st c) h h2 e) as [x' s'] eqn:E; cbn.
      destruct (move_same_coll_inv _ _ _ _ _ _ _ _ _ E (Hinv c)) as [Hx _]. apply (inv_setc st c x' Hinv Hx).
    + destruct (put_coll cfg (st_now st) (st_seed st) (getc st c2) h2 e) as [y' s1] eqn:E1.
      destruct (del_coll cfg (st_now st) s1 (getc st c) h) as [x' s2] eqn:E2; cbn.
      destruct (put_coll_inv _ _ _ _ _ _ _ _ E1 (Hinv c2)) as [Hy _].
      destruct (del_coll_inv _ _ _ _ _ _ _ E2 (Hinv c)) as [Hx _].
      apply (inv_setc (setc st c2 y') c x'); [apply (inv_setc st c2 y' Hinv Hy) | exact Hx].
  - cbn. apply inv_setc; [exact Hinv |]. apply reset_coll_inv; [apply build_items_sorted | apply Hinv].
  - destruct (c_exists (getc st c)); [| exact Hinv]. cbn.
    apply inv_setc; [exact Hinv |]. apply reset_coll_inv; [exact I | apply Hinv].
  - cbn. apply inv_setc; [exact Hinv |]. apply dropcache_coll_inv; apply Hinv.
  - cbn. intro c. unfold getc; cbn. apply inv_c_mono with (now := st_now st); [lia | apply Hinv].
  - destruct (c_exists (getc st c)); [| exact Hinv].
    destruct (sync_coll cfg (st_now st) (st_seed st) (getc st c) a) as [[x' s'] r] eqn:E; cbn.
    destruct (sync_coll_inv _ _ _ _ _ _ _ _ E (Hinv c)) as [Hx _]. apply (inv_setc st c x' Hinv Hx).
  - destruct (c_exists (getc st c)); [| exact Hinv].
    destruct (sync_coll cfg (st_now st) (st_seed st) (getc st c) ANone) as [[x' s'] r] eqn:E; cbn.
    destruct (sync_coll_inv _ _ _ _ _ _ _ _ E (Hinv c)) as [Hx _]. apply (inv_setc st c x' Hinv Hx).
  - destruct (c_exists (getc st c)); [| exact Hinv].
    destruct (sync_coll_fail cfg (st_now st) (st_seed st) (getc st c) a) as [[x' s'] r] eqn:E; cbn.
    destruct (sync_coll_fail_inv _ _ _ _ _ _ _ _ E (Hinv c)) as [Hx _]. apply (inv_setc st c x' Hinv Hx).
Qed.

Lemma run_inv : forall cfg ops st, Inv st -> Inv (run cfg st ops).
Proof. intros cfg ops; induction ops as [| o r IH]; intros st H; cbn; [exact H | apply IH, step_inv, H]. Qed.

Lemma run_app : forall cfg a b st, run cfg st (a ++ b) = run cfg (run cfg st a) b.
Proof. intros cfg a; induction a as [| o r IH]; intros b st; cbn; [reflexivity | apply IH]. Qed.

(* ------------------------------------------------------------------ the server hands out a token *)
Inductive issues (cfg : config) (st : state) (c : collid) (t : token) (st' : state) : Prop :=
| issue_report : forall a d, step cfg st (Sync c a) = (st', RSync (Delta t d)) -> issues cfg st c t st'
| issue_propfind : step cfg st (PTok c) = (st', RTok t) -> issues cfg st c t st'.

Lemma step_sync_inv : forall cfg st c a st' r,
  step cfg st (Sync c a) = (st', RSync r) ->
  c_exists (getc st c) = true /\
  exists x' seed', sync_coll cfg (st_now st) (st_seed st) (getc st c) a = (x', seed', r) /\
                   st' = set_seed (setc st c x') seed'.
Proof.
  intros cfg st c a st' r H. cbn [step] in H. destruct (c_exists (getc st c)); [| discriminate H].
  split; [reflexivity |].
  destruct (sync_coll cfg (st_now st) (st_seed st) (getc st c) a) as [[x' s'] r'] eqn:E.
  inversion H; subst. exists x', s'; split; reflexivity.
Qed.

Lemma issues_inv : forall cfg st c t st',
  issues cfg st c t st' ->
  c_exists (getc st c) = true /\
  exists a x' seed' d, sync_coll cfg (st_now st) (st_seed st) (getc st c) a = (x', seed', Delta t d) /\
                       st' = set_seed (setc st c x') seed'.
Proof.
  intros cfg st c t st' [a d H | H].
  - destruct (step_sync_inv _ _ _ _ _ _ H) as [He [x' [s' [Hs Hst]]]].
    split; [exact He |]. exists a, x', s', d; split; assumption.
  - cbn [step] in H. destruct (c_exists (getc st c)); [| discriminate H]. split; [reflexivity |].
    destruct (sync_coll cfg (st_now st) (st_seed st) (getc st c) ANone) as [[x' s'] r] eqn:E.
    destruct r as [| t0 d]; inversion H; subst. exists ANone, x', s', d; split; [exact E | reflexivity].
Qed.

(* ------------------------------------------------------------------ C07_converge *)
Lemma aget_apply_delta : forall (cur : view) d v h,
  aget h (apply_delta v (map (fun k => (k, aget k cur)) d)) = if nmem h d then aget h cur else aget h v.
Proof.
  intros cur d; induction d as [| k r IH]; intros v h; [reflexivity |].
  unfold apply_delta in *. cbn [map fold_left fst snd]. rewrite IH. unfold nmem. cbn [existsb].
  destruct (N.eqb h k) eqn:E; cbn [orb].
  - apply N.eqb_eq in E; subst k. destruct (existsb (N.eqb h) r); [reflexivity |].
    destruct (aget h cur) as [e |]; [rewrite aget_ains, N.eqb_refl | rewrite aget_adel, N.eqb_refl]; reflexivity.
  - destruct (existsb (N.eqb h) r); [reflexivity |].
    destruct (aget k cur) as [e |]; [rewrite aget_ains, E | rewrite aget_adel, E]; reflexivity.
Qed.

Theorem converge : forall cfg ops1 c t st_i' ops2 st_j' t' d,
  let st_i := run cfg init_state ops1 in
  issues cfg st_i c t st_i' ->
  let st_j := run cfg st_i' ops2 in
  step cfg st_j (Sync c (ATok t)) = (st_j', RSync (Delta t' d)) ->
  same_view (apply_delta (view_of st_i c) (multistatus st_j c d)) (view_of st_j c)
  /\ view_of st_j' c = view_of st_j c.
Proof.
  intros cfg ops1 c t st_i' ops2 st_j' t' d st_i Hiss st_j Hsync.
  assert (Hinv_i : Inv st_i) by (apply run_inv, inv_init).
  destruct (issues_inv _ _ _ _ _ Hiss) as [_ [a [x' [s' [d0 [Hs Hst]]]]]].
  destruct (sync_coll_issue _ _ _ _ _ _ _ _ _ Hs (Hinv_i c)) as [s [Ht [Hv _]]]. subst t.
  assert (Hinv_i' : Inv st_i').
  { destruct Hiss as [a0 d1 H | H]; [change st_i' with (fst (st_i', RSync (Delta (Tok s) d1))) |
                                      change st_i' with (fst (st_i', RTok (Tok s)))];
      rewrite <- H; apply step_inv; exact Hinv_i. }
  assert (Hinv_j : Inv st_j) by (apply run_inv; exact Hinv_i').
  destruct (step_sync_inv _ _ _ _ _ _ Hsync) as [_ [xj [sj [Hsj Hstj]]]].
  split.
  - intro h. unfold multistatus. rewrite aget_apply_delta.
    destruct (nmem h d) eqn:En; [reflexivity |].
    unfold view_of. rewrite <- (Hv h).
    apply (sync_coll_delta_sound _ _ _ _ _ _ _ _ _ Hsj (Hinv_j c) h En).
  - destruct (sync_coll_inv _ _ _ _ _ _ _ _ Hsj (Hinv_j c)) as [_ [Hit _]].
    subst st_j'. unfold view_of. rewrite getc_set_seed, getc_setc_same. exact Hit.
Qed.

Theorem converge_full : forall cfg ops1 c t st_i' ops2 st_j' r,
  let st_i := run cfg init_state ops1 in
  issues cfg st_i c t st_i' ->
  let st_j := run cfg st_i' ops2 in
  step cfg st_j (Sync c (ATok t)) = (st_j', RSync r) ->
  match r with
  | Refused => True
  | Delta t' d =>
      same_view (apply_delta (view_of st_i c) (multistatus st_j c d)) (view_of st_j c)
      /\ view_of st_j' c = view_of st_j c
  end.
Proof.
  intros cfg ops1 c t st_i' ops2 st_j' r st_i Hi st_j Hs. destruct r as [| t' d]; [exact I |].
  exact (converge cfg ops1 c t st_i' ops2 st_j' t' d Hi Hs).
Qed.

(* the token itself tells the view of the collection at the moment it is handed out *)
Theorem token_determines_view : forall cfg ops c t st',
  issues cfg (run cfg init_state ops) c t st' ->
  exists s, t = Tok s /\ forall h, view_of_snap s h = aget h (view_of (run cfg init_state ops) c).
Proof.
  intros cfg ops c t st' Hiss.
  destruct (issues_inv _ _ _ _ _ Hiss) as [_ [a [x' [s' [d0 [Hs Hst]]]]]].
  destruct (sync_coll_issue _ _ _ _ _ _ _ _ _ Hs (run_inv cfg ops _ inv_init c)) as [s [Ht [Hv _]]].
  exists s; split; assumption.
Qed.

(* ------------------------------------------------------------------ C07_uptodate / C07_propfind_eq *)
(* operations that leave collection c and its cache alone: time, any sync / PROPFIND, changes elsewhere *)
Definition quiet (c : collid) (o : op) : Prop :=
  match o with
  | Tick _ | Sync _ _ | PTok _ | SyncFail _ _ => True
  | Put c' _ _ | Del c' _ | Replace c' _ | DelColl c' | DropCache c' _ => c' <> c
  | Move c1 _ c2 _ => c1 <> c /\ c2 <> c
  end.

Definition settled_at (st : state) (c : collid) (s : snapshot) : Prop :=
  c_exists (getc st c) = true /\ settled (getc st c) s.

Lemma quiet_step_settled : forall cfg st c s o,
  sync_cleans_history cfg = false -> quiet c o -> settled_at st c s -> settled_at (fst (step cfg st o)) c s.
Proof.
  intros cfg st c s o Hfix Hq [Hex Hset].
  assert (Hsync : forall c' a, settled_at (fst (let x := getc st c' in
       if c_exists x then let '(x', seed, r) := sync_coll cfg (st_now st) (st_seed st) x a in
                          (set_seed (setc st c' x') seed, RSync r) else (st, RNoColl))) c s).
  { intros c' a. cbn zeta. destruct (c_exists (getc st c')) eqn:Ee; [| split; assumption].
    destruct (sync_coll cfg (st_now st) (st_seed st) (getc st c') a) as [[x' s'] r] eqn:E; cbn.
    unfold settled_at. rewrite getc_set_seed, getc_setc. destruct (N.eqb c c') eqn:Ec.
    - apply N.eqb_eq in Ec; subst c'.
      destruct (sync_coll_settled _ _ _ _ _ _ _ _ _ Hfix Hset E) as [Hs' [He' _]]. split; [congruence | exact Hs'].
    - split; assumption. }
  destruct o as [c' h e | c' h | c1 h c2 h2 | c' l | c' | c' b | dt | c' a | c' | c' a]; cbn [quiet] in Hq; cbn [step].
  - destruct (c_exists (getc st c')); [| split; assumption].
    destruct (put_coll cfg (st_now st) (st_seed st) (getc st c') h (EText e)) as [x' s']; cbn.
    unfold settled_at. rewrite getc_set_seed, getc_setc_other by congruence. split; assumption.
  - destruct (c_exists (getc st c') && amem h (c_items (getc st c'))); [| split; assumption].
    destruct (del_coll cfg (st_now st) (st_seed st) (getc st c') h) as [x' s']; cbn.
    unfold settled_at. rewrite getc_set_seed, getc_setc_other by congruence. split; assumption.
  - destruct Hq as [Hq1 Hq2].
    destruct (if c_exists (getc st c1) && c_exists (getc st c2) then aget h (c_items (getc st c1)) else None) as [e |];
      [| split; assumption].
    destruct (N.eqb c1 c2).
    + destruct (move_same_coll cfg (st_now st) (st_seed st) (getc st c1) h h2 e) as [x' s']; cbn.
      unfold settled_at. rewrite getc_set_seed, getc_setc_other by congruence. split; assumption.
    + destruct (put_coll cfg (st_now st) (st_seed st) (getc st c2) h2 e) as [y' s1].
      destruct (del_coll cfg (st_now st) s1 (getc st c1) h) as [x' s2]; cbn.
      unfold settled_at. rewrite getc_set_seed, !getc_setc_other by congruence. split; assumption.
  - cbn. unfold settled_at. rewrite getc_setc_other by congruence. split; assumption.
  - destruct (c_exists (getc st c')); [| split; assumption]. cbn.
    unfold settled_at. rewrite getc_setc_other by congruence. split; assumption.
  - cbn. unfold settled_at. rewrite getc_setc_other by congruence. split; assumption.
  - cbn. split; assumption.
  - apply (Hsync c' a).
  - specialize (Hsync c' ANone). cbn zeta in Hsync. destruct (c_exists (getc st c')); [| exact Hsync].
    destruct (sync_coll cfg (st_now st) (st_seed st) (getc st c') ANone) as [[x' s'] r]; exact Hsync.
  - destruct (c_exists (getc st c')) eqn:Ee; [| split; assumption].
    destruct (sync_coll_fail cfg (st_now st) (st_seed st) (getc st c') a) as [[x' s'] r] eqn:E; cbn.
    unfold settled_at. rewrite getc_set_seed, getc_setc. destruct (N.eqb c c') eqn:Ec; [| split; assumption].
    apply N.eqb_eq in Ec; subst c'.
    destruct (sync_coll_fail_settled _ _ _ _ _ _ _ _ _ Hfix Hset E) as [Hs' He']. split; [congruence | exact Hs'].
Qed.

Lemma quiet_run_settled : forall cfg c s ops st,
  sync_cleans_history cfg = false -> Forall (quiet c) ops -> settled_at st c s -> settled_at (run cfg st ops) c s.
Proof.
  intros cfg c s ops; induction ops as [| o r IH]; intros st Hfix Hq Hs; cbn; [exact Hs |].
  inversion Hq; subst. apply IH; [exact Hfix | assumption |]. apply quiet_step_settled; assumption.
Qed.

Lemma issues_settled : forall cfg ops c t st',
  sync_cleans_history cfg = false ->
  issues cfg (run cfg init_state ops) c t st' -> exists s, t = Tok s /\ settled_at st' c s.
Proof.
  intros cfg ops c t st' Hfix Hiss.
  destruct (issues_inv _ _ _ _ _ Hiss) as [Hex [a [x' [s' [d0 [Hs Hst]]]]]].
  pose proof (run_inv cfg ops _ inv_init c) as Hinv.
  destruct (sync_coll_issue _ _ _ _ _ _ _ _ _ Hs Hinv) as [s [Ht [_ Hset]]].
  destruct (sync_coll_inv _ _ _ _ _ _ _ _ Hs Hinv) as [_ [_ He]].
  exists s; split; [exact Ht |]. subst st'. unfold settled_at. rewrite getc_set_seed, getc_setc_same.
  split; [congruence | apply Hset; exact Hfix].
Qed.

(* up-to-date token: empty list, same token -- and this stays so while only time passes, other clients sync,
   or other collections change *)
Theorem uptodate : forall cfg ops1 c t st1 ops2,
  sync_cleans_history cfg = false ->
  issues cfg (run cfg init_state ops1) c t st1 ->
  Forall (quiet c) ops2 ->
  exists st3, step cfg (run cfg st1 ops2) (Sync c (ATok t)) = (st3, RSync (Delta t [])).
Proof.
  intros cfg ops1 c t st1 ops2 Hfix Hiss Hq.
  destruct (issues_settled _ _ _ _ _ Hfix Hiss) as [s [Ht Hs1]]. subst t.
  destruct (quiet_run_settled cfg c s ops2 st1 Hfix Hq Hs1) as [Hex Hset].
  set (st2 := run cfg st1 ops2) in *. cbn [step]. rewrite Hex.
  destruct (sync_coll cfg (st_now st2) (st_seed st2) (getc st2 c) (ATok (Tok s))) as [[x' s'] r] eqn:E.
  destruct (sync_coll_settled _ _ _ _ _ _ _ _ _ Hfix Hset E) as [_ [_ [_ [_ Hr]]]].
  rewrite (Hr eq_refl). eexists; reflexivity.
Qed.

(* PROPFIND's sync-token and the REPORT's token: equal on the same state ... *)
Theorem propfind_eq_same_state : forall cfg st c a st1 st2 t1 t2 d,
  step cfg st (PTok c) = (st1, RTok t1) -> step cfg st (Sync c a) = (st2, RSync (Delta t2 d)) -> t1 = t2.
Proof.
  intros cfg st c a st1 st2 t1 t2 d H1 H2. cbn [step] in H1, H2.
  destruct (c_exists (getc st c)); [| discriminate H1].
  unfold sync_coll in H1, H2.
  destruct (compute_state (st_now st) (c_items (getc st c)) (c_hist (getc st c), st_seed st)) as [[hi s1] state].
  assert (E1 : t1 = Tok state).
  { destruct (tget (Tok state) (c_toks (getc st c))) as [[s0 m0] |]; inversion H1; reflexivity. }
  assert (E2 : t2 = Tok state).
  { destruct a as [| | t0]; [| discriminate H2 |].
    - destruct (tget (Tok state) (c_toks (getc st c))) as [[s0 m0] |]; inversion H2; reflexivity.
    - destruct (token_eqb t0 (Tok state)); [inversion H2; reflexivity |].
      destruct (tget t0 (c_toks (getc st c))) as [[s0 m0] |]; [| discriminate H2].
      destruct (tget (Tok state) (c_toks (getc st c))) as [[s2 m2] |]; inversion H2; reflexivity. }
  congruence.
Qed.

(* ... and one after the other, in either order, with any quiet operations in between *)
Theorem propfind_eq_sequential : forall cfg ops1 c t st1 ops2,
  sync_cleans_history cfg = false ->
  issues cfg (run cfg init_state ops1) c t st1 ->
  Forall (quiet c) ops2 ->
  (exists st3, step cfg (run cfg st1 ops2) (PTok c) = (st3, RTok t)) /\
  (forall a st3 t' d, step cfg (run cfg st1 ops2) (Sync c a) = (st3, RSync (Delta t' d)) -> t' = t).
Proof.
  intros cfg ops1 c t st1 ops2 Hfix Hiss Hq.
  destruct (issues_settled _ _ _ _ _ Hfix Hiss) as [s [Ht Hs1]]. subst t.
  destruct (quiet_run_settled cfg c s ops2 st1 Hfix Hq Hs1) as [Hex Hset].
  set (st2 := run cfg st1 ops2) in *. split.
  - cbn [step]. rewrite Hex.
    destruct (sync_coll cfg (st_now st2) (st_seed st2) (getc st2 c) ANone) as [[x' s'] r] eqn:E.
    destruct (sync_coll_settled _ _ _ _ _ _ _ _ _ Hfix Hset E) as [_ [_ [_ [Hn _]]]].
    destruct (Hn eq_refl) as [d Hr]. subst r. eexists; reflexivity.
  - intros a st3 t' d H. destruct (step_sync_inv _ _ _ _ _ _ H) as [_ [x' [s' [E _]]]].
    destruct (sync_coll_settled _ _ _ _ _ _ _ _ _ Hfix Hset E) as [_ [_ [Hr _]]]. apply (Hr t' d eq_refl).
Qed.

(* ------------------------------------------------------------------ C07_not_refused_early *)
Definition no_reset (c : collid) (o : op) : Prop :=
  match o with
  | Replace c' _ | DelColl c' | DropCache c' _ => c' <> c
  | _ => True
  end.

Lemma step_now_mono : forall cfg st o, st_now st <= st_now (fst (step cfg st o)).
Proof.
  intros cfg st o. destruct o as [c h e | c h | c h c2 h2 | c l | c | c b | dt | c a | c | c a]; cbn [step].
  - destruct (c_exists (getc st c)); [| cbn; lia].
    destruct (put_coll cfg (st_now st) (st_seed st) (getc st c) h (EText e)); cbn; lia.
  - destruct (c_exists (getc st c) && amem h (c_items (getc st c))); [| cbn; lia].
    destruct (del_coll cfg (st_now st) (st_seed st) (getc st c) h); cbn; lia.
  - destruct (if c_exists (getc st c) && c_exists (getc st c2) then aget h (c_items (getc st c)) else None); [| cbn; lia].
    destruct (N.eqb c c2).
    + destruct (move_same_coll cfg (st_now st) (st_seed st) (getc st c) h h2 e); cbn; lia.
    + destruct (put_coll cfg (st_now st) (st_seed st) (getc st c2) h2 e) as [y' s1].
      destruct (del_coll cfg (st_now st) s1 (getc st c) h); cbn; lia.
  - cbn; lia.
  - destruct (c_exists (getc st c)); cbn; lia.
  - cbn; lia.
  - cbn; lia.
  - destruct (c_exists (getc st c)); [| cbn; lia].
    destruct (sync_coll cfg (st_now st) (st_seed st) (getc st c) a) as [[x' s'] r]; cbn; lia.
  - destruct (c_exists (getc st c)); [| cbn; lia].
    destruct (sync_coll cfg (st_now st) (st_seed st) (getc st c) ANone) as [[x' s'] r]; cbn; lia.
  - destruct (c_exists (getc st c)); [| cbn; lia].
    destruct (sync_coll_fail cfg (st_now st) (st_seed st) (getc st c) a) as [[x' s'] r]; cbn; lia.
Qed.

Lemma run_now_mono : forall cfg ops st, st_now st <= st_now (run cfg st ops).
Proof.
  intros cfg ops; induction ops as [| o r IH]; intro st; cbn; [lia |].
  pose proof (step_now_mono cfg st o). specialize (IH (fst (step cfg st o))). lia.
Qed.

Definition holds_token (st : state) (c : collid) (t : token) (m : Z) : Prop :=
  c_exists (getc st c) = true /\ exists s m', tget t (c_toks (getc st c)) = Some (s, m') /\ m <= m'.

Lemma no_reset_step_holds : forall cfg st c t m o,
  Inv st -> no_reset c o -> st_now st < m + max_age cfg ->
  holds_token st c t m -> holds_token (fst (step cfg st o)) c t m.
Proof.
  intros cfg st c t m o Hinv Hnr Hage [Hex [s [m' [Hg Hm]]]].
  assert (Hsame : holds_token st c t m) by (split; [exact Hex | exists s, m'; split; assumption]).
  assert (Hsync : forall c' a, holds_token (fst (let x := getc st c' in
       if c_exists x then let '(x', seed, r) := sync_coll cfg (st_now st) (st_seed st) x a in
                          (set_seed (setc st c' x') seed, RSync r) else (st, RNoColl))) c t m).
  { intros c' a. cbn zeta. destruct (c_exists (getc st c')) eqn:Ee; [| exact Hsame].
    destruct (sync_coll cfg (st_now st) (st_seed st) (getc st c') a) as [[x' s'] r] eqn:E; cbn.
    unfold holds_token. rewrite getc_set_seed, getc_setc. destruct (N.eqb c c') eqn:Ec; [| exact Hsame].
    apply N.eqb_eq in Ec; subst c'.
    destruct (sync_coll_inv _ _ _ _ _ _ _ _ E (Hinv c)) as [_ [_ He']].
    destruct (sync_coll_keeps_token _ _ _ _ _ _ _ _ _ _ _ _ E (Hinv c) Hg Hm Hage) as [m'' [Hg' Hm'']].
    split; [congruence | exists s, m''; split; assumption]. }
  assert (Hupd : forall x', c_toks x' = c_toks (getc st c) -> c_exists x' = true ->
                            c_exists x' = true /\ exists s0 m0, tget t (c_toks x') = Some (s0, m0) /\ m <= m0).
  { intros x' Ht He. split; [exact He |]. rewrite Ht. exists s, m'; split; assumption. }
  destruct o as [c' h e | c' h | c1 h c2 h2 | c' l | c' | c' b | dt | c' a | c' | c' a]; cbn [no_reset] in Hnr; cbn [step].
  - destruct (c_exists (getc st c')); [| exact Hsame].
    destruct (put_coll cfg (st_now st) (st_seed st) (getc st c') h (EText e)) as [x' s'] eqn:E; cbn.
    unfold holds_token. rewrite getc_set_seed, getc_setc. destruct (N.eqb c c') eqn:Ec; [| exact Hsame].
    apply N.eqb_eq in Ec; subst c'. destruct (put_coll_inv _ _ _ _ _ _ _ _ E (Hinv c)) as [_ [Ht He]].
    apply Hupd; assumption.
  - destruct (c_exists (getc st c') && amem h (c_items (getc st c'))); [| exact Hsame].
    destruct (del_coll cfg (st_now st) (st_seed st) (getc st c') h) as [x' s'] eqn:E; cbn.
    unfold holds_token. rewrite getc_set_seed, getc_setc. destruct (N.eqb c c') eqn:Ec; [| exact Hsame].
    apply N.eqb_eq in Ec; subst c'. destruct (del_coll_inv _ _ _ _ _ _ _ E (Hinv c)) as [_ [Ht He]].
    apply Hupd; assumption.
  - destruct (if c_exists (getc st c1) && c_exists (getc st c2) then aget h (c_items (getc st c1)) else None) as [e |];
      [| exact Hsame].
    destruct (N.eqb c1 c2) eqn:E12.
    + destruct (move_same_coll cfg (st_now st) (st_seed st) (getc st c1) h h2 e) as [x' s'] eqn:E; cbn.
      unfold holds_token. rewrite getc_set_seed, getc_setc. destruct (N.eqb c c1) eqn:Ec; [| exact Hsame].
      apply N.eqb_eq in Ec; subst c1. destruct (move_same_coll_inv _ _ _ _ _ _ _ _ _ E (Hinv c)) as [_ [Ht He]].
      apply Hupd; assumption.
    + destruct (put_coll cfg (st_now st) (st_seed st) (getc st c2) h2 e) as [y' s1] eqn:E1.
      destruct (del_coll cfg (st_now st) s1 (getc st c1) h) as [x' s2] eqn:E2; cbn.
      destruct (put_coll_inv _ _ _ _ _ _ _ _ E1 (Hinv c2)) as [_ [Hty Hey]].
      destruct (del_coll_inv _ _ _ _ _ _ _ E2 (Hinv c1)) as [_ [Htx Hex']].
      unfold holds_token. rewrite getc_set_seed, getc_setc. destruct (N.eqb c c1) eqn:Ec1.
      * apply N.eqb_eq in Ec1; subst c1. apply Hupd; assumption.
      * rewrite getc_setc. destruct (N.eqb c c2) eqn:Ec2; [| exact Hsame].
        apply N.eqb_eq in Ec2; subst c2. apply Hupd; assumption.
  - cbn. unfold holds_token. rewrite getc_setc_other by congruence. exact Hsame.
  - destruct (c_exists (getc st c')); [| exact Hsame]. cbn.
    unfold holds_token. rewrite getc_setc_other by congruence. exact Hsame.
  - cbn. unfold holds_token. rewrite getc_setc_other by congruence. exact Hsame.
  - cbn. exact Hsame.
  - apply (Hsync c' a).
  - specialize (Hsync c' ANone). cbn zeta in Hsync. destruct (c_exists (getc st c')); [| exact Hsync].
    destruct (sync_coll cfg (st_now st) (st_seed st) (getc st c') ANone) as [[x' s'] r]; exact Hsync.
  - destruct (c_exists (getc st c')) eqn:Ee; [| exact Hsame].
    destruct (sync_coll_fail cfg (st_now st) (st_seed st) (getc st c') a) as [[x' s'] r] eqn:E; cbn.
    unfold holds_token. rewrite getc_set_seed, getc_setc. destruct (N.eqb c c') eqn:Ec; [| exact Hsame].
    apply N.eqb_eq in Ec; subst c'.
    destruct (sync_coll_fail_inv _ _ _ _ _ _ _ _ E (Hinv c)) as [_ [_ [He' Ht']]].
    destruct (sync_coll_fail_cases _ _ _ _ _ _ _ _ E) as [[r0 [-> Hs]] | [-> _]].
    + destruct (sync_coll_keeps_token _ _ _ _ _ _ _ _ _ _ _ _ Hs (Hinv c) Hg Hm Hage) as [m'' [Hg' Hm'']].
      split; [congruence | exists s, m''; split; assumption].
    + split; [congruence |]. rewrite (Ht' eq_refl). exists s, m'; split; assumption.
Qed.

Lemma no_reset_run_holds : forall cfg c t m ops st,
  Inv st -> Forall (no_reset c) ops -> st_now (run cfg st ops) < m + max_age cfg ->
  holds_token st c t m -> holds_token (run cfg st ops) c t m.
Proof.
  intros cfg c t m ops; induction ops as [| o r IH]; intros st Hinv Hnr Hage Hh; cbn in *; [exact Hh |].
  inversion Hnr; subst.
  apply IH; [apply step_inv; exact Hinv | assumption | exact Hage |].
  apply no_reset_step_holds; try assumption.
  pose proof (run_now_mono cfg r (fst (step cfg st o))). pose proof (step_now_mono cfg st o). lia.
Qed.

(* a token is not refused before max_sync_token_age has passed since the server last wrote or touched its
   file (every hand-out except the early return "token presented = current token"), unless the collection or
   its cache folder was replaced or deleted in between *)
Theorem not_refused_early : forall cfg ops1 c a t d st1 ops2,
  let st0 := run cfg init_state ops1 in
  step cfg st0 (Sync c a) = (st1, RSync (Delta t d)) -> a <> ATok t ->
  Forall (no_reset c) ops2 ->
  let st2 := run cfg st1 ops2 in
  st_now st2 < st_now st0 + max_age cfg ->
  exists st3 t' d', step cfg st2 (Sync c (ATok t)) = (st3, RSync (Delta t' d')).
Proof.
  intros cfg ops1 c a t d st1 ops2 st0 Hstep Hne Hnr st2 Hage.
  assert (Hinv0 : Inv st0) by (apply run_inv, inv_init).
  assert (Hinv1 : Inv st1).
  { change st1 with (fst (st1, RSync (Delta t d))). rewrite <- Hstep. apply step_inv; exact Hinv0. }
  destruct (step_sync_inv _ _ _ _ _ _ Hstep) as [Hex [x' [s' [Hs Hst]]]].
  assert (Hnow1 : st_now st1 = st_now st0) by (subst st1; reflexivity).
  assert (Hpos : 0 < max_age cfg).
  { pose proof (run_now_mono cfg ops2 st1). fold st2 in H. lia. }
  destruct (sync_coll_writes_token _ _ _ _ _ _ _ _ _ Hs Hne Hpos) as [s Hg].
  destruct (sync_coll_inv _ _ _ _ _ _ _ _ Hs (Hinv0 c)) as [_ [_ He]].
  assert (Hh1 : holds_token st1 c t (st_now st0)).
  { subst st1. unfold holds_token. rewrite getc_set_seed, getc_setc_same. split; [congruence |].
    exists s, (st_now st0); split; [exact Hg | lia]. }
  destruct (no_reset_run_holds cfg c t (st_now st0) ops2 st1 Hinv1 Hnr Hage Hh1) as [Hex2 [s2 [m2 [Hg2 _]]]].
  fold st2 in Hex2, Hg2. cbn [step]. rewrite Hex2.
  destruct (sync_coll_accepts cfg (st_now st2) (st_seed st2) (getc st2 c) t s2 m2 Hg2) as [x2 [sd2 [t' [d' E]]]].
  rewrite E. do 3 eexists; reflexivity.
Qed.

(* the same for a token file known to exist (covers tokens handed out by PROPFIND and by the early return) *)
Theorem not_refused_while_file_young : forall cfg ops1 c t s m ops2,
  let st1 := run cfg init_state ops1 in
  c_exists (getc st1 c) = true -> tget t (c_toks (getc st1 c)) = Some (s, m) ->
  Forall (no_reset c) ops2 ->
  let st2 := run cfg st1 ops2 in
  st_now st2 < m + max_age cfg ->
  exists st3 t' d', step cfg st2 (Sync c (ATok t)) = (st3, RSync (Delta t' d')).
Proof.
  intros cfg ops1 c t s m ops2 st1 Hex Hg Hnr st2 Hage.
  assert (Hinv1 : Inv st1) by (apply run_inv, inv_init).
  assert (Hh1 : holds_token st1 c t m) by (split; [exact Hex | exists s, m; split; [exact Hg | lia]]).
  destruct (no_reset_run_holds cfg c t m ops2 st1 Hinv1 Hnr Hage Hh1) as [Hex2 [s2 [m2 [Hg2 _]]]].
  fold st2 in Hex2, Hg2. cbn [step]. rewrite Hex2.
  destruct (sync_coll_accepts cfg (st_now st2) (st_seed st2) (getc st2 c) t s2 m2 Hg2) as [x2 [sd2 [t' [d' E]]]].
  rewrite E. do 3 eexists; reflexivity.
Qed.

(* a REPORT whose token-file write fails leaves items and token files as they were (only the lazy history
   updates happened); being an ordinary operation of [run], all theorems above hold for histories containing it *)
Theorem failed_write_harmless : forall cfg ops c a st',
  let st := run cfg init_state ops in
  step cfg st (SyncFail c a) = (st', RFail) ->
  view_of st' c = view_of st c /\ c_toks (getc st' c) = c_toks (getc st c) /\
  forall c', c' <> c -> getc st' c' = getc st c'.
Proof.
  intros cfg ops c a st' st H. cbn [step] in H.
  destruct (c_exists (getc st c)); [| discriminate H].
  destruct (sync_coll_fail cfg (st_now st) (st_seed st) (getc st c) a) as [[x' s'] r] eqn:E.
  destruct r as [r0 |]; [discriminate H |]. inversion H; subst st'; clear H.
  destruct (sync_coll_fail_inv _ _ _ _ _ _ _ _ E (run_inv cfg ops _ inv_init c)) as [_ [Hi [_ Ht]]].
  unfold view_of. rewrite getc_set_seed, getc_setc_same. split; [exact Hi |]. split; [exact (Ht eq_refl) |].
  intros c' Hc. rewrite getc_set_seed. apply getc_setc_other; exact Hc.
Qed.
