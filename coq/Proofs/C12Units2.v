(* C12, part 3: delete, move, set_meta, one directory level. *)
From Coq Require Import List NArith Bool Lia PeanoNat.
Import ListNotations.
Require Import RV.Lib.Prog RV.Model.Fs RV.Model.StorageOps RV.Proofs.ProgLemmas RV.Proofs.FsLemmas
  RV.Proofs.FsInv RV.Proofs.MonLemmas RV.Proofs.CacheCalm RV.Proofs.C12Mon RV.Proofs.C12Units.
Open Scope N_scope.

Lemma GX_mono : forall X Y e, (forall d, In d X -> In d Y) -> GX X e -> GX Y e.
Proof. intros X Y e H [Hn|Hi]; [left; exact Hn | right; auto]. Qed.

Lemma IG_GX_nil : forall X m, IG (GX []) m -> IG (GX X) m.
Proof. intros X m H. eapply IG_weaken; [|exact H]. intros d Hd. eapply GX_mono; [|exact Hd]. intros ? []. Qed.

(* removal of a visible entry *)
Lemma unlink_GX : forall p m, IG (GX []) m -> IG (GX [DE p]) (dstep (Unlink p) m).
Proof. intros p m H. cbn [dstep]. apply IG_add; [right; left; reflexivity|]. apply IG_drop'. apply IG_GX_nil. exact H. Qed.
Lemma rmdir_GX : forall p m, IG (GX []) m -> IG (GX [DE p]) (dstep (Rmdir p) m).
Proof. intros p m H. cbn [dstep]. apply IG_add; [right; left; reflexivity|]. apply IG_drop'. apply IG_GX_nil. exact H. Qed.
Lemma mkdir_GX : forall p m, IG (GX []) m -> IG (GX [DE p]) (dstep (Mkdir p) m).
Proof. intros p m H. cbn [dstep]. apply IG_add; [right; left; reflexivity|]. apply IG_drop'. apply IG_GX_nil. exact H. Qed.

Lemma path_neq_snoc : forall (c : path) x, path_eqb c (c ++ [x]) = false.
Proof. intros. apply path_eqb_neq. apply snoc_neq_self. Qed.

Lemma nd_mkdir_tmp : forall d k, nondata_step (Mkdir (d ++ [Tmp k])) = true.
Proof. intros. cbn. apply (nd_tmp d k []). Qed.
Lemma nd_rmtree_tmp : forall d k, nondata_step (Rmtree (d ++ [Tmp k])) = true.
Proof. intros. cbn. apply (nd_tmp d k []). Qed.

Section Units2.
  Variable lay : layout.

  Lemma in1 : forall (A : Type) (a b : A), In b [a] -> a = b.
  Proof. intros A a b [H|[]]. exact H. Qed.

  (* Collection.delete(href) *)
  Lemma delete_item_c12 : forall c h exp s t, coll_path c = true -> is_safe h = true ->
    J12 [c] s t -> WP (delete_item lay c h exp) (J12 [c]) s t.
  Proof.
    intros c h exp s t Hc Hh H.
    assert (Hcd : forall c0, In c0 [c] -> is_data c0 = true) by (intros c0 Hi; apply in1 in Hi; subst; apply coll_is_data; exact Hc).
    assert (Hdir : forall s t, J12 [c] s t -> look s c = Some D) by (intros s0 t0 [_ Hd]; apply Hd; left; reflexivity).
    pose proof (J12_ok [c] Hcd) as Jok. pose proof (J12_fail [c]) as Jf. pose proof (coll_ne c Hc) as Hne.
    pose proof (coll_is_data c Hc) as Hdat.
    unfold delete_item. apply WP_read. intros [[|v]|]; try exact I. cbn [seqs].
    eapply WP_seq.
    { apply (J12_data_step [c] (Unlink (c ++ [h])) [DE (c ++ [h])]); [apply unlink_GX | | exact H].
      intros c0 Hi. apply in1 in Hi. subst c0. cbn. apply path_neq_snoc. }
    intros s1 t1 H1.
    eapply WP_seq.
    { apply (J12_fsyncD [c] c [DE (c ++ [h])]); [|exact H1]. intros e Hi. apply in1 in Hi. subst e. eexists. split; [reflexivity | apply parent_snoc]. }
    intros s2 t2 H2.
    eapply WP_seq; [apply calm_WP; [apply (calm_update_history _ Jok Jf c Hdir Hne Hdat) | exact H2]|].
    intros s3 t3 H3.
    eapply WP_seq; [apply calm_WP; [apply (calm_clean_history _ Jok Jf c) | exact H3]|].
    intros s4 t4 H4.
    apply calm_WP; [|exact H4]. apply calm_read. intros [[|v']|]; try apply calm_ret.
    apply calm_seq; [apply (calm_do _ Jok Jf); apply nd_cache | apply (calm_fsyncD _ Jok Jf)].
  Qed.

  (* Collection.delete() *)
  Lemma delete_coll_c12 : forall c s t, coll_path c = true -> J12 [] s t -> WP (delete_coll c) (J12 []) s t.
  Proof.
    intros c s t Hc H.
    assert (Hcd : forall c0, In c0 (@nil path) -> is_data c0 = true) by (intros c0 []).
    pose proof (coll_ne c Hc) as Hne.
    assert (HX : forall e, In e [DE c] -> exists p, e = DE p /\ parent p = parent c).
    { intros e Hi. apply in1 in Hi. subst e. eexists. split; reflexivity. }
    unfold delete_coll, WP, machine_wp. cbn [wp]. split; [exact I|]. split.
    - intro e. apply (J12_fail [] (Rmdir c)) in H. revert H. generalize (t ++ [(Rmdir c, false)]). intros t' H.
      change (WP (with_tmp (parent c) (fun t0 => Seq (Do (Rename c (t0 ++ [last_name c]))) (fsyncD (parent c)))) (J12 []) s t').
      unfold with_tmp. apply WP_fresh. intro k.
      eapply WP_seq; [apply WP_do; intros s' Ha; apply (J12_ok [] Hcd _ _ _ _ (nd_mkdir_tmp _ _) H Ha)|].
      intros s1 t1 H1. apply WP_finally.
      eapply WP_seq.
      { apply (J12_data_step [] (Rename c ((parent c ++ [Tmp k]) ++ [last_name c])) [DE c]); [ | intros c0 [] | exact H1].
        intros m Hm. eapply IG_rename; [exact Hm | | right; left; reflexivity | left; cbn; rewrite <- app_assoc; apply is_data_tmp].
        intros d Hg Hu Hne'. destruct Hg as [Hg|[]].
        assert (Hnew : is_data (dpath (dmap (rekey c ((parent c ++ [Tmp k]) ++ [last_name c])) d)) = false).
        { rewrite dpath_dmap. unfold rekey. destruct (prefix c (dpath d)); [|exact Hg].
          rewrite <- !app_assoc. apply is_data_tmp. }
        split; [left; exact Hnew | intros _; exact Hnew]. }
      intros s2 t2 H2.
      eapply WP_seq; [apply (J12_fsyncD [] (parent c) [DE c] _ _ HX H2)|].
      intros s3 t3 H3. apply WP_ret. apply WP_do. intros s' Ha. apply (J12_ok [] Hcd _ _ _ _ (nd_rmtree_tmp _ _) H3 Ha).
    - intros s' Ha.
      change (WP (fsyncD (parent c)) (J12 []) s' (t ++ [(Rmdir c, true)])).
      apply (J12_fsyncD [] (parent c) [DE c]); [exact HX|]. destruct H as [Hm _]. split; [|intros c0 []].
      rewrite mon_of_ok. apply rmdir_GX. exact Hm.
  Qed.

  (* Collection.set_meta *)
  Lemma set_meta_c12 : forall c pv s t, J12 [c] s t -> WP (set_meta c pv) (J12 [c]) s t.
  Proof.
    intros c pv s t H. unfold set_meta. apply WP_catch_raise.
    - intros [e| |]; eexists; reflexivity.
    - apply (aw_J12 [c]); [|exact H]. intros c0 Hi. apply in1 in Hi. subst. apply prefix_refl.
  Qed.

  (* one level of _makedirs_synced *)
  Lemma mkdir_synced_c12 : forall p s t, p <> [] -> J12 [] s t -> WP (mkdir_synced p) (J12 []) s t.
  Proof.
    intros p s t Hp H. unfold mkdir_synced. apply WP_read. intros n.
    assert (Hgo : WP (Seq (Do (Mkdir p)) (fsyncD (parent p))) (J12 []) s t).
    { eapply WP_seq.
      - apply (J12_data_step [] (Mkdir p) [DE p]); [apply mkdir_GX | intros c0 [] | exact H].
      - intros s1 t1 H1. apply (J12_fsyncD [] (parent p) [DE p]); [|exact H1].
        intros e Hi. apply in1 in Hi. subst e. eexists. split; reflexivity. }
    destruct n as [[|v]|]; [exact H | exact Hgo | exact Hgo].
  Qed.
End Units2.
